"""Per-property metadata used in evidence files (rule text, trusted base, assumptions)."""

COMMON_TB = [
    "Lean 4.33 kernel + Mathlib v4.33 (axioms propext, Classical.choice, Quot.sound only; audited by #print axioms on every run)",
    "Lean compiler/runtime executing the core-only model (driver exe)",
    "Go harness: exact float<->rational encoding, generators, recover-based panic mapping",
    "correspondence is sampled: code = model only on the generated cases",
    "IEEE rounding of the Go code is not modelled (exact rational model + stated tolerance)",
    "go/types shape pass (tools/extract/shape.go): call-graph reachability from the functions declared in the property's anchor files, per-function literals / package variables read / writes through parameters; its digest is compared with what the model mirrors by the kernel-evaluated theorem state_Cxx, and its constants are the generators' dictionary",
    "go/ast fact extractor (constants, literals of curated functions, package-level variables, their writers and readers, struct fields, function lists with receiver kinds, writes through parameters): regenerated on every run and compared with what the model accounts for by kernel-evaluated theorems facts_Cxx / state_Cxx",
]

META = {}

META["C13"] = dict(
    level_text="Theorems (Lean, all histories): the Add/Combine update rules, executed exactly, keep every accumulator equal to the batch statistics of the multiset that flowed into it, for every merge tree incl. empty operands and self-combine. Correspondence: the real StreamStats is run on generated histories and compared field by field with that model within rounding tolerances.",
    level_note="Trusted: Lean kernel, the harness and its generators (sampling), exact-vs-float tolerance constants. Float rounding of the Go updates is modelled by the tolerance, not verified.",
    technique="Lean 4 invariant proof by induction over operation histories + differential correspondence",
    rule="histories over <=6 StreamStats accumulators ([a,i,x] add, [c,i,j] acc i.Combine(acc j), [r,i] readout): "
         "every split point of short streams in both merge directions with further adds after the merge, plus random "
         "merge trees with self-combines, repeated combines and empty operands; values carry offsets up to 1e9 spreads. "
         "non-trivial = history with >=1 combine and >=3 adds; distinct = distinct input line",
    exhaustive_part="",
    trusted_base=COMMON_TB,
    assumptions=["tolerances: Total 2n*eps*sum|x|, Mean 8n*eps*max|x|, Variance 16n*eps*(M*D+D^2), RMS/StdDev compared squared; Count/Min/Max exact",
                 "Variance/StdDev only constrained for count>=2, Min/Max/Mean/RMS for count>=1 (as the property states)"],
)

META["C18"] = dict(
    level_text="Theorems (Lean): the bit-level NodeMarks model refines a set of naturals under every Mark/Unmark/Test/Next history; DotString round-trips through unescape; the SCC checker holdsSCC is sound w.r.t. path-defined mutual reachability; the Tarjan mirror's output satisfies it for every graph (tarjan_holds: components partition the nodes, are exactly the classes of mutual reachability, numbered in reverse topological order); DFS with fuel visits exactly the reachable nodes with nested intervals; structural facts of the subgraph/transpose/simplify models. Correspondence: every traversal, SCC, SimplifyMulti, subgraph, transpose, Equal and Dot result of the real code is compared exactly with the model (SCC through the checker plus partition equality with the definitional partition) on exhaustive small digraphs, random multigraphs and structured graphs up to 100000 nodes.",
    level_note="Trusted: Lean kernel; harness generators (sampling). Tarjan's algorithm has a Lean mirror (MV.Graph.tarjan) proved correct for every graph (C18Tarjan.tarjan_holds: its output passes the proved-sound SCC checker; S1-S5); the Go output is compared with the mirror and, independently, judged by the checker. Go map iteration and sort are not modelled.",
    technique="Lean 4 refinement/soundness proofs incl. a proved mirror of Tarjan's algorithm + exact differential correspondence on exhaustive and random graphs",
    rule="ops marks/pre/post/euler/rev/scc/simp/keep/remove/bigraph/equal/dots/dot. Exhaustive: all digraphs with self-loops on <=3 nodes (thorough <=4, plus a 1/8 sample of 5-node loop-free digraphs), every root. Random multigraphs <=60 nodes; paths/cycles/trees/layered DAGs/descending paths up to 20000 (thorough 100000) nodes; marks histories with indices around word and power-of-two boundaries. non-trivial = graph with >=3 nodes (history with >=3 ops; multigraph with a parallel edge for simp); distinct = distinct input line",
    exhaustive_part="all digraphs with self-loops on <=3 (thorough <=4) nodes, every root, for pre/post/scc",
    trusted_base=COMMON_TB,
    assumptions=["graphs are valid (successor ids < number of nodes); Mark/Unmark indices non-negative (Test/Next take any integer)",
                 "SubgraphKeep is called with distinct in-range nodes and edges among kept nodes (its documented precondition)"],
)

META["C19"] = dict(
    level_text="Theorems (Lean): dominance by node deletion is equivalent to 'every root path passes through d'; the executable definitional specs idomSpec/dfSpec are what the property states; the Lean mirrors of the Cooper-Harvey-Kennedy fixpoint iteration and of the frontier walk compute exactly those specs for every graph and root (idomCHK_eq_spec, domFrontierCHK_spec). Correspondence: IDom, Dom and DomFrontier of the real code equal the definitional specs exactly (frontier as sets, with the root proviso) on exhaustive small digraphs and random reducible/irreducible graphs with unreachable parts; panics and time-outs are failures.",
    level_note="Trusted: Lean kernel; harness generators (sampling). The Cooper-Harvey-Kennedy iteration and the frontier walk have Lean mirrors proved equal to the definitional specs for every graph (C19CHK.idomCHK_eq_spec, domFrontierCHK_spec); Go's output is compared with spec and mirror.",
    technique="Lean 4 definitional spec with characterisation theorems and a proved mirror of the Cooper-Harvey-Kennedy algorithm + exact differential correspondence",
    rule="ops idom/df/dom on all digraphs with self-loops on <=3 nodes and every root (thorough: <=4 nodes, plus a 1/6 sample of 5-node loop-free digraphs; quick adds a 1/40 sample of 4-node graphs), random graphs 2..40 nodes: uniform multigraphs at 5 densities, structured flow graphs (reducible / with irreducible edges / with unreachable nodes feeding reachable joins), ids permuted. non-trivial = >=3 nodes (df: some non-empty frontier)",
    exhaustive_part="all digraphs with self-loops on <=3 (thorough <=4) nodes, every root",
    trusted_base=COMMON_TB,
    assumptions=["graphs are valid; root < number of nodes", "root membership in frontiers compared only when the root has 0 or >=2 incoming edges (the property's proviso)"],
)

MWU_TB = COMMON_TB + ["normal-approximation p-values are compared against an interval enclosure of Phi computed by MV.I.Phi (series + Mills bounds); its soundness over the reals is stated in MV/Proofs/Interval.lean where proved, otherwise trusted"]

META["C02"] = dict(
    level_text="Theorems (Lean, all N1,N2,T): the executed count tables (forward generating-function DP over tie groups; Mann-Whitney recurrence table) equal the definitional count over allocation vectors weighted by prod C(t_k,r_k), i.e. the number of size-N1 subsets of the ranked pool with 2U<=2u; consequences: CDF monotone, total mass 1 (Vandermonde), mirror law between (N1,N2,T) and (N2,N1,T); the Cheung-Klotz recursion with pruning and floor division equals the same count (aK_eq_countSpec); six integer helper functions (maxint, minint, sumint, hasTies, twoUmin, twoUmax) are translated from the Go source on every run by tools/go2lean and proved equal to the model functions (C02Gen) where listed in the evidence. Correspondence: UDist.CDF/PMF of the real code are compared with that exact rational value (rtol 1e-9) on every (N1,N2,T) with N<=8 (thorough 11) over the whole half-integer grid plus off-grid reals, and on random cases up to 50+50 untied and 25+25 tied.",
    level_note="Trusted: Lean kernel, harness sampling. Go's float rounding (exp-lgamma Choose for n>20, DP in float64) is absorbed by rtol 1e-9/atol 1e-12. PMF is compared at attainable points only, as the property states.",
    technique="Lean 4 proof that the executed DP equals subset counting + exact rational differential correspondence",
    rule="ud n1 n2 T cdf|pmf u. Exhaustive: every (N1,N2) with N<=8 (thorough 11), T nil and every composition of N into >=2 parts, u on the half-integer grid -1..N1N2+1 (sampled 1/4 in the interior for N>=10) plus 3 random off-grid reals; random larger cases to 50+50 untied / 25+25 tied with u at the centre, tails, grid and off-grid. non-trivial = tied with >=2 ranks, or untied with N>=6",
    exhaustive_part="all (N1,N2,T) with N1+N2<=8 (thorough <=9 dense, 10-11 with sampled interior grid)",
    trusted_base=COMMON_TB,
    assumptions=["T is nil or a valid tie vector with >=2 ranks summing to N1+N2", "PMF compared only at attainable grid points (mass>0); CDF everywhere"],
)
META["C01"] = dict(
    level_text="Theorems (Lean, all inputs): U computed from mid-ranks equals the pair count #{a>b}+#{a=b}/2; pair count is invariant under permutation and strictly monotone maps; the exact tails are Pr[U'<=U], Pr[U'>=U] over the C02 distribution (half-integer grid argument) and lie in [0,1]. Correspondence: MannWhitneyUTest of the real code is compared with the model (N1,N2,U exactly, P to rtol 1e-9) for every tie vector, every allocation and every alternative with N<=7 (thorough 10) and random cases up to the limits.",
    level_note="Trusted: as C02. One open known finding (F1c, two-sided exact P on asymmetric tie vectors) is recognised by signature and reported as KNOWN-FINDING; any other deviation is a violation.",
    technique="Lean 4 proofs (rank formula = pair counting; tails over the proved exact distribution) + exact differential correspondence",
    rule="mwu x1 x2 alt 50 25. Exhaustive: every composition T of N<=7 (thorough 10) into >=2 ranks, every allocation r<=t with 0<n1<N, all three alternatives; values are distinct per rank, pushed through a random monotone map and shuffled. Random: sizes to 50+50 untied / 25+25 tied, biased to two distinct values, one big group, extreme U. non-trivial = tied, or both samples >=3 values",
    exhaustive_part="every (T, allocation, alternative) with N1+N2<=7 (thorough 10)",
    trusted_base=COMMON_TB,
    assumptions=["finite inputs; exact-method limits at their defaults (50, 25)"],
)
META["C03"] = dict(
    level_text="Theorems (Lean): swap law U(x2,x1)=N1N2-U(x1,x2); error characterisation (one tie group iff all pooled values equal; variance zero iff all equal); the decision logic of the model (method selection by the two limits, continuity corrections) is the property's formula; the normal approximation's mean N1N2/2 and tie-corrected variance are exactly the mean and variance of the exact distribution of C02 for every tie vector (C03Moments.U_mean_pmf, U_variance_pmf). Correspondence: the real code is run at several settings of the two limit variables on samples up to 400 values and compared with the model: N1,N2,U,error kind and argument slices exactly, exact P to 1e-9, approximate P against the proved enclosure of Phi at the model's exact z, held to its own size (1e-9 relative however small) where the formula evaluates Phi(z) directly and to 2^-48 where it evaluates 1-Phi(z).",
    level_note="Trusted: as C01, plus the Phi enclosure (MV.I.Phi) used as reference for the approximate branch. Laws (reorder, monotone map, swap) are theorems of the model; the generator emits swapped/reordered/mapped variants so the code is compared on them.",
    technique="Lean 4 proofs of the laws on the model + differential correspondence at several limit configurations",
    rule="mwu x1 x2 alt exactLimit tiesLimit with limits in {(50,25),(0,0),(3,3),(1e6,1e6),(10,40)}; sizes straddle 25/50 (+-3), small, and up to 400+400; tie levels none/coarse grid/heavy/all-equal; empties; swapped, reordered, monotone-mapped and other-method variants of the same data. non-trivial = tied, or both samples >=3",
    exhaustive_part="",
    trusted_base=MWU_TB,
    assumptions=["finite inputs", "P range checked with 1e-12 slack (P = 1+2e-16 from float rounding of count/C(N,n1) is not treated as a violation)"],
)
for k, t in [("C01", "U = pair count, exact P = permutation tail"), ("C02", ""), ("C03", "")]:
    pass

META["C06"] = dict(
    level_text="Theorems (Lean) now include a mirror of the code's CDF algorithm (Klotz's series pmf(k)*sum of term ratios, on the distribution itself or on the mirrored one) proved equal to the definitional CDF whichever side is summed (C06Klotz.hypCDFalg_eq, hypSeries_mul, hypPMF_mirror, hypCDF_mirror). Theorems (Lean): the rational PMFs sum to 1 (binomial theorem, Vandermonde), CDF is the partial sum (monotone, 0 below / 1 from the top of the support), mean and variance are the first two moments, support is where the PMF is non-zero. Correspondence: PMF, CDF, Bounds, Step, Mean, Variance and NormalApprox of the real code are compared with the exact rational model (atol 1e-10; p is transmitted exactly so the model uses the very float the code used).",
    level_note="Trusted: Lean kernel, harness sampling. BetaInc/Lchoose/math.Pow rounding is absorbed by atol 1e-10 (the property's tolerance). Large N uses short dyadic p so that exact arithmetic stays small.",
    technique="Lean 4 proofs about exact rational PMFs + exact rational differential correspondence",
    rule="bin n p pmf|cdf|misc k; hyp N K D pmf|cdf|misc k. Binomial: N<=60 (quick: N<=8 and multiples of 7, plus 20,21,60; 1/6 of the p grid) on p in {j/100} + {0,1,1e-12,1-1e-12,2^-40,1-2^-40}, every k from -2 to N+2 and sampled half-integers; random N 61..1000 with dyadic p. Hypergeometric: every (N,K,D) with N<=14 (thorough 40, sampled above 25), every k from support-2 to support+2; random N to 1000. non-trivial = N>=2 and 0<p<1 (binomial), non-degenerate support (hypergeometric)",
    exhaustive_part="hypergeometric: all (N,K,Draws) with N<=14 (thorough <=25) and all k around the support",
    trusted_base=COMMON_TB,
    assumptions=["0<=P<=1, 0<=N<=1000; N>=2, 0<=K,Draws<=N", "atol 1e-10 as in the property"],
)

META["C14"] = dict(
    level_text="Theorems (Lean): bin x = i iff BinToValue i <= x < BinToValue (i+1) for the linear rule; every Add increments exactly one counter (conservation under any history); BinToValue is strictly increasing and affine; the rank walk returns the bin holding the goal-th binned sample with in-bin rank, is monotone in the goal and is NaN exactly when that sample is in the under/over-flow; LogHist over the reals (C14Log): bin = floor(m log_b x) iff BinToValue(i) <= x < BinToValue(i+1), BinToValue strictly increasing, conservation, and soundness of the judge's candidate bins and BinToValue enclosures (pos_sound, candsRange_sound, judge_sound, b2v_sound). Correspondence: counters after every history (exact off bin edges, either neighbour within rounding distance of an edge), BinToValue, HistogramQuantile and HistogramIQR of the real code against the model, for linear and logarithmic histograms.",
    level_note="Trusted: Lean kernel, harness sampling; LogHist positions m*log_b(x) are enclosed by MV.I.logQ (interval arithmetic; soundness per MV/Proofs/Interval.lean where proved). Near-tie policy: a value within 8-16 eps (relative) of an edge may land in either neighbouring bin, as the property allows.",
    technique="Lean 4 proofs about the binning rule and rank walk + differential correspondence over Add histories",
    rule="lh min max n xs qs bs / gh b m max xs qs bs: one histogram history per line (0..60 adds, thorough 0..500), 1..50 bins, values dense just below the first edge, at exact edges, around the top edge and far outside; q in {0,1,j/total,random}; LogHist bases 2..10 with 1..4 bins per power, max at exact powers and arbitrary. non-trivial = >=3 adds",
    exhaustive_part="",
    trusted_base=COMMON_TB,
    assumptions=["finite positive x for LogHist; min<max; HistogramQuantile at goal=floor(q*total)=0 accepts NaN (the property is silent there)",
                 "the harness also asserts after every single Add that the grand total grew by exactly one"],
)

SMP_RULE = ("smp [ops]: one history per line over up to 6 named Samples: new (0..40 values, thorough 0..200, offsets up to 1e9 spreads, repeats, "
            "optional weights: integer with zeros / positive / 0-1 / dyadic / all zero; Sorted flag only on ascending data), sort, copy (then sort the copy and dump the original), "
            "dump (contents + flag), queries. non-trivial = history with >=2 operations after the constructors; distinct = distinct input line")
META["C09"] = dict(
    level_text="Theorems (Lean): the incremental (Welford) mean/variance folds equal sum/n and the (n-1)-denominator definition for every list; the weighted incremental mean equals sum(wx)/sum(w) whenever the total weight is non-zero (zero weights skipped); statistics are permutation invariant; Sort yields an ascending permutation of the (value, weight) pairs and is idempotent; integer weights behave as repetition. Correspondence: histories of Sort/Copy/queries on real Samples are compared with the heap model (Bounds, Weight of unit weights, Sort order, Copy contents exactly; Mean/Variance/Sum within the stated forward-error bounds; GeoMean/StdDev against interval enclosures), plus the vec helpers.",
    level_note="Trusted: Lean kernel, harness sampling, interval enclosures of log/exp/sqrt (MV.I) for GeoMean, Logspace. Float summation order is not modelled; tolerances Mean 16(n+2)eps*max|x|, Variance 16(n+2)eps(M*D+D^2).",
    technique="Lean 4 proofs (fold = definition, permutation invariance, sort correctness) + differential correspondence over Sample histories",
    rule=SMP_RULE + "; vec sum/linspace/logspace/concat/map on random slices",
    exhaustive_part="",
    trusted_base=COMMON_TB + ["MV.I interval enclosures (log, exp) for GeoMean and Logspace"],
    assumptions=["finite data; weights non-negative; GeoMean of weighted data only checked for positive data (the property specifies NaN only for unweighted non-positive data)",
                 "weighted Variance/StdDev are not implemented by the library (panic) and are not called"],
)
META["C10"] = dict(
    level_text="Theorems (Lean): the model quantile is the Hyndman-Fan type 8 definition with clamping; it is non-decreasing in q, lies between min and max, returns them at q<=0 / q>=1, is invariant under permutation and under the Sorted flag on ascending data; the weighted quantile is the first ascending value whose cumulative weight exceeds qW. Correspondence: Sample.Quantile and IQR of the real code are compared with the model on histories (so that the sample is also checked to be unmodified by dumps afterwards), with q at the exact break points and their float neighbours.",
    level_note="Trusted: Lean kernel, harness sampling. The unweighted quantile is continuous in h, so rounding of h is absorbed by tolerance 32 eps((n+1)*maxgap+max|x|); the weighted quantile is a step function: either neighbour is accepted when q*W is within 16(n+1)eps*W of a cumulative weight.",
    technique="Lean 4 proofs about the R8 definition + differential correspondence with break-point-directed generation",
    rule=SMP_RULE + "; quantile queries dominate: q at (j-1/3)/(n+1/3) and its float neighbours, {0,1,-0.5,1.5,.25,.5,.75}, near the clamping thresholds, uniform in [-0.5,1.5]; IQR",
    exhaustive_part="",
    trusted_base=COMMON_TB,
    assumptions=["finite data; positive or zero weights"],
)

META["C16"] = dict(
    level_text="Theorems (Lean): Linear.map sends Min to 0 and Max to 1, is affine and strictly monotone, unmap is its two-sided inverse for Min!=Max; with clamping map lies in [0,1] and is unchanged inside the domain; degenerate domains map to 1/2; NewLog accepts exactly the zero-free ranges with base>=2; the same laws for the Log scale stated over the reals in log|x|; QQ composition inverts. Correspondence: Map/Unmap/SetClamp/NewLog/QQ of the real code against the model (Linear exactly up to 8 eps; Log against interval enclosures of log/exp).",
    level_note="Trusted: Lean kernel, harness sampling, MV.I enclosures for the Log scale. math.Log/Exp rounding is absorbed by tolerances proportional to 64 eps * sum|log| / |logMax-logMin|.",
    technique="Lean 4 proofs of the scale laws + differential correspondence (interval enclosures for the Log scale)",
    rule="sc <scale> map|unmap x, sc newlog a b base, sc <src> <dst> map|unmap x (QQ, all four pairings). Domains: integers, |Min|,|Max| log-uniform in [1e-12,1e12] with both signs, centre+-width, quarter-integers; both orders; degenerate 1/20; clamp on 1/3; x at Min, Max, midpoint, within 100 widths. non-trivial = every case (each exercises one law instance)",
    exhaustive_part="",
    trusted_base=COMMON_TB + ["MV.I interval enclosures (log, exp) for the Log scale"],
    assumptions=["finite domains; Log domains exclude zero"],
)
META["C17"] = dict(
    level_text="Theorems (Lean): for every non-increasing count function, every guess and every option set, FindLevel returns the least level in [MinLevel,MaxLevel] whose count is at most Max, and fails exactly when none exists; Linear tick counts are non-increasing in the level and equal the length of the tick list; ticks are ascending multiples of the level's spacing inside the slack-extended domain; majors are a subset of minors. Correspondence: FindLevel on exhaustive step-shaped count tables; Linear/Log Ticks, CountTicks, TicksAtLevel and Nice of the real code against the exact model (Log through interval enclosures), plus the property's clauses evaluated directly on the code's output (ascending, inside the domain, at most Max, majors in minors, count = len, count monotone, Nice never shrinks, idempotent and tick-aligned for Max>=3).",
    level_note="Trusted: Lean kernel, harness sampling, MV.I enclosures for Log ticks. Near-tie policy: when perturbing the library's 1e-10 slack by +-1% changes the model's level or tick range the equality part is skipped (counted as amb); the output clauses are still checked. 'Inside the domain' and 'never shrinks' are read up to the library's own slack (2e-10 of the width).",
    technique="Lean 4 proof of FindLevel for all monotone tickers + differential correspondence with near-tie policy",
    rule="findlevel table lo Max MinLevel MaxLevel guess: all non-increasing tables of length<=4 (thorough 5) with values 0..5, two offsets, Max 0..5, 7 level ranges, 6 guesses (quick: 1/6 sample). lticks/lnice: widths 1e-9..1e9, |centre|/width up to 1e3, nice-valued bounds, bases {0,2,3,5,10,16}, Max 1..20 (also 0), level limits 1/4 of cases. gticks/gnice: positive and negative domains spanning up to 1e-100..1e100, bases {10,2,3,5,16}. non-trivial = non-degenerate domain with Max>=1",
    exhaustive_part="FindLevel: all non-increasing count tables of length <=5 over 0..5 (thorough)",
    trusted_base=COMMON_TB + ["MV.I interval enclosures (log) for Log ticks"],
    assumptions=["finite domains; Log domains exclude zero; Base not 1 or negative"],
)

META["C11"] = dict(
    level_text="Theorems (Lean, n<=30, all n q c): the greedy mirror keeps the invariant accum = sum of PMF over [l,r), starts at a binomial mode, returns orders in [0,n+1] with lo<hi, confidence >= c unless the interval is the whole range, its last added bucket was needed, intervals are nested in c, and Ambiguous implies the shifted interval has equal mass. Correspondence: QuantileCI of the real code is compared with the mirror off float near-ties, and every clause of the property is evaluated exactly (rational binomial masses) on the code's own output for every (n<=30, q grid, c grid incl. each cumulative level and its float neighbours); for n>30 the band is checked against interval enclosures of the normal quantile/CDF; SampleCI against sorted order statistics.",
    level_note="Trusted: Lean kernel, harness sampling, MV.I.Phi enclosure (n>30). Near-tie policy: when two bucket masses or accum and c are within 1e-12 the (lo,hi,Ambiguous) equality is skipped (clauses still checked).",
    technique="Lean 4 invariant proofs for the greedy accumulation + exact rational clause evaluation on the code's outputs",
    rule="qci n q [c...] (ascending c, one line per (n,q)); n=1..30 with q on {j/40} and 1e-9, 1-1e-9 (quick: n<=6 all, 1/4 of the rest), c on a grid of 12 (thorough 200) levels plus 0.9,0.95,0.99,0.999,1,1.5,-0.1 plus every cumulative confidence level of the greedy accumulation and its two float neighbours; n in {31,32,50,100,1000,2000} and random n<=330 for the normal branch; sci n q c xs sorted for SampleCI. non-trivial = n>=2 and 0<q<1",
    exhaustive_part="n=1..30 x q grid (thorough) x c grid with all cumulative levels",
    trusted_base=COMMON_TB + ["MV.I.Phi enclosure of the normal CDF and its inverse by bisection (n>30)"],
    assumptions=["n>=1, 0<=q<=1", "the interval is allowed to contain either mode when (n+1)q is an integer"],
)

META["C07"] = dict(
    level_text="Theorems (Lean): for a right-continuous non-decreasing CDF the spec quantile(y)=inf{x | cdf x >= y} satisfies the Galois connection quantile y <= x <-> y <= cdf x, hence is non-decreasing and (inverse-transform) {y | quantile y <= x} = (0, cdf x]; the piecewise model's `quantile` computes that spec; the bracket/bisection mirror keeps cdf lo < y <= cdf hi for every midpoint rule, so on exit lo < quantile y <= hi. Correspondence: InvCDF of the real code on user-defined piecewise CDFs (ramps, jumps, flats, anywhere within +-1e6) and on the built-in binomial, hypergeometric, UDist and t distributions against the exact quantile (1e-9 relative), the NaN / end-point cases, the own-method dispatch, and Rand = InvCDF(first non-zero Float64 of the same seeded source) bit for bit.",
    level_note="Trusted: Lean kernel, harness sampling; math/rand uniformity (outside the repository) for the distributional part of Rand; float midpoint/spacing of the bisection is not modelled (tolerance 1e-9 relative + 1e-12).",
    technique="Lean 4 proofs (Galois connection, bisection invariant) + differential correspondence on generated CDFs",
    rule="inv pw <knots> y: random well-formed piecewise CDFs with 1..12 knots, dyadic levels, jumps/flats/ramps, centred at 0, +-1e6 etc. with widths 1e-3..1e6; y uniform, at exact flat/jump levels and their float neighbours, inside jumps, 2^-k, 1-2^-k, 0, 1, outside, NaN. inv bin/hyp/ud/cont for built-ins (y also at the code's own jump levels). rnd: Rand vs InvCDF on the same seed. non-trivial = every case",
    exhaustive_part="",
    trusted_base=COMMON_TB,
    assumptions=["user CDFs are non-decreasing, right-continuous, 0 before the first knot and 1 from the last", "discrete built-ins: when y is within 1e-10 of a cumulative level either neighbouring grid point is accepted"],
)

META["C15"] = dict(
    level_text="Theorems (Lean): if the normal equations X^T W X b = X^T W y hold with w>=0 then for every b', SSE(b') - SSE(b) = (b'-b)^T X^T W X (b'-b) >= 0 and the weighted residual is orthogonal to every basis function, so a validated exact solve is a minimiser; the evaluation loop of F computes sum c_i x^i; tricube weights vanish at the window radius; the window start found by the search predicate selects q consecutive points that are nearest to the query. Correspondence: LinearLeastSquares, PolynomialRegression (coefficients and F) and LOESS of the real code against exact rational solves (validated by A b = rhs on every case) within a tolerance scaled by the exact condition number; orthogonality and no-descent evaluated on the code's own coefficients; LOESS locality, order independence, history independence of the returned closure and unmodified inputs checked bit for bit.",
    level_note="Trusted: Lean kernel, harness sampling. The model's Gauss-Jordan solve is proved sound (solve_sound) and also validated per input. gonum's solver and math.Pow are not modelled; designs with kappa_inf(X^T W X) > 1e10 are skipped (counted).",
    technique="Lean 4 proofs (normal equations imply minimiser) + exact rational differential correspondence with condition-number-scaled tolerance",
    rule="lls xs ys ws X (1..4 smooth basis functions from {1,x,sin,cos,exp,1/(1+x^2),x^2,tanh 2x} evaluated by the harness and transmitted), preg xs ys ws degree evalpoints (degree 0..6, data from a polynomial of degree <= d, optionally noisy), loess xs ys degree span queries (degree 0..2, span in (0,1], sorted and shuffled input, queries at the ends, at data points and inside). 3..40 distinct x in [-2,2] (or rescaled/offset), optional positive weights. non-trivial = every case not skipped",
    exhaustive_part="",
    trusted_base=COMMON_TB,
    assumptions=["distinct x; LOESS windows hold at least degree+3 points", "coefficient tolerance 256(n+p+2)*kappa*eps*scale"],
)


META["C12"] = dict(
    level_text="Theorems (Lean, Epanechnikov and delta kernels, any positive weights and bandwidth): the kernel pdf is non-negative, the kernel cdf is non-decreasing from 0 to 1 and is the antiderivative of the pdf piecewise, so the unbounded estimate is a proper distribution with integral of PDF = difference of CDF; the reflection formulas for one and two boundaries. Correspondence: KDE.PDF/CDF of the real code against the model for three kernels and four boundary configurations (Gaussian through proved-sound interval enclosures of phi and Phi; reflected images summed until negligible), the lazily filled Bandwidth against Scott's rule, BandwidthScott/Silverman against interval formulas, and Bounds evaluated on the model CDF (finite, inside the boundaries, >= 98% of the mass); non-negativity, range and monotonicity checked on the code's outputs.",
    level_note="Trusted: Lean kernel, harness sampling, interval enclosures (MV.I, soundness proved in MV/Proofs/Interval.lean). The `series` stopping rule and float summation are not modelled (rtol 1e-9 + 1e-12). Cases needing more than 6000 kernel evaluations per point in the exact model are skipped (counted). Delta-kernel atoms within 1e-9 relative of a Bounds end point count as inside.",
    technique="Lean 4 proofs about kernels and reflection + differential correspondence with interval enclosures",
    rule="kde xs ws kernel h bmin bmax queries: 1..40 values on a dyadic grid at several centres/scales, optional positive weights, kernels epan/gauss/delta, h from 0.02 to 50 spreads (0 = Scott's rule), boundaries none / lower / upper / both at distances {0, h, h/3, 5, 100 spreads}; ascending query grid incl. kernel support ends and the boundaries and their float neighbours. bw xs for the bandwidth rules. non-trivial = every case not skipped",
    exhaustive_part="",
    trusted_base=COMMON_TB + ["MV.I interval enclosures (exp, sqrt, pi, Phi), proved sound in MV/Proofs/Interval.lean"],
    assumptions=["data inside the boundaries; positive weights; positive bandwidth (or 0 on unweighted samples with non-zero spread)"],
    search_limit=1500,
)

META["C04"] = dict(
    level_text="Theorems (Lean): the model statistics are the textbook expressions (pooled, Welch-Satterthwaite, paired, one-sample) with the library's error checks in the library's order; swapping the samples negates the numerator and keeps the denominator and DoF; shifting and positive scaling leave T^2, sign and DoF unchanged. Correspondence: N1, N2, sign(T), T^2, DoF and the error kind of the real code against the exact rational model (tolerance scaled by the cancellation factors of the data); P, at every DoF (integer or Welch's real one), against the proved Student-t reference MV.Special.tCDFgen evaluated at the exact T (C05StudentT.tCDFgen_encloses_cdf: it encloses the integral of the t density); the closed-form t CDF at integer DoF is only a cross-check (reference-consistency); wiring P = tail of the library's own CDF at (T,DoF); MeanCI: mean, symmetry, finiteness and t-content of the interval equal to c, from the same reference.",
    level_note="Trusted: Lean kernel, harness sampling, MV.I enclosures and the closed-form t CDF at integer DoF (MV.Special.tCDF, numerically cross-checked; its derivation is textbook and not formalised). Welch's non-integer DoF: P is compared with the general-parameter t CDF reference MV.Special.tCDFgen, which is proved to enclose the Student-t CDF defined as the integral of the density (C05StudentT.tCDFgen_encloses_cdf, built on the proved incomplete-beta and log-Gamma references of C08)",
    technique="Lean 4 proofs of the statistic identities and of the Student-t reference (series -> incomplete beta integral -> t CDF) + exact rational differential correspondence",
    rule="tt pooled|welch|paired|one x1 x2 mu0 alt, meanci xs c. 2..40 values per sample (small sizes 1/5; sizes 0/1 1/25 for the error cases), centres {0,1,100,-5000,1e5,999990}, spreads 2^-4..2^4, unequal variances, zero-variance samples, mismatched paired lengths, mu0 near and far, all three alternatives; swapped and shifted/scaled variants; a short paired test right after a long one; MeanCI at c in {0,1,-0.5,1.5,.5,.9,.95,.99,1e-6,1-1e-9,random}. non-trivial = every case not skipped",
    exhaustive_part="",
    trusted_base=COMMON_TB + ["closed-form Student-t CDF at integer DoF (MV.Special.tCDF) as P reference"],
    assumptions=["|x|<=1e6, relative spread >= 1e-6 (cases whose forward-error factor exceeds 1e-6 are skipped and counted)"],
)

META["C05"] = dict(
    level_text="Theorems (Lean): the interval enclosures of the normal density and CDF are sound for every rational argument (MV.Proofs.Interval: phi_sound, Phi_sound, where Phi is defined as the Gaussian integral), so every NormalDist PDF/CDF value and every InvCDF round trip is decided against a certified reference (relative 1e-9 down to p=1e-300 through the enveloping tail series); DeltaDist is exact. Student t: for every real V in [0.1,1e4] CDF against the proved reference tCDFgen (C05StudentT: studentT_cdf, tCDFgen_encloses_cdf - the returned interval contains the integral of the t density over (-inf,t]; built on the proved incomplete-beta series, B = Gamma Gamma/Gamma and the log-Gamma enclosure from the incomplete-gamma series), PDF against the density formula with that log-Gamma enclosure, closed forms at integer V as cross-checks, plus the laws (range, monotone, symmetry, limits, non-negative density) on the code's outputs; NormalDist.Rand against the variate of the same source and for a nil source.",
    level_note="The normal distribution is decided against proved enclosures (Phi defined as the Gaussian integral). TDist at every real V in range is decided against MV.Special.tCDFgen, proved to enclose the integral of the Student-t density over (-inf, t] (C05StudentT.studentT_cdf, tCDFgen_encloses_cdf; chain: fixed-point series loop -> real series -> incomplete beta integral -> substitution u = V/(V+s^2); log Gamma from the proved incomplete-gamma series). The integer-V closed forms are now only a cross-check (clause reference-consistency). Conditional on the series loops terminating within their fuel, which the driver checks per case. Partial only in that float rounding of the Go code is absorbed by the 1e-9 tolerance, not modelled",
    technique="Lean 4 proved interval references (Phi as the Gaussian integral; Student-t CDF via proved incomplete-beta and log-Gamma enclosures) + laws on outputs, differential correspondence",
    rule="nd mu sigma pdf|cdf|inv|misc x: mu in +-{0,1,100,1e6}, sigma log-uniform 1e-6..1e6 (standard normal 1/4), z up to +-40 incl. 0, +-7, 37; p in (0,1): uniform, 10^-U(0,300), 1-10^-U(0,15), the branch points 0.02425, ends and outside; td V grid xs: V integer 1..40, {1,2,3,100,170,171,300,342,343,344,399,400}, or log-uniform real in [0.1,1e4], symmetric ascending grids with |x| from 1e-7 to 40; dd T pdf|cdf|inv x around the atom. non-trivial = every case",
    exhaustive_part="",
    trusted_base=COMMON_TB + ["MV.I enclosures of exp/sqrt/pi/Phi (soundness in MV/Proofs/Interval.lean)", "closed-form Student-t PDF/CDF at integer V (MV.Special)"],
    assumptions=["Sigma>0; 0.1<=V<=1e4"],
)
META["C08"] = dict(
    level_text="Theorems (Lean): the general-parameter references are sound over the reals: gammaRegI_encloses_P (the returned interval contains the regularised incomplete gamma integral: fixed-point series loop invariant, series = integral by iterated integration by parts, far upper tail, log Gamma from the same series: lgammaS_sound), betaRegIWith_encloses + lbetaI_sound (hypergeometric series loop invariant, series = incomplete beta integral, reflection I_x(a,b) = 1 - I_(1-x)(b,a), B = Gamma Gamma/Gamma); chooseFast = Nat.choose; integer-parameter closed forms (betaIncR_eq_integral, gammaIncInt_sound, lchoose_sound). Correspondence: BetaInc and GammaInc/GammaIncComp over the whole stated parameter range (and x up to MaxFloat64) against those references to 1e-9, with the closed forms on integer / half-integer slices as cross-checks (reference-consistency); Beta against exp(lbetaI); Choose (exact for n<=20, 1e-10 relative to 1000), Lchoose, Beta at integers, Sign; and for real parameters across the whole stated range the laws evaluated on the code's outputs: range, monotone in x on ascending dyadic grids, complement identity I_x(a,b)+I_(1-x)(b,a)=1 (1-x exact), 0/1 at the ends, NaN outside, P+Q=1; panics and non-convergence are failures.",
    level_note="References are proved end to end in Lean against Mathlib's Real.Gamma and interval integrals: GammaInc/GammaIncComp (C08LogGamma.gammaRegI_encloses_P: series loop invariant, series = integral by iterated integration by parts, far tail by a proved bound, log Gamma from the same series), BetaInc (C08BetaIdentity.betaRegIWith_encloses with C05StudentT.lbetaI_sound: hypergeometric series loop invariant, series = incomplete beta integral, reflection, B = Gamma Gamma/Gamma), integer-parameter closed forms, Lchoose. The half-integer closed forms and the Stirling enclosure are only cross-checks (clause reference-consistency). Conditional on the series loops terminating within their fuel, which the driver checks per case. Partial only in that float rounding of the Go code is absorbed by the stated tolerances, not modelled",
    technique="Lean 4 proved interval references for the incomplete gamma and beta functions and log Gamma (series loop invariants + integral identities over the reals) + identities evaluated on outputs, differential correspondence",
    rule="mx betagrid a b xs (a,b log-uniform in [0.05,300]; integers to 300; (k/2,1/2) slices; corners; x dyadic, ascending, incl. 0, 1, the mean a/(a+b), the branch switch (a+1)/(a+b+2) and its neighbours, 10^-U(0,12), 1-10^-U(0,12)); mx gammagrid a xs (a real / integer / half-integer; x at 0, a, a+1 and neighbours, lognormal around a, tiny, 1000; NaN cases); mx choose n k (all n<=70 quick / n<=1000 thorough with sampling above 60, out-of-range k); mx beta a b; mx sign x. non-trivial = every case",
    exhaustive_part="Choose/Lchoose: all (n,k) with n<=70 (thorough: n<=60 all, 1/4 sample to 1000)",
    trusted_base=COMMON_TB + ["MV.I enclosures; closed forms MV.Special.{betaIncInt,betaIncHalf,gammaIncInt,gammaIncHalf}"],
    assumptions=["0<=x<=1, 0.05<=a,b<=300 (BetaInc); 0.05<=a<=300, x>=0 (GammaInc)"],
)

INTERVAL_PROOFS = ["MV.Proofs.Interval"]   # soundness of every MV.I enclosure over the reals
for _p in ["C03", "C04", "C05", "C08", "C09", "C11", "C12", "C14", "C16", "C17"]:
    META[_p]["extra_modules"] = INTERVAL_PROOFS


def _race_post(prop, tier, seed, work, goenv, repo, build_harness):
    """C20: replay the generated programs in a binary built with -race; every data race the
    detector reports is a failing case (mapped back to the program through CASE markers)."""
    import os, subprocess
    exe, err = build_harness(work, race=True)
    if exe is None:
        return [("race build", "bad-op race build failed: " + err[-300:].replace("\n", " "))]
    gen = subprocess.run([exe, "gen", prop, tier, str(seed)], capture_output=True, text=True, env=goenv, timeout=1800)
    lines = gen.stdout.splitlines()
    limit = 150 if tier == "quick" else 3000
    lines = lines[:limit]
    env = dict(goenv, GORACE="halt_on_error=0 exitcode=0", VERIF_CASE_MARKERS="1")
    p = subprocess.run([exe, "exec"], input="\n".join(lines) + "\n", capture_output=True, text=True, env=env, timeout=7200)
    cur, racy = 0, {}
    stderr = p.stderr.splitlines()
    for i, l in enumerate(stderr):
        if l.startswith("CASE "):
            cur = int(l.split()[1])
        elif "WARNING: DATA RACE" in l:
            ctx = " ".join(x.strip() for x in stderr[i:i + 12] if "go-moremath" in x or "harness" in x)[:300]
            racy.setdefault(cur, ctx)
    out = []
    outs = p.stdout.splitlines()
    for k, ctx in sorted(racy.items()):
        case = outs[k - 1] if 0 < k <= len(outs) else (lines[k - 1] if 0 < k <= len(lines) else "?")
        out.append((case, "FAIL data-race " + (ctx or "race detector report")))
    out.append((f"race-run programs={len(lines)} completed={len(outs)}", "ok nt race-detector-run" if len(outs) == len(lines) else "FAIL race-run-incomplete the -race binary stopped early: " + p.stderr[-300:].replace("\n", " ")))
    return out


META["C20"] = dict(
    level_text="Theorems (Lean): in the heap-machine model only the documented in-place operations write, and only their receiver; outputs depend only on the named arguments (repeatability); any interleaving of non-mutating calls yields, call for call, the sequential outputs. Correspondence: for random programs over shared objects (unsorted data with ties; a Sample aliasing a slice) every real call's observed write set is compared with the model's documented write set, every non-mutating call is repeated after the others and replayed from 16 goroutines with bitwise comparison, and the same programs run in a binary built with -race: every race report is a violation.",
    level_note="Partial: data-race freedom is a property of the Go memory model and scheduler that the Lean model cannot exhibit; it is observed by the race detector on the schedules that occur, not proved. The theorems are true of the model by construction; the content is in the correspondence. API coverage = the op table of harness/c20.go (83 entry points); half of each program's calls dwell on a few entry points so that call-history dependence (memo tables, retained buffers) shows as a difference between first run, repeat and permuted concurrent replay.",
    technique="Lean 4 frame/determinism theorems on a heap machine + write-set correspondence, bitwise replay and race-detector runs",
    rule="pure objs prefix block: 17 shared objects per program (slices, Samples incl. weighted and one aliasing a slice, graphs, KDE with zero or set Bandwidth, StreamStats, LinearHist, NodeMarks, Linear/Log scales, int slice, UDist) with unsorted, tie-rich data; a prefix of 4..14 random API calls incl. the documented mutators (frame checked per call), then a block of 12..40 non-mutating calls executed, repeated in shuffled order and replayed by 16 goroutines; first 150 programs (thorough 3000) also under -race. non-trivial = every program",
    exhaustive_part="",
    trusted_base=COMMON_TB + ["Go race detector (observes only the schedules that happen)"],
    assumptions=["KDE bandwidth is filled in (documented lazy write) before the concurrent block"],
    post=_race_post,
)


# devices every generator shares (harness/main.go), stated once
COMMON_RULE = (" Shared devices: every slice handed to the library is a view with sentinel-filled spare capacity (guard cells) "
               "whose contents are compared bit for bit after the call unless the entry point documents in-place modification; "
               "sizes, arguments, thresholds and levels are also aimed at the numeric constants of the reachable code "
               "(dictionary from the source on this run; constants the model does not know get the full cross product of "
               "simple functions x ulp/relative neighbourhoods); minimised past failures (corpus/) run first.")
for _p in META:
    META[_p]["rule"] = META[_p]["rule"] + COMMON_RULE
