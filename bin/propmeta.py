"""Per-property metadata used in evidence files (rule text, trusted base, assumptions)."""

COMMON_TB = [
    "Lean 4.33 kernel + Mathlib v4.33 (axioms propext, Classical.choice, Quot.sound only; audited by #print axioms on every run)",
    "Lean compiler/runtime executing the core-only model (driver exe)",
    "Go harness: exact float<->rational encoding, generators, recover-based panic mapping",
    "correspondence is sampled: code = model only on the generated cases",
    "IEEE rounding of the Go code is not modelled (exact rational model + stated tolerance)",
]

META = {}

META["C13"] = dict(
    level_text="Theorems (Lean, all histories): the Add/Combine update rules, executed exactly, keep every accumulator equal to the batch statistics of the multiset that flowed into it, for every merge tree incl. empty operands and self-combine. Correspondence: the real StreamStats is run on generated histories and compared field by field with that model within rounding tolerances.",
    level_note="Trusted: Lean kernel, the harness and its generators (sampling), exact-vs-float tolerance constants. Float rounding of the Go updates is modelled by the tolerance, not verified.",
    technique="Lean 4 invariant proof by induction over operation histories + differential correspondence",
    rule="histories over <=6 StreamStats accumulators ([a,i,x] add, [c,i,j] acc i.Combine(acc j), [r,i] readout): "
         "every split point of short streams in both merge directions with further adds after the merge, plus random "
         "merge trees with self-combines, repeated combines and empty operands; values carry offsets up to 1e9 spreads. "
         "non-trivial = history with >=1 combine and >=3 adds; distinct = distinct input line",
    exhaustive_part="",
    trusted_base=COMMON_TB,
    assumptions=["tolerances: Total 2n*eps*sum|x|, Mean 8n*eps*max|x|, Variance 16n*eps*(M*D+D^2), RMS/StdDev compared squared; Count/Min/Max exact",
                 "Variance/StdDev only constrained for count>=2, Min/Max/Mean/RMS for count>=1 (as the property states)"],
)

META["C18"] = dict(
    level_text="Theorems (Lean): the bit-level NodeMarks model refines a set of naturals under every Mark/Unmark/Test/Next history; DotString round-trips through unescape; the SCC checker holdsSCC is sound w.r.t. path-defined mutual reachability; structural facts of the DFS/subgraph/transpose models. Correspondence: every traversal, SCC, SimplifyMulti, subgraph, transpose, Equal and Dot result of the real code is compared exactly with the model (SCC through the checker plus partition equality with the definitional partition) on exhaustive small digraphs, random multigraphs and structured graphs up to 100000 nodes.",
    level_note="Trusted: Lean kernel; harness generators (sampling). Tarjan's algorithm itself has no Lean mirror: its outputs are validated per input by the proved-sound checker. Go map iteration and sort are not modelled.",
    technique="Lean 4 refinement/soundness proofs + exact differential correspondence on exhaustive and random graphs",
    rule="ops marks/pre/post/euler/rev/scc/simp/keep/remove/bigraph/equal/dots/dot. Exhaustive: all digraphs with self-loops on <=3 nodes (thorough <=4, plus a 1/8 sample of 5-node loop-free digraphs), every root. Random multigraphs <=60 nodes; paths/cycles/trees/layered DAGs/descending paths up to 20000 (thorough 100000) nodes; marks histories with indices around word and power-of-two boundaries. non-trivial = graph with >=3 nodes (history with >=3 ops; multigraph with a parallel edge for simp); distinct = distinct input line",
    exhaustive_part="all digraphs with self-loops on <=3 (thorough <=4) nodes, every root, for pre/post/scc",
    trusted_base=COMMON_TB,
    assumptions=["graphs are valid (successor ids < number of nodes); Mark/Unmark indices non-negative (Test/Next take any integer)",
                 "SubgraphKeep is called with distinct in-range nodes and edges among kept nodes (its documented precondition)"],
)

META["C19"] = dict(
    level_text="Theorems (Lean): dominance by node deletion is equivalent to 'every root path passes through d'; the executable definitional specs idomSpec/dfSpec are what the property states. Correspondence: IDom, Dom and DomFrontier of the real code equal the definitional specs exactly (frontier as sets, with the root proviso) on exhaustive small digraphs and random reducible/irreducible graphs with unreachable parts; panics and time-outs are failures.",
    level_note="Trusted: Lean kernel; harness generators (sampling). The Cooper-Harvey-Kennedy iteration has no Lean mirror: the algorithm is tied to the proved spec only by the correspondence (outputs validated per input).",
    technique="Lean 4 definitional spec with characterisation theorems + exact differential correspondence",
    rule="ops idom/df/dom on all digraphs with self-loops on <=3 nodes and every root (thorough: <=4 nodes, plus a 1/6 sample of 5-node loop-free digraphs; quick adds a 1/40 sample of 4-node graphs), random graphs 2..40 nodes: uniform multigraphs at 5 densities, structured flow graphs (reducible / with irreducible edges / with unreachable nodes feeding reachable joins), ids permuted. non-trivial = >=3 nodes (df: some non-empty frontier)",
    exhaustive_part="all digraphs with self-loops on <=3 (thorough <=4) nodes, every root",
    trusted_base=COMMON_TB,
    assumptions=["graphs are valid; root < number of nodes", "root membership in frontiers compared only when the root has 0 or >=2 incoming edges (the property's proviso)"],
)
