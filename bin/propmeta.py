"""Per-property metadata used in evidence files (rule text, trusted base, assumptions)."""

COMMON_TB = [
    "Lean 4.33 kernel + Mathlib v4.33 (axioms propext, Classical.choice, Quot.sound only; audited by #print axioms on every run)",
    "Lean compiler/runtime executing the core-only model (driver exe)",
    "Go harness: exact float<->rational encoding, generators, recover-based panic mapping",
    "correspondence is sampled: code = model only on the generated cases",
    "IEEE rounding of the Go code is not modelled (exact rational model + stated tolerance)",
]

META = {}

META["C13"] = dict(
    level_text="Theorems (Lean, all histories): the Add/Combine update rules, executed exactly, keep every accumulator equal to the batch statistics of the multiset that flowed into it, for every merge tree incl. empty operands and self-combine. Correspondence: the real StreamStats is run on generated histories and compared field by field with that model within rounding tolerances.",
    level_note="Trusted: Lean kernel, the harness and its generators (sampling), exact-vs-float tolerance constants. Float rounding of the Go updates is modelled by the tolerance, not verified.",
    technique="Lean 4 invariant proof by induction over operation histories + differential correspondence",
    rule="histories over <=6 StreamStats accumulators ([a,i,x] add, [c,i,j] acc i.Combine(acc j), [r,i] readout): "
         "every split point of short streams in both merge directions with further adds after the merge, plus random "
         "merge trees with self-combines, repeated combines and empty operands; values carry offsets up to 1e9 spreads. "
         "non-trivial = history with >=1 combine and >=3 adds; distinct = distinct input line",
    exhaustive_part="",
    trusted_base=COMMON_TB,
    assumptions=["tolerances: Total 2n*eps*sum|x|, Mean 8n*eps*max|x|, Variance 16n*eps*(M*D+D^2), RMS/StdDev compared squared; Count/Min/Max exact",
                 "Variance/StdDev only constrained for count>=2, Min/Max/Mean/RMS for count>=1 (as the property states)"],
)
