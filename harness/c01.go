package main

import (
	"bufio"
	"fmt"
	"math"
	"math/rand"

	"github.com/aclements/go-moremath/stats"
)

func init() {
	execs["ud"] = execUD
	execs["mwu"] = execMWU
	gens["C01"] = genC01
	gens["C02"] = genC02
	gens["C03"] = genC03
}

// tbuf holds one tie-vector buffer per length: consecutive ud calls with tie vectors of equal
// length pass the SAME backing array with new contents, as a caller does who edits T in place
// or reuses a buffer. A UDist is a value; what it returns may depend only on the values in T.
var tbuf = map[int][]int{}

// ud n1 n2 T cdf|pmf u   |   ud n1 n2 T bounds
func execUD(a []Tok) string {
	d := stats.UDist{N1: a[0].Int(), N2: a[1].Int()}
	if len(a[2].Arr) > 0 {
		t := a[2].Ints()
		b, ok := tbuf[len(t)]
		if !ok {
			b = make([]int, len(t))
			tbuf[len(t)] = b
		}
		copy(b, t)
		d.T = b
		defer func() {
			for i := range t {
				if b[i] != t[i] {
					panic("UDist modified its tie vector")
				}
			}
		}()
	}
	switch a[3].Atom {
	case "cdf":
		return fmtF(d.CDF(a[4].F()))
	case "pmf":
		return fmtF(d.PMF(a[4].F()))
	case "bounds":
		lo, hi := d.Bounds()
		return fmtF(lo) + " " + fmtF(hi) + " " + fmtF(d.Step())
	}
	panic("ud: bad method")
}

func sameBits(a, b []float64) bool {
	if len(a) != len(b) {
		return false
	}
	for i := range a {
		if math.Float64bits(a[i]) != math.Float64bits(b[i]) {
			return false
		}
	}
	return true
}

// mwu x1 x2 alt exactLimit tiesLimit
func execMWU(a []Tok) string {
	x1 := a[0].Fs()
	x2 := x1 // a case naming the same sample twice passes ONE slice for both parameters
	if !sameTok(a[0], a[1]) {
		x2 = a[1].Fs()
	}
	o1 := append([]float64(nil), x1...)
	o2 := append([]float64(nil), x2...)
	stats.MannWhitneyExactLimit = a[3].Int()
	stats.MannWhitneyTiesExactLimit = a[4].Int()
	defer func() {
		stats.MannWhitneyExactLimit = 50
		stats.MannWhitneyTiesExactLimit = 25
	}()
	res, err := stats.MannWhitneyUTest(x1, x2, stats.LocationHypothesis(a[2].Int()))
	ok := fmtB(sameBits(x1, o1) && sameBits(x2, o2))
	switch err {
	case nil:
		if int(res.AltHypothesis) != a[2].Int() {
			panic("AltHypothesis not echoed")
		}
		return fmt.Sprintf("%d %d %s %s %s", res.N1, res.N2, fmtF(res.U), fmtF(res.P), ok)
	case stats.ErrSampleSize:
		return "err size " + ok
	case stats.ErrSamplesEqual:
		return "err equal " + ok
	}
	return "err other " + ok
}

// compositions of n into >= minParts positive parts
func compositions(n, minParts int, f func(t []int)) {
	var rec func(rem int, cur []int)
	rec = func(rem int, cur []int) {
		if rem == 0 {
			if len(cur) >= minParts {
				f(cur)
			}
			return
		}
		for t := 1; t <= rem; t++ {
			rec(rem-t, append(cur, t))
		}
	}
	rec(n, nil)
}

func genC02(w *bufio.Writer, tier string, rng *rand.Rand) {
	emitGrid := func(n1, n2 int, t []int, dense bool) {
		ts := fmtInts(t)
		top := n1*n2 + 1
		for twoU := -2; twoU <= 2*top; twoU++ {
			if !dense && rng.Intn(4) != 0 && twoU > 2 && twoU < 2*top-4 {
				continue
			}
			u := float64(twoU) / 2
			fmt.Fprintf(w, "ud %d %d %s cdf %s\n", n1, n2, ts, fmtF(u))
			fmt.Fprintf(w, "ud %d %d %s pmf %s\n", n1, n2, ts, fmtF(u))
		}
		for k := 0; k < 3; k++ {
			u := rng.Float64()*float64(top+1) - 0.5
			fmt.Fprintf(w, "ud %d %d %s cdf %s\n", n1, n2, ts, fmtF(u))
		}
	}
	maxN := pick(tier, 8, 11)
	for N := 2; N <= maxN; N++ {
		for n1 := 1; n1 < N; n1++ {
			emitGrid(n1, N-n1, nil, true)
			compositions(N, 2, func(t []int) { emitGrid(n1, N-n1, t, N <= 9) })
		}
	}
	fmt.Fprintf(w, "ud 3 4 [] bounds\nud 5 2 [2,5] bounds\n")
	// every pair of sizes up to 25+25 with a short tie vector, a few points each
	for n1 := 1; n1 <= 25; n1++ {
		for n2 := 1; n2 <= 25; n2++ {
			if !isThorough(tier) && rng.Intn(2) == 0 {
				continue
			}
			N := n1 + n2
			var t []int
			switch rng.Intn(3) {
			case 0:
				t = []int{1 + rng.Intn(N-1)}
				t = append(t, N-t[0])
			case 1:
				a := 1 + rng.Intn(N-1)
				t = []int{a}
				for r := N - a; r > 0; r-- {
					t = append(t, 1)
				}
			default:
				for r := N; r > 0; {
					x := 1 + rng.Intn(minI(3, r))
					t = append(t, x)
					r -= x
				}
			}
			if len(t) < 2 {
				continue
			}
			for q := 0; q < 3; q++ {
				u := float64(rng.Intn(2*n1*n2+1)) / 2
				fmt.Fprintf(w, "ud %d %d %s cdf %s\n", n1, n2, fmtInts(t), fmtF(u))
			}
		}
	}
	// histories: one distribution size, tie vectors of one length written one after another into
	// the same buffer, every grid point asked of each, in a process of its own
	for h := 0; h < pick(tier, 12, 150); h++ {
		N := 5 + rng.Intn(8)
		n1 := 1 + rng.Intn(N-1)
		kparts := 2 + rng.Intn(minI(4, N-1))
		var vecs [][]int
		compositions(N, kparts, func(t []int) {
			if len(t) == kparts {
				vecs = append(vecs, append([]int(nil), t...))
			}
		})
		rng.Shuffle(len(vecs), func(i, j int) { vecs[i], vecs[j] = vecs[j], vecs[i] })
		if len(vecs) > 5 {
			vecs = vecs[:5]
		}
		fmt.Fprintf(w, "{{\n")
		for rep := 0; rep < 2; rep++ {
			for _, t := range vecs {
				for twoU := 0; twoU <= 2*n1*(N-n1); twoU++ {
					if rng.Intn(3) == 0 {
						continue
					}
					m := "cdf"
					if rng.Intn(3) == 0 {
						m = "pmf"
					}
					fmt.Fprintf(w, "ud %d %d %s %s %s\n", n1, N-n1, fmtInts(t), m, fmtF(float64(twoU)/2))
				}
			}
		}
		// the same sizes without ties, both halves of the range, interleaved
		for q := 0; q < 30; q++ {
			u := float64(rng.Intn(2*n1*(N-n1)+1)) / 2
			fmt.Fprintf(w, "ud %d %d [] cdf %s\n", n1, N-n1, fmtF(u))
			fmt.Fprintf(w, "ud %d %d [] cdf %s\n", n1, N-n1, fmtF(float64(n1*(N-n1))-u-float64(rng.Intn(3))))
		}
		fmt.Fprintf(w, "}}\n")
	}
	// larger tie-free sizes (products >= 64): mirror points of one size asked one after another
	for h := 0; h < pick(tier, 10, 200); h++ {
		n1, n2 := 6+rng.Intn(20), 6+rng.Intn(20)
		fmt.Fprintf(w, "{{\n")
		for q := 0; q < 12; q++ {
			u := float64(rng.Intn(2*n1*n2+1)) / 2
			if rng.Intn(2) == 0 {
				u = float64(rng.Intn(3 * minI(n1, n2)))
			}
			for _, v := range []float64{u, float64(n1*n2) - u - 1, float64(n1*n2) - u, u + 0.5} {
				if v >= 0 {
					fmt.Fprintf(w, "ud %d %d [] cdf %s\n", n1, n2, fmtF(v))
				}
			}
		}
		fmt.Fprintf(w, "}}\n")
	}
	// few large tie groups at sizes well beyond 25+25 (cheap for the code and for the model: the cost grows
	// with the number of groups, not with their sizes): the counts leave the range of exact float64 integers
	// and of int64
	for k := 0; k < pick(tier, 40, 800); k++ {
		n1, n2 := 20+rng.Intn(50), 20+rng.Intn(50)
		if rng.Intn(3) == 0 {
			n2 = n1
		}
		N := n1 + n2
		K := 2 + rng.Intn(3)
		t := make([]int, K)
		for i := range t {
			t[i] = 1
		}
		for r := N - K; r > 0; r-- {
			if rng.Intn(3) == 0 {
				t[rng.Intn(K)]++
			} else {
				t[rng.Intn(2)]++ // the first two ranks large
			}
		}
		if rng.Intn(4) == 0 {
			rng.Shuffle(K, func(i, j int) { t[i], t[j] = t[j], t[i] })
		}
		emitBig(w, rng, n1, n2, t)
	}
	// sizes aimed at the numeric constants of the code (a size limit, a table length, a shift width):
	// pooled size N from the dictionary, a small first sample, two or three ranks
	for _, N := range dictSizes(rng, 3, 3000000, pick(tier, 8, 80)) {
		small := append([]int{1, 2, 3}, dictSizes(rng, 1, 70, 3)...)
		for _, n1 := range small {
			if n1 >= N || (N > 200 && n1 > 3 && !dictHasNew()) {
				continue
			}
			// the code holds counts and products of two counts in float64: C(N,n1)^2 beyond its range (NaN
			// results from n1 = 50 on in a pool of 2^20; far outside the property's 50+50 / 25+25) is not asked
			if lg := lgammaF(float64(N+1)) - lgammaF(float64(n1+1)) - lgammaF(float64(N-n1+1)); lg > 340 {
				continue
			}
			a := 1 + rng.Intn(N-1)
			if rng.Intn(2) == 0 {
				a = N/2 - rng.Intn(3)
				if a < 1 {
					a = 1
				}
			}
			t := []int{a, N - a}
			if N-a > 3 && rng.Intn(2) == 0 {
				t = []int{a, 3, N - a - 3}
			}
			emitBig(w, rng, n1, N-n1, t)
			if N <= 140 {
				emitBig(w, rng, N-n1, n1, t)
				if n1 <= 3 || dictHasNew() {
					emitBig(w, rng, n1, N-n1, nil)
				}
			}
		}
	}
	// as many distinct ranks as a constant of the code, lightly tied
	for _, K := range dictSizes(rng, 3, 50, pick(tier, 4, 30)) {
		for rep := 0; rep < 2; rep++ {
			t := make([]int, K)
			for i := range t {
				t[i] = 1
			}
			for q := 0; q < 1+rng.Intn(3); q++ {
				t[rng.Intn(K)]++
			}
			N := sumI(t)
			n1 := 1 + rng.Intn(N-1)
			if rep == 0 {
				n1 = N / 2
			}
			emitBig(w, rng, n1, N-n1, t)
		}
	}
	// random larger: untied to 50+50, tied to 25+25; the first cases sit on the corners of those ranges
	corners := [][3]int{{25, 25, 1}, {25, 25, 1}, {24, 25, 1}, {25, 24, 1}, {1, 25, 1}, {25, 1, 1}, {1, 49, 1}, {49, 1, 1}, {2, 48, 1}, {10, 40, 1}, {20, 30, 1}, {30, 20, 1},
		{50, 50, 0}, {49, 50, 0}, {50, 1, 0}, {1, 50, 0}, {26, 25, 0}, {25, 26, 0}, {13, 8, 1}, {16, 16, 1}, {32, 32, 0}}
	nl := pick(tier, 60, 1500) + len(corners)
	for k := 0; k < nl; k++ {
		var n1, n2 int
		var t []int
		if k < len(corners) && corners[k][2] == 0 {
			n1, n2 = corners[k][0], corners[k][1]
		} else if k >= len(corners) && rng.Intn(2) == 0 {
			n1, n2 = 1+rng.Intn(50), 1+rng.Intn(50)
			if rng.Intn(3) == 0 {
				t = make([]int, n1+n2)
				for i := range t {
					t[i] = 1
				}
			}
		} else {
			n1, n2 = 1+rng.Intn(25), 1+rng.Intn(25)
			if k < len(corners) {
				n1, n2 = corners[k][0], corners[k][1]
			}
			rem := n1 + n2
			maxT := []int{2, 3, 6, 30}[rng.Intn(4)]
			for rem > 0 {
				x := 1 + rng.Intn(maxT)
				if x > rem {
					x = rem
				}
				t = append(t, x)
				rem -= x
			}
			if len(t) < 2 {
				t = []int{1, n1 + n2 - 1}
			}
		}
		ts := fmtInts(t)
		for q := 0; q < 5; q++ {
			var u float64
			switch rng.Intn(4) {
			case 0:
				u = float64(rng.Intn(2*n1*n2+1)) / 2
			case 1: // near the centre
				u = float64(n1*n2)/2 + float64(rng.Intn(9)-4)/2
			case 2: // tails
				u = float64(rng.Intn(2*minI(n1, n2)+1)) / 2
				if rng.Intn(2) == 0 {
					u = float64(n1*n2) - u
				}
			default:
				u = rng.Float64() * float64(n1*n2)
			}
			if u < 0 {
				u = 0
			}
			fmt.Fprintf(w, "ud %d %d %s cdf %s\n", n1, n2, ts, fmtF(u))
			if rng.Intn(3) == 0 {
				fmt.Fprintf(w, "ud %d %d %s pmf %s\n", n1, n2, ts, fmtF(math.Floor(u*2)/2))
			}
		}
	}
}

// emitBig asks a distribution at both tails, the centre and a few random points (CDF and PMF).
func emitBig(w *bufio.Writer, rng *rand.Rand, n1, n2 int, t []int) {
	ts := fmtInts(t)
	top := float64(n1) * float64(n2)
	half := func(x float64) float64 { return math.Floor(x*2) / 2 }
	us := []float64{0, 0.5, 1, float64(rng.Intn(8)), top, top - 0.5, top - float64(rng.Intn(8)), half(top / 2), half(top/2) + 0.5,
		half(rng.Float64() * top), half(rng.Float64() * top), half(top/2 - math.Sqrt(top*float64(n1+n2+1)/12)*(1+4*rng.Float64()))}
	for _, u := range us {
		if u < 0 {
			u = 0
		}
		fmt.Fprintf(w, "ud %d %d %s cdf %s\n", n1, n2, ts, fmtF(u))
		if rng.Intn(3) == 0 {
			fmt.Fprintf(w, "ud %d %d %s pmf %s\n", n1, n2, ts, fmtF(u))
		}
	}
}

func lgammaF(x float64) float64 { v, _ := math.Lgamma(x); return v }

func minI(a, b int) int {
	if a < b {
		return a
	}
	return b
}

// groupValues returns len(t) strictly increasing values on a random scale,
// pushed through a random monotone map.
func groupValues(rng *rand.Rand, k int) []float64 {
	vs := make([]float64, k)
	x := float64(rng.Intn(7)-3) * math.Ldexp(1, rng.Intn(9)-4)
	for i := range vs {
		vs[i] = x
		x += float64(1+rng.Intn(5)) * math.Ldexp(1, rng.Intn(5)-3)
	}
	switch rng.Intn(4) {
	case 0:
		for i := range vs {
			vs[i] = vs[i]*vs[i]*vs[i] + 7
		}
	case 1:
		for i := range vs {
			vs[i] = math.Exp(vs[i] / 8)
		}
	case 2:
		for i := range vs {
			vs[i] = -1 / (vs[i] + 1e3)
		}
	}
	return vs
}

// samplesFrom builds x1 (r_k copies of value k) and x2 (t_k-r_k copies), shuffled.
func samplesFrom(rng *rand.Rand, t, r []int) (x1, x2 []float64) {
	vs := groupValues(rng, len(t))
	for k := range t {
		for i := 0; i < r[k]; i++ {
			x1 = append(x1, vs[k])
		}
		for i := 0; i < t[k]-r[k]; i++ {
			x2 = append(x2, vs[k])
		}
	}
	rng.Shuffle(len(x1), func(i, j int) { x1[i], x1[j] = x1[j], x1[i] })
	rng.Shuffle(len(x2), func(i, j int) { x2[i], x2[j] = x2[j], x2[i] })
	return
}

func allocations(t []int, f func(r []int)) {
	r := make([]int, len(t))
	var rec func(k int)
	rec = func(k int) {
		if k == len(t) {
			f(r)
			return
		}
		for x := 0; x <= t[k]; x++ {
			r[k] = x
			rec(k + 1)
		}
	}
	rec(0)
}

func sumI(xs []int) int {
	s := 0
	for _, x := range xs {
		s += x
	}
	return s
}

var cornersC01 = [][3]int{{25, 25, 1}, {25, 25, 1}, {24, 25, 1}, {25, 1, 1}, {1, 25, 1}, {1, 49, 1}, {2, 48, 1}, {20, 30, 1}, {50, 50, 0}, {50, 50, 0}, {49, 50, 0}, {50, 1, 0}, {1, 50, 0}, {33, 2, 0}, {63, 3, 0}, {5, 1, 0}, {7, 1, 1}}

func genC01(w *bufio.Writer, tier string, rng *rand.Rand) {
	emit := func(x1, x2 []float64, alt int) {
		fmt.Fprintf(w, "mwu %s %s %d 50 25\n", fmtFs(x1), fmtFs(x2), alt)
	}
	// exhaustive: every tie vector, every allocation, every alternative
	maxN := pick(tier, 7, 10)
	for N := 2; N <= maxN; N++ {
		compositions(N, 2, func(t []int) {
			tt := append([]int(nil), t...)
			allocations(tt, func(r []int) {
				n1 := sumI(r)
				if n1 == 0 || n1 == N {
					return
				}
				x1, x2 := samplesFrom(rng, tt, r)
				for alt := -1; alt <= 1; alt++ {
					emit(x1, x2, alt)
				}
			})
		})
	}
	// random up to the limits
	nr := pick(tier, 400, 12000)
	for k := 0; k < nr; k++ {
		var t, r []int
		tied := rng.Intn(3) != 0
		var n1, n2 int
		if tied {
			n1, n2 = 1+rng.Intn(25), 1+rng.Intn(25)
		} else {
			n1, n2 = 1+rng.Intn(50), 1+rng.Intn(50)
		}
		if rng.Intn(4) == 0 { // small
			n1, n2 = 1+rng.Intn(7), 1+rng.Intn(7)
		}
		if k < len(cornersC01) { // the corners of the exact ranges first
			n1, n2, tied = cornersC01[k][0], cornersC01[k][1], cornersC01[k][2] == 1
		}
		N := n1 + n2
		mode := rng.Intn(5)
		rem := N
		for rem > 0 {
			x := 1
			if tied {
				switch mode {
				case 0:
					x = 1 + rng.Intn(3)
				case 1: // exactly two distinct values
					if len(t) == 0 {
						x = 1 + rng.Intn(N-1)
					} else {
						x = rem
					}
				case 2: // one big group then singles (asymmetric)
					if len(t) == 0 {
						x = 1 + rng.Intn(N-1)
					}
				case 3: // singles then one big group
					if len(t) > rng.Intn(4) {
						x = rem
					}
				default:
					x = 1 + rng.Intn(N)
				}
			}
			if x > rem {
				x = rem
			}
			t = append(t, x)
			rem -= x
		}
		if len(t) < 2 {
			continue
		}
		// random allocation with sum n1, biased to extremes sometimes
		r = make([]int, len(t))
		left := n1
		order := rng.Perm(len(t))
		bias := rng.Intn(4)
		if bias == 0 { // fill from the top (U near max)
			for i := range order {
				order[i] = len(t) - 1 - i
			}
		} else if bias == 1 { // fill from the bottom (U near 0)
			for i := range order {
				order[i] = i
			}
		}
		for _, k := range order {
			x := minI(left, t[k])
			if bias >= 2 && x > 0 {
				x = rng.Intn(x + 1)
			}
			r[k] = x
			left -= x
		}
		for _, k := range order { // place any remainder
			x := minI(left, t[k]-r[k])
			r[k] += x
			left -= x
		}
		x1, x2 := samplesFrom(rng, t, r)
		if len(x1) == 0 || len(x2) == 0 {
			continue
		}
		// every alternative on the same data, in a random order, then the swapped pair: the
		// result for one alternative may not depend on which were asked before
		for _, ai := range rng.Perm(3) {
			emit(x1, x2, ai-1)
		}
		if rng.Intn(3) == 0 {
			for _, ai := range rng.Perm(3)[:1+rng.Intn(3)] {
				emit(x2, x1, ai-1)
			}
		}
	}
	// strongly but not fully separated samples of every size up to the limits (tie-free 50+50, lightly tied 25+25):
	// the first sample takes the lowest ranks except for a few exchanges near the boundary, so U is small but not 0
	// and the tail probability is tiny (1e-10 ... 1e-28) - and must still be right to its own size
	for k := 0; k < pick(tier, 120, 3000); k++ {
		tied := rng.Intn(3) == 0
		lim := 50
		if tied {
			lim = 25
		}
		n1, n2 := 5+rng.Intn(lim-4), 5+rng.Intn(lim-4)
		if rng.Intn(3) == 0 {
			n1, n2 = lim-rng.Intn(4), lim-rng.Intn(4)
		}
		N := n1 + n2
		vals := make([]float64, N)
		for i := range vals {
			vals[i] = float64(i)
		}
		if tied {
			for q := 0; q < 1+rng.Intn(3); q++ {
				i := 1 + rng.Intn(N-1)
				vals[i] = vals[i-1]
			}
		}
		x1 := append([]float64(nil), vals[:n1]...)
		x2 := append([]float64(nil), vals[n1:]...)
		depth := []int{4, 4, 10, 16}[rng.Intn(4)]
		for q := rng.Intn([]int{4, 8, 14}[rng.Intn(3)]); q > 0; q-- {
			i, j := n1-1-rng.Intn(minI(n1, depth)), rng.Intn(minI(n2, depth))
			x1[i], x2[j] = x2[j], x1[i]
		}
		rng.Shuffle(n1, func(i, j int) { x1[i], x1[j] = x1[j], x1[i] })
		for _, ai := range rng.Perm(3)[:2] {
			emit(x1, x2, ai-1)
		}
		if rng.Intn(2) == 0 {
			emit(x2, x1, rng.Intn(3)-1)
		}
	}
	// numbers of distinct pooled values and sample sizes aimed at the numeric constants of the code,
	// lightly tied, from separated (deep tail) to shuffled
	for _, n := range dictSizes(rng, 2, 49, pick(tier, 10, 100)) {
		for rep := 0; rep < 4; rep++ {
			N := n + 1 + rng.Intn(3)
			if N > 50 {
				N = 50
			}
			n1 := 1 + rng.Intn(minI(N-1, 25))
			if rep%2 == 0 {
				n1 = N / 2
			}
			if N-n1 > 25 {
				n1 = N - 25
			}
			vals := make([]float64, N)
			for i := range vals {
				vals[i] = float64(i)
				if i >= n {
					vals[i] = float64(rng.Intn(n))
				}
			}
			if rep < 2 {
				sortFloats(vals)
				// nearly separated: a few exchanges across the boundary
				for q := rng.Intn(3); q > 0; q-- {
					i, j := rng.Intn(n1), n1+rng.Intn(N-n1)
					vals[i], vals[j] = vals[j], vals[i]
				}
			} else {
				rng.Shuffle(N, func(i, j int) { vals[i], vals[j] = vals[j], vals[i] })
			}
			for alt := -1; alt <= 1; alt++ {
				emit(vals[:n1], vals[n1:], alt)
			}
			emit(vals[n1:], vals[:n1], rng.Intn(3)-1)
		}
	}
	// every pair of sizes up to the tied exact limit once (thorough: three times), lightly tied: the
	// binomial coefficients of every pooled size 2..50 and every split are exercised
	for rep := 0; rep < pick(tier, 1, 3); rep++ {
		for n1 := 1; n1 <= 25; n1++ {
			for n2 := 1; n2 <= 25; n2++ {
				N := n1 + n2
				vals := make([]float64, N)
				for i, p := range rng.Perm(N) {
					vals[i] = float64(p)
				}
				// one or two ties
				for k := 0; k < 1+rng.Intn(2) && N > 1; k++ {
					i, j := rng.Intn(N), rng.Intn(N)
					vals[i] = vals[j]
				}
				emit(vals[:n1], vals[n1:], rng.Intn(3)-1)
			}
		}
	}
}

// denseMWU emits histories: many tests in one fresh process on samples of one fixed pair of
// sizes, tie-free and tied mixed, all alternatives and both argument orders, so that calls which
// agree in sizes, statistic or alternative but differ in data follow each other closely.
func denseMWU(w *bufio.Writer, rng *rand.Rand, blocks, el, tl int) {
	for b := 0; b < blocks; b++ {
		n1, n2 := 2+rng.Intn(7), 2+rng.Intn(7)
		if rng.Intn(3) == 0 {
			n1, n2 = 7+rng.Intn(6), 7+rng.Intn(6)
		}
		if rng.Intn(4) == 0 {
			n2 = n1
		}
		fmt.Fprintf(w, "{{\n")
		for q := 0; q < 40; q++ {
			N := n1 + n2
			vals := make([]float64, N)
			switch rng.Intn(3) {
			case 0: // tie-free
				for i, p := range rng.Perm(N) {
					vals[i] = float64(p+1) * 0.5
				}
			case 1: // a few ties
				for i, p := range rng.Perm(N) {
					vals[i] = float64((p + 1) / 2 * 2)
					if rng.Intn(3) == 0 {
						vals[i] = float64(p + 1)
					}
				}
			default: // heavy ties
				for i := range vals {
					vals[i] = float64(rng.Intn(4))
				}
			}
			x1, x2 := vals[:n1], vals[n1:]
			if rng.Intn(4) == 0 {
				x1, x2 = vals[:n2], vals[n2:]
			}
			alt := rng.Intn(3) - 1
			fmt.Fprintf(w, "mwu %s %s %d %d %d\n", fmtFs(x1), fmtFs(x2), alt, el, tl)
			switch rng.Intn(4) {
			case 0:
				fmt.Fprintf(w, "mwu %s %s %d %d %d\n", fmtFs(x2), fmtFs(x1), -alt, el, tl)
			case 1:
				fmt.Fprintf(w, "mwu %s %s %d %d %d\n", fmtFs(x1), fmtFs(x2), (alt+2)%3-1, el, tl)
			}
		}
		fmt.Fprintf(w, "}}\n")
	}
}

func genC03(w *bufio.Writer, tier string, rng *rand.Rand) {
	emit := func(x1, x2 []float64, alt, el, tl int) {
		fmt.Fprintf(w, "mwu %s %s %d %d %d\n", fmtFs(x1), fmtFs(x2), alt, el, tl)
	}
	randSample := func(n int, tieLevel int, shift float64) []float64 {
		xs := make([]float64, n)
		for i := range xs {
			switch tieLevel {
			case 0: // continuous: no ties
				xs[i] = rng.NormFloat64() + shift
			case 1: // coarse grid: some ties
				xs[i] = math.Round((rng.NormFloat64()+shift)*8) / 8
			case 2: // heavy ties
				xs[i] = float64(rng.Intn(4)) + math.Round(shift)
			default: // all equal
				xs[i] = 2.5
			}
		}
		return xs
	}
	limits := [][2]int{{50, 25}, {50, 25}, {0, 0}, {3, 3}, {1000000, 1000000}, {10, 40}}
	nr := pick(tier, 2500, 60000)
	for k := 0; k < nr; k++ {
		lim := limits[rng.Intn(len(limits))]
		var n1, n2 int
		switch {
		case lim[0] >= 1000000:
			n1, n2 = rng.Intn(31), rng.Intn(31)
			if rng.Intn(4) == 0 { // pooled sizes up to 72 under the exact method
				n1, n2 = 25+rng.Intn(12), 25+rng.Intn(12)
			}
		case lim[0] == 0 || lim[0] == 3:
			n1, n2 = rng.Intn(12), rng.Intn(12)
			if rng.Intn(3) == 0 {
				n1, n2 = 1+rng.Intn(400), 1+rng.Intn(400)
			}
		default:
			// straddle the switch-over points 25 and 50
			c := []int{25, 50, 10}[rng.Intn(3)]
			n1, n2 = c-3+rng.Intn(7), c-3+rng.Intn(7)
			if rng.Intn(4) == 0 {
				n1 = 1 + rng.Intn(70)
			}
			if rng.Intn(10) == 0 {
				n1, n2 = 100+rng.Intn(300), 100+rng.Intn(300)
			}
		}
		if rng.Intn(40) == 0 {
			n1 = 0
		}
		if rng.Intn(40) == 0 {
			n2 = 0
		}
		tl := rng.Intn(3)
		if rng.Intn(25) == 0 {
			tl = 3
		}
		shift := []float64{0, 0, 0.3, 1, -2, 3, 8}[rng.Intn(7)] // up to fully separated samples (deep tails)
		x1 := randSample(n1, tl, 0)
		x2 := randSample(n2, tl, shift)
		if tl == 1 && rng.Intn(3) == 0 && n1 > 0 {
			// ties everywhere except a unique maximum / minimum
			x1[rng.Intn(n1)] = 100
		}
		alt := rng.Intn(3) - 1
		emit(x1, x2, alt, lim[0], lim[1])
		if rng.Intn(30) == 0 { // a sample against itself
			emit(x1, x1, alt, lim[0], lim[1])
		}
		switch rng.Intn(6) {
		case 0: // swapped, mirrored alternative
			emit(x2, x1, -alt, lim[0], lim[1])
		case 1: // reordered
			y1 := append([]float64(nil), x1...)
			rng.Shuffle(len(y1), func(i, j int) { y1[i], y1[j] = y1[j], y1[i] })
			emit(y1, x2, alt, lim[0], lim[1])
		case 2: // strictly increasing map
			f := func(x float64) float64 { return x*x*x*0.01 + x + 5 }
			y1 := make([]float64, len(x1))
			y2 := make([]float64, len(x2))
			for i, x := range x1 {
				y1[i] = f(x)
			}
			for i, x := range x2 {
				y2[i] = f(x)
			}
			emit(y1, y2, alt, lim[0], lim[1])
		case 3: // same data under the other method
			emit(x1, x2, alt, 0, 0)
		}
	}
	for _, lim := range [][2]int{{50, 25}, {50, 25}, {10, 40}, {1000000, 1000000}} {
		denseMWU(w, rng, pick(tier, 10, 150), lim[0], lim[1])
	}
	// raised limits, sizes past the defaults: tie-free samples from fully separated (the far tails of the
	// exact distribution, |z| up to 12) to overlapping, and heavily tied ones in two to four ranks
	for k := 0; k < pick(tier, 24, 500); k++ {
		el := []int{1000000, 100, 200, 64}[rng.Intn(4)]
		n1, n2 := 51+rng.Intn(30), 51+rng.Intn(30)
		if rng.Intn(3) == 0 {
			n2 = n1
		}
		if n1 > el || n2 > el {
			n1, n2 = minI(n1, el), minI(n2, el)
		}
		N := n1 + n2
		perm := rng.Perm(N)
		vals := make([]float64, N)
		for i, p := range perm {
			vals[i] = float64(p)
		}
		sortFloats(vals)
		// x1 takes the lowest ranks except for `mix` exchanges with x2
		x1 := append([]float64(nil), vals[:n1]...)
		x2 := append([]float64(nil), vals[n1:]...)
		mix := []int{0, 0, 1, 2, 5, 20, 200}[rng.Intn(7)]
		for q := 0; q < mix; q++ {
			i, j := rng.Intn(n1), rng.Intn(n2)
			if mix <= 5 { // exchanges next to the boundary keep U small
				i, j = n1-1-rng.Intn(minI(n1, 3)), rng.Intn(minI(n2, 3))
			}
			x1[i], x2[j] = x2[j], x1[i]
		}
		rng.Shuffle(n1, func(i, j int) { x1[i], x1[j] = x1[j], x1[i] })
		for _, ai := range rng.Perm(3)[:2] {
			emit(x1, x2, ai-1, el, 25)
		}
		if rng.Intn(2) == 0 {
			emit(x2, x1, rng.Intn(3)-1, el, 25)
		}
	}
	// very unequal sizes under raised limits (a small sample against hundreds of values), nearly separated
	for k := 0; k < pick(tier, 16, 300); k++ {
		n1, n2 := 5+rng.Intn(25), 120+rng.Intn(pick(tier, 100, 300))
		N := n1 + n2
		vals := make([]float64, N)
		for i := range vals {
			vals[i] = float64(i)
		}
		// the small sample sits at the low end of the large one, overlapping it by a few ranks
		off := rng.Intn(12)
		var x1, x2 []float64
		for i := 0; i < N; i++ {
			if i >= off && len(x1) < n1 && (i-off)%2 == 0 && i < off+2*n1 {
				x1 = append(x1, vals[i]+0.01)
			} else {
				x2 = append(x2, vals[i])
			}
		}
		if rng.Intn(2) == 0 {
			x1, x2 = x2, x1
		}
		emit(x1, x2, rng.Intn(3)-1, 1000000, 25)
		emit(x1, x2, rng.Intn(3)-1, 400, 25)
	}
	for k := 0; k < pick(tier, 24, 500); k++ {
		n1, n2 := 26+rng.Intn(35), 26+rng.Intn(35)
		if rng.Intn(3) == 0 {
			n2 = n1
		}
		K := 2 + rng.Intn(3)
		x1, x2 := make([]float64, n1), make([]float64, n2)
		sh := rng.Intn(3)
		for i := range x1 {
			x1[i] = float64(rng.Intn(K))
		}
		for i := range x2 {
			x2[i] = float64(minI(K-1, rng.Intn(K)+rng.Intn(sh+1)))
		}
		if rng.Intn(3) == 0 { // two ranks of nearly equal size
			for i := range x1 {
				x1[i] = float64(i % 2)
			}
			for i := range x2 {
				x2[i] = float64((i + rng.Intn(2)) % 2)
			}
		}
		emit(x1, x2, rng.Intn(3)-1, 1000000, []int{1000000, 100, 61}[rng.Intn(3)])
		emit(x2, x1, rng.Intn(3)-1, 1000000, 1000000)
	}
	// sizes and numbers of distinct values aimed at the numeric constants of the code
	for _, n := range dictSizes(rng, 2, 120, pick(tier, 10, 100)) {
		for rep := 0; rep < 3; rep++ {
			n1, n2 := n, 1+rng.Intn(minI(n+3, 60))
			if rep == 1 {
				n1, n2 = n2, n1
			} else if rep == 2 { // n distinct pooled values, a few of them repeated
				N := n + 1 + rng.Intn(4)
				if N > 50 {
					N = n + 1
				}
				n1 = N/2 + rng.Intn(3)
				n2 = N - n1
			}
			if n1 < 1 || n2 < 1 {
				continue
			}
			N := n1 + n2
			vals := make([]float64, N)
			for i, p := range rng.Perm(N) {
				vals[i] = float64(p)
			}
			if rep == 2 {
				for i := n; i < N; i++ { // the extra values repeat earlier ones
					vals[i] = vals[rng.Intn(n)]
				}
				rng.Shuffle(N, func(i, j int) { vals[i], vals[j] = vals[j], vals[i] })
			} else if rng.Intn(2) == 0 {
				vals[rng.Intn(N)] = vals[rng.Intn(N)]
			}
			lim := [][2]int{{50, 25}, {1000000, 1000000}, {n, n}, {n - 1, n - 1}}[rng.Intn(4)]
			if rng.Intn(2) == 0 { // sorted: one sample below the other, deep tail
				sortFloats(vals)
			}
			for _, ai := range rng.Perm(3)[:2] {
				emit(vals[:n1], vals[n1:], ai-1, lim[0], lim[1])
			}
		}
	}
	// every tie vector, allocation and alternative on small pools (two- and three-valued data,
	// samples tied entirely within themselves, ...), under the default limits and with the exact
	// method switched off
	for N := 2; N <= pick(tier, 6, 8); N++ {
		compositions(N, 1, func(t []int) {
			tt := append([]int(nil), t...)
			allocations(tt, func(r []int) {
				n1 := sumI(r)
				if n1 == 0 || n1 == N {
					return
				}
				x1, x2 := samplesFrom(rng, tt, r)
				for alt := -1; alt <= 1; alt++ {
					emit(x1, x2, alt, 50, 25)
					if rng.Intn(3) == 0 {
						emit(x1, x2, alt, 0, 0)
					}
				}
			})
		})
	}
}
