package main

import (
	"bufio"
	"fmt"
	"math"
	"math/rand"

	"github.com/aclements/go-moremath/stats"
)

func init() {
	execs["tt"] = execTT
	execs["meanci"] = func(a []Tok) string {
		xs := a[0].Fs()
		o := append([]float64(nil), xs...)
		m, lo, hi := stats.MeanCI(xs, a[1].F())
		if !sameBits(xs, o) {
			panic("MeanCI modified its argument")
		}
		return fmtF(m) + " " + fmtF(lo) + " " + fmtF(hi)
	}
	gens["C04"] = genC04
}

// asTT hands a sample to the t-tests in one of the forms their interface accepts (picked from the data):
// a Sample value, a pointer to one, a StreamStats the values were added to, or two StreamStats shards of unequal
// size combined into one. The statistic is a function of the multiset of values, not of its container.
func asTT(xs []float64) stats.TTestSample {
	h := uint64(len(xs))
	for _, x := range xs {
		h = h*1099511628211 + math.Float64bits(x)>>7
	}
	if len(xs) < 2 { // (a one-value stream has no variance: StreamStats is only constrained from two values on)
		h = 0
	}
	switch h % 5 {
	case 0:
		return &stats.Sample{Xs: xs}
	case 1:
		st := &stats.StreamStats{}
		for _, x := range xs {
			st.Add(x)
		}
		return st
	case 2:
		if len(xs) >= 3 {
			k := 1 + int(h>>8)%(len(xs)-1)
			a, b := &stats.StreamStats{}, &stats.StreamStats{}
			for _, x := range xs[:k] {
				a.Add(x)
			}
			for _, x := range xs[k:] {
				b.Add(x)
			}
			a.Combine(b)
			return a
		}
	}
	return stats.Sample{Xs: xs}
}

func execTT(a []Tok) string {
	x1 := a[1].Fs()
	x2 := x1 // the same sample named twice: one slice for both parameters
	if !sameTok(a[1], a[2]) {
		x2 = a[2].Fs()
	}
	mu0 := a[3].F()
	alt := stats.LocationHypothesis(a[4].Int())
	var r *stats.TTestResult
	var err error
	switch a[0].Atom {
	case "pooled":
		r, err = stats.TwoSampleTTest(asTT(x1), asTT(x2), alt)
	case "welch":
		r, err = stats.TwoSampleWelchTTest(asTT(x1), asTT(x2), alt)
	case "paired":
		r, err = stats.PairedTTest(x1, x2, mu0, alt)
	case "one":
		r, err = stats.OneSampleTTest(asTT(x1), mu0, alt)
	}
	switch err {
	case nil:
	case stats.ErrSampleSize:
		return "err size"
	case stats.ErrZeroVariance:
		return "err zerovar"
	case stats.ErrMismatchedSamples:
		return "err mismatch"
	default:
		return "err other"
	}
	if r.AltHypothesis != alt {
		panic("AltHypothesis not echoed")
	}
	x := r.T
	if alt == stats.LocationDiffers {
		x = math.Abs(x)
	}
	return fmt.Sprintf("%d %d %s %s %s %s", r.N1, r.N2, fmtF(r.T), fmtF(r.DoF), fmtF(r.P), fmtF(stats.TDist{V: r.DoF}.CDF(x)))
}

func ttValues(rng *rand.Rand, n int, centre, spread float64) []float64 {
	xs := make([]float64, n)
	for i := range xs {
		xs[i] = centre + math.Round(rng.NormFloat64()*spread*64)/64
	}
	return xs
}

func genC04(w *bufio.Writer, tier string, rng *rand.Rand) {
	n := pick(tier, 4000, 120000)
	for k := 0; k < n; k++ {
		n1, n2 := 2+rng.Intn(39), 2+rng.Intn(39)
		if rng.Intn(5) == 0 {
			n1, n2 = 2+rng.Intn(4), 2+rng.Intn(4)
		}
		if rng.Intn(25) == 0 {
			n1 = rng.Intn(2)
		}
		if rng.Intn(25) == 0 {
			n2 = rng.Intn(2)
		}
		centre := []float64{0, 0, 1, 100, -5000, 1e5, 999990}[rng.Intn(7)]
		sp1 := math.Ldexp(1, rng.Intn(9)-4)
		for sp1 < 4e-6*math.Abs(centre) { // relative spread >= 1e-6 (the property's range)
			sp1 *= 2
		}
		sp2 := sp1 * []float64{1, 1, 0.25, 8}[rng.Intn(4)]
		shift := []float64{0, 0.2, 1, -3}[rng.Intn(4)] * sp1
		x1 := ttValues(rng, n1, centre, sp1)
		x2 := ttValues(rng, n2, centre+shift, sp2)
		if rng.Intn(30) == 0 { // zero variance
			for i := range x1 {
				x1[i] = centre
			}
			if rng.Intn(2) == 0 {
				for i := range x2 {
					x2[i] = centre + shift
				}
			}
		}
		alt := rng.Intn(3) - 1
		mu0 := 0.0
		if rng.Intn(2) == 0 {
			mu0 = centre + []float64{0, 0.25, -1, 10}[rng.Intn(4)]*sp1
		}
		switch rng.Intn(6) {
		case 0:
			fmt.Fprintf(w, "tt pooled %s %s 0p-1074 %d\n", fmtFs(x1), fmtFs(x2), alt)
			if rng.Intn(3) == 0 { // swapped, mirrored alternative
				fmt.Fprintf(w, "tt pooled %s %s 0p-1074 %d\n", fmtFs(x2), fmtFs(x1), -alt)
			}
		case 1:
			fmt.Fprintf(w, "tt welch %s %s 0p-1074 %d\n", fmtFs(x1), fmtFs(x2), alt)
		case 2:
			y2 := ttValues(rng, len(x1), centre+shift, sp2)
			if rng.Intn(20) == 0 && len(y2) > 0 {
				y2 = y2[:len(y2)-1]
			}
			if rng.Intn(2) == 0 {
				mu0 -= centre
			}
			fmt.Fprintf(w, "tt paired %s %s %s %d\n", fmtFs(x1), fmtFs(y2), fmtF(mu0), alt)
			// a second paired test on fewer values right after (state must not leak between calls)
			if len(x1) > 3 && len(y2) == len(x1) && rng.Intn(2) == 0 {
				fmt.Fprintf(w, "tt paired %s %s %s %d\n", fmtFs(x1[:3]), fmtFs(y2[:3]), fmtF(mu0), alt)
			}
		case 3:
			fmt.Fprintf(w, "tt one %s [] %s %d\n", fmtFs(x1), fmtF(mu0), alt)
		case 4: // shifted and scaled copy: same T, DoF, P (the model is exact on both, so each is checked on its own)
			c, s := float64(rng.Intn(2000)-1000), math.Ldexp(1, rng.Intn(7)-3)
			y1, y2 := make([]float64, len(x1)), make([]float64, len(x2))
			for i := range x1 {
				y1[i] = x1[i]*s + c
			}
			for i := range x2 {
				y2[i] = x2[i]*s + c
			}
			fmt.Fprintf(w, "tt welch %s %s 0p-1074 %d\n", fmtFs(y1), fmtFs(y2), alt)
			fmt.Fprintf(w, "tt pooled %s %s 0p-1074 %d\n", fmtFs(y1), fmtFs(y2), alt)
		default:
			c := []float64{0, 1, -0.5, 1.5, 0.5, 0.9, 0.95, 0.99, rng.Float64(), 1e-6, 1 - 1e-9}[rng.Intn(11)]
			fmt.Fprintf(w, "meanci %s %s\n", fmtFs(x1), fmtF(c))
		}
	}
	// aimed at the numeric constants of the code: sample sizes, the statistic T itself (mu0 chosen so that the
	// computed T lands on or next to the constant) and confidence levels
	{
		sizes := dictSizes(rng, 2, 120, pick(tier, 10, 100))
		for _, nn := range sizes {
			xs := ttValues(rng, nn, float64(rng.Intn(3))*10, math.Ldexp(1, rng.Intn(5)-2))
			ys := ttValues(rng, 2+rng.Intn(39), float64(rng.Intn(3))*10, math.Ldexp(1, rng.Intn(5)-2))
			alt := rng.Intn(3) - 1
			fmt.Fprintf(w, "tt one %s [] %s %d\n", fmtFs(xs), fmtF(float64(rng.Intn(3))*10), alt)
			fmt.Fprintf(w, "tt welch %s %s 0p-1074 %d\n", fmtFs(xs), fmtFs(ys), alt)
			fmt.Fprintf(w, "tt pooled %s %s 0p-1074 %d\n", fmtFs(ys), fmtFs(xs), alt)
			fmt.Fprintf(w, "meanci %s %s\n", fmtFs(xs), fmtF([]float64{0.95, 0.5, 0.999}[rng.Intn(3)]))
		}
		for _, t := range dictFloats(rng, pick(tier, 60, 1500)) {
			if math.Abs(t) > 1e6 {
				continue
			}
			nn := 2 + rng.Intn(39)
			if len(sizes) > 0 && rng.Intn(3) == 0 {
				nn = sizes[rng.Intn(len(sizes))]
			}
			xs := ttValues(rng, nn, float64(rng.Intn(3))*10, math.Ldexp(1, rng.Intn(5)-2))
			m, v := 0.0, 0.0
			for _, x := range xs {
				m += x
			}
			m /= float64(nn)
			for _, x := range xs {
				v += (x - m) * (x - m)
			}
			sd := math.Sqrt(v / float64(nn-1))
			if sd == 0 {
				continue
			}
			mu0 := m - t*sd/math.Sqrt(float64(nn))
			if math.Abs(mu0) > 1e6 {
				continue
			}
			for alt := -1; alt <= 1; alt++ {
				fmt.Fprintf(w, "tt one %s [] %s %d\n", fmtFs(xs), fmtF(mu0), alt)
			}
			if t > 0 && t < 1 {
				fmt.Fprintf(w, "meanci %s %s\n", fmtFs(xs), fmtF(t))
				fmt.Fprintf(w, "meanci %s %s\n", fmtFs(xs), fmtF(1-t))
			}
		}
	}
	// small-integer data: coincidences (equal variances, equal means, zero differences) are the rule
	smallInts := func(n int, scale, shift float64) []float64 {
		xs := make([]float64, n)
		for i := range xs {
			xs[i] = float64(rng.Intn(5)-2)*scale + shift
		}
		return xs
	}
	for k := 0; k < pick(tier, 600, 12000); k++ {
		n1, n2 := 2+rng.Intn(5), 2+rng.Intn(5)
		scale := math.Ldexp(1, rng.Intn(5)-2)
		if rng.Intn(4) == 0 {
			scale = 3
		}
		x1 := smallInts(n1, scale, 0)
		x2 := smallInts(n2, scale, float64(rng.Intn(3))*scale)
		if rng.Intn(3) == 0 { // a rearrangement of x1's deviations on a sample of another size
			x2 = append(append([]float64(nil), x1...), x1...)
		}
		alt := rng.Intn(3) - 1
		fmt.Fprintf(w, "tt welch %s %s 0p-1074 %d\n", fmtFs(x1), fmtFs(x2), alt)
		if rng.Intn(2) == 0 {
			fmt.Fprintf(w, "tt pooled %s %s 0p-1074 %d\n", fmtFs(x1), fmtFs(x2), alt)
		}
		if rng.Intn(3) == 0 {
			fmt.Fprintf(w, "tt one %s [] %s %d\n", fmtFs(x2), fmtF(float64(rng.Intn(3)-1)*scale/2), alt)
		}
	}
	// designed samples: m copies each of c-d and c+d around one c have variance exactly d*d
	// whatever m is, so the two variances are equal (or in the ratio 4, 1/4) as floats although
	// the sizes differ
	for k := 0; k < pick(tier, 150, 3000); k++ {
		mk := func(m int, c, d float64) []float64 {
			xs := []float64{c}
			for i := 0; i < m; i++ {
				xs = append(xs, c-d, c+d)
			}
			rng.Shuffle(len(xs), func(i, j int) { xs[i], xs[j] = xs[j], xs[i] })
			return xs
		}
		d := math.Ldexp(float64(1+rng.Intn(3)), rng.Intn(5)-2)
		x1 := mk(1+rng.Intn(4), float64(rng.Intn(7)-3), d)
		x2 := mk(1+rng.Intn(4), float64(rng.Intn(7)-3), d*[]float64{1, 1, 1, 2, 0.5}[rng.Intn(5)])
		alt := rng.Intn(3) - 1
		fmt.Fprintf(w, "tt welch %s %s 0p-1074 %d\n", fmtFs(x1), fmtFs(x2), alt)
		if rng.Intn(2) == 0 {
			fmt.Fprintf(w, "tt pooled %s %s 0p-1074 %d\n", fmtFs(x1), fmtFs(x2), alt)
		}
	}
	// paired data that move together: the second sample plus a large offset plus small dyadic noise
	// (each sample is ordinary; only their differences are nearly constant), and a sample against itself
	for k := 0; k < pick(tier, 150, 3000); k++ {
		nn := 3 + rng.Intn(20)
		x2 := ttValues(rng, nn, float64(rng.Intn(3))*10, math.Ldexp(1, rng.Intn(5)-2))
		off := []float64{1000, 100, 0.5, 1e5}[rng.Intn(4)]
		noise := math.Ldexp(1, -[]int{4, 10, 20, 26}[rng.Intn(4)])
		x1 := make([]float64, nn)
		for i := range x1 {
			x1[i] = x2[i] + off + float64(rng.Intn(7)-3)*noise
		}
		mu0 := off + float64(rng.Intn(5)-2)*noise/4
		alt := rng.Intn(3) - 1
		fmt.Fprintf(w, "tt paired %s %s %s %d\n", fmtFs(x1), fmtFs(x2), fmtF(mu0), alt)
		if rng.Intn(10) == 0 {
			fmt.Fprintf(w, "tt welch %s %s 0p-1074 %d\n", fmtFs(x2), fmtFs(x2), alt)
			fmt.Fprintf(w, "tt paired %s %s 0p-1074 %d\n", fmtFs(x2), fmtFs(x2), alt)
		}
	}
	// corners of MeanCI: the smallest samples with confidence levels next to 0 and 1 (quantiles of
	// the heaviest-tailed t distributions far out)
	for k := 0; k < pick(tier, 120, 2000); k++ {
		nn := 2 + rng.Intn(3)
		if rng.Intn(4) == 0 {
			nn = 5 + rng.Intn(30)
		}
		xs := ttValues(rng, nn, float64(rng.Intn(3))*10, math.Ldexp(1, rng.Intn(5)-2))
		c := []float64{1 - 1e-10, 1 - 1e-11, 1 - 1e-12, 1 - 1e-14, math.Nextafter(1, 0), 1 - math.Ldexp(1, -30-rng.Intn(22)), 1e-10, 1e-15, math.Ldexp(1, -40-rng.Intn(1000)),
			1 - 1e-9, 1 - 3e-10, 0.999999, 0.5}[rng.Intn(13)]
		fmt.Fprintf(w, "meanci %s %s\n", fmtFs(xs), fmtF(c))
	}
	// histories: one confidence level, sample sizes that differ by multiples of small powers of
	// two among them, in a process of its own
	for h := 0; h < pick(tier, 25, 400); h++ {
		c := []float64{0.95, 0.99, 0.9, 0.5, rng.Float64()}[rng.Intn(5)]
		base := 2 + rng.Intn(12)
		fmt.Fprintf(w, "{{\n")
		for q := 0; q < 14; q++ {
			nn := base + []int{0, 1, 8, 16, 32, 64, 33, 31}[rng.Intn(8)]
			if rng.Intn(4) == 0 {
				nn = 2 + rng.Intn(80)
			}
			xs := ttValues(rng, nn, float64(rng.Intn(3))*10, math.Ldexp(1, rng.Intn(5)-2))
			fmt.Fprintf(w, "meanci %s %s\n", fmtFs(xs), fmtF(c))
			if rng.Intn(3) == 0 {
				fmt.Fprintf(w, "tt one %s [] 0p-1074 %d\n", fmtFs(xs), rng.Intn(3)-1)
			}
		}
		fmt.Fprintf(w, "}}\n")
	}
}
