package main

import (
	"bufio"
	"fmt"
	"math"
	"math/rand"

	"github.com/aclements/go-moremath/mathx"
	"github.com/aclements/go-moremath/stats"
)

func init() {
	execs["nd"] = func(a []Tok) string {
		d := stats.NormalDist{Mu: a[0].F(), Sigma: a[1].F()}
		switch a[2].Atom {
		case "pdf":
			return fmtF(d.PDF(a[3].F()))
		case "cdf":
			return fmtF(d.CDF(a[3].F()))
		case "inv":
			return fmtF(d.InvCDF(a[3].F()))
		case "misc":
			lo, hi := d.Bounds()
			seed := int64(math.Float64bits(d.Mu)>>7) ^ int64(math.Float64bits(d.Sigma)>>5)
			r1 := d.Rand(rand.New(rand.NewSource(seed)))
			z := rand.New(rand.NewSource(seed)).NormFloat64()
			return fmt.Sprintf("%s %s %s %s %s %s %s", fmtF(d.Mean()), fmtF(d.Variance()), fmtF(lo), fmtF(hi), fmtF(r1), fmtF(z), fmtF(d.Rand(nil)))
		}
		panic("nd method")
	}
	execs["stdnormal"] = func(a []Tok) string {
		stats.StdNormal = stats.NormalDist{Mu: a[0].F(), Sigma: a[1].F()}
		return "set"
	}
	execs["td"] = func(a []Tok) string {
		d := stats.TDist{V: a[0].F()}
		switch a[1].Atom {
		case "bounds":
			lo, hi := d.Bounds()
			return fmtF(lo) + " " + fmtF(hi)
		case "limits":
			return fmtF(d.CDF(math.Inf(-1))) + " " + fmtF(d.CDF(math.Inf(1)))
		case "grid":
			xs := a[2].Fs()
			p, c := make([]float64, len(xs)), make([]float64, len(xs))
			for i, x := range xs {
				p[i], c[i] = d.PDF(x), d.CDF(x)
			}
			return fmtFs(p) + " " + fmtFs(c)
		}
		panic("td method")
	}
	execs["dd"] = func(a []Tok) string {
		d := stats.DeltaDist{T: a[0].F()}
		switch a[1].Atom {
		case "pdf":
			return fmtF(d.PDF(a[2].F()))
		case "cdf":
			return fmtF(d.CDF(a[2].F()))
		case "inv":
			return fmtF(d.InvCDF(a[2].F()))
		case "bounds":
			lo, hi := d.Bounds()
			return fmtF(lo) + " " + fmtF(hi)
		}
		panic("dd method")
	}
	execs["mx"] = execMX
	gens["C05"] = genC05
	gens["C08"] = genC08
}

func execMX(a []Tok) string {
	switch a[0].Atom {
	case "betainc":
		return fmtF(mathx.BetaInc(a[1].F(), a[2].F(), a[3].F()))
	case "betagrid":
		av, bv := a[1].F(), a[2].F()
		xs := a[3].Fs()
		v, c := make([]float64, len(xs)), make([]float64, len(xs))
		for i, x := range xs {
			v[i] = mathx.BetaInc(x, av, bv)
			c[i] = mathx.BetaInc(1-x, bv, av)
		}
		return fmtFs(v) + " " + fmtFs(c)
	case "gammagrid":
		av := a[1].F()
		xs := a[2].Fs()
		p, q := make([]float64, len(xs)), make([]float64, len(xs))
		for i, x := range xs {
			p[i], q[i] = mathx.GammaInc(av, x), mathx.GammaIncComp(av, x)
		}
		return fmtFs(p) + " " + fmtFs(q)
	case "choose":
		n, k := a[1].Int(), a[2].Int()
		return fmtF(mathx.Choose(n, k)) + " " + fmtF(mathx.Choose(n, n-k)) + " " + fmtF(mathx.Lchoose(n, k))
	case "beta":
		return fmtF(mathx.Beta(a[1].F(), a[2].F())) + " " + fmtF(mathx.Beta(a[2].F(), a[1].F()))
	case "sign":
		return fmtF(mathx.Sign(a[1].F()))
	}
	panic("mx op")
}

func genC05(w *bufio.Writer, tier string, rng *rand.Rand) {
	n := pick(tier, 6000, 200000)
	// dictionary: constants of the reachable code as standardized positions, probabilities and parameters
	for _, z := range dictFloats(rng, pick(tier, 80, 2000)) {
		mu, sg := (rng.Float64()*2-1)*[]float64{1, 100, 1e6}[rng.Intn(3)], logUniform(rng, 1e-6, 1e6)
		for _, ms := range [][2]float64{{0, 1}, {mu, sg}, {float64(rng.Intn(200) - 100), float64(1 + rng.Intn(20))}} {
			if math.Abs(z) <= 45 {
				fmt.Fprintf(w, "nd %s %s cdf %s\n", fmtF(ms[0]), fmtF(ms[1]), fmtF(ms[0]+z*ms[1]))
				fmt.Fprintf(w, "nd %s %s pdf %s\n", fmtF(ms[0]), fmtF(ms[1]), fmtF(ms[0]+z*ms[1]))
			}
			if z >= 1e-300 && z < 1 { // (the property's range for p ends at 1e-300; subnormal p cannot be met relatively)
				fmt.Fprintf(w, "nd %s %s inv %s\n", fmtF(ms[0]), fmtF(ms[1]), fmtF(z))
			}
		}
		a := math.Abs(z)
		if a >= 0.1 && a <= 1e4 {
			fmt.Fprintf(w, "td %s grid %s\n", fmtF(a), fmtFs([]float64{-40, -3, -1, -1e-7, 0, 1e-7, 1, 3, 40}))
		}
		if a <= 1e6 && a > 0 {
			v := []float64{1, 2, 3, 0.5, 7.5, 30, 171, 400}[rng.Intn(8)]
			fmt.Fprintf(w, "td %s grid %s\n", fmtF(v), fmtFs([]float64{-a, 0, a}))
			fmt.Fprintf(w, "td %s grid %s\n", fmtF(v), fmtFs([]float64{-a * math.Sqrt(v), 0, a * math.Sqrt(v)}))
		}
	}
	// the exported package variable StdNormal reassigned (and restored) around ordinary calls in a fresh
	// process: no NormalDist, TDist or DeltaDist result depends on it
	for h := 0; h < pick(tier, 12, 200); h++ {
		mu, sg := float64(rng.Intn(40)-20), float64(1+rng.Intn(9))
		if rng.Intn(3) == 0 {
			mu, sg = (rng.Float64()*2-1)*100, logUniform(rng, 1e-3, 1e3)
		}
		fmt.Fprintf(w, "{{\nstdnormal %s %s\n", fmtF(mu), fmtF(sg))
		for q := 0; q < 6; q++ {
			m2, s2 := mu, sg
			if rng.Intn(3) == 0 {
				m2, s2 = []float64{0, 1, -3}[rng.Intn(3)], []float64{1, 2, 0.5}[rng.Intn(3)]
			}
			z := (rng.Float64()*2 - 1) * 4
			fmt.Fprintf(w, "nd %s %s %s %s\n", fmtF(m2), fmtF(s2), []string{"pdf", "cdf"}[rng.Intn(2)], fmtF(m2+z*s2))
			if rng.Intn(3) == 0 {
				fmt.Fprintf(w, "nd %s %s inv %s\n", fmtF(m2), fmtF(s2), fmtF(rng.Float64()))
			}
			if rng.Intn(4) == 0 {
				fmt.Fprintf(w, "td %s grid %s\n", fmtF(float64(1+rng.Intn(30))), fmtFs([]float64{-2, -0.5, 0, 0.5, 2}))
			}
		}
		fmt.Fprintf(w, "stdnormal %s %s\n}}\n", fmtF(0), fmtF(1))
	}
	for k := 0; k < n; k++ {
		mu := (rng.Float64()*2 - 1) * []float64{0, 1, 100, 1e6}[rng.Intn(4)]
		sg := logUniform(rng, 1e-6, 1e6)
		if rng.Intn(4) == 0 {
			mu, sg = 0, 1
		} else if rng.Intn(10) == 0 { // a mean exactly at (or an ulp from) a power of two with a tiny scale: x-Mu, 2Mu-x … round differently on the two sides
			mu = math.Ldexp(1, rng.Intn(40)-10) * float64(rng.Intn(2)*2-1)
			if rng.Intn(3) == 0 {
				mu = math.Nextafter(mu, 0)
			}
			sg = math.Abs(mu) * math.Pow(10, -float64(6+rng.Intn(7)))
		} else if rng.Intn(8) == 0 { // unit scale, shifted; unit shift, scaled
			mu, sg = []float64{10, -0.5, 1e6}[rng.Intn(3)], 1
		}
		switch rng.Intn(8) {
		case 0, 1:
			z := (rng.Float64()*2 - 1) * []float64{1, 3, 8, 40}[rng.Intn(4)]
			if rng.Intn(8) == 0 {
				z = []float64{0, 7, -7, 7.0000001, -8.5, 37, -38}[rng.Intn(7)]
			}
			fmt.Fprintf(w, "nd %s %s cdf %s\n", fmtF(mu), fmtF(sg), fmtF(mu+z*sg))
			if rng.Intn(10) == 0 {
				fmt.Fprintf(w, "nd %s %s cdf %s\n", fmtF(mu), fmtF(sg), []string{"+inf", "-inf"}[rng.Intn(2)])
			}
		case 2:
			z := (rng.Float64()*2 - 1) * []float64{1, 3, 8, 38}[rng.Intn(4)]
			fmt.Fprintf(w, "nd %s %s pdf %s\n", fmtF(mu), fmtF(sg), fmtF(mu+z*sg))
		case 3, 4:
			var p float64
			switch rng.Intn(6) {
			case 0:
				p = math.Pow(10, -rng.Float64()*300)
			case 1:
				p = 1 - math.Pow(10, -rng.Float64()*15)
			case 2:
				p = []float64{0, 1, -0.1, 1.1, 0.5, 0.02425, 1 - 0.02425, 0.02424999, math.NaN()}[rng.Intn(9)]
			default:
				p = rng.Float64()
			}
			fmt.Fprintf(w, "nd %s %s inv %s\n", fmtF(mu), fmtF(sg), fmtF(p))
		case 5:
			fmt.Fprintf(w, "nd %s %s misc\n", fmtF(mu), fmtF(sg))
		case 6: // Student t: symmetric ascending grid
			var v float64
			switch rng.Intn(4) {
			case 0:
				v = float64(1 + rng.Intn(40))
			case 1:
				v = float64([]int{1, 2, 3, 100, 170, 171, 300, 342, 343, 344, 399, 400}[rng.Intn(12)])
			default:
				v = logUniform(rng, 0.1, 1e4)
			}
			if rng.Intn(6) == 0 { // V/2 or (V+1)/2 next to the largest argument with a finite Gamma (171.62…)
				v = 2*171.6243769563027 - float64(rng.Intn(2)) + (rng.Float64()*1.4 - 1.2)
			}
			var pos []float64
			for i := 0; i < 5; i++ {
				pos = append(pos, math.Abs(rng.NormFloat64())*[]float64{0.01, 1, 5, 40}[rng.Intn(4)])
			}
			pos = append(pos, 1e-7, 2)
			sortFloats(pos)
			var xs []float64
			for i := len(pos) - 1; i >= 0; i-- {
				xs = append(xs, -pos[i])
			}
			xs = append(xs, 0)
			xs = append(xs, pos...)
			fmt.Fprintf(w, "td %s grid %s\n", fmtF(v), fmtFs(xs))
			if rng.Intn(10) == 0 {
				fmt.Fprintf(w, "td %s bounds\ntd %s limits\n", fmtF(v), fmtF(v))
			}
		default:
			t := float64(rng.Intn(20)-10) / 4
			x := []float64{t, t, math.Nextafter(t, 100), math.Nextafter(t, -100), t + 1, t - 3}[rng.Intn(6)]
			fmt.Fprintf(w, "dd %s %s %s\n", fmtF(t), []string{"pdf", "cdf"}[rng.Intn(2)], fmtF(x))
			fmt.Fprintf(w, "dd %s inv %s\n", fmtF(t), fmtF([]float64{0, 1, 0.3, -0.1, 1.5}[rng.Intn(5)]))
			if rng.Intn(5) == 0 {
				fmt.Fprintf(w, "dd %s bounds\n", fmtF(t))
			}
		}
	}
}

// dyadicGrid returns ascending x = j 2^-m in [0,1] (so that 1-x is exact), incl. 0 and 1,
// concentrated near 0, 1, the mean a/(a+b) and the branch switch (a+1)/(a+b+2).
func dyadicGrid(rng *rand.Rand, a, b float64) []float64 {
	snap := func(x float64) float64 {
		m := 20 + rng.Intn(30)
		v := math.Round(math.Ldexp(x, m))
		x = math.Ldexp(v, -m)
		if x < 0 {
			x = 0
		}
		if x > 1 {
			x = 1
		}
		return x
	}
	mean := a / (a + b)
	sw := (a + 1) / (a + b + 2)
	xs := []float64{0, 1, snap(mean), snap(sw), snap(sw * 1.0001), snap(sw * 0.9999)}
	for i := 0; i < 6; i++ {
		switch rng.Intn(5) {
		case 0:
			if rng.Intn(2) == 0 { // hundreds of decades below 1 (x and 1-x are still exact floats)
				xs = append(xs, math.Ldexp(1, -rng.Intn(1000)))
			} else {
				xs = append(xs, snap(math.Pow(10, -rng.Float64()*12)))
			}
		case 1:
			xs = append(xs, snap(1-math.Pow(10, -rng.Float64()*12)))
		case 2:
			xs = append(xs, snap(mean*(0.3+rng.Float64()*2.5)))
		default:
			xs = append(xs, snap(rng.Float64()))
		}
	}
	sortFloats(xs)
	return xs
}

func genC08(w *bufio.Writer, tier string, rng *rand.Rand) {
	n := pick(tier, 5000, 150000)
	// aimed at the numeric constants of the code: parameters, arguments, differences x-a in units of sqrt(a),
	// and (n,k) of the binomial coefficient
	for _, c := range dictFloats(rng, pick(tier, 60, 1500)) {
		v := math.Abs(c)
		if v >= 0.05 && v <= 300 {
			o := logUniform(rng, 0.05, 300)
			fmt.Fprintf(w, "mx betagrid %s %s %s\n", fmtF(v), fmtF(o), fmtFs(dyadicGrid(rng, v, o)))
			fmt.Fprintf(w, "mx betagrid %s %s %s\n", fmtF(o), fmtF(v), fmtFs(dyadicGrid(rng, o, v)))
			fmt.Fprintf(w, "mx beta %s %s\n", fmtF(v), fmtF(o))
			xs := []float64{0, v, v + 1, v * 0.5, v * 2, v + math.Sqrt(v), v + 7*math.Sqrt(v), v + 9*math.Sqrt(v), 1e-300, 1000}
			sortFloats(xs)
			fmt.Fprintf(w, "mx gammagrid %s %s\n", fmtF(v), fmtFs(xs))
		}
		if v > 0 && v < 1e18 { // as the argument x, and as the distance x-a in standard deviations sqrt(a)
			a := logUniform(rng, 0.05, 300)
			if rng.Intn(2) == 0 {
				a = float64(1 + rng.Intn(300))
			}
			xs := []float64{v, math.Nextafter(v, 0), math.Nextafter(v, math.Inf(1))}
			if v < 60 {
				xs = append(xs, a+v*math.Sqrt(a), a+v*math.Sqrt(a)*1.0001, math.Max(0, a-v*math.Sqrt(a)))
			}
			sortFloats(xs)
			fmt.Fprintf(w, "mx gammagrid %s %s\n", fmtF(a), fmtFs(xs))
		}
	}
	for _, nn := range dictSizes(rng, 0, 1000, pick(tier, 10, 100)) {
		for _, kk := range []int{0, 1, 2, nn / 2, nn - 1, nn, rng.Intn(nn + 1)} {
			if kk >= 0 && kk <= nn {
				fmt.Fprintf(w, "mx choose %d %d\n", nn, kk)
			}
		}
	}
	for k := 0; k < n; k++ {
		switch rng.Intn(10) {
		case 0, 1, 2: // real parameters: laws on a dyadic grid
			a, b := logUniform(rng, 0.05, 300), logUniform(rng, 0.05, 300)
			if rng.Intn(3) == 0 { // integer parameters: references too
				a, b = float64(1+rng.Intn(300)), float64(1+rng.Intn(300))
				if rng.Intn(2) == 0 {
					a, b = float64(1+rng.Intn(12)), float64(1+rng.Intn(12))
				}
			} else if rng.Intn(4) == 0 { // (k/2, 1/2) slices
				a, b = float64(1+rng.Intn(80))/2, 0.5
				if rng.Intn(2) == 0 {
					a, b = b, a
				}
			} else if rng.Intn(4) == 0 { // corners of the range
				a = []float64{0.05, 0.06, 0.1, 300, 250}[rng.Intn(5)]
				b = []float64{0.05, 0.1, 300, 280, 70}[rng.Intn(5)]
			}
			fmt.Fprintf(w, "mx betagrid %s %s %s\n", fmtF(a), fmtF(b), fmtFs(dyadicGrid(rng, a, b)))
		case 3:
			a, b := logUniform(rng, 0.05, 300), logUniform(rng, 0.05, 300)
			x := []float64{-0.1, 1.1, -1e-300, 1 + 1e-15, 0, 1}[rng.Intn(6)]
			fmt.Fprintf(w, "mx betainc %s %s %s\n", fmtF(x), fmtF(a), fmtF(b))
		case 4, 5: // gamma grids
			a := logUniform(rng, 0.05, 300)
			switch rng.Intn(4) {
			case 0:
				a = float64(1 + rng.Intn(300))
			case 1:
				a = float64(1+2*rng.Intn(100)) / 2
			}
			xs := []float64{0, a, a + 1, math.Nextafter(a+1, 0), (a + 1) * 1.0001}
			for i := 0; i < 6; i++ {
				xs = append(xs, a*math.Exp(rng.NormFloat64()), rng.Float64()*3*(a+1))
			}
			xs = append(xs, 1e-300, 1000)
			// far upper tail (x^a and e^-x leave the float64 range long before P reaches 1)
			for i := 0; i < 3; i++ {
				xs = append(xs, []float64{a * 13, a * 25, 1300, 2000, 7e4, 2e6, 3e15, 1e30, 1e300, math.MaxFloat64,
					a * logUniform(rng, 5, 1e4), logUniform(rng, 700, 1e18)}[rng.Intn(12)])
			}
			// x on its own scale, whatever a is (tails of small a, bulk of large a)
			for i := 0; i < 4; i++ {
				xs = append(xs, logUniform(rng, 1e-3, 60), a+math.Sqrt(a)*logUniform(rng, 1, 60))
			}
			sortFloats(xs)
			fmt.Fprintf(w, "mx gammagrid %s %s\n", fmtF(a), fmtFs(xs))
			if rng.Intn(10) == 0 {
				fmt.Fprintf(w, "mx gammagrid %s %s\n", fmtF([]float64{a, 0, -1, math.NaN(), math.Inf(-1), math.Copysign(0, -1)}[rng.Intn(6)]),
					fmtFs([]float64{-1, math.NaN(), 1, 0, math.Copysign(0, -1), 1e-300, 700}))
			}
		case 6, 7: // Choose / Lchoose
			nn := rng.Intn(1001)
			if rng.Intn(3) == 0 {
				nn = rng.Intn(70)
			}
			kk := rng.Intn(nn + 1)
			if rng.Intn(10) == 0 {
				kk = []int{-1, nn + 1, -5}[rng.Intn(3)]
			}
			fmt.Fprintf(w, "mx choose %d %d\n", nn, kk)
		case 8:
			a, b := logUniform(rng, 0.05, 300), logUniform(rng, 0.05, 300)
			switch rng.Intn(4) {
			case 0:
				a, b = float64(1+rng.Intn(80)), float64(1+rng.Intn(80))
			case 1: // around the largest arguments whose Gamma is a finite float64 (171.62...)
				a = []float64{170, 171, 171.5, 172, 100, 85.8, 2, 1, 0.5, 0.05, 0.1, 0.3}[rng.Intn(12)]
				b = []float64{170, 171, 171.6, 172, 100, 85.9, 2, 1, 170.9, 71.7, 171.45, 171.3, 171.55}[rng.Intn(13)]
				if rng.Intn(2) == 0 {
					a, b = b, a
				}
			}
			fmt.Fprintf(w, "mx beta %s %s\n", fmtF(a), fmtF(b))
		default:
			fmt.Fprintf(w, "mx sign %s\n", fmtF([]float64{0, math.Copysign(0, -1), 1, -1, 1e-300, -1e300, math.Inf(1), math.Inf(-1), math.NaN()}[rng.Intn(9)]))
		}
	}
	// histories in fresh processes: the first calls fix how far any table inside the library has
	// been filled; later calls ask for n around the multiples of what was asked before
	for h := 0; h < pick(tier, 60, 1500); h++ {
		n0 := 1 + rng.Intn(140)
		if rng.Intn(3) == 0 {
			n0 = 21 + rng.Intn(30)
		}
		fmt.Fprintf(w, "{{\nmx choose %d %d\n", n0, rng.Intn(n0+1))
		cur := n0
		for q := 0; q < 5; q++ {
			m := []int{2, 2, 2, 4, 3, 1}[rng.Intn(6)]
			nn := m*cur + []int{0, 1, 2, -1, 3, m}[rng.Intn(6)]
			if nn < 0 || nn > 1000 {
				break
			}
			kk := []int{1, 2, 3, nn / 2, nn - 3}[rng.Intn(5)]
			if kk < 0 || kk > nn {
				kk = 0
			}
			fmt.Fprintf(w, "mx choose %d %d\n", nn, kk)
			if rng.Intn(2) == 0 {
				cur = nn
			}
		}
		fmt.Fprintf(w, "}}\n")
	}
	if isThorough(tier) { // every (n,k) up to 1000
		for nn := 0; nn <= 1000; nn++ {
			for kk := 0; kk <= nn; kk++ {
				if nn > 60 && rng.Intn(4) != 0 {
					continue
				}
				fmt.Fprintf(w, "mx choose %d %d\n", nn, kk)
			}
		}
	} else {
		for nn := 0; nn <= 70; nn++ {
			for kk := 0; kk <= nn; kk++ {
				fmt.Fprintf(w, "mx choose %d %d\n", nn, kk)
			}
		}
	}
}
