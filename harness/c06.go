package main

import (
	"bufio"
	"fmt"
	"math"
	"math/rand"

	"github.com/aclements/go-moremath/stats"
)

func init() {
	execs["bin"] = execBin
	execs["hyp"] = execHyp
	gens["C06"] = genC06
}

func execBin(a []Tok) string {
	d := stats.BinomialDist{N: a[0].Int(), P: a[1].F()}
	switch a[2].Atom {
	case "pmf":
		return fmtF(d.PMF(a[3].F()))
	case "cdf":
		return fmtF(d.CDF(a[3].F()))
	case "misc":
		lo, hi := d.Bounds()
		na := d.NormalApprox()
		return fmt.Sprintf("%s %s %s %s %s %s %s", fmtF(lo), fmtF(hi), fmtF(d.Step()), fmtF(d.Mean()), fmtF(d.Variance()), fmtF(na.Mu), fmtF(na.Sigma))
	}
	panic("bin: method")
}

func execHyp(a []Tok) string {
	d := stats.HypergeometicDist{N: a[0].Int(), K: a[1].Int(), Draws: a[2].Int()}
	switch a[3].Atom {
	case "pmf":
		return fmtF(d.PMF(a[4].F()))
	case "cdf":
		return fmtF(d.CDF(a[4].F()))
	case "misc":
		lo, hi := d.Bounds()
		return fmt.Sprintf("%s %s %s %s %s", fmtF(lo), fmtF(hi), fmtF(d.Step()), fmtF(d.Mean()), fmtF(d.Variance()))
	}
	panic("hyp: method")
}

func genC06(w *bufio.Writer, tier string, rng *rand.Rand) {
	// binomial: N <= 60 on the 101-point grid (floats j/100) and short dyadics, every k from -2 to N+2 and half-integers
	ps := []float64{0, 1, 1e-12, 1 - 1e-12, math.Ldexp(1, -40), 1 - math.Ldexp(1, -40), 0.5}
	for j := 0; j <= 100; j++ {
		ps = append(ps, float64(j)/100)
	}
	maxN := 60
	stepN := pick(tier, 7, 1)
	for n := 0; n <= maxN; n++ {
		if n > 8 && n%stepN != 0 && n != 20 && n != 21 && n != 60 {
			continue
		}
		for _, p := range ps {
			if !isThorough(tier) && rng.Intn(6) != 0 && p != 0 && p != 1 {
				continue
			}
			fmt.Fprintf(w, "bin %d %s misc\n", n, fmtF(p))
			for k2 := -4; k2 <= 2*n+4; k2++ {
				if k2%2 != 0 && rng.Intn(4) != 0 {
					continue
				}
				k := float64(k2) / 2
				fmt.Fprintf(w, "bin %d %s pmf %s\n", n, fmtF(p), fmtF(k))
				fmt.Fprintf(w, "bin %d %s cdf %s\n", n, fmtF(p), fmtF(k))
			}
		}
	}
	// larger N up to 1000 with short dyadic p (exact arithmetic stays small) and extremes
	nb := pick(tier, 150, 4000)
	for i := 0; i < nb; i++ {
		n := 61 + rng.Intn(940)
		if rng.Intn(5) == 0 {
			n = []int{170, 171, 169, 1000, 999, 255, 256, 512}[rng.Intn(8)]
		}
		var p float64
		switch rng.Intn(5) {
		case 0:
			p = float64(rng.Intn(129)) / 128
		case 1:
			p = float64(1+rng.Intn(15)) / 16
		case 2:
			p = math.Ldexp(1, -1-rng.Intn(12))
		case 3:
			p = 1 - math.Ldexp(1, -1-rng.Intn(12))
		default:
			p = []float64{0, 1, math.Ldexp(1, -40), 1 - math.Ldexp(1, -40)}[rng.Intn(4)]
		}
		mean := float64(n) * p
		sd := math.Sqrt(float64(n)*p*(1-p)) + 1
		for q := 0; q < 6; q++ {
			var k float64
			switch rng.Intn(5) {
			case 0:
				k = math.Round(mean + rng.NormFloat64()*sd)
			case 1:
				k = math.Round(mean + rng.NormFloat64()*4*sd)
			case 2:
				k = float64(rng.Intn(n + 1))
			case 3:
				k = []float64{-1, 0, float64(n), float64(n + 1), float64(n - 1), 170, 85}[rng.Intn(7)]
			default:
				k = math.Round(mean) + 0.5
			}
			fmt.Fprintf(w, "bin %d %s pmf %s\n", n, fmtF(p), fmtF(k))
			fmt.Fprintf(w, "bin %d %s cdf %s\n", n, fmtF(p), fmtF(k))
		}
		if rng.Intn(4) == 0 {
			fmt.Fprintf(w, "bin %d %s misc\n", n, fmtF(p))
		}
	}
	// hypergeometric: exhaustive N <= 14 (thorough 40), then sampled to 80, random to 1000
	maxH := pick(tier, 14, 40)
	for N := 2; N <= maxH; N++ {
		for K := 0; K <= N; K++ {
			for D := 0; D <= N; D++ {
				if N > 25 && rng.Intn(3) != 0 {
					continue
				}
				fmt.Fprintf(w, "hyp %d %d %d misc\n", N, K, D)
				lo, hi := D+K-N, D
				if lo < 0 {
					lo = 0
				}
				if K < hi {
					hi = K
				}
				for k2 := 2*lo - 4; k2 <= 2*hi+4; k2++ {
					if k2%2 != 0 && rng.Intn(4) != 0 {
						continue
					}
					k := float64(k2) / 2
					fmt.Fprintf(w, "hyp %d %d %d pmf %s\n", N, K, D, fmtF(k))
					fmt.Fprintf(w, "hyp %d %d %d cdf %s\n", N, K, D, fmtF(k))
				}
			}
		}
	}
	// every population size once (no band of sizes is left to chance), central and off-centre draws
	for N := 15; N <= pick(tier, 300, 1000); N++ {
		for _, D := range []int{N / 2, N/2 - 3 - rng.Intn(4), N / 3, N - 2} {
			if D < 0 || D > N {
				continue
			}
			for _, K := range []int{1, N / 2, N - 1, rng.Intn(N + 1)} {
				if !isThorough(tier) && rng.Intn(2) == 0 {
					continue
				}
				lo := D + K - N
				if lo < 0 {
					lo = 0
				}
				mean := math.Round(float64(D) * float64(K) / float64(N))
				fmt.Fprintf(w, "hyp %d %d %d pmf %s\n", N, K, D, fmtF(float64(lo)))
				fmt.Fprintf(w, "hyp %d %d %d pmf %s\n", N, K, D, fmtF(mean))
				fmt.Fprintf(w, "hyp %d %d %d cdf %s\n", N, K, D, fmtF(mean))
			}
		}
	}
	// and every binomial size with a central and a tail point
	for n := 61; n <= 1000; n++ {
		if !isThorough(tier) && n > 200 && rng.Intn(4) != 0 {
			continue
		}
		p := float64(1+rng.Intn(15)) / 16
		k := math.Round(float64(n) * p)
		fmt.Fprintf(w, "bin %d %s pmf %s\n", n, fmtF(p), fmtF(k))
		fmt.Fprintf(w, "bin %d %s cdf %s\n", n, fmtF(p), fmtF(k))
		fmt.Fprintf(w, "bin %d %s pmf %s\n", n, fmtF(p), fmtF(float64(n)-k))
	}
	// the widest supports at the top of the range: balanced populations (K and Draws near N/2, hundreds of
	// support points), asked at the first and last few dozen points and in steps through the whole support -
	// the extreme tails, where a probability is 1e-200 and smaller, and the longest series
	for i := 0; i < pick(tier, 40, 800); i++ {
		N := 1000 - rng.Intn(140)
		if rng.Intn(4) == 0 {
			N = 400 + rng.Intn(601)
		}
		K, D := N/2+rng.Intn(121)-60, N/2+rng.Intn(121)-60
		if rng.Intn(5) == 0 {
			K, D = N/2, N/2
		}
		lo, hi := D+K-N, D
		if lo < 0 {
			lo = 0
		}
		if K < hi {
			hi = K
		}
		var ks []int
		for q := 0; q < 4; q++ {
			ks = append(ks, lo+rng.Intn(45), hi-rng.Intn(45))
		}
		ks = append(ks, lo, lo+1, lo+2, hi, hi-1, lo+(hi-lo)/4, lo+(hi-lo)*3/4)
		for _, k := range ks {
			if k < lo-1 || k > hi+1 {
				continue
			}
			fmt.Fprintf(w, "hyp %d %d %d cdf %s\n", N, K, D, fmtF(float64(k)))
			if rng.Intn(2) == 0 {
				fmt.Fprintf(w, "hyp %d %d %d pmf %s\n", N, K, D, fmtF(float64(k)))
			}
		}
	}
	// hypergeometric populations beyond 1000 (the statement has no upper bound on N): coefficients past the float64
	// range (C(1100,550) > 1e308), central and tail points
	for i := 0; i < pick(tier, 40, 800); i++ {
		N := 1001 + rng.Intn(4000)
		if rng.Intn(3) == 0 {
			N = 1001 + rng.Intn(400)
		}
		K, D := rng.Intn(N+1), rng.Intn(N+1)
		if rng.Intn(2) == 0 {
			K, D = N/2+rng.Intn(61)-30, N/2+rng.Intn(61)-30
		}
		if rng.Intn(6) == 0 {
			K = []int{30, 1, N - 1, N / 3}[rng.Intn(4)]
		}
		lo, hi := D+K-N, D
		if lo < 0 {
			lo = 0
		}
		if K < hi {
			hi = K
		}
		mean := int(math.Round(float64(D) * float64(K) / float64(N)))
		for _, k := range []int{mean, mean + 1, mean - 3, lo, hi, lo + rng.Intn(hi-lo+1)} {
			if k < lo-1 || k > hi+1 {
				continue
			}
			fmt.Fprintf(w, "hyp %d %d %d pmf %s\n", N, K, D, fmtF(float64(k)))
			fmt.Fprintf(w, "hyp %d %d %d cdf %s\n", N, K, D, fmtF(float64(k)))
		}
	}
	// and the same for the binomial: N at the top of the range, k in the extreme tails
	for i := 0; i < pick(tier, 30, 600); i++ {
		n := 1000 - rng.Intn(150)
		p := []float64{0.5, 0.25, 0.75, 0.1, 0.9, rng.Float64()}[rng.Intn(6)]
		for q := 0; q < 6; q++ {
			k := rng.Intn(40)
			if rng.Intn(2) == 0 {
				k = n - rng.Intn(40)
			}
			fmt.Fprintf(w, "bin %d %s cdf %s\n", n, fmtF(p), fmtF(float64(k)))
			fmt.Fprintf(w, "bin %d %s pmf %s\n", n, fmtF(p), fmtF(float64(k)))
		}
	}
	// sizes and counts aimed at the numeric constants of the code
	for _, c := range dictSizes(rng, 1, 1000, pick(tier, 12, 150)) {
		for rep := 0; rep < 3; rep++ {
			N := c
			if rep > 0 || N < 2 {
				N = minI(1000, 2*c+rng.Intn(3)+rng.Intn(2)*rng.Intn(500))
			}
			if N < 2 {
				continue
			}
			K, D := N/2+rng.Intn(5)-2, N/2+rng.Intn(5)-2
			if rep == 2 {
				K, D = minI(N, c), rng.Intn(N+1)
			}
			if K < 0 || D < 0 || K > N || D > N {
				continue
			}
			lo, hi := D+K-N, D
			if lo < 0 {
				lo = 0
			}
			if K < hi {
				hi = K
			}
			for _, k := range []int{lo, lo + 1, lo + c, lo + c + 1, lo + c - 1, hi - c, hi - c - 1, hi - 1, hi, (lo + hi) / 2} {
				if k < lo-1 || k > hi+1 {
					continue
				}
				fmt.Fprintf(w, "hyp %d %d %d cdf %s\n", N, K, D, fmtF(float64(k)))
				fmt.Fprintf(w, "hyp %d %d %d pmf %s\n", N, K, D, fmtF(float64(k)))
			}
			fmt.Fprintf(w, "bin %d %s cdf %s\n", minI(1000, c), fmtF(0.5), fmtF(float64(minI(1000, c)/2)))
			fmt.Fprintf(w, "bin %d %s pmf %s\n", minI(1000, N), fmtF(float64(1+rng.Intn(15))/16), fmtF(float64(c)))
		}
	}
	nh := pick(tier, 300, 8000)
	for i := 0; i < nh; i++ {
		N := 15 + rng.Intn(986)
		if rng.Intn(3) == 0 {
			N = 15 + rng.Intn(66)
		}
		if rng.Intn(8) == 0 {
			N = []int{170, 171, 340, 400, 1000}[rng.Intn(5)]
		}
		K, D := rng.Intn(N+1), rng.Intn(N+1)
		if rng.Intn(6) == 0 {
			K = []int{0, 1, N - 1, N, 170}[rng.Intn(5)]
			if K > N {
				K = N
			}
		}
		lo, hi := D+K-N, D
		if lo < 0 {
			lo = 0
		}
		if K < hi {
			hi = K
		}
		mean := float64(D) * float64(K) / float64(N)
		for q := 0; q < 5; q++ {
			var k float64
			switch rng.Intn(4) {
			case 0:
				k = math.Round(mean + rng.NormFloat64()*3)
			case 1:
				k = float64(lo + rng.Intn(hi-lo+1))
			case 2:
				k = []float64{float64(lo - 1), float64(lo), float64(hi), float64(hi + 1), float64(hi - 1)}[rng.Intn(5)]
			default:
				k = math.Round(mean) + 0.5
			}
			fmt.Fprintf(w, "hyp %d %d %d pmf %s\n", N, K, D, fmtF(k))
			fmt.Fprintf(w, "hyp %d %d %d cdf %s\n", N, K, D, fmtF(k))
		}
		if rng.Intn(4) == 0 {
			fmt.Fprintf(w, "hyp %d %d %d misc\n", N, K, D)
		}
	}
}
