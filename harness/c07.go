package main

import (
	"bufio"
	"fmt"
	"math"
	"math/rand"
	"strings"

	"github.com/aclements/go-moremath/stats"
)

func init() {
	execs["inv"] = execInv
	execs["rnd"] = execRnd
	gens["C07"] = genC07
}

// pwDist is a user-defined distribution: piecewise ramps, jumps and flats.
type pwDist struct {
	x, l, r []float64
}

func (d *pwDist) CDF(x float64) float64 {
	n := len(d.x)
	if x < d.x[0] {
		return d.l[0]
	}
	if x >= d.x[n-1] {
		return d.r[n-1]
	}
	i := 0
	for i+1 < n && x >= d.x[i+1] {
		i++
	}
	if d.l[i+1] == d.r[i] {
		return d.r[i]
	}
	v := d.r[i] + (x-d.x[i])*((d.l[i+1]-d.r[i])/(d.x[i+1]-d.x[i]))
	if v > d.l[i+1] {
		v = d.l[i+1]
	}
	return v
}
func (d *pwDist) Bounds() (float64, float64) { return d.x[0], d.x[len(d.x)-1] }

func mkPW(t Tok) *pwDist {
	d := &pwDist{}
	for _, k := range t.Arr {
		d.x = append(d.x, k.Arr[0].F())
		d.l = append(d.l, k.Arr[1].F())
		d.r = append(d.r, k.Arr[2].F())
	}
	return d
}

// ownDist has its own quantile method.
type ownDist struct{ pwDist }

func (d *ownDist) InvCDF(y float64) float64 { return y*3 + 1 }

type rngDist struct{ pwDist }

func (d *rngDist) Rand(r *rand.Rand) float64 {
	if r == nil {
		return 42 + rand.Float64()
	}
	return 42 + r.Float64()
}

// latDist is a user-defined DISCRETE distribution (it has PMF and Step besides CDF and Bounds): a step
// CDF on the lattice x0 + k*step. Its quantiles are what the same CDF gives without those methods.
type latDist struct {
	pwDist
	step float64
}

func (d *latDist) PMF(x float64) float64 {
	for i, k := range d.x {
		if k == x {
			return d.r[i] - d.l[i]
		}
	}
	return 0
}
func (d *latDist) Step() float64 { return d.step }

func mkDist(a []Tok) (stats.DistCommon, []Tok) {
	switch a[0].Atom {
	case "pw":
		return mkPW(a[1]), a[2:]
	case "pwd":
		return &latDist{*mkPW(a[1]), a[2].F()}, a[3:]
	case "bin":
		return stats.BinomialDist{N: a[1].Int(), P: a[2].F()}, a[3:]
	case "hyp":
		return stats.HypergeometicDist{N: a[1].Int(), K: a[2].Int(), Draws: a[3].Int()}, a[4:]
	case "ud":
		d := stats.UDist{N1: a[1].Int(), N2: a[2].Int()}
		if len(a[3].Arr) > 0 {
			d.T = a[3].Ints()
		}
		return d, a[4:]
	case "cont":
		switch a[1].Atom {
		case "t1":
			return stats.TDist{V: 1}, a[2:]
		case "t5":
			return stats.TDist{V: 5}, a[2:]
		case "t2.5":
			return stats.TDist{V: 2.5}, a[2:]
		case "t300":
			return stats.TDist{V: 300}, a[2:]
		case "n01":
			return stats.StdNormal, a[2:]
		case "n25":
			return stats.NormalDist{Mu: 2, Sigma: 5}, a[2:]
		case "nfar":
			return stats.NormalDist{Mu: -1000, Sigma: 0.25}, a[2:]
		}
	}
	panic("dist kind")
}

func execInv(a []Tok) string {
	if a[0].Atom == "own" {
		d := &ownDist{pwDist{x: []float64{0, 1}, l: []float64{0, 1}, r: []float64{0, 1}}}
		y := a[1].F()
		return fmtF(stats.InvCDF(d)(y)) + " " + fmtF(d.InvCDF(y))
	}
	if a[0].Atom == "pwmut" {
		// inv pwmut pw1 pw2 ys: the function is taken while the distribution object holds pw1;
		// the object's fields are then replaced by pw2's and the same function is queried: it
		// must answer for the distribution as it is at the time of the call
		d := mkPW(a[1])
		inv := stats.InvCDF(d)
		ys := a[3].Fs()
		for _, y := range ys {
			inv(y)
		}
		*d = *mkPW(a[2])
		xs := make([]float64, len(ys))
		for i, y := range ys {
			xs[i] = inv(y)
		}
		return fmtFs(xs)
	}
	d, rest := mkDist(a)
	if rest[0].IsArr {
		// several y through ONE closure, in the given order (the returned function must not
		// depend on earlier calls)
		inv := stats.InvCDF(d)
		ys := rest[0].Fs()
		xs := make([]float64, len(ys))
		for i, y := range ys {
			xs[i] = inv(y)
		}
		if len(ys) <= 64 {
			concurrentSame("InvCDF closure", inv, ys, xs)
		}
		return fmtFs(xs)
	}
	y := rest[0].F()
	x := stats.InvCDF(d)(y)
	if a[0].Atom == "cont" {
		dx := 1e-9 * math.Max(1, math.Abs(x))
		return fmtF(x) + " " + fmtF(d.CDF(x+dx)) + " " + fmtF(d.CDF(x-dx))
	}
	return fmtF(x)
}

// rnd <dist…> seed
func execRnd(a []Tok) string {
	var d stats.DistCommon
	var rest []Tok
	if a[0].Atom == "normal" {
		d, rest = stats.NormalDist{Mu: a[1].F(), Sigma: a[2].F()}, a[3:]
	} else if a[0].Atom == "ownrand" {
		d, rest = &rngDist{pwDist{x: []float64{0, 1}, l: []float64{0, 1}, r: []float64{0, 1}}}, a[1:]
	} else {
		d, rest = mkDist(a)
	}
	seed := int64(rest[0].Int())
	v := stats.Rand(d)(rand.New(rand.NewSource(seed)))
	// the same generator value used with other sources first: a draw may depend only on the
	// source passed to that call
	gen := stats.Rand(d)
	other := rand.New(rand.NewSource(seed + 12345))
	for i := 0; i < int(seed%5); i++ {
		gen(other)
	}
	again := gen(rand.New(rand.NewSource(seed)))
	var w float64
	r2 := rand.New(rand.NewSource(seed))
	switch dd := d.(type) {
	case stats.NormalDist:
		w = r2.NormFloat64()*dd.Sigma + dd.Mu
	case *rngDist:
		w = 42 + r2.Float64()
	default:
		y := 0.0
		for y == 0 {
			y = r2.Float64()
		}
		w = stats.InvCDF(d)(y)
	}
	// a nil source means the package-level generator: such a call between two draws from an
	// explicit source must neither consume from that source nor change what it yields next
	g3, r3 := stats.Rand(d), rand.New(rand.NewSource(seed))
	a1 := g3(r3)
	g3(nil)
	a2 := g3(r3)
	g4, r4 := stats.Rand(d), rand.New(rand.NewSource(seed))
	b1, b2 := g4(r4), g4(r4)
	// a source whose first uniform variate is exactly 0 (a 2^-53 event with an ordinary source): the
	// generic generator redraws from THE SAME source; NormalDist and distributions with their own Rand
	// never ask for a uniform variate this way
	if _, own := d.(interface{ Rand(*rand.Rand) float64 }); !own {
		z := rand.New(&zeroFirst{more: int(seed % 4), rest: rand.NewSource(seed)})
		got := stats.Rand(d)(z)
		y := 0.0
		z2 := rand.New(&zeroFirst{more: int(seed % 4), rest: rand.NewSource(seed)})
		for y == 0 {
			y = z2.Float64()
		}
		if want := stats.InvCDF(d)(y); math.Float64bits(got) != math.Float64bits(want) {
			panic(fmt.Sprintf("Rand with a source whose first variate is 0 returned %v, InvCDF(next variate) is %v", got, want))
		}
	}
	same := func(x, y float64) bool { return math.Float64bits(x) == math.Float64bits(y) }
	return fmtF(v) + " " + fmtF(w) + " " + fmtF(again) + " " + fmtB(same(a1, b1) && same(a2, b2) && r3.Int63() == r4.Int63())
}

// zeroFirst is a rand.Source whose first value (or first few values: `more`) is 0; afterwards it follows rest.
type zeroFirst struct {
	used bool
	more int
	rest rand.Source
}

func (z *zeroFirst) Int63() int64 {
	if !z.used || z.more > 0 {
		if z.used {
			z.more--
		}
		z.used = true
		return 0
	}
	return z.rest.Int63()
}
func (z *zeroFirst) Seed(int64) {}

// randPW builds a random well-formed piecewise CDF with dyadic levels.
func randPW(rng *rand.Rand) string {
	n := 1 + rng.Intn(12)
	centre := []float64{0, 0, 1, -3, 1e3, -1e6, 1e6, 12345.678}[rng.Intn(8)]
	if rng.Intn(3) == 0 {
		centre = (rng.Float64()*2 - 1) * 1e6
	}
	width := math.Exp(rng.Float64()*math.Log(1e9)) * 1e-3
	// levels: sorted multiples of 1/64 from 0 to 1
	xs := make([]float64, n)
	x := centre - width/2
	for i := range xs {
		xs[i] = x
		x += width / float64(n) * (0.2 + rng.Float64()*1.6)
	}
	lv := 0.0
	var parts []string
	for i := 0; i < n; i++ {
		l := lv
		r := l
		if rng.Intn(3) == 0 || (i == 0 && rng.Intn(4) == 0) || n == 1 {
			r = l + float64(1+rng.Intn(16))/64 // jump
		}
		if r > 1 {
			r = 1
		}
		if i == n-1 {
			r = 1
		}
		parts = append(parts, fmt.Sprintf("[%s,%s,%s]", fmtF(xs[i]), fmtF(l), fmtF(r)))
		lv = r
		if rng.Intn(3) != 0 { // ramp up to the next knot (else flat)
			lv = r + float64(rng.Intn(20))/64
			if lv > 1 {
				lv = 1
			}
		}
	}
	return "[" + strings.Join(parts, ",") + "]"
}

func genC07(w *bufio.Writer, tier string, rng *rand.Rand) {
	n := pick(tier, 2500, 60000)
	for k := 0; k < n; k++ {
		pw := randPW(rng)
		toks, _ := parseLine(pw)
		d := mkPW(toks[0])
		ny := 3 + rng.Intn(6)
		var ys []float64
		for q := 0; q < ny; q++ {
			var y float64
			switch rng.Intn(8) {
			case 0:
				y = []float64{0, 1, -0.1, 1.1, -1e-300, 1 + 1e-15}[rng.Intn(6)]
			case 1: // exact levels (flat stretches and jump ends) and neighbours
				i := rng.Intn(len(d.x))
				y = []float64{d.l[i], d.r[i]}[rng.Intn(2)]
				if rng.Intn(2) == 0 {
					y = math.Nextafter(y, float64(rng.Intn(2)*3-1))
				}
			case 2: // strictly inside a jump
				i := rng.Intn(len(d.x))
				y = (d.l[i] + d.r[i]) / 2
			case 3:
				y = math.Ldexp(1, -rng.Intn(1000)-1)
			case 4:
				y = 1 - math.Ldexp(1, -1-rng.Intn(52))
			default:
				y = rng.Float64()
			}
			ys = append(ys, y)
			if rng.Intn(3) == 0 && y > 0 && y < 1 { // revisit a neighbouring level right after
				ys = append(ys, math.Nextafter(y, float64(rng.Intn(2)*3-1)))
			}
			if rng.Intn(4) == 0 && len(ys) > 1 { // repeat an earlier query
				ys = append(ys, ys[rng.Intn(len(ys))])
			}
		}
		if rng.Intn(3) == 0 {
			for _, y := range ys {
				fmt.Fprintf(w, "inv pw %s %s\n", pw, fmtF(y))
			}
		} else {
			fmt.Fprintf(w, "inv pw %s %s\n", pw, fmtFs(ys))
		}
		if rng.Intn(4) == 0 {
			fmt.Fprintf(w, "rnd pw %s %d\n", pw, rng.Intn(1<<30))
		}
		if rng.Intn(6) == 0 { // the distribution object changes after the function was taken
			var ys2 []float64
			for _, y := range ys {
				if y >= 0 && y <= 1 {
					ys2 = append(ys2, y)
				}
			}
			ys2 = append(ys2, 0, 1) // the end points are taken from Bounds at the time of the call
			if len(ys2) > 0 {
				fmt.Fprintf(w, "inv pwmut %s %s %s\n", randPW(rng), pw, fmtFs(ys2))
			}
		}
	}
	// user-defined discrete distributions (PMF and Step implemented) on lattices whose step is not a power of
	// two: the quantile is the smallest support point whose CDF reaches y, whatever the step
	for k := 0; k < pick(tier, 150, 4000); k++ {
		step := []float64{3, 6, 0.75, 0.1, 7, 1.5, 10, 0.3, 1, 2, 5, 1e-3, 12.5}[rng.Intn(13)]
		x0 := []float64{0, 0, 1, -3, 2.5, 100, -17}[rng.Intn(7)] * []float64{1, step}[rng.Intn(2)]
		m := 1 + rng.Intn(14)
		var parts []string
		lv := 0.0
		var levels []float64
		for i := 0; i <= m; i++ {
			r := lv + float64(1+rng.Intn(12))/64
			if r > 1 || i == m {
				r = 1
			}
			parts = append(parts, fmt.Sprintf("[%s,%s,%s]", fmtF(x0+float64(i)*step), fmtF(lv), fmtF(r)))
			levels = append(levels, r, (lv+r)/2)
			lv = r
			if r == 1 {
				break
			}
		}
		pw := "[" + strings.Join(parts, ",") + "]"
		var ys []float64
		for q := 0; q < 5; q++ {
			y := levels[rng.Intn(len(levels))]
			switch rng.Intn(4) {
			case 0:
				y = rng.Float64()
			case 1:
				y = math.Nextafter(y, float64(rng.Intn(2)*3-1))
			}
			if y <= 0 || y > 1 {
				y = 0.5
			}
			ys = append(ys, y)
		}
		ys = append(ys, 0.5, 0.25, 0.99)
		fmt.Fprintf(w, "inv pwd %s %s %s\n", pw, fmtF(step), fmtFs(ys))
		if rng.Intn(4) == 0 {
			fmt.Fprintf(w, "rnd pwd %s %s %d\n", pw, fmtF(step), rng.Intn(1<<30))
		}
	}
	// long histories through one closure (thousands of queries of one returned function)
	for k := 0; k < pick(tier, 6, 60); k++ {
		m := 1100 + rng.Intn(1500)
		pool := []float64{0.5, 0.1, 0.9, rng.Float64(), rng.Float64(), 0.25}
		ys := make([]float64, m)
		for i := range ys {
			ys[i] = pool[rng.Intn(1+rng.Intn(len(pool)))]
		}
		switch rng.Intn(3) {
		case 0:
			fmt.Fprintf(w, "inv pw %s %s\n", randPW(rng), fmtFs(ys))
		case 1:
			fmt.Fprintf(w, "inv pw [[%s,%s,%s],[%s,%s,%s]] %s\n", fmtF(2), fmtF(0), fmtF(0), fmtF(4), fmtF(1), fmtF(1), fmtFs(ys))
		default:
			fmt.Fprintf(w, "inv bin %d %s %s\n", 3+rng.Intn(20), fmtF(float64(1+rng.Intn(15))/16), fmtFs(ys))
		}
	}
	for k := 0; k < pick(tier, 400, 8000); k++ {
		y := rng.Float64()
		if rng.Intn(5) == 0 {
			y = []float64{0, 1, 0.5, 1e-300, 1 - 1e-16}[rng.Intn(5)]
		}
		switch rng.Intn(6) {
		case 0:
			nn := 1 + rng.Intn(40)
			p := float64(1+rng.Intn(15)) / 16
			d := stats.BinomialDist{N: nn, P: p}
			if rng.Intn(2) == 0 && y > 0 && y < 1 {
				y = d.CDF(float64(rng.Intn(nn + 1))) // exact jump level of the code's own CDF
			}
			if y > 0 && y < 1 {
				fmt.Fprintf(w, "inv bin %d %s %s\n", nn, fmtF(p), fmtF(y))
				// a history through one closure: between two jump levels, then exactly at the lower one, etc.
				k := rng.Intn(nn)
				c0, c1 := d.CDF(float64(k)), d.CDF(float64(k+1))
				hist := []float64{(c0 + c1) / 2, c0, c1, rng.Float64(), c0, (c0 + c1) / 2}
				rng.Shuffle(len(hist), func(i, j int) { hist[i], hist[j] = hist[j], hist[i] })
				ok := true
				for _, h := range hist {
					if !(h > 0 && h < 1) {
						ok = false
					}
				}
				if ok {
					fmt.Fprintf(w, "inv bin %d %s %s\n", nn, fmtF(p), fmtFs(hist))
				}
			}
			fmt.Fprintf(w, "rnd bin %d %s %d\n", nn, fmtF(p), rng.Intn(1<<30))
		case 1:
			N := 2 + rng.Intn(40)
			K, D := rng.Intn(N+1), rng.Intn(N+1)
			if y > 0 && y < 1 {
				fmt.Fprintf(w, "inv hyp %d %d %d %s\n", N, K, D, fmtF(y))
			}
		case 2:
			n1, n2 := 1+rng.Intn(8), 1+rng.Intn(8)
			t := "[]"
			if rng.Intn(2) == 0 {
				t = fmtInts([]int{1, n1 + n2 - 1})
				if n1+n2 > 3 {
					t = fmtInts([]int{2, n1 + n2 - 3, 1})
				}
			}
			if y > 0 && y < 1 {
				fmt.Fprintf(w, "inv ud %d %d %s %s\n", n1, n2, t, fmtF(y))
			}
		case 3:
			if y > 0 && y < 1 {
				if rng.Intn(3) == 0 { // far tails: the answer must be right relative to its own size
					y = math.Pow(10, -rng.Float64()*300)
					if rng.Intn(4) == 0 {
						y = 1 - math.Pow(10, -rng.Float64()*15)
					}
				}
				kinds := []string{"t1", "t5", "t2.5", "t300", "n01", "n25", "nfar"}
				kd := kinds[rng.Intn(len(kinds))]
				if kd[0] == 't' && y < 1e-12 { // Student t quantiles at such levels leave the range the t CDF resolves
					kd = "n01"
				}
				fmt.Fprintf(w, "inv cont %s %s\n", kd, fmtF(y))
			}
		case 4:
			fmt.Fprintf(w, "inv own %s\n", fmtF(y))
			fmt.Fprintf(w, "rnd ownrand %d\n", rng.Intn(1<<30))
		default:
			sg := math.Exp(rng.NormFloat64() * 3)
			if rng.Intn(3) == 0 {
				sg = []float64{1, 1, 2, 0.5}[rng.Intn(4)]
			}
			fmt.Fprintf(w, "rnd normal %s %s %d\n", fmtF(rng.NormFloat64()*100), fmtF(sg), rng.Intn(1<<30))
			fmt.Fprintf(w, "rnd cont t5 %d\n", rng.Intn(1<<30))
		}
	}
}
