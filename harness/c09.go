package main

import (
	"bufio"
	"fmt"
	"math"
	"math/rand"
	"sort"
	"strings"

	"github.com/aclements/go-moremath/stats"
	"github.com/aclements/go-moremath/vec"
)

func init() {
	execs["smp"] = execSmp
	execs["vec"] = execVec
	gens["C09"] = genC09
	gens["C10"] = genC10
}

func execSmp(a []Tok) string {
	heap := map[int]*stats.Sample{}
	var outs []string
	for _, op := range a[0].Arr {
		name := op.Arr[0].Atom
		id := op.Arr[1].Int()
		s := heap[id]
		switch name {
		case "new":
			ns := &stats.Sample{Xs: op.Arr[2].Fs(), Sorted: op.Arr[4].Int() == 1}
			if op.Arr[3].IsArr {
				ns.Weights = op.Arr[3].Fs()
			}
			heap[id] = ns
		case "sort":
			allowMutation() // documented: sorts in place
			if r := s.Sort(); r != s {
				panic("Sort did not return its receiver")
			}
		case "copy":
			c := s.Copy()
			fresh := true
			if len(s.Xs) > 0 && &c.Xs[0] == &s.Xs[0] {
				fresh = false
			}
			if len(s.Weights) > 0 && &c.Weights[0] == &s.Weights[0] {
				fresh = false
			}
			// capacity beyond length must not alias either
			if cap(c.Xs) > len(c.Xs) || (s.Weights != nil) != (c.Weights != nil) {
				fresh = fresh && (s.Weights != nil) == (c.Weights != nil)
			}
			heap[op.Arr[2].Int()] = c
			outs = append(outs, fmtB(fresh))
		case "dump":
			ws := "-"
			if s.Weights != nil {
				ws = fmtFs(s.Weights)
			}
			outs = append(outs, fmt.Sprintf("[%s,%s,%s]", fmtFs(s.Xs), ws, fmtB(s.Sorted)))
		case "mean":
			outs = append(outs, fmtF(s.Mean()))
		case "fmean":
			outs = append(outs, fmtF(stats.Mean(s.Xs)))
		case "var":
			if s.Weights == nil && rand.Intn(2) == 0 {
				outs = append(outs, fmtF(s.Variance()))
			} else {
				outs = append(outs, fmtF(stats.Variance(s.Xs)))
			}
		case "sd":
			if s.Weights == nil && rand.Intn(2) == 0 {
				outs = append(outs, fmtF(s.StdDev()))
			} else {
				outs = append(outs, fmtF(stats.StdDev(s.Xs)))
			}
		case "geo":
			outs = append(outs, fmtF(s.GeoMean()))
		case "sum":
			outs = append(outs, fmtF(s.Sum()))
		case "weight":
			outs = append(outs, fmtF(s.Weight()))
		case "bounds":
			lo, hi := s.Bounds()
			outs = append(outs, fmtFs([]float64{lo, hi}))
		case "fbounds":
			lo, hi := stats.Bounds(s.Xs)
			outs = append(outs, fmtFs([]float64{lo, hi}))
		case "quant":
			outs = append(outs, fmtF(s.Quantile(op.Arr[2].F())))
		case "iqr":
			outs = append(outs, fmtF(s.IQR()))
		default:
			panic("smp: op " + name)
		}
	}
	return "[" + strings.Join(outs, ",") + "]"
}

func execVec(a []Tok) string {
	switch a[0].Atom {
	case "sum":
		return fmtF(vec.Sum(a[1].Fs()))
	case "linspace":
		return fmtFs(vec.Linspace(a[1].F(), a[2].F(), a[3].Int()))
	case "logspace":
		return fmtFs(vec.Logspace(a[1].F(), a[2].F(), a[3].Int(), a[4].F()))
	case "concat":
		var xss [][]float64
		for i, t := range a[1].Arr {
			if i > 0 && sameTok(t, a[1].Arr[i-1]) { // the same slice passed again
				xss = append(xss, xss[i-1])
				continue
			}
			xss = append(xss, t.Fs())
		}
		return fmtFs(vec.Concat(xss...))
	case "map":
		var f func(float64) float64
		switch a[1].Atom {
		case "neg":
			f = func(x float64) float64 { return -x }
		case "half":
			f = func(x float64) float64 { return x / 2 }
		default:
			f = math.Floor
		}
		xs := a[2].Fs()
		return fmtFs(vec.Map(f, xs)) + " " + fmtFs(vec.Vectorize(f)(xs))
	}
	panic("vec op")
}

// sample data: offsets up to 1e9 spreads, ties, optional positivity
func smpValues(rng *rand.Rand, n int, positive bool) []float64 {
	xs := make([]float64, n)
	off := []float64{0, 0, 1, 50, 1e3, 1e6, 1e9, -1e9}[rng.Intn(8)]
	scale := math.Ldexp(1, rng.Intn(17)-8)
	bits := 2 + rng.Intn(18)
	for i := range xs {
		xs[i] = (off + randGridFloat(rng, 0, 1, bits)) * scale
		if positive {
			xs[i] = math.Abs(xs[i]) + scale*math.Ldexp(1, -bits)
		}
	}
	if n > 0 && !positive && rng.Intn(5) == 0 { // exact zeros and sign changes at any position
		xs[rng.Intn(n)] = 0
		if rng.Intn(2) == 0 {
			xs[n-1] = 0
		}
	}
	if rng.Intn(12) == 0 || (n > 80 && rng.Intn(3) == 0) { // large whole numbers (byte counts, nanoseconds: exact in float64, huge sums of squares)
		step := float64([]int{3000, 300000, 1 << 20, 7}[rng.Intn(4)])
		base := float64([]int{0, 0, 1000000000, -5000}[rng.Intn(4)])
		top := int64(1) << uint([]int{20, 26, 31, 40}[rng.Intn(4)])
		spreadOut := rng.Intn(2) == 0
		for i := range xs {
			xs[i] = base + step*float64(rng.Intn(4*n+1))
			if spreadOut { // anywhere between 0 and a power of two, or at its quarters
				xs[i] = float64(rng.Int63n(top + 1))
				if rng.Intn(3) == 0 {
					xs[i] = float64(top / 4 * int64(rng.Intn(5)))
				}
			}
			if positive {
				xs[i] = math.Abs(xs[i]) + 1
			}
		}
	}
	if n > 2 && rng.Intn(3) == 0 { // repeats
		for k := 0; k < n/2; k++ {
			xs[rng.Intn(n)] = xs[rng.Intn(n)]
		}
	}
	return xs
}

func smpWeights(rng *rand.Rand, n int) []float64 {
	ws := make([]float64, n)
	mode := rng.Intn(5)
	for i := range ws {
		switch mode {
		case 0:
			ws[i] = float64(rng.Intn(4)) // integers incl. zeros
		case 1:
			ws[i] = float64(1 + rng.Intn(5))
		case 2:
			ws[i] = float64(rng.Intn(2)) // many zeros
		case 3:
			ws[i] = float64(rng.Intn(9)) / 4 // dyadic reals
		default:
			ws[i] = 0 // all zero
		}
	}
	return ws
}

func genSmpHistory(w *bufio.Writer, rng *rand.Rand, maxN int, quantOnly bool) {
	var ops []string
	nsamp := 1 + rng.Intn(3)
	sortedFlag := map[int]bool{}
	weighted := map[int]bool{}
	size := map[int]int{}
	positive := rng.Intn(2) == 0
	for id := 0; id < nsamp; id++ {
		n := rng.Intn(maxN + 1)
		if rng.Intn(5) == 0 {
			n = rng.Intn(4)
		} else if rng.Intn(12) == 0 { // the quick tier too sees a few long samples
			n = 41 + rng.Intn(160)
		}
		xs := smpValues(rng, n, positive)
		ws := "-"
		var wv []float64
		if rng.Intn(3) == 0 {
			wv = smpWeights(rng, n)
			weighted[id] = true
		}
		flag := 0
		if rng.Intn(4) == 0 {
			// Sorted flag only on ascending data (the weights stay attached to their values)
			if !weighted[id] {
				sortFloats(xs)
			} else {
				idx := rng.Perm(n)
				sort.SliceStable(idx, func(i, j int) bool { return xs[idx[i]] < xs[idx[j]] })
				nx, nw := make([]float64, n), make([]float64, n)
				for k, i := range idx {
					nx[k], nw[k] = xs[i], wv[i]
				}
				xs, wv = nx, nw
			}
			flag = 1
		}
		if wv != nil {
			ws = fmtFs(wv)
		}
		sortedFlag[id] = flag == 1
		size[id] = n
		ops = append(ops, fmt.Sprintf("[new,%d,%s,%s,%d]", id, fmtFs(xs), ws, flag))
	}
	next := nsamp
	nops := 1 + rng.Intn(30)
	for o := 0; o < nops; o++ {
		id := rng.Intn(next)
		r := rng.Intn(20)
		if quantOnly && r < 12 {
			r = 12 + rng.Intn(4)
		}
		switch {
		case r == 0:
			ops = append(ops, fmt.Sprintf("[sort,%d]", id), fmt.Sprintf("[dump,%d]", id))
		case r == 1 && next < 6:
			ops = append(ops, fmt.Sprintf("[copy,%d,%d]", id, next))
			weighted[next], size[next] = weighted[id], size[id]
			// mutate the copy, then check the original is unchanged
			ops = append(ops, fmt.Sprintf("[sort,%d]", next), fmt.Sprintf("[dump,%d]", id))
			next++
		case r == 2:
			ops = append(ops, fmt.Sprintf("[mean,%d]", id))
		case r == 3 && !weighted[id]:
			ops = append(ops, fmt.Sprintf("[var,%d]", id))
		case r == 4 && !weighted[id]:
			ops = append(ops, fmt.Sprintf("[sd,%d]", id))
		case r == 5:
			ops = append(ops, fmt.Sprintf("[geo,%d]", id))
		case r == 6:
			ops = append(ops, fmt.Sprintf("[sum,%d]", id))
		case r == 7:
			ops = append(ops, fmt.Sprintf("[weight,%d]", id))
		case r == 8:
			ops = append(ops, fmt.Sprintf("[bounds,%d]", id))
		case r == 9:
			ops = append(ops, fmt.Sprintf("[fmean,%d]", id), fmt.Sprintf("[fbounds,%d]", id))
		case r == 10:
			ops = append(ops, fmt.Sprintf("[dump,%d]", id))
		case r == 11:
			ops = append(ops, fmt.Sprintf("[mean,%d]", id), fmt.Sprintf("[bounds,%d]", id))
		case r <= 14:
			n := size[id]
			var q float64
			switch rng.Intn(5) {
			case 0: // exact break points h integer: q = (j - 1/3)/(n + 1/3)
				j := float64(rng.Intn(n + 2))
				q = (j - 1.0/3) / (float64(n) + 1.0/3)
				switch rng.Intn(3) {
				case 0:
					q = math.Nextafter(q, float64(rng.Intn(2)*2-1))
				case 1: // a tiny distance from the break point, far beyond rounding distance
					q += math.Pow(10, -float64(8+rng.Intn(7))) * float64(rng.Intn(2)*2-1)
				}
			case 1:
				q = []float64{0, 1, -0.5, 1.5, 0.25, 0.5, 0.75}[rng.Intn(7)]
			case 2: // near the clamping thresholds
				q = rng.Float64() * 3 / (3*float64(n) + 1)
				if rng.Intn(2) == 0 {
					q = 1 - q
				}
			default:
				q = rng.Float64()*2 - 0.5
			}
			ops = append(ops, fmt.Sprintf("[quant,%d,%s]", id, fmtF(q)))
		case r == 15:
			ops = append(ops, fmt.Sprintf("[iqr,%d]", id))
		default:
			ops = append(ops, fmt.Sprintf("[dump,%d]", id))
		}
	}
	for id := 0; id < next; id++ {
		ops = append(ops, fmt.Sprintf("[dump,%d]", id))
	}
	fmt.Fprintf(w, "smp [%s]\n", strings.Join(ops, ","))
}

// genSmpExtreme: values near the top of the float64 range. All counting values share one sign and lie in
// one band of magnitudes (so no difference of two of them overflows); sums and sums of squares may leave the
// range, where an infinity is the correct float64 answer. Entries of weight zero do not count and may hold
// anything finite, up to the largest float64 of the other sign. Every query is followed by a dump: the
// caller's data stay as they were.
func genSmpExtreme(w *bufio.Writer, rng *rand.Rand) {
	n := 2 + rng.Intn(9)
	mag := []float64{1e150, 1.3e154, 2e154, 1e170, 1e200, 1e295, 1e300, 1e307, 8e307, 1.7e308, 1.79e308}[rng.Intn(11)]
	sign := float64(rng.Intn(2)*2 - 1)
	xs := make([]float64, n)
	for i := range xs {
		xs[i] = sign * mag * (0.25 + 0.75*rng.Float64())
		if rng.Intn(3) == 0 {
			xs[i] = sign * mag * (float64(1+rng.Intn(4)) / 4)
		}
	}
	weighted := rng.Intn(2) == 0
	ws := "-"
	topBand := false
	if weighted && mag > 5e307 {
		if rng.Intn(2) == 0 {
			// the weighted mean multiplies a deviation by its weight (up to 3 here) before dividing by the
			// running weight: that product has to stay in range for the formula to deliver anything
			for i := range xs {
				xs[i] /= 4
			}
			mag /= 4
		} else {
			// ... which it does at the very top of the range too when the first counting value has weight 1
			// (the running mean then starts at that value) and the others lie in a narrow band around it
			topBand = true
			for i := range xs {
				xs[i] = sign * mag * (1 - float64(rng.Intn(64))/4096)
			}
		}
	}
	if weighted {
		wv := make([]float64, n)
		live := 0
		for i := range wv {
			wv[i] = float64(1 + rng.Intn(3))
			if rng.Intn(3) == 0 {
				wv[i] = 0
				xs[i] = []float64{-sign * math.MaxFloat64, -sign * 1.5e308, sign * math.MaxFloat64, 0, -sign * mag, 5e-324}[rng.Intn(6)]
			} else {
				live++
			}
		}
		if live == 0 {
			wv[0], xs[0] = 1, sign*mag
		}
		if topBand {
			for i := range wv {
				if wv[i] != 0 {
					wv[i] = 1 // the first counting value
					break
				}
			}
		}
		ws = fmtFs(wv)
	}
	ops := []string{fmt.Sprintf("[new,0,%s,%s,0]", fmtFs(xs), ws)}
	for q := 0; q < 4+rng.Intn(5); q++ {
		var names []string
		if weighted {
			names = []string{"mean", "sum", "bounds", "weight", "fbounds"}
		} else {
			names = []string{"mean", "fmean", "sum", "bounds", "var", "sd", "sd", "var"}
		}
		ops = append(ops, fmt.Sprintf("[%s,0]", names[rng.Intn(len(names))]), "[dump,0]")
		if !weighted && rng.Intn(2) == 0 { // quantiles between neighbours of one sign: nothing here overflows
			q := []float64{0.5, 0.25, 0.75, 0, 1, rng.Float64(), (float64(1+rng.Intn(n)) - 1.0/3) / (float64(n) + 1.0/3)}[rng.Intn(7)]
			ops = append(ops, fmt.Sprintf("[quant,0,%s]", fmtF(q)), "[dump,0]")
		}
	}
	fmt.Fprintf(w, "smp [%s]\n", strings.Join(ops, ","))
}

func sortFloats(xs []float64) {
	for i := 1; i < len(xs); i++ {
		for j := i; j > 0 && xs[j] < xs[j-1]; j-- {
			xs[j], xs[j-1] = xs[j-1], xs[j]
		}
	}
}

func genC09(w *bufio.Writer, tier string, rng *rand.Rand) {
	nh := pick(tier, 3000, 120000)
	for k := 0; k < nh; k++ {
		genSmpHistory(w, rng, pick(tier, 40, 200), false)
	}
	for k := 0; k < pick(tier, 250, 6000); k++ {
		genSmpExtreme(w, rng)
	}
	nv := pick(tier, 600, 20000)
	for k := 0; k < nv; k++ {
		switch rng.Intn(5) {
		case 0:
			fmt.Fprintf(w, "vec sum %s\n", fmtFs(smpValues(rng, rng.Intn(60), false)))
		case 1:
			lo, hi := rng.NormFloat64()*100, rng.NormFloat64()*100
			if rng.Intn(3) == 0 {
				lo, hi = float64(rng.Intn(20)-10), float64(rng.Intn(20)-10)
			}
			switch rng.Intn(8) {
			case 0: // a span of a few subnormal steps, or of a few ulps of a large number
				lo = []float64{0, 5e-324, -1e-322, 1e-310}[rng.Intn(4)]
				hi = lo + float64(1+rng.Intn(60))*5e-324*float64(rng.Intn(2)*2-1)
			case 1:
				lo = []float64{1, 1e300, -1e15, 4503599627370496}[rng.Intn(4)]
				hi = lo
				for q := 1 + rng.Intn(50); q > 0; q-- {
					hi = math.Nextafter(hi, math.Inf(1))
				}
			case 2: // the top of the range (the code multiplies the span by the index before dividing: span x count stays finite)
				lo = []float64{0, 1.7e308, -1.75e308, -2e306}[rng.Intn(4)]
				hi = lo + []float64{4e306, -4e306, 2e306}[rng.Intn(3)]
			}
			fmt.Fprintf(w, "vec linspace %s %s %d\n", fmtF(lo), fmtF(hi), rng.Intn(40))
		case 2:
			lo, hi := float64(rng.Intn(12)-6), float64(rng.Intn(12)-6)
			if rng.Intn(2) == 0 {
				lo, hi = rng.NormFloat64()*3, rng.NormFloat64()*3
			}
			if rng.Intn(4) == 0 { // exponents a tiny distance from whole numbers
				lo += math.Pow(10, -float64(7+rng.Intn(6))) * float64(rng.Intn(3)-1)
				hi = math.Round(hi) + math.Pow(10, -float64(7+rng.Intn(6)))*float64(rng.Intn(3)-1)
			}
			base := []float64{2, 10, math.E, 1.5, 0.5}[rng.Intn(5)]
			fmt.Fprintf(w, "vec logspace %s %s %d %s\n", fmtF(lo), fmtF(hi), rng.Intn(20), fmtF(base))
		case 3:
			var parts []string
			for i := 0; i < rng.Intn(5); i++ {
				parts = append(parts, fmtFs(smpValues(rng, rng.Intn(6), false)))
				if rng.Intn(4) == 0 {
					parts = append(parts, parts[len(parts)-1])
				}
			}
			fmt.Fprintf(w, "vec concat [%s]\n", strings.Join(parts, ","))
		default:
			fmt.Fprintf(w, "vec map %s %s\n", []string{"neg", "half", "floor"}[rng.Intn(3)], fmtFs(smpValues(rng, rng.Intn(12), false)))
		}
	}
}

func genC10(w *bufio.Writer, tier string, rng *rand.Rand) {
	nh := pick(tier, 3000, 120000)
	for k := 0; k < nh; k++ {
		genSmpHistory(w, rng, pick(tier, 40, 200), true)
	}
	for k := 0; k < pick(tier, 250, 6000); k++ {
		genSmpExtreme(w, rng)
	}
}
