package main

import (
	"bufio"
	"fmt"
	"math"
	"math/rand"
	"sort"
	"strings"

	"github.com/aclements/go-moremath/stats"
)

func init() {
	execs["qci"] = func(a []Tok) string {
		n, q := a[0].Int(), a[1].F()
		var parts []string
		for _, c := range a[2].Fs() {
			r := stats.QuantileCI(n, q, c)
			parts = append(parts, fmt.Sprintf("[%d,%d,%s,%s,%d,%s]", r.LoOrder, r.HiOrder, fmtF(r.Confidence), fmtB(r.Ambiguous), r.N, fmtF(r.Quantile)))
		}
		return "[" + strings.Join(parts, ",") + "]"
	}
	execs["sci"] = func(a []Tok) string {
		n, q, c := a[0].Int(), a[1].F(), a[2].F()
		xs := a[3].Fs()
		orig := append([]float64(nil), xs...)
		r := stats.QuantileCI(n, q, c)
		qv, lo, hi := r.SampleCI(stats.Sample{Xs: xs, Sorted: a[4].Int() == 1})
		return fmt.Sprintf("%d %d %s %s", r.LoOrder, r.HiOrder, fmtFs([]float64{qv, lo, hi}), fmtB(sameBits(xs, orig)))
	}
	gens["C11"] = genC11
}

func genC11(w *bufio.Writer, tier string, rng *rand.Rand) {
	qgrid := []float64{1e-9, 1 - 1e-9, 1e-12, 1e-18, 1e-30, 1e-300, 5e-324, 1 - 1e-12, 1 - 1e-16}
	for j := 0; j <= 40; j++ {
		qgrid = append(qgrid, float64(j)/40)
	}
	emit := func(n int, q float64, cs []float64) {
		sort.Float64s(cs)
		fmt.Fprintf(w, "qci %d %s %s\n", n, fmtF(q), fmtFs(cs))
	}
	// exact branch: every n, q grid; c grid + cumulative levels of the greedy accumulation and neighbours
	for n := 1; n <= 30; n++ {
		for _, q := range qgrid {
			if !isThorough(tier) && rng.Intn(4) != 0 && n > 6 {
				continue
			}
			var cs []float64
			ng := pick(tier, 12, 200)
			for i := 0; i <= ng; i++ {
				cs = append(cs, float64(i)/float64(ng))
			}
			cs = append(cs, 0.9, 0.95, 0.99, 0.999, 1, 1.5, -0.1)
			// cumulative levels: re-run with c=0.999999 steps: use the real API's own confidences
			prev := -1.0
			for c := 0.0; c < 1; {
				r := stats.QuantileCI(n, q, c)
				if r.Confidence <= prev || math.IsNaN(r.Confidence) {
					break
				}
				prev = r.Confidence
				cs = append(cs, r.Confidence, math.Nextafter(r.Confidence, 2), math.Nextafter(r.Confidence, -1))
				c = math.Nextafter(r.Confidence, 2)
				if len(cs) > 400 {
					break
				}
			}
			emit(n, q, cs)
		}
	}
	// approximate branch
	ns := []int{31, 32, 50, 100, 1000, 2000}
	for _, n := range ns {
		for _, q := range qgrid {
			if !isThorough(tier) && rng.Intn(3) != 0 {
				continue
			}
			var cs []float64
			ng := pick(tier, 10, 100)
			for i := 0; i <= ng; i++ {
				cs = append(cs, float64(i)/float64(ng))
			}
			cs = append(cs, 0.9, 0.95, 0.99, 0.999, 0.999999, 1, 1.5, 1-1e-9, 1-1e-11, 1-1e-12, 1-2e-13, math.Nextafter(1, 0))
			// levels around the confidences the code itself reports for a few bands (the level at which a
			// band, or the band one bucket shorter, just suffices)
			for _, c0 := range []float64{0.5, 0.9, 0.95, 0.99, rng.Float64()} {
				for step := 0; step < 2; step++ {
					r := stats.QuantileCI(n, q, c0)
					f := r.Confidence
					if !(f > 0 && f < 1) {
						break
					}
					cs = append(cs, f, math.Nextafter(f, 2), math.Nextafter(f, -1), f+4e-10, f-4e-10, f+1e-12, f+3e-11)
					c0 = f - 1e-7 // the next narrower band
				}
			}
			emit(n, q, cs)
		}
	}
	for k := 0; k < pick(tier, 200, 5000); k++ {
		n := 31 + rng.Intn(300)
		emit(n, rng.Float64(), []float64{rng.Float64(), 0.5 + rng.Float64()/2, 1 - math.Exp(-rng.Float64()*12)})
	}
	// the exported package variable StdNormal reassigned (and restored) around ordinary calls in a fresh
	// process: no quantile band depends on it
	for h := 0; h < pick(tier, 10, 200); h++ {
		fmt.Fprintf(w, "{{\nstdnormal %s %s\n", fmtF(float64(rng.Intn(9)-4)), fmtF(float64(1+rng.Intn(4))))
		for i := 0; i < 4; i++ {
			n := []int{5, 20, 31, 41, 100, 400, 1000}[rng.Intn(7)]
			emit(n, []float64{0.5, 0.25, 0.9, rng.Float64()}[rng.Intn(4)], []float64{0.9, 0.95, 0.99, rng.Float64()})
		}
		fmt.Fprintf(w, "stdnormal %s %s\n}}\n", fmtF(0), fmtF(1))
	}
	// SampleCI
	for k := 0; k < pick(tier, 1500, 40000); k++ {
		n := 1 + rng.Intn(40)
		if rng.Intn(10) == 0 {
			n = 31 + rng.Intn(200)
		}
		xs := smpValues(rng, n, false)
		flag := 0
		if rng.Intn(3) == 0 {
			sortFloats(xs)
			flag = 1
		}
		q := []float64{0, 1, 0.5, 0.025, 0.975, rng.Float64(), rng.Float64()}[rng.Intn(7)]
		c := []float64{0, 0.5, 0.9, 0.95, 0.99, 1, rng.Float64()}[rng.Intn(7)]
		fmt.Fprintf(w, "sci %d %s %s %s %d\n", n, fmtF(q), fmtF(c), fmtFs(xs), flag)
	}
}
