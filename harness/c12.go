package main

import (
	"bufio"
	"fmt"
	"math"
	"math/rand"
	"sort"

	"github.com/aclements/go-moremath/stats"
)

func init() {
	execs["kde"] = execKDE
	execs["bw"] = func(a []Tok) string {
		s := stats.Sample{Xs: a[0].Fs()}
		return fmtF(stats.BandwidthScott(s)) + " " + fmtF(stats.BandwidthSilverman(s))
	}
	gens["C12"] = genC12
}

// kde xs ws|- kernel h bmin bmax [queries ascending]
func execKDE(a []Tok) string {
	k := &stats.KDE{Sample: stats.Sample{Xs: a[0].Fs(), Weights: optW(a[1])}, Bandwidth: a[3].F(), BoundaryMin: a[4].F(), BoundaryMax: a[5].F()}
	switch a[2].Atom {
	case "epan":
		k.Kernel = stats.EpanechnikovKernel
	case "gauss":
		k.Kernel = stats.GaussianKernel
	case "delta":
		k.Kernel = stats.DeltaKernel
	}
	qs := a[6].Fs()
	if (len(k.Sample.Xs)+len(qs))%2 == 0 {
		// every other case: the KDE value has a past. It was used on another sample of the same
		// size (and, if weighted, on the same weight slice holding other values), then its
		// exported fields were set to this case's.
		real := k.Sample
		other := make([]float64, len(real.Xs))
		for i, x := range real.Xs {
			other[len(other)-1-i] = -2*x - 3
		}
		k.Sample = stats.Sample{Xs: other, Weights: real.Weights}
		rev := func(w []float64) {
			for i, j := 0, len(w)-1; i < j; i, j = i+1, j-1 {
				w[i], w[j] = w[j], w[i]
			}
		}
		rev(real.Weights)
		k.Bounds()
		if len(qs) > 0 {
			k.PDF(qs[0])
			k.CDF(qs[len(qs)-1])
		}
		rev(real.Weights)
		k.Sample = real
		k.Bandwidth = a[3].F()
	}
	pdf := make([]float64, len(qs))
	cdf := make([]float64, len(qs))
	for i, x := range qs {
		pdf[i] = k.PDF(x)
		cdf[i] = k.CDF(x)
	}
	lo, hi := k.Bounds()
	return fmt.Sprintf("%s %s %s %s %s", fmtFs(pdf), fmtFs(cdf), fmtF(lo), fmtF(hi), fmtF(k.Bandwidth))
}

func genC12(w *bufio.Writer, tier string, rng *rand.Rand) {
	n := pick(tier, 900, 20000)
	// the exported package variable StdNormal reassigned (and restored) around Gaussian-kernel estimates in a
	// fresh process: no estimate depends on it
	for h := 0; h < pick(tier, 6, 100); h++ {
		fmt.Fprintf(w, "{{\nstdnormal %s %s\n", fmtF(float64(rng.Intn(9)-4)), fmtF(float64(1+rng.Intn(4))))
		for i := 0; i < 3; i++ {
			nx := 2 + rng.Intn(6)
			xs := make([]float64, nx)
			for j := range xs {
				xs[j] = float64(rng.Intn(33)-16) / 4
			}
			qs := []float64{-5, -1, 0, 0.5, 2, 6}
			fmt.Fprintf(w, "kde %s - gauss %s %s %s %s\n", fmtFs(xs), fmtF(float64(1+rng.Intn(8))/4), fmtF(0), fmtF(0), fmtFs(qs))
		}
		fmt.Fprintf(w, "stdnormal %s %s\n}}\n", fmtF(0), fmtF(1))
	}
	// weighted samples with a light outlier (cluster) far out on each side, one to two per cent of the weight
	// together: the reported bounds still hold 98 % of the mass
	for k := 0; k < pick(tier, 60, 1500); k++ {
		nb := 3 + rng.Intn(5)
		var xs, ws []float64
		tot := 0.0
		for j := 0; j < nb; j++ {
			xs = append(xs, float64(rng.Intn(9)-4)/2)
			wv := float64(20 + rng.Intn(40))
			ws = append(ws, wv)
			tot += wv
		}
		far := float64(50 + rng.Intn(200))
		fl, fr := tot*(0.006+0.008*rng.Float64()), tot*(0.006+0.008*rng.Float64())
		fl, fr = math.Round(fl*64)/64, math.Round(fr*64)/64
		xs = append(xs, -far, far*(0.5+rng.Float64()))
		ws = append(ws, fl, fr)
		perm := rng.Perm(len(xs))
		px, pw := make([]float64, len(xs)), make([]float64, len(xs))
		for i, j := range perm {
			px[i], pw[i] = xs[j], ws[j]
		}
		kern := []string{"epan", "gauss"}[rng.Intn(2)]
		h := float64(1+rng.Intn(8)) / 4
		fmt.Fprintf(w, "kde %s %s %s %s %s %s %s\n", fmtFs(px), fmtFs(pw), kern, fmtF(h), fmtF(0), fmtF(0), fmtFs([]float64{-far, -3, 0, 3, far}))
	}
	for k := 0; k < n; k++ {
		nx := 1 + rng.Intn(40)
		if rng.Intn(3) == 0 {
			nx = 1 + rng.Intn(5)
		}
		centre := []float64{0, 0, 5, -20, 1000}[rng.Intn(5)]
		scale := math.Ldexp(1, rng.Intn(13)-8)
		xs := make([]float64, nx)
		for i := range xs {
			xs[i] = centre + math.Round(rng.NormFloat64()*16)/16*scale
		}
		lo, hi := xs[0], xs[0]
		for _, x := range xs {
			lo, hi = math.Min(lo, x), math.Max(hi, x)
		}
		spread := hi - lo
		if spread == 0 {
			spread = scale
		}
		ws := "-"
		if rng.Intn(3) == 0 {
			v := make([]float64, nx)
			for i := range v {
				v[i] = float64(1+rng.Intn(8)) / 4
			}
			ws = fmtFs(v)
		}
		kern := []string{"epan", "gauss", "delta"}[rng.Intn(3)]
		h := spread * math.Exp(math.Log(0.02)+rng.Float64()*(math.Log(50)-math.Log(0.02)))
		h = math.Ldexp(math.Round(math.Ldexp(h, 20-int(math.Ceil(math.Log2(h))))), int(math.Ceil(math.Log2(h)))-20) // 20-bit mantissa
		if ws == "-" && nx >= 3 && hi > lo && rng.Intn(6) == 0 {
			h = 0 // Scott's rule
		}
		hEff := h
		if h == 0 {
			hEff = spread / 2
		}
		bmin, bmax := 0.0, 0.0
		wide := false
		mode := rng.Intn(4)
		forceWide := rng.Intn(25) == 0 && h != 0
		if forceWide {
			// the far corner of the quantifier: very wide Gaussian kernel between two boundaries touching the data
			kern, mode = "gauss", 3
			h = spread * (10 + rng.Float64()*40)
			h = math.Ldexp(math.Round(math.Ldexp(h, 10-int(math.Ceil(math.Log2(h))))), int(math.Ceil(math.Log2(h)))-10)
			hEff = h
		}
		away := []float64{0, 0, hEff, hEff / 3, 5 * spread, 100 * spread}
		switch mode {
		case 1:
			bmin, bmax = lo-away[rng.Intn(len(away))], math.Inf(1)
		case 2:
			bmin, bmax = math.Inf(-1), hi+away[rng.Intn(len(away))]+spread*1e-3
		case 3:
			bmin, bmax = lo-away[rng.Intn(len(away))], hi+away[rng.Intn(len(away))]+spread*1e-3
			// keep the number of reflected images manageable for the exact model
			if forceWide {
				bmin, bmax = lo, hi+spread*1e-3
			}
			if kern == "gauss" && hEff > 2*(bmax-bmin) {
				if rng.Intn(4) != 0 && !forceWide {
					h = math.Ldexp(math.Round(math.Ldexp((bmax-bmin)*(0.1+rng.Float64()*2), 10)), -10)
					if h == 0 {
						h = (bmax - bmin)
					}
					hEff = h
				} else {
					wide = true // very wide kernel: hundreds of images; keep the case small
				}
			}
		}
		if mode != 0 && bmin == 0 && bmax == 0 {
			bmax = spread
		}
		if rng.Intn(10) == 0 && mode != 0 && !forceWide {
			// a boundary at exactly 0 (densities of non-negative or non-positive quantities): the data are
			// shifted so that the lower (or the upper) boundary is 0
			sh := bmin
			if mode == 2 || (mode == 3 && rng.Intn(2) == 0) {
				sh = bmax
			}
			if !math.IsInf(sh, 0) {
				for i := range xs {
					xs[i] -= sh
				}
				lo, hi = lo-sh, hi-sh
				if !math.IsInf(bmin, 0) {
					bmin -= sh
				}
				if !math.IsInf(bmax, 0) {
					bmax -= sh
				}
				if bmin == 0 && bmax == 0 {
					bmax = spread
				}
			}
		}
		// query grid: ascending, includes kernel support ends and the boundaries
		var qs []float64
		for i := 0; i < 6; i++ {
			qs = append(qs, lo-2*hEff+rng.Float64()*(hi-lo+4*hEff))
		}
		qs = append(qs, xs[rng.Intn(nx)], xs[rng.Intn(nx)]+hEff, xs[rng.Intn(nx)]-hEff, lo-hEff, hi+hEff, lo, hi)
		if mode == 1 || mode == 3 {
			qs = append(qs, bmin, math.Nextafter(bmin, math.Inf(-1)), bmin+spread*1e-6)
		}
		if mode == 2 || mode == 3 {
			qs = append(qs, bmax, math.Nextafter(bmax, math.Inf(-1)), bmax-spread*1e-6)
		}
		if kern == "gauss" && mode == 0 { // deep tails of the unbounded Gaussian estimate
			qs = append(qs, lo-hEff*(4+rng.Float64()*6), lo-hEff*(9+rng.Float64()*25), hi+hEff*(4+rng.Float64()*6))
			// out to where the density leaves the float64 range (38.6 bandwidths), on either side
			qs = append(qs, lo-hEff*(34+rng.Float64()*5), hi+hEff*(34+rng.Float64()*5), hi+hEff*(9+rng.Float64()*25))
			// and at distances (in bandwidths) aimed at the numeric constants of the code
			for _, d := range dictFloats(rng, 2) {
				if d = math.Abs(d); d > 0 && d < 39 {
					qs = append(qs, lo-hEff*d, hi+hEff*d)
				}
			}
		}
		if wide {
			if len(xs) > 3 {
				// fewer points: drop all but three (boundaries were placed around the full range, still valid)
				xs = xs[:3]
				if ws != "-" {
					ws = "-"
				}
			}
			qs = []float64{bmin + (bmax-bmin)*rng.Float64(), math.Nextafter(bmax, math.Inf(-1))}
		}
		sort.Float64s(qs)
		fmt.Fprintf(w, "kde %s %s %s %s %s %s %s\n", fmtFs(xs), ws, kern, fmtF(h), fmtF(bmin), fmtF(bmax), fmtFs(qs))
		if rng.Intn(8) == 0 && nx >= 2 {
			fmt.Fprintf(w, "bw %s\n", fmtFs(xs))
		}
		if rng.Intn(12) == 0 { // bandwidth rules on heavily tied samples: the middle half (or all but one value) coincides
			m := 4 + rng.Intn(12)
			ys := make([]float64, m)
			c := float64(rng.Intn(9) - 4)
			for i := range ys {
				ys[i] = c
			}
			for q := 0; q < 1+rng.Intn(m/4+1); q++ {
				ys[rng.Intn(m)] = c + float64(rng.Intn(17)-8)/2
			}
			fmt.Fprintf(w, "bw %s\n", fmtFs(ys))
		}
	}
}
