package main

import (
	"bufio"
	"fmt"
	"math"
	"math/rand"
	"strings"

	"github.com/aclements/go-moremath/stats"
)

func init() {
	execs["st"] = execSt
	gens["C13"] = genC13
}

// st <nacc> [[a,i,x],[c,i,j],[r,i],...]
func execSt(args []Tok) string {
	n := args[0].Int()
	accs := make([]stats.StreamStats, n)
	var outs []string
	for _, op := range args[1].Arr {
		switch op.Arr[0].Atom {
		case "a":
			accs[op.Arr[1].Int()].Add(op.Arr[2].F())
		case "c":
			accs[op.Arr[1].Int()].Combine(&accs[op.Arr[2].Int()])
		case "r":
			s := &accs[op.Arr[1].Int()]
			outs = append(outs, fmtFs([]float64{float64(s.Count), s.Total, s.Min, s.Max,
				s.Weight(), s.Mean(), s.Variance(), s.StdDev(), s.RMS()}))
		}
	}
	return "[" + strings.Join(outs, ",") + "]"
}

func stValues(rng *rand.Rand, n int) []float64 {
	// spread 1, offsets from 0 to 1e9 times the spread, sometimes ties
	offs := []float64{0, 0, 1, 100, 1e4, 1e6, 1e9, -1e9, -3e5, 1e12, 17592186044416, -1e14}
	off := offs[rng.Intn(len(offs))]
	scale := math.Ldexp(1, rng.Intn(21)-10)
	bits := 3 + rng.Intn(20)
	xs := make([]float64, n)
	for i := range xs {
		xs[i] = (off + randGridFloat(rng, 0, 1, bits)) * scale
	}
	return xs
}

func genC13(w *bufio.Writer, tier string, rng *rand.Rand) {
	emit := func(n int, ops []string) {
		fmt.Fprintf(w, "st %d [%s]\n", n, strings.Join(ops, ","))
	}
	add := func(i int, x float64) string { return fmt.Sprintf("[a,%d,%s]", i, fmtF(x)) }
	comb := func(i, j int) string { return fmt.Sprintf("[c,%d,%d]", i, j) }
	read := func(i int) string { return fmt.Sprintf("[r,%d]", i) }

	// 1. every split point of short streams, both merge directions, with empties.
	maxLen := pick(tier, 8, 12)
	reps := pick(tier, 6, 40)
	for L := 0; L <= maxLen; L++ {
		for r := 0; r < reps; r++ {
			xs := stValues(rng, L)
			for k := 0; k <= L; k++ {
				for dir := 0; dir < 2; dir++ {
					var ops []string
					for i, x := range xs {
						if i < k {
							ops = append(ops, add(0, x))
						} else {
							ops = append(ops, add(1, x))
						}
					}
					if dir == 0 {
						ops = append(ops, comb(0, 1), read(0), read(1))
					} else {
						ops = append(ops, comb(1, 0), read(1), read(0))
					}
					// keep adding after the merge (state must stay usable)
					if L > 0 {
						ops = append(ops, add(dir, xs[0]), read(dir))
					} else {
						ops = append(ops, add(dir, 3), read(dir), add(dir, 5), read(dir))
					}
					emit(2, ops)
				}
			}
		}
	}
	// 1b. small-integer streams read after every step: coincidences are the rule (a new value equal
	// to the running mean leaves the sum of squared deviations bit-identical while the count grows,
	// merged halves with equal means, zero variance, ...)
	for h := 0; h < pick(tier, 400, 12000); h++ {
		nacc := 1 + rng.Intn(2)
		var ops []string
		sc := math.Ldexp(1, rng.Intn(5)-2)
		off := []float64{0, 0, 10, -7, 1e6}[rng.Intn(5)]
		for o := 0; o < 3+rng.Intn(10); o++ {
			i := rng.Intn(nacc)
			if nacc > 1 && rng.Intn(5) == 0 {
				ops = append(ops, comb(i, 1-i), read(i))
				continue
			}
			ops = append(ops, add(i, off+float64(rng.Intn(5))*sc), read(i))
		}
		emit(nacc, ops)
	}
	// 1b'. the top of the range in which squares are still finite (|x| up to 1.3e154): values in a narrow band
	// (so that no difference times a count overflows in the incremental formulas), two accumulators, combined
	for h := 0; h < pick(tier, 150, 4000); h++ {
		M := []float64{1e153, 4e153, 1e154, 1.3e154, 1e150, -1e154, -1.3e154}[rng.Intn(7)]
		var ops []string
		n0, n1 := 1+rng.Intn(12), 1+rng.Intn(12)
		for i := 0; i < n0+n1; i++ {
			x := M * (1 + float64(rng.Intn(9)-4)/1024)
			a := 0
			if i >= n0 {
				a = 1
			}
			ops = append(ops, add(a, x))
			if rng.Intn(4) == 0 {
				ops = append(ops, read(a))
			}
		}
		d := rng.Intn(2)
		ops = append(ops, read(0), read(1), comb(d, 1-d), read(d), add(d, M), read(d))
		emit(2, ops)
	}
	// 1b''. the very top of the range: values of one sign in a narrow band around 1e308 (totals, squares and sums of
	// squared deviations overflow - legitimately; counts, extremes and the MEAN do not), and values of both signs
	// around 1e154 (the mean of squares still fits, the sum of squared deviations may not), split and combined
	for h := 0; h < pick(tier, 150, 4000); h++ {
		var ops []string
		n0, n1 := 1+rng.Intn(6), 1+rng.Intn(6)
		mixed := rng.Intn(2) == 0
		M := []float64{1e308, 1.5e308, -1.7e308, 9e307}[rng.Intn(4)]
		if mixed {
			M = []float64{1e154, 5e153, 1.2e154, 1.3e154}[rng.Intn(4)]
		}
		for i := 0; i < n0+n1; i++ {
			x := M * (1 - float64(rng.Intn(64))/8192)
			if mixed && rng.Intn(2) == 0 {
				x = -x
			}
			a := 0
			if i >= n0 {
				a = 1
			}
			ops = append(ops, add(a, x))
		}
		d := rng.Intn(2)
		ops = append(ops, read(0), read(1), comb(d, 1-d), read(d))
		emit(2, ops)
	}
	// 1c. replicas and mirror images: two accumulators of equal count whose data are a permutation of each
	// other or reflections about a common centre (same mean and spread, different extremes), combined
	for h := 0; h < pick(tier, 300, 8000); h++ {
		nn := 2 + rng.Intn(6)
		c := float64(rng.Intn(9) + 2)
		var ops []string
		var xs []float64
		for i := 0; i < nn; i++ {
			xs = append(xs, float64(rng.Intn(5)))
		}
		mode := rng.Intn(3)
		for i, x := range xs {
			ops = append(ops, add(0, x))
			switch mode {
			case 0:
				ops = append(ops, add(1, c-x)) // reflection about c/2
			case 1:
				ops = append(ops, add(1, xs[(i+1)%nn])) // rotation
			default:
				ops = append(ops, add(1, x+c)) // shifted copy
			}
		}
		if rng.Intn(2) == 0 { // make the means coincide: the reflection of a sample symmetric in the mean
			ops = append(ops, add(0, c/2), add(1, c/2))
		}
		ops = append(ops, read(0), read(1), comb(rng.Intn(2), 0), read(0), read(1))
		if rng.Intn(2) == 0 {
			ops = append(ops, comb(0, 1), read(0))
		}
		emit(2, ops)
	}
	// 2. random histories: trees of merges, self-combine, repeated combine, empties.
	nh := pick(tier, 4000, 150000)
	for h := 0; h < nh; h++ {
		nacc := 1 + rng.Intn(6)
		nvals := rng.Intn(pick(tier, 40, 200) + 1)
		xs := stValues(rng, nvals)
		var ops []string
		vi := 0
		nops := nvals + rng.Intn(12)
		// the multiset an accumulator stands for doubles with every self-combine and grows like
		// Fibonacci numbers under alternating combines: sizes are kept below maxDen so that the
		// exact model (which carries the multiset) stays small
		const maxDen = 1000
		cnt := make([]int, nacc)
		for o := 0; o < nops; o++ {
			r := rng.Float64()
			switch {
			case vi < len(xs) && r < 0.8:
				i := rng.Intn(nacc)
				ops = append(ops, add(i, xs[vi]))
				cnt[i]++
				vi++
				if rng.Float64() < 0.1 {
					ops = append(ops, read(i))
				}
			case r < 0.97:
				i, j := rng.Intn(nacc), rng.Intn(nacc)
				if cnt[i]+cnt[j] > maxDen {
					continue
				}
				ops = append(ops, comb(i, j))
				cnt[i] += cnt[j]
				if rng.Float64() < 0.5 {
					ops = append(ops, read(i))
				}
			default:
				ops = append(ops, read(rng.Intn(nacc)))
			}
		}
		// final merge tree into accumulator 0 in random order, then read all
		perm := rng.Perm(nacc)
		for _, j := range perm {
			if j != 0 && rng.Float64() < 0.7 && cnt[0]+cnt[j] <= 4*maxDen {
				ops = append(ops, comb(0, j))
				cnt[0] += cnt[j]
			}
		}
		for i := 0; i < nacc; i++ {
			ops = append(ops, read(i))
		}
		emit(nacc, ops)
	}
}
