package main

import (
	"bufio"
	"fmt"
	"math"
	"math/rand"

	"github.com/aclements/go-moremath/stats"
)

func init() {
	execs["lh"] = func(a []Tok) string {
		h := stats.NewLinearHist(a[0].F(), a[1].F(), a[2].Int())
		return histOut(h, a[3].Fs(), a[4].Fs(), a[5].Fs())
	}
	execs["gh"] = func(a []Tok) string {
		h := stats.NewLogHist(a[0].Int(), a[1].F(), a[2].F())
		return histOut(h, a[3].Fs(), a[4].Fs(), a[5].Fs())
	}
	gens["C14"] = genC14
}

func histOut(h stats.Histogram, xs, qs, bs []float64) string {
	var prevTotal uint
	// read-only methods called at data-dependent moments between the Adds: looking at a histogram changes nothing
	observe := func(k uint64) {
		switch k % 7 {
		case 0:
			if b, ok := h.(interface{ Bounds() (float64, float64) }); ok {
				b.Bounds()
			}
		case 1:
			stats.HistogramQuantile(h, float64(k%11)/10)
		case 2:
			h.BinToValue(float64(k % 5))
		case 3:
			if a, ok := h.(interface{ At(float64) float64 }); ok {
				a.At(float64(k%100) + 0.5)
			}
		case 4:
			stats.HistogramIQR(h)
		}
	}
	for i, x := range xs {
		if i%3 == 1 {
			observe(math.Float64bits(x)>>3 + uint64(i))
		}
		h.Add(x)
		u, c, o := h.Counts()
		t := u + o
		for _, v := range c {
			t += v
		}
		if t != prevTotal+1 {
			panic(fmt.Sprintf("Add #%d changed the total by %d", i, int(t)-int(prevTotal)))
		}
		prevTotal = t
	}
	u, c, o := h.Counts()
	ci := make([]int, len(c))
	for i, v := range c {
		ci[i] = int(v)
	}
	b2v := make([]float64, len(bs))
	for i, b := range bs {
		b2v[i] = h.BinToValue(b)
	}
	hq := make([]float64, 0, len(qs)+2)
	for _, q := range append(append([]float64(nil), qs...), 0.75, 0.25) {
		hq = append(hq, stats.HistogramQuantile(h, q))
	}
	return fmt.Sprintf("%d %s %d %s %s %s", u, fmtInts(ci), o, fmtFs(b2v), fmtFs(hq), fmtF(stats.HistogramIQR(h)))
}

func genC14(w *bufio.Writer, tier string, rng *rand.Rand) {
	nh := pick(tier, 3000, 100000)
	for k := 0; k < nh; k++ {
		nx := rng.Intn(pick(tier, 60, 500) + 1)
		if rng.Intn(4) == 0 {
			nx = rng.Intn(8)
		}
		nq := 2 + rng.Intn(6)
		qs := make([]float64, nq)
		for i := range qs {
			switch rng.Intn(5) {
			case 0:
				qs[i] = float64(rng.Intn(2))
			case 1:
				if nx > 0 {
					qs[i] = float64(rng.Intn(nx+1)) / float64(nx)
				}
			default:
				qs[i] = rng.Float64()
			}
		}
		if rng.Intn(2) == 0 {
			// linear
			nb := 1 + rng.Intn(50)
			var mn, width float64
			switch rng.Intn(4) {
			case 0:
				mn, width = 0, float64(nb)
			case 1:
				mn, width = float64(rng.Intn(200)-100), float64(1+rng.Intn(100))
			case 2:
				mn, width = rng.NormFloat64()*1e3, math.Exp(rng.NormFloat64()*3)
			default:
				mn, width = float64(rng.Intn(20)-10)/4, float64(nb)*math.Ldexp(1, rng.Intn(7)-3)
			}
			if rng.Intn(15) == 0 { // any min < max: ranges near the ends of the float64 range
				width = math.Ldexp(float64(1+rng.Intn(7)), []int{1020, 1015, 1000, -1000, -1015, 900}[rng.Intn(6)])
				mn = []float64{0, -width / 4, width / 8}[rng.Intn(3)]
			}
			mx := mn + width
			bw := width / float64(nb)
			xs := make([]float64, nx)
			for i := range xs {
				switch rng.Intn(8) {
				case 0: // within one bin width below the first edge
					xs[i] = mn - rng.Float64()*bw
				case 1: // exact edges
					xs[i] = mn + float64(rng.Intn(nb+1))*bw
					if rng.Intn(2) == 0 { // a tiny fraction of a bin width below / above an edge, far beyond rounding distance
						xs[i] += bw * math.Pow(10, -float64(5+rng.Intn(9))) * float64(rng.Intn(2)*2-1)
					}
				case 5: // the closest floats to an edge, and distances from it far below one ulp of the bin width
					e := mn + float64(rng.Intn(nb+1))*bw
					if rng.Intn(2) == 0 {
						e = mn
					}
					switch rng.Intn(3) {
					case 0:
						xs[i] = math.Nextafter(e, math.Inf(rng.Intn(2)*2-1))
					case 1:
						xs[i] = e + float64(rng.Intn(2)*2-1)*bw*math.Ldexp(1, -(40+rng.Intn(40)))
					default:
						xs[i] = e + float64(rng.Intn(2)*2-1)*[]float64{5e-324, 1e-300, 1e-100, 1e-30, 1e-20, 1e-17}[rng.Intn(6)]
					}
				case 2: // far outside
					xs[i] = mn + (rng.Float64()*6-3)*width
				case 3: // just around the top edge
					xs[i] = mx + (rng.Float64()-0.5)*bw
				default:
					xs[i] = mn + rng.Float64()*width
				}
			}
			for i := range xs { // samples are finite
				if math.IsInf(xs[i], 0) || math.IsNaN(xs[i]) {
					xs[i] = mx
				}
			}
			bs := []float64{0, float64(nb), float64(rng.Intn(nb + 1)), rng.Float64() * float64(nb), -1, float64(nb) + 0.5}
			fmt.Fprintf(w, "lh %s %s %d %s %s %s\n", fmtF(mn), fmtF(mx), nb, fmtFs(xs), fmtFs(qs), fmtFs(bs))
		} else {
			b := 2 + rng.Intn(9)
			m := float64(1 + rng.Intn(4))
			var mx float64
			switch rng.Intn(3) {
			case 0:
				mx = math.Pow(float64(b), float64(1+rng.Intn(6))) // exact power: nbins on an edge
			case 1:
				mx = math.Exp(rng.Float64()*10 + 0.1)
			default:
				mx = float64(2 + rng.Intn(5000))
			}
			nb := int(math.Ceil(m * math.Log(mx) / math.Log(float64(b))))
			if nb < 1 || nb > 50 {
				continue
			}
			xs := make([]float64, nx)
			for i := range xs {
				switch rng.Intn(8) {
				case 0: // within one bin below the first edge (first edge is 1)
					xs[i] = math.Pow(float64(b), -rng.Float64()/m)
				case 1: // exact edges b^(j/m)
					xs[i] = math.Pow(float64(b), float64(rng.Intn(nb+1))/m)
					if rng.Intn(2) == 0 { // a tiny relative distance from an edge, far beyond rounding distance
						xs[i] *= 1 + math.Pow(10, -float64(5+rng.Intn(7)))*float64(rng.Intn(2)*2-1)
					}
				case 5: // the closest floats to the first edge (1) and to the other edges
					e := 1.0
					if rng.Intn(2) == 0 {
						e = math.Pow(float64(b), float64(rng.Intn(nb+1))/m)
					}
					xs[i] = math.Nextafter(e, math.Inf(rng.Intn(2)*2-1))
					if rng.Intn(3) == 0 {
						xs[i] = e
					}
				case 2: // far below / above
					xs[i] = math.Exp(rng.NormFloat64() * 8)
				case 3:
					xs[i] = float64(1 + rng.Intn(40))
				default:
					xs[i] = math.Exp(rng.Float64() * math.Log(mx))
				}
			}
			bs := []float64{0, float64(nb), float64(rng.Intn(nb + 1)), rng.Float64() * float64(nb), 0.5}
			fmt.Fprintf(w, "gh %d %s %s %s %s %s\n", b, fmtF(m), fmtF(mx), fmtFs(xs), fmtFs(qs), fmtFs(bs))
		}
	}
}
