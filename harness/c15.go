package main

import (
	"bufio"
	"fmt"
	"math"
	"math/rand"
	"sort"
	"strings"

	"github.com/aclements/go-moremath/fit"
)

func init() {
	execs["lls"] = execLLS
	execs["preg"] = execPReg
	execs["loess"] = execLoess
	gens["C15"] = genC15
}

func optW(t Tok) []float64 {
	if t.IsArr {
		return t.Fs()
	}
	return nil
}

// lls xs ys ws|- XT  : the basis functions return the transmitted rows
func execLLS(a []Tok) string {
	xs, ys, ws := a[0].Fs(), a[1].Fs(), optW(a[2])
	ox, oy := append([]float64(nil), xs...), append([]float64(nil), ys...)
	var terms []func(xs, out []float64)
	for _, row := range a[3].Arr {
		r := row.Fs()
		// (written the way a caller's basis function is: one value per element of the output it is given)
		terms = append(terms, func(xs, out []float64) {
			for i := range out {
				out[i] = r[i]
			}
		})
	}
	p := fit.LinearLeastSquares(xs, ys, ws, terms...)
	if !sameBits(xs, ox) || !sameBits(ys, oy) {
		panic("LinearLeastSquares modified its arguments")
	}
	// a returned result belongs to the caller: it is read only after further, unrelated fits
	laterFits(len(xs), len(terms))
	return fmtFs(p)
}

// laterFits runs other fits of the same and of different sizes (what a program does between
// obtaining a result and reading it).
func laterFits(n, k int) {
	for _, m := range []int{n, n + 3} {
		if m < 1 {
			m = 1
		}
		xs, ys := make([]float64, m), make([]float64, m)
		for i := range xs {
			xs[i] = float64(i) - 1.5
			ys[i] = -3 + 0.5*xs[i] + float64(i%3)
		}
		var terms []func(xs, out []float64)
		for j := 0; j < k; j++ {
			j := j
			terms = append(terms, func(xs, out []float64) {
				for i, x := range xs {
					out[i] = math.Pow(x, float64(j))
				}
			})
		}
		if k > 0 {
			fit.LinearLeastSquares(xs, ys, nil, terms...)
		}
		d := k - 1
		if d < 0 {
			d = 0
		}
		r := fit.PolynomialRegression(xs, ys, nil, d)
		r.F(0.25)
	}
}

func execPReg(a []Tok) string {
	xs, ys, ws := a[0].Fs(), a[1].Fs(), optW(a[2])
	r := fit.PolynomialRegression(xs, ys, ws, a[3].Int())
	laterFits(len(xs), a[3].Int()+1)
	ev := a[4].Fs()
	fv := make([]float64, len(ev))
	for i, x := range ev {
		fv[i] = r.F(x)
	}
	return fmtFs(r.Coefficients) + " " + fmtFs(fv)
}

func execLoess(a []Tok) string {
	xs, ys := a[0].Fs(), a[1].Fs()
	deg, span := a[2].Int(), a[3].F()
	queries := a[4].Fs()
	ox, oy := append([]float64(nil), xs...), append([]float64(nil), ys...)
	f := fit.LOESS(xs, ys, deg, span)
	vals := make([]float64, len(queries))
	for i, x := range queries {
		vals[i] = f(x)
	}
	// queries again in reverse order through the same closure: results must not depend on history
	for i := len(queries) - 1; i >= 0; i-- {
		if v := f(queries[i]); math.Float64bits(v) != math.Float64bits(vals[i]) && !(math.IsNaN(v) && math.IsNaN(vals[i])) {
			panic(fmt.Sprintf("LOESS closure is history dependent: f(%v) gave %v then %v", queries[i], vals[i], v))
		}
	}
	concurrentSame("LOESS closure", f, queries, vals)
	unmod := sameBits(xs, ox) && sameBits(ys, oy)
	// order independence
	perm := rand.Perm(len(xs))
	sx, sy := make([]float64, len(xs)), make([]float64, len(xs))
	for i, p := range perm {
		sx[i], sy[i] = xs[p], ys[p]
	}
	g := fit.LOESS(sx, sy, deg, span)
	order := true
	for i, x := range queries {
		if v := g(x); math.Float64bits(v) != math.Float64bits(vals[i]) && !(math.IsNaN(v) && math.IsNaN(vals[i])) {
			order = false
		}
	}
	// locality: perturb every y strictly farther from the query than the q-th nearest point
	n := len(xs)
	q := int(math.Ceil(span * float64(n)))
	if q > n {
		q = n
	}
	local := true
	for i, x := range queries {
		ds := make([]float64, n)
		for j := range xs {
			ds[j] = math.Abs(xs[j] - x)
		}
		sd := append([]float64(nil), ds...)
		sort.Float64s(sd)
		if q >= n || q < 1 {
			continue
		}
		dq := sd[q-1] * (1 + 1e-9)
		py := append([]float64(nil), ys...)
		changed := false
		for j := range py {
			if ds[j] > dq {
				py[j] += 1000 + float64(j)
				changed = true
			}
		}
		if !changed {
			continue
		}
		if v := fit.LOESS(xs, py, deg, span)(x); math.Float64bits(v) != math.Float64bits(vals[i]) && !(math.IsNaN(v) && math.IsNaN(vals[i])) {
			local = false
		}
	}
	return fmt.Sprintf("%s %s %s %s", fmtFs(vals), fmtB(local), fmtB(order), fmtB(unmod))
}

func distinctXs(rng *rand.Rand, n int) []float64 {
	xs := make([]float64, 0, n)
	seen := map[float64]bool{}
	scale := []float64{1, 1, 1, 10, 0.01}[rng.Intn(5)]
	off := []float64{0, 0, 0, 5, -3}[rng.Intn(5)]
	for len(xs) < n {
		x := math.Round((rng.Float64()*4-2)*1024) / 1024
		if !seen[x] {
			seen[x] = true
			xs = append(xs, x*scale+off)
		}
	}
	return xs
}

func genC15(w *bufio.Writer, tier string, rng *rand.Rand) {
	n := pick(tier, 1500, 40000)
	polyVal := func(c []float64, x float64) float64 {
		y := 0.0
		for i := len(c) - 1; i >= 0; i-- {
			y = y*x + c[i]
		}
		return y
	}
	for k := 0; k < n; k++ {
		nx := 3 + rng.Intn(38)
		xs := distinctXs(rng, nx)
		ws := "-"
		if rng.Intn(2) == 0 {
			v := make([]float64, nx)
			for i := range v {
				v[i] = math.Round((0.1+rng.Float64()*3)*64) / 64
			}
			if rng.Intn(6) == 0 { // normalised weights: unequal, yet they add up to exactly the number of points (or to 1)
				for i := 0; i+1 < nx; i += 2 {
					d := float64(1+rng.Intn(60)) / 64
					v[i], v[i+1] = 1-d, 1+d
				}
				if nx%2 == 1 {
					v[nx-1] = 1
				}
				rng.Shuffle(nx, func(i, j int) { v[i], v[j] = v[j], v[i] })
				if rng.Intn(3) == 0 && nx&(nx-1) == 0 { // a power of two many points: divide exactly so that the sum is 1
					for i := range v {
						v[i] /= float64(nx)
					}
				}
			} else if rng.Intn(5) == 0 { // all weights on a very small / very large common scale (1/sigma^2 with huge or tiny sigma)
				sc := math.Ldexp(1, []int{-80, -330, 80, 330, -600, 600}[rng.Intn(6)])
				for i := range v {
					v[i] *= sc
				}
			}
			ws = fmtFs(v)
		}
		switch rng.Intn(3) {
		case 0: // arbitrary smooth basis functions, evaluated here and transmitted
			nt := 1 + rng.Intn(4)
			if nt > nx-1 {
				nt = nx - 1
			}
			basis := []func(float64) float64{
				func(x float64) float64 { return 1 },
				func(x float64) float64 { return x },
				math.Sin, math.Cos, math.Exp,
				func(x float64) float64 { return 1 / (1 + x*x) },
				func(x float64) float64 { return x * x },
				func(x float64) float64 { return math.Tanh(2 * x) },
			}
			perm := rng.Perm(len(basis))[:nt]
			rows := make([]string, nt)
			ys := make([]float64, nx)
			for ti, bi := range perm {
				r := make([]float64, nx)
				c := rng.NormFloat64() * 3
				for i, x := range xs {
					r[i] = basis[bi](x)
					ys[i] += c * r[i]
				}
				rows[ti] = fmtFs(r)
			}
			for i := range ys {
				ys[i] += rng.NormFloat64() * []float64{0, 0.1, 1}[rng.Intn(3)]
			}
			fmt.Fprintf(w, "lls %s %s %s [%s]\n", fmtFs(xs), fmtFs(ys), ws, strings.Join(rows, ","))
		case 1: // polynomial regression: exact polynomial data (deg <= d) or noisy
			d := rng.Intn(7)
			if d > nx-2 {
				d = nx - 2
			}
			if rng.Intn(8) == 0 && nx <= 6 && nx >= 1 { // as many coefficients as points: interpolation
				d = nx - 1
			}
			pd := rng.Intn(d + 1)
			c := make([]float64, pd+1)
			for i := range c {
				c[i] = math.Round(rng.NormFloat64()*8) / 4
			}
			ys := make([]float64, nx)
			noise := []float64{0, 0, 0.5}[rng.Intn(3)]
			for i, x := range xs {
				ys[i] = polyVal(c, x) + rng.NormFloat64()*noise
			}
			ev := []float64{0, 1, -1, xs[0], rng.Float64()*4 - 2}
			fmt.Fprintf(w, "preg %s %s %s %d %s\n", fmtFs(xs), fmtFs(ys), ws, d, fmtFs(ev))
		default: // LOESS
			if nx < 6 {
				nx = 6
				xs = distinctXs(rng, nx)
			}
			deg := rng.Intn(3)
			minQ := deg + 3
			span := rng.Float64()
			if rng.Intn(4) == 0 {
				span = 1
			}
			if span*float64(nx) < float64(minQ) {
				span = float64(minQ) / float64(nx)
				if span > 1 {
					span = 1
				}
			}
			switch rng.Intn(6) {
			case 0, 1, 2:
				sort.Float64s(xs)
			case 3: // strictly descending
				sort.Float64s(xs)
				for i, j := 0, len(xs)-1; i < j; i, j = i+1, j-1 {
					xs[i], xs[j] = xs[j], xs[i]
				}
			case 4: // ascending except for the last value
				sort.Float64s(xs)
				xs[0], xs[len(xs)-1] = xs[len(xs)-1], xs[0]
			}
			pd := rng.Intn(deg + 2)
			c := make([]float64, pd+1)
			for i := range c {
				c[i] = math.Round(rng.NormFloat64()*8) / 4
			}
			ys := make([]float64, nx)
			noise := []float64{0, 0, 0.3}[rng.Intn(3)]
			for i, x := range xs {
				ys[i] = polyVal(c, x) + math.Sin(3*x)*noise
			}
			lo, hi := xs[0], xs[0]
			for _, x := range xs {
				lo, hi = math.Min(lo, x), math.Max(hi, x)
			}
			qs := []float64{lo, hi, xs[rng.Intn(nx)], lo + rng.Float64()*(hi-lo), lo + rng.Float64()*(hi-lo), lo + rng.Float64()*(hi-lo)}
			fmt.Fprintf(w, "loess %s %s %d %s %s\n", fmtFs(xs), fmtFs(ys), deg, fmtF(span), fmtFs(qs))
		}
	}

	// every window width: spans k/n for every n and k (rational spans whose product with n lands on,
	// just above or just below a whole number in floating point)
	for n := 6; n <= pick(tier, 30, 45); n++ {
		for k := 3; k <= n; k++ {
			if !isThorough(tier) && rng.Intn(3) != 0 {
				continue
			}
			xs := distinctXs(rng, n)
			sort.Float64s(xs)
			ys := make([]float64, n)
			for i, x := range xs {
				ys[i] = math.Sin(3*x) + x*x
			}
			deg := rng.Intn(2)
			span := float64(k) / float64(n)
			q := xs[rng.Intn(n)] + 0.01
			fmt.Fprintf(w, "loess %s %s %d %s %s\n", fmtFs(xs), fmtFs(ys), deg, fmtF(span), fmtFs([]float64{q, xs[0], xs[n-1]}))
		}
	}
	// designed data: symmetric integer abscissae and even / odd integer polynomials, so that some
	// fitted coefficients are exactly zero (not merely of the order of the rounding error)
	for k := 0; k < pick(tier, 60, 1500); k++ {
		m := 2 + rng.Intn(3)
		sc := math.Ldexp(1, rng.Intn(3)-1)
		var xs, ys []float64
		a, b2, c1 := float64(rng.Intn(7)-3), float64(rng.Intn(5)-2), float64(rng.Intn(5)-2)
		odd := rng.Intn(2) == 0
		for i := -m; i <= m; i++ {
			x := float64(i) * sc
			xs = append(xs, x)
			if odd {
				ys = append(ys, c1*x+b2*x*x*x)
			} else {
				ys = append(ys, a+b2*x*x)
			}
		}
		d := 1 + rng.Intn(3)
		if d > len(xs)-2 {
			d = len(xs) - 2
		}
		ev := []float64{0, 1, -1, 2, -2, 0.5, xs[0], 3}
		fmt.Fprintf(w, "preg %s %s - %d %s\n", fmtFs(xs), fmtFs(ys), d, fmtFs(ev))
	}
}
