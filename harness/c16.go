package main

import (
	"bufio"
	"fmt"
	"math"
	"math/rand"
	"strings"

	"github.com/aclements/go-moremath/scale"
)

func init() {
	execs["sc"] = execSc
	execs["findlevel"] = execFindLevel
	execs["lticks"] = execLinTicks
	execs["lnice"] = execLinNice
	execs["gticks"] = execLogTicks
	execs["gnice"] = execLogNice
	gens["C16"] = genC16
	gens["C17"] = genC17
}

func mkScale(t Tok) scale.Quantitative {
	switch t.Arr[0].Atom {
	case "lin":
		l := &scale.Linear{Min: t.Arr[1].F(), Max: t.Arr[2].F(), Clamp: t.Arr[3].Int() == 1}
		if hasPast(l.Min) && finite(l.Min, l.Max) {
			l.Min, l.Max = l.Max*2+1, l.Min-3
			l.Map(0.5)
			l.Unmap(0.5)
			l.Min, l.Max = t.Arr[1].F(), t.Arr[2].F()
		}
		// read-only entry points called on the object as it will be used (looking at a scale's ticks changes
		// nothing about it)
		if math.Float64bits(l.Max)%2 == 0 && finite(l.Min, l.Max) && l.Min != l.Max && math.Abs(l.Max-l.Min) > 1e-300 && math.Abs(l.Max-l.Min) < 1e300 {
			l.Ticks(scale.TickOptions{Max: 5})
			l.Ticks(scale.TickOptions{Max: 2, MinLevel: -3, MaxLevel: 40})
		}
		return l
	case "log":
		mn, mx, base := t.Arr[1].F(), t.Arr[2].F(), t.Arr[3].Int()
		l := scale.Log{Min: mn, Max: mx, Base: base}
		if hasPast(mn) && finite(mn, mx) {
			// the scale has a past: made by NewLog for another domain of the same sign (and
			// used), then its exported fields were assigned
			if p, err := scale.NewLog(mn*3, mx/7, base); err == nil {
				p.Map(mn)
				p.Unmap(0.25)
				p.Min, p.Max = mn, mx
				l = p
			}
		}
		l.SetClamp(t.Arr[4].Int() == 1)
		if math.Float64bits(mx)%2 == 0 && finite(mn, mx) && mn != mx {
			l.Ticks(scale.TickOptions{Max: 5})
		}
		return &l
	}
	panic("scale kind")
}

func execSc(a []Tok) string {
	if !a[0].IsArr && a[0].Atom == "newlog" {
		l, err := scale.NewLog(a[1].F(), a[2].F(), a[3].Int())
		if err != nil {
			if _, ok := err.(scale.RangeErr); !ok {
				return "err-other"
			}
			return "err"
		}
		return fmt.Sprintf("ok %s %s %d", fmtF(l.Min), fmtF(l.Max), l.Base)
	}
	if a[1].IsArr { // qq src dst dir x
		src := mkScale(a[0])
		dst := src // a case that names the same scale twice passes ONE object for both ends
		if !sameTok(a[0], a[1]) {
			dst = mkScale(a[1])
		}
		q := scale.QQ{Src: src, Dest: dst}
		if a[2].Atom == "map" {
			return fmtF(q.Map(a[3].F()))
		}
		return fmtF(q.Unmap(a[3].F()))
	}
	s := mkScale(a[0])
	// SetClamp must be what controls clamping: toggle twice through the interface
	if rand.Intn(2) == 0 {
		cl := a[0].Arr[len(a[0].Arr)-1].Int() == 1
		s.SetClamp(!cl)
		s.SetClamp(cl)
	}
	if a[1].Atom == "map" {
		return fmtF(s.Map(a[2].F()))
	}
	return fmtF(s.Unmap(a[2].F()))
}

type tableTicker struct {
	counts []int
	lo     int
	calls  int
}

func (t *tableTicker) CountTicks(l int) int {
	t.calls++
	if t.calls > 100000 {
		panic("FindLevel does not terminate")
	}
	if len(t.counts) == 0 {
		return 0
	}
	if l < t.lo {
		return t.counts[0]
	}
	if l >= t.lo+len(t.counts) {
		return t.counts[len(t.counts)-1]
	}
	return t.counts[l-t.lo]
}
func (t *tableTicker) TicksAtLevel(l int) interface{} { return nil }

func execFindLevel(a []Tok) string {
	t := &tableTicker{counts: a[0].Ints(), lo: a[1].Int()}
	o := scale.TickOptions{Max: a[2].Int(), MinLevel: a[3].Int(), MaxLevel: a[4].Int()}
	l, ok := o.FindLevel(t, a[5].Int())
	return fmt.Sprintf("%d %s", l, fmtB(ok))
}

func tickOpts(a []Tok) scale.TickOptions {
	return scale.TickOptions{Max: a[3].Int(), MinLevel: a[4].Int(), MaxLevel: a[5].Int()}
}

func ticksOut(s scale.Quantitative, tk scale.Ticker, o scale.TickOptions, guess int) string {
	major, minor := s.Ticks(o)
	lv := "-"
	var cnt, lens []int
	if l, ok := o.FindLevel(tk, 0); ok {
		// the level must not depend on the starting guess (kept near the answer so that
		// tick counts stay far from the int range)
		if l2, ok2 := o.FindLevel(tk, l+guess); !ok2 || l2 != l {
			panic(fmt.Sprintf("FindLevel depends on the guess: %d from 0, %d,%v from %d", l, l2, ok2, l+guess))
		}
		lv = fmt.Sprint(l)
		for d := -3; d <= 3; d++ {
			c := tk.CountTicks(l + d)
			cnt = append(cnt, c)
			if c > 100000 || c < 0 {
				lens = append(lens, c) // do not materialise huge tick lists
				continue
			}
			lens = append(lens, len(tk.TicksAtLevel(l+d).([]float64)))
		}
	}
	return fmt.Sprintf("%s %s %s %s %s", lv, fmtFs(major), fmtFs(minor), fmtInts(cnt), fmtInts(lens))
}

// hasPast decides, from the case itself, whether the scale value is given a history first.
func hasPast(min float64) bool { return math.Float64bits(min)%3 != 0 }

func finite(xs ...float64) bool {
	for _, x := range xs {
		if math.IsNaN(x) || math.IsInf(x, 0) {
			return false
		}
	}
	return true
}

// withPast uses a scale on another domain (Nice and Ticks with the same options) and swallows
// whatever that does; the caller then assigns the exported fields for the case proper.
func withPast(s scale.Quantitative, o scale.TickOptions) {
	defer func() { recover() }()
	switch t := s.(type) {
	case *scale.Linear:
		if !finite(t.Min, t.Max) || math.Abs(t.Max-t.Min) < 1 {
			return
		}
	case *scale.Log:
		if !finite(t.Min, t.Max) || !(t.Min > 0 && t.Max > 0) && !(t.Min < 0 && t.Max < 0) {
			return
		}
	}
	s.Nice(o)
	s.Ticks(o)
}

func execLinTicks(a []Tok) string {
	s := scale.Linear{Min: a[0].F(), Max: a[1].F(), Base: a[2].Int()}
	o := tickOpts(a)
	if hasPast(s.Min) {
		s.Min, s.Max = s.Min*128-7, s.Max*128+9
		withPast(&s, o)
		s.Min, s.Max = a[0].F(), a[1].F()
	}
	t := s
	if t.Min > t.Max {
		t.Min, t.Max = t.Max, t.Min
	}
	out := ticksOut(&s, t, o, rand.Intn(11)-5)
	if s.Min != a[0].F() || s.Max != a[1].F() {
		panic("Ticks modified the scale")
	}
	return out
}

func niceOut(s scale.Quantitative, o scale.TickOptions, get func() (float64, float64)) string {
	s.Nice(o)
	n1, n2 := get()
	major, _ := s.Ticks(o)
	f, l := math.NaN(), math.NaN()
	if len(major) > 0 {
		f, l = major[0], major[len(major)-1]
	}
	s.Nice(o)
	a1, a2 := get()
	return fmt.Sprintf("%s %s %s %s %s %s %d", fmtF(n1), fmtF(n2), fmtF(a1), fmtF(a2), fmtF(f), fmtF(l), len(major))
}

func execLinNice(a []Tok) string {
	s := &scale.Linear{Min: a[0].F(), Max: a[1].F(), Base: a[2].Int()}
	if hasPast(s.Min) {
		s.Min, s.Max = s.Min*128-7, s.Max*128+9
		withPast(s, tickOpts(a))
		s.Min, s.Max = a[0].F(), a[1].F()
	}
	return niceOut(s, tickOpts(a), func() (float64, float64) { return s.Min, s.Max })
}

// logPast: the Log scale was used before with another base and/or another domain, then its
// exported fields were assigned the case's values.
func logPast(s *scale.Log, a []Tok) {
	mn, mx, base := a[0].F(), a[1].F(), a[2].Int()
	if !hasPast(mn) {
		return
	}
	switch math.Float64bits(mx) % 3 {
	case 0: // same domain, other base
		s.Base = []int{2, 10, 16, 3}[int(math.Float64bits(mn)>>4)%4]
	case 1: // other domain, same base
		s.Min, s.Max = mn/1e6, mx*1e9
	default: // both
		s.Min, s.Max = mn/1e6, mx*1e9
		s.Base = base + 1
	}
	withPast(s, tickOpts(a))
	s.Min, s.Max, s.Base = mn, mx, base
}

func execLogTicks(a []Tok) string {
	s := scale.Log{Min: a[0].F(), Max: a[1].F(), Base: a[2].Int()}
	logPast(&s, a)
	return ticksOut(&s, &s, tickOpts(a), rand.Intn(7)-3)
}

func execLogNice(a []Tok) string {
	s := &scale.Log{Min: a[0].F(), Max: a[1].F(), Base: a[2].Int()}
	logPast(s, a)
	return niceOut(s, tickOpts(a), func() (float64, float64) { return s.Min, s.Max })
}

// ---------- generators ----------

func logUniform(rng *rand.Rand, lo, hi float64) float64 {
	return math.Exp(math.Log(lo) + rng.Float64()*(math.Log(hi)-math.Log(lo)))
}

func randDomain(rng *rand.Rand) (float64, float64) {
	var a, b float64
	switch rng.Intn(4) {
	case 0:
		a, b = float64(rng.Intn(200)-100), float64(rng.Intn(200)-100)
	case 1:
		a = logUniform(rng, 1e-12, 1e12)
		b = logUniform(rng, 1e-12, 1e12)
		if rng.Intn(2) == 0 {
			a = -a
		}
		if rng.Intn(2) == 0 {
			b = -b
		}
	case 2:
		c := rng.NormFloat64() * 1e3
		w := logUniform(rng, 1e-6, 1e6)
		a, b = c-w, c+w
	default:
		a, b = float64(rng.Intn(20)-10)/4, float64(rng.Intn(20)-10)/4
	}
	if rng.Intn(8) == 0 { // a narrow domain far from zero (width 1e-3 ... 1e-13 of its position)
		c := logUniform(rng, 1e-6, 1e12) * float64(rng.Intn(2)*2-1)
		w := math.Abs(c) * math.Pow(10, -float64(3+rng.Intn(11)))
		a, b = c, c+w
		if rng.Intn(2) == 0 {
			a, b = math.Round(c), math.Round(c)+float64(1+rng.Intn(7))*math.Ldexp(1, -rng.Intn(4)) // whole-number ends
		}
	}
	if rng.Intn(2) == 0 {
		a, b = b, a
	}
	return a, b
}

func randLogDomain(rng *rand.Rand) (float64, float64) {
	a := logUniform(rng, 1e-12, 1e12)
	b := logUniform(rng, 1e-12, 1e12)
	switch rng.Intn(4) {
	case 0:
		a = math.Pow(10, float64(rng.Intn(24)-12))
		b = math.Pow(10, float64(rng.Intn(24)-12))
	case 1:
		b = a * (1 + rng.Float64()*3)
	}
	if rng.Intn(10) == 0 { // very wide: hundreds of decades (high tick levels)
		a = math.Pow(10, -rng.Float64()*150)
		b = math.Pow(10, rng.Float64()*150)
		if rng.Intn(2) == 0 {
			a, b = math.Pow(10, float64(-rng.Intn(120))), math.Pow(10, float64(rng.Intn(120)))
		}
	}
	if rng.Intn(2) == 0 {
		a, b = -a, -b
	}
	return a, b
}

func scTok(rng *rand.Rand, log bool) (string, float64, float64) {
	cl := rng.Intn(3) / 2
	if log {
		a, b := randLogDomain(rng)
		if rng.Intn(20) == 0 {
			b = a
		}
		return fmt.Sprintf("[log,%s,%s,%d,%d]", fmtF(a), fmtF(b), []int{2, 10, 3, 16}[rng.Intn(4)], cl), a, b
	}
	a, b := randDomain(rng)
	if rng.Intn(20) == 0 {
		b = a
	}
	return fmt.Sprintf("[lin,%s,%s,%d]", fmtF(a), fmtF(b), cl), a, b
}

func randX(rng *rand.Rand, a, b float64, log bool) float64 {
	if rng.Intn(8) == 0 { // just inside / outside an end of the domain, by a tiny fraction of its width
		f := math.Pow(10, -float64(5+rng.Intn(11))) * float64(rng.Intn(3)-1)
		e, o := a, b
		if rng.Intn(2) == 0 {
			e, o = b, a
		}
		if log && e != 0 {
			return e * math.Pow(math.Abs(o/e), f)
		}
		return e + (o-e)*f
	}
	if rng.Intn(25) == 0 { // the ends of the float64 range (normal numbers only)
		v := []float64{1e-307, 3e-308, 1e300, 1e299, 1e-300, 1e150}[rng.Intn(6)] // (math.Exp of this toolchain overflows from 709.5 on and math.Log is off on subnormals: kept clear of both)
		if a < 0 || (!log && rng.Intn(2) == 0) {
			v = -v
		}
		return v
	}
	if log {
		switch rng.Intn(6) {
		case 0:
			return a
		case 1:
			return b
		case 2:
			return 0
		case 3:
			return -a * logUniform(rng, 0.01, 100)
		default:
			lo, hi := math.Abs(a), math.Abs(b)
			if lo > hi {
				lo, hi = hi, lo
			}
			x := logUniform(rng, lo/100, hi*100)
			if a < 0 {
				x = -x
			}
			return x
		}
	}
	switch rng.Intn(6) {
	case 0:
		return a
	case 1:
		return b
	case 2:
		return (a + b) / 2
	default:
		w := math.Abs(b - a)
		if w == 0 {
			w = 1
		}
		return a + (rng.Float64()*2-0.5)*(b-a) + rng.NormFloat64()*w*float64(rng.Intn(3))*30
	}
}

func genC16(w *bufio.Writer, tier string, rng *rand.Rand) {
	n := pick(tier, 12000, 300000)
	for k := 0; k < n; k++ {
		switch rng.Intn(10) {
		case 0, 1, 2:
			t, a, b := scTok(rng, false)
			fmt.Fprintf(w, "sc %s map %s\n", t, fmtF(randX(rng, a, b, false)))
		case 3:
			t, _, _ := scTok(rng, false)
			fmt.Fprintf(w, "sc %s unmap %s\n", t, fmtF([]float64{0, 1, 0.5, rng.Float64()*10 - 5, rng.Float64()}[rng.Intn(5)]))
		case 4, 5:
			t, a, b := scTok(rng, true)
			fmt.Fprintf(w, "sc %s map %s\n", t, fmtF(randX(rng, a, b, true)))
		case 6:
			t, _, _ := scTok(rng, true)
			fmt.Fprintf(w, "sc %s unmap %s\n", t, fmtF([]float64{0, 1, 0.5, rng.Float64()*10 - 5, rng.Float64()}[rng.Intn(5)]))
		case 7:
			var a, b float64
			switch rng.Intn(5) {
			case 0:
				a, b = randLogDomain(rng)
			case 1:
				a, b = randDomain(rng)
			case 2:
				a, b = 0, logUniform(rng, 1e-12, 1e12)
			case 3:
				a, b = -logUniform(rng, 1e-12, 1e12), logUniform(rng, 1e-12, 1e12)
			default:
				a, b = logUniform(rng, 1e-12, 1e12), 0
			}
			if rng.Intn(2) == 0 {
				a, b = b, a
			}
			fmt.Fprintf(w, "sc newlog %s %s %d\n", fmtF(a), fmtF(b), []int{-3, 0, 1, 2, 3, 10, 16}[rng.Intn(7)])
		default:
			sl, ll := rng.Intn(2) == 0, rng.Intn(2) == 0
			src, a, b := scTok(rng, sl)
			dst, c, d := scTok(rng, ll)
			if rng.Intn(8) == 0 { // the same scale at both ends
				dst, c, d, ll = src, a, b, sl
			} else if rng.Intn(8) == 0 { // two scales of one kind on the same domain that differ only in clamping
				dst, c, d, ll = src, a, b, sl
				if i := strings.LastIndex(dst, ","); i >= 0 {
					flip := map[string]string{"0]": "1]", "1]": "0]"}[dst[i+1:]]
					dst = dst[:i+1] + flip
				}
			}
			if rng.Intn(2) == 0 {
				fmt.Fprintf(w, "sc %s %s map %s\n", src, dst, fmtF(randX(rng, a, b, sl)))
			} else {
				fmt.Fprintf(w, "sc %s %s unmap %s\n", src, dst, fmtF(randX(rng, c, d, ll)))
			}
		}
	}
}

func genC17(w *bufio.Writer, tier string, rng *rand.Rand) {
	// FindLevel: exhaustive over step-shaped non-increasing count tables
	maxLen := pick(tier, 4, 5)
	var rec func(cur []int, f func([]int))
	rec = func(cur []int, f func([]int)) {
		f(cur)
		if len(cur) >= maxLen {
			return
		}
		top := 5
		if len(cur) > 0 {
			top = cur[len(cur)-1]
		}
		for v := top; v >= 0; v-- {
			rec(append(append([]int(nil), cur...), v), f)
		}
	}
	rec(nil, func(c []int) {
		if len(c) == 0 {
			return
		}
		for _, lo := range []int{-3, 0} {
			for mx := 0; mx <= 5; mx++ {
				for _, lim := range [][2]int{{0, 0}, {-2, 2}, {1, 3}, {-4, -1}, {3, 1}, {0, 5}, {-1, 0}} {
					for _, guess := range []int{-8, -2, 0, 1, 3, 8} {
						if !isThorough(tier) && rng.Intn(6) != 0 {
							continue
						}
						fmt.Fprintf(w, "findlevel %s %d %d %d %d %d\n", fmtInts(c), lo, mx, lim[0], lim[1], guess)
					}
				}
			}
		}
	})
	// FindLevel far from home: one or two steps placed anywhere within +-700 levels, wide or no limits, and
	// guesses from next to the answer to a thousand levels away on either side
	for k := 0; k < pick(tier, 800, 20000); k++ {
		pos := rng.Intn(1401) - 700
		hi := 2 + rng.Intn(8)
		counts := []int{hi, rng.Intn(hi)}
		if rng.Intn(3) == 0 {
			counts = []int{hi + 3, hi, hi, hi, rng.Intn(hi)}
		}
		mx := rng.Intn(hi + 3)
		lim := [2]int{0, 0}
		switch rng.Intn(4) {
		case 0:
			lim = [2]int{pos - rng.Intn(300), pos + rng.Intn(300)}
		case 1:
			lim = [2]int{-10 - rng.Intn(300), 10 + rng.Intn(900)}
		case 2:
			lim = [2]int{pos + 1 + rng.Intn(40), pos + 60 + rng.Intn(200)}
		}
		guess := []int{0, pos, pos + rng.Intn(200) - 100, -1000, 1000, pos - 65, pos - 129, pos + 65, pos - 64, pos - 257, lim[0], lim[1]}[rng.Intn(12)]
		fmt.Fprintf(w, "findlevel %s %d %d %d %d %d\n", fmtInts(counts), pos, mx, lim[0], lim[1], guess)
	}
	// linear ticks and Nice
	n := pick(tier, 6000, 150000)
	for k := 0; k < n; k++ {
		width := logUniform(rng, 1e-9, 1e9)
		centre := (rng.Float64()*2 - 1) * width * []float64{0, 0.5, 3, 100, 1000}[rng.Intn(5)]
		a, b := centre-width/2, centre+width/2
		switch rng.Intn(5) {
		case 0: // bounds exactly on nice values
			s := math.Pow(10, float64(rng.Intn(9)-4))
			a, b = float64(rng.Intn(40)-20)*s, float64(rng.Intn(40)-20)*s
		case 1:
			a, b = float64(rng.Intn(200)-100)/10, float64(rng.Intn(200)-100)/10
		}
		if rng.Intn(12) == 0 {
			a, b = b, a
		}
		if rng.Intn(40) == 0 {
			a = float64(rng.Intn(2001)-1000) / 4 // degenerate domains become [a-0.5, a+0.5]: keep |centre|/width <= 1e3
			b = a
		}
		base := []int{0, 0, 0, 2, 3, 5, 10, 16}[rng.Intn(8)]
		mx := 1 + rng.Intn(20)
		if rng.Intn(4) == 0 {
			mx = 1 + rng.Intn(3)
		}
		if rng.Intn(50) == 0 {
			mx = 0
		}
		minL, maxL := 0, 0
		if rng.Intn(4) == 0 {
			minL, maxL = rng.Intn(12)-8, rng.Intn(12)-4
		}
		if rng.Intn(12) == 0 { // level limits far above the natural level of the domain (spacings up to 16^150)
			minL = 60 + rng.Intn(240)
			maxL = minL + rng.Intn(12)
			if rng.Intn(3) == 0 {
				minL = []int{63, 64, 65, 126, 127, 128, 129, 130, 255, 256}[rng.Intn(10)]
				maxL = minL + rng.Intn(3)
			}
		}
		op := "lticks"
		if rng.Intn(3) == 0 {
			op = "lnice"
		}
		fmt.Fprintf(w, "%s %s %s %d %d %d %d\n", op, fmtF(a), fmtF(b), base, mx, minL, maxL)
	}
	// log ticks and Nice
	for k := 0; k < n/2; k++ {
		lo := logUniform(rng, 1e-100, 1e100)
		span := []float64{1.5, 5, 30, 1e3, 1e6, 1e20, 1e100, 1e150}[rng.Intn(8)]
		hi := lo * (1 + rng.Float64()*span)
		switch rng.Intn(4) {
		case 0:
			lo = math.Pow(10, float64(rng.Intn(200)-100))
			hi = lo * math.Pow(10, float64(rng.Intn(80)))
		case 1:
			lo, hi = 1, logUniform(rng, 1.5, 1e100)
		}
		if hi > 1e100 {
			hi = 1e100
		}
		if lo > hi {
			lo, hi = hi, lo
		}
		if rng.Intn(6) == 0 { // an end a tiny relative distance from a power of a base
			b0 := []float64{10, 2, 16}[rng.Intn(3)]
			pw := math.Pow(b0, float64(rng.Intn(40)-8))
			off := 1 + math.Pow(10, -float64(5+rng.Intn(9)))*float64(rng.Intn(2)*2-1)
			if rng.Intn(2) == 0 {
				hi = pw * off
			} else {
				lo = pw * off
			}
			if lo > hi {
				lo, hi = hi, lo
			}
		}
		if rng.Intn(3) == 0 {
			lo, hi = -hi, -lo
		}
		if rng.Intn(40) == 0 {
			hi = lo
		}
		base := []int{10, 10, 2, 3, 5, 16}[rng.Intn(6)]
		mx := 1 + rng.Intn(20)
		if rng.Intn(4) == 0 {
			mx = 1 + rng.Intn(3)
		}
		minL, maxL := 0, 0
		if rng.Intn(5) == 0 {
			minL, maxL = rng.Intn(3), rng.Intn(6)
			if rng.Intn(3) == 0 { // any integers are level limits
				minL, maxL = rng.Intn(7)-4, rng.Intn(7)-3
			}
		}
		op := "gticks"
		if rng.Intn(3) == 0 {
			op = "gnice"
		}
		fmt.Fprintf(w, "%s %s %s %d %d %d %d\n", op, fmtF(lo), fmtF(hi), base, mx, minL, maxL)
	}
}
