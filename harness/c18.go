package main

import (
	"bufio"
	"fmt"
	"math/rand"
	"strings"

	"github.com/aclements/go-moremath/graph"
	"github.com/aclements/go-moremath/graph/graphalg"
	"github.com/aclements/go-moremath/graph/graphout"
)

func init() {
	execs["marks"] = execMarks
	execs["pre"] = func(a []Tok) string {
		r := graphalg.PreOrder(graph.IntGraph(a[0].Intss()), a[1].Int())
		churnGraphs()
		return fmtInts(r)
	}
	execs["post"] = func(a []Tok) string {
		r := graphalg.PostOrder(graph.IntGraph(a[0].Intss()), a[1].Int())
		churnGraphs()
		return fmtInts(r)
	}
	execs["euler"] = execEuler
	execs["rev"] = func(a []Tok) string { allowMutation(); return fmtInts(graphalg.Reverse(a[0].Ints())) }
	execs["scc"] = execSCC
	execs["simp"] = execSimp
	execs["keep"] = func(a []Tok) string { return execSub(a, true) }
	execs["remove"] = func(a []Tok) string { return execSub(a, false) }
	execs["bigraph"] = execBigraph
	execs["equal"] = func(a []Tok) string {
		g1 := graph.IntGraph(a[0].Intss())
		g2 := g1 // a case naming the same graph twice passes ONE object for both parameters
		if !sameTok(a[0], a[1]) {
			g2 = graph.IntGraph(a[1].Intss())
		}
		return fmtB(graph.Equal(g1, g2))
	}
	execs["dots"] = func(a []Tok) string { return bytesTok(graphout.DotString(string(tokBytes(a[0])))) }
	execs["dot"] = execDot
	gens["C18"] = genC18
}

func strBytes(s string) []int {
	out := make([]int, len(s))
	for i := range s {
		out[i] = int(s[i])
	}
	return out
}

func tokBytes(t Tok) []byte {
	b := make([]byte, len(t.Arr))
	for i, e := range t.Arr {
		b[i] = byte(e.Int())
	}
	return b
}

func bytesTok(s string) string {
	xs := make([]int, len(s))
	for i := 0; i < len(s); i++ {
		xs[i] = int(s[i])
	}
	return fmtInts(xs)
}

// churnGraphs runs the graph entry points on two fixed graphs (what a program does between
// obtaining a result and reading it).
func churnGraphs() {
	for _, g := range []graph.IntGraph{{{1, 2, 2}, {0}, {2, 3}, {}}, {{0}}, {{1}, {2}, {3}, {4}, {5}, {0, 3}}} {
		graphalg.SCC(g, graphalg.SCCEdges|graphalg.SCCSubnodeComponent)
		graphalg.SimplifyMulti(g)
		graphalg.PreOrder(g, 0)
		graphalg.PostOrder(g, 0)
		b := graph.MakeBiGraph(g)
		graphalg.Dom(graphalg.IDom(b, 0))
		graph.SubgraphRemove(g, []int{0}, nil)
		graph.SubgraphKeep(g, []int{0}, nil)
	}
}

func execMarks(a []Tok) string {
	m := graphalg.NewNodeMarks()
	var outs []int
	for _, op := range a[0].Arr {
		i := op.Arr[1].Int()
		switch op.Arr[0].Atom {
		case "m":
			m.Mark(i)
		case "u":
			m.Unmark(i)
		case "t":
			if m.Test(i) {
				outs = append(outs, 1)
			} else {
				outs = append(outs, 0)
			}
		case "n":
			outs = append(outs, m.Next(i))
		}
	}
	return fmtInts(outs)
}

func execEuler(a []Tok) string {
	g := graph.IntGraph(a[0].Intss())
	var ev []string
	graphalg.Euler{
		Enter: func(n int) { ev = append(ev, fmt.Sprintf("[1,%d]", n)) },
		Exit:  func(n int) { ev = append(ev, fmt.Sprintf("[0,%d]", n)) },
	}.Visit(g, a[1].Int())
	return "[" + strings.Join(ev, ",") + "]"
}

func execSCC(a []Tok) string {
	g := graph.IntGraph(a[0].Intss())
	flags := graphalg.SCCFlags(a[1].Int())
	s := graphalg.SCC(g, flags)
	churnGraphs() // results are read only after the same entry points ran on other graphs
	n := s.NumNodes()
	comps := make([][]int, n)
	for c := 0; c < n; c++ {
		comps[c] = s.Subnodes(c)
	}
	compOf := "-"
	if flags&(graphalg.SCCSubnodeComponent|graphalg.SCCEdges) != 0 {
		co := make([]int, len(g))
		for v := range g {
			co[v] = s.SubnodeComponent(v)
		}
		compOf = fmtInts(co)
	}
	outs := "-"
	if flags&graphalg.SCCEdges != 0 {
		os := make([][]int, n)
		for c := 0; c < n; c++ {
			os[c] = s.Out(c)
		}
		outs = fmtIntss(os)
	}
	return fmtIntss(comps) + " " + compOf + " " + outs
}

type wgraph struct {
	graph.IntGraph
	w [][]float64
}

func (g wgraph) OutWeight(i, e int) float64 { return g.w[i][e] }

func execSimp(a []Tok) string {
	ig := graph.IntGraph(a[0].Intss())
	var g graph.Graph = ig
	if a[1].IsArr {
		w := make([][]float64, len(a[1].Arr))
		for i, e := range a[1].Arr {
			w[i] = e.Fs()
		}
		g = wgraph{ig, w}
	}
	s := graphalg.SimplifyMulti(g)
	churnGraphs()
	parts := make([]string, s.NumNodes())
	for v := 0; v < s.NumNodes(); v++ {
		o := s.Out(v)
		ws := make([]float64, len(o))
		for e := range o {
			ws[e] = s.OutWeight(v, e)
		}
		parts[v] = "[" + fmtInts(o) + "," + fmtFs(ws) + "]"
	}
	return "[" + strings.Join(parts, ",") + "]"
}

func execSub(a []Tok, keep bool) string {
	g := graph.IntGraph(a[0].Intss())
	nodes := a[1].Ints()
	var edges []graph.Edge
	for _, e := range a[2].Arr {
		edges = append(edges, graph.Edge{Node: e.Arr[0].Int(), Edge: e.Arr[1].Int()})
	}
	var s graph.Subgraph
	if keep {
		s = graph.SubgraphKeep(g, nodes, edges)
	} else {
		s = graph.SubgraphRemove(g, nodes, edges)
	}
	churnGraphs()
	nm := s.NodeMap(func(n int) interface{} { return n })
	em := s.EdgeMap(func(n, e int) interface{} { return [2]int{n, e} })
	parts := make([]string, s.NumNodes())
	for v := 0; v < s.NumNodes(); v++ {
		o := s.Out(v)
		old := nm(v).(int)
		oe := make([]int, len(o))
		for e := range o {
			p := em(v, e).([2]int)
			if p[0] != old {
				panic("EdgeMap node differs from NodeMap")
			}
			oe[e] = p[1]
		}
		parts[v] = fmt.Sprintf("[%s,%d,%s]", fmtInts(o), old, fmtInts(oe))
	}
	return "[" + strings.Join(parts, ",") + "]"
}

func execBigraph(a []Tok) string {
	g := graph.IntGraph(a[0].Intss())
	b := graph.MakeBiGraph(g)
	churnGraphs()
	ins := make([][]int, len(g))
	for v := range g {
		ins[v] = b.In(v)
	}
	appendProbe("BiGraph.In", ins)
	return fmtIntss(ins)
}

func execDot(a []Tok) string {
	g := graph.IntGraph(a[0].Intss())
	d := graphout.Dot{Name: string(tokBytes(a[1]))}
	if a[2].IsArr {
		labels := make([]string, len(a[2].Arr))
		for i, e := range a[2].Arr {
			labels[i] = string(tokBytes(e))
		}
		d.Label = func(n int) string { return labels[n] }
	}
	if len(a) > 3 {
		// dot g name labels nodeAttrs edgeAttrs: attribute lists per node / per edge ([name,kind,value] with kind
		// s = string, i = int, l = DotLiteral). The slices the callbacks hand out are views with spare capacity
		// behind them (filled with a sentinel): they belong to the caller and must come back untouched.
		sentinel := graphout.DotAttr{Name: "\x00guard", Val: -1}
		mk := func(t Tok) []graphout.DotAttr {
			buf := make([]graphout.DotAttr, len(t.Arr), len(t.Arr)+2)
			for i, e := range t.Arr {
				name := string(tokBytes(e.Arr[0]))
				switch e.Arr[1].Atom {
				case "s":
					buf[i] = graphout.DotAttr{Name: name, Val: string(tokBytes(e.Arr[2]))}
				case "i":
					buf[i] = graphout.DotAttr{Name: name, Val: e.Arr[2].Int()}
				default:
					buf[i] = graphout.DotAttr{Name: name, Val: graphout.DotLiteral(tokBytes(e.Arr[2]))}
				}
			}
			full := buf[:cap(buf)]
			for i := len(buf); i < len(full); i++ {
				full[i] = sentinel
			}
			return buf
		}
		var handed [][]graphout.DotAttr
		var copies [][]graphout.DotAttr
		hand := func(v []graphout.DotAttr) []graphout.DotAttr {
			handed = append(handed, v)
			copies = append(copies, append([]graphout.DotAttr(nil), v[:cap(v)]...))
			return v
		}
		if a[3].IsArr {
			na := make([][]graphout.DotAttr, len(a[3].Arr))
			for i, t := range a[3].Arr {
				na[i] = mk(t)
			}
			d.NodeAttrs = func(n int) []graphout.DotAttr { return hand(na[n]) }
		}
		if a[4].IsArr {
			ea := make([][][]graphout.DotAttr, len(a[4].Arr))
			for i, t := range a[4].Arr {
				for _, e := range t.Arr {
					ea[i] = append(ea[i], mk(e))
				}
			}
			d.EdgeAttrs = func(n, e int) []graphout.DotAttr { return hand(ea[n][e]) }
		}
		out := d.Sprint(g)
		for k, v := range handed {
			full := v[:cap(v)]
			for i := range full {
				if full[i] != copies[k][i] {
					panic("the library wrote past its contract: it changed an attribute list returned by the caller's callback")
				}
			}
		}
		return bytesTok(out)
	}
	return bytesTok(d.Sprint(g))
}

// ---------- graph generators ----------

func randGraph(rng *rand.Rand, n int, avgDeg float64, selfLoops, parallel bool) [][]int {
	g := make([][]int, n)
	for u := 0; u < n; u++ {
		deg := 0
		for rng.Float64() < avgDeg/(avgDeg+1) && deg < 3*n+3 {
			deg++
		}
		for k := 0; k < deg; k++ {
			v := rng.Intn(n)
			if !selfLoops && v == u {
				continue
			}
			if !parallel {
				dup := false
				for _, w := range g[u] {
					if w == v {
						dup = true
					}
				}
				if dup {
					continue
				}
			}
			g[u] = append(g[u], v)
		}
	}
	return g
}

// structured graphs on n nodes; ids optionally permuted.
func structGraph(rng *rand.Rand, kind string, n int) [][]int {
	g := make([][]int, n)
	switch kind {
	case "path":
		for i := 0; i+1 < n; i++ {
			g[i] = []int{i + 1}
		}
	case "cycle":
		for i := 0; i < n; i++ {
			g[i] = []int{(i + 1) % n}
		}
	case "tree":
		for i := 0; i < n; i++ {
			for _, c := range []int{2*i + 1, 2*i + 2} {
				if c < n {
					g[i] = append(g[i], c)
				}
			}
		}
	case "layers":
		w := 7
		for i := 0; i < n; i++ {
			layer := i / w
			for k := 0; k < 2; k++ {
				j := (layer+1)*w + rng.Intn(w)
				if j < n {
					g[i] = append(g[i], j)
				}
			}
		}
	case "revpath": // node ids descend along the path: high ids visited first
		for i := n - 1; i > 0; i-- {
			g[i] = []int{i - 1}
		}
	}
	return g
}

func enumGraphs(n int, selfLoops bool, f func(g [][]int)) {
	var pairs [][2]int
	for u := 0; u < n; u++ {
		for v := 0; v < n; v++ {
			if u != v || selfLoops {
				pairs = append(pairs, [2]int{u, v})
			}
		}
	}
	for mask := 0; mask < 1<<uint(len(pairs)); mask++ {
		g := make([][]int, n)
		for b, p := range pairs {
			if mask&(1<<uint(b)) != 0 {
				g[p[0]] = append(g[p[0]], p[1])
			}
		}
		f(g)
	}
}

func randBytes(rng *rand.Rand, n int) []int {
	special := []int{'\n', '\\', '"', '{', '}', '<', '>', '|', ' ', 'n', 'a', 0, 255, 0xc3, 0xa9}
	b := make([]int, n)
	for i := range b {
		if rng.Float64() < 0.6 {
			b[i] = special[rng.Intn(len(special))]
		} else {
			b[i] = rng.Intn(256)
		}
	}
	return b
}

func genC18(w *bufio.Writer, tier string, rng *rand.Rand) {
	// 1. NodeMarks histories
	bounds := []int{0, 1, 31, 32, 33, 63, 64, 1022, 1023, 1024, 1025, 2047, 2048, 2049, 4095, 4096, 4097, 8191, 8192, 65535, 65536, 99999, 100000, 131072}
	nm := pick(tier, 1500, 60000)
	for h := 0; h < nm; h++ {
		nops := 1 + rng.Intn(pick(tier, 60, 200))
		var ops []string
		hi := bounds[rng.Intn(len(bounds))]
		idx := func() int {
			switch rng.Intn(4) {
			case 0:
				return bounds[rng.Intn(len(bounds))]
			case 1:
				return rng.Intn(hi + 40)
			case 2:
				b := bounds[rng.Intn(len(bounds))] + rng.Intn(5) - 2
				if b < 0 {
					b = 0
				}
				return b
			}
			return rng.Intn(70)
		}
		for o := 0; o < nops; o++ {
			r := rng.Float64()
			switch {
			case r < 0.35:
				ops = append(ops, fmt.Sprintf("[m,%d]", idx()))
			case r < 0.5:
				ops = append(ops, fmt.Sprintf("[u,%d]", idx()))
			case r < 0.75:
				i := idx()
				if rng.Float64() < 0.1 {
					i = -1 - rng.Intn(70)
				}
				ops = append(ops, fmt.Sprintf("[t,%d]", i))
			default:
				i := idx() - 1
				if rng.Float64() < 0.1 {
					i = -1 - rng.Intn(70)
				}
				ops = append(ops, fmt.Sprintf("[n,%d]", i))
			}
		}
		// full iteration with Next at the end
		ops = append(ops, "[n,-1]")
		fmt.Fprintf(w, "marks [%s]\n", strings.Join(ops, ","))
	}

	// 2. exhaustive small digraphs
	emitAll := func(g [][]int, full bool) {
		gs := fmtIntss(g)
		for r := 0; r < len(g); r++ {
			fmt.Fprintf(w, "pre %s %d\n", gs, r)
			fmt.Fprintf(w, "post %s %d\n", gs, r)
			if full {
				fmt.Fprintf(w, "euler %s %d\n", gs, r)
			}
		}
		fmt.Fprintf(w, "scc %s 3\n", gs)
		if full {
			fmt.Fprintf(w, "scc %s 0\n", gs)
			fmt.Fprintf(w, "scc %s 1\n", gs)
			fmt.Fprintf(w, "bigraph %s\n", gs)
		}
	}
	maxN := pick(tier, 3, 4)
	for n := 1; n <= maxN; n++ {
		enumGraphs(n, true, func(g [][]int) { emitAll(g, n <= 3) })
	}
	if isThorough(tier) {
		// 5 nodes without self-loops: 2^20 graphs; sample 1 in 8 deterministically by rng
		enumGraphs(5, false, func(g [][]int) {
			if rng.Intn(8) == 0 {
				gs := fmtIntss(g)
				fmt.Fprintf(w, "scc %s 3\n", gs)
				fmt.Fprintf(w, "pre %s %d\n", gs, rng.Intn(5))
				fmt.Fprintf(w, "post %s %d\n", gs, rng.Intn(5))
			}
		})
	}

	// 3. random multigraphs
	nr := pick(tier, 1500, 60000)
	for k := 0; k < nr; k++ {
		n := 1 + rng.Intn(60)
		if rng.Float64() < 0.4 {
			n = 1 + rng.Intn(9)
		}
		deg := []float64{0.3, 0.8, 1.2, 2, 4}[rng.Intn(5)]
		g := randGraph(rng, n, deg, rng.Float64() < 0.7, rng.Float64() < 0.7)
		gs := fmtIntss(g)
		root := rng.Intn(n)
		switch rng.Intn(10) {
		case 0:
			fmt.Fprintf(w, "pre %s %d\n", gs, root)
			fmt.Fprintf(w, "post %s %d\n", gs, root)
		case 1:
			fmt.Fprintf(w, "euler %s %d\n", gs, root)
		case 2, 3:
			fmt.Fprintf(w, "scc %s %d\n", gs, []int{0, 1, 2, 3}[rng.Intn(4)])
		case 4:
			if rng.Float64() < 0.5 {
				fmt.Fprintf(w, "simp %s -\n", gs)
			} else {
				ws := make([]string, n)
				for u := range g {
					x := make([]float64, len(g[u]))
					for e := range x {
						x[e] = float64(rng.Intn(9)) / 4
					}
					ws[u] = fmtFs(x)
				}
				fmt.Fprintf(w, "simp %s [%s]\n", gs, strings.Join(ws, ","))
			}
		case 5: // keep: random distinct nodes in random order, edges among them
			perm := rng.Perm(n)
			kn := perm[:1+rng.Intn(n)]
			in := map[int]bool{}
			for _, v := range kn {
				in[v] = true
			}
			var es []string
			for _, u := range kn {
				for e, v := range g[u] {
					if in[v] && rng.Float64() < 0.7 {
						es = append(es, fmt.Sprintf("[%d,%d]", u, e))
					}
				}
			}
			rng.Shuffle(len(es), func(i, j int) { es[i], es[j] = es[j], es[i] })
			fmt.Fprintf(w, "keep %s %s [%s]\n", gs, fmtInts(kn), strings.Join(es, ","))
		case 6: // remove
			perm := rng.Perm(n)
			rn := perm[:rng.Intn(n)]
			if rng.Float64() < 0.3 && len(rn) > 0 {
				rn = append(rn, rn[0]) // duplicates are harmless for Remove
				if rng.Intn(2) == 0 { // ... however many: a removal list longer than the graph
					for len(rn) <= n+rng.Intn(n+2) {
						rn = append(rn, rn[rng.Intn(len(rn))])
					}
				}
			}
			var es []string
			for u := range g {
				for e := range g[u] {
					if rng.Float64() < 0.25 {
						es = append(es, fmt.Sprintf("[%d,%d]", u, e))
					}
				}
			}
			fmt.Fprintf(w, "remove %s %s [%s]\n", gs, fmtInts(rn), strings.Join(es, ","))
		case 7:
			fmt.Fprintf(w, "bigraph %s\n", gs)
		case 8: // equal: shuffled adjacency lists, or one mutation
			g2 := make([][]int, n)
			for u := range g {
				g2[u] = append([]int(nil), g[u]...)
				rng.Shuffle(len(g2[u]), func(i, j int) { g2[u][i], g2[u][j] = g2[u][j], g2[u][i] })
			}
			switch rng.Intn(4) {
			case 0:
				u := rng.Intn(n)
				if len(g2[u]) > 0 {
					g2[u][rng.Intn(len(g2[u]))] = rng.Intn(n)
				}
			case 1:
				u := rng.Intn(n)
				g2[u] = append(g2[u], rng.Intn(n))
			case 2:
				if rng.Float64() < 0.3 {
					g2 = append(g2, nil)
				}
			}
			fmt.Fprintf(w, "equal %s %s\n", gs, fmtIntss(g2))
		case 9:
			name := randBytes(rng, rng.Intn(6))
			if rng.Float64() < 0.5 {
				fmt.Fprintf(w, "dot %s %s -\n", gs, fmtInts(name))
			} else {
				ls := make([]string, n)
				for i := range ls {
					ls[i] = fmtInts(randBytes(rng, rng.Intn(8)))
				}
				fmt.Fprintf(w, "dot %s %s [%s]\n", gs, fmtInts(name), strings.Join(ls, ","))
			}
			if rng.Intn(2) == 0 { // attribute callbacks: some nodes bring their own label, most do not
				attr := func() string {
					nm := []string{"label", "shape", "color", "style", "w", "label"}[rng.Intn(6)]
					switch rng.Intn(3) {
					case 0:
						return fmt.Sprintf("[%s,s,%s]", fmtInts(strBytes(nm)), fmtInts(randBytes(rng, rng.Intn(6))))
					case 1:
						return fmt.Sprintf("[%s,i,%d]", fmtInts(strBytes(nm)), rng.Intn(200)-100)
					}
					return fmt.Sprintf("[%s,l,%s]", fmtInts(strBytes(nm)), fmtInts(strBytes([]string{"box", "red", "<b>x</b>", "1.5"}[rng.Intn(4)])))
				}
				list := func() string {
					var as []string
					for k := rng.Intn(4); k > 0; k-- {
						as = append(as, attr())
					}
					return "[" + strings.Join(as, ",") + "]"
				}
				na, ea := make([]string, n), make([]string, n)
				for i := 0; i < n; i++ {
					na[i] = list()
					var es []string
					for range g[i] {
						es = append(es, list())
					}
					ea[i] = "[" + strings.Join(es, ",") + "]"
				}
				nas, eas := "["+strings.Join(na, ",")+"]", "["+strings.Join(ea, ",")+"]"
				if rng.Intn(4) == 0 {
					nas = "-"
				}
				if rng.Intn(3) == 0 {
					eas = "-"
				}
				lab := "-"
				if rng.Intn(2) == 0 {
					ls := make([]string, n)
					for i := range ls {
						ls[i] = fmtInts(randBytes(rng, rng.Intn(8)))
					}
					lab = "[" + strings.Join(ls, ",") + "]"
				}
				fmt.Fprintf(w, "dot %s %s %s %s %s\n", gs, fmtInts(name), lab, nas, eas)
			}
		}
	}
	for k := 0; k < pick(tier, 300, 5000); k++ {
		fmt.Fprintf(w, "dots %s\n", fmtInts(randBytes(rng, rng.Intn(20))))
		fmt.Fprintf(w, "rev %s\n", fmtInts(rng.Perm(rng.Intn(9))))
	}

	// 4. structured graphs crossing the storage growth boundaries
	sizes := []int{10, 1000, 1023, 1024, 1025, 1056, 2047, 2048, 2049, 4097, 5000}
	if isThorough(tier) {
		sizes = append(sizes, 8193, 32769, 65537, 100000)
	} else {
		sizes = append(sizes, 20000)
	}
	for _, n := range sizes {
		for _, kind := range []string{"path", "cycle", "tree", "layers", "revpath"} {
			g := structGraph(rng, kind, n)
			gs := fmtIntss(g)
			root := 0
			if kind == "revpath" {
				root = n - 1
			}
			fmt.Fprintf(w, "pre %s %d\n", gs, root)
			fmt.Fprintf(w, "post %s %d\n", gs, root)
			if n <= 5000 {
				fmt.Fprintf(w, "euler %s %d\n", gs, root)
			}
			if n <= 300 {
				fmt.Fprintf(w, "scc %s 3\n", gs)
			}
		}
	}
	// the same shapes with extra cross and back edges under a random renumbering of the nodes: the walk meets
	// the ids in no particular order (storage grows by arbitrary jumps, nodes are met again long after they
	// were first seen), and renumberings that visit the ids next to the growth boundaries first
	rsizes := []int{1100, 2100, 4200, 5000, 9000}
	if isThorough(tier) {
		rsizes = append(rsizes, 17000, 33000, 70000, 2049, 4097, 8193)
	}
	for _, n := range rsizes {
		for rep := 0; rep < pick(tier, 2, 4); rep++ {
			kind := []string{"tree", "layers", "path", "cycle"}[rng.Intn(4)]
			g0 := structGraph(rng, kind, n)
			for b := 0; b < 3+rng.Intn(n/50+1); b++ {
				u := rng.Intn(n)
				g0[u] = append(g0[u], rng.Intn(n))
			}
			perm := rng.Perm(n)
			if rep%2 == 1 { // the first nodes of the walk get ids at and next to the powers of two
				special := []int{}
				for _, b := range []int{1024, 2048, 4096, 8192, 16384, 32768, 65536} {
					for _, d := range []int{0, -1, 1, 31, 32, 33} {
						if b+d < n {
							special = append(special, b+d)
						}
					}
				}
				rng.Shuffle(len(special), func(i, j int) { special[i], special[j] = special[j], special[i] })
				used := map[int]bool{}
				perm = perm[:0]
				for _, v := range special {
					if !used[v] {
						used[v] = true
						perm = append(perm, v)
					}
				}
				for _, v := range rng.Perm(n) {
					if !used[v] {
						perm = append(perm, v)
					}
				}
			}
			g := make([][]int, n)
			for u := range g0 {
				for _, v := range g0[u] {
					g[perm[u]] = append(g[perm[u]], perm[v])
				}
			}
			gs := fmtIntss(g)
			fmt.Fprintf(w, "pre %s %d\npost %s %d\n", gs, perm[0], gs, perm[0])
			if n <= 5000 {
				fmt.Fprintf(w, "euler %s %d\n", gs, perm[0])
			}
		}
	}
	// long paths ending in a small random gadget (deep recursion, then branching), and hubs with
	// hundreds of distinct and repeated successors
	for k := 0; k < pick(tier, 5, 20); k++ {
		n := []int{70000, 66000, 140000}[k%3]
		if !isThorough(tier) {
			n = 66000 + k*1500
		}
		gd := 4 + rng.Intn(8)
		g := make([][]int, n+gd)
		for v := 0; v < n; v++ {
			g[v] = []int{v + 1}
		}
		for v := n; v < n+gd; v++ { // a small DAG-like gadget: edges to a few later nodes, some to earlier ones
			for e := 0; e < 2+rng.Intn(2); e++ {
				t := v + 1 + rng.Intn(3)
				if t >= n+gd || rng.Intn(6) == 0 {
					t = n + rng.Intn(gd)
				}
				g[v] = append(g[v], t)
			}
		}
		gs := fmtIntss(g)
		fmt.Fprintf(w, "pre %s 0\npost %s 0\n", gs, gs)
	}
	for k := 0; k < pick(tier, 30, 600); k++ {
		n := 70 + rng.Intn(400)
		g := make([][]int, n)
		hub := rng.Intn(n)
		perm := rng.Perm(n)
		deg := 40 + rng.Intn(n-40)
		g[hub] = append(g[hub], perm[:deg]...)
		for e := 0; e < 1+rng.Intn(20); e++ { // parallel edges to early, late and random successors
			g[hub] = append(g[hub], perm[[]int{0, deg - 1, rng.Intn(deg), deg / 2, 63, 64, 65}[rng.Intn(7)]%deg])
		}
		for e := 0; e < n/4; e++ {
			u := rng.Intn(n)
			g[u] = append(g[u], rng.Intn(n))
		}
		gs := fmtIntss(g)
		switch rng.Intn(4) {
		case 0, 1:
			fmt.Fprintf(w, "simp %s -\n", gs)
		case 2:
			fmt.Fprintf(w, "scc %s 3\n", gs)
		default:
			g2 := make([][]int, n)
			for u := range g {
				g2[u] = append([]int(nil), g[u]...)
				rng.Shuffle(len(g2[u]), func(i, j int) { g2[u][i], g2[u][j] = g2[u][j], g2[u][i] })
			}
			if rng.Intn(2) == 0 { // same successor set, different multiplicities
				g2[hub][len(g2[hub])-1] = g2[hub][0]
			}
			fmt.Fprintf(w, "equal %s %s\n", gs, fmtIntss(g2))
		}
	}
	// subgraphs of graphs with one very long adjacency list (edge indexes far beyond a node count; lengths aimed at
	// the numeric constants of the code): the kept / removed edges include the last ones of the long list
	for _, deg := range append([]int{300, 5000}, dictSizes(rng, 50, 140000, pick(tier, 2, 12))...) {
		n := 3 + rng.Intn(4)
		g := make([][]int, n)
		for e := 0; e < deg; e++ {
			g[0] = append(g[0], 1+rng.Intn(n-1))
		}
		for u := 1; u < n; u++ {
			for e := 0; e < 1+rng.Intn(3); e++ {
				g[u] = append(g[u], rng.Intn(n))
			}
		}
		gs := fmtIntss(g)
		var es []string
		for _, e := range []int{deg - 1, deg - 2, deg / 2, 0, 1, 65536, 65535, 65537, 256, 255} {
			if e >= 0 && e < deg && rng.Intn(3) != 0 {
				es = append(es, fmt.Sprintf("[0,%d]", e))
			}
		}
		for u := 1; u < n; u++ {
			for e := range g[u] {
				if rng.Intn(2) == 0 {
					es = append(es, fmt.Sprintf("[%d,%d]", u, e))
				}
			}
		}
		// no edge twice
		seenE := map[string]bool{}
		var es2 []string
		for _, e := range es {
			if !seenE[e] {
				seenE[e] = true
				es2 = append(es2, e)
			}
		}
		rng.Shuffle(len(es2), func(i, j int) { es2[i], es2[j] = es2[j], es2[i] })
		all := rng.Perm(n)
		fmt.Fprintf(w, "keep %s %s [%s]\n", gs, fmtInts(all), strings.Join(es2, ","))
		fmt.Fprintf(w, "remove %s %s [%s]\n", gs, fmtInts(all[:rng.Intn(2)]), strings.Join(es2, ","))
	}
	// medium structured graphs for SCC (<= 300 nodes)
	for k := 0; k < pick(tier, 20, 300); k++ {
		n := 50 + rng.Intn(250)
		kind := []string{"path", "cycle", "tree", "layers"}[rng.Intn(4)]
		g := structGraph(rng, kind, n)
		// add a few random back edges
		for b := 0; b < rng.Intn(6); b++ {
			u := rng.Intn(n)
			g[u] = append(g[u], rng.Intn(n))
		}
		fmt.Fprintf(w, "scc %s 3\n", fmtIntss(g))
	}
}
