package main

import (
	"bufio"
	"fmt"
	"math/rand"

	"github.com/aclements/go-moremath/graph"
	"github.com/aclements/go-moremath/graph/graphalg"
)

func init() {
	execs["idom"] = func(a []Tok) string {
		g := graph.MakeBiGraph(graph.IntGraph(a[0].Intss()))
		r := graphalg.IDom(g, a[1].Int())
		// read after an unrelated computation
		graphalg.IDom(graph.MakeBiGraph(graph.IntGraph{{1, 2}, {3}, {3}, {}}), 0)
		return fmtInts(r)
	}
	execs["dom"] = func(a []Tok) string {
		idom := a[0].Ints()
		t := graphalg.Dom(append([]int(nil), idom...))
		// the tree is read only after other trees were built (smaller, equal and larger ones)
		for _, other := range [][]int{{-1, 0, 0, 0}, {1, -1, 1}, append([]int{-1}, make([]int, len(idom)+3)...)} {
			graphalg.Dom(other)
		}
		n := t.NumNodes()
		ch := make([][]int, n)
		in := make([][]int, n)
		io := make([]int, n)
		for v := 0; v < n; v++ {
			ch[v] = t.Out(v)
			in[v] = t.In(v)
			io[v] = t.IDom(v)
		}
		appendProbe("DomTree.Out", ch)
		return fmt.Sprintf("%d %s %s %s", n, fmtIntss(ch), fmtIntss(in), fmtInts(io))
	}
	execs["df"] = func(a []Tok) string {
		g := graph.MakeBiGraph(graph.IntGraph(a[0].Intss()))
		root := a[1].Int()
		var idom []int
		if a[2].Int() == 0 {
			idom = graphalg.IDom(g, root)
		}
		df := graphalg.DomFrontier(g, root, idom)
		appendProbe("DomFrontier", df)
		return fmtIntss(df)
	}
	gens["C19"] = genC19
}

// flowGraph builds a reducible-ish structured flow graph (nested if/loops)
// then optionally adds irreducible edges and unreachable nodes feeding joins.
func flowGraph(rng *rand.Rand, n int, irreducible, unreachable bool) [][]int {
	g := make([][]int, n)
	reach := n
	if unreachable && n > 2 {
		reach = 1 + rng.Intn(n-1)
	}
	// spanning structure over 0..reach-1: each node gets an edge from an earlier node
	for v := 1; v < reach; v++ {
		u := rng.Intn(v)
		if rng.Float64() < 0.5 {
			u = v - 1
		}
		g[u] = append(g[u], v)
	}
	extra := rng.Intn(2*reach + 1)
	for k := 0; k < extra; k++ {
		u, v := rng.Intn(reach), rng.Intn(reach)
		if !irreducible && v <= u && rng.Float64() < 0.7 {
			// forward edges mostly; back edges to ancestors only sometimes
			u, v = v, u
		}
		g[u] = append(g[u], v)
	}
	// unreachable part: edges among themselves and into the reachable part
	for u := reach; u < n; u++ {
		for k := 0; k < 1+rng.Intn(3); k++ {
			g[u] = append(g[u], rng.Intn(n))
		}
	}
	return g
}

func genC19(w *bufio.Writer, tier string, rng *rand.Rand) {
	emit := func(g [][]int, root int) {
		gs := fmtIntss(g)
		fmt.Fprintf(w, "idom %s %d\n", gs, root)
		fmt.Fprintf(w, "df %s %d %d\n", gs, root, rng.Intn(2))
	}
	maxN := pick(tier, 3, 4)
	for n := 1; n <= maxN; n++ {
		enumGraphs(n, true, func(g [][]int) {
			for r := 0; r < n; r++ {
				emit(g, r)
			}
		})
	}
	if !isThorough(tier) {
		// a sample of the 4-node graphs
		enumGraphs(4, true, func(g [][]int) {
			if rng.Intn(40) == 0 {
				emit(g, rng.Intn(4))
			}
		})
	} else {
		enumGraphs(5, false, func(g [][]int) {
			if rng.Intn(6) == 0 {
				emit(g, rng.Intn(5))
			}
		})
	}
	// structured families with long dominator chains and slow convergence: paths with long-range
	// shortcut and back edges, chains walked in both directions and entered at both ends, ladders,
	// nested loops; 20 to 300 nodes, ids optionally permuted
	for k := 0; k < pick(tier, 150, 4000); k++ {
		n := 20 + rng.Intn(pick(tier, 120, 280))
		g := make([][]int, n)
		switch rng.Intn(5) {
		case 0: // path plus a few long-range edges in either direction
			for v := 0; v+1 < n; v++ {
				g[v] = append(g[v], v+1)
			}
			for e := 0; e < 1+rng.Intn(4); e++ {
				u, v := rng.Intn(n), rng.Intn(n)
				g[u] = append(g[u], v)
			}
			if rng.Intn(2) == 0 {
				g[0] = append(g[0], n-1)
			}
		case 1: // bidirectional chain 3..n-1 entered from both ends
			g[0] = []int{1, 2}
			g[1] = []int{3}
			g[2] = []int{n - 1}
			for v := 3; v < n; v++ {
				if v+1 < n {
					g[v] = append(g[v], v+1)
				}
				if v > 3 {
					g[v] = append(g[v], v-1)
				}
			}
		case 2: // ladder: two rails with rungs in random directions
			h := n / 2
			for i := 0; i+1 < h; i++ {
				g[i] = append(g[i], i+1)
				g[h+i] = append(g[h+i], h+i+1)
			}
			g[0] = append(g[0], h)
			for i := 0; i < h; i++ {
				switch rng.Intn(3) {
				case 0:
					g[i] = append(g[i], h+i)
				case 1:
					g[h+i] = append(g[h+i], i)
				}
			}
		case 3: // nested loops: v -> v+1, and back edges from v to v - 2^j
			for v := 0; v+1 < n; v++ {
				g[v] = append(g[v], v+1)
			}
			for v := 1; v < n; v++ {
				if rng.Intn(3) == 0 {
					back := v - (1 << uint(rng.Intn(6)))
					if back < 0 {
						back = 0
					}
					g[v] = append(g[v], back)
				}
			}
		default: // reverse-numbered path with forward jumps (post-order numbering far from the id order)
			for v := n - 1; v > 0; v-- {
				g[v] = append(g[v], v-1)
			}
			for e := 0; e < 3; e++ {
				u := 1 + rng.Intn(n-1)
				g[u] = append(g[u], rng.Intn(u))
			}
		}
		root := 0
		if g[0] == nil || len(g[0]) == 0 {
			root = n - 1
		}
		if rng.Intn(3) == 0 {
			perm := rng.Perm(n)
			h := make([][]int, n)
			for u := range g {
				for _, v := range g[u] {
					h[perm[u]] = append(h[perm[u]], perm[v])
				}
			}
			g, root = h, perm[root]
		}
		emit(g, root)
	}
	nr := pick(tier, 2500, 80000)
	for k := 0; k < nr; k++ {
		n := 2 + rng.Intn(39)
		if rng.Float64() < 0.3 {
			n = 2 + rng.Intn(8)
		}
		var g [][]int
		switch rng.Intn(4) {
		case 0:
			g = randGraph(rng, n, []float64{0.5, 1, 2, 5, float64(n)}[rng.Intn(5)], true, true)
		case 1:
			g = flowGraph(rng, n, false, false)
		case 2:
			g = flowGraph(rng, n, true, false)
		default:
			g = flowGraph(rng, n, rng.Float64() < 0.5, true)
		}
		// permute ids so that root is not always 0
		perm := rng.Perm(n)
		if rng.Float64() < 0.5 {
			for i := range perm {
				perm[i] = i
			}
		}
		h := make([][]int, n)
		for u := range g {
			for _, v := range g[u] {
				h[perm[u]] = append(h[perm[u]], perm[v])
			}
		}
		root := perm[0]
		emit(h, root)
		if rng.Float64() < 0.2 {
			// Dom on the real idom (computed by the model side from Go's output is not
			// needed: any parent array is a valid input)
			idom := graphalg.IDom(graph.MakeBiGraph(graph.IntGraph(h)), root)
			fmt.Fprintf(w, "dom %s\n", fmtInts(idom))
		}
	}
	// graphs of more than 1024 nodes under a random renumbering (the traversal's storage grows while it runs,
	// and nodes are met again after it grew): trees and layered DAGs with cross and back edges
	for k := 0; k < pick(tier, 2, 30); k++ {
		n := 1030 + rng.Intn(pick(tier, 150, 2000))
		kind := []string{"tree", "layers"}[rng.Intn(2)]
		g0 := structGraph(rng, kind, n)
		for b := 0; b < 5+rng.Intn(30); b++ {
			u := rng.Intn(n)
			g0[u] = append(g0[u], rng.Intn(n))
		}
		perm := rng.Perm(n)
		if n > 2100 && k%2 == 1 { // the walk starts at ids at and next to a power of two
			for i, v := range perm {
				if v == 2048 {
					perm[0], perm[i] = perm[i], perm[0]
				}
			}
			for i, v := range perm {
				if v == 2049 || v == 2047 {
					j := 1 + rng.Intn(2)
					perm[j], perm[i] = perm[i], perm[j]
				}
			}
		}
		g := make([][]int, n)
		for u := range g0 {
			for _, v := range g0[u] {
				g[perm[u]] = append(g[perm[u]], perm[v])
			}
		}
		gs := fmtIntss(g)
		fmt.Fprintf(w, "idom %s %d\n", gs, perm[0])
	}
}
