package main

import (
	"bufio"
	"fmt"
	"math"
	"math/rand"
	"os"
	"sort"
	"strings"
	"sync"

	"github.com/aclements/go-moremath/fit"
	"github.com/aclements/go-moremath/graph"
	"github.com/aclements/go-moremath/graph/graphalg"
	"github.com/aclements/go-moremath/graph/graphout"
	"github.com/aclements/go-moremath/mathx"
	"github.com/aclements/go-moremath/scale"
	"github.com/aclements/go-moremath/stats"
	"github.com/aclements/go-moremath/vec"
)

func init() {
	execs["pure"] = execPure
	gens["C20"] = genC20
}

// ---------- heap objects ----------

type obj struct {
	kind string
	f    []float64
	ints []int
	idom []int // for a graph: its immediate-dominator array from node 0, computed once when the object is built
	smp  *stats.Sample
	g    graph.IntGraph
	kde  *stats.KDE
	st   *stats.StreamStats
	lh   *stats.LinearHist
	mk   *graphalg.NodeMarks
	lin  *scale.Linear
	lg   *scale.Log
	ud   *stats.UDist
	fn   func(float64) float64 // a function derived from the library (InvCDF(dist), LOESS fit): shared like any object
}

func fbits(xs []float64) []uint64 {
	out := make([]uint64, len(xs))
	for i, x := range xs {
		out[i] = math.Float64bits(x)
	}
	return out
}

func ibits(xs []int) []uint64 {
	out := make([]uint64, len(xs))
	for i, x := range xs {
		out[i] = uint64(x)
	}
	return out
}

func bbit(b bool) uint64 {
	if b {
		return 1
	}
	return 0
}

// snapshot is the full observable state of an object as a bit pattern.
func (o *obj) snapshot() []uint64 {
	switch o.kind {
	case "f", "w":
		return fbits(o.f)
	case "i":
		return ibits(o.ints)
	case "s":
		r := append([]uint64{bbit(o.smp.Sorted), uint64(len(o.smp.Xs)), bbit(o.smp.Weights != nil)}, fbits(o.smp.Xs)...)
		return append(r, fbits(o.smp.Weights)...)
	case "g":
		var r []uint64
		for _, l := range o.g {
			r = append(r, uint64(len(l)))
			r = append(r, ibits(l)...)
		}
		return append(r, ibits(o.idom)...)
	case "k":
		k := o.kde
		r := []uint64{math.Float64bits(k.Bandwidth), uint64(k.Kernel), math.Float64bits(k.BoundaryMin), math.Float64bits(k.BoundaryMax), bbit(k.Sample.Sorted)}
		r = append(r, fbits(k.Sample.Xs)...)
		return append(r, fbits(k.Sample.Weights)...)
	case "st":
		s := o.st
		return []uint64{uint64(s.Count), math.Float64bits(s.Total), math.Float64bits(s.Min), math.Float64bits(s.Max),
			math.Float64bits(s.Mean()), math.Float64bits(s.RMS()), math.Float64bits(s.Variance())}
	case "lh":
		u, c, ov := o.lh.Counts()
		r := []uint64{uint64(u), uint64(ov)}
		for _, v := range c {
			r = append(r, uint64(v))
		}
		return r
	case "m":
		var r []uint64
		for i := o.mk.Next(-1); i >= 0; i = o.mk.Next(i) {
			r = append(r, uint64(i))
		}
		return r
	case "lin":
		return []uint64{math.Float64bits(o.lin.Min), math.Float64bits(o.lin.Max), uint64(o.lin.Base), bbit(o.lin.Clamp)}
	case "lg":
		return []uint64{math.Float64bits(o.lg.Min), math.Float64bits(o.lg.Max), uint64(o.lg.Base), bbit(o.lg.Clamp)}
	case "ud":
		return append([]uint64{uint64(o.ud.N1), uint64(o.ud.N2)}, ibits(o.ud.T)...)
	case "fn":
		return nil // a derived function has no state of its own: what it returns is compared call by call
	}
	panic("snapshot kind " + o.kind)
}

func eqBits(a, b []uint64) bool {
	if len(a) != len(b) {
		return false
	}
	for i := range a {
		if a[i] != b[i] {
			return false
		}
	}
	return true
}

// buildObj: [kind, ...]; "s" may alias an earlier "f" object: [s,alias,fid,sorted]
func buildObj(t Tok, heap []*obj) *obj {
	k := t.Arr[0].Atom
	o := &obj{kind: k}
	switch k {
	case "f", "w":
		o.f = t.Arr[1].Fs()
	case "i":
		o.ints = t.Arr[1].Ints()
	case "s":
		if !t.Arr[1].IsArr && t.Arr[1].Atom == "alias" {
			o.smp = &stats.Sample{Xs: heap[t.Arr[2].Int()].f, Sorted: t.Arr[3].Int() == 1}
		} else {
			o.smp = &stats.Sample{Xs: t.Arr[1].Fs(), Sorted: t.Arr[3].Int() == 1}
			if t.Arr[2].IsArr {
				o.smp.Weights = t.Arr[2].Fs()
			}
		}
	case "fn":
		switch t.Arr[1].Atom {
		case "loess":
			o.fn = fit.LOESS(t.Arr[2].Fs(), t.Arr[3].Fs(), t.Arr[4].Int(), t.Arr[5].F())
		case "invt":
			o.fn = stats.InvCDF(stats.TDist{V: t.Arr[2].F()})
		case "invpw": // a user-defined CDF: uniform on [lo, hi]
			lo, hi := t.Arr[2].F(), t.Arr[3].F()
			o.fn = stats.InvCDF(&pwDist{x: []float64{lo, hi}, l: []float64{0, 1}, r: []float64{0, 1}})
		case "vec":
			vf := vec.Vectorize(math.Sqrt)
			o.fn = func(x float64) float64 { return vf([]float64{x, 2 * x})[1] }
		default:
			panic("fn kind")
		}
	case "g":
		o.g = graph.IntGraph(t.Arr[1].Intss())
		if len(o.g) > 0 {
			o.idom = graphalg.IDom(graph.MakeBiGraph(o.g), 0)
		}
	case "k":
		o.kde = &stats.KDE{Sample: stats.Sample{Xs: t.Arr[1].Fs()}, Kernel: stats.KDEKernel(t.Arr[2].Int()), Bandwidth: t.Arr[3].F(), BoundaryMin: t.Arr[4].F(), BoundaryMax: t.Arr[5].F()}
	case "st":
		o.st = &stats.StreamStats{}
		for _, x := range t.Arr[1].Fs() {
			o.st.Add(x)
		}
	case "lh":
		o.lh = stats.NewLinearHist(t.Arr[1].F(), t.Arr[2].F(), t.Arr[3].Int())
		for _, x := range t.Arr[4].Fs() {
			o.lh.Add(x)
		}
	case "m":
		o.mk = graphalg.NewNodeMarks()
		for _, i := range t.Arr[1].Ints() {
			o.mk.Mark(i)
		}
	case "lin":
		o.lin = &scale.Linear{Min: t.Arr[1].F(), Max: t.Arr[2].F(), Base: t.Arr[3].Int()}
	case "lg":
		l, err := scale.NewLog(t.Arr[1].F(), t.Arr[2].F(), t.Arr[3].Int())
		if err != nil {
			panic(err)
		}
		o.lg = &l
	case "ud":
		o.ud = &stats.UDist{N1: t.Arr[1].Int(), N2: t.Arr[2].Int()}
		if len(t.Arr[3].Arr) > 0 {
			o.ud.T = t.Arr[3].Ints()
		}
	default:
		panic("object kind " + k)
	}
	return o
}

// ---------- op table ----------

type opSpec struct {
	kinds   []string // kinds of the object arguments
	scalars int      // number of float scalars that follow
	mut     bool     // documented in-place operation on argument 0
	run     func(o []*obj, p []float64) []uint64
}

func f1(x float64) []uint64    { return []uint64{math.Float64bits(x)} }
func f2(a, b float64) []uint64 { return []uint64{math.Float64bits(a), math.Float64bits(b)} }

func errBits(err error) []uint64 {
	switch err {
	case nil:
		return []uint64{0}
	case stats.ErrSampleSize:
		return []uint64{1}
	case stats.ErrSamplesEqual:
		return []uint64{2}
	case stats.ErrZeroVariance:
		return []uint64{3}
	case stats.ErrMismatchedSamples:
		return []uint64{4}
	}
	return []uint64{9}
}

func strBits(s string) []uint64 {
	r := make([]uint64, len(s))
	for i := 0; i < len(s); i++ {
		r[i] = uint64(s[i])
	}
	return r
}

func alt(p float64) stats.LocationHypothesis { return stats.LocationHypothesis(int(p)) }

var opTable = map[string]opSpec{
	// stats on slices
	"Mean":     {[]string{"f"}, 0, false, func(o []*obj, p []float64) []uint64 { return f1(stats.Mean(o[0].f)) }},
	"Variance": {[]string{"f"}, 0, false, func(o []*obj, p []float64) []uint64 { return f1(stats.Variance(o[0].f)) }},
	"StdDev":   {[]string{"f"}, 0, false, func(o []*obj, p []float64) []uint64 { return f1(stats.StdDev(o[0].f)) }},
	"GeoMean":  {[]string{"f"}, 0, false, func(o []*obj, p []float64) []uint64 { return f1(stats.GeoMean(o[0].f)) }},
	"Bounds":   {[]string{"f"}, 0, false, func(o []*obj, p []float64) []uint64 { return f2(stats.Bounds(o[0].f)) }},
	"MeanCI": {[]string{"f"}, 1, false, func(o []*obj, p []float64) []uint64 {
		m, l, h := stats.MeanCI(o[0].f, p[0])
		return append(f1(m), f2(l, h)...)
	}},
	"MannWhitney": {[]string{"f", "f"}, 1, false, func(o []*obj, p []float64) []uint64 {
		r, err := stats.MannWhitneyUTest(o[0].f, o[1].f, alt(p[0]))
		if err != nil {
			return errBits(err)
		}
		return append([]uint64{uint64(r.N1), uint64(r.N2)}, f2(r.U, r.P)...)
	}},
	"PairedT": {[]string{"f", "f"}, 1, false, func(o []*obj, p []float64) []uint64 {
		r, err := stats.PairedTTest(o[0].f, o[1].f, 0.25, alt(p[0]))
		if err != nil {
			return errBits(err)
		}
		return append(f2(r.T, r.DoF), f1(r.P)...)
	}},
	"WelchT": {[]string{"s", "s"}, 1, false, func(o []*obj, p []float64) []uint64 {
		if o[0].smp.Weights != nil || o[1].smp.Weights != nil {
			return nil
		}
		r, err := stats.TwoSampleWelchTTest(*o[0].smp, *o[1].smp, alt(p[0]))
		if err != nil {
			return errBits(err)
		}
		return append(f2(r.T, r.DoF), f1(r.P)...)
	}},
	"PooledT": {[]string{"s", "s"}, 1, false, func(o []*obj, p []float64) []uint64 {
		if o[0].smp.Weights != nil || o[1].smp.Weights != nil {
			return nil
		}
		r, err := stats.TwoSampleTTest(*o[0].smp, *o[1].smp, alt(p[0]))
		if err != nil {
			return errBits(err)
		}
		return append(f2(r.T, r.DoF), f1(r.P)...)
	}},
	// Sample
	"S.Mean":    {[]string{"s"}, 0, false, func(o []*obj, p []float64) []uint64 { return f1(o[0].smp.Mean()) }},
	"S.GeoMean": {[]string{"s"}, 0, false, func(o []*obj, p []float64) []uint64 { return f1(o[0].smp.GeoMean()) }},
	"S.Sum":     {[]string{"s"}, 0, false, func(o []*obj, p []float64) []uint64 { return f1(o[0].smp.Sum()) }},
	"S.Weight":  {[]string{"s"}, 0, false, func(o []*obj, p []float64) []uint64 { return f1(o[0].smp.Weight()) }},
	"S.Bounds":  {[]string{"s"}, 0, false, func(o []*obj, p []float64) []uint64 { return f2(o[0].smp.Bounds()) }},
	"S.Variance": {[]string{"s"}, 0, false, func(o []*obj, p []float64) []uint64 {
		if o[0].smp.Weights != nil {
			return nil
		}
		return f2(o[0].smp.Variance(), o[0].smp.StdDev())
	}},
	"S.Quantile": {[]string{"s"}, 1, false, func(o []*obj, p []float64) []uint64 { return f1(o[0].smp.Quantile(p[0])) }},
	"S.IQR":      {[]string{"s"}, 0, false, func(o []*obj, p []float64) []uint64 { return f1(o[0].smp.IQR()) }},
	"S.Copy": {[]string{"s"}, 0, false, func(o []*obj, p []float64) []uint64 {
		c := o[0].smp.Copy()
		c.Sort() // working on the copy must not touch the original
		return append(fbits(c.Xs), fbits(c.Weights)...)
	}},
	"S.Sort": {[]string{"s"}, 0, true, func(o []*obj, p []float64) []uint64 { allowMutation(); o[0].smp.Sort(); return nil }},
	"SampleCI": {[]string{"s"}, 2, false, func(o []*obj, p []float64) []uint64 {
		if o[0].smp.Weights != nil || len(o[0].smp.Xs) == 0 {
			return nil
		}
		ci := stats.QuantileCI(len(o[0].smp.Xs), math.Abs(p[0])/(1+math.Abs(p[0])), p[1])
		q, l, h := ci.SampleCI(*o[0].smp)
		return append(f1(q), f2(l, h)...)
	}},
	"BandwidthScott": {[]string{"s"}, 0, false, func(o []*obj, p []float64) []uint64 {
		if o[0].smp.Weights != nil {
			return nil
		}
		return f2(stats.BandwidthScott(*o[0].smp), stats.BandwidthSilverman(*o[0].smp))
	}},
	// the same two entry points given a POINTER to the sample (their parameter is an interface that both the
	// value and the pointer satisfy; a pointer lets the callee reach the caller's object)
	"BandwidthPtr": {[]string{"s"}, 0, false, func(o []*obj, p []float64) []uint64 {
		if o[0].smp.Weights != nil {
			return nil
		}
		return f2(stats.BandwidthScott(o[0].smp), stats.BandwidthSilverman(o[0].smp))
	}},
	// KDE (Bandwidth already filled in by k.Touch in the prefix)
	"K.PDF":    {[]string{"k"}, 1, false, func(o []*obj, p []float64) []uint64 { return f1(o[0].kde.PDF(p[0])) }},
	"K.CDF":    {[]string{"k"}, 1, false, func(o []*obj, p []float64) []uint64 { return f1(o[0].kde.CDF(p[0])) }},
	"K.Bounds": {[]string{"k"}, 0, false, func(o []*obj, p []float64) []uint64 { return f2(o[0].kde.Bounds()) }},
	"K.Touch":  {[]string{"k"}, 0, true, func(o []*obj, p []float64) []uint64 { o[0].kde.PDF(0); return nil }},
	// UDist / InvCDF
	"UD.CDF": {[]string{"ud"}, 1, false, func(o []*obj, p []float64) []uint64 { return f2(o[0].ud.CDF(p[0]), o[0].ud.PMF(math.Floor(p[0]))) }},
	"UD.At": {[]string{"ud"}, 1, false, func(o []*obj, p []float64) []uint64 {
		// a point of the support chosen by the scalar: small, central and large U all occur
		d := o[0].ud
		u := math.Floor(math.Abs(p[0])/(1+math.Abs(p[0]))*float64(d.N1*d.N2)*2.2) / 2
		return f2(d.CDF(u), d.PMF(u))
	}},
	// value-type distributions and special functions (scalars select the parameters)
	"Dist.Normal": {nil, 2, false, func(o []*obj, p []float64) []uint64 {
		d := stats.NormalDist{Mu: p[0], Sigma: 0.5 + math.Abs(p[1])}
		lo, hi := d.Bounds()
		return append(append(f2(d.PDF(p[1]), d.CDF(p[1])), f2(d.InvCDF(math.Abs(p[1])/(1+math.Abs(p[1]))), d.Mean())...), f2(lo, hi)...)
	}},
	"Dist.T": {nil, 2, false, func(o []*obj, p []float64) []uint64 {
		d := stats.TDist{V: 0.5 + math.Abs(p[0])*3}
		return f2(d.PDF(p[1]), d.CDF(p[1]))
	}},
	"Dist.Binomial": {nil, 2, false, func(o []*obj, p []float64) []uint64 {
		d := stats.BinomialDist{N: 3 + int(math.Abs(p[0])*7), P: math.Abs(p[1]) / (1 + math.Abs(p[1]))}
		k := math.Floor(math.Abs(p[0]) * 3)
		return append(f2(d.PMF(k), d.CDF(k)), f2(d.Mean(), d.Variance())...)
	}},
	"Dist.Hypergeometric": {nil, 2, false, func(o []*obj, p []float64) []uint64 {
		n := 6 + int(math.Abs(p[0])*5)
		d := stats.HypergeometicDist{N: n, K: n / 2, Draws: 1 + int(math.Abs(p[1])*3)%n}
		k := math.Floor(math.Abs(p[1]) * 2)
		return append(f2(d.PMF(k), d.CDF(k)), f2(d.Mean(), d.Variance())...)
	}},
	"QuantileCI": {nil, 2, false, func(o []*obj, p []float64) []uint64 {
		ci := stats.QuantileCI(5+int(math.Abs(p[0])*11), math.Abs(p[1])/(1+math.Abs(p[1])), 0.9)
		return append([]uint64{uint64(ci.LoOrder), uint64(ci.HiOrder), bbit(ci.Ambiguous)}, f1(ci.Confidence)...)
	}},
	"mathx.Gamma": {nil, 2, false, func(o []*obj, p []float64) []uint64 {
		a, x := 0.25+math.Abs(p[0])*2, math.Abs(p[1])*3
		return append(f2(mathx.GammaInc(a, x), mathx.GammaIncComp(a, x)), f2(mathx.Beta(a, x+0.5), mathx.Lchoose(20+int(a*3), int(x)))...)
	}},
	"TTest.One": {[]string{"s"}, 1, false, func(o []*obj, p []float64) []uint64 {
		if o[0].smp.Weights != nil {
			return nil
		}
		r, err := stats.OneSampleTTest(*o[0].smp, p[0], stats.LocationDiffers)
		if err != nil {
			return errBits(err)
		}
		return append(f2(r.T, r.DoF), f1(r.P)...)
	}},
	"H.IQR": {[]string{"lh"}, 0, false, func(o []*obj, p []float64) []uint64 {
		u, c, ov := o[0].lh.Counts()
		r := []uint64{uint64(u), uint64(ov), math.Float64bits(stats.HistogramIQR(o[0].lh)), math.Float64bits(o[0].lh.BinToValue(1.5))}
		for _, v := range c {
			r = append(r, uint64(v))
		}
		return r
	}},
	"LogHist": {[]string{"f"}, 1, false, func(o []*obj, p []float64) []uint64 {
		h := stats.NewLogHist(2, 2, 64)
		for _, x := range o[0].f {
			h.Add(math.Abs(x)*4 + 0.1)
		}
		u, c, ov := h.Counts()
		r := []uint64{uint64(u), uint64(ov), math.Float64bits(stats.HistogramQuantile(h, math.Abs(p[0])/(1+math.Abs(p[0]))))}
		for _, v := range c {
			r = append(r, uint64(v))
		}
		return r
	}},
	"vec.Linspace": {nil, 2, false, func(o []*obj, p []float64) []uint64 {
		return append(fbits(vec.Linspace(p[0], p[1], 5)), fbits(vec.Logspace(p[0], p[1], 4, 2))...)
	}},
	"vec.Vectorize": {[]string{"f"}, 0, false, func(o []*obj, p []float64) []uint64 {
		return fbits(vec.Vectorize(math.Abs)(o[0].f))
	}},
	// graphs: further entry points
	"PreOrder2": {[]string{"g"}, 0, false, func(o []*obj, p []float64) []uint64 {
		return append(ibits(graphalg.PreOrder(o[0].g, len(o[0].g)-1)), ibits(graphalg.PostOrder(o[0].g, len(o[0].g)-1))...)
	}},
	"Euler": {[]string{"g"}, 0, false, func(o []*obj, p []float64) []uint64 {
		var r []uint64
		graphalg.Euler{Enter: func(n int) { r = append(r, uint64(n)) }, Exit: func(n int) { r = append(r, 1<<32|uint64(n)) }}.Visit(o[0].g, 0)
		return r
	}},
	// the caller's (shared) dominator array handed in: it is an input, read only
	"DomFrontierGiven": {[]string{"g"}, 0, false, func(o []*obj, p []float64) []uint64 {
		if o[0].idom == nil {
			return nil
		}
		var r []uint64
		for _, l := range graphalg.DomFrontier(graph.MakeBiGraph(o[0].g), 0, o[0].idom) {
			r = append(r, ibits(l)...)
			r = append(r, 1<<40)
		}
		for _, l := range graphalg.Dom(o[0].idom).Out(0) {
			r = append(r, uint64(l))
		}
		return r
	}},
	"DomFrontier": {[]string{"g"}, 0, false, func(o []*obj, p []float64) []uint64 {
		b := graph.MakeBiGraph(o[0].g)
		var r []uint64
		for _, l := range graphalg.DomFrontier(b, 0, nil) {
			r = append(append(r, ibits(l)...), 1<<40)
		}
		return r
	}},
	"Dot.Label": {[]string{"g"}, 0, false, func(o []*obj, p []float64) []uint64 {
		return strBits(graphout.Dot{Name: "g\"x", Label: func(n int) string { return fmt.Sprint("n", n, "{") }}.Sprint(o[0].g))
	}},
	// attribute callbacks hand out prefixes of the caller's own table: the rest of the table stays the caller's
	"Dot.Attrs": {[]string{"g"}, 0, false, func(o []*obj, p []float64) []uint64 {
		table := []graphout.DotAttr{{Name: "color", Val: "red"}, {Name: "shape", Val: "box"}, {Name: "style", Val: graphout.DotLiteral("bold")}, {Name: "w", Val: 3}}
		saved := append([]graphout.DotAttr(nil), table...)
		d := graphout.Dot{NodeAttrs: func(n int) []graphout.DotAttr { return table[:n%4] },
			EdgeAttrs: func(n, e int) []graphout.DotAttr { return table[1 : 1+(n+e)%3] }}
		out := strBits(d.Sprint(o[0].g))
		for i := range table {
			if table[i] != saved[i] {
				panic("the library wrote past its contract: it changed an attribute list returned by the caller's callback")
			}
		}
		return out
	}},
	"SubgraphKeep": {[]string{"g"}, 0, false, func(o []*obj, p []float64) []uint64 {
		s := graph.SubgraphKeep(o[0].g, []int{0, len(o[0].g) - 1}, nil)
		var r []uint64
		for v := 0; v < s.NumNodes(); v++ {
			r = append(append(r, ibits(s.Out(v))...), 1<<40)
		}
		return r
	}},
	"UD.Inv": {[]string{"ud"}, 1, false, func(o []*obj, p []float64) []uint64 {
		return f1(stats.InvCDF(*o[0].ud)(math.Abs(p[0]) / (1 + math.Abs(p[0]))))
	}},
	// StreamStats / hist
	"St.Read": {[]string{"st"}, 0, false, func(o []*obj, p []float64) []uint64 { return o[0].snapshot() }},
	"St.Add":  {[]string{"st"}, 1, true, func(o []*obj, p []float64) []uint64 { o[0].st.Add(p[0]); return nil }},
	"St.Combine": {[]string{"st", "st"}, 0, true, func(o []*obj, p []float64) []uint64 {
		if o[0] != o[1] {
			o[0].st.Combine(o[1].st)
		}
		return nil
	}},
	"H.Quantile": {[]string{"lh"}, 1, false, func(o []*obj, p []float64) []uint64 {
		q := math.Abs(p[0]) / (1 + math.Abs(p[0]))
		return f2(stats.HistogramQuantile(o[0].lh, q), stats.HistogramIQR(o[0].lh))
	}},
	"H.Add": {[]string{"lh"}, 1, true, func(o []*obj, p []float64) []uint64 { o[0].lh.Add(p[0]); return nil }},
	// vec
	"vec.Sum":    {[]string{"f"}, 0, false, func(o []*obj, p []float64) []uint64 { return f1(vec.Sum(o[0].f)) }},
	"vec.Map":    {[]string{"f"}, 0, false, func(o []*obj, p []float64) []uint64 { return fbits(vec.Map(math.Sqrt, o[0].f)) }},
	"vec.Concat": {[]string{"f", "f"}, 0, false, func(o []*obj, p []float64) []uint64 { return fbits(vec.Concat(o[0].f, o[1].f)) }},
	// fit
	"PolyReg": {[]string{"f", "f"}, 0, false, func(o []*obj, p []float64) []uint64 {
		n := len(o[0].f)
		if len(o[1].f) < n {
			n = len(o[1].f)
		}
		if n < 4 {
			return nil
		}
		r := fit.PolynomialRegression(o[0].f[:n], o[1].f[:n], nil, 2)
		return append(fbits(r.Coefficients), f1(r.F(0.5))...)
	}},
	"PolyRegW": {[]string{"f", "f", "w"}, 0, false, func(o []*obj, p []float64) []uint64 {
		// weighted fit; the weight object is passed as it is (ordinary, huge or tiny positive weights)
		n := len(o[0].f)
		for _, q := range o[1:] {
			if len(q.f) < n {
				n = len(q.f)
			}
		}
		if n < 4 {
			return nil
		}
		r := fit.PolynomialRegression(o[0].f[:n], o[1].f[:n], o[2].f[:n], 1)
		return fbits(r.Coefficients)
	}},
	// a function obtained from the library earlier, shared by every caller (one closure, many goroutines)
	"Fn.Call": {[]string{"fn"}, 1, false, func(o []*obj, p []float64) []uint64 {
		x := p[0]
		return append(f1(o[0].fn(x)), f1(o[0].fn(math.Abs(x)/(1+math.Abs(x))))...)
	}},
	"LOESS": {[]string{"f", "f"}, 1, false, func(o []*obj, p []float64) []uint64 {
		n := len(o[0].f)
		if len(o[1].f) < n {
			n = len(o[1].f)
		}
		if n < 6 {
			return nil
		}
		return f1(fit.LOESS(o[0].f[:n], o[1].f[:n], 1, 0.8)(p[0]))
	}},
	// graphs
	"PreOrder":  {[]string{"g"}, 0, false, func(o []*obj, p []float64) []uint64 { return ibits(graphalg.PreOrder(o[0].g, 0)) }},
	"PostOrder": {[]string{"g"}, 0, false, func(o []*obj, p []float64) []uint64 { return ibits(graphalg.PostOrder(o[0].g, 0)) }},
	"SCC": {[]string{"g"}, 0, false, func(o []*obj, p []float64) []uint64 {
		s := graphalg.SCC(o[0].g, graphalg.SCCEdges)
		var r []uint64
		for c := 0; c < s.NumNodes(); c++ {
			r = append(r, ibits(s.Subnodes(c))...)
			r = append(r, 1<<40)
			r = append(r, ibits(s.Out(c))...)
		}
		return r
	}},
	"IDom": {[]string{"g"}, 0, false, func(o []*obj, p []float64) []uint64 {
		b := graph.MakeBiGraph(o[0].g)
		id := graphalg.IDom(b, 0)
		r := ibits(id)
		for _, l := range graphalg.DomFrontier(b, 0, id) {
			r = append(r, ibits(l)...)
			r = append(r, 1<<40)
		}
		return r
	}},
	"Equal": {[]string{"g", "g"}, 0, false, func(o []*obj, p []float64) []uint64 { return []uint64{bbit(graph.Equal(o[0].g, o[1].g))} }},
	"SubgraphRemove": {[]string{"g"}, 0, false, func(o []*obj, p []float64) []uint64 {
		s := graph.SubgraphRemove(o[0].g, []int{0}, []graph.Edge{{Node: len(o[0].g) - 1, Edge: 0}})
		var r []uint64
		for v := 0; v < s.NumNodes(); v++ {
			r = append(r, ibits(s.Out(v))...)
			r = append(r, 1<<40)
		}
		return r
	}},
	"SimplifyMulti": {[]string{"g"}, 0, false, func(o []*obj, p []float64) []uint64 {
		s := graphalg.SimplifyMulti(o[0].g)
		var r []uint64
		for v := 0; v < s.NumNodes(); v++ {
			r = append(r, ibits(s.Out(v))...)
			r = append(r, 1<<40)
		}
		return r
	}},
	"Dot":     {[]string{"g"}, 0, false, func(o []*obj, p []float64) []uint64 { return strBits(graphout.Dot{}.Sprint(o[0].g)) }},
	"Reverse": {[]string{"i"}, 0, true, func(o []*obj, p []float64) []uint64 { allowMutation(); graphalg.Reverse(o[0].ints); return nil }},
	"Dom": {[]string{"i"}, 0, false, func(o []*obj, p []float64) []uint64 {
		// parent array with entries in [-1, n)
		id := make([]int, len(o[0].ints))
		for i, v := range o[0].ints {
			id[i] = v%(len(id)+1) - 1
			if id[i] >= i {
				id[i] = -1
			}
		}
		t := graphalg.Dom(id)
		var r []uint64
		for v := 0; v < t.NumNodes(); v++ {
			r = append(r, ibits(t.Out(v))...)
			r = append(r, 1<<40)
		}
		return r
	}},
	"M.Test": {[]string{"m"}, 1, false, func(o []*obj, p []float64) []uint64 {
		i := int(math.Abs(p[0]) * 37)
		return []uint64{bbit(o[0].mk.Test(i)), uint64(o[0].mk.Next(i))}
	}},
	"M.Mark":   {[]string{"m"}, 1, true, func(o []*obj, p []float64) []uint64 { o[0].mk.Mark(int(math.Abs(p[0]) * 37)); return nil }},
	"M.Unmark": {[]string{"m"}, 1, true, func(o []*obj, p []float64) []uint64 { o[0].mk.Unmark(int(math.Abs(p[0]) * 37)); return nil }},
	// scales
	"Lin.Map": {[]string{"lin"}, 1, false, func(o []*obj, p []float64) []uint64 { return f2(o[0].lin.Map(p[0]), o[0].lin.Unmap(p[0])) }},
	"Lin.Ticks": {[]string{"lin"}, 0, false, func(o []*obj, p []float64) []uint64 {
		a, b := o[0].lin.Ticks(scale.TickOptions{Max: 6})
		return append(fbits(a), fbits(b)...)
	}},
	"Lin.Nice":     {[]string{"lin"}, 0, true, func(o []*obj, p []float64) []uint64 { o[0].lin.Nice(scale.TickOptions{Max: 6}); return nil }},
	"Lin.SetClamp": {[]string{"lin"}, 1, true, func(o []*obj, p []float64) []uint64 { o[0].lin.SetClamp(p[0] > 0); return nil }},
	"Log.Map":      {[]string{"lg"}, 1, false, func(o []*obj, p []float64) []uint64 { return f2(o[0].lg.Map(math.Abs(p[0])+0.1), o[0].lg.Unmap(p[0])) }},
	"Log.Ticks": {[]string{"lg"}, 0, false, func(o []*obj, p []float64) []uint64 {
		a, b := o[0].lg.Ticks(scale.TickOptions{Max: 5})
		return append(fbits(a), fbits(b)...)
	}},
	"Log.Nice": {[]string{"lg"}, 0, true, func(o []*obj, p []float64) []uint64 { o[0].lg.Nice(scale.TickOptions{Max: 5}); return nil }},
	// mathx (no object arguments)
	"BetaInc": {nil, 3, false, func(o []*obj, p []float64) []uint64 {
		return f1(mathx.BetaInc(math.Abs(p[0])/(1+math.Abs(p[0])), 0.5+math.Abs(p[1]), 0.5+math.Abs(p[2])))
	}},
	"Choose": {nil, 2, false, func(o []*obj, p []float64) []uint64 {
		return f1(mathx.Choose(int(math.Abs(p[0])*30), int(math.Abs(p[1])*10)))
	}},
}

func opNames() []string {
	var ns []string
	for n := range opTable {
		ns = append(ns, n)
	}
	sort.Strings(ns)
	return ns
}

type call struct {
	name string
	objs []*obj
	ids  []int
	p    []float64
}

func parseCall(t Tok, heap []*obj) call {
	name := t.Arr[0].Atom
	spec, ok := opTable[name]
	if !ok {
		panic("unknown op " + name)
	}
	c := call{name: name}
	for i := range spec.kinds {
		id := t.Arr[1+i].Int()
		c.ids = append(c.ids, id)
		c.objs = append(c.objs, heap[id])
	}
	for i := 0; i < spec.scalars; i++ {
		c.p = append(c.p, t.Arr[1+len(spec.kinds)+i].F())
	}
	return c
}

// runOp runs one call; a panic is re-raised with the operation's name.
func runOp(c call) []uint64 {
	defer func() {
		if r := recover(); r != nil {
			panic(fmt.Sprintf("%s%v: %v", c.name, c.ids, r))
		}
	}()
	return opTable[c.name].run(c.objs, c.p)
}

func changedSet(heap []*obj, before [][]uint64) []int {
	var ch []int
	for i, o := range heap {
		if !eqBits(o.snapshot(), before[i]) {
			ch = append(ch, i)
		}
	}
	return ch
}

func snapAll(heap []*obj) [][]uint64 {
	s := make([][]uint64, len(heap))
	for i, o := range heap {
		s[i] = o.snapshot()
	}
	return s
}

var caseCounter int

// pure [objs] [prefix ops] [block ops]
func execPure(a []Tok) string {
	caseCounter++
	if os.Getenv("VERIF_CASE_MARKERS") == "1" {
		fmt.Fprintf(os.Stderr, "CASE %d\n", caseCounter)
	}
	var heap []*obj
	for _, t := range a[0].Arr {
		heap = append(heap, buildObj(t, heap))
	}
	// prefix: any ops, frame observed per op
	var pre []string
	for _, t := range a[1].Arr {
		c := parseCall(t, heap)
		before := snapAll(heap)
		runOp(c)
		pre = append(pre, fmtInts(changedSet(heap, before)))
	}
	// block: non-mutating ops only
	var block []call
	for _, t := range a[2].Arr {
		block = append(block, parseCall(t, heap))
	}
	n := len(block)
	first := make([][]uint64, n)
	changed := make([][]int, n)
	for i, c := range block {
		before := snapAll(heap)
		first[i] = runOp(c)
		changed[i] = changedSet(heap, before)
	}
	// repeat in another order, after the other calls
	rep := make([]bool, n)
	perm := rand.Perm(n)
	for _, i := range perm {
		c := block[i]
		rep[i] = eqBits(runOp(c), first[i])
	}
	// concurrently from 16 goroutines on the shared objects
	conc := make([]bool, n)
	for i := range conc {
		conc[i] = true
	}
	var mu sync.Mutex
	var wg sync.WaitGroup
	for gi := 0; gi < 16; gi++ {
		wg.Add(1)
		go func(seed int64) {
			defer wg.Done()
			defer func() {
				if r := recover(); r != nil {
					mu.Lock()
					for i := range conc {
						conc[i] = false
					}
					mu.Unlock()
				}
			}()
			r := rand.New(rand.NewSource(seed))
			for _, i := range r.Perm(n) {
				c := block[i]
				if !eqBits(runOp(c), first[i]) {
					mu.Lock()
					conc[i] = false
					mu.Unlock()
				}
			}
		}(int64(gi) + 1)
	}
	wg.Wait()
	var bl []string
	for i := range block {
		bl = append(bl, fmt.Sprintf("[%s,%s,%s]", fmtInts(changed[i]), fmtB(rep[i]), fmtB(conc[i])))
	}
	return "[" + strings.Join(pre, ",") + "] [" + strings.Join(bl, ",") + "]"
}

// ---------- generator ----------

func tiedUnsorted(rng *rand.Rand, n int, positive bool) []float64 {
	xs := make([]float64, n)
	for i := range xs {
		xs[i] = float64(rng.Intn(9)-4) / 2 // few distinct values: many ties
		if positive {
			xs[i] = float64(1+rng.Intn(8)) / 2
		}
		if rng.Intn(3) == 0 {
			xs[i] += float64(rng.Intn(100)) / 64
		}
	}
	return xs
}

func genC20(w *bufio.Writer, tier string, rng *rand.Rand) {
	names := opNames()
	nprog := pick(tier, 400, 8000)
	for k := 0; k < nprog; k++ {
		var objs []string
		kinds := []string{}
		add := func(kind, s string) { kinds = append(kinds, kind); objs = append(objs, s) }
		// a fixed palette of objects so that every op has candidates
		positive := rng.Intn(2) == 0
		for i := 0; i < 3; i++ {
			xs := tiedUnsorted(rng, 6+rng.Intn(20), positive)
			if i == 0 && rng.Intn(2) == 0 { // already ascending, with ties
				sort.Float64s(xs)
			}
			if i == 1 && rng.Intn(2) == 0 { // ascending except for the last (or the first) value
				sort.Float64s(xs)
				if rng.Intn(2) == 0 {
					xs[len(xs)-1] = xs[0] - 0.5
				} else {
					xs[0] = xs[len(xs)-1] + 0.5
				}
			}
			add("f", fmt.Sprintf("[f,%s]", fmtFs(xs)))
		}
		{ // positive weights: ordinary, huge or tiny
			ws := make([]float64, 26)
			sc := []float64{1, 1, 1e120, 1e-120, 1e200, 1e-200, 1e101, 1e-101}[rng.Intn(8)]
			for i := range ws {
				ws[i] = float64(1+rng.Intn(8)) / 4 * sc
			}
			add("w", fmt.Sprintf("[w,%s]", fmtFs(ws)))
		}
		add("s", fmt.Sprintf("[s,%s,-,0]", fmtFs(tiedUnsorted(rng, 5+rng.Intn(20), positive))))
		wsn := 5 + rng.Intn(12)
		wts := make([]float64, wsn)
		for i := range wts {
			wts[i] = float64(1 + rng.Intn(5))
		}
		add("s", fmt.Sprintf("[s,%s,%s,0]", fmtFs(tiedUnsorted(rng, wsn, positive)), fmtFs(wts)))
		add("s", fmt.Sprintf("[s,alias,%d,0]", rng.Intn(3))) // shares storage with a slice object
		{                                                    // ascending, weighted (zeros among the weights), marked Sorted: queries work on the caller's own slices
			xs := tiedUnsorted(rng, wsn, positive)
			sort.Float64s(xs)
			w2 := make([]float64, wsn)
			for i := range w2 {
				w2[i] = float64(rng.Intn(4))
			}
			w2[rng.Intn(wsn)] = 2
			add("s", fmt.Sprintf("[s,%s,%s,1]", fmtFs(xs), fmtFs(w2)))
		}
		n := 3 + rng.Intn(8)
		g := randGraph(rng, n, 1.5, true, true)
		if len(g[n-1]) == 0 {
			g[n-1] = []int{0}
		}
		add("g", fmt.Sprintf("[g,%s]", fmtIntss(g)))
		add("g", fmt.Sprintf("[g,%s]", fmtIntss(randGraph(rng, n, 1.5, true, true))))
		if rng.Intn(4) == 0 { // a graph with more nodes than any fixed-size scratch structure holds by default
			big := 1025 + rng.Intn(1200)
			bg := make([][]int, big)
			for v := 0; v+1 < big; v++ {
				bg[v] = []int{v + 1}
				if rng.Intn(50) == 0 {
					bg[v] = append(bg[v], rng.Intn(big))
				}
			}
			bg[big-1] = []int{0}
			add("g", fmt.Sprintf("[g,%s]", fmtIntss(bg)))
		}
		bw := []float64{0, 0.5, 1.25}[rng.Intn(3)]
		bmin, bmax := 0.0, 0.0
		if rng.Intn(2) == 0 {
			bmin, bmax = -6, 8
		}
		add("k", fmt.Sprintf("[k,%s,%d,%s,%s,%s]", fmtFs(tiedUnsorted(rng, 5+rng.Intn(10), false)), rng.Intn(3), fmtF(bw), fmtF(bmin), fmtF(bmax)))
		add("st", fmt.Sprintf("[st,%s]", fmtFs(tiedUnsorted(rng, rng.Intn(6), false))))
		add("st", fmt.Sprintf("[st,%s]", fmtFs(tiedUnsorted(rng, rng.Intn(6), false))))
		add("lh", fmt.Sprintf("[lh,%s,%s,%d,%s]", fmtF(-3), fmtF(5), 8, fmtFs(tiedUnsorted(rng, 3+rng.Intn(10), false))))
		add("m", fmt.Sprintf("[m,%s]", fmtInts([]int{1, 5, 33, 70 + rng.Intn(2000)})))
		add("lin", fmt.Sprintf("[lin,%s,%s,%d]", fmtF(float64(rng.Intn(10))/4), fmtF(3+float64(rng.Intn(40))/4), []int{0, 2, 10}[rng.Intn(3)]))
		add("lg", fmt.Sprintf("[lg,%s,%s,10]", fmtF(0.5+float64(rng.Intn(10))), fmtF(50+float64(rng.Intn(5000)))))
		add("i", fmt.Sprintf("[i,%s]", fmtInts(rng.Perm(4+rng.Intn(6)))))
		{ // derived functions
			nn := 12 + rng.Intn(30)
			lx, ly := make([]float64, nn), make([]float64, nn)
			for i := range lx {
				lx[i] = float64(i)/4 + float64(rng.Intn(3))/16
				ly[i] = math.Round(math.Sin(lx[i])*64)/64 + float64(rng.Intn(5))/8
			}
			add("fn", fmt.Sprintf("[fn,loess,%s,%s,%d,%s]", fmtFs(lx), fmtFs(ly), 1+rng.Intn(2), fmtF([]float64{0.5, 0.75, 0.3}[rng.Intn(3)])))
			add("fn", fmt.Sprintf("[fn,invt,%s]", fmtF(float64(1+rng.Intn(12)))))
			add("fn", fmt.Sprintf("[fn,invpw,%s,%s]", fmtF(float64(rng.Intn(10))), fmtF(float64(20+rng.Intn(100)))))
			add("fn", "[fn,vec]")
		}
		add("ud", fmt.Sprintf("[ud,%d,%d,%s]", 3, 4, []string{"[]", "[2,4,1]", "[1,1,1,1,1,1,1]"}[rng.Intn(3)]))
		// distributions that share one sample size and differ in the other, both orders, one tied
		um, ua := 2+rng.Intn(4), 5+rng.Intn(7)
		add("ud", fmt.Sprintf("[ud,%d,%d,[]]", um, ua))
		add("ud", fmt.Sprintf("[ud,%d,%d,[]]", um, ua+1+rng.Intn(4)))
		add("ud", fmt.Sprintf("[ud,%d,%d,[]]", ua+rng.Intn(3), um))
		add("ud", fmt.Sprintf("[ud,%d,%d,%s]", um, ua, fmtInts(append([]int{2, um + ua - 3}, 1))))
		if rng.Intn(3) == 0 { // large tie groups at the low ranks, several ranks (binomial coefficients beyond the exact table)
			t := []int{21 + rng.Intn(6), 2 + rng.Intn(6), 2, 1 + rng.Intn(3), 1 + rng.Intn(6), 1, 2}
			if rng.Intn(2) == 0 {
				t[0], t[1] = t[1], t[0]
			}
			tot := 0
			for _, x := range t {
				tot += x
			}
			n1 := tot/2 - rng.Intn(3)
			add("ud", fmt.Sprintf("[ud,%d,%d,%s]", n1, tot-n1, fmtInts(t)))
		}
		if rng.Intn(6) == 0 { // a long slice (thousands of values): chunked / parallel code paths
			xs := tiedUnsorted(rng, 8190+rng.Intn(12), false)
			add("f", fmt.Sprintf("[f,%s]", fmtFs(xs)))
		}

		pickObj := func(kind string) int {
			var c []int
			for i, kk := range kinds {
				if kk == kind {
					c = append(c, i)
				}
			}
			return c[rng.Intn(len(c))]
		}
		mkCall := func(name string) string {
			spec := opTable[name]
			parts := []string{name}
			for _, kk := range spec.kinds {
				parts = append(parts, fmt.Sprint(pickObj(kk)))
			}
			for i := 0; i < spec.scalars; i++ {
				v := []float64{0, 1, -1, 0.25, 0.5, 0.75, 0.95, 2.5, -3.5, 0.05, 0.1, 0.15, 0.4, 6, 19}[rng.Intn(15)]
				parts = append(parts, fmtF(v))
			}
			return "[" + strings.Join(parts, ",") + "]"
		}
		// each program dwells on a few operations (half of its calls): the same entry point is
		// called again and again with different objects and scalars
		focus := make([]string, 4)
		for i := range focus {
			focus[i] = names[rng.Intn(len(names))]
		}
		if rng.Intn(3) == 0 {
			focus = []string{"UD.At", "UD.CDF", "MannWhitney", "UD.At"}
		} else if rng.Intn(4) == 0 {
			focus = []string{"Fn.Call", "Fn.Call", "LOESS", "K.CDF"}
		}
		pickName := func() string {
			if rng.Intn(2) == 0 {
				return focus[rng.Intn(len(focus))]
			}
			return names[rng.Intn(len(names))]
		}
		// prefix: a mix incl. the documented mutators; every KDE is touched (lazy bandwidth)
		var pre []string
		for i, kk := range kinds {
			if kk == "k" {
				pre = append(pre, fmt.Sprintf("[K.Touch,%d]", i))
			}
		}
		for i := 0; i < 4+rng.Intn(10); i++ {
			pre = append(pre, mkCall(pickName()))
		}
		// block: non-mutating ops only
		var block []string
		for len(block) < 12+rng.Intn(28) {
			nm := pickName()
			if opTable[nm].mut {
				continue
			}
			block = append(block, mkCall(nm))
		}
		fmt.Fprintf(w, "pure [%s] [%s] [%s]\n", strings.Join(objs, ","), strings.Join(pre, ","), strings.Join(block, ","))
	}
}
