module mmverif

go 1.22

require github.com/aclements/go-moremath v0.0.0

require gonum.org/v1/gonum v0.15.1 // indirect

replace github.com/aclements/go-moremath => /repo
