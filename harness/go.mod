module mmverif

go 1.22

require github.com/aclements/go-moremath v0.0.0

replace github.com/aclements/go-moremath => /repo
