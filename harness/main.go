// mmverif: correspondence harness. It links the real go-moremath packages
// from /repo, generates inputs from one seeded PRNG, runs the real API and
// writes one case per line for the Lean driver:
//
//	<op> <inputs...> => <what the real code returned>
//
// Sub-commands:
//
//	gen  <prop> <tier> <seed>   print input lines only
//	exec                        read input lines on stdin, run the real code, print "line => outputs"
//	run  <prop> <tier> <seed>   gen | exec in one process
package main

import (
	"bufio"
	"fmt"
	"math"
	"math/rand"
	"os"
	"sort"
	"strconv"
	"strings"
	"sync"
	"time"
)

// ---------- tokens ----------

type Tok struct {
	Atom  string
	Arr   []Tok
	IsArr bool
}

func parseTok(s string, i int) (Tok, int, bool) {
	if i < len(s) && s[i] == '[' {
		i++
		var arr []Tok
		for {
			if i >= len(s) {
				return Tok{}, i, false
			}
			if s[i] == ']' {
				return Tok{Arr: arr, IsArr: true}, i + 1, true
			}
			if s[i] == ',' {
				i++
				continue
			}
			t, j, ok := parseTok(s, i)
			if !ok {
				return Tok{}, j, false
			}
			arr = append(arr, t)
			i = j
		}
	}
	j := i
	for j < len(s) && s[j] != ',' && s[j] != ']' && s[j] != ' ' && s[j] != '[' {
		j++
	}
	if j == i {
		return Tok{}, i, false
	}
	return Tok{Atom: s[i:j]}, j, true
}

func parseLine(s string) ([]Tok, bool) {
	var out []Tok
	i := 0
	for i < len(s) {
		if s[i] == ' ' || s[i] == '\n' || s[i] == '\r' {
			i++
			continue
		}
		t, j, ok := parseTok(s, i)
		if !ok {
			return nil, false
		}
		out = append(out, t)
		i = j
	}
	return out, true
}

func (t Tok) Int() int {
	v, err := strconv.Atoi(t.Atom)
	if err != nil {
		panic("harness: bad int " + t.Atom)
	}
	return v
}

func (t Tok) F() float64 { return parseF(t.Atom) }

// Every slice handed to the library is a view with spare capacity whose cells beyond len hold a
// sentinel: a callee that appends to (or otherwise writes past the end of) a caller's slice
// clobbers them. The cells are checked after every operation (see guardsIntact).
const guardCells = 6

var (
	guardMu   sync.Mutex
	fGuards   [][]float64 // full-capacity views
	iGuards   [][]int
	fSentinel = math.Float64frombits(0x7ff8dead0000beef)
)

const iSentinel = -0x5eed5eed

func (t Tok) Fs() []float64 {
	n := len(t.Arr)
	buf := make([]float64, n+guardCells)
	for i, e := range t.Arr {
		buf[i] = e.F()
	}
	for i := n; i < len(buf); i++ {
		buf[i] = fSentinel
	}
	guardMu.Lock()
	fGuards = append(fGuards, buf)
	guardMu.Unlock()
	return buf[:n]
}

func (t Tok) Ints() []int {
	n := len(t.Arr)
	buf := make([]int, n+guardCells)
	for i, e := range t.Arr {
		buf[i] = e.Int()
	}
	for i := n; i < len(buf); i++ {
		buf[i] = iSentinel
	}
	guardMu.Lock()
	iGuards = append(iGuards, buf)
	guardMu.Unlock()
	return buf[:n]
}

func resetGuards() {
	guardMu.Lock()
	fGuards, iGuards = fGuards[:0], iGuards[:0]
	guardMu.Unlock()
}

func guardsIntact() bool {
	guardMu.Lock()
	defer guardMu.Unlock()
	for _, b := range fGuards {
		for _, x := range b[len(b)-guardCells:] {
			if math.Float64bits(x) != math.Float64bits(fSentinel) {
				return false
			}
		}
	}
	for _, b := range iGuards {
		for _, x := range b[len(b)-guardCells:] {
			if x != iSentinel {
				return false
			}
		}
	}
	return true
}

// sameTok reports whether two tokens are textually identical (used to pass ONE object for two
// parameters when a case names the same thing twice).
func sameTok(a, b Tok) bool {
	if a.IsArr != b.IsArr || a.Atom != b.Atom || len(a.Arr) != len(b.Arr) {
		return false
	}
	for i := range a.Arr {
		if !sameTok(a.Arr[i], b.Arr[i]) {
			return false
		}
	}
	return true
}

func (t Tok) Intss() [][]int {
	out := make([][]int, len(t.Arr))
	for i, e := range t.Arr {
		out[i] = e.Ints()
	}
	return out
}

// ---------- exact float encoding ----------

func fmtF(x float64) string {
	switch {
	case math.IsNaN(x):
		return "nan"
	case math.IsInf(x, 1):
		return "+inf"
	case math.IsInf(x, -1):
		return "-inf"
	}
	return strconv.FormatFloat(x, 'b', -1, 64)
}

func parseF(s string) float64 {
	switch s {
	case "nan":
		return math.NaN()
	case "+inf":
		return math.Inf(1)
	case "-inf":
		return math.Inf(-1)
	}
	k := strings.IndexByte(s, 'p')
	if k < 0 {
		panic("harness: bad float " + s)
	}
	m, err1 := strconv.ParseInt(s[:k], 10, 64)
	e, err2 := strconv.Atoi(s[k+1:])
	if err1 != nil || err2 != nil {
		panic("harness: bad float " + s)
	}
	return math.Ldexp(float64(m), e)
}

func fmtFs(xs []float64) string {
	parts := make([]string, len(xs))
	for i, x := range xs {
		parts[i] = fmtF(x)
	}
	return "[" + strings.Join(parts, ",") + "]"
}

func fmtInts(xs []int) string {
	parts := make([]string, len(xs))
	for i, x := range xs {
		parts[i] = strconv.Itoa(x)
	}
	return "[" + strings.Join(parts, ",") + "]"
}

func fmtIntss(xs [][]int) string {
	parts := make([]string, len(xs))
	for i, x := range xs {
		parts[i] = fmtInts(x)
	}
	return "[" + strings.Join(parts, ",") + "]"
}

func fmtB(b bool) string {
	if b {
		return "1"
	}
	return "0"
}

// ---------- registry ----------

// An execFn runs the real code on the parsed inputs (args excludes the op
// name) and returns the output tokens as one string.
type execFn func(args []Tok) string

var execs = map[string]execFn{}

// A genFn prints input lines for one property.
type genFn func(w *bufio.Writer, tier string, rng *rand.Rand)

var gens = map[string]genFn{}

func sanitize(s string) string {
	r := strings.NewReplacer(" ", "_", "[", "(", "]", ")", ",", ";", "\n", "_", "\t", "_", "=>", "->")
	s = r.Replace(s)
	if len(s) > 120 {
		s = s[:120]
	}
	return s
}

var opTimeout = 60 * time.Second

func execLine(line string) (out string) {
	toks, ok := parseLine(line)
	if !ok || len(toks) == 0 || toks[0].IsArr {
		return "harness-parse-error"
	}
	fn, ok := execs[toks[0].Atom]
	if !ok {
		return "harness-unknown-op"
	}
	type res struct{ s string }
	ch := make(chan res, 1)
	go func() {
		defer func() {
			if r := recover(); r != nil {
				ch <- res{"panic:" + sanitize(fmt.Sprint(r))}
			}
		}()
		resetGuards()
		out := fn(toks[1:])
		if !guardsIntact() {
			out = "panic:" + sanitize("the library wrote past the end of a slice passed to it (into the caller's spare capacity)")
		}
		ch <- res{out}
	}()
	select {
	case r := <-ch:
		return r.s
	case <-time.After(opTimeout):
		return "timeout"
	}
}

func main() {
	if len(os.Args) < 2 {
		fmt.Fprintln(os.Stderr, "usage: mmverif gen|exec|run ...")
		os.Exit(2)
	}
	w := bufio.NewWriterSize(os.Stdout, 1<<20)
	defer w.Flush()
	switch os.Args[1] {
	case "exec":
		sc := bufio.NewScanner(os.Stdin)
		sc.Buffer(make([]byte, 1<<20), 1<<28)
		for sc.Scan() {
			line := strings.TrimSpace(sc.Text())
			if line == "" || line[0] == '#' {
				continue
			}
			if k := strings.Index(line, " =>"); k >= 0 {
				line = line[:k]
			}
			out := execLine(line)
			fmt.Fprintf(w, "%s => %s\n", line, out)
			if out == "timeout" {
				w.Flush()
				os.Exit(3)
			}
		}
	case "gen", "run":
		if len(os.Args) < 5 {
			fmt.Fprintln(os.Stderr, "usage: mmverif gen|run <prop> <tier> <seed>")
			os.Exit(2)
		}
		prop, tier := os.Args[2], os.Args[3]
		seed, _ := strconv.ParseInt(os.Args[4], 10, 64)
		g, ok := gens[prop]
		if !ok {
			fmt.Fprintln(os.Stderr, "no generator for", prop)
			os.Exit(2)
		}
		rng := rand.New(rand.NewSource(seed))
		if os.Args[1] == "gen" {
			g(w, tier, rng)
			return
		}
		// run: generate into a pipe of lines, exec each.
		pr, pw, _ := os.Pipe()
		go func() {
			gw := bufio.NewWriterSize(pw, 1<<20)
			g(gw, tier, rng)
			gw.Flush()
			pw.Close()
		}()
		sc := bufio.NewScanner(pr)
		sc.Buffer(make([]byte, 1<<20), 1<<28)
		for sc.Scan() {
			line := sc.Text()
			out := execLine(line)
			fmt.Fprintf(w, "%s => %s\n", line, out)
			if out == "timeout" {
				w.Flush()
				os.Exit(3)
			}
		}
	case "props":
		var ps []string
		for p := range gens {
			ps = append(ps, p)
		}
		sort.Strings(ps)
		fmt.Fprintln(w, strings.Join(ps, " "))
	default:
		fmt.Fprintln(os.Stderr, "unknown sub-command")
		os.Exit(2)
	}
}

// ---------- generator helpers ----------

func isThorough(tier string) bool { return tier == "thorough" }

// pick returns a for quick, b for thorough.
func pick(tier string, a, b int) int {
	if isThorough(tier) {
		return b
	}
	return a
}

// randFloat returns a "moderate" float: centre + spread*N(0,1) snapped to a
// coarse dyadic grid (so ties and exact arithmetic happen often).
func randGridFloat(rng *rand.Rand, centre, spread float64, gridBits int) float64 {
	g := math.Ldexp(spread, -gridBits)
	if g == 0 {
		return centre
	}
	return centre + math.Round(rng.NormFloat64()*spread/g)*g
}
