// mmverif: correspondence harness. It links the real go-moremath packages
// from /repo, generates inputs from one seeded PRNG, runs the real API and
// writes one case per line for the Lean driver:
//
//	<op> <inputs...> => <what the real code returned>
//
// Sub-commands:
//
//	gen  <prop> <tier> <seed>   print input lines only
//	exec                        read input lines on stdin, run the real code, print "line => outputs"
//	run  <prop> <tier> <seed>   gen | exec in one process
package main

import (
	"bufio"
	"fmt"
	"math"
	"math/rand"
	"os"
	"sort"
	"strconv"
	"strings"
	"sync"
	"time"
)

// ---------- tokens ----------

type Tok struct {
	Atom  string
	Arr   []Tok
	IsArr bool
}

func parseTok(s string, i int) (Tok, int, bool) {
	if i < len(s) && s[i] == '[' {
		i++
		var arr []Tok
		for {
			if i >= len(s) {
				return Tok{}, i, false
			}
			if s[i] == ']' {
				return Tok{Arr: arr, IsArr: true}, i + 1, true
			}
			if s[i] == ',' {
				i++
				continue
			}
			t, j, ok := parseTok(s, i)
			if !ok {
				return Tok{}, j, false
			}
			arr = append(arr, t)
			i = j
		}
	}
	j := i
	for j < len(s) && s[j] != ',' && s[j] != ']' && s[j] != ' ' && s[j] != '[' {
		j++
	}
	if j == i {
		return Tok{}, i, false
	}
	return Tok{Atom: s[i:j]}, j, true
}

func parseLine(s string) ([]Tok, bool) {
	var out []Tok
	i := 0
	for i < len(s) {
		if s[i] == ' ' || s[i] == '\n' || s[i] == '\r' {
			i++
			continue
		}
		t, j, ok := parseTok(s, i)
		if !ok {
			return nil, false
		}
		out = append(out, t)
		i = j
	}
	return out, true
}

func (t Tok) Int() int {
	v, err := strconv.Atoi(t.Atom)
	if err != nil {
		panic("harness: bad int " + t.Atom)
	}
	return v
}

func (t Tok) F() float64 { return parseF(t.Atom) }

// Every slice handed to the library is a view with spare capacity whose cells beyond len hold a
// sentinel: a callee that appends to (or otherwise writes past the end of) a caller's slice
// clobbers them. The cells are checked after every operation (see guardsIntact).
const guardCells = 6

var (
	guardMu   sync.Mutex
	fGuards   [][]float64 // full-capacity views
	iGuards   [][]int
	fOrig     [][]float64 // the contents handed over, to see whether the library changed them
	iOrig     [][]int
	mutOK     bool // set by an op whose API documents in-place modification (Sample.Sort, ...)
	fSentinel = math.Float64frombits(0x7ff8dead0000beef)
)

const iSentinel = -0x5eed5eed

func (t Tok) Fs() []float64 {
	n := len(t.Arr)
	buf := make([]float64, n+guardCells)
	for i, e := range t.Arr {
		buf[i] = e.F()
	}
	for i := n; i < len(buf); i++ {
		buf[i] = fSentinel
	}
	guardMu.Lock()
	fGuards = append(fGuards, buf)
	fOrig = append(fOrig, append([]float64(nil), buf[:n]...))
	guardMu.Unlock()
	return buf[:n]
}

func (t Tok) Ints() []int {
	n := len(t.Arr)
	buf := make([]int, n+guardCells)
	for i, e := range t.Arr {
		buf[i] = e.Int()
	}
	for i := n; i < len(buf); i++ {
		buf[i] = iSentinel
	}
	guardMu.Lock()
	iGuards = append(iGuards, buf)
	iOrig = append(iOrig, append([]int(nil), buf[:n]...))
	guardMu.Unlock()
	return buf[:n]
}

func resetGuards() {
	guardMu.Lock()
	fGuards, iGuards = fGuards[:0], iGuards[:0]
	fOrig, iOrig = fOrig[:0], iOrig[:0]
	mutOK = false
	guardMu.Unlock()
}

func guardsIntact() bool {
	guardMu.Lock()
	defer guardMu.Unlock()
	for _, b := range fGuards {
		for _, x := range b[len(b)-guardCells:] {
			if math.Float64bits(x) != math.Float64bits(fSentinel) {
				return false
			}
		}
	}
	for _, b := range iGuards {
		for _, x := range b[len(b)-guardCells:] {
			if x != iSentinel {
				return false
			}
		}
	}
	return true
}

// allowMutation is called by ops that exercise an API documented to modify its argument in place.
func allowMutation() {
	guardMu.Lock()
	mutOK = true
	guardMu.Unlock()
}

// contentsIntact reports whether every slice handed to the library still holds what it held
// (bit for bit) when it was handed over.
func contentsIntact() bool {
	guardMu.Lock()
	defer guardMu.Unlock()
	if mutOK {
		return true
	}
	for k, b := range fGuards {
		for i, x := range fOrig[k] {
			if math.Float64bits(b[i]) != math.Float64bits(x) {
				return false
			}
		}
	}
	for k, b := range iGuards {
		for i, x := range iOrig[k] {
			if b[i] != x {
				return false
			}
		}
	}
	return true
}

// sameTok reports whether two tokens are textually identical (used to pass ONE object for two
// parameters when a case names the same thing twice).
func sameTok(a, b Tok) bool {
	if a.IsArr != b.IsArr || a.Atom != b.Atom || len(a.Arr) != len(b.Arr) {
		return false
	}
	for i := range a.Arr {
		if !sameTok(a.Arr[i], b.Arr[i]) {
			return false
		}
	}
	return true
}

func (t Tok) Intss() [][]int {
	out := make([][]int, len(t.Arr))
	for i, e := range t.Arr {
		out[i] = e.Ints()
	}
	return out
}

// ---------- exact float encoding ----------

func fmtF(x float64) string {
	switch {
	case math.IsNaN(x):
		return "nan"
	case math.IsInf(x, 1):
		return "+inf"
	case math.IsInf(x, -1):
		return "-inf"
	}
	return strconv.FormatFloat(x, 'b', -1, 64)
}

func parseF(s string) float64 {
	switch s {
	case "nan":
		return math.NaN()
	case "+inf":
		return math.Inf(1)
	case "-inf":
		return math.Inf(-1)
	}
	k := strings.IndexByte(s, 'p')
	if k < 0 {
		panic("harness: bad float " + s)
	}
	m, err1 := strconv.ParseInt(s[:k], 10, 64)
	e, err2 := strconv.Atoi(s[k+1:])
	if err1 != nil || err2 != nil {
		panic("harness: bad float " + s)
	}
	return math.Ldexp(float64(m), e)
}

func fmtFs(xs []float64) string {
	parts := make([]string, len(xs))
	for i, x := range xs {
		parts[i] = fmtF(x)
	}
	return "[" + strings.Join(parts, ",") + "]"
}

func fmtInts(xs []int) string {
	parts := make([]string, len(xs))
	for i, x := range xs {
		parts[i] = strconv.Itoa(x)
	}
	return "[" + strings.Join(parts, ",") + "]"
}

func fmtIntss(xs [][]int) string {
	parts := make([]string, len(xs))
	for i, x := range xs {
		parts[i] = fmtInts(x)
	}
	return "[" + strings.Join(parts, ",") + "]"
}

func fmtB(b bool) string {
	if b {
		return "1"
	}
	return "0"
}

// ---------- registry ----------

// An execFn runs the real code on the parsed inputs (args excludes the op
// name) and returns the output tokens as one string.
type execFn func(args []Tok) string

var execs = map[string]execFn{}

// A genFn prints input lines for one property.
type genFn func(w *bufio.Writer, tier string, rng *rand.Rand)

var gens = map[string]genFn{}

func sanitize(s string) string {
	r := strings.NewReplacer(" ", "_", "[", "(", "]", ")", ",", ";", "\n", "_", "\t", "_", "=>", "->")
	s = r.Replace(s)
	if len(s) > 120 {
		s = s[:120]
	}
	return s
}

var opTimeout = 60 * time.Second

func execLine(line string) (out string) {
	toks, ok := parseLine(line)
	if !ok || len(toks) == 0 || toks[0].IsArr {
		return "harness-parse-error"
	}
	fn, ok := execs[toks[0].Atom]
	if !ok {
		return "harness-unknown-op"
	}
	type res struct{ s string }
	ch := make(chan res, 1)
	go func() {
		defer func() {
			if r := recover(); r != nil {
				ch <- res{"panic:" + sanitize(fmt.Sprint(r))}
			}
		}()
		resetGuards()
		out := fn(toks[1:])
		if !guardsIntact() {
			out = "panic:" + sanitize("the library wrote past the end of a slice passed to it (into the caller's spare capacity)")
		} else if !contentsIntact() {
			out = "panic:" + sanitize("the library wrote past its contract: it changed the contents of a slice passed to it")
		}
		ch <- res{out}
	}()
	select {
	case r := <-ch:
		return r.s
	case <-time.After(opTimeout):
		return "timeout"
	}
}

func main() {
	if len(os.Args) < 2 {
		fmt.Fprintln(os.Stderr, "usage: mmverif gen|exec|run ...")
		os.Exit(2)
	}
	w := bufio.NewWriterSize(os.Stdout, 1<<20)
	defer w.Flush()
	switch os.Args[1] {
	case "exec":
		sc := bufio.NewScanner(os.Stdin)
		sc.Buffer(make([]byte, 1<<20), 1<<28)
		for sc.Scan() {
			line := strings.TrimSpace(sc.Text())
			if line == "" || line[0] == '#' {
				continue
			}
			if k := strings.Index(line, " =>"); k >= 0 {
				line = line[:k]
			}
			out := execLine(line)
			fmt.Fprintf(w, "%s => %s\n", line, out)
			if out == "timeout" {
				w.Flush()
				os.Exit(3)
			}
		}
	case "gen", "run":
		if len(os.Args) < 5 {
			fmt.Fprintln(os.Stderr, "usage: mmverif gen|run <prop> <tier> <seed>")
			os.Exit(2)
		}
		prop, tier := os.Args[2], os.Args[3]
		seed, _ := strconv.ParseInt(os.Args[4], 10, 64)
		g, ok := gens[prop]
		if !ok {
			fmt.Fprintln(os.Stderr, "no generator for", prop)
			os.Exit(2)
		}
		rng := rand.New(rand.NewSource(seed))
		if os.Args[1] == "gen" {
			g(w, tier, rng)
			return
		}
		// run: generate into a pipe of lines, exec each.
		pr, pw, _ := os.Pipe()
		go func() {
			gw := bufio.NewWriterSize(pw, 1<<20)
			g(gw, tier, rng)
			gw.Flush()
			pw.Close()
		}()
		sc := bufio.NewScanner(pr)
		sc.Buffer(make([]byte, 1<<20), 1<<28)
		for sc.Scan() {
			line := sc.Text()
			out := execLine(line)
			fmt.Fprintf(w, "%s => %s\n", line, out)
			if out == "timeout" {
				w.Flush()
				os.Exit(3)
			}
		}
	case "props":
		var ps []string
		for p := range gens {
			ps = append(ps, p)
		}
		sort.Strings(ps)
		fmt.Fprintln(w, strings.Join(ps, " "))
	default:
		fmt.Fprintln(os.Stderr, "unknown sub-command")
		os.Exit(2)
	}
}

// ---------- generator helpers ----------

func isThorough(tier string) bool { return tier == "thorough" }

// pick returns a for quick, b for thorough.
func pick(tier string, a, b int) int {
	if isThorough(tier) {
		return b
	}
	return a
}

// randFloat returns a "moderate" float: centre + spread*N(0,1) snapped to a
// coarse dyadic grid (so ties and exact arithmetic happen often).
func randGridFloat(rng *rand.Rand, centre, spread float64, gridBits int) float64 {
	g := math.Ldexp(spread, -gridBits)
	if g == 0 {
		return centre
	}
	return centre + math.Round(rng.NormFloat64()*spread/g)*g
}

// ---------- dictionary: numeric constants of the code the property reaches ----------
//
// tools/extract writes, on every run, the numeric literals and folded constant expressions of every
// function reachable from the property's anchor files (VERIF_DICT) and bin/check separates those the
// model's expectation does not list (VERIF_DICT_NEW): a cutoff, size limit or break point that a change
// has just introduced. Generators aim sizes, arguments and thresholds at these values (and simple
// functions of them); constants that are new get the full cross product, the others a random sample.

var (
	dictOnce           sync.Once
	dictAllV, dictNewV []float64
)

func loadDict() {
	dictOnce.Do(func() {
		rd := func(env string) []float64 {
			var out []float64
			p := os.Getenv(env)
			if p == "" {
				return nil
			}
			b, err := os.ReadFile(p)
			if err != nil {
				return nil
			}
			for _, l := range strings.Fields(string(b)) {
				if v, err := strconv.ParseFloat(l, 64); err == nil && !math.IsNaN(v) && !math.IsInf(v, 0) {
					out = append(out, v)
				}
			}
			return out
		}
		dictAllV, dictNewV = rd("VERIF_DICT"), rd("VERIF_DICT_NEW")
	})
}

// dictShapes returns simple functions of a constant c: thresholds are often compared with a scaled,
// squared or logged quantity
func dictShapes(c float64) []float64 {
	out := []float64{c, -c, c * math.Sqrt2, c / math.Sqrt2, -c * math.Sqrt2, -c / math.Sqrt2, c * c, 2 * c, c / 2, c + 1, c - 1}
	if c > 0 {
		out = append(out, math.Sqrt(c), math.Sqrt(2*c), 1/c, math.Log(c), -math.Log(c))
	}
	if math.Abs(c) < 700 {
		out = append(out, math.Exp(c), math.Exp(-c))
	}
	if c == math.Trunc(c) && c >= 0 && c < 1000 {
		out = append(out, math.Ldexp(1, int(c)), math.Ldexp(1, -int(c)))
	}
	return out
}

// around returns v and its neighbours a few ulps and a relative 1e-15 .. 1e-6 away
func around(v float64) []float64 {
	out := []float64{v}
	lo, hi := v, v
	for i := 0; i < 3; i++ {
		lo, hi = math.Nextafter(lo, math.Inf(-1)), math.Nextafter(hi, math.Inf(1))
		out = append(out, lo, hi)
	}
	for _, r := range []float64{1e-14, 1e-11, 1e-8, 1e-6} {
		out = append(out, v*(1+r), v*(1-r))
	}
	return out
}

// dictFloats: special values aimed at the dictionary. Every constant that is new is expanded in full
// (shapes x neighbourhood); of the others `sample` random picks are added.
func dictFloats(rng *rand.Rand, sample int) []float64 {
	loadDict()
	var out []float64
	for _, c := range dictNewV {
		for _, s := range dictShapes(c) {
			out = append(out, around(s)...)
		}
	}
	for i := 0; i < sample && len(dictAllV) > 0; i++ {
		sh := dictShapes(dictAllV[rng.Intn(len(dictAllV))])
		ar := around(sh[rng.Intn(len(sh))])
		out = append(out, ar[rng.Intn(len(ar))])
	}
	var fin []float64
	for _, v := range out {
		if !math.IsNaN(v) && !math.IsInf(v, 0) {
			fin = append(fin, v)
		}
	}
	return fin
}

// dictSizes: whole numbers in [lo,hi] aimed at the dictionary (c, c±1, c±2, 2c, c/2, 2^c, 2^c±1, sums of two
// new constants); new constants first and in full, `sample` picks of the others.
func dictSizes(rng *rand.Rand, lo, hi, sample int) []int {
	loadDict()
	seen := map[int]bool{}
	var out []int
	add := func(v float64) {
		if v != math.Trunc(v) || v < float64(lo) || v > float64(hi) {
			return
		}
		if n := int(v); !seen[n] {
			seen[n] = true
			out = append(out, n)
		}
	}
	shapes := func(c float64) []float64 {
		c = math.Trunc(c)
		l := []float64{c, c + 1, c - 1, c + 2, c - 2, 2 * c, 2*c + 1, 2*c - 1, math.Trunc(c / 2), math.Trunc(c/2) + 1, c * c, 3 * c, 4 * c}
		if c >= 0 && c < 40 {
			p := math.Ldexp(1, int(c))
			l = append(l, p, p+1, p-1, p+2, 2*p+1)
		}
		return l
	}
	for _, c := range dictNewV {
		for _, s := range shapes(c) {
			add(s)
		}
	}
	for i := 0; i < sample && len(dictAllV) > 0; i++ {
		sh := shapes(dictAllV[rng.Intn(len(dictAllV))])
		add(sh[rng.Intn(len(sh))])
	}
	return out
}

// dictIsNew reports whether the run has constants the model's expectation does not list.
func dictHasNew() bool { loadDict(); return len(dictNewV) > 0 }

// concurrentSame calls one derived function (a closure the library returned) from several goroutines at once on
// the arguments it has already answered sequentially: a function of its argument gives the same answer whoever
// else is calling it. A panic inside a goroutine is reported as a different answer.
func concurrentSame(what string, f func(float64) float64, args, want []float64) {
	if len(args) == 0 {
		return
	}
	const workers = 8
	var wg sync.WaitGroup
	bad := make([]string, workers)
	for g := 0; g < workers; g++ {
		wg.Add(1)
		go func(g int) {
			defer wg.Done()
			defer func() {
				if r := recover(); r != nil {
					bad[g] = fmt.Sprintf("%s: a concurrent call panicked: %v", what, r)
				}
			}()
			for rep := 0; rep < 3; rep++ {
				for k := range args {
					i := (k*(2*g+1) + g) % len(args)
					v := f(args[i])
					if math.Float64bits(v) != math.Float64bits(want[i]) && !(math.IsNaN(v) && math.IsNaN(want[i])) {
						bad[g] = fmt.Sprintf("%s: f(%v) = %v when called alone, %v when called concurrently", what, args[i], want[i], v)
						return
					}
				}
			}
		}(g)
	}
	wg.Wait()
	for _, b := range bad {
		if b != "" {
			panic(b)
		}
	}
}

// appendProbe: results belong to the caller, and to one caller each: appending to one returned slice (within
// whatever capacity it came with) must leave every other returned slice as it was.
func appendProbe(what string, lists [][]int) {
	saved := make([][]int, len(lists))
	for i, l := range lists {
		saved[i] = append([]int(nil), l...)
	}
	for _, l := range lists {
		_ = append(l, -7777777)
	}
	for i, l := range lists {
		if len(l) != len(saved[i]) {
			panic(what + ": a returned slice changed length")
		}
		for j := range l {
			if l[j] != saved[i][j] {
				panic(fmt.Sprintf("%s: results share storage: appending to one returned slice changed another (list %d, element %d: %d -> %d)", what, i, j, saved[i][j], l[j]))
			}
		}
	}
}
