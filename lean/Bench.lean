import MV.Model.Interval
open MV MV.I
def main : IO Unit := do
  let z : Rat := (4676805239458889 : Int) * pow2 (-52) / ((1048573 : Int) * pow2 (-19))
  let t0 ← IO.monoMsNow
  let mut acc : Rat := 0
  for i in [0:200] do
    acc := acc + (Phi (z + (i : Nat) / 1000)).lo
  let t1 ← IO.monoMsNow
  IO.println s!"Phi x200: {t1 - t0} ms {ratStr acc}"
  for i in [0:200] do
    acc := acc + (phi (z + (i : Nat) / 1000)).lo
  let t2 ← IO.monoMsNow
  IO.println s!"phi x200: {t2 - t1} ms"
  for i in [0:200] do
    acc := acc + (expQ (-(z + (i : Nat) / 1000))).lo
  let t3 ← IO.monoMsNow
  IO.println s!"expQ x200: {t3 - t2} ms"
  for i in [0:200] do
    acc := acc + (sqrt2pi).lo
  let t4 ← IO.monoMsNow
  IO.println s!"sqrt2pi x200: {t4 - t3} ms {ratStr acc}"
