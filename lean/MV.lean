import MV.Basic
import MV.Model.Stream
import MV.Driver.Stream
