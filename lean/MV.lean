import MV.Basic
import MV.Model.Stream
import MV.Driver.Stream
import MV.Model.Graph
import MV.Driver.Graph
