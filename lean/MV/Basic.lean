/-
Core-only utilities shared by the executable models and the driver:
the value type for Go float64 results, the line-protocol parser, and the
tolerance comparison.  Nothing here imports Mathlib (the driver must link).
-/

namespace MV

/-- A Go `float64` result: every finite float64 is a dyadic rational. -/
inductive V where
  | nan
  | ninf
  | pinf
  | fin (q : Rat)
  deriving Repr, BEq, Inhabited

namespace V
def isFin : V → Bool | fin _ => true | _ => false
def toRat? : V → Option Rat | fin q => some q | _ => none
def render : V → String
  | nan => "nan" | ninf => "-inf" | pinf => "+inf"
  | fin q => s!"{q.num}/{q.den}"
end V

def ratAbs (q : Rat) : Rat := if q < 0 then -q else q
def ratMax (a b : Rat) : Rat := if a < b then b else a
def ratMin (a b : Rat) : Rat := if a < b then a else b

/-- `2^e` as a rational for any integer `e`. -/
def pow2 (e : Int) : Rat :=
  if e ≥ 0 then ((2 ^ e.toNat : Nat) : Rat) else 1 / ((2 ^ (-e).toNat : Nat) : Rat)

/-- Short decimal rendering of a rational for messages (not used in decisions). -/
def ratStr (q : Rat) : String :=
  let sgn := if q < 0 then "-" else ""
  let a := ratAbs q
  let scaled : Int := (a * 1000000000000).floor
  let ip := scaled / 1000000000000
  let fp := (scaled % 1000000000000).toNat
  let fs := toString fp
  let pad := String.ofList (List.replicate (12 - fs.length) '0')
  s!"{sgn}{ip}.{pad}{fs}"

def V.str : V → String
  | .fin q => ratStr q
  | v => v.render

/-- `|a-b| ≤ atol + rtol * max |a| |b|`. -/
def closeR (a b atol rtol : Rat) : Bool :=
  ratAbs (a - b) ≤ atol + rtol * ratMax (ratAbs a) (ratAbs b)

/-- Compare a Go value to a model value; infinities and NaN must match exactly. -/
def closeV (go model : V) (atol rtol : Rat) : Bool :=
  match go, model with
  | .nan, .nan => true
  | .pinf, .pinf => true
  | .ninf, .ninf => true
  | .fin a, .fin b => closeR a b atol rtol
  | _, _ => false

/-! ## Line protocol -/

/-- A parsed token: an atom or a bracketed, comma-separated list of tokens. -/
inductive J where
  | atom (s : String)
  | arr (xs : List J)
  deriving Inhabited

partial def J.render : J → String
  | .atom s => s
  | .arr xs => "[" ++ ",".intercalate (xs.map J.render) ++ "]"

/-- Parse one value starting at `cs`; returns the value and the rest. -/
partial def parseJ (cs : List Char) : Option (J × List Char) :=
  match cs with
  | '[' :: rest => parseArr rest []
  | _ =>
    let (tok, rest) := cs.span (fun c => c != ',' && c != ']' && c != ' ' && c != '[' && c != '\n' && c != '\r')
    if tok.isEmpty then none else some (.atom (String.ofList tok), rest)
where
  parseArr (cs : List Char) (acc : List J) : Option (J × List Char) :=
    match cs with
    | ']' :: rest => some (.arr acc.reverse, rest)
    | ',' :: rest => parseArr rest acc
    | [] => none
    | _ =>
      match parseJ cs with
      | some (v, rest) => parseArr rest (v :: acc)
      | none => none

partial def parseLine (cs : List Char) (acc : List J) : Option (List J) :=
  match cs with
  | [] => some acc.reverse
  | ' ' :: rest => parseLine rest acc
  | '\n' :: rest => parseLine rest acc
  | '\r' :: rest => parseLine rest acc
  | _ =>
    match parseJ cs with
    | some (v, rest) => parseLine rest (v :: acc)
    | none => none

def parseInt? (s : String) : Option Int := s.toInt?

/-- Parse Go's `strconv.FormatFloat(x,'b',-1,64)` (`<mant>p<exp>`), `nan`, `+inf`, `-inf`. -/
def parseFlt? (s : String) : Option V :=
  if s == "nan" then some .nan
  else if s == "+inf" then some .pinf
  else if s == "-inf" then some .ninf
  else
    match s.splitOn "p" with
    | [m, e] =>
      let e := if e.startsWith "+" then (e.drop 1).toString else e
      match m.toInt?, e.toInt? with
      | some mi, some ei => some (.fin ((mi : Rat) * pow2 ei))
      | _, _ => none
    | _ => none

namespace J
def int? : J → Option Int | .atom s => parseInt? s | _ => none
def nat? (j : J) : Option Nat := match j.int? with | some i => if i ≥ 0 then some i.toNat else none | none => none
def flt? : J → Option V | .atom s => parseFlt? s | _ => none
def rat? (j : J) : Option Rat := match j.flt? with | some (.fin q) => some q | _ => none
def str? : J → Option String | .atom s => some s | _ => none
def list? : J → Option (List J) | .arr xs => some xs | _ => none
def ints? (j : J) : Option (List Int) := do (← j.list?).mapM J.int?
def nats? (j : J) : Option (List Nat) := do (← j.list?).mapM J.nat?
def flts? (j : J) : Option (List V) := do (← j.list?).mapM J.flt?
def rats? (j : J) : Option (List Rat) := do (← j.list?).mapM J.rat?
def natss? (j : J) : Option (List (List Nat)) := do (← j.list?).mapM J.nats?
def intss? (j : J) : Option (List (List Int)) := do (← j.list?).mapM J.ints?
end J

/-- Split a parsed line at the `=>` atom into inputs and Go's outputs. -/
def splitArrow (ts : List J) : List J × List J :=
  let (a, b) := ts.span (fun t => match t with | .atom "=>" => false | _ => true)
  (a, b.drop 1)

/-- Verdict of the model on one line. -/
inductive Verdict where
  | ok (tags : String)
  | amb (tags : String)          -- near-tie: equality part skipped
  | skip (why : String)          -- outside the property's quantifier
  | known (sig : String) (detail : String)
  | fail (clause : String) (detail : String)
  | badOp (why : String)

def Verdict.render : Verdict → String
  | .ok t => s!"ok {t}"
  | .amb t => s!"amb {t}"
  | .skip w => s!"skip {w}"
  | .known s d => s!"known {s} {d}"
  | .fail c d => s!"FAIL {c} {d}"
  | .badOp w => s!"bad-op {w}"

/-- Run a list of named checks; first failure wins. -/
def firstFail (checks : List (String × Bool × String)) : Option (String × String) :=
  match checks with
  | [] => none
  | (name, okb, detail) :: rest => if okb then firstFail rest else some (name, detail)

def verdictOf (tags : String) (checks : List (String × Bool × String)) : Verdict :=
  match firstFail checks with
  | none => .ok tags
  | some (c, d) => .fail c d

/-- the IEEE-754 double nearest to a positive rational (round to nearest, ties to even), for values
in the normal range: what a single float64 multiplication or division of exact operands returns -/
def roundF64 (r : Rat) : Rat :=
  if r ≤ 0 then (if r == 0 then 0 else -(roundF64pos (-r))) else roundF64pos r
where
  roundF64pos (r : Rat) : Rat :=
    -- find e with 2^52 ≤ r / 2^e < 2^53
    let a : Int := (Nat.log2 r.num.toNat : Int) - (Nat.log2 r.den : Int)
    let e0 : Int := a - 52
    let m0 := r / pow2 e0
    let e : Int := if m0 < pow2 52 then e0 - 1 else if m0 ≥ pow2 53 then e0 + 1 else e0
    let m := r / pow2 e
    let fl := m.floor
    let frac := m - fl
    let mi : Int := if frac < 1 / 2 then fl else if frac > 1 / 2 then fl + 1 else (if fl % 2 == 0 then fl else fl + 1)
    (mi : Rat) * pow2 e

end MV
