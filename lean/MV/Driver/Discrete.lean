import MV.Model.Discrete
/-! Driver for C06: `bin n p <method> k`, `hyp N K D <method> k`. -/
namespace MV.Discrete
open MV

def atol : Rat := 1 / 10000000000
def rtolM : Rat := 1 / 1000000000000

def handleBin (ins outs : List J) : Verdict :=
  match ins, outs with
  | [nJ, pJ, .atom "misc"], [loJ, hiJ, stJ, meanJ, varJ, muJ, sgJ] =>
    match nJ.nat?, pJ.rat?, loJ.flt?, hiJ.flt?, stJ.flt?, meanJ.flt?, varJ.flt?, muJ.flt?, sgJ.flt? with
    | some n, some p, some lo, some hi, some st, some mean, some var, some mu, some (.fin sg) =>
      verdictOf (if n ≥ 2 then "nt misc" else "tr misc")
        [("bounds", lo == .fin 0 && hi == .fin n, s!"{lo.str} {hi.str}"), ("step", st == .fin 1, st.str),
         ("mean", closeV mean (.fin (binomMean n p)) 0 rtolM, s!"go={mean.str} model={ratStr (binomMean n p)}"),
         ("variance", closeV var (.fin (binomVar n p)) 0 rtolM, s!"go={var.str} model={ratStr (binomVar n p)}"),
         ("normalapprox-mu", closeV mu (.fin (binomMean n p)) 0 rtolM, mu.str),
         ("normalapprox-sigma", decide (sg ≥ 0) && closeR (sg * sg) (binomVar n p) 0 (4 * rtolM), ratStr sg)]
    | _, _, _, _, _, _, _, _, _ => .badOp "bin misc: parse"
  | [nJ, pJ, .atom what, kJ], [outJ] =>
    match nJ.nat?, pJ.rat?, kJ.flt?, outJ.flt? with
    | some n, some p, some (.fin k), some go =>
      let ki := k.floor
      let inside := 0 ≤ ki && ki ≤ n
      let tag := (if n ≥ 2 && p > 0 && p < 1 then "nt " else "tr ") ++ what ++ (if inside then " in" else " out") ++
        (if n > 60 then " bigN" else " smallN") ++ (if (ki : Rat) == k then "" else " fractional-k")
      if what == "pmf" then
        verdictOf tag [("binom-pmf", closeV go (.fin (binomPMF n p ki)) atol 0, s!"go={go.str} model={ratStr (binomPMF n p ki)}")]
      else if what == "cdf" then
        verdictOf tag [("binom-cdf", closeV go (.fin (binomCDF n p ki)) atol 0, s!"go={go.str} model={ratStr (binomCDF n p ki)}")]
      else .badOp "bin: method"
    | _, _, _, _ => .badOp "bin: parse"
  | _, _ => .badOp "bin: arity"

def handleHyp (ins outs : List J) : Verdict :=
  match ins, outs with
  | [nJ, kkJ, dJ, .atom "misc"], [loJ, hiJ, stJ, meanJ, varJ] =>
    match nJ.nat?, kkJ.nat?, dJ.nat?, loJ.flt?, hiJ.flt?, stJ.flt?, meanJ.flt?, varJ.flt? with
    | some N, some K, some D, some lo, some hi, some st, some mean, some var =>
      verdictOf (if N ≥ 3 then "nt misc" else "tr misc")
        [("bounds", lo == .fin (hypLo N K D) && hi == .fin (hypHi N K D), s!"{lo.str} {hi.str}"), ("step", st == .fin 1, st.str),
         ("mean", closeV mean (.fin (hypMean N K D)) 0 rtolM, s!"go={mean.str} model={ratStr (hypMean N K D)}"),
         ("variance", closeV var (.fin (hypVar N K D)) 0 rtolM, s!"go={var.str} model={ratStr (hypVar N K D)}")]
    | _, _, _, _, _, _, _, _ => .badOp "hyp misc: parse"
  | [nJ, kkJ, dJ, .atom what, kJ], [outJ] =>
    match nJ.nat?, kkJ.nat?, dJ.nat?, kJ.flt?, outJ.flt? with
    | some N, some K, some D, some (.fin k), some go =>
      let ki := k.floor
      let inside := (hypLo N K D : Int) ≤ ki && ki ≤ hypHi N K D
      let tag := (if N ≥ 3 && hypLo N K D < hypHi N K D then "nt " else "tr ") ++ what ++ (if inside then " in" else " out") ++
        (if N > 80 then " bigN" else " smallN")
      if what == "pmf" then
        verdictOf tag [("hyper-pmf", closeV go (.fin (hypPMF N K D ki)) atol 0, s!"go={go.str} model={ratStr (hypPMF N K D ki)}")]
      else if what == "cdf" then
        -- small populations: the mirror of the code's algorithm (Klotz's series, either side) is run too; it is proved
        -- equal to the definitional CDF (`hypCDFalg_eq`), this is the runtime cross-check of that theorem
        let algOk := N > 60 || K > N || D > N || !((hypLo N K D : Int) ≤ ki && ki < hypHi N K D) ||
          (hypCDFalg N K D ki.toNat false == hypCDF N K D ki && hypCDFalg N K D ki.toNat true == hypCDF N K D ki)
        verdictOf tag [("model-klotz-eq-cdf", algOk, "the series on either side vs the definitional sum"),
          ("hyper-cdf", closeV go (.fin (hypCDF N K D ki)) atol 0, s!"go={go.str} model={ratStr (hypCDF N K D ki)}")]
      else .badOp "hyp: method"
    | _, _, _, _, _ => .badOp "hyp: parse"
  | _, _ => .badOp "hyp: arity"

end MV.Discrete
