import MV.Model.Special
/-! Driver for C05 (`nd`, `td`, `dd`) and C08 (`mx`). -/
namespace MV.Dists
open MV

def eps : Rat := pow2 (-52)

/-- v within interval e up to absolute and relative tolerance -/
def inTol (g : V) (e : I) (atol rtol : Rat) : Bool :=
  match g with
  | .fin v => let t := atol + rtol * ratMax (ratAbs e.lo) (ratAbs e.hi); decide (e.lo - t ≤ v ∧ v ≤ e.hi + t)
  | _ => false

def iStr (e : I) : String := s!"[{ratStr e.lo},{ratStr e.hi}]"

/-- do two enclosures of the same quantity overlap (up to 2^-60)? -/
def overlap (p q : I) : Bool := p.lo ≤ q.hi + 1 / pow2 60 && q.lo ≤ p.hi + 1 / pow2 60

def normCDF (mu sigma x : Rat) : I := I.Phi ((x - mu) / sigma)

def handleND (ins outs : List J) : Verdict :=
  match ins, outs with
  | [muJ, sgJ, .atom "misc"], [mJ, vJ, loJ, hiJ, r1J, r2J, r3J] =>
    match muJ.rat?, sgJ.rat?, mJ.flt?, vJ.flt?, loJ.flt?, hiJ.flt?, r1J.flt?, r2J.flt?, r3J.flt? with
    | some mu, some sg, some m, some v, some lo, some hi, some r1, some r2, some r3 =>
      -- Rand: a seeded draw is Mu + Sigma·(standard normal variate of that source), bit for bit up to rounding;
      -- a draw from the package-level source (nil) lies within 40 Sigma of Mu (probability of a miss < 1e-340)
      let randOk := match r1, r2, r3 with
        | .fin a, .fin z, .fin b => closeR a (mu + sg * z) (8 * eps * (ratAbs mu + sg * ratAbs z)) 0 && decide (ratAbs (b - mu) ≤ 40 * sg)
        | _, _, _ => false
      verdictOf "nt normal misc"
        [("normal-mean", m == .fin mu, m.str), ("normal-variance", closeV v (.fin (sg * sg)) 0 (4 * eps), v.str),
         ("normal-rand", randOk, s!"seeded draw {r1.str}, standard variate of the same source {r2.str}, nil-source draw {r3.str}"),
         ("normal-bounds", closeV lo (.fin (mu - 3 * sg)) (8 * eps * (ratAbs mu + 3 * sg)) 0 && closeV hi (.fin (mu + 3 * sg)) (8 * eps * (ratAbs mu + 3 * sg)) 0, s!"{lo.str} {hi.str}")]
    | _, _, _, _, _, _, _, _, _ => .badOp "nd misc: parse"
  | [muJ, sgJ, .atom what, xJ], [gJ] =>
    match muJ.rat?, sgJ.rat?, xJ.flt?, gJ.flt? with
    | some mu, some sg, some xv, some g =>
      if what == "pdf" then
        match xv with
        | .fin x =>
          let e := I.scale (1 / sg) (I.phi ((x - mu) / sg))
          -- the quotient (x-mu)/sigma is rounded by the code: relative error z^2 * eps in the density
          let z := (x - mu) / sg
          let rt := 1 / 1000000000000 + 8 * eps * (z * z + 1)
          verdictOf "nt normal pdf" [("normal-pdf", inTol g e (1 / pow2 1000) rt, s!"x={ratStr x} go={g.str} model={iStr e}")]
        | _ => .badOp "nd pdf: x"
      else if what == "cdf" then
        match xv with
        | .fin x =>
          let z := (x - mu) / sg
          let e := I.Phi z
          -- argument rounding: dΦ = φ(z) z eps-ish; relative in the tails ~ z^2 eps
          let rt := 1 / 1000000000 + 8 * eps * (z * z + 1)
          verdictOf ("nt normal cdf" ++ (if ratAbs z > 7 then " tail" else " bulk")) [("normal-cdf", inTol g e (1 / pow2 1000) rt, s!"z={ratStr z} go={g.str} model={iStr e}")]
        | .pinf => verdictOf "nt normal cdf limit" [("normal-cdf-limit", g == .fin 1, g.str)]
        | .ninf => verdictOf "nt normal cdf limit" [("normal-cdf-limit", g == .fin 0, g.str)]
        | .nan => .badOp "nd cdf: nan"
      else if what == "inv" then
        match xv with
        | .fin p =>
          if p < 0 || p > 1 then verdictOf "nt normal inv outside" [("normal-inv-outside", g == .nan, g.str)]
          else if p == 0 then verdictOf "nt normal inv 0" [("normal-inv-0", g == .ninf, g.str)]
          else if p == 1 then verdictOf "nt normal inv 1" [("normal-inv-1", g == .pinf, g.str)]
          else match g with
            | .fin x =>
              let z := (x - mu) / sg
              let c := I.Phi z
              -- CDF(InvCDF p) = p to 1e-9 relative (relative to p, and to 1-p in the upper tail is not required)
              let rt := 1 / 1000000000 + 64 * eps * (z * z + 1) + 64 * eps * (ratAbs mu / sg) * (ratAbs z + 1)
              verdictOf ("nt normal inv" ++ (if p < 1 / 1000000000000 then " deep-tail" else ""))
                [("normal-inv-roundtrip", decide (c.lo * (1 - rt) ≤ p ∧ p ≤ c.hi * (1 + rt)), s!"p={ratStr p} x={ratStr x} z={ratStr z} cdf(x)={iStr c}")]
            | _ => .fail "normal-inv-finite" g.str
        | _ => verdictOf "nt normal inv nan" [("normal-inv-outside", g == .nan, g.str)]
      else .badOp "nd: method"
    | _, _, _, _ => .badOp "nd: parse"
  | _, _ => .badOp "nd: arity"

def handleTD (ins outs : List J) : Verdict :=
  match ins, outs with
  | [_vJ, .atom "bounds"], [loJ, hiJ] =>
    verdictOf "tr t bounds" [("t-bounds", loJ.flt? == some (.fin (-4)) && hiJ.flt? == some (.fin 4), "expected (-4,4)")]
  | [vJ, .atom "grid", xsJ], [pdfJ, cdfJ] =>
    -- ascending x grid symmetric about 0: laws for every V, reference values at integer V
    match vJ.rat?, xsJ.rats?, pdfJ.flts?, cdfJ.flts? with
    | some v, some xs, some pdf, some cdf =>
      let fin (l : List V) : Option (List Rat) := l.mapM V.toRat?
      match fin pdf, fin cdf with
      | some p, some c =>
        let range := c.all fun y => decide (0 ≤ y ∧ y ≤ 1)
        let mono := (c.zip (c.drop 1)).all fun (a, b) => a ≤ b + 1 / 1000000000000
        let pdfPos := p.all (· ≥ 0)
        -- symmetry about 0: the grid is symmetric, so c[i] + c[n-1-i] = 1
        let sym := (c.zip c.reverse).all fun (a, b) => closeR (a + b) 1 (1 / 1000000000) 0
        let isInt := v == ((v.floor : Int) : Rat) && v ≥ 1 && v ≤ 400
        let tPDFgen (x : Rat) : I :=
          let c := I.exp (I.sub (Special.lgammaI ((v + 1) / 2)) (Special.lgammaI (v / 2)))
          let base : Rat := 1 + x * x / v
          I.div (I.mul c (I.exp (I.scale (-(v + 1) / 2) (I.logQ base)))) (I.sqrt (I.mul (I.ofRat v) I.pi))
        let lgOK : List (String × Bool × String) :=
          [("reference-consistency", Special.lgammaOK [v / 2, 1 / 2, v / 2 + 1 / 2], s!"V={ratStr v}: the proved log Gamma enclosure did not terminate")]
        let genRefs : List (String × Bool × String) := lgOK ++ (xs.zip (p.zip c)).flatMap fun (x, pd, cd) =>
          match Special.tCDFgen v x with
          | some ec =>
            [("t-cdf", inTol (.fin cd) ec (1 / 1000000000) 0, s!"V={ratStr v} x={ratStr x} go={ratStr cd} series reference {iStr ec}"),
             ("t-pdf", inTol (.fin pd) (tPDFgen x) (1 / pow2 900) (1 / 1000000000), s!"V={ratStr v} x={ratStr x} go={ratStr pd} reference {iStr (tPDFgen x)}")] ++
            (if isInt then [("reference-consistency", overlap ec (Special.tCDF v.floor.toNat x), s!"V={ratStr v} x={ratStr x}: series {iStr ec} vs closed form {iStr (Special.tCDF v.floor.toNat x)}")] else [])
          | none => []
        let refs : List (String × Bool × String) := genRefs ++
          if isInt then
            let nu := v.floor.toNat
            (xs.zip (p.zip c)).flatMap fun (x, pd, cd) =>
              let ec := Special.tCDF nu x
              let ep := Special.tPDF nu x
              [("t-cdf", inTol (.fin cd) ec (1 / 1000000000) 0, s!"V={nu} x={ratStr x} go={ratStr cd} closed form {iStr ec}"),
               ("t-pdf", inTol (.fin pd) ep (1 / pow2 900) (1 / 1000000000), s!"V={nu} x={ratStr x} go={ratStr pd} closed form {iStr ep}")]
          else []
        verdictOf ("nt t " ++ (if isInt then "integer-V" else "real-V") ++ (if genRefs.isEmpty then " laws-only" else " series-reference"))
          ([("t-cdf-range", range, "CDF outside [0,1]"), ("t-cdf-monotone", mono, "CDF decreases"),
            ("t-pdf-nonnegative", pdfPos, "negative density"), ("t-cdf-symmetric", sym, "CDF(-x)+CDF(x) != 1")] ++ refs)
      | _, _ => .fail "t-finite" "non-finite PDF/CDF value"
    | _, _, _, _ => .badOp "td grid: parse"
  | [_vJ, .atom "limits"], [a, b] =>
    verdictOf "tr t limits" [("t-cdf-limits", a.flt? == some (.fin 0) && b.flt? == some (.fin 1), "CDF(-inf), CDF(+inf)")]
  | _, _ => .badOp "td: arity"

def handleDD (ins outs : List J) : Verdict :=
  match ins, outs with
  | [tJ, .atom what, xJ], [gJ] =>
    match tJ.rat?, xJ.flt?, gJ.flt? with
    | some t, some xv, some g =>
      (match what, xv with
       | "pdf", .fin x => verdictOf "nt delta" [("delta-pdf", g == (if x == t then .pinf else .fin 0), g.str)]
       | "cdf", .fin x => verdictOf "nt delta" [("delta-cdf", g == .fin (if x ≥ t then 1 else 0), g.str)]
       | "inv", .fin y => verdictOf "nt delta" [("delta-inv", g == (if y < 0 || y > 1 then .nan else .fin t), g.str)]
       | _, _ => .badOp "dd: method")
    | _, _, _ => .badOp "dd: parse"
  | [tJ, .atom "bounds"], [loJ, hiJ] =>
    match tJ.rat?, loJ.flt?, hiJ.flt? with
    | some t, some lo, some hi => verdictOf "tr delta bounds" [("delta-bounds", closeV lo (.fin (t - 1)) 0 (2 * eps) && closeV hi (.fin (t + 1)) 0 (2 * eps), "T∓1")]
    | _, _, _ => .badOp "dd bounds: parse"
  | _, _ => .badOp "dd: arity"

/-! ## C08 -/

def isNatR (q : Rat) : Bool := q == ((q.floor : Int) : Rat) && q ≥ 1
def isHalfR (q : Rat) : Bool := isNatR (2 * q)

/-- reference enclosure for I_x(a,b) on the closed-form slices -/
def betaRef (x a b : Rat) : Option I :=
  if isNatR a && isNatR b && a + b ≤ 80 then some (I.ofRat (Special.betaIncInt x a.floor.toNat b.floor.toNat))
  else if b == 1 / 2 && isHalfR a && a ≤ 200 then some (Special.betaIncHalf x (2 * a).floor.toNat)
  else if a == 1 / 2 && isHalfR b && b ≤ 200 then some (I.sub (I.ofRat 1) (Special.betaIncHalf (1 - x) (2 * b).floor.toNat))
  else none

/-- general-parameter reference (Stirling + hypergeometric series) -/
def betaGen (x a b : Rat) : Option I := if a > 0 && b > 0 then Special.betaRegI x a b else none

def gammaRef (a x : Rat) : Option I :=
  if isNatR a && a ≤ 60 then some (Special.gammaIncInt a.floor.toNat x)
  else if isHalfR a && a ≤ 200 then some (Special.gammaIncHalf (a - 1 / 2).floor.toNat x)
  else none

def handleMX (ins outs : List J) : Verdict :=
  match ins, outs with
  | [.atom "betainc", xJ, aJ, bJ], [gJ] =>
    match xJ.flt?, aJ.rat?, bJ.rat?, gJ.flt? with
    | some (.fin x), some a, some b, some g =>
      if x < 0 || x > 1 then verdictOf "nt betainc outside" [("betainc-outside", g == .nan, g.str)]
      else match betaRef x a b with
        | some e => verdictOf ("nt betainc reference" ++ (if isNatR a && isNatR b then " integer" else " half")) [("betainc", inTol g e (1 / 1000000000) 0, s!"x={ratStr x} a={ratStr a} b={ratStr b} go={g.str} reference {iStr e}")]
        | none =>
          match betaGen x a b with
          | some e => verdictOf "nt betainc general-reference" [("betainc", inTol g e (1 / 1000000000) 0, s!"x={ratStr x} a={ratStr a} b={ratStr b} go={g.str} reference {iStr e}"),
              ("reference-consistency", Special.lgammaOK [a, b, a + b], "the proved log Gamma enclosure did not terminate")]
          | none => verdictOf "nt betainc range" [("betainc-range", (match g with | .fin v => decide (-(1 / 1000000000000) ≤ v ∧ v ≤ 1 + 1 / 1000000000000) | _ => false), g.str)]
    | some _, some _, some _, some g => verdictOf "nt betainc nan" [("betainc-outside", g == .nan, g.str)]
    | _, _, _, _ => .badOp "mx betainc: parse"
  | [.atom "betagrid", aJ, bJ, xsJ], [vsJ, csJ] =>
    -- ascending dyadic x in [0,1]: vs[i] = I_x(a,b), cs[i] = I_{1-x}(b,a)
    match aJ.rat?, bJ.rat?, xsJ.rats?, vsJ.flts?, csJ.flts? with
    | some a, some b, some xs, some vs, some cs =>
      (match vs.mapM V.toRat?, cs.mapM V.toRat? with
       | some v, some c =>
         let range := v.all fun y => decide (-(1 / 1000000000000) ≤ y ∧ y ≤ 1 + 1 / 1000000000000)
         let mono := (v.zip (v.drop 1)).all fun (p, q) => p ≤ q + 1 / 1000000000
         -- complement identity wherever 1-x is itself a float (the harness evaluates I_(1-x)(b,a) at float(1-x))
         let comp := (xs.zip (v.zip c)).all fun (x, p, q) => roundF64 (1 - x) != 1 - x || closeR (p + q) 1 (1 / 1000000000) 0
         let ends := (xs.zip v).all fun (x, y) => (x != 0 || y == 0) && (x != 1 || y == 1)
         let slice := (xs.zip v).filterMap fun (x, y) => (betaRef x a b).map fun e =>
           ("betainc", inTol (.fin y) e (1 / 1000000000) 0, s!"x={ratStr x} a={ratStr a} b={ratStr b} go={ratStr y} reference {iStr e}")
         -- general-parameter reference everywhere (and cross-checked against the closed forms on the slices)
         let lb := Special.lbetaI a b
         let lgOK := [("reference-consistency", a ≤ 0 || b ≤ 0 || Special.lgammaOK [a, b, a + b], s!"a={ratStr a} b={ratStr b}: the proved log Gamma enclosure did not terminate")]
         let gen := (xs.zip v).flatMap fun (x, y) =>
           match (if a > 0 && b > 0 then Special.betaRegIWith lb x a b else none) with
           | some e =>
             [("betainc", inTol (.fin y) e (1 / 1000000000) 0, s!"x={ratStr x} a={ratStr a} b={ratStr b} go={ratStr y} general reference {iStr e}")] ++
             (match betaRef x a b with
              | some c => [("reference-consistency", overlap e c, s!"x={ratStr x} a={ratStr a} b={ratStr b}: series {iStr e} vs closed form {iStr c}")]
              | none => [])
           | none => []
         let refs := slice ++ gen ++ lgOK
         verdictOf ("nt betagrid" ++ (if slice.isEmpty then " general-reference" else " slice-reference"))
           ([("betainc-range", range, "outside [0,1]"), ("betainc-monotone", mono, s!"a={ratStr a} b={ratStr b} not monotone in x"),
             ("betainc-complement", comp, s!"a={ratStr a} b={ratStr b}: I_x(a,b)+I_(1-x)(b,a) != 1"), ("betainc-ends", ends, "I_0 != 0 or I_1 != 1")] ++ refs)
       | _, _ => .fail "betainc-finite" "non-finite value inside the stated range")
    | _, _, _, _, _ => .badOp "mx betagrid: parse"
  | [.atom "gammagrid", aJ, xsJ], [psJ, qsJ] =>
    match aJ.flt?, xsJ.flts?, psJ.flts?, qsJ.flts? with
    | some (.fin a), some xs, some ps, some qs =>
      if a ≤ 0 then verdictOf "nt gamma nan" [("gammainc-nan", ps.all (· == .nan) && qs.all (· == .nan), "expected NaN for a <= 0")]
      else
        let triples := xs.zip (ps.zip qs)
        let bad := triples.filter fun (x, _, _) => match x with | .fin v => v < 0 | _ => true
        let good := triples.filterMap fun (x, p, q) => match x, p, q with | .fin v, .fin p, .fin q => if v ≥ 0 then some (v, p, q) else none | _, _, _ => none
        let nanOk := bad.all fun (_, p, q) => p == .nan && q == .nan
        let allFin := good.length + bad.length == triples.length
        let range := good.all fun (_, p, q) => decide (-(1 / 1000000000000) ≤ p ∧ p ≤ 1 + 1 / 1000000000000 ∧ -(1 / 1000000000000) ≤ q ∧ q ≤ 1 + 1 / 1000000000000)
        let sum1 := good.all fun (_, p, q) => closeR (p + q) 1 (1 / 1000000000) 0
        let mono := (good.zip (good.drop 1)).all fun ((x1, p1, q1), (x2, p2, q2)) => x1 > x2 || (p1 ≤ p2 + 1 / 1000000000 && q2 ≤ q1 + 1 / 1000000000)
        let slice := good.filterMap fun (x, p, _) => (gammaRef a x).map fun e =>
          ("gammainc", inTol (.fin p) e (1 / 1000000000) 0, s!"a={ratStr a} x={ratStr x} go={ratStr p} reference {iStr e}")
        let lg := Special.lgammaI (a + 1)
        -- the proved series enclosure of log Γ against the (unformalised) Stirling enclosure
        let lgCheck := [("reference-consistency", overlap lg (Special.lgammaStirling (a + 1)) && (Special.lgammaS (a + 1)).isSome,
          s!"log Gamma({ratStr (a + 1)}): series {iStr lg} vs Stirling {iStr (Special.lgammaStirling (a + 1))}")]
        let gen := good.flatMap fun (x, p, _) =>
          match Special.gammaRegIWith lg a x with
          | some e =>
            [("gammainc", inTol (.fin p) e (1 / 1000000000) 0, s!"a={ratStr a} x={ratStr x} go={ratStr p} general reference {iStr e}")] ++
            (match gammaRef a x with
             | some c => [("reference-consistency", overlap e c, s!"a={ratStr a} x={ratStr x}: series {iStr e} vs closed form {iStr c}")]
             | none => [])
          | none => []
        let refs := slice ++ gen ++ lgCheck
        verdictOf ("nt gammagrid" ++ (if slice.isEmpty then " general-reference" else " slice-reference"))
          ([("gammainc-nan", nanOk, "expected NaN for x < 0 or NaN"), ("gammainc-finite", allFin, "non-finite value for valid arguments"),
            ("gammainc-range", range, "outside [0,1]"), ("gammainc-sum", sum1, s!"a={ratStr a}: P+Q != 1"),
            ("gammainc-monotone", mono, s!"a={ratStr a}: not monotone in x")] ++ refs)
    | some _, some _, some ps, some qs => verdictOf "nt gamma nan" [("gammainc-nan", ps.all (· == .nan) && qs.all (· == .nan), "expected NaN for NaN a")]
    | _, _, _, _ => .badOp "mx gammagrid: parse"
  | [.atom "choose", nJ, kJ], [gJ, symJ, lgJ] =>
    match nJ.int?, kJ.int?, gJ.flt?, symJ.flt?, lgJ.flt? with
    | some n, some k, some g, some sy, some lg =>
      if k < 0 || k > n then
        verdictOf "nt choose outside" [("choose-outside", g == .fin 0, g.str), ("lchoose-outside", lg == .nan || (k == 0) , lg.str)]
      else
        let c : Rat := (UDist.chooseFast n.toNat k.toNat : Rat)
        let rt : Rat := if n ≤ 20 then 0 else 1 / 10000000000
        let le := Special.lchoose n.toNat k.toNat
        verdictOf ("nt choose" ++ (if n ≤ 20 then " exact" else " large"))
          [("choose", closeV g (.fin c) 0 rt, s!"C({n},{k}) go={g.str} exact={ratStr c}"),
           ("choose-symmetric", closeV sy (.fin c) 0 rt, s!"C({n},{n - k}) go={sy.str}"),
           ("lchoose", inTol lg le (1 / 1000000000) (1 / 10000000000), s!"go={lg.str} model={iStr le}")]
    | _, _, _, _, _ => .badOp "mx choose: parse"
  | [.atom "beta", aJ, bJ], [gJ, swJ] =>
    match aJ.rat?, bJ.rat?, gJ.flt?, swJ.flt? with
    | some a, some b, some g, some sw =>
      let symOk := match g, sw with | .fin p, .fin q => closeR p q 0 (1 / 100000000000) | _, _ => false
      let refs := if isNatR a && isNatR b && a + b ≤ 170 then
          [("beta", closeV g (.fin (Special.betaInt a.floor.toNat b.floor.toNat)) 0 (1 / 10000000000), s!"go={g.str} exact={ratStr (Special.betaInt a.floor.toNat b.floor.toNat)}")]
        else []
      -- general reference: exp(log Γ(a) + log Γ(b) − log Γ(a+b)) from the Stirling enclosure, relative 1e-9
      -- (values below the float range may round to 0 / a subnormal)
      let e := I.exp (Special.lbetaI a b)
      let gen := if a > 0 && b > 0 then
          [("beta", inTol g e (1 / pow2 1070) (1 / 1000000000), s!"a={ratStr a} b={ratStr b} go={g.str} general reference {iStr e}"),
           ("reference-consistency", Special.lgammaOK [a, b, a + b], "the proved log Gamma enclosure did not terminate")]
        else []
      verdictOf ("nt beta" ++ (if refs.isEmpty then " general-reference" else " reference")) ([("beta-symmetric", symOk, s!"B(a,b)={g.str} B(b,a)={sw.str}")] ++ refs ++ gen)
    | _, _, _, _ => .badOp "mx beta: parse"
  | [.atom "sign", xJ], [gJ] =>
    match xJ.flt?, gJ.flt? with
    | some x, some g =>
      let want : V := match x with | .fin q => .fin (if q == 0 then 0 else if q < 0 then -1 else 1) | .pinf => .fin 1 | .ninf => .fin (-1) | .nan => .nan
      verdictOf "tr sign" [("sign", g == want, s!"go={g.str}")]
    | _, _ => .badOp "mx sign: parse"
  | _, _ => .badOp "mx: op"

end MV.Dists
