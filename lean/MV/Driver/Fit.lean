import MV.Model.Fit
import MV.Model.Sample
/-! Driver for C15: `lls`, `preg`, `loess`. -/
namespace MV.Fit
open MV

def eps : Rat := pow2 (-52)
def kappaMax : Rat := 10000000000

structure Sol where
  beta : Vec
  tol : Rat          -- admissible deviation of each Go coefficient
  kappa : Rat
  A : Mat
  b : Vec

/-- exact solve with validation and conditioning; `none` = singular or too ill-conditioned -/
def solveLS (XT : Mat) (w y : Vec) : Option Sol := do
  let A := normalMatrix XT w
  let b := normalRhs XT w y
  let beta ← solve A b
  let inv ← inverse A
  -- result validation: A β = b exactly
  if matVec A beta != b then none else
  let kappa := normInf A * normInf inv
  if kappa > kappaMax then none else
  let n := y.length; let p := XT.length
  -- scale of the forward error: the coefficients themselves, and the right-hand side Σ w φ y taken with absolute
  -- values (when y is nearly orthogonal to a basis function that sum cancels: its rounding error, eps·Σ|w φ y|,
  -- is carried into β by A⁻¹ - the residual term κ²·‖r‖ of the least-squares perturbation bound)
  let babs : Vec := XT.map fun ri => dot (ri.zip w |>.map fun (a, b) => ratAbs (a * b)) (y.map ratAbs)
  let s := ratMax (vecInf beta) (normInf inv * vecInf babs)
  pure ⟨beta, 256 * ((n + p + 2 : Nat) : Rat) * kappa * eps * s + 1 / pow2 900, kappa, A, b⟩

def parseW (j : J) (n : Nat) : Option Vec :=
  match j with
  | .atom "-" => some (List.replicate n 1)
  | j => j.rats?

def coeffChecks (sol : Sol) (XT : Mat) (w y : Vec) (go : Vec) : List (String × Bool × String) :=
  let close := go.length == sol.beta.length && (go.zip sol.beta).all fun (g, m) => ratAbs (g - m) ≤ sol.tol
  -- orthogonality of the weighted residual to every basis function (= gradient of SSE)
  let grad := (matVec sol.A go).zip sol.b |>.map fun (a, b) => a - b
  let orth := vecInf grad ≤ normInf sol.A * sol.tol * (sol.beta.length + 1 : Nat)
  -- no coordinate perturbation lowers the SSE
  let base := sse XT w y go
  let delta := ratMax (vecInf sol.beta) 1 / 1000
  let noDescent := (List.range go.length).all fun i =>
    [delta, -delta].all fun d => sse XT w y (go.set i (go.getD i 0 + d)) ≥ base
  [("lsq-coefficients", close, s!"go {toString (go.map ratStr)} exact {toString (sol.beta.map ratStr)} tol {ratStr sol.tol} kappa {ratStr sol.kappa}"),
   ("lsq-orthogonal-residual", orth, s!"max |X^T W (y - X b)| = {ratStr (vecInf grad)}"),
   ("lsq-no-descent", noDescent, "a coordinate perturbation lowers the weighted SSE")]

/-- does a Go output list contain NaN or ±Inf? (then `rats?` fails) -/
def nonFinite (j : J) : Bool := (j.flts?).isSome && (j.rats?).isNone

def handleLLS (ins outs : List J) : Verdict :=
  match ins, outs with
  | [xsJ, ysJ, wJ, xtJ], [goJ] =>
    if nonFinite goJ then
      (match xsJ.rats?, ysJ.rats?, xtJ.list? >>= (·.mapM J.rats?) with
       | some xs, some ys, some XT =>
         (match parseW wJ xs.length with
          | some w => if (solveLS XT w ys).isSome then .fail "lsq-finite" "non-finite coefficients for a well-conditioned design" else .skip "ill-conditioned or singular design"
          | none => .badOp "lls: weights")
       | _, _, _ => .badOp "lls: parse")
    else
    match xsJ.rats?, ysJ.rats?, xtJ.list? >>= (·.mapM J.rats?), goJ.rats? with
    | some xs, some ys, some XT, some go =>
      (match parseW wJ xs.length with
       | none => .badOp "lls: weights"
       | some w =>
         match solveLS XT w ys with
         | none => .skip "ill-conditioned or singular design"
         | some sol => verdictOf ("nt lls terms=" ++ toString XT.length ++ (if wJ.str? == some "-" then " unweighted" else " weighted"))
             (coeffChecks sol XT w ys go))
    | _, _, _, _ => .badOp "lls: parse"
  | _, _ => .badOp "lls: arity"

def handlePReg (ins outs : List J) : Verdict :=
  match ins, outs with
  | [xsJ, ysJ, wJ, dJ, evJ], [coJ, fJ] =>
    if nonFinite coJ || nonFinite fJ then
      (match xsJ.rats?, ysJ.rats?, dJ.nat? with
       | some xs, some ys, some deg =>
         (match parseW wJ xs.length with
          | some w => if (solveLS (monomials xs deg) w ys).isSome then .fail "lsq-finite" "non-finite coefficients or values for a well-conditioned design" else .skip "ill-conditioned or singular design"
          | none => .badOp "preg: weights")
       | _, _, _ => .badOp "preg: parse")
    else
    match xsJ.rats?, ysJ.rats?, dJ.nat?, evJ.rats?, coJ.rats?, fJ.rats? with
    | some xs, some ys, some deg, some ev, some co, some fv =>
      (match parseW wJ xs.length with
       | none => .badOp "preg: weights"
       | some w =>
         let XT := monomials xs deg
         match solveLS XT w ys with
         | none => .skip "ill-conditioned or singular design"
         | some sol =>
           let fOk := fv.length == ev.length && (ev.zip fv).all fun (x, g) =>
             let m := polyEval co x
             let mag := (co.zip (List.range co.length)).foldl (fun s (c, i) => s + ratAbs (c * rpow x i)) 0
             ratAbs (g - m) ≤ 16 * ((deg + 2 : Nat) : Rat) * eps * mag
           verdictOf ("nt preg degree=" ++ toString deg)
             (coeffChecks sol XT w ys co ++ [("polyreg-F", fOk, "F(x) differs from sum Coefficients[i] x^i")]))
    | _, _, _, _, _, _ => .badOp "preg: parse"
  | _, _ => .badOp "preg: arity"

/-- LOESS value(s) for one query under a candidate (q, start) -/
def loessAt (xs ys : Vec) (deg q n0 : Nat) (x : Rat) : Option (Rat × Rat) :=   -- (value, tolerance)
  let cx := (xs.drop n0).take q
  let cy := (ys.drop n0).take q
  let d := ratMax (x - cx.head!) (cx.getLast! - x)
  if d ≤ 0 then none else
  let w := cx.map fun c => tricube (ratAbs (x - c)) d
  let XT := monomials cx deg
  match solveLS XT w cy with
  | none => none
  | some sol =>
    let v := polyEval sol.beta x
    let amp := (List.range (deg + 1)).foldl (fun s i => s + ratAbs (rpow x i)) 0
    some (v, sol.tol * amp * 4 + 64 * eps * ratAbs v)

def handleLoess (ins outs : List J) : Verdict :=
  match ins, outs with
  | [xsJ, ysJ, dJ, spJ, qsJ], [valsJ, localJ, orderJ, unmodJ] =>
    match xsJ.rats?, ysJ.rats?, dJ.nat?, spJ.rat?, qsJ.rats?, valsJ.flts?, localJ.nat?, orderJ.nat?, unmodJ.nat? with
    | some xs0, some ys0, some deg, some span, some queries, some vals, some loc, some ord, some unmod =>
      let n := xs0.length
      let ps := Sample.sortP (xs0.zip ys0)
      let xs := ps.map (·.1); let ys := ps.map (·.2)
      -- the code computes ceil(span * float64(n)) with ONE float multiplication of exact operands: its
      -- result is the double nearest to the exact product, so the window width is determined exactly
      let prod := roundF64 (span * n)
      let qc (v : Rat) : Nat := let c := v.ceil.toNat; if c ≥ n then n else c
      let qs : List Nat := [qc prod]
      let flags := [("loess-local", loc == 1, "perturbing a y outside the window changed the value"),
                    ("loess-order-independent", ord == 1, "shuffling the input pairs changed the value"),
                    ("loess-inputs-unmodified", unmod == 1, "argument slices changed")]
      let per := (queries.zip vals).map fun (x, g) =>
        -- candidate windows: exact start and its neighbours when the search predicate is within rounding of a tie
        let cands : List (Nat × Nat) := qs.flatMap fun q =>
          let s0 := windowStart xs q x
          let tie (i : Nat) : Bool := i + q < n && ratAbs (xs.getD i 0 + xs.getD (i + q) 0 - 2 * x) ≤ 8 * eps * (ratAbs x + ratAbs (xs.getD i 0) + ratAbs (xs.getD (i + q) 0))
          [(q, s0)] ++ (if s0 > 0 && tie (s0 - 1) then [(q, s0 - 1)] else []) ++ (if tie s0 then [(q, s0 + 1)] else [])
        let rs := cands.filterMap fun (q, s0) => loessAt xs ys deg q s0 x
        match g with
        | .fin v =>
          -- a candidate window the model cannot judge (ill-conditioned local fit) may be the one the
          -- code used: no verdict for this query
          if rs.isEmpty || rs.length < cands.length then ("loess-skip", true, "")
          else ("loess-value", rs.any (fun (m, t) => ratAbs (v - m) ≤ t), s!"x={ratStr x} go={ratStr v} model={ratStr (rs.head!).1} tol={ratStr (rs.head!).2}")
        | _ => ("loess-value", rs.isEmpty, s!"x={ratStr x} go={g.str}")
      let nskip := (per.filter (·.1 == "loess-skip")).length
      if nskip == per.length && per.length > 0 then .skip "ill-conditioned local fits"
      else verdictOf ("nt loess degree=" ++ toString deg ++ (if xs0 == xs then " sorted-input" else " shuffled-input")) (flags ++ per)
    | _, _, _, _, _, _, _, _, _ => .badOp "loess: parse"
  | _, _ => .badOp "loess: arity"

end MV.Fit
