import MV.Model.Graph
/-! Driver for C18/C19 ops. -/
namespace MV.Graph
open MV

def parseG (j : J) : Option G := do
  let ls ← j.natss?
  pure ls.toArray

def intsStr (l : List Int) : String := toString l
def natsStr (l : List Nat) : String := toString l

def parseMOp (j : J) : Option MOp :=
  match j with
  | .arr [.atom "m", i] => do pure (.mark (← i.nat?))
  | .arr [.atom "u", i] => do pure (.unmark (← i.nat?))
  | .arr [.atom "t", i] => do pure (.test (← i.int?))
  | .arr [.atom "n", i] => do pure (.next (← i.int?))
  | _ => none

def optList (j : J) : Option (Option J) :=
  match j with
  | .atom "-" => some none
  | .arr _ => some (some j)
  | _ => none

def sizeTag (n : Nat) : String :=
  if n ≤ 4 then s!"n={n}" else if n ≤ 60 then "n<=60" else if n ≤ 1024 then "n<=1024" else "n>1024"

/-- every successor names a node of the graph -/
def wfG (g : G) : Bool := g.all fun out => out.all (· < g.size)

/-- Inputs inside the contract of the graph entry points: successors and roots name existing nodes; a
keep list names distinct existing nodes and its edges exist, start and end at kept nodes; removed nodes and
edges exist. Generated cases always are; what this guards is the shrinker, which deletes list elements
blindly (a graph whose node list was cut still names the nodes that are gone - the unchanged code crashes
on that too, and such a case is no witness of anything). -/
def wellFormed (op : String) (ins : List J) : Bool :=
  let rootOk (g : G) (r : J) : Bool := match r.nat? with | some v => v < g.size | none => true
  match op, ins with
  | "keep", [gJ, nodesJ, edgesJ] | "remove", [gJ, nodesJ, edgesJ] =>
    (match parseG gJ, nodesJ.nats?, edgesJ.natss? with
     | some g, some nodes, some edges =>
       wfG g && nodes.all (· < g.size) &&
       (op != "keep" || nodes.eraseDups.length == nodes.length) &&
       edges.all (fun e =>
         let u := e.getD 0 0; let k := e.getD 1 0
         e.length == 2 && u < g.size && k < (g.getD u []).length &&
         (op != "keep" || (nodes.contains u && nodes.contains ((g.getD u []).getD k 0))))
     | _, _, _ => true)
  | "equal", [g1J, g2J] => (match parseG g1J, parseG g2J with | some a, some b => wfG a && wfG b | _, _ => true)
  | _, gJ :: rest =>
    if ["pre", "post", "euler", "scc", "simp", "bigraph", "idom", "df", "dot"].contains op then
      (match parseG gJ with
       | some g => wfG g && (if ["pre", "post", "euler", "idom", "df"].contains op then (match rest with | r :: _ => rootOk g r | [] => true) else true)
       | none => true)
    else true
  | _, _ => true

def handleSub (kr : String) (gJ nodesJ edgesJ outJ : J) : Verdict :=
  match parseG gJ, nodesJ.nats?, edgesJ.natss?, outJ.list? with
  | some g, some nodes, some edges, some goNodes =>
    let es := edges.map fun e => (e.getD 0 0, e.getD 1 0)
    let model := if kr == "keep" then subgraphKeep g nodes es else subgraphRemove g nodes es
    let goParsed : Option (List (List Nat × Nat × List Nat)) := goNodes.mapM fun nd =>
      match nd with
      | .arr [o, nm, em] => do pure ((← o.nats?), (← nm.nat?), (← em.nats?))
      | _ => none
    match goParsed with
    | some go => verdictOf ((if nodes.length + es.length ≥ 2 then "nt " else "tr ") ++ kr)
        [("subgraph-" ++ kr, go == model, s!"go {toString go} model {toString model}")]
    | none => .badOp "subgraph: parse out"
  | _, _, _, _ => .badOp "subgraph: parse"

def handle (op : String) (ins outs : List J) : Verdict :=
  match op, ins, outs with
  | "marks", [opsJ], [outJ] =>
    match opsJ.list? >>= (·.mapM parseMOp), outJ.ints? with
    | some ops, some go =>
      let m := runMarks ops
      let s := runSet ops
      let big := ops.any fun o => match o with | .mark i => i ≥ 1024 | _ => false
      verdictOf ((if ops.length ≥ 3 then "nt" else "tr") ++ (if big then " grows" else " nogrow"))
        [("marks-model-eq-set", m == s, s!"bit model {intsStr m} set {intsStr s}"),
         ("marks", go == s, s!"go {intsStr go} set-model {intsStr s}")]
    | _, _ => .badOp "marks: parse"
  | "pre", [gJ, rJ], [outJ] =>
    match parseG gJ, rJ.nat?, outJ.nats? with
    | some g, some r, some go =>
      let m := preOrder g r
      verdictOf ((if g.size ≥ 3 then "nt " else "tr ") ++ sizeTag g.size)
        [("preorder", go == m, s!"go {natsStr (go.take 30)} model {natsStr (m.take 30)}")]
    | _, _, _ => .badOp "pre: parse"
  | "post", [gJ, rJ], [outJ] =>
    match parseG gJ, rJ.nat?, outJ.nats? with
    | some g, some r, some go =>
      let m := postOrder g r
      verdictOf ((if g.size ≥ 3 then "nt " else "tr ") ++ sizeTag g.size)
        [("postorder", go == m, s!"go {natsStr (go.take 30)} model {natsStr (m.take 30)}")]
    | _, _, _ => .badOp "post: parse"
  | "euler", [gJ, rJ], [outJ] =>
    match parseG gJ, rJ.nat?, outJ.natss? with
    | some g, some r, some go =>
      let m := (euler g r).map fun (b, v) => [if b then 1 else 0, v]
      verdictOf ((if g.size ≥ 3 then "nt " else "tr ") ++ sizeTag g.size)
        [("euler", go == m, s!"go {toString (go.take 20)} model {toString (m.take 20)}")]
    | _, _, _ => .badOp "euler: parse"
  | "rev", [xsJ], [outJ] =>
    match xsJ.ints?, outJ.ints? with
    | some xs, some go => verdictOf (if xs.length ≥ 2 then "nt" else "tr") [("reverse", go == xs.reverse, intsStr go)]
    | _, _ => .badOp "rev: parse"
  | "scc", [gJ, _flags], [compsJ, compOfJ, outsJ] =>
    match parseG gJ, compsJ.natss?, optList compOfJ, optList outsJ with
    | some g, some comps, some co, some os =>
      match (match co with | some j => j.nats?.map some | none => some none),
            (match os with | some j => j.natss?.map some | none => some none) with
      | some compOf, some outs' =>
        let r : SCCRes := ⟨comps, compOf, outs'⟩
        let spec := sccSpec g
        let specOk := (holdsSCC g ⟨spec, none, none⟩).isNone
        let samePartition := sortNat (comps.map fun c => (sortNat c).foldl (fun a x => a * (g.size + 1) + x + 1) 0)
          == sortNat (spec.map fun c => (sortNat c).foldl (fun a x => a * (g.size + 1) + x + 1) 0)
        let res := holdsSCC g r
        let ncyc := (comps.filter fun c => c.length ≥ 2).length
        verdictOf ((if g.size ≥ 3 then "nt " else "tr ") ++ sizeTag g.size ++ s!" bigcomps={min ncyc 3}")
          [("sccSpec-holds", specOk, "spec partition fails its own checker"),
           ("scc-" ++ res.getD "", res.isNone, s!"clause {res.getD ""} comps {toString comps}"),
           ("scc-partition-eq-spec", samePartition, s!"go {toString comps} spec {toString spec}"),
           ("scc-mirror",
              (let (mc, mco, mo) := tarjan g
               comps == mc && (match compOf with | some c => c == mco | none => true) && (match outs' with | some o => o == mo | none => true)),
              s!"go {toString comps} mirror {toString (tarjan g).1}")]
      | _, _ => .badOp "scc: parse opt"
    | _, _, _, _ => .badOp "scc: parse"
  | "simp", [gJ, wJ], [outJ] =>
    match parseG gJ, optList wJ, outJ.list? with
    | some g, some wopt, some nodes =>
      let ws : Option (List (List Rat)) := match wopt with
        | none => some ((List.range g.size).map fun v => (out g v).map fun _ => (1 : Rat))
        | some j => j.list? >>= (·.mapM J.rats?)
      match ws with
      | some ws =>
        let model := (List.range g.size).map fun v => simplifyNode (out g v) (ws.getD v [])
        let goParsed : Option (List (List Nat × List Rat)) := nodes.mapM fun nd =>
          match nd with
          | .arr [o, w] => do pure ((← o.nats?), (← w.rats?))
          | _ => none
        match goParsed with
        | some go =>
          let ok := go.length == model.length &&
            (List.range model.length).all fun v =>
              let (o, w) := go.getD v ([], [])
              let m := model.getD v []
              o == m.map (·.1) && w.length == m.length &&
              (List.range m.length).all fun k => closeR (w.getD k 0) ((m.getD k (0, 0)).2) 0 (pow2 (-40))
          let multi := (List.range g.size).any fun v => (sortNat (out g v)) != dedupSorted (sortNat (out g v))
          verdictOf ((if multi then "nt " else "tr ") ++ sizeTag g.size) [("simplify-multi", ok, s!"model {toString (model.map fun l => l.map (·.1))}")]
        | none => .badOp "simp: parse out"
      | none => .badOp "simp: parse weights"
    | _, _, _ => .badOp "simp: parse"
  | "keep", [gJ, nodesJ, edgesJ], [outJ] => handleSub "keep" gJ nodesJ edgesJ outJ
  | "remove", [gJ, nodesJ, edgesJ], [outJ] => handleSub "remove" gJ nodesJ edgesJ outJ
  | "bigraph", [gJ], [outJ] =>
    match parseG gJ, outJ.natss? with
    | some g, some go => verdictOf ((if g.size ≥ 3 then "nt " else "tr ") ++ sizeTag g.size)
        [("transpose", go == transpose g, s!"go {toString go} model {toString (transpose g)}")]
    | _, _ => .badOp "bigraph: parse"
  | "equal", [g1J, g2J], [outJ] =>
    match parseG g1J, parseG g2J, outJ.nat? with
    | some g1, some g2, some go =>
      let m := graphEqual g1 g2
      verdictOf ((if g1.size ≥ 2 then "nt " else "tr ") ++ (if m then "eq" else "neq"))
        [("equal", (go == 1) == m, s!"go {go} model {m}")]
    | _, _, _ => .badOp "equal: parse"
  | "dots", [sJ], [outJ] =>
    match sJ.nats?, outJ.nats? with
    | some s, some go =>
      let cs := s.map Char.ofNat
      let gs := go.map Char.ofNat
      verdictOf (if s.length ≥ 2 then "nt" else "tr")
        [("dotstring", gs == dotEscape cs, s!"go {String.ofList gs}"),
         ("dotstring-unescape", dotUnescape gs == some cs, s!"go {String.ofList gs}")]
    | _, _ => .badOp "dots: parse"
  | "dot", [gJ, nameJ, labelsJ], [outJ] =>
    -- labels: "-" (default) or list of byte strings, one per node
    match parseG gJ, nameJ.nats?, optList labelsJ, outJ.nats? with
    | some g, some name, some lopt, some go =>
      let labels : Option (List (List Char)) := match lopt with
        | none => some ((List.range g.size).map fun i => (toString i).toList)
        | some j => (j.natss?).map fun ls => ls.map fun l => l.map Char.ofNat
      match labels with
      | some labels =>
        let hdr := "digraph ".toList ++ dotEscape (name.map Char.ofNat) ++ " {\n".toList
        let body := (List.range g.size).flatMap fun i =>
          (s!"n{i} [label=").toList ++ dotEscape (labels.getD i []) ++ "];\n".toList ++
          ((out g i).flatMap fun o => (s!"n{i} -> n{o};\n").toList)
        let want := hdr ++ body ++ "}\n".toList
        verdictOf ((if g.size ≥ 2 then "nt " else "tr ") ++ sizeTag g.size)
          [("dot-output", go.map Char.ofNat == want, s!"go {String.ofList (go.map Char.ofNat)}")]
      | none => .badOp "dot: labels"
    | _, _, _, _ => .badOp "dot: parse"
  | "dot", [gJ, nameJ, labelsJ, nattrJ, eattrJ], [outJ] =>
    -- with attribute callbacks: per node a list of [name, kind, value]; per node per edge likewise
    let parseAttr (j : J) : Option (List Char × List Char) :=
      match j with
      | .arr [nm, .atom k, v] => do
        let name := (← nm.nats?).map Char.ofNat
        if k == "s" then pure (name, dotEscape ((← v.nats?).map Char.ofNat))
        else if k == "i" then pure (name, (toString (← v.int?)).toList)
        else pure (name, (← v.nats?).map Char.ofNat)
      | _ => none
    let parseAttrs (j : J) : Option (List (List Char × List Char)) := j.list? >>= (·.mapM parseAttr)
    let fmtAttrs (as : List (List Char × List Char)) : List Char :=
      if as.isEmpty then [] else
      " [".toList ++ (",".toList).intercalate (as.map fun (n, v) => n ++ ['='] ++ v) ++ "]".toList
    match parseG gJ, nameJ.nats?, optList labelsJ, optList nattrJ, optList eattrJ, outJ.nats? with
    | some g, some name, some lopt, some nopt, some eopt, some go =>
      let labels : Option (List (List Char)) := match lopt with
        | none => some ((List.range g.size).map fun i => (toString i).toList)
        | some j => (j.natss?).map fun ls => ls.map fun l => l.map Char.ofNat
      let nattrs : Option (List (List (List Char × List Char))) := match nopt with
        | none => some ((List.range g.size).map fun _ => [])
        | some j => j.list? >>= (·.mapM parseAttrs)
      let eattrs : Option (List (List (List (List Char × List Char)))) := match eopt with
        | none => some ((List.range g.size).map fun i => (out g i).map fun _ => [])
        | some j => j.list? >>= (·.mapM fun nd => nd.list? >>= (·.mapM parseAttrs))
      match labels, nattrs, eattrs with
      | some labels, some nattrs, some eattrs =>
        let hdr := "digraph ".toList ++ dotEscape (name.map Char.ofNat) ++ " {\n".toList
        let body := (List.range g.size).flatMap fun i =>
          let na := nattrs.getD i []
          -- the default label is added when the caller's list has no attribute named `label`
          let na' := if na.any (fun (n, _) => n == "label".toList) then na else na ++ [("label".toList, dotEscape (labels.getD i []))]
          (s!"n{i}").toList ++ fmtAttrs na' ++ ";\n".toList ++
          (((out g i).zip (List.range (out g i).length)).flatMap fun (o, e) =>
            (s!"n{i} -> n{o}").toList ++ fmtAttrs ((eattrs.getD i []).getD e []) ++ ";\n".toList)
        let want := hdr ++ body ++ "}\n".toList
        verdictOf ((if g.size ≥ 2 then "nt " else "tr ") ++ sizeTag g.size ++ " attrs")
          [("dot-output", go.map Char.ofNat == want, s!"go {String.ofList (go.map Char.ofNat)}")]
      | _, _, _ => .badOp "dot: attrs"
    | _, _, _, _, _, _ => .badOp "dot: parse"
  | "idom", [gJ, rJ], [outJ] =>
    match parseG gJ, rJ.nat?, outJ.ints? with
    | some g, some r, some go =>
      let m := idomSpec g r
      let c := mkCtx g r
      let unreach := (List.range g.size).any fun v => !c.rs.getD v false
      verdictOf ((if g.size ≥ 3 then "nt " else "tr ") ++ sizeTag g.size ++ (if unreach then " unreach" else " allreach"))
        [("idom-spec-defined", !m.contains (-2), "idomSpec found no immediate dominator (theorem violated?)"),
         ("idom", go == m, s!"go {intsStr go} spec {intsStr m}"),
         ("idom-mirror", idomCHK g r == m, s!"CHK mirror {intsStr (idomCHK g r)} spec {intsStr m}")]
    | _, _, _ => .badOp "idom: parse"
  | "dom", [idomJ], [numJ, childrenJ, inJ, idomOutJ] =>
    match idomJ.ints?, numJ.nat?, childrenJ.natss?, inJ.intss?, idomOutJ.ints? with
    | some idom, some num, some ch, some inn, some io =>
      verdictOf (if idom.length ≥ 3 then "nt" else "tr")
        [("domtree-numnodes", num == idom.length, s!"{num}"),
         ("domtree-children", ch == domChildren idom, s!"go {toString ch} model {toString (domChildren idom)}"),
         ("domtree-in", inn == idom.map (fun p => [p]), s!"go {toString inn}"),
         ("domtree-idom", io == idom, s!"go {intsStr io}")]
    | _, _, _, _, _ => .badOp "dom: parse"
  | "df", [gJ, rJ, _nilJ], [outJ] =>
    match parseG gJ, rJ.nat?, outJ.natss? with
    | some g, some r, some go =>
      let m := dfSpec g r
      let skipRoot := rootInDeg g r == 1
      let norm (l : List Nat) : List Nat := sortNat (if skipRoot then l.filter (· != r) else l)
      let dupFree := go.all fun l => sortNat l == dedupSorted (sortNat l)
      let ok := go.length == m.length && (List.range m.length).all fun x => norm (go.getD x []) == norm (m.getD x [])
      let nonempty := m.any (!·.isEmpty)
      verdictOf ((if nonempty then "nt " else "tr ") ++ sizeTag g.size ++ (if skipRoot then " rootproviso" else ""))
        [("domfrontier", ok, s!"go {toString go} spec {toString m}"),
         ("domfrontier-mirror", domFrontierCHK g r (idomSpec g r) == go, s!"go {toString go} mirror {toString (domFrontierCHK g r (idomSpec g r))}"),
         ("domfrontier-dupfree", dupFree, s!"go {toString go}")]
    | _, _, _ => .badOp "df: parse"
  | _, _, _ => .badOp s!"graph op {op} arity"

def ops : List String :=
  ["marks", "pre", "post", "euler", "rev", "scc", "simp", "keep", "remove", "bigraph", "equal", "dots", "dot", "idom", "dom", "df"]

end MV.Graph
