import MV.Model.Hist
import MV.Model.Interval
/-! Driver for C14: `lh mn mx n xs qs bs` and `gh b m mx xs qs bs`. -/
namespace MV.Hist
open MV

def eps : Rat := pow2 (-52)

/-- candidate bins for an exact position `y` (bin = ⌊y⌋) allowing for float rounding of relative size `k·eps`.
The code computes the position as fl(δ·fl(x−min)) with δ = fl(n/fl(max−min)): four correctly rounded
operations on exact inputs, so the computed position is the exact one up to a *relative* error of a few ulps
(a difference of two floats is rounded relatively: no absolute term). A sample a hair below `min = 0` has a
tiny negative position and a definite slot. -/
def candBins (y : Rat) (k : Rat) : List Int :=
  let d := k * eps * ratAbs y + pow2 (-1070)    -- (and the product may underflow: absolute 2^-1074)
  let a := (y - d).floor
  let b := (y + d).floor
  if a == b then [a] else [a, b]

/-- check Go's counters against per-value candidate slots: lower bound = definite, upper = definite + maybes -/
def countersOk (nb : Nat) (cands : List (List Int)) (gu : Nat) (gb : List Nat) (go : Nat) : Bool :=
  let slots := cands.map fun cs => cs.map (slotOf nb)
  let definite (s : Slot) : Nat := (slots.filter fun ss => ss.all (· == s)).length
  let maybe (s : Slot) : Nat := (slots.filter fun ss => ss.any (· == s)).length
  let okSlot (s : Slot) (g : Nat) : Bool := definite s ≤ g && g ≤ maybe s
  gb.length == nb && okSlot .under gu && okSlot .over go &&
  (List.range nb).all (fun i => okSlot (.bin i) (gb.getD i 0)) &&
  gu + gb.foldl (· + ·) 0 + go == cands.length

/-- quantile checks on Go's own counters; `b2v` maps a fractional bin to an enclosure of BinToValue -/
def quantileChecks (c : Counts) (qs : List Rat) (goQ : List V) (b2v : Rat → I) (rtol : Rat) (scale : Rat) :
    List (String × Bool × String) :=
  (qs.zip goQ).map fun (q, g) =>
    let exact := (c.total : Rat) * q
    let goals : List Nat :=
      let a := (exact - 4 * eps * (exact + 1)).floor.toNat
      let b := (exact + 4 * eps * (exact + 1)).floor.toNat
      if a == b then [a] else [a, b]
    let okFor (goal : Nat) : Bool :=
      match histQuantilePos c goal, g with
      | none, .nan => true
      | some pos, .fin v =>
        let e := b2v pos
        let tol := rtol * (scale + ratAbs v)
        -- inside the closed bin holding the sample, and equal to the interpolated value
        decide (e.lo - tol ≤ v ∧ v ≤ e.hi + tol) &&
          (let lo := b2v (pos.ceil - 1 : Int); let hi := b2v (pos.ceil : Int); decide (lo.lo - tol ≤ v ∧ v ≤ hi.hi + tol))
      | _, _ => false
    ("hist-quantile", goals.any okFor, s!"q={ratStr q} total={c.total} go={g.str} counts={toString c.bins} under={c.under} over={c.over}")

def handleLin (ins outs : List J) : Verdict :=
  match ins, outs with
  | [mnJ, mxJ, nJ, xsJ, qsJ, bsJ], [guJ, gbJ, goJ, b2vJ, hqJ, iqrJ] =>
    match mnJ.rat?, mxJ.rat?, nJ.nat?, xsJ.rats?, qsJ.rats?, bsJ.rats?, guJ.nat?, gbJ.nats?, goJ.nat?, b2vJ.flts?, hqJ.flts?, iqrJ.flt? with
    | some mn, some mx, some n, some xs, some qs, some bs, some gu, some gb, some go, some b2v, some hq, some iqr =>
      let cands := xs.map fun x => candBins ((n : Rat) * (x - mn) / (mx - mn)) 8
      let namb := (cands.filter (·.length > 1)).length
      let model := linRun mn mx n xs
      let exactOk := namb > 0 || (gu == model.under && gb == model.bins && go == model.over)
      let c : Counts := ⟨gu, gb, go⟩
      let scale := ratMax (ratAbs mn) (ratAbs mx)
      let b2vI (b : Rat) : I := I.ofRat (linBinToValue mn mx n b)
      let b2vChecks := (bs.zip b2v).map fun (b, g) =>
        ("bin-to-value", closeV g (.fin (linBinToValue mn mx n b)) (16 * eps * (scale + ratAbs (b * (mx - mn) / n))) 0,
          s!"b={ratStr b} go={g.str} model={ratStr (linBinToValue mn mx n b)}")
      let iqrOk : Bool := match hq.getD (qs.length) .nan, hq.getD (qs.length + 1) .nan, iqr with
        | .fin a, .fin b, .fin d => closeR d (a - b) (16 * eps * scale) 0
        | _, _, .nan => true
        | _, _, _ => false
      let tag := (if xs.length ≥ 3 then "nt " else "tr ") ++ "linear" ++ (if namb > 0 then " edge-amb" else "") ++
        (if model.under > 0 then " under" else "") ++ (if model.over > 0 then " over" else "")
      verdictOf tag
        ([("counters-exact", exactOk, s!"go under={gu} bins={toString gb} over={go}; model under={model.under} bins={toString model.bins} over={model.over}"),
          ("counters", countersOk n cands gu gb go, s!"go under={gu} bins={toString gb} over={go}; model {toString model.bins}")] ++
         b2vChecks ++ quantileChecks c (qs ++ [3/4, 1/4]) hq b2vI (1 / 1000000000000) scale ++
         [("hist-iqr", iqrOk, s!"iqr={iqr.str}")])
    | _, _, _, _, _, _, _, _, _, _, _, _ => .badOp "lh: parse"
  | _, _ => .badOp "lh: arity"

def handleLog (ins outs : List J) : Verdict :=
  match ins, outs with
  | [bJ, mJ, mxJ, xsJ, qsJ, bsJ], [guJ, gbJ, goJ, b2vJ, hqJ, iqrJ] =>
    match bJ.nat?, mJ.rat?, mxJ.rat?, xsJ.rats?, qsJ.rats?, bsJ.rats?, guJ.nat?, gbJ.nats?, goJ.nat?, b2vJ.flts?, hqJ.flts?, iqrJ.flt? with
    | some b, some m, some mx, some xs, some qs, some bs, some gu, some gb, some go, some b2v, some hq, some iqr =>
      let lnb := I.logQ b
      let pos (x : Rat) : I := I.div (I.scale m (I.logQ x)) lnb      -- m·log_b x
      let candsOf (x : Rat) : List Int :=
        let p := pos x
        let d := 16 * eps * (ratMax (ratAbs p.lo) (ratAbs p.hi) + 1)
        candsRange (p.lo - d) (p.hi + d)
      -- number of bins: ⌈m·log_b max⌉, either neighbour when on an edge
      let pm := pos mx
      let dm := 16 * eps * (ratMax (ratAbs pm.lo) (ratAbs pm.hi) + 1)
      let nbOk := gb.length == (pm.lo - dm).ceil.toNat || gb.length == (pm.hi + dm).ceil.toNat
      let nb := gb.length
      let cands := xs.map candsOf
      let namb := (cands.filter (·.length > 1)).length
      let c : Counts := ⟨gu, gb, go⟩
      let b2vI (v : Rat) : I := I.exp (I.mul (I.ofRat (v / m)) lnb)
      let b2vChecks := (bs.zip b2v).map fun (v, g) =>
        let e := b2vI v
        ("bin-to-value", (match g with | .fin q => decide (e.lo * (1 - 1 / 1000000000000) ≤ q ∧ q ≤ e.hi * (1 + 1 / 1000000000000)) | _ => false),
          s!"v={ratStr v} go={g.str} model={ratStr e.lo}")
      let iqrOk : Bool := match hq.getD (qs.length) .nan, hq.getD (qs.length + 1) .nan, iqr with
        | .fin a, .fin b, .fin d => closeR d (a - b) 0 (1 / 1000000000000)
        | _, _, .nan => true
        | _, _, _ => false
      let tag := (if xs.length ≥ 3 then "nt " else "tr ") ++ "log" ++ (if namb > 0 then " edge-amb" else "") ++
        (if gu > 0 then " under" else "") ++ (if go > 0 then " over" else "")
      verdictOf tag
        ([("nbins", nbOk, s!"go nbins={gb.length} model m·log_b(max) in [{ratStr pm.lo},{ratStr pm.hi}]"),
          ("counters", countersOk nb cands gu gb go, s!"go under={gu} bins={toString gb} over={go}")] ++
         b2vChecks ++ quantileChecks c (qs ++ [3/4, 1/4]) hq b2vI (1 / 1000000000000) 0 ++
         [("hist-iqr", iqrOk, s!"iqr={iqr.str}")])
    | _, _, _, _, _, _, _, _, _, _, _, _ => .badOp "gh: parse"
  | _, _ => .badOp "gh: arity"

end MV.Hist
