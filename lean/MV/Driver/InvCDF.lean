import MV.Model.InvCDF
import MV.Model.Discrete
import MV.Model.UDist
/-! Driver for C07: `inv <dist> y => x ...` and `rnd ...`. -/
namespace MV.InvCDF
open MV

def parsePW (j : J) : Option PW := do
  let ks ← j.list?
  ks.mapM fun k => match k with
    | .arr [x, l, r] => do pure ⟨← x.rat?, ← l.rat?, ← r.rat?⟩
    | _ => none

def atol : Rat := 1 / 1000000000000
def rtol : Rat := 1 / 1000000000

def closeQ (g : V) (q : Rat) : Bool :=
  match g with | .fin v => ratAbs (v - q) ≤ atol + rtol * ratMax (ratAbs q) (ratAbs v) | _ => false

/-- discrete quantile: acceptable grid points k*step given an exact CDF on the grid lo..hi -/
def discreteAccept (cdfAt : Int → Rat) (lo hi : Int) (y : Rat) : List Int :=
  let slack : Rat := 1 / 10000000000
  ((List.range (hi - lo + 1).toNat).map fun (i : Nat) => lo + (i : Int)).filter fun k =>
    cdfAt k ≥ y - slack && (k == lo || cdfAt (k - 1) < y + slack)

def handleInv1 (ins outs : List J) : Verdict :=
  match ins, outs with
  | [.atom "pw", pwJ, yJ], [gJ] =>
    match parsePW pwJ, yJ.flt?, gJ.flt? with
    | some pw, some yv, some g =>
      if !wfTop pw then .badOp "inv pw: generator produced an ill-formed CDF" else
      let first := pw.head!; let last := pw.getLast!
      let shape := (if pw.any (fun k => k.r > k.l) then " jumps" else "") ++
        (if (pw.zip (pw.drop 1)).any (fun (a, b) => a.r == b.l) then " flats" else "") ++
        (if (pw.zip (pw.drop 1)).any (fun (a, b) => a.r < b.l) then " ramps" else "")
      (match yv with
       | .fin y =>
         if y < 0 || y > 1 then verdictOf ("nt pw outside") [("inv-outside", g == .nan, g.str)]
         else if y == 0 then
           verdictOf ("nt pw y=0" ++ shape) [("inv-y0", g == (if cdf pw first.x == 0 then .fin first.x else .ninf), s!"go={g.str}")]
         else if y == 1 then
           verdictOf ("nt pw y=1" ++ shape) [("inv-y1", g == (if cdf pw last.x == 1 then .fin last.x else .pinf), s!"go={g.str}")]
         else match quantile pw y with
           | some q =>
             let atKnot := pw.any fun k => k.x == q
             verdictOf ("nt pw" ++ shape ++ (if atKnot then " at-knot" else " on-ramp"))
               [("inv-quantile", closeQ g q, s!"y={ratStr y} go={g.str} quantile={ratStr q}")]
           | none => .fail "model-quantile" "well-formed CDF never reaches y"
       | .nan => verdictOf "nt pw nan" [("inv-outside", g == .nan, g.str)]
       | _ => verdictOf "nt pw inf" [("inv-outside", g == .nan, g.str)])
    | _, _, _ => .badOp "inv pw: parse"
  | [.atom "own", yJ], [gJ, wantJ] =>
    -- a distribution with its own quantile method: InvCDF must return exactly that method
    match yJ.flt?, gJ.flt?, wantJ.flt? with
    | some _, some g, some w => verdictOf "nt own-method" [("inv-own-method", g == w, s!"go={g.str} method={w.str}")]
    | _, _, _ => .badOp "inv own: parse"
  | [.atom "bin", nJ, pJ, yJ], [gJ] =>
    match nJ.nat?, pJ.rat?, yJ.rat?, gJ.flt? with
    | some n, some p, some y, some g =>
      let acc := discreteAccept (fun k => Discrete.binomCDF n p k) 0 n y
      verdictOf "nt builtin binomial" [("inv-binomial", acc.any (fun k => closeQ g k), s!"y={ratStr y} go={g.str} acceptable={toString acc}")]
    | _, _, _, _ => .badOp "inv bin: parse"
  | [.atom "hyp", nJ, kJ, dJ, yJ], [gJ] =>
    match nJ.nat?, kJ.nat?, dJ.nat?, yJ.rat?, gJ.flt? with
    | some N, some K, some D, some y, some g =>
      let acc := discreteAccept (fun k => Discrete.hypCDF N K D k) (Discrete.hypLo N K D) (Discrete.hypHi N K D) y
      verdictOf "nt builtin hypergeometric" [("inv-hypergeometric", acc.any (fun k => closeQ g k), s!"y={ratStr y} go={g.str} acceptable={toString acc}")]
    | _, _, _, _, _ => .badOp "inv hyp: parse"
  | [.atom "ud", n1J, n2J, tJ, yJ], [gJ] =>
    match n1J.nat?, n2J.nat?, tJ.nats?, yJ.rat?, gJ.flt? with
    | some n1, some n2, some t, some y, some g =>
      -- grid in half units: twoU = 0..2 n1 n2
      let acc := discreteAccept (fun k => UDist.cdf n1 n2 t ((k : Rat) / 2)) 0 (2 * n1 * n2 : Nat) y
      verdictOf "nt builtin udist" [("inv-udist", acc.any (fun k => closeQ g ((k : Rat) / 2)), s!"y={ratStr y} go={g.str} acceptable 2U={toString acc}")]
    | _, _, _, _, _ => .badOp "inv ud: parse"
  | [.atom "cont", _nameJ, yJ], [gJ, cAtJ, cBelowJ] =>
    -- continuous built-in (TDist through the generic search, NormalDist through its own method): y must lie between
    -- the code's own CDF at x(1 − 1e-9) and at x(1 + 1e-9), relative to y's own size (the CDF is C05's subject)
    match yJ.rat?, gJ.flt?, cAtJ.rat?, cBelowJ.rat? with
    | some y, some (.fin _), some cAt, some cBelow =>
      let slack := y / 1000000 + 1 / pow2 1000      -- relative to y itself: far-tail quantiles count
      verdictOf "nt builtin continuous" [("inv-continuous", decide (cBelow ≤ y + slack) && decide (y ≤ cAt + slack),
        s!"y={ratStr y} cdf(x-dx)={ratStr cBelow} cdf(x+dx)={ratStr cAt}")]
    | _, _, _, _ => .badOp "inv cont: parse"
  | _, _ => .badOp "inv: arity"

/-- several y through one closure: every answer is judged like a single query -/
def handleInv (ins outs : List J) : Verdict :=
  -- `pwmut pw1 pw2 ys`: judged as `pw pw2 ys` (the object held pw2 when the queries were made)
  let ins : List J := match ins with
    | J.atom "pwmut" :: _ :: rest => J.atom "pw" :: rest
    -- `pwd pw step ys`: the same step CDF offered by a type that also implements PMF and Step (a user-defined
    -- DiscreteDist): its quantiles are those of the CDF
    | J.atom "pwd" :: pw :: _ :: rest => J.atom "pw" :: pw :: rest
    | _ => ins
  match ins.getLast?, outs with
  | some (.arr ys), [.arr xs] =>
    if ys.length != xs.length then .badOp "inv: history length" else
    let pre := ins.dropLast
    let vs := (ys.zip xs).map fun (y, x) => handleInv1 (pre ++ [y]) [x]
    match vs.find? (fun v => match v with | .fail .. => true | .badOp _ => true | _ => false) with
    | some v => v
    | none => .ok s!"nt history len={min ys.length 9}"
  | _, _ => handleInv1 ins outs

/-- `rnd <kind> … => v w again` : Rand(dist)(rng) vs InvCDF(dist)(first non-zero Float64 of the same source) -/
def handleRnd (ins outs : List J) : Verdict :=
  match ins, outs with
  | _, [vJ, wJ, againJ, nilJ] =>
    match vJ.flt?, wJ.flt?, againJ.flt?, nilJ.nat? with
    | some v, some w, some a, some nl =>
      verdictOf "nt rand" [("rand-is-inverse-transform", v == w, s!"Rand={v.str} InvCDF(y)={w.str}"),
                           ("rand-deterministic", v == a, s!"first={v.str} again={a.str} (same seed, generator used with another source before)"),
                           ("rand-source-is-the-argument", nl == 1, "a call with a nil source changed the draws from an explicit source")]
    | _, _, _, _ => .badOp "rnd: parse"
  | _, _ => .badOp "rnd: arity"

end MV.InvCDF
