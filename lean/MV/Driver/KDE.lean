import MV.Model.KDE
import MV.Model.Sample
import MV.Model.Interval
/-! Driver for C12: `kde …` and `bw xs`. -/
namespace MV.KDE
open MV

def iOps : Ops I := ⟨I.ofRat 0, I.ofRat 1, I.add, I.sub⟩

def wavgI (f : Rat → I) (xs ws : List Rat) (x : Rat) : I :=
  let W := sum ws
  I.scale (1 / W) ((xs.zip ws).foldl (fun s (xi, w) => I.add s (I.scale w (f (x - xi)))) (I.ofRat 0))

inductive Kern | epan | gauss | delta deriving BEq

def kernPDF (k : Kern) (h u : Rat) : I :=
  match k with
  | .epan => I.ofRat (epanPDF h u)
  | .gauss => I.scale (1 / h) (I.phi (u / h))
  | .delta => I.ofRat 0

def kernCDF (k : Kern) (h u : Rat) : I :=
  match k with
  | .epan => I.ofRat (epanCDF h u)
  | .gauss => I.Phi (u / h)
  | .delta => I.ofRat (deltaCDF u)

def parseBnd (mnJ mxJ : J) : Option Bnd :=
  match mnJ.flt?, mxJ.flt? with
  | some (.fin a), some (.fin b) => if a == 0 && b == 0 then some .none else some (.both a b)
  | some (.fin a), some .pinf => some (.lower a)
  | some .ninf, some (.fin b) => some (.upper b)
  | _, _ => none

def nImages (k : Kern) (h : Rat) (b : Bnd) : Nat :=
  match b with
  | .both mn mx =>
    let d := 2 * (mx - mn)
    let reach := match k with | .gauss => 14 * h | _ => h
    (reach / d + 1 / 2).ceil.toNat + 1
  | _ => 0

def inTol (g : V) (e : I) : Bool :=
  match g with
  | .fin v => let t := 1 / 1000000000000 + (1 / 1000000000) * ratMax (ratAbs e.lo) (ratAbs e.hi); decide (e.lo - t ≤ v ∧ v ≤ e.hi + t)
  | _ => false

def eps : Rat := pow2 (-52)

/-- Scott / Silverman bandwidth enclosures for an unweighted sample -/
def bandwidths (xs : List Rat) : I × I :=
  let n := xs.length
  let sd := I.sqrt (I.ofRat (Sample.varSpec xs))
  let srt := (Sample.sortP (xs.map fun x => (x, (1 : Rat)))).map (·.1)
  let iqr := Sample.r8 srt (3 / 4) - Sample.r8 srt (1 / 4)
  let hs := I.scale (106 / 100) (I.exp (I.scale (-1 / 5) (I.logQ n)))
  let alt := I.ofRat (iqr / (1349 / 1000))
  let mn : I := ⟨ratMin sd.lo alt.lo, ratMin sd.hi alt.hi⟩
  (I.mul hs mn, I.mul hs sd)

def relIn (g : V) (e : I) (rt : Rat) : Bool :=
  match g with | .fin v => decide (e.lo * (1 - rt) - rt * eps ≤ v ∧ v ≤ e.hi * (1 + rt) + rt * eps) | _ => false

/-- relative tolerance of a bandwidth: forward error of the variance 16 n eps (M/D + 1), plus 1e-11 -/
def bwTol (xs : List Rat) : Rat :=
  let M := (xs.map ratAbs).foldl ratMax 0
  let mu := Sample.meanSpec xs
  let D := (xs.map fun x => ratAbs (x - mu)).foldl ratMax 0
  if D == 0 then 1 else 1 / 100000000000 + 64 * ((xs.length + 2 : Nat) : Rat) * eps * (M / D + 1)

def handleBW (ins outs : List J) : Verdict :=
  match ins, outs with
  | [xsJ], [scJ, siJ] =>
    match xsJ.rats?, scJ.flt?, siJ.flt? with
    | some xs, some sc, some si =>
      let (a, b) := bandwidths xs
      let rt := bwTol xs
      verdictOf (if xs.length ≥ 3 then "nt bandwidth" else "tr bandwidth")
        [("bandwidth-scott", relIn sc a rt, s!"go={sc.str} model=[{ratStr a.lo},{ratStr a.hi}]"),
         ("bandwidth-silverman", relIn si b rt, s!"go={si.str} model=[{ratStr b.lo},{ratStr b.hi}]")]
    | _, _, _ => .badOp "bw: parse"
  | _, _ => .badOp "bw: arity"

def handleKDE (ins outs : List J) : Verdict :=
  match ins, outs with
  | [xsJ, wsJ, .atom kn, hJ, mnJ, mxJ, qsJ], [pdfJ, cdfJ, bloJ, bhiJ, bwJ] =>
    match xsJ.rats?, hJ.rat?, parseBnd mnJ mxJ, qsJ.rats?, pdfJ.flts?, cdfJ.flts?, bloJ.flt?, bhiJ.flt?, bwJ.flt? with
    | some xs, some h0, some b, some qs, some gp, some gc, some blo, some bhi, some bwAfter =>
      let ws : List Rat := match wsJ with | .atom "-" => xs.map fun _ => 1 | j => (j.rats?).getD []
      let k : Kern := if kn == "epan" then .epan else if kn == "gauss" then .gauss else .delta
      -- zero bandwidth selects Scott's rule, filled in lazily
      let scott := (bandwidths xs).1
      let bwChecks := if h0 == 0 then [("bandwidth-lazy-scott", relIn bwAfter scott (bwTol xs), s!"Bandwidth after first use {bwAfter.str}, Scott [{ratStr scott.lo},{ratStr scott.hi}]")]
                      else [("bandwidth-kept", bwAfter == .fin h0, s!"Bandwidth changed to {bwAfter.str}")]
      let h : Rat := if h0 == 0 then (match bwAfter with | .fin v => v | _ => 1) else h0
      if h ≤ 0 then .skip "degenerate bandwidth" else
      let nI := nImages k h b
      if nI * xs.length * qs.length > 24000 then .skip "too many images for the exact model" else
      let pdfM (x : Rat) : I := pdfB iOps (wavgI (kernPDF k h) xs ws) b nI x
      let cdfM (x : Rat) : I := cdfB iOps (wavgI (kernCDF k h) xs ws) b nI x
      let nonneg := gp.all fun v => match v with | .fin q => decide (q ≥ 0) | .pinf => true | _ => false
      let inUnit := gc.all fun v => match v with | .fin q => decide (-(1 / 1000000000000) ≤ q ∧ q ≤ 1 + 1 / 1000000000000) | _ => false
      -- queries are sent ascending: CDF must be non-decreasing
      let mono := (gc.zip (gc.drop 1)).all fun (a, b) => match a, b with | .fin p, .fin q => decide (p ≤ q + 1 / 1000000000000) | _, _ => false
      -- likewise the density of an unbounded Gaussian estimate is an average of positive terms: it is held to its
      -- own size, down to a few units of the smallest subnormal times the factor 1/h the code multiplies by
      let inTolRelP (g : V) (e : I) : Bool :=
        match g with
        | .fin v => let t := 8 * pow2 (-1074) * (1 + 1 / h) + (1 / 1000000000) * ratMax (ratAbs e.lo) (ratAbs e.hi); decide (e.lo - t ≤ v ∧ v ≤ e.hi + t)
        | _ => false
      let relPDF := (match b with | .none => true | _ => false) && k == .gauss && ws.all (· ≥ 0)
      let pdfX (x : Rat) : I := wavgExact (gaussPDFX h) xs ws x
      let cdfX (x : Rat) : I := wavgExact (fun u => I.Phi (u / h)) xs ws x
      let pdfOk := k == .delta || (qs.zip gp).all fun (x, g) => if relPDF then inTolRelP g (pdfX x) else inTol g (pdfM x)
      -- without boundaries the CDF is an average of kernel CDFs (non-negative terms): in the lower half it is
      -- held to its own size (1e-9 relative), however small
      let inTolRel (g : V) (e : I) : Bool :=
        match g with
        | .fin v => let t := 1 / pow2 1000 + (1 / 1000000000) * ratMax (ratAbs e.lo) (ratAbs e.hi); decide (e.lo - t ≤ v ∧ v ≤ e.hi + t)
        | _ => false
      let relCDF := (match b with | .none => true | _ => false) && k == .gauss
      let cdfOk := (qs.zip gc).all fun (x, g) => let e := cdfM x; if relCDF && relPDF && e.hi < 1 / 2 then inTolRel g (cdfX x) else inTol g e
      let firstBad : String := match (qs.zip (gp.zip gc)).find? (fun (x, g, c) => !(k == .delta || (if relPDF then inTolRelP g (pdfX x) else inTol g (pdfM x))) || !inTol c (cdfM x)) with
        | some (x, g, c) =>
          let sci (q : Rat) : String := if q == 0 then "0" else let e := I.ilog2 (ratAbs q); s!"{ratStr (q / pow2 e)}*2^{e}"
          let gs (v : V) : String := match v with | .fin q => sci q | v => v.str
          let pm := if relPDF then pdfX x else pdfM x
          s!"x={ratStr x} pdf go={gs g} model=[{sci pm.lo},{sci pm.hi}] cdf go={gs c} model=[{sci (cdfM x).lo},{sci (cdfM x).hi}]"
        | none => ""
      -- Bounds: finite, ordered, inside the boundaries, at least 98 % of the mass
      let boundsChecks := match blo, bhi with
        | .fin lo, .fin hi =>
          let inside := match b with
            | .none => true
            | .lower mn => lo ≥ mn
            | .upper mx => hi ≤ mx
            | .both mn mx => lo ≥ mn && hi ≤ mx
          let padLo := if k == .delta then lo - (1 / 1000000000) * (ratAbs lo + 1) else lo
          let padHi := if k == .delta then hi + (1 / 1000000000) * (ratAbs hi + 1) else hi
          -- at the upper boundary CDF jumps to 1 by definition: evaluate just inside
          let hiEval := match b with | .upper mx => (if padHi ≥ mx then mx - (mx - lo) / pow2 60 else padHi) | .both _ mx => (if padHi ≥ mx then mx - (mx - lo) / pow2 60 else padHi) | _ => padHi
          let mass := (I.sub (cdfM hiEval) (cdfM padLo)).hi
          let massTop := match b with | .upper mx => (if padHi ≥ mx then (I.sub (I.ofRat 1) (cdfM padLo)).hi else mass) | .both _ mx => (if padHi ≥ mx then (I.sub (I.ofRat 1) (cdfM padLo)).hi else mass) | _ => mass
          [("bounds-ordered", lo ≤ hi, s!"[{ratStr lo},{ratStr hi}]"),
           ("bounds-inside-boundaries", inside, s!"[{ratStr lo},{ratStr hi}]"),
           ("bounds-98-percent", massTop ≥ 98 / 100 - 1 / 1000000000, s!"[{ratStr lo},{ratStr hi}] holds {ratStr massTop}")]
        | _, _ => [("bounds-finite", false, s!"{blo.str},{bhi.str}")]
      let tag := "nt " ++ kn ++ (match b with | .none => " unbounded" | .lower _ => " lower" | .upper _ => " upper" | .both .. => " both") ++
        (if wsJ.str? == some "-" then "" else " weighted") ++ (if h0 == 0 then " scott" else "")
      verdictOf tag
        (bwChecks ++ [("pdf-nonnegative", nonneg, "negative density"), ("cdf-in-unit-interval", inUnit, "CDF outside [0,1]"),
          ("cdf-monotone", mono, "CDF decreases on an ascending grid"),
          ("kde-pdf", pdfOk, firstBad), ("kde-cdf", cdfOk, firstBad)] ++ boundsChecks)
    | _, _, _, _, _, _, _, _, _ => .badOp "kde: parse"
  | _, _ => .badOp "kde: arity"

end MV.KDE
