import MV.Model.MWU
import MV.Model.Interval
/-! Driver for C01/C02/C03: ops `ud` and `mwu`. -/
namespace MV.MWU
open MV MV.UDist

def rtolP : Rat := 1 / 1000000000
def atolP : Rat := 1 / 1000000000000

/-- Tied counts are divided by `Choose(N1+N2,N1)`, which the code evaluates as `exp` of a difference of
`lgamma` values of size about (N+1)·ln(N+1): its relative accuracy is a few ulps of that size (1e-13 at
N = 50, 4e-8 at N = 2·10⁶) and no formula of this shape delivers more. -/
def rtolUD (n1 n2 : Nat) : Rat :=
  let n := n1 + n2 + 1
  rtolP + ((n * (Nat.log2 n + 1) : Nat) : Rat) / pow2 50

def handleUD (ins outs : List J) : Verdict :=
  match ins, outs with
  | [n1J, n2J, tJ, .atom what, uJ], [outJ] =>
    match n1J.nat?, n2J.nat?, tJ.nats?, uJ.flt?, outJ.flt? with
    | some n1, some n2, some t, some (.fin u), some go =>
      let ties := hasTies t
      let ntag := (if (ties && t.length ≥ 2) || (!ties && n1 + n2 ≥ 6) then "nt" else "tr") ++
        (if ties then " tied" else " untied") ++ (if n1 + n2 > 14 then " large" else " small")
      if what == "cdf" then
        -- few ranks or a small first sample in a large pool: the allocation vectors of the right sum are far
        -- fewer than the attainable statistics (`cdfSparse_eq_cdf`)
        let sparse := ties && sparseCost t n1 * 64 < 2 * n1 * n2
        let m := if sparse then cdfSparse n1 n2 t u else if !ties && n1 + n2 > 40 then cdfUntiedMW n1 n2 u else cdf n1 n2 t u
        -- cross-check of the two executable tables on small untied cases
        let cross := ties || n1 + n2 > 12 || cdfUntiedMW n1 n2 u == cdf n1 n2 t u
        verdictOf ntag
          [("model-tables-agree", cross, "fwdDP vs Mann-Whitney table"),
           -- a CDF value is a sum of non-negative counts over one binomial coefficient: it is held to its own
           -- size (1e-9 relative) however small; the absolute allowance only covers values rounding to 1
           ("udist-cdf", closeV go (.fin m) (if m < 1 / 2 then 1 / pow2 1000 else atolP) (rtolUD n1 n2), s!"go={go.str} model={ratStr m}")]
      else if what == "pmf" then
        let n12 : Rat := ((n1 * n2 : Nat) : Rat)
        if u < 0 || u ≥ n12 + 1 / 2 then
          verdictOf ntag [("udist-pmf-outside", go == .fin 0, s!"go={go.str}")]
        else
          let twoU := (2 * u).floor
          let onGrid := if ties then ((2 * u).floor : Rat) == 2 * u else (u.floor : Rat) == u
          if !onGrid then .skip "pmf off-grid"
          else
            let m := if ties && sparseCost t n1 * 64 < 2 * n1 * n2 then pmfAtSparse n1 n2 t twoU else pmfAt n1 n2 t twoU
            if m == 0 then .skip "pmf unattainable"
            else verdictOf ntag [("udist-pmf", closeV go (.fin m) atolP (rtolUD n1 n2), s!"go={go.str} model={ratStr m}")]
      else .badOp "ud: what"
    | _, _, _, _, _ => .badOp "ud: parse"
  | [n1J, n2J, _tJ, .atom "bounds"], [loJ, hiJ, stepJ] =>
    match n1J.nat?, n2J.nat?, loJ.flt?, hiJ.flt?, stepJ.flt? with
    | some n1, some n2, some lo, some hi, some st =>
      verdictOf "tr" [("udist-bounds", lo == .fin 0 && hi == .fin ((n1 * n2 : Nat) : Rat), s!"{lo.str} {hi.str}"),
                      ("udist-step", st == .fin (1 / 2), st.str)]
    | _, _, _, _, _ => .badOp "ud bounds: parse"
  | _, _ => .badOp "ud: arity"

def altOf (i : Int) : Option Alt :=
  if i == -1 then some .less else if i == 0 then some .differs else if i == 1 then some .greater else none

/-- enclosure of the normal-approximation p-value -/
def approxP (alt : Alt) (numer var : Rat) : I :=
  let sd := I.sqrt (I.ofRat var)
  let z := I.div (I.ofRat numer) sd
  let cdfI : I := ⟨(I.Phi z.lo).lo, (I.Phi z.hi).hi⟩
  match alt with
  | .less => cdfI
  | .greater => I.sub (I.ofRat 1) cdfI
  | .differs =>
    let up := I.sub (I.ofRat 1) cdfI
    let mn : I := ⟨ratMin cdfI.lo up.lo, ratMin cdfI.hi up.hi⟩
    I.scale 2 mn

def handleMWU (ins outs : List J) : Verdict :=
  match ins with
  | [x1J, x2J, altJ, elJ, tlJ] =>
    match x1J.rats?, x2J.rats?, altJ.int? >>= altOf, elJ.int?, tlJ.int? with
    | some x1, some x2, some alt, some el, some tl =>
      let res := mwuTest x1 x2 alt el tl
      let ties := hasTies ((tieGroups x1 x2).map (·.1))
      let altS := match alt with | .less => "less" | .differs => "differs" | .greater => "greater"
      let base := (if ties || (x1.length ≥ 3 && x2.length ≥ 3) then "nt " else "tr ") ++ altS ++ (if ties then " tied" else " untied")
      let uOk := x1.isEmpty || x2.isEmpty || uFromRanks x1 x2 == pairU x1 x2
      match outs, res with
      | [.atom "err", .atom "size", argsJ], .errSize =>
        verdictOf (base ++ " errsize") [("args-unmodified", argsJ.nat? == some 1, "slices changed")]
      | [.atom "err", .atom "equal", argsJ], .errEqual =>
        verdictOf (base ++ " errequal") [("args-unmodified", argsJ.nat? == some 1, "slices changed")]
      | [n1J, n2J, uJ, pJ, argsJ], .exact n1 n2 u p pinned =>
        match n1J.nat?, n2J.nat?, uJ.flt?, pJ.flt? with
        | some g1, some g2, some gu, some gp =>
          let pre := [("model-U-eq-pairU", uOk, "uFromRanks ≠ pairU"),
                      ("args-unmodified", argsJ.nat? == some 1, "slices changed"),
                      ("N1N2", g1 == n1 && g2 == n2, s!"go {g1},{g2}"),
                      ("U", gu == .fin u, s!"go={gu.str} model={ratStr u}"),
                      ("P-range", (match gp with | .fin q => decide (-atolP ≤ q ∧ q ≤ 1 + atolP) | _ => false), s!"go={gp.str}")]
          match firstFail pre with
          | some (c, d) => .fail c d
          | none =>
            -- LocationLess reads the CDF directly: relative accuracy in the lower tail; the other alternatives go
            -- through 1 - CDF and only resolve absolutely
            let atolE : Rat := if alt == .less && p < 1 / 2 then 1 / pow2 1000 else atolP
            if closeV gp (.fin p) atolE rtolP then .ok (base ++ " exact")
            else if alt == .differs && ties && closeV gp (.fin pinned) atolP rtolP then
              .known "F1c-two-sided-exact-asymmetric-ties" s!"go={gp.str} spec={ratStr p} pinned-formula={ratStr pinned}"
            else .fail "exact-P" s!"go={gp.str} spec={ratStr p}"
        | _, _, _, _ => .badOp "mwu: parse out"
      | [n1J, n2J, uJ, pJ, argsJ], .approx n1 n2 u numer var =>
        match n1J.nat?, n2J.nat?, uJ.flt?, pJ.flt? with
        | some g1, some g2, some gu, some (.fin gp) =>
          let pI := approxP alt numer var
          -- the formula evaluates Φ(z) directly (z < 0, lower tail) or as 1 − Φ(z): in the first case the
          -- p-value is held to its own size however small, in the second to the absolute resolution of 1 − Φ
          let direct := (alt == .less || alt == .differs) && numer < 0
          let atolA : Rat := if direct then 1 / pow2 1000 else 1 / pow2 48
          verdictOf (base ++ " approx" ++ (if direct && pI.hi < 1 / 1000000000000 then " deep-tail" else ""))
            [("model-U-eq-pairU", uOk, "uFromRanks ≠ pairU"),
             ("args-unmodified", argsJ.nat? == some 1, "slices changed"),
             ("N1N2", g1 == n1 && g2 == n2, s!"go {g1},{g2}"),
             ("U", gu == .fin u, s!"go={gu.str} model={ratStr u}"),
             ("P-range", decide (-atolP ≤ gp ∧ gp ≤ 1 + atolP), s!"go={ratStr gp}"),
             ("approx-P", decide (pI.lo - atolA - rtolP * pI.hi ≤ gp ∧ gp ≤ pI.hi + atolA + rtolP * pI.hi),
               s!"go={ratStr gp} model=[{ratStr pI.lo},{ratStr pI.hi}] numer={ratStr numer} var={ratStr var}")]
        | _, _, _, _ => .badOp "mwu: parse out"
      | _, .errSize => .fail "error-kind" s!"model expects ErrSampleSize, go returned {" ".intercalate (outs.map J.render)}"
      | _, .errEqual => .fail "error-kind" s!"model expects ErrSamplesEqual, go returned {" ".intercalate (outs.map J.render)}"
      | _, _ => .fail "error-kind" s!"model expects a result, go returned {" ".intercalate (outs.map J.render)}"
    | _, _, _, _, _ => .badOp "mwu: parse"
  | _ => .badOp "mwu: arity"

end MV.MWU
