import MV.Model.Purity
/-! Driver for C20: `pure objs prefix block => prefixObs blockObs`. -/
namespace MV.Purity
open MV

def parseCall (j : J) : Option Call :=
  match j with
  | .arr (.atom name :: rest) =>
    -- object ids are plain naturals; scalar parameters are float-encoded (contain 'p' or are inf/nan)
    let ids := rest.filterMap fun t => match t with | .atom s => if s.contains 'p' || s == "nan" || s == "+inf" || s == "-inf" then none else s.toNat? | _ => none
    let ps := rest.filterMap fun t => t.rat?
    some ⟨name, ids, ps⟩
  | _ => none

def aliasPairs (objs : List J) : List (Nat × Nat) :=
  (objs.zip (List.range objs.length)).filterMap fun (o, i) =>
    match o with
    | .arr [.atom "s", .atom "alias", fid, _] => fid.nat?.map fun f => (i, f)
    | _ => none

def handle (ins outs : List J) : Verdict :=
  match ins, outs with
  | [objsJ, preJ, blockJ], [preObsJ, blockObsJ] =>
    match objsJ.list?, preJ.list? >>= (·.mapM parseCall), blockJ.list? >>= (·.mapM parseCall), preObsJ.natss?, blockObsJ.list? with
    | some objs, some pre, some block, some preObs, some blockObs =>
      let al := aliasPairs objs
      if pre.length != preObs.length || block.length != blockObs.length then .badOp "pure: observation count" else
      let preChecks := (pre.zip preObs).map fun (c, ch) =>
        let ws := writeSet al c
        if mutating c.name then
          ("undocumented-write", ch.all (fun i => ws.contains i), s!"{c.name}{toString c.args} changed objects {toString ch}, documented write set {toString ws}")
        else
          ("input-modified", ch.isEmpty, s!"{c.name}{toString c.args} changed objects {toString ch}")
      let blockChecks := (block.zip blockObs).flatMap fun (c, ob) =>
        match ob with
        | .arr [chJ, repJ, concJ] =>
          let ch := chJ.nats?.getD [999999]
          [("block-op-is-pure", !mutating c.name, s!"{c.name} is a mutator inside the pure block"),
           ("input-modified", ch.isEmpty, s!"{c.name}{toString c.args} changed objects {toString ch}"),
           ("nondeterministic-repeat", repJ.nat? == some 1, s!"{c.name}{toString c.args}: a repeated call returned different bits"),
           ("concurrent-differs", concJ.nat? == some 1, s!"{c.name}{toString c.args}: a concurrent call returned different bits")]
        | _ => [("parse", false, "block observation")]
      let nmut := (pre.filter fun c => mutating c.name).length
      verdictOf s!"nt block={min block.length 40} mutators={min nmut 9}" (preChecks ++ blockChecks)
    | _, _, _, _, _ => .badOp "pure: parse"
  | _, _ => .badOp "pure: arity"

end MV.Purity
