import MV.Model.QCI
import MV.Model.Sample
import MV.Model.Interval
/-! Driver for C11: `qci n q [c…]` and `sci n q c xs sorted`. -/
namespace MV.QCI
open MV MV.Discrete

def tolP : Rat := 1 / 1000000000000
def thr : Nat := 30

/-- does the exact greedy run meet a float-sensitive comparison? -/
def nearTie (n : Nat) (q c : Rat) : Bool :=
  let x := startBucket n q
  let rec go (f : Nat) (l r : Int) (acc : Rat) : Bool :=
    match f with
    | 0 => false
    | f + 1 =>
      let lp := binomPMF n q (l - 1); let rp := binomPMF n q r
      let tie := ratAbs (lp - rp) ≤ tolP * ratMax lp rp && (lp > 0 || rp > 0)
      let edge := ratAbs (acc - c) ≤ tolP
      if edge then true
      else if acc < c ∧ (lp > 0 ∨ rp > 0) then
        if tie then true
        else if lp ≥ rp then go f (l - 1) r (acc + lp) else go f l (r + 1) (acc + rp)
      else false
  let a0 := binomPMF n q x
  let mq := ((n + 1 : Nat) : Rat) * q
  let nearInt := ratAbs (mq - ((mq + 1 / 2).floor : Int)) ≤ 1 / 1000000000 && q != 0
  -- exact integers are decided the same way by the float code when (n+1)q is computed exactly
  let exactInt := mq == ((mq.floor : Int) : Rat)
  (nearInt && !exactInt) || ratAbs (binomPMF n q (x + 1) - a0) ≤ tolP * a0 || go (n + 2) x (x + 1) a0

/-- z with Φ(z) = α by bisection on the enclosure; returns an interval containing the root -/
def invPhi (alpha : Rat) : I :=
  let rec go (f : Nat) (lo hi : Rat) : I :=
    match f with
    | 0 => ⟨lo, hi⟩
    | f + 1 =>
      let m := I.rdn ((lo + hi) / 2)
      let p := I.Phi m
      if p.hi < alpha then go f m hi
      else if p.lo > alpha then go f lo m
      else ⟨lo, hi⟩      -- cannot decide further
  go 70 (-40) 40

/-- normal CDF at (x − μ)/σ as an enclosure; σ² = var may be 0 -/
def normCDF (mu var : Rat) (x : Rat) : I :=
  if var == 0 then (if x > mu then I.ofRat 1 else I.ofRat 0)
  else
    let sd := I.sqrt (I.ofRat var)
    let z := I.div (I.ofRat (x - mu)) sd
    ⟨(I.Phi z.lo).lo, (I.Phi z.hi).hi⟩

structure GoRes where
  lo : Int
  hi : Int
  conf : V
  amb : Bool
  nEcho : Int
  qEcho : V

def parseRes (j : J) : Option GoRes :=
  match j with
  | .arr [lo, hi, conf, amb, ne, qe] => do pure ⟨← lo.int?, ← hi.int?, ← conf.flt?, (← amb.nat?) == 1, ← ne.int?, ← qe.flt?⟩
  | _ => none

/-- property clauses for the exact branch on Go's own output -/
def holdsExact (n : Nat) (q c : Rat) (g : GoRes) : List (String × Bool × String) :=
  match g.conf with
  | .fin conf =>
    let pm (k : Int) := binomPMF n q k
    let m := mass n q g.lo g.hi
    let whole := g.lo ≤ 0 && g.hi ≥ n + 1
    let x := startBucket n q
    let x2 : Int := (((n + 1 : Nat) : Rat) * q).floor    -- the other mode when (n+1)q is an integer
    -- (n+1)q within rounding distance of an integer m: buckets m-1 and m have equal mass up to rounding
    let mq := ((n + 1 : Nat) : Rat) * q
    let mr : Int := (mq + 1 / 2).floor
    let nearInt := ratAbs (mq - mr) ≤ 1 / 1000000000
    [("echo", g.nEcho == n && g.qEcho == .fin q, "N/Quantile not echoed"),
     ("orders", 0 ≤ g.lo && g.lo < g.hi && g.hi ≤ n + 1, s!"lo={g.lo} hi={g.hi}"),
     ("confidence-is-mass", closeR conf m tolP 0, s!"conf={ratStr conf} mass[{g.lo},{g.hi})={ratStr m}"),
     ("confidence-at-least-c", c ≥ 1 || whole || conf ≥ c - tolP, s!"conf={ratStr conf} c={ratStr c}"),
     ("contains-mode", c ≥ 1 || (g.lo ≤ x && x < g.hi) || (g.lo ≤ x2 && x2 < g.hi) ||
        (nearInt && ((g.lo ≤ mr - 1 && mr - 1 < g.hi) || (g.lo ≤ mr && mr < g.hi))), s!"mode bucket {x} not in [{g.lo},{g.hi})"),
     ("end-bucket-needed", c ≥ 1 || g.hi - g.lo ≤ 1 || m - pm g.lo < c + tolP || m - pm (g.hi - 1) < c + tolP,
        s!"[{g.lo},{g.hi}) conf={ratStr conf} c={ratStr c}: both end buckets can be dropped"),
     ("ambiguous-shift", !g.amb || closeR (mass n q (g.lo + 1) (g.hi + 1)) m tolP 0, s!"shifted mass {ratStr (mass n q (g.lo + 1) (g.hi + 1))} vs {ratStr m}")]
  | _ => [("confidence-finite", false, g.conf.str)]

/-- the normal-approximation branch: admissible (lo, hi) pairs and checks -/
def holdsApprox (n : Nat) (q c : Rat) (g : GoRes) : Verdict :=
  match g.conf with
  | .fin conf =>
    let mu : Rat := n * q
    let var : Rat := n * q * (1 - q)
    let pre := [("echo", g.nEcho == n && g.qEcho == .fin q, "N/Quantile not echoed"),
                ("orders", 0 ≤ g.lo && g.lo < g.hi && g.hi ≤ n + 1, s!"lo={g.lo} hi={g.hi}"),
                ("confidence-at-least-c", c ≤ 0 || conf ≥ c - tolP, s!"conf={ratStr conf} c={ratStr c}")]
    match firstFail pre with
    | some (cl, d) => .fail cl d
    | none =>
      if c ≤ 0 then .ok "nt approx c<=0"
      else
      let alpha := (1 - c) / 2
      -- l1 = μ + σ z_α as an enclosure
      let z := invPhi alpha
      let sd := I.sqrt (I.ofRat var)
      let l1 := I.add (I.ofRat mu) (I.mul sd z)
      let l1 := ⟨l1.lo - 1 / 100000000, l1.hi + 1 / 100000000⟩     -- InvCDF accuracy of the code (1e-9 relative) in x units
      let r1 : I := I.sub (I.ofRat (2 * mu)) l1
      let ls : List Int := let a := (l1.lo - 1 / 2).floor + 1; let b := (l1.hi - 1 / 2).floor + 1; if a == b then [a] else [a, b]
      let rs : List Int := let a := (r1.lo - 1 / 2).ceil + 1; let b := (r1.hi - 1 / 2).ceil + 1; if a == b then [a] else [a, b]
      let clampL (l : Int) : Int := if l < 0 then 0 else l
      let clampR (r : Int) : Int := if r > n + 1 then n + 1 else r
      -- admissible outcomes: (l, r) or, flagged Ambiguous, (l, r-1)
      let okPair := ls.any fun l => rs.any fun r0 =>
        let r := if r0 ≤ l then l + 1 else r0
        let band (l r : Int) : I := I.sub (normCDF mu var ((r : Rat) - 1 / 2)) (normCDF mu var ((l : Rat) - 1 / 2))
        let full (l r : Int) := l ≤ 0 && r ≥ n + 1
        let confOk (l r : Int) : Bool :=
          if full l r then closeR conf 1 tolP 0
          else let b := band l r; decide (b.lo - 1 / 10000000000000 ≤ conf ∧ conf ≤ b.hi + 1 / 10000000000000)   -- a difference of two float CDF values: 1e-13 absolute
        (g.lo == clampL l && g.hi == clampR r && (!g.amb || full l r == false) && confOk l r && (!g.amb)) ||
        (r - 1 > l && g.lo == clampL l && g.hi == clampR (r - 1) && (g.amb || full l (r - 1)) && confOk l (r - 1))
      verdictOf ("nt approx" ++ (if ls.length > 1 || rs.length > 1 then " rounding-edge" else ""))
        [("approx-band", okPair, s!"go [{g.lo},{g.hi}) conf={ratStr conf} amb={g.amb}; model l in {toString ls} r in {toString rs} l1=[{ratStr l1.lo},{ratStr l1.hi}]")]
  | _ => .fail "confidence-finite" g.conf.str

def handleQCI (ins outs : List J) : Verdict :=
  match ins, outs with
  | [nJ, qJ, csJ], [resJ] =>
    match nJ.nat?, qJ.rat?, csJ.rats?, resJ.list? >>= (·.mapM parseRes) with
    | some n, some q, some cs, some gs =>
      if gs.length != cs.length then .badOp "qci: result count" else
      if n ≤ thr then
        let per := (cs.zip gs).flatMap fun (c, g) => holdsExact n q c g
        -- nested as c grows (cs ascending)
        let nested := (gs.zip (gs.drop 1)).all fun (a, b) => b.lo ≤ a.lo && a.hi ≤ b.hi
        -- equality with the mirror off near-ties
        let eqs := (cs.zip gs).map fun (c, g) =>
          let m := qci n q c
          let tieFree := !(nearTie n q c) || (q == 1 / 2 && n ≤ 20)
          ("greedy-mirror", c ≥ 1 && g.lo == 0 && g.hi == n + 1 && g.conf == .fin 1 && !g.amb ||
             c < 1 && (!tieFree || (g.lo == m.lo && g.hi == m.hi && g.amb == m.amb)),
           s!"c={ratStr c} go [{g.lo},{g.hi}) amb={g.amb}; mirror [{m.lo},{m.hi}) amb={m.amb}")
        let ncmp := ((cs.filter fun c => c < 1 && (!(nearTie n q c) || (q == 1 / 2 && n ≤ 20)))).length
        verdictOf ((if n ≥ 2 && 0 < q && q < 1 then "nt" else "tr") ++ s!" exact compared={min ncmp 9}")
          (per ++ [("nested-in-c", nested, s!"n={n} q={ratStr q}")] ++ eqs)
      else
        -- approximate branch: judge each c on its own; report the first failure
        let vs := (cs.zip gs).map fun (c, g) =>
          if c ≥ 1 then
            verdictOf "nt approx c>=1" [("whole-range", g.lo == 0 && g.hi == n + 1 && g.conf == .fin 1 && !g.amb, s!"[{g.lo},{g.hi})")]
          else holdsApprox n q c g
        match vs.find? (fun v => match v with | .fail .. => true | _ => false) with
        | some v => v
        | none => .ok ("nt approx n=" ++ (if n ≤ 100 then "<=100" else ">100"))
    | _, _, _, _ => .badOp "qci: parse"
  | _, _ => .badOp "qci: arity"

def handleSCI (ins outs : List J) : Verdict :=
  match ins, outs with
  | [nJ, qJ, _cJ, xsJ, sJ], [loJ, hiJ, valsJ, unmodJ] =>
    match nJ.nat?, qJ.rat?, xsJ.rats?, sJ.nat?, loJ.int?, hiJ.int?, valsJ.flts?, unmodJ.nat? with
    | some n, some q, some xs, some sf, some lo, some hi, some [qv, vlo, vhi], some unmod =>
      let srt := (Sample.sortP (xs.map fun x => (x, (1 : Rat)))).map (·.1)
      let s : Sample.S := ⟨xs, none, sf == 1⟩
      let wantLo : V := if lo < 1 then .ninf else .fin (srt.getD (lo - 1).toNat 0)
      let wantHi : V := if hi - 1 ≥ n then .pinf else .fin (srt.getD (hi - 1).toNat 0)
      let M := (xs.map ratAbs).foldl ratMax 0
      let gaps := (srt.zip (srt.drop 1)).map fun (a, b) => ratAbs (b - a)
      let tolQ := 32 * pow2 (-52) * (((n + 1 : Nat) : Rat) * gaps.foldl ratMax 0 + M)
      verdictOf (if n ≥ 3 then "nt sampleci" else "tr sampleci")
        [("sampleci-lo", vlo == wantLo, s!"lo order {lo}: go {vlo.str} want {wantLo.str}"),
         ("sampleci-hi", vhi == wantHi, s!"hi order {hi}: go {vhi.str} want {wantHi.str}"),
         ("sampleci-quantile", closeV qv ((s.quantile q).map V.fin |>.getD .nan) tolQ 0, s!"go {qv.str}"),
         ("sampleci-unmodified", unmod == 1, "sample changed")]
    | _, _, _, _, _, _, _, _ => .badOp "sci: parse"
  | _, _ => .badOp "sci: arity"

end MV.QCI
