import MV.Model.Sample
import MV.Model.Interval
/-! Driver for C09/C10: `smp [ops]` histories over named samples, and `vec` ops. -/
namespace MV.Sample
open MV

def eps : Rat := pow2 (-52)

abbrev Heap := List (Nat × S)
def hget (h : Heap) (i : Nat) : S := ((h.find? fun p => p.1 == i).map (·.2)).getD ⟨[], none, false⟩
def hset (h : Heap) (i : Nat) (s : S) : Heap := (i, s) :: h.filter (fun p => p.1 != i)

def maxAbs (xs : List Rat) : Rat := (xs.map ratAbs).foldl ratMax 0

def optV (o : Option Rat) : V := match o with | some q => .fin q | none => .nan

/-- geometric mean enclosure: exp(Σ w log x / Σ w) for positive data -/
def geoI (xs ws : List Rat) : I :=
  let num := (xs.zip ws).foldl (fun acc (x, w) => I.add acc (I.scale w (I.logQ x))) (I.ofRat 0)
  I.exp (I.scale (1 / sum ws) num)

def sqV (v : V) : V := match v with | .fin q => .fin (q * q) | v => v
def nonneg (v : V) : Bool := match v with | .fin q => decide (q ≥ 0) | .nan => true | _ => false

/-- acceptable values of the weighted quantile allowing for rounding of W·q against the cumulative sums -/
def wquantAccept (ps : List (Rat × Rat)) (W q : Rat) : List Rat :=
  let t := W * q
  -- whole-number weights and a whole-number target W·q that is itself a float64: the code's product and every one
  -- of its subtractions are exact, so there is nothing to be ambiguous about (q = 3/4 of total weight 4 is the
  -- fourth unit, not "the third or the fourth")
  let exact := ps.all (fun p => p.2.den == 1 && p.2 ≥ 0) && W < pow2 50 && t.den == 1 && roundF64 q == q
  let d := if exact then 0 else 16 * eps * (ps.length + 1 : Nat) * (ratAbs W + 1)
  [wquant ps (t - d), wquant ps t, wquant ps (t + d)]

def quantAccept (s : S) (q : Rat) : Option (List Rat × Rat) :=   -- (acceptable centres, tolerance)
  if s.xs.isEmpty then none else
  let M := maxAbs s.xs
  if q ≤ 0 then s.bounds.map fun b => ([b.1], 0)
  else if q ≥ 1 then s.bounds.map fun b => ([b.2], 0)
  else
    let s' := if s.sorted then s else s.sort
    match s'.ws with
    | none =>
      let gaps := (s'.xs.zip (s'.xs.drop 1)).map fun (a, b) => ratAbs (b - a)
      let gap := gaps.foldl ratMax 0
      some ([r8 s'.xs q], 32 * eps * (((s'.xs.length + 1 : Nat) : Rat) * gap + M))
    | some ws => some (wquantAccept (s'.xs.zip ws) (sum ws) q, 0)

/-- from here on a float64 sum rounds to an infinity -/
def overflowF : Rat := pow2 1024 - pow2 970

/-- The code adds left to right in float64: when an exact prefix sum of the terms already lies beyond the
float64 range, the infinity of that sign is what the formula delivers. -/
def prefixOverflow (terms : List Rat) : Bool × Bool :=
  let (_, up, dn) := terms.foldl (fun (acc : Rat × Bool × Bool) t =>
    let a := acc.1 + t
    (a, acc.2.1 || a ≥ overflowF, acc.2.2 || a ≤ -overflowF)) (0, false, false)
  (up, dn)

def infOK (g : V) (terms : List Rat) : Bool :=
  let (up, dn) := prefixOverflow terms
  (g == .pinf && up) || (g == .ninf && dn) || (g == .nan && up && dn)

def checkOp (h : Heap) (op : List J) (out : J) : Heap × List (String × Bool × String) :=
  match op with
  | [.atom name, idJ] =>
    match idJ.nat? with
    | none => (h, [("parse", false, "id")])
    | some i =>
      let s := hget h i
      let n := s.xs.length
      let nr : Rat := ((n + 2 : Nat) : Rat)
      let M := maxAbs s.xs
      let ws := s.weightsD
      let weighted := s.ws.isSome
      let one (c : String) (b : Bool) (d : String) := (h, [(c, b, s!"sample#{i} n={n} {d}")])
      match name, out.flt?, out.flts? with
      | "mean", some g, _ =>
        if n == 0 then one "mean" (g == .nan) g.str
        else
          let m : Option Rat := if weighted then wmeanInc s.xs ws else some (meanInc s.xs)
          let spec : Option Rat := if weighted then (if sum ws == 0 then none else some (wmeanSpec s.xs ws)) else some (meanSpec s.xs)
          (h, [("model-mean-eq-spec", m == spec, s!"sample#{i}"),
               ("mean", closeV g (optV spec) (16 * nr * eps * M) 0, s!"sample#{i} n={n} go={g.str} spec={(optV spec).str}")])
      | "fmean", some g, _ =>
        if n == 0 then one "mean" (g == .nan) g.str
        else one "mean" (closeV g (.fin (meanSpec s.xs)) (16 * nr * eps * M) 0) s!"go={g.str} spec={ratStr (meanSpec s.xs)}"
      | "var", some g, _ =>
        if n == 0 then one "variance" (g == .nan) g.str
        else if n == 1 then one "variance" (g == .fin 0) g.str
        else
          let v := varSpec s.xs
          let mu := meanSpec s.xs
          let D := maxAbs (s.xs.map (· - mu))
          (h, [("model-var-eq-spec", varInc s.xs == v, s!"sample#{i}"),
               -- the sum of squared deviations itself beyond (or within a factor 16 of the end of) the float64
               -- range: +Inf is what Welford's update delivers
               ("variance", closeV g (.fin v) (16 * nr * eps * (M * D + D * D)) 0 || (g == .pinf && v * ((n - 1 : Nat) : Rat) ≥ pow2 1020), s!"sample#{i} n={n} go={g.str} spec={ratStr v}")])
      | "sd", some g, _ =>
        if n == 0 then one "stddev" (g == .nan) g.str
        else if n == 1 then one "stddev" (g == .fin 0) g.str
        else
          let v := varSpec s.xs
          let mu := meanSpec s.xs
          let D := maxAbs (s.xs.map (· - mu))
          one "stddev" ((nonneg g && closeV (sqV g) (.fin v) (16 * nr * eps * (M * D + D * D)) (8 * eps)) || (g == .pinf && v * ((n - 1 : Nat) : Rat) ≥ pow2 1020)) s!"go={g.str} var={ratStr v}"
      | "geo", some g, _ =>
        if n == 0 then one "geomean" (g == .nan) g.str
        else if !weighted && s.xs.any (· ≤ 0) then one "geomean-nonpositive" (g == .nan) g.str
        else if sum ws == 0 then one "geomean" (g == .nan) g.str     -- nothing counts: as for an empty sample
        else
          -- values of weight zero do not count (integer weights = repetition); a non-positive value that
          -- counts makes the result NaN, as for unweighted data. For non-integer weights with a
          -- counting non-positive value the property says nothing.
          let live := (s.xs.zip ws).filter fun (_, w) => w != 0
          let intW := ws.all fun w => w.den == 1 && w ≥ 0
          if live.any (fun (x, _) => x ≤ 0) then
            (if intW then one "geomean-nonpositive" (g == .nan) s!"weighted, a value <= 0 with positive weight: go={g.str}" else (h, []))
          else
          let e := geoI (live.map (·.1)) (live.map (·.2))
          let tol := 32 * nr * eps * (1 + ratAbs (I.logQ e.hi).hi + ratAbs (I.logQ e.lo).lo)
          one "geomean" (match g with | .fin q => decide (e.lo * (1 - tol) ≤ q ∧ q ≤ e.hi * (1 + tol)) | _ => false)
            s!"go={g.str} model=[{ratStr e.lo},{ratStr e.hi}]"
      | "sum", some g, _ =>
        let sa := sum ((s.xs.zip ws).map fun (x, w) => ratAbs (x * w))
        one "sum" (closeV g (.fin s.total) (4 * nr * eps * sa) 0 || infOK g ((s.xs.zip ws).map fun (x, w) => x * w)) s!"go={g.str} model={ratStr s.total}"
      | "weight", some g, _ =>
        one "weight" (closeV g (.fin s.weight) (4 * nr * eps * sum (ws.map ratAbs)) 0) s!"go={g.str} model={ratStr s.weight}"
      | "bounds", _, some [lo, hi] =>
        (match s.bounds with
         | none => one "bounds" (lo == .nan && hi == .nan) s!"go={lo.str},{hi.str} model=nan"
         | some (a, b) => one "bounds" (lo == .fin a && hi == .fin b) s!"go={lo.str},{hi.str} model={ratStr a},{ratStr b}")
      | "fbounds", _, some [lo, hi] =>
        if n == 0 then one "bounds" (lo == .nan && hi == .nan) "empty"
        else one "bounds" (lo == .fin (minL s.xs) && hi == .fin (maxL s.xs)) s!"go={lo.str},{hi.str}"
      | "iqr", some g, _ =>
        (match quantAccept s (3/4), quantAccept s (1/4), g with
         | none, _, .nan => one "iqr" true ""
         | some (a, ta), some (b, tb), .fin q =>
           one "iqr" (a.any fun x => b.any fun y => closeR q (x - y) (ta + tb + 8 * eps * M) 0) s!"go={ratStr q} model={ratStr (a.head! - b.head!)}"
         | _, _, _ => one "iqr" false s!"go={g.str}")
      | "sort", _, _ => (hset h i s.sort, [])
      | "dump", _, _ =>
        (match out with
         | .arr [xsJ, wsJ, flagJ] =>
           (match xsJ.rats?, flagJ.nat? with
            | some gx, some gf =>
              let gw : Option (List Rat) := match wsJ with | .atom "-" => none | j => j.rats?
              let pairs (xs : List Rat) (w : Option (List Rat)) := sortP (xs.zip (w.getD (xs.map fun _ => 1)))
              -- same multiset of (x,w) pairs; same order as the model unless ties in x reorder weights
              let same := (sortP ((pairs gx gw).map fun (x, w) => (w, x))) == (sortP ((pairs s.xs s.ws).map fun (x, w) => (w, x)))
              let orderOk := gx == s.xs && (gw.isSome == s.ws.isSome)
              one "sample-state" (same && orderOk && (gf == 1) == s.sorted && (!s.sorted || isAscending gx))
                s!"go xs={toString (gx.map ratStr)} sorted={gf}; model xs={toString (s.xs.map ratStr)} sorted={s.sorted}"
            | _, _ => (h, [("parse", false, "dump")]))
         | _ => (h, [("parse", false, "dump shape")]))
      | _, _, _ => (h, [("parse", false, s!"op {name}")])
  | [.atom "quant", idJ, qJ] =>
    match idJ.nat?, qJ.rat?, out.flt? with
    | some i, some q, some g =>
      let s := hget h i
      (match quantAccept s q, g with
       | none, .nan => (h, [])
       | some (acc, tol), .fin v =>
         (h, [("quantile", acc.any (fun c => closeR v c tol 0), s!"sample#{i} n={s.xs.length} q={ratStr q} go={ratStr v} model={ratStr acc.head!}"),
              ("quantile-bounded", decide (minL s.xs ≤ v ∧ v ≤ maxL s.xs), s!"go={ratStr v}")])
       | _, _ => (h, [("quantile", false, s!"sample#{i} q={ratStr q} go={g.str}")]))
    | _, _, _ => (h, [("parse", false, "quant")])
  | [.atom "copy", idJ, newJ] =>
    match idJ.nat?, newJ.nat?, out.nat? with
    | some i, some k, some fresh => (hset h k (hget h i), [("copy-no-shared-storage", fresh == 1, s!"sample#{i}")])
    | _, _, _ => (h, [("parse", false, "copy")])
  | [.atom "new", idJ, xsJ, wsJ, sJ] =>
    match idJ.nat?, xsJ.rats?, sJ.nat? with
    | some i, some xs, some sf =>
      let ws : Option (List Rat) := match wsJ with | .atom "-" => none | j => j.rats?
      (hset h i ⟨xs, ws, sf == 1⟩, [])
    | _, _, _ => (h, [("parse", false, "new")])
  | _ => (h, [("parse", false, "op shape")])

/-- ops that produce an output token -/
def hasOut (op : List J) : Bool :=
  match op with
  | .atom n :: _ => !(n == "new" || n == "sort")
  | _ => false

def handle (ins outs : List J) : Verdict :=
  match ins, outs with
  | [opsJ], [outsJ] =>
    match opsJ.list?, outsJ.list? with
    | some ops, some outL =>
      let rec go (h : Heap) (ops : List J) (outL : List J) (acc : List (String × Bool × String)) : List (String × Bool × String) :=
        match ops with
        | [] => acc
        | .arr op :: rest =>
          if hasOut op then
            match outL with
            | o :: os => let (h', cs) := checkOp h op o; go h' rest os (acc ++ cs)
            | [] => acc ++ [("output-count", false, "missing")]
          else let (h', cs) := checkOp h op (.atom "-"); go h' rest outL (acc ++ cs)
        | _ :: _ => acc ++ [("parse", false, "op")]
      let checks := go [] ops outL []
      if checks.any (fun c => c.1 == "parse") then .badOp "smp: parse"
      else
        let nq := (ops.filter fun o => match o with | .arr (.atom n :: _) => n != "new" | _ => false).length
        let hasSort := ops.any fun o => match o with | .arr (.atom "sort" :: _) => true | _ => false
        let hasW := ops.any fun o => match o with | .arr [.atom "new", _, _, .arr _, _] => true | _ => false
        verdictOf ((if nq ≥ 2 then "nt" else "tr") ++ (if hasSort then " sort" else "") ++ (if hasW then " weighted" else " unweighted")) checks
    | _, _ => .badOp "smp: shape"
  | _, _ => .badOp "smp: arity"

/-- `vec` ops -/
def handleVec (ins outs : List J) : Verdict :=
  match ins, outs with
  | [.atom "sum", xsJ], [gJ] =>
    match xsJ.rats?, gJ.flt? with
    | some xs, some g => verdictOf (if xs.length ≥ 2 then "nt sum" else "tr sum")
        [("vec-sum", closeV g (.fin (sum xs)) (4 * ((xs.length + 1 : Nat) : Rat) * eps * sum (xs.map ratAbs)) 0 || infOK g xs, s!"go={g.str} model={ratStr (sum xs)}")]
    | _, _ => .badOp "vec sum"
  | [.atom "linspace", loJ, hiJ, nJ], [gJ] =>
    match loJ.rat?, hiJ.rat?, nJ.nat?, gJ.rats? with
    | some lo, some hi, some n, some g =>
      let m := linspace lo hi n
      let tol := 8 * eps * (ratAbs lo + ratAbs hi) + pow2 (-1073)   -- (and one subnormal step: the quotient is rounded to the subnormal grid)
      verdictOf (if n ≥ 3 then "nt linspace" else "tr linspace")
        [("linspace-length", g.length == n, s!"{g.length}"),
         ("linspace", (g.zip m).all (fun (a, b) => closeR a b tol 0), s!"go={toString (g.map ratStr)}"),
         ("linspace-first", n == 0 || g.head? == some lo, "first element is lo exactly")]
    | _, _, _, _ => .badOp "vec linspace"
  | [.atom "logspace", loJ, hiJ, nJ, bJ], [gJ] =>
    match loJ.rat?, hiJ.rat?, nJ.nat?, bJ.rat?, gJ.rats? with
    | some lo, some hi, some n, some b, some g =>
      let m := linspace lo hi n
      let lnb := I.logQ b
      let ok := g.length == n && (g.zip m).all fun (a, x) =>
        let e := I.exp (I.mul (I.ofRat x) lnb)
        let tol := 64 * eps * (1 + ratAbs x * (ratAbs lnb.hi + ratAbs lnb.lo) + ratAbs lo + ratAbs hi)
        decide (e.lo * (1 - tol) ≤ a ∧ a ≤ e.hi * (1 + tol))
      verdictOf (if n ≥ 3 then "nt logspace" else "tr logspace") [("logspace", ok, s!"go={toString (g.map ratStr)}")]
    | _, _, _, _, _ => .badOp "vec logspace"
  | [.atom "concat", xssJ], [gJ] =>
    match xssJ.list? >>= (·.mapM J.rats?), gJ.rats? with
    | some xss, some g => verdictOf (if xss.length ≥ 2 then "nt concat" else "tr concat") [("concat", g == xss.flatten, "")]
    | _, _ => .badOp "vec concat"
  | [.atom "map", .atom f, xsJ], [gJ, vJ] =>
    match xsJ.rats?, gJ.rats?, vJ.rats? with
    | some xs, some g, some v =>
      let fm (x : Rat) : Rat := if f == "neg" then -x else if f == "half" then x / 2 else ((x.floor : Int) : Rat)
      verdictOf (if xs.length ≥ 2 then "nt map" else "tr map")
        [("map", g == xs.map fm, s!"go={toString (g.map ratStr)}"), ("vectorize", v == xs.map fm, "")]
    | _, _, _ => .badOp "vec map"
  | _, _ => .badOp "vec: op"

end MV.Sample
