import MV.Model.Scale
import MV.Model.Interval
/-! Driver for C16 (scales, QQ) and C17 (FindLevel, ticks, Nice). -/
namespace MV.Scale
open MV

def eps : Rat := pow2 (-52)

/-! ## C16 -/

inductive Sc
  | lin (mn mx : Rat) (cl : Bool)
  | log (mn mx : Rat) (base : Int) (cl : Bool)

def parseSc (j : J) : Option Sc :=
  match j with
  | .arr [.atom "lin", a, b, c] => do pure (.lin (← a.rat?) (← b.rat?) ((← c.nat?) == 1))
  | .arr [.atom "log", a, b, bs, c] => do pure (.log (← a.rat?) (← b.rat?) (← bs.int?) ((← c.nat?) == 1))
  | _ => none

def clampI (a : I) : I := ⟨clamp a.lo, clamp a.hi⟩

/-- widen an interval by an absolute amount -/
def widen (a : I) (t : Rat) : I := ⟨a.lo - t, a.hi + t⟩

def ebounds (mn mx : Rat) : Bool × Rat × Rat := if mn < 0 then (true, -mx, -mn) else (false, mn, mx)

/-- Map on a point; `none` = NaN. Returns an enclosure widened by the float-evaluation tolerance. -/
def mapPt (s : Sc) (x : Rat) : Option I :=
  match s with
  | .lin mn mx cl =>
    if mn == mx then some (I.ofRat (1 / 2)) else
    let y := (x - mn) / (mx - mn)
    let t := 8 * eps * (ratAbs y + 1 / pow2 1000)
    let r := widen (I.ofRat y) t
    some (if cl then clampI r else r)
  | .log mn0 mx0 _ cl =>
    let (neg, mn, mx) := ebounds mn0 mx0
    let x := if neg then -x else x
    if x ≤ 0 then none
    else if mn == mx then some (I.ofRat (1 / 2))
    else
      let lx := I.logQ x; let lmn := I.logQ mn; let lmx := I.logQ mx
      let den := I.sub lmx lmn
      let y := I.div (I.sub lx lmn) den
      let dmag := ratMin (ratAbs den.lo) (ratAbs den.hi)
      -- y = N/D in floats: δy ≤ δN/|D| + |y| δD/|D|; both δN, δD are a few ε times the logarithms'
      -- magnitudes, so the bound carries the factor (1 + |y|) (it matters when x lies far outside
      -- a narrow domain: |y| ≫ 1)
      let ymag := ratMax (ratAbs y.lo) (ratAbs y.hi)
      let t := 64 * eps * (ratAbs lx.hi + ratAbs lx.lo + ratAbs lmn.hi + ratAbs lmn.lo + ratAbs lmx.hi + ratAbs lmx.lo) / dmag * (1 + ymag) +
               16 * eps * (ymag + 1)
      let y := widen y t
      let y := if neg then I.sub (I.ofRat 1) y else y
      some (if cl then clampI y else y)

def mapI (s : Sc) (x : I) : Option I := do
  let a ← mapPt s x.lo
  let b ← mapPt s x.hi
  pure (I.hull a b)

/-- Unmap on a point, widened by the float-evaluation tolerance -/
def unmapPt (s : Sc) (y : Rat) : I :=
  match s with
  | .lin mn mx _ =>
    let x := y * (mx - mn) + mn
    widen (I.ofRat x) (8 * eps * (ratAbs (y * (mx - mn)) + ratAbs mn + ratAbs (mx - mn) * (1 / pow2 60)))
  | .log mn0 mx0 _ _ =>
    let (neg, mn, mx) := ebounds mn0 mx0
    let y := if neg then 1 - y else y
    let lmn := I.logQ mn; let lmx := I.logQ mx
    let e := I.add (I.scale y (I.sub lmx lmn)) lmn
    let mag := ratAbs y * (ratAbs lmx.hi + ratAbs lmx.lo + ratAbs lmn.hi + ratAbs lmn.lo) + ratAbs lmn.hi + ratAbs lmn.lo + 1
    let e := widen e (32 * eps * mag)
    -- beyond e^720 > 2^1038 the value has left the float64 range: any marker above maxFloat stands for
    -- "overflows" (the exponential of a huge exponent is not computed)
    let x : I :=
      if e.lo > 720 then ⟨pow2 1030, pow2 1040⟩
      -- (`math.Exp` of this toolchain's amd64 assembly returns +Inf from 709.437 on - the top 30 % of the last binade
      -- is never produced: from there on the infinity is what the standard library delivers)
      else if e.hi > 70943 / 100 then ⟨(I.exp ⟨e.lo, e.lo⟩).lo, pow2 1040⟩
      else I.exp e
    let x := ⟨x.lo * (1 - 8 * eps), x.hi * (1 + 8 * eps)⟩
    if neg then I.neg x else x

def unmapI (s : Sc) (y : I) : I := I.hull (unmapPt s y.lo) (unmapPt s y.hi)

def maxFloat : Rat := pow2 1024
def inI (v : V) (a : I) : Bool :=
  match v with
  | .fin q => a.lo - pow2 (-1073) ≤ q && q ≤ a.hi + pow2 (-1073)      -- float underflow: one subnormal step
  | .pinf => a.hi ≥ maxFloat
  | .ninf => a.lo ≤ -maxFloat
  | .nan => false

def scTag (s : Sc) : String :=
  match s with
  | .lin mn mx cl => "lin" ++ (if mn > mx then "-dec" else if mn == mx then "-degenerate" else "-inc") ++ (if cl then " clamp" else "")
  | .log mn mx _ cl => "log" ++ (if mn < 0 then "-neg" else "-pos") ++ (if mn > mx then "-dec" else if mn == mx then "-degenerate" else "-inc") ++ (if cl then " clamp" else "")

def handleScale (ins outs : List J) : Verdict :=
  match ins, outs with
  | [scJ, .atom "map", xJ], [gJ] =>
    match parseSc scJ, xJ.rat?, gJ.flt? with
    | some s, some x, some g =>
      (match mapPt s x with
       | none => verdictOf ("nt " ++ scTag s ++ " nan") [("map-nan", g == .nan, s!"go={g.str}")]
       | some e => verdictOf ("nt " ++ scTag s) [("map", inI g e, s!"x={ratStr x} go={g.str} model=[{ratStr e.lo},{ratStr e.hi}]")])
    | _, _, _ => .badOp "scale map: parse"
  | [scJ, .atom "unmap", yJ], [gJ] =>
    match parseSc scJ, yJ.rat?, gJ.flt? with
    | some s, some y, some g =>
      let e := unmapPt s y
      verdictOf ("nt " ++ scTag s ++ " unmap") [("unmap", inI g e, s!"y={ratStr y} go={g.str} model=[{ratStr e.lo},{ratStr e.hi}]")]
    | _, _, _ => .badOp "scale unmap: parse"
  | [.atom "newlog", aJ, bJ, baseJ], res =>
    match aJ.rat?, bJ.rat?, baseJ.int? with
    | some a, some b, some base =>
      (match newLog a b base, res with
       | none, [.atom "err"] => .ok "nt newlog-err"
       | some (mn, mx), [.atom "ok", gmn, gmx, gb] =>
         verdictOf "nt newlog-ok" [("newlog-fields", gmn.rat? == some mn && gmx.rat? == some mx && gb.int? == some base, "fields")]
       | none, _ => .fail "newlog" "model expects RangeErr"
       | some _, _ => .fail "newlog" "model expects success")
    | _, _, _ => .badOp "newlog: parse"
  | [srcJ, dstJ, .atom dir, xJ], [gJ] =>
    match parseSc srcJ, parseSc dstJ, xJ.rat?, gJ.flt? with
    | some src, some dst, some x, some g =>
      -- QQ.Map = dst.Unmap ∘ src.Map ; QQ.Unmap = src.Unmap ∘ dst.Map
      let (first, second) := if dir == "map" then (src, dst) else (dst, src)
      (match mapPt first x with
       | none => verdictOf ("nt qq nan") [("qq-nan", g == .nan, s!"go={g.str}")]
       | some y =>
         let e := unmapI second y
         -- the intermediate position itself beyond the float64 range (x at 1e300 against a domain 1e-11 wide): the
         -- composition passes through an infinity, and a non-finite result is what it delivers
         let midOver := y.lo ≥ maxFloat || y.hi ≤ -maxFloat
         let nonFin := match g with | .fin _ => false | _ => true
         verdictOf ("nt qq " ++ scTag first ++ " > " ++ scTag second) [("qq-" ++ dir, inI g e || (midOver && nonFin), s!"x={ratStr x} go={g.str} model=[{ratStr e.lo},{ratStr e.hi}]")])
    | _, _, _, _ => .badOp "qq: parse"
  | _, _ => .badOp "scale: arity"

/-! ## C17: FindLevel -/

def tableCount (counts : List Int) (lo : Int) (l : Int) : Int :=
  if counts.isEmpty then 0
  else if l < lo then counts.head!
  else if l ≥ lo + counts.length then counts.getLast!
  else counts.getD (l - lo).toNat 0

def handleFindLevel (ins outs : List J) : Verdict :=
  match ins, outs with
  | [cJ, loJ, mxJ, mnLJ, mxLJ, gJ], [lvJ, okJ] =>
    match cJ.ints?, loJ.int?, mxJ.int?, mnLJ.int?, mxLJ.int?, gJ.int?, lvJ.int?, okJ.nat? with
    | some counts, some lo, some mx, some minL, some maxL, some guess, some lv, some ok =>
      let cnt := tableCount counts lo
      let m := findLevel cnt mx minL maxL guess
      let spec := leastLevel cnt mx minL maxL
      let goR : Option Int := if ok == 1 then some lv else none
      verdictOf ("nt " ++ (if spec.isSome then "found" else "notfound") ++ (if minL == 0 && maxL == 0 then " defaultrange" else ""))
        [("findlevel-model-eq-spec", m == spec, s!"mirror {toString m} spec {toString spec}"),
         ("findlevel", goR == spec && (ok == 1 || lv == 0), s!"go=({lv},{ok}) spec={toString spec}")]
    | _, _, _, _, _, _, _, _ => .badOp "findlevel: parse"
  | _, _ => .badOp "findlevel: arity"

/-! ## C17: linear ticks -/

def ascending (l : List Rat) : Bool := (l.zip (l.drop 1)).all fun (a, b) => a < b

def closeList (go : List Rat) (m : List Rat) (tol : Rat) : Bool :=
  go.length == m.length && (go.zip m).all fun (a, b) => ratAbs (a - b) ≤ tol + 8 * eps * ratAbs b

/-- is every element of `a` (approximately) an element of `b` -/
def subsetApprox (a b : List Rat) (tol : Rat) : Bool := a.all fun x => b.any fun y => ratAbs (x - y) ≤ tol + 8 * eps * ratAbs y

def handleLinTicks (ins outs : List J) : Verdict :=
  match ins, outs with
  | [mnJ, mxJ, bJ, maxJ, mnLJ, mxLJ], [lvJ, majJ, minJ, cntJ, lenJ] =>
    match mnJ.rat?, mxJ.rat?, bJ.nat?, maxJ.int?, mnLJ.int?, mxLJ.int?, majJ.rats?, minJ.rats?, cntJ.ints?, lenJ.ints? with
    | some mn0, some mx0, some base, some maxT, some minL, some maxL, some gmaj, some gmin, some gcnt, some glen =>
      let glv : Option Int := lvJ.int?
      if maxT ≤ 0 then verdictOf "tr max<=0" [("ticks-max0", gmaj.isEmpty && gmin.isEmpty, "expected nil")]
      else if mn0 == mx0 then verdictOf "tr degenerate" [("ticks-degenerate", gmaj == [mn0] && gmin == [mn0], "expected [Min]")]
      else
        let (mn, mx) := if mn0 > mx0 then (mx0, mn0) else (mn0, mx0)
        let width := mx - mn
        let tol := 8 * eps * (ratAbs mn + ratAbs mx)
        let run (f : Rat) := linTicks mn mx base maxT minL maxL (slackFactor * f)
        let r0 := run 1
        let lo := run (99 / 100); let hi := run (101 / 100)
        let key (r : Option (Int × List Rat × List Rat)) := r.map fun (l, a, b) => (l, a.length, b.length, a.head?, b.head?)
        let amb := key lo != key r0 || key hi != key r0
        -- properties that must hold of Go's output regardless of rounding
        let slack := width * slackFactor * 2 + tol
        let inside (l : List Rat) := l.all fun t => mn - slack ≤ t && t ≤ mx + slack
        let countsOk := gcnt == glen
        let sane := gcnt.all fun c => 0 ≤ c && c < 4611686018427387904
        let mono := !sane || (gcnt.zip (gcnt.drop 1)).all fun (a, b) => a ≥ b
        let holds := [("ticks-ascending", ascending gmaj && ascending gmin, "not ascending"),
                      ("ticks-inside-domain", inside gmaj && inside gmin, s!"major {toString (gmaj.map ratStr)}"),
                      ("ticks-at-most-max", (gmaj.length : Int) ≤ maxT, s!"{gmaj.length} > {maxT}"),
                      ("ticks-major-subset-minor", subsetApprox gmaj gmin tol, "a major tick is not a minor tick"),
                      ("count-eq-len", countsOk, s!"counts {toString gcnt} lens {toString glen}"),
                      ("count-monotone", mono, s!"counts {toString gcnt}")]
        match firstFail holds with
        | some (c, d) => .fail c d
        | none =>
          if amb then .amb "linear-ticks near-tie"
          else match r0, glv with
            | none, none => verdictOf "nt linear nolevel" [("ticks-nolevel", gmaj.isEmpty && gmin.isEmpty, "expected nil")]
            | some (l, maj, mnr), some gl =>
              -- counts around the level (where the perturbed slack gives the same count)
              let around := (List.range gcnt.length).all fun i =>
                let lv := l - 3 + (i : Int)
                let c0 := linCount mn mx base false slackFactor lv
                let c1 := linCount mn mx base false (slackFactor * 99 / 100) lv
                let c2 := linCount mn mx base false (slackFactor * 101 / 100) lv
                c0 != c1 || c0 != c2 || gcnt.getD i 0 == c0
              verdictOf ("nt linear base=" ++ toString base ++ (if maxT ≤ 2 then " max<=2" else ""))
                [("ticks-level", gl == l, s!"go level {gl} model {l}"),
                 ("ticks-major", closeList gmaj maj tol, s!"go {toString (gmaj.map ratStr)} model {toString (maj.map ratStr)}"),
                 ("ticks-minor", closeList gmin mnr tol, s!"go {toString (gmin.map ratStr)} model {toString (mnr.map ratStr)}"),
                 ("count-ticks", around, s!"go counts {toString gcnt} around level {l}")]
            | _, _ => .fail "ticks-level" s!"go level {toString glv} model {toString (r0.map (·.1))}"
    | _, _, _, _, _, _, _, _, _, _ => .badOp "lticks: parse"
  | _, _ => .badOp "lticks: arity"

def handleLinNice (ins outs : List J) : Verdict :=
  match ins, outs with
  | [mnJ, mxJ, bJ, maxJ, mnLJ, mxLJ], [n1J, n2J, a1J, a2J, fJ, lJ, nJ] =>
    match mnJ.rat?, mxJ.rat?, bJ.nat?, maxJ.int?, mnLJ.int?, mxLJ.int?, n1J.flt?, n2J.flt?, a1J.flt?, a2J.flt?, fJ.flt?, lJ.flt?, nJ.int? with
    | some mn0, some mx0, some base, some maxT, some minL, some maxL, some (.fin n1), some (.fin n2), some a1, some a2, some f, some l, some nmaj =>
      let (mn, mx) := if mn0 == mx0 then (mn0 - 1 / 2, mx0 + 1 / 2) else if mn0 > mx0 then (mx0, mn0) else (mn0, mx0)
      let width := mx - mn
      let tol := 16 * eps * (ratAbs mn + ratAbs mx + width)
      let slack := width * slackFactor * 2 + tol
      let run (fct : Rat) := linNice mn mx base maxT minL maxL (slackFactor * fct)
      let r0 := run 1
      let amb := (run (99 / 100)).map (fun (l, a, b) => (l, a, b)) != r0.map (fun (l, a, b) => (l, a, b)) ||
                 (run (101 / 100)).map (fun (l, a, b) => (l, a, b)) != r0.map (fun (l, a, b) => (l, a, b))
      let holds := [("nice-never-shrinks", n1 ≤ mn + slack && n2 ≥ mx - slack, s!"[{ratStr mn},{ratStr mx}] -> [{ratStr n1},{ratStr n2}]")]
      let holds3 := if maxT ≥ 3 && nmaj ≥ 1 && r0.isSome then
          [("nice-idempotent", closeV a1 (.fin n1) tol 0 && closeV a2 (.fin n2) tol 0, s!"second Nice gives [{a1.str},{a2.str}] after [{ratStr n1},{ratStr n2}]"),
           ("nice-ticks-at-ends", closeV f (.fin n1) tol 0 && closeV l (.fin n2) tol 0, s!"first/last major {f.str},{l.str} vs [{ratStr n1},{ratStr n2}]")]
        else []
      match firstFail (holds ++ holds3) with
      | some (c, d) => .fail c d
      | none =>
        if amb then .amb "linear-nice near-tie"
        else match r0 with
          | none => verdictOf "nt nice-unchanged" [("nice-unchanged", closeR n1 mn tol 0 && closeR n2 mx tol 0, s!"[{ratStr n1},{ratStr n2}]")]
          | some (lv, a, b) =>
            let sp := spacing base lv
            let tol := tol + 16 * eps * (ratAbs a + ratAbs b)
            verdictOf ("nt nice" ++ (if maxT ≥ 3 then "" else " max<=2"))
              [("nice-bounds", closeR n1 a tol 0 && closeR n2 b tol 0, s!"go [{ratStr n1},{ratStr n2}] model [{ratStr a},{ratStr b}]"),
               ("nice-at-most-one-spacing", maxT < 3 || (a ≥ mn - sp - slack && b ≤ mx + sp + slack), "expanded by more than one spacing")]
    | _, _, _, _, _, _, _, _, _, _, _, _, _ => .badOp "lnice: parse"
  | _, _ => .badOp "lnice: arity"

/-! ## C17: log ticks (interval based) -/

/-- least level at which base^(2^level) overflows float64 (≥ 2^1024) -/
def overflowLevel (base : Nat) : Nat :=
  ((List.range 12).find? fun l => ratPowInt (base : Rat) ((2 ^ l : Nat) : Int) ≥ pow2 1024).getD 12

/-- ceil/floor of an interval value if unambiguous -/
def ceilI? (a : I) : Option Int := if a.lo.ceil == a.hi.ceil then some a.lo.ceil else none
def floorI? (a : I) : Option Int := if a.lo.floor == a.hi.floor then some a.lo.floor else none

/-- (firstN, lastN) of the log ticker at a level ≥ 0 for positive bounds mn ≤ mx -/
structure LogCtx where
  lmn : I
  lmx : I
  lb : I
  ovf : Nat

def mkLogCtx (mn mx : Rat) (base : Nat) : LogCtx := ⟨I.logQ mn, I.logQ mx, I.logQ base, overflowLevel base⟩

def logBoundsC (c : LogCtx) (level : Nat) (roundOut : Bool) (slackF : Rat) : Option (Int × Int) :=
  if level ≥ c.ovf then some (0, 0) else
  let lnE := I.scale ((2 ^ level : Nat) : Rat) c.lb
  let lmin := I.div c.lmn lnE
  let lmax := I.div c.lmx lnE
  let slack := I.scale slackF (I.sub lmax lmin)
  -- float evaluation noise on lmin/lmax
  let noise (a : I) : I := widen a (64 * eps * (ratAbs a.lo + ratAbs a.hi + 1))
  let lmin := noise lmin; let lmax := noise lmax
  if roundOut then do
    let a ← floorI? (I.add lmin slack)
    let b ← ceilI? (I.sub lmax slack)
    pure (a, b)
  else do
    let a ← ceilI? (I.sub lmin slack)
    let b ← floorI? (I.add lmax slack)
    pure (a, b)

def logBounds (mn mx : Rat) (base : Nat) (level : Nat) (roundOut : Bool) (slackF : Rat) : Option (Int × Int) :=
  logBoundsC (mkLogCtx mn mx base) level roundOut slackF

def maxInt : Int := 9223372036854775807

/-- count function; `none` inside = ambiguous at that level -/
def logCountC (c : LogCtx) (roundOut : Bool) (slackF : Rat) (level : Int) : Option Int :=
  if level < 0 then some maxInt
  else (logBoundsC c level.toNat roundOut slackF).map fun (a, b) => b - a + 1

/-- FindLevel from guess 0 over an Option-valued count: any ambiguity met on the way makes the result ambiguous -/
def findLevelOpt (count : Int → Option Int) (mx minL0 maxL0 : Int) : Option (Option Int) :=
  let (minL, maxL) := if minL0 == 0 && maxL0 == 0 then ((-1000 : Int), (1000 : Int)) else (minL0, maxL0)
  if minL > maxL || mx < 1 then some none else
  -- levels examined lie in [min(minL,..), 14]; check they are all determined
  -- negative levels never fit (the count there is the largest int); levels 0..14 are tabulated
  let lo : Int := if minL < 0 then 0 else minL
  let hi : Int := if maxL > 14 then 14 else maxL
  let lvls := (List.range (hi - lo + 1).toNat).map fun (i : Nat) => lo + (i : Int)
  let tbl := lvls.map count
  if tbl.any (·.isNone) then none
  else
    let c (l : Int) : Int :=
      if l < 0 then maxInt else
      let l' := if l > hi then hi else if l < lo then lo else l
      (tbl.getD (l' - lo).toNat none).getD maxInt
    some (leastLevel c mx minL0 maxL0)

def logTicksAt (mn mx : Rat) (base : Nat) (level : Int) (slackF : Rat) : Option (List Rat) :=
  if level < 0 then
    match logBounds mn mx base 0 true slackF with
    | none => none
    | some (a, b) =>
      some (((List.range (b - a + 1).toNat).flatMap fun (i : Nat) =>
        let p := ratPowInt (base : Rat) (a + (i : Int))
        (List.range (base - 1)).map fun (k : Nat) => ((k + 1 : Nat) : Rat) * p).filter fun t => mn ≤ t && t ≤ mx)
  else
    match logBounds mn mx base level.toNat false slackF with
    | none => none
    | some (a, b) =>
      if level.toNat ≥ overflowLevel base then some [1] else
      some ((List.range (b - a + 1).toNat).map fun (i : Nat) => ratPowInt (base : Rat) (((2 ^ level.toNat : Nat) : Int) * (a + (i : Int))))

/-- minor ticks of level −1 split into definitely-inside and within-rounding-of-a-bound -/
def logMinorsSplit (mn mx : Rat) (base : Nat) (slackF : Rat) (rt : Rat) : Option (List Rat × List Rat) :=
  match logBounds mn mx base 0 true slackF with
  | none => none
  | some (a, b) =>
    let all := (List.range (b - a + 1).toNat).flatMap fun (i : Nat) =>
      let p := ratPowInt (base : Rat) (a + (i : Int))
      (List.range (base - 1)).map fun (k : Nat) => ((k + 1 : Nat) : Rat) * p
    let inside (t : Rat) := mn * (1 + rt) ≤ t && t ≤ mx * (1 - rt)
    let near (t : Rat) := !inside t && mn * (1 - rt) ≤ t && t ≤ mx * (1 + rt)
    some (all.filter inside, all.filter near)

def negRev (neg : Bool) (l : List Rat) : List Rat := if neg then (l.map fun x => -x).reverse else l

def closeListRel (go m : List Rat) (rtol : Rat) : Bool :=
  go.length == m.length && (go.zip m).all fun (a, b) => ratAbs (a - b) ≤ rtol * ratAbs b

def handleLogTicks (ins outs : List J) : Verdict :=
  match ins, outs with
  | [mnJ, mxJ, bJ, maxJ, mnLJ, mxLJ], [lvJ, majJ, minJ, cntJ, lenJ] =>
    match mnJ.rat?, mxJ.rat?, bJ.nat?, maxJ.int?, mnLJ.int?, mxLJ.int?, majJ.rats?, minJ.rats?, cntJ.ints?, lenJ.ints? with
    | some mn0, some mx0, some base, some maxT, some minL, some maxL, some gmaj, some gmin, some gcnt, some glen =>
      let glv : Option Int := lvJ.int?
      if maxT ≤ 0 then verdictOf "tr max<=0" [("ticks-max0", gmaj.isEmpty && gmin.isEmpty, "expected nil")]
      else if mn0 == mx0 then verdictOf "tr degenerate" [("ticks-degenerate", gmaj == [mn0] && gmin == [mx0], "expected [Min]")]
      else
        let (neg, mn, mx) := ebounds mn0 mx0
        let rt := 1 / 100000000000
        -- the library's own slack is 1e-10 of the span in log units, i.e. a relative distance ln(max/min)·1e-10:
        -- "inside the domain" is read up to twice that, as for Linear scales
        let rs := rt + 2 * slackFactor * ratMax 0 (I.logQ (mx / mn)).hi
        let inside (l : List Rat) := l.all fun t => mn0 * (1 - rs * (if mn0 > 0 then 1 else -1)) ≤ t && t ≤ mx0 * (1 + rs * (if mx0 > 0 then 1 else -1))
        let holds := [("ticks-ascending", ascending gmaj && ascending gmin, "not ascending"),
                      ("ticks-inside-domain", inside gmaj && inside gmin, s!"major {toString (gmaj.map ratStr)} minor {toString (gmin.map ratStr)}"),
                      ("ticks-at-most-max", (gmaj.length : Int) ≤ maxT, s!"{gmaj.length} > {maxT}"),
                      ("ticks-major-subset-minor", gmaj.all (fun x => !(mn0 ≤ x && x ≤ mx0) || gmin.any fun y => ratAbs (x - y) ≤ rt * ratAbs y), "a major tick inside the domain is not a minor tick"),
                      ("count-eq-len", gcnt == glen, s!"counts {toString gcnt} lens {toString glen}"),
                      ("count-monotone",
                        (match glv with
                         | some gl =>
                           let lv (i : Nat) : Int := gl - 3 + (i : Int)
                           (List.range (gcnt.length - 1)).all fun i =>
                             lv (i + 1) ≥ (overflowLevel base : Int) || gcnt.getD i 0 ≥ gcnt.getD (i + 1) 0
                         | none => true), s!"counts {toString gcnt}")]
        match firstFail holds with
        | some (c, d) => .fail c d
        | none =>
          let ctx := mkLogCtx mn mx base
          let res (f : Rat) := findLevelOpt (logCountC ctx false (slackFactor * f)) maxT minL maxL
          match res 1, res (99 / 100), res (101 / 100) with
          | some r0, some r1, some r2 =>
            if r1 != r0 || r2 != r0 then .amb "log-ticks near-tie" else
            (match r0, glv with
             | none, none => verdictOf "nt log nolevel" [("ticks-nolevel", gmaj.isEmpty && gmin.isEmpty, "expected nil")]
             | some l, some gl =>
               (match logTicksAt mn mx base l slackFactor, logTicksAt mn mx base (l - 1) slackFactor with
                | some maj, some mnr =>
                  let minorOk : Bool :=
                    if l == 0 then
                      match logMinorsSplit mn mx base slackFactor rt with
                      | some (defs, nears) =>
                        let g := negRev neg gmin     -- back to the positive, ascending view
                        let close (x y : Rat) := ratAbs (x - y) ≤ rt * ratAbs y
                        defs.all (fun d => g.any fun x => close x d) && g.all (fun x => defs.any (close x) || nears.any (close x))
                      | none => true
                    else closeListRel gmin (negRev neg mnr) rt
                  verdictOf ("nt log base=" ++ toString base ++ (if neg then " neg" else " pos") ++ s!" level={l}")
                    [("ticks-level", gl == l, s!"go level {gl} model {l}"),
                     ("ticks-major", closeListRel gmaj (negRev neg maj) rt, s!"go {toString (gmaj.length)} ticks, model {toString (maj.length)}"),
                     ("ticks-minor", minorOk, s!"go {toString (gmin.length)} minor ticks, model {toString (mnr.length)}")]
                | _, _ => .amb "log-ticks near-tie at level")
             | _, _ => .fail "ticks-level" s!"go level {toString glv} model {toString r0}")
          | _, _, _ => .amb "log-ticks near-tie (count)"
    | _, _, _, _, _, _, _, _, _, _ => .badOp "gticks: parse"
  | _, _ => .badOp "gticks: arity"

def handleLogNice (ins outs : List J) : Verdict :=
  match ins, outs with
  | [mnJ, mxJ, bJ, maxJ, mnLJ, mxLJ], [n1J, n2J, a1J, a2J, fJ, lJ, nJ] =>
    match mnJ.rat?, mxJ.rat?, bJ.nat?, maxJ.int?, mnLJ.int?, mxLJ.int?, n1J.flt?, n2J.flt?, a1J.flt?, a2J.flt?, fJ.flt?, lJ.flt?, nJ.int? with
    | some mn0, some mx0, some base, some maxT, some minL, some maxL, some (.fin n1), some (.fin n2), some a1, some a2, some f, some l, some nmaj =>
      if mn0 == mx0 then verdictOf "tr degenerate" [("nice-unchanged", n1 == mn0 && n2 == mx0, "degenerate domain must stay")]
      else
        let (neg, mn, mx) := ebounds mn0 mx0
        let rt := 1 / 100000000000
        let relClose (a : V) (b : Rat) : Bool := match a with | .fin q => ratAbs (q - b) ≤ rt * ratAbs b | _ => false
        let lo := if mn0 < mx0 then mn0 else mx0
        let hi := if mn0 < mx0 then mx0 else mn0
        let rs := rt + 2 * slackFactor * ratMax 0 (I.logQ (mx / mn)).hi      -- the library's slack in relative terms
        let holds := [("nice-never-shrinks", n1 ≤ lo + rs * ratAbs lo && n2 ≥ hi - rs * ratAbs hi, s!"[{ratStr mn0},{ratStr mx0}] -> [{ratStr n1},{ratStr n2}]")]
        let ctx := mkLogCtx mn mx base
        let res (fct : Rat) := findLevelOpt (logCountC ctx true (slackFactor * fct)) maxT minL maxL
        let found : Bool := match res 1 with | some (some lv) => decide (lv.toNat < overflowLevel base) | _ => false
        let holds3 := if maxT ≥ 3 && nmaj ≥ 1 && found then
            [("nice-idempotent", relClose a1 n1 && relClose a2 n2, s!"second Nice gives [{a1.str},{a2.str}] after [{ratStr n1},{ratStr n2}]"),
             ("nice-ticks-at-ends", relClose f n1 && relClose l n2, s!"first/last major {f.str},{l.str} vs [{ratStr n1},{ratStr n2}]")]
          else []
        match firstFail (holds ++ holds3) with
        | some (c, d) => .fail c d
        | none =>
          match res 1, res (99 / 100), res (101 / 100) with
          | some r0, some r1, some r2 =>
            if r1 != r0 || r2 != r0 then .amb "log-nice near-tie" else
            (match r0 with
             | none => verdictOf "nt lognice-unchanged" [("nice-unchanged", n1 == mn0 && n2 == mx0, s!"[{ratStr n1},{ratStr n2}]")]
             | some lv =>
               if lv.toNat ≥ overflowLevel base then
                 verdictOf "nt lognice-overflow" [("nice-unchanged", n1 == mn0 && n2 == mx0, s!"[{ratStr n1},{ratStr n2}]")]
               else match logBounds mn mx base lv.toNat true slackFactor with
                 | none => .amb "log-nice near-tie at level"
                 | some (a, b) =>
                   let e : Int := ((2 ^ lv.toNat : Nat) : Int)
                   let pa := ratPowInt (base : Rat) (e * a); let pb := ratPowInt (base : Rat) (e * b)
                   let (wa, wb) := if neg then (-pb, -pa) else (pa, pb)
                   verdictOf ("nt lognice" ++ (if neg then " neg" else " pos"))
                     [("nice-bounds", relClose (.fin n1) wa && relClose (.fin n2) wb, s!"go [{ratStr n1},{ratStr n2}] model [{ratStr wa},{ratStr wb}]")])
          | _, _, _ => .amb "log-nice near-tie (count)"
    | _, _, _, _, _, _, _, _, _, _, _, _, _ => .badOp "gnice: parse"
  | _, _ => .badOp "gnice: arity"

end MV.Scale
