import MV.Model.Stream
/-! Driver for C13: `st <nacc> <ops> => <readouts>`. -/
namespace MV.Stream
open MV

def parseOp (j : J) : Option Op :=
  match j with
  | .arr [.atom "a", i, x] => do pure (.add (← i.nat?) (← x.rat?))
  | .arr [.atom "c", i, k] => do pure (.comb (← i.nat?) (← k.nat?))
  | .arr [.atom "r", i] => do pure (.read (← i.nat?))
  | _ => none

def eps : Rat := pow2 (-52)

/-- Compare one Go readout `[count,total,min,max,weight,mean,var,sd,rms]` with the
model state `s` of denotation `d`, after `nops` operations. -/
def checkRead (s : St) (d : List Rat) (nops : Nat) (go : List V) : List (String × Bool × String) :=
  match go with
  | [gc, gt, gmin, gmax, gw, gmean, gvar, gsd, grms] =>
    let n : Rat := ((s.count + nops : Nat) : Rat)
    let absd := d.map ratAbs
    let M := absd.foldl ratMax 0
    let sumAbs := sum absd
    let D := (d.map fun x => ratAbs (x - s.mean)).foldl ratMax 0
    let tolTotal := 2 * n * eps * sumAbs
    let tolMean := 8 * n * eps * M
    let tolVar := 16 * n * eps * (M * D + D * D)
    let tolMs := 8 * n * eps * M * M
    let sq (v : V) : V := match v with | .fin q => .fin (q * q) | v => v
    -- the top of the float64 range: a sum, a square or a sum of squared deviations beyond it is an infinity (or a
    -- NaN once an infinity has been averaged in) in every formula of this shape - accepted exactly then
    let big : Rat := pow2 1024 - pow2 970
    let nonFin (v : V) : Bool := match v with | .fin _ => false | _ => true
    let totalOver := sumAbs ≥ big                      -- some order of adding may pass the end of the range
    let sqOver := M * M ≥ big                          -- a single square overflows
    let m2 : Rat := s.variance * ((s.count - 1 : Nat) : Rat)
    -- (Combine squares the difference of the two means before scaling it by n_a·n_b/n)
    let span : Rat := if s.count ≥ 1 then s.max - s.min else 0
    let m2Over := m2 ≥ big / 2 || span * span ≥ big / 2
    [ ("count", gc == .fin s.count, s!"go={gc.str} model={s.count}"),
      ("weight", gw == .fin s.count, s!"go={gw.str} model={s.count}"),
      ("total", closeV gt (.fin s.total) tolTotal 0 || (totalOver && nonFin gt), s!"go={gt.str} model={ratStr s.total}") ] ++
    (if s.count ≥ 1 then
      [ ("min", gmin == .fin s.min, s!"go={gmin.str} model={ratStr s.min}"),
        ("max", gmax == .fin s.max, s!"go={gmax.str} model={ratStr s.max}"),
        ("mean", closeV gmean (.fin s.mean) tolMean 0, s!"go={gmean.str} model={ratStr s.mean}"),
        ("rms", closeV (sq grms) (.fin s.meanSq) tolMs (4 * eps) || (sqOver && nonFin grms), s!"go^2={(sq grms).str} model={ratStr s.meanSq}"),
        ("rms-sign", (match grms with | .fin q => decide (q ≥ 0) | _ => sqOver), s!"go={grms.str}") ]
     else []) ++
    (if s.count ≥ 2 then
      [ ("variance", closeV gvar (.fin s.variance) tolVar 0 || (m2Over && gvar == .pinf), s!"go={gvar.str} model={ratStr s.variance}"),
        ("stddev", closeV (sq gsd) (.fin s.variance) tolVar (4 * eps) || (m2Over && gsd == .pinf), s!"go^2={(sq gsd).str} model={ratStr s.variance}"),
        ("stddev-sign", (match gsd with | .fin q => decide (q ≥ 0) | _ => m2Over), s!"go={gsd.str}") ]
     else [])
  | _ => [("readout-shape", false, "expected 9 fields")]

def handle (ins outs : List J) : Verdict :=
  match ins, outs with
  | [nacc, opsJ], [outsJ] =>
    match nacc.nat?, opsJ.list?, outsJ.list? with
    | some n, some opsL, some readsL =>
      match opsL.mapM parseOp, readsL.mapM J.flts? with
      | some ops, some reads =>
        let init : Heap := List.replicate n (St.zero, [])
        -- walk the history; at each read compare with the next Go readout
        let rec go (h : Heap) (ops : List Op) (reads : List (List V)) (k : Nat)
            (acc : List (String × Bool × String)) : List (String × Bool × String) :=
          match ops with
          | [] => if reads.isEmpty then acc else acc ++ [("readout-count", false, "extra readouts")]
          | .read i :: rest =>
            match reads with
            | r :: rs =>
              let (s, d) := getD h i
              -- runtime cross-check of the theorem `state = batch denotation`
              let b := batch d
              let thm := s.count == b.count && s.total == b.total && s.mean == b.mean &&
                s.meanSq == b.meanSq && s.m2 == b.m2 && (s.count == 0 || (s.min == b.min && s.max == b.max))
              go h rest rs (k + 1) (acc ++ [("model-eq-batch", thm, s!"acc {i}")] ++
                (checkRead s d k r).map fun (c, b, m) => (c, b, s!"acc={i} op#{k} {m}"))
            | [] => acc ++ [("readout-count", false, "missing readout")]
          | op :: rest => go (step h op) rest reads (k + 1) acc
        let checks := go init ops reads 0 []
        let ncomb := (ops.filter fun o => match o with | .comb .. => true | _ => false).length
        let nadd := (ops.filter fun o => match o with | .add .. => true | _ => false).length
        let tag := (if ncomb ≥ 1 && nadd ≥ 3 then "nt" else "tr") ++ s!" comb={min ncomb 9} "
        verdictOf tag checks
      | _, _ => .badOp "st: cannot parse ops/readouts"
    | _, _, _ => .badOp "st: bad arguments"
  | _, _ => .badOp "st: arity"

end MV.Stream
