import MV.Model.TTest
import MV.Model.Special
/-! Driver for C04: `tt kind x1 x2 mu0 alt` and `meanci xs c`. -/
namespace MV.TTest
open MV MV.Sample

def eps : Rat := pow2 (-52)

def maxAbs (xs : List Rat) : Rat := (xs.map ratAbs).foldl ratMax 0

/-- relative conditioning of mean and variance of a sample (forward error factors) -/
def condOf (xs : List Rat) : Rat :=
  if xs.length ≤ 1 then 1 else
  let M := maxAbs xs
  let mu := meanSpec xs
  let D := maxAbs (xs.map (· - mu))
  let v := varSpec xs
  if v == 0 then 1 else (M * D + D * D) / v

def handleTT (ins outs : List J) : Verdict :=
  match ins with
  | [.atom kind, x1J, x2J, muJ, altJ] =>
    match x1J.rats?, x2J.rats?, muJ.rat?, altJ.int? with
    | some x1, some x2, some mu0, some alt =>
      let res : Except Err Stat :=
        if kind == "pooled" then pooled x1 x2 else if kind == "welch" then welch x1 x2
        else if kind == "paired" then paired x1 x2 mu0 else oneSample x1 mu0
      let tag := "nt " ++ kind ++ (if alt == 0 then " differs" else if alt < 0 then " less" else " greater")
      match res, outs with
      | .error .sampleSize, [.atom "err", .atom "size"] => .ok (tag ++ " err-size")
      | .error .zeroVariance, [.atom "err", .atom "zerovar"] => .ok (tag ++ " err-zerovar")
      | .error .mismatched, [.atom "err", .atom "mismatch"] => .ok (tag ++ " err-mismatch")
      | .error e, _ => .fail "ttest-error-kind" s!"model expects error {repr e}, go returned {" ".intercalate (outs.map J.render)}"
      | .ok _, [.atom "err", .atom "zerovar"] =>
        -- the exact variance is positive but so small against the data that the float differences coincide
        -- (relative spread below the quantifier's 1e-6, here below one ulp): outside the property's range
        let d := if kind == "paired" then (x1.zip x2).map (fun (a, b) => a - b) else []
        let cVar := if kind == "paired" then condOf d else ratMax (condOf x1) (condOf x2)
        if cVar * eps > 1 / 1000 then .skip "ill-conditioned data (variance below rounding)"
        else .fail "ttest-error-kind" "model expects a result, go returned err zerovar"
      | .ok st, [n1J, n2J, tJ, dofJ, pJ, cdfJ] =>
        (match n1J.nat?, n2J.nat?, tJ.flt?, dofJ.flt?, pJ.flt?, cdfJ.flt? with
         | some g1, some g2, some (.fin gt), some (.fin gdof), some (.fin gp), some (.fin gcdf) =>
           let t2 := st.num * st.num / st.den2
           -- conditioning: cancellation in the mean difference and in the variances
           let d := if kind == "paired" then (x1.zip x2).map (fun (a, b) => a - b) else []
           let cMean : Rat :=
             if st.num == 0 then 1 else
             (if kind == "paired" then maxAbs d + ratAbs mu0 else if kind == "one" then maxAbs x1 + ratAbs mu0 else maxAbs x1 + maxAbs x2) / ratAbs st.num
           let cVar := if kind == "paired" then condOf d else ratMax (condOf x1) (condOf x2)
           let n : Rat := ((x1.length + x2.length + 4 : Nat) : Rat)
           let rt := 64 * n * eps * (cMean + cVar + 1)
           if rt > 1 / 10000 then .skip "ill-conditioned data" else
           let signOk := (st.num == 0 && ratAbs gt ≤ rt) || (st.num > 0 && gt > 0) || (st.num < 0 && gt < 0) || ratAbs gt ≤ rt
           let pWire : Bool :=      -- P is the Student-t tail of (T, DoF) as the library's own t CDF gives it
             if alt == 0 then closeR gp (2 * (1 - gcdf)) (1 / 1000000000000) 0
             else if alt < 0 then closeR gp gcdf (1 / 1000000000000) 0
             else closeR gp (1 - gcdf) (1 / 1000000000000) 0
           -- reference P: the proved general t CDF (series through the incomplete beta function) at the exact T;
           -- at integer DoF the textbook closed form must agree with it (cross-check only)
           let isInt := st.dof == ((st.dof.floor : Int) : Rat) && st.dof ≥ 1
           let pRef : List (String × Bool × String) :=
             if st.dof > 0 && st.dof ≤ 10000 then
               let tAbs := I.sqrt (I.ofRat t2)
               let lo := ratMax 0 (tAbs.lo * (1 - rt) - rt); let hi := tAbs.hi * (1 + rt) + rt
               if !Special.lgammaOK [st.dof / 2, 1 / 2, st.dof / 2 + 1 / 2] then [("reference-consistency", false, "the proved log Gamma enclosure did not terminate")] else
               -- when the tolerance on T reaches past zero the sign of the computed T is not determined by the data:
               -- the one-sided tails then range over both signs of the admitted |T| ≤ -loRaw
               let loRaw := tAbs.lo * (1 - rt) - rt
               let cNeg : Option I := if loRaw < 0 then Special.tCDFgen st.dof (-loRaw) else none
               if loRaw < 0 && cNeg.isNone then [] else
               match Special.tCDFgen st.dof lo, Special.tCDFgen st.dof hi with
               | some cl, some ch =>
                 let mk (cAbs : I) : I :=
                   let cAbs : I := match cNeg with
                     | some cn => if alt == 0 then cAbs else ⟨ratMin cAbs.lo (1 - cn.hi), cAbs.hi⟩
                     | none => cAbs
                   let c : I := if st.num ≥ 0 then cAbs else I.sub (I.ofRat 1) cAbs
                   if alt == 0 then I.scale 2 (I.sub (I.ofRat 1) cAbs)
                   else if alt < 0 then c else I.sub (I.ofRat 1) c
                 let want := mk ⟨cl.lo, ch.hi⟩               -- CDF(|T|) is monotone in |T|
                 -- a non-integer DoF itself carries the forward error of the variances
                 let slack : Rat := 4 / 1000000000 + (if isInt then 0 else 64 * rt)
                 [("ttest-P", decide (want.lo - slack ≤ gp ∧ gp ≤ want.hi + slack), s!"go P={ratStr gp} reference [{ratStr want.lo},{ratStr want.hi}] dof={ratStr st.dof}")] ++
                 (if isInt && st.dof ≤ 400 then
                    let closed := mk (Special.tCDFI st.dof.floor.toNat ⟨lo, hi⟩)
                    [("reference-consistency", (decide (want.lo ≤ closed.hi + 1 / pow2 60) && decide (closed.lo ≤ want.hi + 1 / pow2 60)), s!"dof={ratStr st.dof}: series [{ratStr want.lo},{ratStr want.hi}] vs closed form [{ratStr closed.lo},{ratStr closed.hi}]")]
                  else [])
               | _, _ => []
             else []
           verdictOf (tag ++ (if pRef.isEmpty then " wiring-only" else " reference-P"))
             ([("ttest-N", g1 == st.n1 && g2 == st.n2, s!"go {g1},{g2} model {st.n1},{st.n2}"),
               ("ttest-T-sign", signOk, s!"go T={ratStr gt} model numerator {ratStr st.num}"),
               ("ttest-T", closeR (gt * gt) t2 (rt * rt) (2 * rt), s!"go T^2={ratStr (gt * gt)} model {ratStr t2} rtol {ratStr rt}"),
               ("ttest-DoF", closeR gdof st.dof 0 (4 * rt), s!"go {ratStr gdof} model {ratStr st.dof}"),
               ("ttest-P-range", decide (0 ≤ gp ∧ gp ≤ 1 + 1 / 1000000000000), ratStr gp),
               ("ttest-P-is-t-tail", pWire, s!"P={ratStr gp} cdf(T)={ratStr gcdf} alt={alt}")] ++ pRef)
         | _, _, _, _, _, _ => .fail "ttest-finite" s!"non-finite result {" ".intercalate (outs.map J.render)}")
      | .ok _, _ => .fail "ttest-error-kind" s!"model expects a result, go returned {" ".intercalate (outs.map J.render)}"
    | _, _, _, _ => .badOp "tt: parse"
  | _ => .badOp "tt: arity"

def handleMeanCI (ins outs : List J) : Verdict :=
  match ins, outs with
  | [xsJ, cJ], [mJ, loJ, hiJ] =>
    match xsJ.rats?, cJ.rat?, mJ.flt?, loJ.flt?, hiJ.flt? with
    | some xs, some c, some gm, some glo, some ghi =>
      let n := xs.length
      if n == 0 then verdictOf "tr meanci empty" [("meanci-empty", gm == .nan, s!"mean {gm.str}")]
      else
        let mu := meanSpec xs
        let M := maxAbs xs
        let tolM := 16 * ((n + 2 : Nat) : Rat) * eps * M
        let meanOk := closeV gm (.fin mu) tolM 0
        if c ≤ 0 then
          verdictOf "nt meanci c<=0" [("meanci-mean", meanOk, gm.str), ("meanci-zero-width", glo == gm && ghi == gm, s!"[{glo.str},{ghi.str}]")]
        else if c ≥ 1 || n ≤ 1 then
          verdictOf "nt meanci infinite" [("meanci-mean", meanOk, gm.str), ("meanci-infinite-width", glo == .ninf && ghi == .pinf, s!"[{glo.str},{ghi.str}]")]
        else match gm, glo, ghi with
          | .fin m, .fin lo, .fin hi =>
            let v := varSpec xs
            if v == 0 then verdictOf "tr meanci zero-variance" [("meanci-mean", meanOk, gm.str)]
            else
              let cv := condOf xs
              let rt := 64 * ((n + 2 : Nat) : Rat) * eps * (cv + 1)
              if rt > 1 / 10000 then .skip "ill-conditioned data" else
              let w1 := m - lo; let w2 := hi - m
              let sym := closeR w1 w2 (8 * eps * (ratAbs m + ratAbs lo + ratAbs hi)) (1 / 1000000000000)
              -- content: t = w √n / s ; 2 F_{n−1}(t) − 1 = c
              let t := I.div (I.scale w2 (I.sqrt (I.ofRat (n : Rat)))) (I.sqrt (I.ofRat v))
              let t : I := ⟨t.lo * (1 - rt), t.hi * (1 + rt)⟩
              -- content from the proved general t CDF (monotone in t); the closed form is a cross-check
              let nu : Rat := ((n - 1 : Nat) : Rat)
              let closed := I.sub (I.scale 2 (Special.tCDFI (n - 1) t)) (I.ofRat 1)
              let content : I := match Special.tCDFgen nu (ratMax 0 t.lo), Special.tCDFgen nu (ratMax 0 t.hi) with
                | some cl, some ch => I.sub (I.scale 2 ⟨cl.lo, ch.hi⟩) (I.ofRat 1)
                | _, _ => closed
              let cons := Special.lgammaOK [nu / 2, 1 / 2, nu / 2 + 1 / 2] &&
                decide (content.lo ≤ closed.hi + 1 / pow2 60) && decide (closed.lo ≤ content.hi + 1 / pow2 60)
              verdictOf "nt meanci"
                [("meanci-mean", meanOk, s!"go {ratStr m} model {ratStr mu}"),
                 ("meanci-symmetric", sym, s!"[{ratStr lo},{ratStr hi}] about {ratStr m}"),
                 ("meanci-content", decide (content.lo - 4 / 1000000000 ≤ c ∧ c ≤ content.hi + 4 / 1000000000),
                   s!"t-content of the interval [{ratStr content.lo},{ratStr content.hi}] vs c={ratStr c}"),
                 ("reference-consistency", cons, s!"dof={ratStr nu}: series content [{ratStr content.lo},{ratStr content.hi}] vs closed form [{ratStr closed.lo},{ratStr closed.hi}]")]
          | _, _, _ => .fail "meanci-finite" s!"{gm.str} {glo.str} {ghi.str}"
    | _, _, _, _, _ => .badOp "meanci: parse"
  | _, _ => .badOp "meanci: arity"

end MV.TTest
