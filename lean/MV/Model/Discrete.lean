import MV.Model.UDist
/-!
C06 — binomial and hypergeometric distributions over exact rationals.
`k` is the already-floored integer argument.
-/
namespace MV.Discrete
open MV.UDist (chooseFast)

def rpow (q : Rat) (n : Nat) : Rat := (List.range n).foldl (fun acc _ => acc * q) 1

/-- fast exponentiation for execution (square and multiply) -/
def rpowFast (q : Rat) : Nat → Rat
  | 0 => 1
  | n + 1 =>
    let h := rpowFast q ((n + 1) / 2)
    if (n + 1) % 2 == 0 then h * h else h * h * q
termination_by n => n
decreasing_by omega

def binomPMF (n : Nat) (p : Rat) (k : Int) : Rat :=
  if k < 0 ∨ k > n then 0
  else (chooseFast n k.toNat : Rat) * rpowFast p k.toNat * rpowFast (1 - p) (n - k.toNat)

def binomCDF (n : Nat) (p : Rat) (k : Int) : Rat :=
  if k < 0 then 0 else if k ≥ n then 1
  else ((List.range (k.toNat + 1)).map fun (i : Nat) => binomPMF n p (i : Int)).foldl (· + ·) 0

def binomMean (n : Nat) (p : Rat) : Rat := n * p
def binomVar (n : Nat) (p : Rat) : Rat := n * p * (1 - p)

def hypLo (N K D : Nat) : Nat := (D + K) - N       -- max(0, D+K-N) by truncated subtraction
def hypHi (_N K D : Nat) : Nat := min D K

def hypPMF (N K D : Nat) (k : Int) : Rat :=
  if k < hypLo N K D ∨ k > hypHi N K D then 0
  else (chooseFast K k.toNat * chooseFast (N - K) (D - k.toNat) : Nat) / (chooseFast N D : Rat)

def hypCDF (N K D : Nat) (k : Int) : Rat :=
  if k < hypLo N K D then 0 else if k ≥ hypHi N K D then 1
  else ((List.range (k.toNat + 1)).map fun (i : Nat) => hypPMF N K D (i : Int)).foldl (· + ·) 0

/-! ### The algorithm of `HypergeometicDist.CDF` (Klotz): `pmf(k) · Σ_j pmf(k-j)/pmf(k)`, on either side

`hypTerm N K D k j` is the running term `ak` after `j` steps of the loop in `sum` (exact arithmetic, without the
early stop at `ak/sum ≤ 1e-14`), `hypSeries` the sum over `j = 0 … k − L`. `hypCDFalg` is the value on the side
selected by `flip` (the code mirrors the distribution — `Draws ↦ N − Draws`, `k ↦ K − k − 1` — and returns
one minus the result). `Props/C06Klotz.lean` proves that both sides give `hypCDF`. -/

def hypTerm (N K D k : Nat) : Nat → Rat
  | 0 => 1
  | j + 1 =>
    hypTerm N K D k j * (((1 + k - (j + 1) : Nat) : Rat) / ((D - k + (j + 1) : Nat) : Rat))
      * ((((N : Int) - K - D + k + 1 - (j + 1) : Int) : Rat) / ((K - k + (j + 1) : Nat) : Rat))

def hypSeries (N K D k : Nat) : Rat :=
  ((List.range (k - hypLo N K D + 1)).map (hypTerm N K D k)).foldl (· + ·) 0

def hypCDFalg (N K D k : Nat) (flip : Bool) : Rat :=
  if flip then 1 - hypPMF N K (N - D) ((K - k - 1 : Nat) : Int) * hypSeries N K (N - D) (K - k - 1)
  else hypPMF N K D (k : Int) * hypSeries N K D k

def hypMean (N K D : Nat) : Rat := (D * K : Nat) / (N : Rat)
def hypVar (N K D : Nat) : Rat := (D * K * (N - K) * (N - D) : Nat) / ((N * N * (N - 1) : Nat) : Rat)

end MV.Discrete
