import MV.Model.UDist
/-!
C06 — binomial and hypergeometric distributions over exact rationals.
`k` is the already-floored integer argument.
-/
namespace MV.Discrete
open MV.UDist (chooseFast)

def rpow (q : Rat) (n : Nat) : Rat := (List.range n).foldl (fun acc _ => acc * q) 1

/-- fast exponentiation for execution (square and multiply) -/
def rpowFast (q : Rat) : Nat → Rat
  | 0 => 1
  | n + 1 =>
    let h := rpowFast q ((n + 1) / 2)
    if (n + 1) % 2 == 0 then h * h else h * h * q
termination_by n => n
decreasing_by omega

def binomPMF (n : Nat) (p : Rat) (k : Int) : Rat :=
  if k < 0 ∨ k > n then 0
  else (chooseFast n k.toNat : Rat) * rpowFast p k.toNat * rpowFast (1 - p) (n - k.toNat)

def binomCDF (n : Nat) (p : Rat) (k : Int) : Rat :=
  if k < 0 then 0 else if k ≥ n then 1
  else ((List.range (k.toNat + 1)).map fun (i : Nat) => binomPMF n p (i : Int)).foldl (· + ·) 0

def binomMean (n : Nat) (p : Rat) : Rat := n * p
def binomVar (n : Nat) (p : Rat) : Rat := n * p * (1 - p)

def hypLo (N K D : Nat) : Nat := (D + K) - N       -- max(0, D+K-N) by truncated subtraction
def hypHi (_N K D : Nat) : Nat := min D K

def hypPMF (N K D : Nat) (k : Int) : Rat :=
  if k < hypLo N K D ∨ k > hypHi N K D then 0
  else (chooseFast K k.toNat * chooseFast (N - K) (D - k.toNat) : Nat) / (chooseFast N D : Rat)

def hypCDF (N K D : Nat) (k : Int) : Rat :=
  if k < hypLo N K D then 0 else if k ≥ hypHi N K D then 1
  else ((List.range (k.toNat + 1)).map fun (i : Nat) => hypPMF N K D (i : Int)).foldl (· + ·) 0

def hypMean (N K D : Nat) : Rat := (D * K : Nat) / (N : Rat)
def hypVar (N K D : Nat) : Rat := (D * K * (N - K) * (N - D) : Nat) / ((N * N * (N - 1) : Nat) : Rat)

end MV.Discrete
