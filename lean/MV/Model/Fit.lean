import MV.Basic
/-!
C15 — least squares over exact rationals: normal equations, Gauss–Jordan solve
(validated by `A·β = b` in the driver), polynomial regression, LOESS window and
tricube weights.
-/
namespace MV.Fit

abbrev Vec := List Rat
abbrev Mat := List (List Rat)

def dot (a b : Vec) : Rat := (a.zip b).foldl (fun s (x, y) => s + x * y) 0

def matVec (A : Mat) (v : Vec) : Vec := A.map fun row => dot row v

/-- rows = terms (Xᵀ), weights `w` (all ones when unweighted) -/
def normalMatrix (XT : Mat) (w : Vec) : Mat :=
  XT.map fun ri => XT.map fun rj => dot (ri.zip w |>.map fun (a, b) => a * b) rj

def normalRhs (XT : Mat) (w y : Vec) : Vec :=
  XT.map fun ri => dot (ri.zip w |>.map fun (a, b) => a * b) y

/-- one elimination step on an augmented matrix (rows with extra columns); pivot on column `c` -/
def pivotStep (M : Mat) (c : Nat) : Option Mat :=
  -- find a row ≥ c with non-zero entry in column c
  match (List.range M.length).find? (fun r => r ≥ c && (M.getD r []).getD c 0 != 0) with
  | none => none
  | some r =>
    let rowR := M.getD r []
    let rowC := M.getD c []
    let M1 := (M.set r rowC).set c rowR        -- swap
    let p := rowR.getD c 0
    let prow := rowR.map (· / p)
    some ((List.range M1.length).map fun i =>
      if i == c then prow
      else
        let row := M1.getD i []
        let f := row.getD c 0
        (row.zip prow).map fun (a, b) => a - f * b)

/-- Gauss–Jordan on [A | B]; returns the right block (A⁻¹B) or none if singular -/
def gaussJordan (A : Mat) (B : Mat) : Option Mat :=
  let n := A.length
  let aug := (A.zip B).map fun (a, b) => a ++ b
  let res := (List.range n).foldl (fun (m : Option Mat) c => m.bind fun M => pivotStep M c) (some aug)
  res.map fun M => M.map fun row => row.drop n

def identity (n : Nat) : Mat := (List.range n).map fun i => (List.range n).map fun j => if i == j then 1 else 0

/-- solve A β = b -/
def solve (A : Mat) (b : Vec) : Option Vec :=
  (gaussJordan A (b.map fun x => [x])).map fun M => M.map fun r => r.getD 0 0

def inverse (A : Mat) : Option Mat := gaussJordan A (identity A.length)

def normInf (A : Mat) : Rat := (A.map fun r => (r.map ratAbs).foldl (· + ·) 0).foldl ratMax 0
def vecInf (v : Vec) : Rat := (v.map ratAbs).foldl ratMax 0

/-- weighted sum of squared residuals for parameters β -/
def sse (XT : Mat) (w y β : Vec) : Rat :=
  let n := y.length
  ((List.range n).map fun i =>
    let fit := ((XT.map fun row => row.getD i 0).zip β).foldl (fun s (a, b) => s + a * b) 0
    let r := y.getD i 0 - fit
    w.getD i 1 * r * r).foldl (· + ·) 0

def rpow (x : Rat) (k : Nat) : Rat := (List.range k).foldl (fun a _ => a * x) 1

/-- monomial design: row d = x^d -/
def monomials (xs : Vec) (degree : Nat) : Mat := (List.range (degree + 1)).map fun d => xs.map fun x => rpow x d

/-- Horner-free evaluation as the code does it: y = c0 + Σ xp·c, xp *= x -/
def polyEval (coeffs : Vec) (x : Rat) : Rat :=
  match coeffs with
  | [] => 0
  | c0 :: cs => (cs.foldl (fun (y, xp) c => (y + xp * c, xp * x)) (c0, x)).1

/-- tricube weight of a point at distance `a` when the window radius is `d` -/
def tricube (a d : Rat) : Rat := let u := a / d; let t := 1 - u * u * u; t * t * t

/-- least i in [0, n−q) with xs[i] + xs[i+q] ≥ 2x, else n−q (binary search result = linear search for a monotone predicate) -/
def windowStart (xs : Vec) (q : Nat) (x : Rat) : Nat :=
  ((List.range (xs.length - q)).find? fun i => xs.getD i 0 + xs.getD (i + q) 0 ≥ 2 * x).getD (xs.length - q)

end MV.Fit
