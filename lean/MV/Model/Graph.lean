import MV.Basic
/-!
C18 / C19 — graphs.  A graph is an array of adjacency lists (order kept,
parallel edges and self-loops allowed).  Everything is core-only and
executable; theorems live in `MV/Props/C18.lean`, `C19.lean`.
-/
namespace MV.Graph

abbrev G := Array (List Nat)

def out (g : G) (v : Nat) : List Nat := g.getD v []

/-! ## NodeMarks at the bit level (graphalg/marks.go) -/

/-- Words are 32-bit values stored as `Nat`; the invariant `w < 2^32` is kept by every op. -/
structure Marks where
  words : Array Nat
  deriving Repr

def Marks.new : Marks := ⟨Array.replicate 32 0⟩

def Marks.test (m : Marks) (i : Int) : Bool :=
  if i < 0 then false
  else
    let n := i.toNat
    if n / 32 ≥ m.words.size then false
    else (m.words.getD (n / 32) 0).testBit (n % 32)

/-- smallest power of two `≥ n` (as the loop `for k < n { k <<= 1 }` from 1), with fuel. -/
def pow2ge (n : Nat) : Nat → Nat → Nat
  | 0, k => k
  | f + 1, k => if k < n then pow2ge n f (k * 2) else k

def Marks.grow (m : Marks) (i : Nat) : Marks :=
  let n := i / 32 + 1
  let k := pow2ge n 64 1
  ⟨m.words ++ Array.replicate (k - m.words.size) 0⟩

def Marks.mark (m : Marks) (i : Nat) : Marks :=
  let m := if i / 32 ≥ m.words.size then m.grow i else m
  ⟨m.words.setIfInBounds (i / 32) ((m.words.getD (i / 32) 0) ||| (1 <<< (i % 32)))⟩

def Marks.unmark (m : Marks) (i : Nat) : Marks :=
  if i / 32 ≥ m.words.size then m
  else
    let w := m.words.getD (i / 32) 0
    ⟨m.words.setIfInBounds (i / 32) (if w.testBit (i % 32) then w - (1 <<< (i % 32)) else w)⟩

/-- index of the lowest set bit of `w` (searching `fuel` bits from `k`). -/
def lowBit (w : Nat) : Nat → Nat → Nat
  | 0, k => k
  | f + 1, k => if w.testBit k then k else lowBit w f (k + 1)

/-- scan words from index `bi` for the first non-zero one. -/
def scanWords (ws : Array Nat) : Nat → Nat → Int
  | 0, _ => -1
  | f + 1, bi =>
    if bi ≥ ws.size then -1
    else
      let b := ws.getD bi 0
      if b ≠ 0 then ((32 * bi + lowBit b 32 0 : Nat) : Int) else scanWords ws f (bi + 1)

def Marks.next (m : Marks) (i : Int) : Int :=
  let i1 := i + 1
  let j : Nat := if i1 < 0 then 0 else i1.toNat
  if j / 32 ≥ m.words.size then -1
  else
    let b0 := (m.words.getD (j / 32) 0) >>> (j % 32)
    if b0 ≠ 0 then ((j + lowBit b0 32 0 : Nat) : Int)
    else scanWords m.words m.words.size (j / 32 + 1)

inductive MOp where
  | mark (i : Nat) | unmark (i : Nat) | test (i : Int) | next (i : Int)
  deriving Repr

/-- Run a history; outputs of test (0/1) and next, in order. -/
def runMarks (ops : List MOp) : List Int :=
  let rec go (m : Marks) : List MOp → List Int → List Int
    | [], acc => acc.reverse
    | .mark i :: r, acc => go (m.mark i) r acc
    | .unmark i :: r, acc => go (m.unmark i) r acc
    | .test i :: r, acc => go m r ((if m.test i then 1 else 0) :: acc)
    | .next i :: r, acc => go m r (m.next i :: acc)
  go Marks.new ops []

/-- The abstract set semantics of the same history (spec). -/
def runSet (ops : List MOp) : List Int :=
  let rec go (s : List Nat) : List MOp → List Int → List Int
    | [], acc => acc.reverse
    | .mark i :: r, acc => go (if s.contains i then s else i :: s) r acc
    | .unmark i :: r, acc => go (s.filter (· != i)) r acc
    | .test i :: r, acc => go s r ((if i ≥ 0 && s.contains i.toNat then 1 else 0) :: acc)
    | .next i :: r, acc =>
      let cands : List Nat := s.filter (fun (x : Nat) => decide ((x : Int) > i))
      let nx : Int := match cands with
        | [] => -1
        | c :: cs => ((cs.foldl Nat.min c : Nat) : Int)
      go s r (nx :: acc)
  go [] ops []

/-! ## Depth-first traversal (order.go, visit.go) -/

structure DState where
  visited : Array Bool
  events : List (Bool × Nat)    -- reversed; (true,v)=Enter v, (false,v)=Exit v

def DState.seen (s : DState) (v : Nat) : Bool := s.visited.getD v false

/-- Visit `v` (assumed not yet visited) with recursion-depth fuel. -/
def visit (g : G) : Nat → Nat → DState → DState
  | 0, _, s => s
  | fuel + 1, v, s =>
    let s1 : DState := ⟨s.visited.setIfInBounds v true, (true, v) :: s.events⟩
    let s2 := (out g v).foldl (fun s w => if s.seen w then s else visit g fuel w s) s1
    ⟨s2.visited, (false, v) :: s2.events⟩

/-- Euler tour events from `root`, oldest first. -/
def euler (g : G) (root : Nat) : List (Bool × Nat) :=
  (visit g (g.size + 1) root ⟨Array.replicate g.size false, []⟩).events.reverse

def preOrder (g : G) (root : Nat) : List Nat :=
  (euler g root).filterMap fun (b, v) => if b then some v else none
def postOrder (g : G) (root : Nat) : List Nat :=
  (euler g root).filterMap fun (b, v) => if b then none else some v

/-! ## Reachability (spec core): closure by `n` rounds of successor expansion -/

def expand (g : G) (s : Array Bool) : Array Bool :=
  (List.range g.size).foldl
    (fun acc u => if s.getD u false then (out g u).foldl (fun a w => a.setIfInBounds w true) acc else acc) s

def iter {α} (f : α → α) : Nat → α → α
  | 0, a => a
  | n + 1, a => iter f n (f a)

/-- nodes reachable from `u` (reflexive-transitive), as a Bool array. -/
def reachSet (g : G) (u : Nat) : Array Bool :=
  iter (expand g) g.size ((Array.replicate g.size false).setIfInBounds u true)

def reachB (g : G) (u v : Nat) : Bool := (reachSet g u).getD v false

/-- all-pairs reachability table -/
def reachAll (g : G) : Array (Array Bool) := (Array.range g.size).map (reachSet g)

/-! ## SCC: specification as a checker on any claimed result -/

/-- Claimed SCC result: component list (each a list of nodes), optional
node→component map, optional per-component out lists. -/
structure SCCRes where
  comps : List (List Nat)
  compOf : Option (List Nat)
  outs : Option (List (List Nat))

def dedupSorted : List Nat → List Nat
  | [] => []
  | [x] => [x]
  | x :: y :: r => if x == y then dedupSorted (y :: r) else x :: dedupSorted (y :: r)

def insertSorted (x : Nat) : List Nat → List Nat
  | [] => [x]
  | y :: r => if x ≤ y then x :: y :: r else y :: insertSorted x r

def sortNat (l : List Nat) : List Nat := l.foldl (fun acc x => insertSorted x acc) []

/-- `holdsSCC g r`: (a) comps partition 0..n-1 into non-empty lists; (b) the
component map (derived from comps, and equal to Go's if given) puts two nodes
together iff mutually reachable; (c) every edge u→v has comp v ≤ comp u;
(d) if given, outs c = sorted duplicate-free list of comps ≠ c entered by an edge from c.
Returns the name of the first failing clause. -/
def holdsSCC (g : G) (r : SCCRes) : Option String :=
  let n := g.size
  let flat := r.comps.flatten
  if sortNat flat != List.range n then some "partition" else
  if r.comps.any (·.isEmpty) then some "empty-component" else
  -- derive comp map
  let cm : Array Nat := Id.run do
    let mut a := Array.replicate n 0
    let mut ci := 0
    for c in r.comps do
      for v in c do
        a := a.setIfInBounds v ci
      ci := ci + 1
    return a
  if (match r.compOf with | some m => m != cm.toList | none => false) then some "subnode-component" else
  let ra := reachAll g
  let reach (u v : Nat) : Bool := (ra.getD u #[]).getD v false
  let mutualOk := (List.range n).all fun u => (List.range n).all fun v =>
    (cm.getD u 0 == cm.getD v 0) == (reach u v && reach v u)
  if !mutualOk then some "mutual-reachability" else
  let topoOk := (List.range n).all fun u => (out g u).all fun v => cm.getD v 0 ≤ cm.getD u 0
  if !topoOk then some "reverse-topological" else
  match r.outs with
  | none => none
  | some outs =>
    if outs.length != r.comps.length then some "out-shape" else
    let want (c : Nat) : List Nat :=
      dedupSorted (sortNat (((r.comps.getD c []).flatMap fun u => (out g u).map fun v => cm.getD v 0).filter (· != c)))
    if (List.range outs.length).all fun c => outs.getD c [] == want c then none else some "scc-edges"

/-- The definitional SCC partition (used for non-vacuity and as a cross-check):
components listed in an order where a component comes after everything it reaches. -/
def sccSpec (g : G) : List (List Nat) :=
  let n := g.size
  let ra := reachAll g
  let reach (u v : Nat) : Bool := (ra.getD u #[]).getD v false
  -- representative = least mutually reachable node
  let rep (u : Nat) : Nat := ((List.range n).find? fun v => reach u v && reach v u).getD u
  let reps := (List.range n).filter fun u => rep u == u
  -- order representatives: fewer reachable representatives first (a valid reverse topological order)
  let key (r : Nat) : Nat := (reps.filter fun s => reach r s).length
  let sorted := reps.foldl (fun acc r =>
    let (a, b) := acc.span (fun s => key s ≤ key r); a ++ [r] ++ b) []
  sorted.map fun r => (List.range n).filter fun u => rep u == r

/-! ## SimplifyMulti, subgraphs, transpose, Equal -/

/-- merge parallel edges: first-occurrence order, weights summed (unit weights → counts). -/
def simplifyNode (outs : List Nat) (ws : List Rat) : List (Nat × Rat) :=
  (outs.zip ws).foldl (fun acc (o, w) =>
    if acc.any (·.1 == o) then acc.map fun (o', w') => if o' == o then (o', w' + w) else (o', w')
    else acc ++ [(o, w)]) []

/-- position of `x` in `l` -/
def indexOf? (l : List Nat) (x : Nat) : Option Nat :=
  let rec go : List Nat → Nat → Option Nat
    | [], _ => none
    | y :: r, i => if y == x then some i else go r (i + 1)
  go l 0

/-- SubgraphKeep: nodes (distinct, in range), edges as (node, edgeIndex) in the given order.
Result: per new node (out list, oldNode, oldEdges). -/
def subgraphKeep (g : G) (nodes : List Nat) (edges : List (Nat × Nat)) : List (List Nat × Nat × List Nat) :=
  nodes.map fun old =>
    let es := edges.filter fun (u, _) => u == old
    (es.map fun (u, e) => (indexOf? nodes ((out g u).getD e 0)).getD 0, old, es.map (·.2))

def subgraphRemove (g : G) (rmNodes : List Nat) (rmEdges : List (Nat × Nat)) : List (List Nat × Nat × List Nat) :=
  let kept := (List.range g.size).filter fun v => !rmNodes.contains v
  kept.map fun old =>
    let idx := (List.range (out g old).length).filter fun j =>
      !rmNodes.contains ((out g old).getD j 0) && !rmEdges.contains (old, j)
    (idx.map fun j => (indexOf? kept ((out g old).getD j 0)).getD 0, old, idx)

/-- In-lists of MakeBiGraph: predecessors in source order (with multiplicity). -/
def transpose (g : G) : List (List Nat) :=
  (List.range g.size).map fun v =>
    (List.range g.size).flatMap fun u => (out g u).filterMap fun w => if w == v then some u else none

def graphEqual (g1 g2 : G) : Bool :=
  g1.size == g2.size &&
  (List.range g1.size).all fun i => sortNat (out g1 i) == sortNat (out g2 i)

/-! ## Dot strings -/

def dotEscape (s : List Char) : List Char :=
  ['"'] ++ (s.flatMap fun c =>
    if c == '\n' then ['\\', 'n']
    else if c == '\\' || c == '"' || c == '{' || c == '}' || c == '<' || c == '>' || c == '|' then ['\\', c]
    else [c]) ++ ['"']

/-- Inverse reading of a quoted dot string: `\n` is newline, `\c` is `c`. `none` if malformed
(not quoted, unescaped quote inside, dangling backslash). -/
def dotUnescape (s : List Char) : Option (List Char) :=
  match s with
  | '"' :: rest =>
    let rec go : List Char → List Char → Option (List Char)
      | ['"'], acc => some acc.reverse
      | '\\' :: 'n' :: r, acc => go r ('\n' :: acc)
      | '\\' :: c :: r, acc => go r (c :: acc)
      | '"' :: _, _ => none
      | c :: r, acc => go r (c :: acc)
      | [], _ => none
    go rest []
  | _ => none

/-! ## Dominators (C19): definitions by node deletion -/

/-- reachability from `root` avoiding node `d` entirely -/
def reachAvoid (g : G) (root d : Nat) : Array Bool :=
  if root == d then Array.replicate g.size false
  else
    let g' : G := (g.mapIdx fun i l => if i == d then [] else l.filter (· != d))
    reachSet g' root

/-- `d` dominates `v` (both reachable): every path root→v passes through d. -/
structure DomCtx where
  n : Nat
  rs : Array Bool                 -- reachable from root
  av : Array (Array Bool)         -- av[d] = reachable from root avoiding d
def mkCtx (g : G) (root : Nat) : DomCtx :=
  ⟨g.size, reachSet g root, (Array.range g.size).map (reachAvoid g root)⟩
def DomCtx.dom (c : DomCtx) (d v : Nat) : Bool :=
  c.rs.getD v false && c.rs.getD d false && (d == v || !((c.av.getD d #[]).getD v false))
def DomCtx.sdom (c : DomCtx) (d v : Nat) : Bool := d != v && c.dom d v

/-- immediate dominator by definition: the strict dominator `d` of `v` that every
other strict dominator of `v` dominates; -1 for root / unreachable. -/
def idomSpec (g : G) (root : Nat) : List Int :=
  let c := mkCtx g root
  (List.range c.n).map fun v =>
    if v == root || !c.rs.getD v false then (-1 : Int)
    else
      let sd := (List.range c.n).filter fun d => c.sdom d v
      match sd.find? (fun d => sd.all fun e => e == d || c.dom e d) with
      | some d => (d : Int)
      | none => -2    -- impossible (theorem: exists uniquely)

/-- children lists of the dominator tree, increasing node order -/
def domChildren (idom : List Int) : List (List Nat) :=
  (List.range idom.length).map fun (p : Nat) =>
    (List.range idom.length).filter fun (c : Nat) => idom.getD c (-1) == (p : Int)

/-- dominance frontier by definition: reachable y with a reachable predecessor p,
x dom p, ¬ x sdom y. -/
def dfSpec (g : G) (root : Nat) : List (List Nat) :=
  let c := mkCtx g root
  (List.range c.n).map fun x =>
    if !c.rs.getD x false then [] else
    (List.range c.n).filter fun y =>
      c.rs.getD y false &&
      ((List.range c.n).any fun p => c.rs.getD p false && (out g p).contains y && c.dom x p) &&
      !c.sdom x y

/-- number of incoming edges of the root (with multiplicity), from all nodes -/
def rootInDeg (g : G) (root : Nat) : Nat :=
  ((List.range g.size).map fun u => ((out g u).filter (· == root)).length).foldl (· + ·) 0

end MV.Graph

namespace MV.Graph

/-! ## Mirror of the Go SCC routine (Tarjan, as in graphalg/scc.go) -/

structure TState where
  low : Array Nat                 -- 0 = not visited; `sentinel` = already assigned to a component
  stack : List Nat                -- node stack, most recent first
  index : Nat
  comps : List (List Nat)         -- finished components, most recent first
  compOf : Array Nat
  outStack : List (Nat × Nat)     -- (component id, node-stack length when pushed), most recent first
  outs : List (List Nat)          -- out-lists of finished components, most recent first

def sentinel (g : G) : Nat := g.size + 2

/-- `connect nid` with recursion-depth fuel -/
def connect (g : G) : Nat → Nat → TState → TState
  | 0, _, st => st
  | fuel + 1, nid, st =>
    let myLow := st.index
    let stackPos := st.stack.length
    let st : TState := { st with low := st.low.setIfInBounds nid myLow, index := st.index + 1, stack := nid :: st.stack }
    -- successors
    let (st, mn) := (out g nid).foldl (fun (acc : TState × Nat) oid =>
      let (st, mn) := acc
      let st := if st.low.getD oid 0 == 0 then connect g fuel oid st else st
      let lo := st.low.getD oid 0
      let mn := if lo < mn then lo else mn
      let st := if lo == sentinel g then { st with outStack := (st.compOf.getD oid 0, stackPos) :: st.outStack } else st
      (st, mn)) (st, myLow)
    if mn < myLow then { st with low := st.low.setIfInBounds nid mn }
    else
      -- nid is the root of a component: pop the stack down to nid
      let cid := st.comps.length
      let (popped, rest) := st.stack.span (· != nid)
      let members := (popped ++ [nid]).reverse         -- in push order, as `stack[i:]`
      let rest := rest.drop 1
      let low := members.foldl (fun a v => a.setIfInBounds v (sentinel g)) st.low
      let compOf := members.foldl (fun a v => a.setIfInBounds v cid) st.compOf
      -- out-edges recorded while this component's nodes were on the stack
      let (mine, others) := st.outStack.span (fun e => e.2 ≥ rest.length)
      let outList := dedupSorted (sortNat (mine.map (·.1)))
      { st with low := low, stack := rest, comps := members :: st.comps, compOf := compOf,
                outStack := others, outs := outList :: st.outs }

/-- the whole routine: components in creation order, node→component, out-lists -/
def tarjan (g : G) : List (List Nat) × List Nat × List (List Nat) :=
  let init : TState := ⟨Array.replicate g.size 0, [], 1, [], Array.replicate g.size 0, [], []⟩
  let st := (List.range g.size).foldl (fun st nid => if st.low.getD nid 0 == 0 then connect g (g.size + 1) nid st else st) init
  (st.comps.reverse, st.compOf.toList, st.outs.reverse)

/-! ## Mirror of IDom (Cooper–Harvey–Kennedy) and DomFrontier (graphalg/dom.go) -/

/-- `intersect` with fuel: walk the two fingers up the (partial) dominator tree by post-order number -/
def intersect (idom : Array Int) (poNum : Array Nat) : Nat → Nat → Nat → Nat
  | 0, b1, _ => b1
  | f + 1, b1, b2 =>
    if b1 == b2 then b1
    else if poNum.getD b1 0 < poNum.getD b2 0 then intersect idom poNum f (idom.getD b1 0).toNat b2
    else intersect idom poNum f b1 (idom.getD b2 0).toNat

/-- one pass over the nodes in reverse post-order; returns the new array and whether it changed -/
def chkPass (g : G) (preds : List (List Nat)) (root : Nat) (rpo : List Nat) (poNum : Array Nat) (idom : Array Int) : Array Int × Bool :=
  rpo.foldl (fun (acc : Array Int × Bool) b =>
    let (idom, changed) := acc
    if b == root then (idom, changed) else
    let newIdom : Int := (preds.getD b []).foldl (fun (cur : Int) p =>
      if idom.getD p (-1) == -1 then cur
      else if cur == -1 then (p : Int)
      else ((intersect idom poNum (2 * g.size + 2) p cur.toNat : Nat) : Int)) (-1)
    if idom.getD b (-1) != newIdom then (idom.setIfInBounds b newIdom, true) else (idom, changed)) (idom, false)

/-- iterate to convergence (fuel passes) -/
def chkIter (g : G) (preds : List (List Nat)) (root : Nat) (rpo : List Nat) (poNum : Array Nat) : Nat → Array Int → Array Int
  | 0, idom => idom
  | f + 1, idom =>
    let (idom', changed) := chkPass g preds root rpo poNum idom
    if changed then chkIter g preds root rpo poNum f idom' else idom'

def idomCHK (g : G) (root : Nat) : List Int :=
  let po := postOrder g root
  let poNum : Array Nat := (po.zip (List.range po.length)).foldl (fun a (v, i) => a.setIfInBounds v i) (Array.replicate g.size 0)
  let rpo := po.reverse
  let preds := transpose g
  let init : Array Int := (Array.replicate g.size (-1 : Int)).setIfInBounds root (root : Int)
  let res := chkIter g preds root rpo poNum (g.size + 3) init
  (res.setIfInBounds root (-1)).toList

/-- runner walk of DomFrontier with fuel -/
def dfWalk (idom : Array Int) (b : Nat) (bdom : Int) : Nat → Int → Array (List Nat) → Array (List Nat)
  | 0, _, df => df
  | f + 1, runner, df =>
    if runner == bdom || runner < 0 then df
    else
      let r := runner.toNat
      let cur := df.getD r []
      let df := if cur.contains b then df else df.setIfInBounds r (cur ++ [b])
      dfWalk idom b bdom f (idom.getD r (-1)) df

def domFrontierCHK (g : G) (root : Nat) (idomL : List Int) : List (List Nat) :=
  let idom := idomL.toArray
  let preds := transpose g
  let df := (List.range g.size).foldl (fun (df : Array (List Nat)) b =>
    let ps := preds.getD b []
    let bdom := idom.getD b (-1)
    if ps.length < 2 then df
    else if bdom == -1 && b != root then df
    else ps.foldl (fun df p =>
      if idom.getD p (-1) == -1 && p != root then df
      else dfWalk idom b bdom (g.size + 2) (p : Int) df) df) (Array.replicate g.size [])
  df.toList

end MV.Graph
