import MV.Basic
/-!
C14 — histograms.  `linBin` is the property's binning rule on exact rationals;
`histQuantile` is the rank walk of `HistogramQuantile` on given counters.
-/
namespace MV.Hist

/-- LinearHist bin index of `x` (may be negative or ≥ n): ⌊n (x − min) / (max − min)⌋. -/
def linBin (mn mx : Rat) (n : Nat) (x : Rat) : Int := ((n : Rat) * (x - mn) / (mx - mn)).floor

/-- LinearHist.BinToValue. -/
def linBinToValue (mn mx : Rat) (n : Nat) (b : Rat) : Rat := mn + b * (mx - mn) / (n : Rat)

inductive Slot | under | bin (i : Nat) | over deriving Repr, BEq, DecidableEq

def slotOf (nbins : Nat) (b : Int) : Slot :=
  if b < 0 then .under else if b ≥ nbins then .over else .bin b.toNat

/-! ### The conversion of a bin position to a machine `int`

Go's `int(f)` of a float64 beyond the int range is implementation-defined (the most negative int on amd64).
`conv` stands for that conversion: nothing is known of it outside `0 ≤ p < 2^63`. `clampBinM` is the repaired
`clampBin` (compare in floating point first, convert afterwards); `oldBinM` the pinned `int(math.Floor(p))`. -/

/-- `clampBin(b, nbins)` with an arbitrary conversion `conv` for in-range values -/
def clampBinM (conv : Rat → Int) (p : Rat) (nbins : Nat) : Int :=
  if ¬ (p ≥ 0) then -1 else if p ≥ (nbins : Rat) then (nbins : Int) else conv p

/-- the pinned code: convert first -/
def oldBinM (conv : Rat → Int) (p : Rat) : Int := conv p

structure Counts where
  under : Nat
  bins : List Nat
  over : Nat
  deriving Repr, BEq

def Counts.empty (n : Nat) : Counts := ⟨0, List.replicate n 0, 0⟩

def Counts.add (c : Counts) : Slot → Counts
  | .under => { c with under := c.under + 1 }
  | .over => { c with over := c.over + 1 }
  | .bin i => { c with bins := c.bins.set i (c.bins.getD i 0 + 1) }

def Counts.total (c : Counts) : Nat := c.under + c.bins.foldl (· + ·) 0 + c.over

/-- all adds of a LinearHist history -/
def linRun (mn mx : Rat) (n : Nat) (xs : List Rat) : Counts :=
  xs.foldl (fun c x => c.add (slotOf n (linBin mn mx n x))) (Counts.empty n)

/-- rank walk: bin index `i` and in-bin rank `g` (1 ≤ g ≤ c_i) of the goal-th binned sample -/
def walk : List Nat → Nat → Nat → Option (Nat × Nat × Nat)
  | [], _, _ => none
  | c :: cs, i, goal => if c ≥ goal then some (i, goal, c) else walk cs (i + 1) (goal - c)

/-- `HistogramQuantile` on counters for a given goal = ⌊q·total⌋; result is the fractional bin
position to feed to BinToValue, or `none` for NaN. -/
def histQuantilePos (c : Counts) (goal : Nat) : Option Rat :=
  if goal ≤ c.under ∨ goal > c.total - c.over then none
  else match walk c.bins 0 (goal - c.under) with
    | some (i, g, cnt) => some ((i : Rat) + (g : Rat) / (cnt : Rat))
    | none => none

/-- every integer between ⌊lo⌋ and ⌊hi⌋: the bins a sample may fall into when its real position is only
known to lie in [lo, hi] -/
def candsRange (lo hi : Rat) : List Int :=
  let a := lo.floor; let c := hi.floor
  (List.range ((c - a).toNat + 1)).map fun (i : Nat) => a + (i : Int)

end MV.Hist
