import MV.Basic
/-!
Rational interval arithmetic with outward dyadic rounding, and enclosures of
`sqrt`, `exp`, `log`, `pow`, `π`, `atan` and the standard normal CDF `Φ`.
Core-only and executable; used by the driver to compute certified reference
values for formulas involving transcendental functions.  Soundness statements
(over ℝ) live in `MV/Proofs/Interval.lean`.
-/
namespace MV

structure I where
  lo : Rat
  hi : Rat
  deriving Repr, Inhabited

namespace I

def prec : Nat := 128
def scaleN : Nat := 2 ^ prec

/-- round down / up to the grid 2^-prec -/
def rdn (q : Rat) : Rat := ((q * (scaleN : Rat)).floor : Rat) / (scaleN : Rat)
def rup (q : Rat) : Rat := ((q * (scaleN : Rat)).ceil : Rat) / (scaleN : Rat)

def mk' (lo hi : Rat) : I := ⟨rdn lo, rup hi⟩
def ofRat (q : Rat) : I := ⟨q, q⟩
def width (a : I) : Rat := a.hi - a.lo
def mid (a : I) : Rat := (a.lo + a.hi) / 2
def contains (a : I) (q : Rat) : Bool := a.lo ≤ q && q ≤ a.hi

def add (a b : I) : I := mk' (a.lo + b.lo) (a.hi + b.hi)
def neg (a : I) : I := ⟨-a.hi, -a.lo⟩
def sub (a b : I) : I := add a (neg b)
def mul (a b : I) : I :=
  let p1 := a.lo * b.lo; let p2 := a.lo * b.hi; let p3 := a.hi * b.lo; let p4 := a.hi * b.hi
  mk' (ratMin (ratMin p1 p2) (ratMin p3 p4)) (ratMax (ratMax p1 p2) (ratMax p3 p4))
def scale (c : Rat) (a : I) : I := mul (ofRat c) a
/-- reciprocal of an interval that does not contain 0 (otherwise a huge interval) -/
def inv (a : I) : I :=
  if a.lo > 0 ∨ a.hi < 0 then mk' (1 / a.hi) (1 / a.lo) else ⟨-(scaleN : Rat), (scaleN : Rat)⟩
def div (a b : I) : I := mul a (inv b)
def sq (a : I) : I :=
  if a.lo ≥ 0 then mk' (a.lo * a.lo) (a.hi * a.hi)
  else if a.hi ≤ 0 then mk' (a.hi * a.hi) (a.lo * a.lo)
  else mk' 0 (ratMax (a.lo * a.lo) (a.hi * a.hi))
def hull (a b : I) : I := ⟨ratMin a.lo b.lo, ratMax a.hi b.hi⟩
def abs (a : I) : I :=
  if a.lo ≥ 0 then a else if a.hi ≤ 0 then neg a else ⟨0, ratMax (-a.lo) a.hi⟩

instance : Add I := ⟨add⟩
instance : Sub I := ⟨sub⟩
instance : Mul I := ⟨mul⟩
instance : Div I := ⟨div⟩
instance : Neg I := ⟨neg⟩

/-! ### fixed-point kernel

Inner loops of the transcendental enclosures run on integer pairs scaled by
`2^prec` (no gcd normalisation): `FI.lo / 2^prec ≤ value ≤ FI.hi / 2^prec`. -/

structure FI where
  lo : Int
  hi : Int
  deriving Repr, Inhabited

namespace FI
/-- ⌊x / 2^prec⌋ and ⌈x / 2^prec⌉ on integers -/
def fdivP (x : Int) : Int := x >>> prec
def cdivP (x : Int) : Int := -((-x) >>> prec)

def one : FI := ⟨(scaleN : Int), (scaleN : Int)⟩
def ofRat (q : Rat) : FI := ⟨(q * (scaleN : Rat)).floor, (q * (scaleN : Rat)).ceil⟩
def toI (a : FI) : I := ⟨(a.lo : Rat) / (scaleN : Rat), (a.hi : Rat) / (scaleN : Rat)⟩
def add (a b : FI) : FI := ⟨a.lo + b.lo, a.hi + b.hi⟩
def neg (a : FI) : FI := ⟨-a.hi, -a.lo⟩
def imin (a b : Int) : Int := if a ≤ b then a else b
def imax (a b : Int) : Int := if a ≤ b then b else a
def mul (a b : FI) : FI :=
  let p1 := a.lo * b.lo; let p2 := a.lo * b.hi; let p3 := a.hi * b.lo; let p4 := a.hi * b.hi
  ⟨fdivP (imin (imin p1 p2) (imin p3 p4)), cdivP (imax (imax p1 p2) (imax p3 p4))⟩
def sq (a : FI) : FI :=
  if a.lo ≥ 0 then ⟨fdivP (a.lo * a.lo), cdivP (a.hi * a.hi)⟩
  else if a.hi ≤ 0 then ⟨fdivP (a.hi * a.hi), cdivP (a.lo * a.lo)⟩
  else ⟨0, cdivP (imax (a.lo * a.lo) (a.hi * a.hi))⟩
/-- divide by a positive natural -/
def divNat (a : FI) (n : Nat) : FI := ⟨Int.fdiv a.lo n, -(Int.fdiv (-a.hi) n)⟩
/-- multiply by an integer -/
def mulInt (a : FI) (n : Int) : FI := if n ≥ 0 then ⟨a.lo * n, a.hi * n⟩ else ⟨a.hi * n, a.lo * n⟩
/-- quotient of a non-negative interval by a positive one -/
def divPos (a b : FI) : FI :=
  ⟨Int.fdiv (a.lo * (scaleN : Int)) b.hi, -(Int.fdiv (-(a.hi * (scaleN : Int))) b.lo)⟩
def widen (a : FI) (e : Int) : FI := ⟨a.lo - e, a.hi + e⟩
end FI

/-! ### sqrt -/

def sqrtLo (q : Rat) : Rat :=
  if q ≤ 0 then 0 else
  let n : Nat := (q * ((scaleN * scaleN : Nat) : Rat)).floor.toNat
  (Nat.sqrt n : Rat) / (scaleN : Rat)
def sqrtHi (q : Rat) : Rat :=
  if q ≤ 0 then 0 else
  let n : Nat := (q * ((scaleN * scaleN : Nat) : Rat)).ceil.toNat
  ((Nat.sqrt n + 1 : Nat) : Rat) / (scaleN : Rat)
def sqrt (a : I) : I := ⟨sqrtLo a.lo, sqrtHi a.hi⟩

/-! ### 2·atanh series and ln 2 (needed by exp's range reduction) -/

/-- 2·atanh z series in fixed point: Σ_{k≤n} 2 z^(2k+1)/(2k+1), |z| ≤ 1/3, with remainder bound
2|z|^(2n+3)/((2n+3)(1−z²)) ≤ 3|z|^(2n+3)/(2n+3)·… (we use 1/(1−z²) ≤ 9/8) -/
def atanh2F (z : FI) : FI :=
  let n := 45
  let z2 := FI.sq z
  let (s, pw) := (List.range (n + 1)).foldl (fun (acc : FI × FI) k =>
    let (s, pw) := acc
    (FI.add s (FI.divNat (FI.mulInt pw 2) (2 * k + 1)), FI.mul pw z2)) ((⟨0, 0⟩ : FI), z)
  -- pw encloses z^(2n+3)
  let pa := FI.imax (-pw.lo) pw.hi
  let rem : Int := -(Int.fdiv (-(pa * 9)) (4 * (2 * n + 3 : Nat))) + 1     -- 2·(9/8)·|pw|/(2n+3)
  FI.widen s rem

def atanh2 (z : Rat) : I := (atanh2F (FI.ofRat z)).toI

def ln2 : I := atanh2 (1 / 3)

/-! ### exp -/

def ratPowNat (q : Rat) (n : Nat) : Rat := (List.range n).foldl (fun acc _ => acc * q) 1

/-- binary exponent e with 2^e ≤ q < 2^(e+1), q > 0 -/
def ilog2 (q : Rat) : Int :=
  let a : Int := (Nat.log2 q.num.toNat : Int) - (Nat.log2 q.den : Int)
  -- a is within 1 of the answer
  if pow2 (a + 1) ≤ q then a + 1 else if pow2 a ≤ q then a else a - 1

/-- number of halvings k after which |q|/2^k < 1/64: ⌊log₂|q|⌋ + 7 (0 for q = 0 or tiny q) -/
def expHalvings (q : Rat) : Nat :=
  if q == 0 then 0 else (ilog2 (ratAbs q) + 7).toNat

/-- Horner form of the Taylor polynomial in fixed point:
`expHorner r n f j` = 1 + r/j (1 + r/(j+1) (… (1 + r/n))) -/
def expHorner (r : FI) (n : Nat) : Nat → Nat → FI
  | 0, _ => FI.one
  | f + 1, j => if j > n then FI.one else FI.add FI.one (FI.divNat (FI.mul r (expHorner r n f (j + 1))) j)

def expTerms : Nat := 16
def expFact : Nat := (List.range (expTerms + 1)).foldl (fun a i => a * (i + 1)) 1     -- (n+1)!

/-- ⌈ra^(m) ⌉ in fixed point for a non-negative fixed-point magnitude `ra` -/
def fpPow (ra : Int) : Nat → Int
  | 0 => (scaleN : Int)
  | m + 1 => FI.cdivP (fpPow ra m * ra)

/-- fixed-point enclosure of exp r for |r| ≤ 1/64: Taylor polynomial of degree 16 plus remainder 2|r|^17/17! -/
def expSmallF (r : FI) : FI :=
  let p := expHorner r expTerms (expTerms + 1) 1
  let ra := FI.imax (-r.lo) r.hi
  let rem : Int := -(Int.fdiv (-(2 * fpPow ra (expTerms + 1))) (expFact : Int)) + 1
  ⟨FI.imax (p.lo - rem) 0, p.hi + rem⟩

/-- fixed-point enclosure of exp q for a rational q: reduce to |r| ≤ 1/64, expand, square k times -/
def expF (q : Rat) : FI :=
  let k := expHalvings q
  let r := q / ((2 ^ k : Nat) : Rat)
  (List.range k).foldl (fun acc _ => FI.sq acc) (expSmallF (FI.ofRat r))

/-- enclosure of exp q: write q = e·ln 2 + r with e = ⌊q·(1/ln 2)⌋ (any integer works) so that r is small,
enclose exp r in fixed point and scale by the exact power 2^e — this keeps full RELATIVE precision for
very negative q (results far below 2^-prec) -/
def expQ (q : Rat) : I :=
  if ratAbs q ≤ 1 then (expF q).toI
  else if q < -800 then ⟨0, pow2 (-1100)⟩      -- exp q < e^-800 < 2^-1100: far below every float64; avoids million-bit powers of two
  else
  let e : Int := (q * (14427 / 10000)).floor
  let r := sub (ofRat q) (scale (e : Rat) ln2)          -- q − e ln 2, a tiny interval around a number in about [0, 0.7]
  let lo := (expF r.lo).toI.lo
  let hi := (expF r.hi).toI.hi
  let p := pow2 e
  ⟨lo * p, hi * p⟩

def exp (a : I) : I := ⟨(expQ a.lo).lo, (expQ a.hi).hi⟩

/-! ### log -/

def logQ (q : Rat) : I :=
  if q ≤ 0 then ⟨-(scaleN : Rat), -(scaleN : Rat)⟩ else
  let e0 := ilog2 q
  let m0 := q / pow2 e0          -- in [1,2)
  let (m, e) := if m0 > 4 / 3 then (m0 / 2, e0 + 1) else (m0, e0)
  let z := (m - 1) / (m + 1)
  -- z is an exact rational; `atanh2` rounds it into a tiny fixed-point interval
  let a := atanh2 z
  add a (scale (e : Rat) ln2)

def log (a : I) : I := ⟨(logQ a.lo).lo, (logQ a.hi).hi⟩

/-- x^y for x > 0 -/
def pow (x y : I) : I := exp (mul y (log x))

/-! ### π, atan -/

/-- atan series with n+1 terms (alternating; remainder ≤ first omitted term |z|^(2n+3)/(2n+3)) -/
def atanSmallN (n : Nat) (z : Rat) : I :=
  let z2 := z * z
  let (s, pw) := (List.range (n + 1)).foldl (fun (s, pw) k =>
    (s + (if k % 2 == 0 then pw else -pw) / ((2 * k + 1 : Nat) : Rat), pw * z2)) ((0 : Rat), z)
  let rem := ratAbs pw / ((2 * n + 3 : Nat) : Rat)
  mk' (s - rem) (s + rem)

/-- atan series for |z| ≤ 1/2 with 201 terms -/
def atanSmall (z : Rat) : I := atanSmallN 200 z

/-- Machin: π = 16 atan(1/5) − 4 atan(1/239) -/
def pi : I := sub (scale 16 (atanSmall (1 / 5))) (scale 4 (atanSmall (1 / 239)))

/-- atan of a rational: argument halving atan x = 2 atan (x / (1 + √(1+x²))) -/
def atanQ (q : Rat) : I :=
  if ratAbs q ≤ 1 / 2 then atanSmall q else
  let x : I := ofRat q
  let red (x : I) : I := div x (add (ofRat 1) (sqrt (add (ofRat 1) (sq x))))
  let x1 := red x
  let x2 := red x1
  let x3 := red x2      -- |x3| < tan(π/16) < 0.2 for any q
  let a := hull (atanSmallN 40 x3.lo) (atanSmallN 40 x3.hi)
  scale 8 a

/-! ### standard normal pdf / cdf -/

def sqrt2pi : I := sqrt (scale 2 pi)

def sqrt2piF : FI := ⟨(sqrt2pi.lo * (scaleN : Rat)).floor, (sqrt2pi.hi * (scaleN : Rat)).ceil⟩

/-- φ(z) = exp(−z²/2)/√(2π) -/
def phiF (z : Rat) : FI := FI.divPos (expF (-(z * z) / 2)) sqrt2piF
/-- exact-rational quotient of the two enclosures (no absolute rounding: keeps relative precision in the far tails) -/
def phi (z : Rat) : I :=
  if ratAbs z ≤ 1 then (phiF z).toI
  else let e := expQ (-(z * z) / 2); ⟨e.lo / sqrt2pi.hi, e.hi / sqrt2pi.lo⟩

/-- series loop for Σ z^(2k+1)/(2k+1)!! on the fixed-point grid 2^-prec: `t` is the current term
(scaled by 2^prec, rounded up), `s` the running sum (scaled); stops when the term is at most one
grid unit and the ratio z²/(2k+3) is at most 1/2 -/
def phiLoop (zn zd : Nat) : Nat → Nat → Nat → Nat → Nat × Nat × Nat
  | 0, k, s, t => (s, t, k)
  | f + 1, k, s, t =>
    -- ratio ρ_k = zn / (zd (2k+3))
    if t ≤ 1 ∧ 2 * zn ≤ zd * (2 * k + 3) then (s, t, k)
    else
      let den := zd * (2 * k + 3)
      let t' := (t * zn + den - 1) / den          -- ⌈t ρ_k⌉
      phiLoop zn zd f (k + 1) (s + t') t'

/-- loop of `PhiTail`: `j` = index of the next term, `s` = alternating partial sum with rounded terms,
`c` = previous term (rounded up), `lo`/`hi` = last odd / even partial sum -/
def phiTailLoop (a2 : Rat) : Nat → Nat → Rat → Rat → Rat → Rat → Rat × Rat
  | 0, _, _, _, lo, hi => (lo, hi)
  | f + 1, j, s, c, lo, hi =>
    let c' := rup (c * ((2 * j - 1 : Nat) : Rat) / a2)
    if c' ≥ c then (lo, hi)                       -- terms started growing: stop
    else if j % 2 == 1 then
      let s' := s - c'
      phiTailLoop a2 f (j + 1) s' c' s' hi
    else
      let s' := s + c'
      phiTailLoop a2 f (j + 1) s' c' lo s'

/-- upper-tail mass 1 − Φ(a) for a > 7 by the enveloping asymptotic series
φ(a)/a · (1 − 1/a² + 3/a⁴ − 15/a⁶ + …): consecutive partial sums bracket the value
(odd ones from below, even ones from above); we stop at the smallest term (at most 60 terms)
and allow 2^-100 for the accumulated rounding of the terms. -/
def PhiTail (a : Rat) : I :=
  let a2 := a * a
  let (lo, hi) := phiTailLoop a2 60 1 1 1 0 1
  let d : Rat := 1 / ((2 ^ 100 : Nat) : Rat)
  let lo := ratMax (lo - d) 0
  let hi := hi + d
  let p := phi a
  ⟨p.lo / a * lo, p.hi / a * hi⟩

/-- Φ(z) enclosure.  |z| ≤ 7: 1/2 + φ(z) Σ z^(2k+1)/(2k+1)!!, remainder by the geometric bound;
|z| > 7: enveloping asymptotic series (`PhiTail`). -/
def Phi (z : Rat) : I :=
  if ratAbs z > 7 then
    let t : I := PhiTail (ratAbs z)
    if z < 0 then t else sub (ofRat 1) t
  else
    let az := ratAbs z
    let z2 := z * z
    let t0 : Nat := (az * (scaleN : Rat)).ceil.toNat
    let (sN, tN, k) := phiLoop z2.num.toNat z2.den 400 0 t0 t0
    let s : Rat := (sN : Rat) / (scaleN : Rat)
    let term : Rat := (tN : Rat) / (scaleN : Rat)
    let rho := z2 / ((2 * k + 3 : Nat) : Rat)
    -- on exit rho ≤ 1/2 (or the fuel ran out: then fall back to a trivially valid enclosure)
    if rho > 1 / 2 then
      (if z ≥ 0 then ⟨1 / 2, 1⟩ else ⟨0, 1 / 2⟩)
    else
      let tail := term * rho / (1 - rho)
      let slack := (((k + 2 : Nat) : Rat)) * (1 + s) * ((2 ^ 24 : Nat) : Rat) / (scaleN : Rat)
      let S : I := ⟨ratMax (s - slack) 0, s + tail + slack⟩
      let half := mul (phi z) S          -- Φ(|z|) − 1/2
      if z ≥ 0 then add (ofRat (1 / 2)) half else sub (ofRat (1 / 2)) half

end I
end MV
