import MV.Basic
/-!
Rational interval arithmetic with outward dyadic rounding, and enclosures of
`sqrt`, `exp`, `log`, `pow`, `π`, `atan` and the standard normal CDF `Φ`.
Core-only and executable; used by the driver to compute certified reference
values for formulas involving transcendental functions.  Soundness statements
(over ℝ) live in `MV/Proofs/Interval.lean`.
-/
namespace MV

structure I where
  lo : Rat
  hi : Rat
  deriving Repr, Inhabited

namespace I

def prec : Nat := 128
def scaleN : Nat := 2 ^ prec

/-- round down / up to the grid 2^-prec -/
def rdn (q : Rat) : Rat := ((q * (scaleN : Rat)).floor : Rat) / (scaleN : Rat)
def rup (q : Rat) : Rat := ((q * (scaleN : Rat)).ceil : Rat) / (scaleN : Rat)

def mk' (lo hi : Rat) : I := ⟨rdn lo, rup hi⟩
def ofRat (q : Rat) : I := ⟨q, q⟩
def width (a : I) : Rat := a.hi - a.lo
def mid (a : I) : Rat := (a.lo + a.hi) / 2
def contains (a : I) (q : Rat) : Bool := a.lo ≤ q && q ≤ a.hi

def add (a b : I) : I := mk' (a.lo + b.lo) (a.hi + b.hi)
def neg (a : I) : I := ⟨-a.hi, -a.lo⟩
def sub (a b : I) : I := add a (neg b)
def mul (a b : I) : I :=
  let p1 := a.lo * b.lo; let p2 := a.lo * b.hi; let p3 := a.hi * b.lo; let p4 := a.hi * b.hi
  mk' (ratMin (ratMin p1 p2) (ratMin p3 p4)) (ratMax (ratMax p1 p2) (ratMax p3 p4))
def scale (c : Rat) (a : I) : I := mul (ofRat c) a
/-- reciprocal of an interval that does not contain 0 (otherwise a huge interval) -/
def inv (a : I) : I :=
  if a.lo > 0 ∨ a.hi < 0 then mk' (1 / a.hi) (1 / a.lo) else ⟨-(scaleN : Rat), (scaleN : Rat)⟩
def div (a b : I) : I := mul a (inv b)
def sq (a : I) : I :=
  if a.lo ≥ 0 then mk' (a.lo * a.lo) (a.hi * a.hi)
  else if a.hi ≤ 0 then mk' (a.hi * a.hi) (a.lo * a.lo)
  else mk' 0 (ratMax (a.lo * a.lo) (a.hi * a.hi))
def hull (a b : I) : I := ⟨ratMin a.lo b.lo, ratMax a.hi b.hi⟩
def abs (a : I) : I :=
  if a.lo ≥ 0 then a else if a.hi ≤ 0 then neg a else ⟨0, ratMax (-a.lo) a.hi⟩

instance : Add I := ⟨add⟩
instance : Sub I := ⟨sub⟩
instance : Mul I := ⟨mul⟩
instance : Div I := ⟨div⟩
instance : Neg I := ⟨neg⟩

/-! ### sqrt -/

def sqrtLo (q : Rat) : Rat :=
  if q ≤ 0 then 0 else
  let n : Nat := (q * ((scaleN * scaleN : Nat) : Rat)).floor.toNat
  (Nat.sqrt n : Rat) / (scaleN : Rat)
def sqrtHi (q : Rat) : Rat :=
  if q ≤ 0 then 0 else
  let n : Nat := (q * ((scaleN * scaleN : Nat) : Rat)).ceil.toNat
  ((Nat.sqrt n + 1 : Nat) : Rat) / (scaleN : Rat)
def sqrt (a : I) : I := ⟨sqrtLo a.lo, sqrtHi a.hi⟩

/-! ### exp -/

/-- Taylor partial sum Σ_{k≤n} r^k/k! -/
def expTaylor (r : Rat) (n : Nat) : Rat :=
  let (s, _) := (List.range n).foldl (fun (s, term) k =>
    let term' := term * r / ((k + 1 : Nat) : Rat); (s + term', term')) ((1 : Rat), (1 : Rat))
  s

def ratPowNat (q : Rat) (n : Nat) : Rat := (List.range n).foldl (fun acc _ => acc * q) 1

/-- enclosure of exp q for a rational q -/
def expQ (q : Rat) : I :=
  -- halve until |r| ≤ 1/2
  let k : Nat := (List.range 64).foldl (fun k _ => if ratAbs q / (2 ^ k : Nat) > 1 / 2 then k + 1 else k) 0
  let r := q / ((2 ^ k : Nat) : Rat)
  let r := rdn r            -- exp is monotone: use an interval [rdn r, rup r] of tiny width
  let r2 := r + 1 / (scaleN : Rat)
  let n := 40
  let fact : Nat := (List.range (n + 1)).foldl (fun a i => a * (i + 1)) 1   -- (n+1)!
  let rem (x : Rat) : Rat := 2 * ratPowNat (ratAbs x) (n + 1) / (fact : Rat)
  let lo := rdn (expTaylor r n - rem r)
  let hi := rup (expTaylor r2 n + rem r2)
  let base : I := ⟨ratMax lo 0, hi⟩
  (List.range k).foldl (fun acc _ => sq acc) base

def exp (a : I) : I := ⟨(expQ a.lo).lo, (expQ a.hi).hi⟩

/-! ### log -/

/-- 2·atanh z series: Σ_{k≤n} 2 z^(2k+1)/(2k+1), |z| ≤ 1/3, with remainder bound -/
def atanh2 (z : Rat) : I :=
  let n := 45
  let z2 := z * z
  let (s, pw) := (List.range (n + 1)).foldl (fun (s, pw) k =>
    (s + 2 * pw / ((2 * k + 1 : Nat) : Rat), pw * z2)) ((0 : Rat), z)
  -- pw = z^(2n+3)
  let rem := 2 * ratAbs pw / (((2 * n + 3 : Nat) : Rat) * (1 - z2))
  mk' (s - rem) (s + rem)

def ln2 : I := atanh2 (1 / 3)

/-- binary exponent e with 2^e ≤ q < 2^(e+1), q > 0 -/
def ilog2 (q : Rat) : Int :=
  let a : Int := (Nat.log2 q.num.toNat : Int) - (Nat.log2 q.den : Int)
  -- a is within 1 of the answer
  if pow2 (a + 1) ≤ q then a + 1 else if pow2 a ≤ q then a else a - 1

def logQ (q : Rat) : I :=
  if q ≤ 0 then ⟨-(scaleN : Rat), -(scaleN : Rat)⟩ else
  let e0 := ilog2 q
  let m0 := q / pow2 e0          -- in [1,2)
  let (m, e) := if m0 > 4 / 3 then (m0 / 2, e0 + 1) else (m0, e0)
  let z := (m - 1) / (m + 1)
  -- z is exact rational; round it into a tiny interval and use monotonicity of atanh
  let zl := rdn z; let zh := rup z
  let a := hull (atanh2 zl) (atanh2 zh)
  add a (scale (e : Rat) ln2)

def log (a : I) : I := ⟨(logQ a.lo).lo, (logQ a.hi).hi⟩

/-- x^y for x > 0 -/
def pow (x y : I) : I := exp (mul y (log x))

/-! ### π, atan -/

/-- atan series for |z| ≤ 1/2 (alternating; remainder ≤ first omitted term) -/
def atanSmall (z : Rat) : I :=
  let n := 200
  let z2 := z * z
  let (s, pw) := (List.range (n + 1)).foldl (fun (s, pw) k =>
    (s + (if k % 2 == 0 then pw else -pw) / ((2 * k + 1 : Nat) : Rat), pw * z2)) ((0 : Rat), z)
  let rem := ratAbs pw / ((2 * n + 3 : Nat) : Rat)
  mk' (s - rem) (s + rem)

/-- Machin: π = 16 atan(1/5) − 4 atan(1/239) -/
def pi : I := sub (scale 16 (atanSmall (1 / 5))) (scale 4 (atanSmall (1 / 239)))

/-- atan of a rational: argument halving atan x = 2 atan (x / (1 + √(1+x²))) -/
def atanQ (q : Rat) : I :=
  if ratAbs q ≤ 1 / 2 then atanSmall q else
  let x : I := ofRat q
  let red (x : I) : I := div x (add (ofRat 1) (sqrt (add (ofRat 1) (sq x))))
  let x1 := red x
  let x2 := red x1
  let x3 := red x2      -- |x3| < tan(π/16) < 0.2 for any q
  let a := hull (atanSmall x3.lo) (atanSmall x3.hi)
  scale 8 a

/-! ### standard normal pdf / cdf -/

def sqrt2pi : I := sqrt (scale 2 pi)

/-- φ(z) = exp(−z²/2)/√(2π) -/
def phi (z : Rat) : I := div (expQ (-(z * z) / 2)) sqrt2pi

/-- Φ(z) enclosure.  |z| ≤ 7: 1/2 + φ(z) Σ z^(2k+1)/(2k+1)!!, remainder by the geometric bound;
|z| > 7: Mills ratio bounds 0 ≤ Φ(−|z|) ≤ φ(z)/|z|. -/
def Phi (z : Rat) : I :=
  if ratAbs z > 7 then
    let t : I := ⟨0, (div (phi z) (ofRat (ratAbs z))).hi⟩
    if z < 0 then t else sub (ofRat 1) t
  else
    let n := 160
    let z2 := z * z
    let (s, term) := (List.range n).foldl (fun (s, term) k =>
      let term' := rup (term * z2 / ((2 * k + 3 : Nat) : Rat))   -- |term| rounded up: keeps an upper bound
      (s + term', term')) (ratAbs z, ratAbs z)
    -- series in |z|: all terms positive; s_lo = exact lower bound is the partial sum with rdn; we
    -- bound both ways by the accumulated rounding slack n/2^prec plus the geometric tail
    let tail := term * (z2 / ((2 * n + 3 : Nat) : Rat)) / (1 - z2 / ((2 * n + 3 : Nat) : Rat))
    let slack := ((n : Nat) : Rat) * (1 + s) * ((2 ^ 24 : Nat) : Rat) / (scaleN : Rat)
    let S : I := ⟨s - slack, s + tail + slack⟩
    let half := mul (phi z) S          -- Φ(|z|) − 1/2
    if z ≥ 0 then add (ofRat (1 / 2)) half else sub (ofRat (1 / 2)) half

end I
end MV
