import MV.Basic
/-!
C07 — generic InvCDF.  A CDF is given as data (`PW`, piecewise ramps, jumps and
flats over exact rationals); `quantile` is the spec "smallest x with cdf x ≥ y";
`bracket`/`bisect` mirror the search the code performs (any midpoint choice).
-/
namespace MV.InvCDF

/-- knot: position, left limit, value (right-continuous) -/
structure Knot where
  x : Rat
  l : Rat
  r : Rat
  deriving Repr, Inhabited

abbrev PW := List Knot

/-- evaluate the piecewise CDF: 0 before the first knot … value of last knot after it;
linear from `r_i` to `l_{i+1}` between knots -/
def cdf : PW → Rat → Rat
  | [], _ => 0
  | [k], x => if x < k.x then k.l else k.r
  | k :: k2 :: rest, x =>
    if x < k.x then k.l
    else if x < k2.x then k.r + (x - k.x) * (k2.l - k.r) / (k2.x - k.x)
    else cdf (k2 :: rest) x

/-- smallest x with cdf x ≥ y, for y above the value before the first knot; `none` if never reached -/
def quantile : PW → Rat → Option Rat
  | [], _ => none
  | [k], y => if k.r ≥ y then some k.x else none
  | k :: k2 :: rest, y =>
    if k.r ≥ y then some k.x
    else if k2.l ≥ y then some (k.x + (y - k.r) * (k2.x - k.x) / (k2.l - k.r))
    else quantile (k2 :: rest) y

/-- well-formed: knots strictly ascending, 0 ≤ l ≤ r ≤ next l … ≤ 1, first l = 0, last r = 1 -/
def wf : PW → Bool
  | [] => false
  | [k] => k.l ≤ k.r && k.r == 1
  | k :: k2 :: rest => k.l ≤ k.r && k.r ≤ k2.l && k.x < k2.x && wf (k2 :: rest)

def wfTop (p : PW) : Bool := wf p && (match p with | k :: _ => k.l == 0 | [] => false)

/-! ### mirror of the search in `InvCDF` (abstract over the CDF and the midpoint) -/

/-- expand upward from (hiX, xdelta) until F hiX ≥ y: returns (loX, hiX) -/
def bracketUp (F : Rat → Rat) (y : Rat) : Nat → Rat → Rat → Rat → Option (Rat × Rat)
  | 0, _, _, _ => none
  | f + 1, lo, hi, d => if F hi < y then bracketUp F y f hi (hi + d) (2 * d) else some (lo, hi)

/-- expand downward until F loX < y -/
def bracketDown (F : Rat → Rat) (y : Rat) : Nat → Rat → Rat → Rat → Option (Rat × Rat)
  | 0, _, _, _ => none
  | f + 1, lo, hi, d => if y ≤ F lo then bracketDown F y f (lo - d) lo (2 * d) else some (lo, hi)

/-- bisection keeping F lo < y ≤ F hi, with any midpoint rule `mid lo hi ∈ [lo,hi]`; stops on width ≤ tol -/
def bisect (F : Rat → Rat) (y : Rat) (mid : Rat → Rat → Rat) (tol : Rat) : Nat → Rat → Rat → Rat × Rat
  | 0, lo, hi => (lo, hi)
  | f + 1, lo, hi =>
    if hi - lo ≤ tol then (lo, hi)
    else
      let m := mid lo hi
      if m == lo ∨ m == hi then (lo, hi)
      else if F m < y then bisect F y mid tol f m hi else bisect F y mid tol f lo m

end MV.InvCDF
