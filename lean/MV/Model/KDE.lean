import MV.Basic
import MV.Model.Interval
/-!
C12 — kernel density estimates.  Kernels and the weighted average over exact
rationals (Epanechnikov, delta); the boundary (reflection) logic is written
once, generically over the value type, so that the driver can run it on
interval enclosures for the Gaussian kernel.
-/
namespace MV.KDE

/-- Epanechnikov kernel density with bandwidth h at offset u -/
def epanPDF (h u : Rat) : Rat := if -h < u ∧ u < h then (3 / 4) / h * (1 - u * u / (h * h)) else 0

/-- Epanechnikov kernel CDF -/
def epanCDF (h u : Rat) : Rat :=
  if u > h then 1 else if u > -h then (1 / 4) * (2 + 3 * (u / h) - (u / h) * (u / h) * (u / h)) else 0

/-- delta kernel CDF (unit step at 0) -/
def deltaCDF (u : Rat) : Rat := if u ≥ 0 then 1 else 0

def sum (xs : List Rat) : Rat := xs.foldl (· + ·) 0

/-- weighted average of f(x − xᵢ) -/
def wavg (f : Rat → Rat) (xs ws : List Rat) (x : Rat) : Rat :=
  sum ((xs.zip ws).map fun (xi, w) => w * f (x - xi)) / sum ws

/-- boundary specification: none, lower only, upper only, both -/
inductive Bnd
  | none
  | lower (mn : Rat)
  | upper (mx : Rat)
  | both (mn mx : Rat)
  deriving Repr

/-- generic ops on the value type -/
structure Ops (α : Type) where
  zero : α
  one : α
  add : α → α → α
  sub : α → α → α

/-- the weighted average of enclosures with exact rational end points: `I.add`/`I.mul` round to the grid
2^-128, which wipes out values far below it; for non-negative weights the lower/upper ends combine
monotonically without any rounding, keeping the relative precision of `f` (soundness over ℝ:
`wavgExact_sound` in `Props/C12Gauss.lean`) -/
def wavgExact (f : Rat → I) (xs ws : List Rat) (x : Rat) : I :=
  let W := sum ws
  let r := (xs.zip ws).foldl (fun (s : Rat × Rat) (p : Rat × Rat) => let e := f (x - p.1); (s.1 + p.2 * e.lo, s.2 + p.2 * e.hi)) (0, 0)
  ⟨r.1 / W, r.2 / W⟩

/-- enclosure of the Gaussian kernel density φ(u/h)/h with exact end points -/
def gaussPDFX (h u : Rat) : I := let e := I.phi (u / h); ⟨e.lo / h, e.hi / h⟩

def sumN {α} (o : Ops α) (n : Nat) (f : Nat → α) : α := (List.range n).foldl (fun s i => o.add s (f i)) o.zero

/-- `KDE.PDF` boundary logic: `y` is the unbounded density, `nImg` the number of image pairs to sum on each side -/
def pdfB {α} (o : Ops α) (y : Rat → α) (b : Bnd) (nImg : Nat) (x : Rat) : α :=
  match b with
  | .none => y x
  | .lower mn => if x < mn then o.zero else o.add (y x) (y (2 * mn - x))
  | .upper mx => if x ≥ mx then o.zero else o.add (y x) (y (2 * mx - x))
  | .both mn mx =>
    if x < mn ∨ x ≥ mx then o.zero else
    let d := 2 * (mx - mn); let w := 2 * (x - mn)
    o.add (sumN o nImg fun n => o.add (y (x + n * d)) (y (x + n * d - w)))
          (sumN o nImg fun n => o.add (y (x - (n + 1 : Nat) * d - w)) (y (x - (n + 1 : Nat) * d)))

/-- `KDE.CDF` boundary logic: `Y` is the unbounded CDF -/
def cdfB {α} (o : Ops α) (Y : Rat → α) (b : Bnd) (nImg : Nat) (x : Rat) : α :=
  match b with
  | .none => Y x
  | .lower mn => if x < mn then o.zero else o.sub (Y x) (Y (2 * mn - x))
  | .upper mx => if x ≥ mx then o.one else o.add (Y x) (o.sub o.one (Y (2 * mx - x)))
  | .both mn mx =>
    if x < mn then o.zero else if x ≥ mx then o.one else
    let d := 2 * (mx - mn); let w := 2 * (x - mn)
    o.add (sumN o nImg fun n => o.sub (Y (x + n * d)) (Y (x + n * d - w)))
          (sumN o nImg fun n => o.sub (Y (x - (n + 1 : Nat) * d)) (Y (x - (n + 1 : Nat) * d - w)))

def ratOps : Ops Rat := ⟨0, 1, (· + ·), (· - ·)⟩

/-- exact Epanechnikov KDE -/
def epanKDEpdf (xs ws : List Rat) (h : Rat) (b : Bnd) (nImg : Nat) (x : Rat) : Rat :=
  pdfB ratOps (wavg (epanPDF h) xs ws) b nImg x
def epanKDEcdf (xs ws : List Rat) (h : Rat) (b : Bnd) (nImg : Nat) (x : Rat) : Rat :=
  cdfB ratOps (wavg (epanCDF h) xs ws) b nImg x
def deltaKDEcdf (xs ws : List Rat) (b : Bnd) (nImg : Nat) (x : Rat) : Rat :=
  cdfB ratOps (wavg deltaCDF xs ws) b nImg x

end MV.KDE
