import MV.Model.UDist
/-!
C01 / C03 — MannWhitneyUTest: tie groups, U by mid-ranks, method selection,
exact tails over `UDist`, normal approximation up to an abstract Φ.
-/
namespace MV.MWU
open MV.UDist

/-- insertion sort on rationals (ascending) -/
def insertR (x : Rat) : List Rat → List Rat
  | [] => [x]
  | y :: r => if x ≤ y then x :: y :: r else y :: insertR x r
def sortR (l : List Rat) : List Rat := l.foldl (fun acc x => insertR x acc) []

/-- distinct pooled values, ascending -/
def distinctSorted (l : List Rat) : List Rat :=
  let rec go : List Rat → List Rat
    | [] => []
    | [x] => [x]
    | x :: y :: r => if x == y then go (y :: r) else x :: go (y :: r)
  go (sortR l)

def countEq (l : List Rat) (v : Rat) : Nat := (l.filter (· == v)).length

/-- per distinct value: (pool count t_k, count from sample 1 r_k) -/
def tieGroups (x1 x2 : List Rat) : List (Nat × Nat) :=
  (distinctSorted (x1 ++ x2)).map fun v => (countEq x1 v + countEq x2 v, countEq x1 v)

/-- U by mid-ranks, as the code computes it: R1 − n1(n1+1)/2. -/
def uFromRanks (x1 x2 : List Rat) : Rat :=
  let groups := tieGroups x1 x2
  let (r1, _) := groups.foldl (fun (acc, pos) (t, r) =>
    -- group occupies 1-based positions pos+1 .. pos+t; mid-rank = (2 pos + t + 1)/2
    (acc + ((2 * pos + t + 1 : Nat) : Rat) / 2 * (r : Rat), pos + t)) ((0 : Rat), 0)
  r1 - ((x1.length * (x1.length + 1) : Nat) : Rat) / 2

/-- Spec: pair counting. -/
def pairU (x1 x2 : List Rat) : Rat :=
  (x1.map fun a => (x2.map fun b => if a > b then (1 : Rat) else if a == b then 1 / 2 else 0).foldl (· + ·) 0).foldl (· + ·) 0

inductive Alt | less | differs | greater deriving Repr, BEq, DecidableEq

inductive Res
  | errSize
  | errEqual
  | exact (n1 n2 : Nat) (u : Rat) (p : Rat) (pinned : Rat)   -- pinned = value of the pinned two-sided formula
  | approx (n1 n2 : Nat) (u : Rat) (numer : Rat) (var : Rat) -- z = numer/√var, P = tail of Φ
  deriving Repr

def tieCorr (t : List Nat) : Nat := (t.map fun x => x * x * x - x).foldl (· + ·) 0

/-- exact CDF, through whichever executable table is cheaper (both proved equal to the spec) -/
def exactCDF (n1 n2 : Nat) (t : List Nat) (ties : Bool) (u : Rat) : Rat :=
  if !ties && n1 + n2 > 40 then cdfUntiedMW n1 n2 u else cdf n1 n2 t u

def ratMin' (a b : Rat) : Rat := if a ≤ b then a else b

/-- The three exact tail probabilities as the property defines them. -/
def exactP (alt : Alt) (n1 n2 : Nat) (t : List Nat) (ties : Bool) (u : Rat) : Rat :=
  match alt with
  | .less => exactCDF n1 n2 t ties u
  | .greater => 1 - exactCDF n1 n2 t ties (u - 1 / 2)
  | .differs => ratMin' 1 (2 * ratMin' (exactCDF n1 n2 t ties u) (1 - exactCDF n1 n2 t ties (u - 1 / 2)))

/-- The two-sided formula of the pinned code (kept only to recognise known finding F1c). -/
def pinnedTwoSided (n1 n2 : Nat) (t : List Nat) (ties : Bool) (u : Rat) : Rat :=
  let u2 := ((n1 * n2 : Nat) : Rat) - u
  if u == u2 then 1 else ratMin' 1 (2 * exactCDF n1 n2 t ties (ratMin' u u2))

def mwuTest (x1 x2 : List Rat) (alt : Alt) (exactLimit tiesLimit : Int) : Res :=
  let n1 := x1.length
  let n2 := x2.length
  if n1 = 0 ∨ n2 = 0 then .errSize else
  let groups := tieGroups x1 x2
  let t := groups.map (·.1)
  let ties := hasTies t
  let u := uFromRanks x1 x2
  let useExact := (!ties && (n1 : Int) ≤ exactLimit && (n2 : Int) ≤ exactLimit) ||
                  (ties && (n1 : Int) ≤ tiesLimit && (n2 : Int) ≤ tiesLimit)
  if useExact then
    if t.length = 1 then .errEqual
    else .exact n1 n2 u (exactP alt n1 n2 t ties u)
      (match alt with | .differs => pinnedTwoSided n1 n2 t ties u | _ => exactP alt n1 n2 t ties u)
  else
    let N : Rat := ((n1 + n2 : Nat) : Rat)
    let var := ((n1 * n2 : Nat) : Rat) * ((N + 1) - (tieCorr t : Rat) / (N * (N - 1))) / 12
    if var == 0 then .errEqual else
    let mu := ((n1 * n2 : Nat) : Rat) / 2
    let numer0 := u - mu
    let numer := match alt with
      | .differs => numer0 - (if numer0 > 0 then 1 else if numer0 < 0 then -1 else 0) * (1 / 2)
      | .less => numer0 + 1 / 2
      | .greater => numer0 - 1 / 2
    .approx n1 n2 u numer var

end MV.MWU
