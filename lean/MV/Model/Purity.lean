import MV.Basic
/-!
C20 — purity, determinism.  An abstract heap machine: objects are named by
indices, an API call names its object arguments, only the documented in-place
operations write, and they write their receiver (argument 0) only.
-/
namespace MV.Purity

/-- the documented in-place operations (as named in the harness's op table) -/
def mutators : List String :=
  ["S.Sort", "K.Touch", "St.Add", "St.Combine", "H.Add", "Reverse", "M.Mark", "M.Unmark",
   "Lin.Nice", "Lin.SetClamp", "Log.Nice"]

def mutating (op : String) : Bool := mutators.contains op

structure Call where
  name : String
  args : List Nat          -- object arguments
  params : List Rat        -- scalar parameters
  deriving Repr

/-- objects that share storage with `i` (pairs are symmetric-closed by the caller) -/
def aliasesOf (al : List (Nat × Nat)) (i : Nat) : List Nat :=
  al.filterMap fun (a, b) => if a == i then some b else if b == i then some a else none

/-- the set of objects a call may modify -/
def writeSet (al : List (Nat × Nat)) (c : Call) : List Nat :=
  if mutating c.name then
    match c.args with
    | r :: _ => r :: aliasesOf al r
    | [] => []
  else []

/-- semantics of the API, abstract: the result of a call and the new value of the receiver
depend only on the values of the named arguments and the scalar parameters -/
structure Sem (Val Out : Type) where
  out : String → List Val → List Rat → Out
  upd : String → List Val → List Rat → Val

abbrev Heap (Val : Type) := Nat → Val

def step {Val Out} (sem : Sem Val Out) (s : Heap Val) (c : Call) : Heap Val × Out :=
  let vals := c.args.map s
  let o := sem.out c.name vals c.params
  if mutating c.name then
    match c.args with
    | r :: _ => (fun i => if i = r then sem.upd c.name vals c.params else s i, o)
    | [] => (s, o)
  else (s, o)

/-- run a list of calls, collecting outputs -/
def run {Val Out} (sem : Sem Val Out) : Heap Val → List Call → Heap Val × List Out
  | s, [] => (s, [])
  | s, c :: cs =>
    let (s1, o) := step sem s c
    let (s2, os) := run sem s1 cs
    (s2, o :: os)

end MV.Purity
