import MV.Model.Discrete
/-!
C11 — QuantileCI, exact branch (n ≤ threshold): greedy accumulation of binomial
buckets from the mode with left bias, over exact rationals.
-/
namespace MV.QCI
open MV.Discrete

structure Res where
  lo : Int
  hi : Int
  conf : Rat
  amb : Bool
  deriving Repr, BEq

/-- mass of buckets l .. r-1 -/
def mass (n : Nat) (q : Rat) (l r : Int) : Rat :=
  ((List.range (r - l).toNat).map fun (i : Nat) => binomPMF n q (l + (i : Int))).foldl (· + ·) 0

/-- the lower mode the code starts from: ⌈(n+1)q⌉ − 1, and 0 when q = 0 -/
def startBucket (n : Nat) (q : Rat) : Int := if q == 0 then 0 else (((n + 1 : Nat) : Rat) * q).ceil - 1

/-- greedy loop with fuel; state (l, r, accum, lp, rp, amb) -/
def loop (n : Nat) (q c : Rat) : Nat → Int → Int → Rat → Bool → Int × Int × Rat × Bool
  | 0, l, r, acc, amb => (l, r, acc, amb)
  | f + 1, l, r, acc, amb =>
    let lp := binomPMF n q (l - 1)
    let rp := binomPMF n q r
    if acc < c ∧ (lp > 0 ∨ rp > 0) then
      if lp ≥ rp then loop n q c f (l - 1) r (acc + lp) (lp == rp)
      else loop n q c f l (r + 1) (acc + rp) (lp == rp)
    else (l, r, acc, amb)

/-- `QuantileCI(n,q,c)` for c < 1 and n ≤ threshold (before clamping, then clamped) -/
def greedy (n : Nat) (q c : Rat) : Res :=
  let x := startBucket n q
  let acc := binomPMF n q x
  let amb0 := binomPMF n q (x + 1) == acc
  let (l, r, a, amb) := loop n q c (n + 2) x (x + 1) acc amb0
  ⟨if l < 0 then 0 else l, if r > n + 1 then n + 1 else r, a, amb⟩

/-- the full API for the exact branch -/
def qci (n : Nat) (q c : Rat) : Res :=
  if c ≥ 1 then ⟨0, n + 1, 1, false⟩ else greedy n q c

end MV.QCI
