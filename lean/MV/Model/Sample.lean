import MV.Basic
/-!
C09 / C10 — descriptive statistics, Sample (weights, Sorted flag, Sort, Copy),
R8 quantile, vec helpers.  Exact rationals; `none`/`V.nan` where Go returns NaN.
-/
namespace MV.Sample

def sum (xs : List Rat) : Rat := xs.foldl (· + ·) 0

/-! ## slice functions -/

/-- `stats.Mean`: the incremental update m += (x−m)/(i+1), as a fold. -/
def meanInc (xs : List Rat) : Rat :=
  (xs.foldl (fun (m, i) x => (m + (x - m) / ((i + 1 : Nat) : Rat), i + 1)) ((0 : Rat), 0)).1

def meanSpec (xs : List Rat) : Rat := sum xs / (xs.length : Rat)

/-- `stats.Variance` (Welford), n ≥ 2. -/
def varInc (xs : List Rat) : Rat :=
  let (_, m2, _) := xs.foldl (fun (mean, m2, n) x =>
    let delta := x - mean
    let mean' := mean + delta / ((n + 1 : Nat) : Rat)
    (mean', m2 + delta * (x - mean'), n + 1)) ((0 : Rat), (0 : Rat), 0)
  m2 / ((xs.length : Rat) - 1)

def varSpec (xs : List Rat) : Rat :=
  let m := meanSpec xs
  sum (xs.map fun x => (x - m) * (x - m)) / ((xs.length : Rat) - 1)

def minL : List Rat → Rat
  | [] => 0
  | x :: xs => xs.foldl (fun a b => if b < a then b else a) x
def maxL : List Rat → Rat
  | [] => 0
  | x :: xs => xs.foldl (fun a b => if b > a then b else a) x

/-! ## Sample -/

structure S where
  xs : List Rat
  ws : Option (List Rat)
  sorted : Bool
  deriving Repr, BEq, Inhabited

def S.weightsD (s : S) : List Rat := s.ws.getD (s.xs.map fun _ => 1)

/-- `Sample.Mean` weighted: m += (x−m)·w/wsum (fold), skipping zero weights;
`none` (NaN) when the total weight is zero. -/
def wmeanInc (xs ws : List Rat) : Option Rat :=
  let (m, wsum) := (xs.zip ws).foldl (fun (m, wsum) (x, w) =>
    if w == 0 then (m, wsum) else (m + (x - m) * w / (wsum + w), wsum + w)) ((0 : Rat), (0 : Rat))
  if wsum == 0 then none else some m

def wmeanSpec (xs ws : List Rat) : Rat := sum ((xs.zip ws).map fun (x, w) => x * w) / sum ws

/-- stable insertion sort of (x, w) pairs by x -/
def insertP (p : Rat × Rat) : List (Rat × Rat) → List (Rat × Rat)
  | [] => [p]
  | q :: r => if p.1 < q.1 then p :: q :: r else q :: insertP p r
def sortP (l : List (Rat × Rat)) : List (Rat × Rat) := l.foldr insertP []

def isAscending : List Rat → Bool
  | [] => true
  | [_] => true
  | x :: y :: r => x ≤ y && isAscending (y :: r)

/-- `Sample.Sort` -/
def S.sort (s : S) : S :=
  if s.sorted || isAscending s.xs then { s with sorted := true }
  else match s.ws with
    | none => { xs := (sortP (s.xs.map fun x => (x, (1 : Rat)))).map (·.1), ws := none, sorted := true }
    | some ws =>
      let ps := sortP (s.xs.zip ws)
      { xs := ps.map (·.1), ws := some (ps.map (·.2)), sorted := true }

/-- `Sample.Bounds`; `none` = (NaN, NaN). -/
def S.bounds (s : S) : Option (Rat × Rat) :=
  if s.xs.isEmpty then none
  else match s.ws with
    | none => if s.sorted then some (s.xs.head!, s.xs.getLast!) else some (minL s.xs, maxL s.xs)
    | some ws =>
      let nz := ((s.xs.zip ws).filter fun (_, w) => w != 0).map (·.1)
      if nz.isEmpty then none
      else if s.sorted then some (nz.head!, nz.getLast!) else some (minL nz, maxL nz)

def S.total (s : S) : Rat :=
  match s.ws with
  | none => Sample.sum s.xs
  | some ws => Sample.sum ((s.xs.zip ws).map fun (x, w) => x * w)

def S.weight (s : S) : Rat :=
  match s.ws with
  | none => (s.xs.length : Rat)
  | some ws => Sample.sum ws

/-- R8 quantile on ascending data, 0 < q < 1: h = 1/3 + q(n + 1/3), k = ⌊h⌋. -/
def r8 (sortedXs : List Rat) (q : Rat) : Rat :=
  let n := sortedXs.length
  let h := 1 / 3 + q * ((n : Rat) + 1 / 3)
  let k := h.floor
  if k ≤ 0 then sortedXs.head!
  else if k ≥ n then sortedXs.getLast!
  else
    let a := sortedXs.getD (k.toNat - 1) 0
    let b := sortedXs.getD k.toNat 0
    a + (h - k) * (b - a)

/-- weighted quantile on ascending pairs: first x at which the running `target − Σw` goes negative -/
def wquant (ps : List (Rat × Rat)) (target : Rat) : Rat :=
  let rec go : List (Rat × Rat) → Rat → Rat → Rat
    | [], _, last => last
    | (x, w) :: r, t, _ => if t - w < 0 then x else go r (t - w) x
  go ps target 0

/-- `Sample.Quantile`; `none` = NaN. -/
def S.quantile (s : S) (q : Rat) : Option Rat :=
  if s.xs.isEmpty then none
  else if q ≤ 0 then s.bounds.map (·.1)
  else if q ≥ 1 then s.bounds.map (·.2)
  else
    let s' := if s.sorted then s else s.sort
    match s'.ws with
    | none => some (r8 s'.xs q)
    | some ws => some (wquant (s'.xs.zip ws) (sum ws * q))

/-! ## vec -/

def linspace (lo hi : Rat) (n : Nat) : List Rat :=
  if n = 1 then [lo] else (List.range n).map fun (i : Nat) => lo + (i : Rat) * (hi - lo) / ((n - 1 : Nat) : Rat)

end MV.Sample
