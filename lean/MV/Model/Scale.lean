import MV.Basic
/-!
C16 / C17 — scales and ticks.  Linear scale and tick arithmetic over exact
rationals; FindLevel mirrored with fuel; the Log scale's transcendental part is
evaluated through interval enclosures in the driver.
-/
namespace MV.Scale

def clamp (y : Rat) : Rat := if y < 0 then 0 else if y > 1 then 1 else y

structure Lin where
  min : Rat
  max : Rat
  clampOn : Bool
  deriving Repr

def Lin.map (s : Lin) (x : Rat) : Rat :=
  if s.min == s.max then 1 / 2
  else
    let y := (x - s.min) / (s.max - s.min)
    if s.clampOn then clamp y else y

def Lin.unmap (s : Lin) (y : Rat) : Rat := y * (s.max - s.min) + s.min

/-- `NewLog`: `none` = RangeErr, else the (ordered) bounds. -/
def newLog (mn mx : Rat) (base : Int) : Option (Rat × Rat) :=
  let (a, b) := if mn > mx then (mx, mn) else (mn, mx)
  if base ≤ 1 then none
  else if a ≤ 0 ∧ b ≥ 0 then none
  else some (a, b)

/-! ## FindLevel -/

/-- walk down while the count still fits -/
def walkDown (count : Int → Int) (mx minL : Int) : Nat → Int → Int
  | 0, l => l
  | f + 1, l => if l - 1 ≥ minL ∧ count (l - 1) ≤ mx then walkDown count mx minL f (l - 1) else l

/-- walk up while the count does not fit; `none` if we pass maxL -/
def walkUp (count : Int → Int) (mx maxL : Int) : Nat → Int → Option Int
  | 0, _ => none
  | f + 1, l => if l > maxL then none else if count l > mx then walkUp count mx maxL f (l + 1) else some l

/-- `TickOptions.FindLevel`; `none` = (0,false). -/
def findLevel (count : Int → Int) (mx minL0 maxL0 guess : Int) : Option Int :=
  let (minL, maxL) := if minL0 == 0 && maxL0 == 0 then ((-1000 : Int), (1000 : Int)) else (minL0, maxL0)
  if minL > maxL then none
  else if mx < 1 then none
  else
    let l := if guess < minL then minL else if guess > maxL then maxL else guess
    let fuel := (maxL - minL + 2).toNat
    if count l ≤ mx then some (walkDown count mx minL fuel l)
    else walkUp count mx maxL fuel (l + 1)

/-- spec: least level in range whose count fits -/
def leastLevel (count : Int → Int) (mx minL0 maxL0 : Int) : Option Int :=
  let (minL, maxL) := if minL0 == 0 && maxL0 == 0 then ((-1000 : Int), (1000 : Int)) else (minL0, maxL0)
  if minL > maxL ∨ mx < 1 then none
  else ((List.range (maxL - minL + 1).toNat).map fun (i : Nat) => minL + (i : Int)).find? fun l => count l ≤ mx

/-! ## Linear ticks -/

def ebase (base : Nat) : Nat := if base == 0 then 10 else base

def ratPowInt (b : Rat) (e : Int) : Rat :=
  if e ≥ 0 then (List.range e.toNat).foldl (fun a _ => a * b) 1
  else 1 / (List.range (-e).toNat).foldl (fun a _ => a * b) 1

/-- tick spacing at a level: ebase^⌊l/2⌋, ×5 on odd levels in the default base -/
def spacing (base : Nat) (level : Int) : Rat :=
  let e := Int.fdiv level 2
  let odd := level % 2 != 0
  ratPowInt (ebase base : Rat) e * (if odd && base == 0 then 5 else 1)

def slackFactor : Rat := 1 / 10000000000

/-- (firstN, lastN) at a level -/
def linBounds (mn mx : Rat) (base : Nat) (level : Int) (roundOut : Bool) (slackF : Rat) : Int × Int :=
  let s := spacing base level
  let slack := (mx - mn) * slackF
  if roundOut then (((mn + slack) / s).floor, ((mx - slack) / s).ceil)
  else (((mn - slack) / s).ceil, ((mx + slack) / s).floor)

def linCount (mn mx : Rat) (base : Nat) (roundOut : Bool) (slackF : Rat) (level : Int) : Int :=
  let (a, b) := linBounds mn mx base level roundOut slackF
  b - a + 1

def linTicksAt (mn mx : Rat) (base : Nat) (level : Int) (slackF : Rat) : List Rat :=
  let (a, b) := linBounds mn mx base level false slackF
  let s := spacing base level
  (List.range (b - a + 1).toNat).map fun (i : Nat) => ((a + (i : Int) : Int) : Rat) * s

/-- `Linear.Ticks`: (major, minor) or none when no level fits; assumes mn < mx, maxT ≥ 1 -/
def linTicks (mn mx : Rat) (base : Nat) (maxT minL maxL : Int) (slackF : Rat) : Option (Int × List Rat × List Rat) :=
  match findLevel (linCount mn mx base false slackF) maxT minL maxL 0 with
  | none => none
  | some l => some (l, linTicksAt mn mx base l slackF, linTicksAt mn mx base (l - 1) slackF)

/-- `Linear.Nice` for mn < mx: new bounds, or none when unchanged -/
def linNice (mn mx : Rat) (base : Nat) (maxT minL maxL : Int) (slackF : Rat) : Option (Int × Rat × Rat) :=
  match findLevel (linCount mn mx base true slackF) maxT minL maxL 0 with
  | none => none
  | some l =>
    let (a, b) := linBounds mn mx base l true slackF
    let s := spacing base l
    some (l, a * s, b * s)

end MV.Scale
