import MV.Model.Interval
import MV.Model.UDist
/-!
Reference values for special functions on the slices where they have closed
forms: Student-t CDF/PDF at integer degrees of freedom, regularised incomplete
beta at integer parameters (exact) and at (k/2, 1/2) (via the t CDF),
regularised incomplete gamma at integer and half-integer `a`, log-binomials.
All enclosures are built from `MV.I`.
-/
namespace MV.Special
open MV

def atanI (a : I) : I := ⟨(I.atanQ a.lo).lo, (I.atanQ a.hi).hi⟩

/-- Student-t CDF at integer ν ≥ 1 for a rational t, via θ = atan(t/√ν):
odd ν: 1/2 + (θ + sinθ cosθ Σ_{j≤(ν−3)/2} a_j cos^{2j}θ)/π, a_0 = 1, a_j = a_{j−1}·2j/(2j+1);
even ν: 1/2 + (sinθ/2) Σ_{j≤(ν−2)/2} b_j cos^{2j}θ, b_0 = 1, b_j = b_{j−1}(2j−1)/(2j). -/
def tCDFpos (nu : Nat) (t : Rat) : I :=     -- for t ≥ 0
  let nuR : Rat := nu
  let c2 : Rat := nuR / (nuR + t * t)                 -- cos²θ (exact)
  let sinT : I := I.div (I.ofRat t) (I.sqrt (I.ofRat (nuR + t * t)))
  if nu % 2 == 1 then
    let theta := atanI (I.div (I.ofRat t) (I.sqrt (I.ofRat nuR)))
    let cosT : I := I.sqrt (I.ofRat c2)
    let m := (nu - 1) / 2          -- number of terms in the sum is m (j = 0..m-1), empty for ν = 1
    let (sum, _, _) := (List.range m).foldl (fun (acc : Rat × Rat × Rat) j =>
      let (s, a, p) := acc
      let a' := if j == 0 then 1 else a * (2 * j : Nat) / ((2 * j + 1 : Nat) : Rat)
      (s + a' * p, a', p * c2)) ((0 : Rat), (1 : Rat), (1 : Rat))
    let inner := I.add theta (I.mul (I.mul sinT cosT) (I.ofRat sum))
    I.add (I.ofRat (1 / 2)) (I.div inner I.pi)
  else
    let m := nu / 2                -- j = 0..m-1
    let (sum, _, _) := (List.range m).foldl (fun (acc : Rat × Rat × Rat) j =>
      let (s, b, p) := acc
      let b' := if j == 0 then 1 else b * ((2 * j - 1 : Nat) : Rat) / ((2 * j : Nat) : Rat)
      (s + b' * p, b', p * c2)) ((0 : Rat), (1 : Rat), (1 : Rat))
    I.add (I.ofRat (1 / 2)) (I.scale (1 / 2) (I.mul sinT (I.ofRat sum)))

def tCDF (nu : Nat) (t : Rat) : I :=
  if t ≥ 0 then tCDFpos nu t else I.sub (I.ofRat 1) (tCDFpos nu (-t))

/-- enclosure over an interval argument (monotone) -/
def tCDFI (nu : Nat) (t : I) : I := ⟨(tCDF nu t.lo).lo, (tCDF nu t.hi).hi⟩

def fact (n : Nat) : Nat := (List.range n).foldl (fun a i => a * (i + 1)) 1

/-- normalising constant Γ((ν+1)/2)/(√(νπ) Γ(ν/2)) at integer ν -/
def tConst (nu : Nat) : I :=
  if nu % 2 == 0 then
    let m := nu / 2
    -- (2m)!/(4^m m!(m−1)! √(2m))
    I.div (I.ofRat ((fact (2 * m) : Rat) / ((4 ^ m * fact m * fact (m - 1) : Nat) : Rat))) (I.sqrt (I.ofRat (nu : Rat)))
  else
    let m := (nu - 1) / 2
    -- 4^m (m!)²/((2m)! π √(2m+1))
    I.div (I.ofRat (((4 ^ m * fact m * fact m : Nat) : Rat) / (fact (2 * m) : Rat))) (I.mul I.pi (I.sqrt (I.ofRat (nu : Rat))))

/-- Student-t PDF at integer ν: c_ν (1 + t²/ν)^(−(ν+1)/2) -/
def tPDF (nu : Nat) (t : Rat) : I :=
  let base : Rat := 1 + t * t / (nu : Rat)
  let e := I.exp (I.scale (-((nu + 1 : Nat) : Rat) / 2) (I.logQ base))
  I.mul (tConst nu) e

/-- regularised incomplete beta at positive integers: Σ_{j=a}^{a+b−1} C(a+b−1,j) x^j (1−x)^{a+b−1−j} (exact) -/
def betaIncInt (x : Rat) (a b : Nat) : Rat :=
  let n := a + b - 1
  ((List.range b).map fun i =>
    let j := a + i
    (UDist.chooseFast n j : Rat) * I.ratPowNat x j * I.ratPowNat (1 - x) (n - j)).foldl (· + ·) 0

/-- Beta(a,b) at positive integers -/
def betaInt (a b : Nat) : Rat := ((fact (a - 1) * fact (b - 1) : Nat) : Rat) / (fact (a + b - 1) : Rat)

/-- I_x(k/2, 1/2) for integer k ≥ 1 through the t distribution with ν = k:
for t ≥ 0, x = ν/(ν+t²): I_x(ν/2,1/2) = 2(1 − F_ν(t)), i.e. t = √(ν(1−x)/x). -/
def betaIncHalf (x : Rat) (k : Nat) : I :=
  if x ≤ 0 then I.ofRat 0 else if x ≥ 1 then I.ofRat 1 else
  let t := I.sqrt (I.ofRat ((k : Rat) * (1 - x) / x))
  I.scale 2 (I.sub (I.ofRat 1) (tCDFI k t))

/-- regularised lower incomplete gamma at integer a ≥ 1: 1 − e^{−x} Σ_{k<a} x^k/k! -/
def gammaIncInt (a : Nat) (x : Rat) : I :=
  let (s, _) := (List.range a).foldl (fun (acc : Rat × Rat) k =>
    let (s, term) := acc
    (s + term, term * x / ((k + 1 : Nat) : Rat))) ((0 : Rat), (1 : Rat))
  I.sub (I.ofRat 1) (I.mul (I.expQ (-x)) (I.ofRat s))

/-- at half-integer a = m + 1/2: P(1/2,x) = 2Φ(√(2x)) − 1 and P(a+1,x) = P(a,x) − x^a e^{−x}/Γ(a+1),
Γ(m + 3/2) = (2m+2)! √π / (4^{m+1} (m+1)!) -/
def gammaIncHalf (m : Nat) (x : Rat) : I :=
  if x ≤ 0 then I.ofRat 0 else
  let sx := I.sqrt (I.ofRat (2 * x))
  let ph : I := ⟨(I.Phi sx.lo).lo, (I.Phi sx.hi).hi⟩
  let p0 := I.sub (I.scale 2 ph) (I.ofRat 1)
  let sqrtx := I.sqrt (I.ofRat x)
  let ex := I.expQ (-x)
  let sqpi := I.sqrt I.pi
  -- Σ_{j=0}^{m−1} x^{j+1/2} e^{−x} / Γ(j + 3/2)
  let sum := (List.range m).foldl (fun (s : I) j =>
    let g := I.scale ((fact (2 * j + 2) : Rat) / ((4 ^ (j + 1) * fact (j + 1) : Nat) : Rat)) sqpi
    I.add s (I.div (I.mul (I.scale (I.ratPowNat x j) sqrtx) ex) g)) (I.ofRat 0)
  I.sub p0 sum

/-- log of a binomial coefficient -/
def lchoose (n k : Nat) : I := I.logQ (UDist.chooseFast n k : Rat)

end MV.Special
