import MV.Model.Interval
import MV.Model.UDist
/-!
Reference values for special functions on the slices where they have closed
forms: Student-t CDF/PDF at integer degrees of freedom, regularised incomplete
beta at integer parameters (exact) and at (k/2, 1/2) (via the t CDF),
regularised incomplete gamma at integer and half-integer `a`, log-binomials.
All enclosures are built from `MV.I`.
-/
namespace MV.Special
open MV

def atanI (a : I) : I := ⟨(I.atanQ a.lo).lo, (I.atanQ a.hi).hi⟩

/-- Student-t CDF at integer ν ≥ 1 for a rational t, via θ = atan(t/√ν):
odd ν: 1/2 + (θ + sinθ cosθ Σ_{j≤(ν−3)/2} a_j cos^{2j}θ)/π, a_0 = 1, a_j = a_{j−1}·2j/(2j+1);
even ν: 1/2 + (sinθ/2) Σ_{j≤(ν−2)/2} b_j cos^{2j}θ, b_0 = 1, b_j = b_{j−1}(2j−1)/(2j). -/
def tCDFpos (nu : Nat) (t : Rat) : I :=     -- for t ≥ 0
  let nuR : Rat := nu
  let c2 : Rat := nuR / (nuR + t * t)                 -- cos²θ (exact)
  let sinT : I := I.div (I.ofRat t) (I.sqrt (I.ofRat (nuR + t * t)))
  if nu % 2 == 1 then
    let theta := atanI (I.div (I.ofRat t) (I.sqrt (I.ofRat nuR)))
    let cosT : I := I.sqrt (I.ofRat c2)
    let m := (nu - 1) / 2          -- number of terms in the sum is m (j = 0..m-1), empty for ν = 1
    let (sum, _, _) := (List.range m).foldl (fun (acc : Rat × Rat × Rat) j =>
      let (s, a, p) := acc
      let a' := if j == 0 then 1 else a * (2 * j : Nat) / ((2 * j + 1 : Nat) : Rat)
      (s + a' * p, a', p * c2)) ((0 : Rat), (1 : Rat), (1 : Rat))
    let inner := I.add theta (I.mul (I.mul sinT cosT) (I.ofRat sum))
    I.add (I.ofRat (1 / 2)) (I.div inner I.pi)
  else
    let m := nu / 2                -- j = 0..m-1
    let (sum, _, _) := (List.range m).foldl (fun (acc : Rat × Rat × Rat) j =>
      let (s, b, p) := acc
      let b' := if j == 0 then 1 else b * ((2 * j - 1 : Nat) : Rat) / ((2 * j : Nat) : Rat)
      (s + b' * p, b', p * c2)) ((0 : Rat), (1 : Rat), (1 : Rat))
    I.add (I.ofRat (1 / 2)) (I.scale (1 / 2) (I.mul sinT (I.ofRat sum)))

def tCDF (nu : Nat) (t : Rat) : I :=
  if t ≥ 0 then tCDFpos nu t else I.sub (I.ofRat 1) (tCDFpos nu (-t))

/-- enclosure over an interval argument (monotone) -/
def tCDFI (nu : Nat) (t : I) : I := ⟨(tCDF nu t.lo).lo, (tCDF nu t.hi).hi⟩

def fact (n : Nat) : Nat := (List.range n).foldl (fun a i => a * (i + 1)) 1

/-- normalising constant Γ((ν+1)/2)/(√(νπ) Γ(ν/2)) at integer ν -/
def tConst (nu : Nat) : I :=
  if nu % 2 == 0 then
    let m := nu / 2
    -- (2m)!/(4^m m!(m−1)! √(2m))
    I.div (I.ofRat ((fact (2 * m) : Rat) / ((4 ^ m * fact m * fact (m - 1) : Nat) : Rat))) (I.sqrt (I.ofRat (nu : Rat)))
  else
    let m := (nu - 1) / 2
    -- 4^m (m!)²/((2m)! π √(2m+1))
    I.div (I.ofRat (((4 ^ m * fact m * fact m : Nat) : Rat) / (fact (2 * m) : Rat))) (I.mul I.pi (I.sqrt (I.ofRat (nu : Rat))))

/-- Student-t PDF at integer ν: c_ν (1 + t²/ν)^(−(ν+1)/2) -/
def tPDF (nu : Nat) (t : Rat) : I :=
  let base : Rat := 1 + t * t / (nu : Rat)
  let e := I.exp (I.scale (-((nu + 1 : Nat) : Rat) / 2) (I.logQ base))
  I.mul (tConst nu) e

/-- regularised incomplete beta at positive integers: Σ_{j=a}^{a+b−1} C(a+b−1,j) x^j (1−x)^{a+b−1−j} (exact) -/
def betaIncInt (x : Rat) (a b : Nat) : Rat :=
  let n := a + b - 1
  ((List.range b).map fun i =>
    let j := a + i
    (UDist.chooseFast n j : Rat) * I.ratPowNat x j * I.ratPowNat (1 - x) (n - j)).foldl (· + ·) 0

/-- Beta(a,b) at positive integers -/
def betaInt (a b : Nat) : Rat := ((fact (a - 1) * fact (b - 1) : Nat) : Rat) / (fact (a + b - 1) : Rat)

/-- I_x(k/2, 1/2) for integer k ≥ 1 through the t distribution with ν = k:
for t ≥ 0, x = ν/(ν+t²): I_x(ν/2,1/2) = 2(1 − F_ν(t)), i.e. t = √(ν(1−x)/x). -/
def betaIncHalf (x : Rat) (k : Nat) : I :=
  if x ≤ 0 then I.ofRat 0 else if x ≥ 1 then I.ofRat 1 else
  let t := I.sqrt (I.ofRat ((k : Rat) * (1 - x) / x))
  I.scale 2 (I.sub (I.ofRat 1) (tCDFI k t))

/-- regularised lower incomplete gamma at integer a ≥ 1: 1 − e^{−x} Σ_{k<a} x^k/k! -/
def gammaIncInt (a : Nat) (x : Rat) : I :=
  let (s, _) := (List.range a).foldl (fun (acc : Rat × Rat) k =>
    let (s, term) := acc
    (s + term, term * x / ((k + 1 : Nat) : Rat))) ((0 : Rat), (1 : Rat))
  I.sub (I.ofRat 1) (I.mul (I.expQ (-x)) (I.ofRat s))

/-- at half-integer a = m + 1/2: P(1/2,x) = 2Φ(√(2x)) − 1 and P(a+1,x) = P(a,x) − x^a e^{−x}/Γ(a+1),
Γ(m + 3/2) = (2m+2)! √π / (4^{m+1} (m+1)!) -/
def gammaIncHalf (m : Nat) (x : Rat) : I :=
  if x ≤ 0 then I.ofRat 0 else
  let sx := I.sqrt (I.ofRat (2 * x))
  let ph : I := ⟨(I.Phi sx.lo).lo, (I.Phi sx.hi).hi⟩
  let p0 := I.sub (I.scale 2 ph) (I.ofRat 1)
  let sqrtx := I.sqrt (I.ofRat x)
  let ex := I.expQ (-x)
  let sqpi := I.sqrt I.pi
  -- Σ_{j=0}^{m−1} x^{j+1/2} e^{−x} / Γ(j + 3/2)
  let sum := (List.range m).foldl (fun (s : I) j =>
    let g := I.scale ((fact (2 * j + 2) : Rat) / ((4 ^ (j + 1) * fact (j + 1) : Nat) : Rat)) sqpi
    I.add s (I.div (I.mul (I.scale (I.ratPowNat x j) sqrtx) ex) g)) (I.ofRat 0)
  I.sub p0 sum

/-- log of a binomial coefficient -/
def lchoose (n k : Nat) : I := I.logQ (UDist.chooseFast n k : Rat)

end MV.Special

namespace MV.Special
open MV

/-! ## General-parameter references (Stirling series for log Γ; power series for the
regularised incomplete beta and gamma functions).  These enclosures rest on two textbook
facts that are NOT formalised here: the Stirling series for log Γ(y), y > 0, is enveloping
(consecutive partial sums bracket the value), and the hypergeometric / power series below
with their geometric tail bounds.  They are cross-checked on every run against the
independently derived integer and half-integer closed forms above. -/

/-- B₂, B₄, …, B₂₄ -/
def bernoulliEven : List Rat :=
  [1/6, -1/30, 1/42, -1/30, 5/66, -691/2730, 7/6, -3617/510, 43867/798, -174611/330, 854513/138, -236364091/2730]

def ln2pi : I := I.log (I.scale 2 I.pi)

/-- log Γ(y) for y ≥ 20 by the Stirling series with 10 and 11 correction terms (bracketing) -/
def lgammaBig (y : Rat) : I :=
  let ly := I.logQ y
  let base := I.add (I.sub (I.scale (y - 1 / 2) ly) (I.ofRat y)) (I.scale (1 / 2) ln2pi)
  let term (k : Nat) : Rat :=      -- k = 1, 2, …: B_{2k} / (2k (2k−1) y^{2k−1})
    bernoulliEven.getD (k - 1) 0 / (((2 * k) * (2 * k - 1) : Nat) : Rat) / I.ratPowNat y (2 * k - 1)
  let s10 := (List.range 10).foldl (fun s i => s + term (i + 1)) (0 : Rat)
  let s11 := s10 + term 11
  I.add base (I.mk' (ratMin s10 s11) (ratMax s10 s11))

/-- log Γ(x) for rational x > 0 by the Stirling series: shift up to ≥ 20 with Γ(x) = Γ(x+n)/∏_{i<n}(x+i).
(Enveloping property of the Stirling series: textbook, not formalised — used only as a cross-check and as
a fallback, see `lgammaI` below.) -/
def lgammaStirling (x : Rat) : I :=
  let n : Nat := if x ≥ 20 then 0 else (20 - x.floor).toNat
  let y := x + (n : Rat)
  let shift := (List.range n).foldl (fun (s : I) i => I.add s (I.logQ (x + (i : Nat)))) (I.ofRat 0)
  I.sub (lgammaBig y) shift

/-- Σ_{n≥0} ∏_{j<n} (c+j) x /(d+j) in fixed point (terms decrease: ratio ≤ r < 1), with geometric tail.
Numerators/denominators are rationals cleared to integers: ratio_n = (cn + n·cd) xn dd / ((dn + n·dd) xd cd). -/
def hypSeries (c d x : Rat) : Option I :=
  -- ratio_n = (c+n) x / (d+n)
  let r0 := (c * x) / d
  let r := ratMax x r0
  if r ≥ 1 ∨ x ≤ 0 then none else
  let one : Nat := I.scaleN
  -- integer form of the ratio: q_n = (c+n) x / (d+n) = (cN + n cD) xN dD / ((dN + n dD) xD cD)
  let cN := c.num.toNat; let cD := c.den; let dN := d.num.toNat; let dD := d.den
  let xN := x.num.toNat; let xD := x.den
  let rec go (fuel n : Nat) (s t : Nat) : Nat × Nat :=
    match fuel with
    | 0 => (s, t)
    | fuel + 1 =>
      if t ≤ 1 then (s, t) else
      let num := (cN + n * cD) * xN * dD
      let den := (dN + n * dD) * xD * cD
      let t' := (t * num + den - 1) / den          -- ⌈t q_n⌉
      if t' ≥ t then (s, t)                        -- rounding up no longer lets the term shrink: stop
      else go fuel (n + 1) (s + t') t'
  let (s, t) := go 200000 0 one one
  let tail : Rat := (t : Rat) * r / (1 - r)
  -- rounding slack: each of ≤ 200000 steps rounds up by < 1 unit, amplified by at most 1/(1−r)
  some ⟨((s : Rat) - (200000 : Rat) / (1 - r)) / (one : Rat) |> ratMax 1, ((s : Rat) + tail + 1) / (one : Rat)⟩

/-- regularised incomplete beta I_x(a,b) for rational 0 ≤ x ≤ 1, a, b > 0, given `lb` = an enclosure of log B(a,b) -/
def betaRegIWith (lb : I) (x a b : Rat) : Option I :=
  if x ≤ 0 then some (I.ofRat 0) else if x ≥ 1 then some (I.ofRat 1) else
  let direct (x a b : Rat) : Option I :=
    -- x^a (1−x)^b / (a B(a,b)) · Σ (a+b)_n/(a+1)_n x^n
    match hypSeries (a + b) (a + 1) x with
    | none => none
    | some ser =>
      let e := I.sub (I.add (I.scale a (I.logQ x)) (I.scale b (I.logQ (1 - x)))) lb
      some (I.mul (I.scale (1 / a) (I.exp e)) ser)
  if x < (a + 1) / (a + b + 2) then direct x a b
  else (direct (1 - x) b a).map fun v => I.sub (I.ofRat 1) v

/-- regularised lower incomplete gamma P(a,x), rational a > 0, x ≥ 0, given `lg` = an enclosure of log Γ(a+1):
x^a e^{−x}/Γ(a+1) · Σ_{n≥0} x^n/((a+1)…(a+n)) -/
def gammaRegIWith (lg : I) (a x : Rat) : Option I :=
  if x ≤ 0 then some (I.ofRat 0) else
  -- far upper tail: Γ(a,x) (1 − (a−1)/x) ≤ x^(a−1) e^(−x) (one integration by parts), so for x ≥ 2a
  -- Q(a,x) ≤ 2 x^(a−1) e^(−x) / Γ(a), with log Γ(a) = log Γ(a+1) − log a
  if x > 2 * a + 100 then
    let e := I.sub (I.sub (I.scale (a - 1) (I.logQ x)) (I.ofRat x)) (I.sub lg (I.logQ a))
    let bound := 2 * (I.exp ⟨e.hi, e.hi⟩).hi
    some ⟨ratMax 0 (1 - bound), 1⟩ else
  let one : Nat := I.scaleN
  -- terms grow while x > a+n; stop when the term is ≤ 1 unit and the ratio ≤ 1/2
  -- integer form: q_n = x / (a + n + 1) = xN aD / ((aN + (n+1) aD) xD)
  let aN := a.num.toNat; let aD := a.den; let xN := x.num.toNat; let xD := x.den
  let rec go (fuel n : Nat) (s t : Nat) : Nat × Nat × Nat :=
    match fuel with
    | 0 => (s, t, n)
    | fuel + 1 =>
      let num := xN * aD
      let den := (aN + (n + 1) * aD) * xD
      if t ≤ 2 ∧ 2 * num ≤ den then (s, t, n) else
      let t' := (t * num + den - 1) / den
      go fuel (n + 1) (s + t') t'
  let (s, t, n) := go 100000 0 one one
  let q := x / (a + ((n + 1 : Nat) : Rat))
  if q > 1 / 2 then none else
  -- rounding up makes every computed term t_k ≥ the true scaled term T_k, with E_k = t_k − T_k obeying
  -- E_{k+1} < E_k q_k + 1, hence E_k/T_k < Σ_{j≤k} 1/T_j and E_k < k T_k/one + k (terms ≥ one while they
  -- grow, ratios < 1 afterwards); summing, the true sum S satisfies S (1 + n/one) > s − n²
  let m : Rat := ((n + 2 : Nat) : Rat)
  let ser : I := ⟨ratMax 1 ((((s : Rat) - m * m) / (1 + m / (one : Rat))) / (one : Rat)), ((s : Rat) + 2 * (t : Rat) + 1) / (one : Rat)⟩
  let e := I.sub (I.sub (I.scale a (I.logQ x)) (I.ofRat x)) lg
  some (I.mul (I.exp e) ser)

/-- the loop of `gammaRegIWith`'s series branch on its own: (sum, last term, index) in fixed point -/
def gammaLoop (a x : Rat) : Nat × Nat × Nat :=
  gammaRegIWith.go a.num.toNat a.den x.num.toNat x.den 100000 0 I.scaleN I.scaleN

/-- the enclosure of the series formed from the loop's result, verbatim from `gammaRegIWith` -/
def gammaSerOf (p : Nat × Nat × Nat) : I :=
  let one : Nat := I.scaleN
  let m : Rat := ((p.2.2 + 2 : Nat) : Rat)
  ⟨ratMax 1 ((((p.1 : Rat) - m * m) / (1 + m / (one : Rat))) / (one : Rat)),
    ((p.1 : Rat) + 2 * (p.2.1 : Rat) + 1) / (one : Rat)⟩

/-- the series part of `gammaRegIWith`: `none` when the loop ran out of fuel before the ratio
dropped to `1/2`, otherwise the interval enclosing Σ x^n/((a+1)…(a+n)) -/
def gammaSer (a x : Rat) : Option I :=
  if x / (a + (((gammaLoop a x).2.2 + 1 : Nat) : Rat)) > 1 / 2 then none
  else some (gammaSerOf (gammaLoop a x))

/-- log Γ(a) for rational a > 0 from the incomplete gamma series itself (no Stirling series):
Γ(a) = γ(a,X) + Γ(a,X) at X = ⌈2a⌉ + 100, with γ(a,X) = X^a e^(−X)/a · Σ X^n/((a+1)…(a+n)) and
0 ≤ Γ(a,X) ≤ 2 X^(a−1) e^(−X). Every step has a soundness proof (C08GammaSeries, C08GammaIdentity,
C08GammaTail, C08LogGamma). -/
def lgammaS (a : Rat) : Option I :=
  if a ≤ 0 then none else
  let X : Rat := (((2 * a).ceil + 100 : Int) : Rat)
  match gammaSer a X with
  | none => none
  | some ser =>
    -- everything in the log domain (X^a e^(−X) is far below the absolute resolution of `I.exp`)
    let lx := I.logQ X
    let L := I.add (I.sub (I.sub (I.scale a lx) (I.ofRat X)) (I.logQ a)) (I.log ser)   -- ∋ log γ(a,X)
    -- log Γ(a) = log γ + log(1 + T/γ) ≤ log γ + T/γ with T = Γ(a,X) ≤ 2 X^(a−1) e^(−X)
    let e2 := I.sub (I.add (I.sub (I.scale (a - 1) lx) (I.ofRat X)) (I.logQ 2)) L
    let u := (I.exp ⟨e2.hi, e2.hi⟩).hi
    some ⟨L.lo, L.hi + u⟩

/-- log Γ(x) for rational x > 0: the proved series enclosure `lgammaS`; the Stirling enclosure only if the
series loop ran out of fuel (never observed; the drivers tag such cases `stirling-fallback`). -/
def lgammaI (x : Rat) : I :=
  match lgammaS x with
  | some e => e
  | none => lgammaStirling x

/-- did the proved series enclosure of log Γ succeed at every listed argument (so that `lgammaI` is the proved one)? -/
def lgammaOK (xs : List Rat) : Bool := xs.all fun x => (lgammaS x).isSome

/-- log B(a,b) -/
def lbetaI (a b : Rat) : I := I.sub (I.add (lgammaI a) (lgammaI b)) (lgammaI (a + b))

/-- regularised incomplete beta I_x(a,b) for rational 0 ≤ x ≤ 1, a, b > 0 -/
def betaRegI (x a b : Rat) : Option I := betaRegIWith (lbetaI a b) x a b

def gammaRegI (a x : Rat) : Option I := gammaRegIWith (lgammaI (a + 1)) a x

/-- Student-t CDF for any rational ν > 0 through the incomplete beta function -/
def tCDFgen (nu t : Rat) : Option I :=
  if t == 0 then some (I.ofRat (1 / 2)) else
  let x := nu / (nu + t * t)
  match betaRegI x (nu / 2) (1 / 2) with
  | none => none
  | some b =>
    let up := I.sub (I.ofRat 1) (I.scale (1 / 2) b)       -- CDF(|t|)
    if t > 0 then some up else some (I.sub (I.ofRat 1) up)

end MV.Special
