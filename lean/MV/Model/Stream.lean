import MV.Basic
/-!
C13 — StreamStats.  `St.add` / `St.combine` mirror `stats/stream.go` update
by update over exact rationals; `batch` is the definitional spec.
-/
namespace MV.Stream

structure St where
  count : Nat
  total : Rat
  min : Rat
  max : Rat
  mean : Rat
  meanSq : Rat
  m2 : Rat
  deriving Repr, BEq, Inhabited

def St.zero : St := ⟨0, 0, 0, 0, 0, 0, 0⟩

/-- `StreamStats.Add`. -/
def St.add (s : St) (x : Rat) : St :=
  let total := s.total + x
  let mn := if s.count = 0 then x else if x < s.min then x else s.min
  let mx := if s.count = 0 then x else if x > s.max then x else s.max
  let count := s.count + 1
  let delta := x - s.mean
  let mean := s.mean + delta / (count : Rat)
  let meanSq := s.meanSq + (x * x - s.meanSq) / (count : Rat)
  let m2 := s.m2 + delta * (x - mean)
  ⟨count, total, mn, mx, mean, meanSq, m2⟩

/-- `StreamStats.Combine` (s receives o). -/
def St.combine (s o : St) : St :=
  if o.count = 0 then s
  else if s.count = 0 then o
  else
    let count := s.count + o.count
    let delta := o.mean - s.mean
    let mean := s.mean + delta * (o.count : Rat) / (count : Rat)
    let m2 := s.m2 + o.m2 + delta * delta * (s.count : Rat) * (o.count : Rat) / (count : Rat)
    ⟨count, s.total + o.total,
      if o.min < s.min then o.min else s.min,
      if o.max > s.max then o.max else s.max,
      mean,
      s.meanSq + (o.meanSq - s.meanSq) * (o.count : Rat) / (count : Rat),
      m2⟩

def St.variance (s : St) : Rat := s.m2 / ((s.count : Rat) - 1)

/-! ### Definitional spec -/

def sum (xs : List Rat) : Rat := xs.foldl (· + ·) 0

def listMin : List Rat → Rat
  | [] => 0
  | x :: xs => xs.foldl (fun a b => if b < a then b else a) x
def listMax : List Rat → Rat
  | [] => 0
  | x :: xs => xs.foldl (fun a b => if b > a then b else a) x

def batchMean (xs : List Rat) : Rat := sum xs / (xs.length : Rat)
def batchMeanSq (xs : List Rat) : Rat := sum (xs.map fun x => x * x) / (xs.length : Rat)
def batchM2 (xs : List Rat) : Rat :=
  let m := batchMean xs
  sum (xs.map fun x => (x - m) * (x - m))

/-- Batch statistics of the multiset `xs` (empty → the zero value). -/
def batch (xs : List Rat) : St :=
  if xs.isEmpty then St.zero
  else ⟨xs.length, sum xs, listMin xs, listMax xs, batchMean xs, batchMeanSq xs, batchM2 xs⟩

/-! ### Histories over a heap of accumulators -/

inductive Op where
  | add (i : Nat) (x : Rat)
  | comb (i j : Nat)      -- acc[i].Combine(&acc[j])
  | read (i : Nat)
  deriving Repr

/-- Heap = list of (model state, denotation). -/
abbrev Heap := List (St × List Rat)

def getD (h : Heap) (i : Nat) : St × List Rat := h.getD i (St.zero, [])

def step (h : Heap) : Op → Heap
  | .add i x => let (s, d) := getD h i; h.set i (s.add x, d ++ [x])
  | .comb i j =>
    let (s, d) := getD h i
    let (o, e) := getD h j
    h.set i (s.combine o, d ++ e)
  | .read _ => h

def run (n : Nat) (ops : List Op) : Heap :=
  ops.foldl step (List.replicate n (St.zero, []))

end MV.Stream
