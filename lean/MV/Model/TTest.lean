import MV.Model.Sample
/-!
C04 — t-tests over exact rationals.  `T` is represented by its sign and square
(no square roots in the model); DoF exactly.
-/
namespace MV.TTest
open MV.Sample

inductive Err | sampleSize | zeroVariance | mismatched deriving Repr, BEq, DecidableEq

structure Stat where
  n1 : Nat
  n2 : Nat
  num : Rat        -- numerator of T (its sign is the sign of T)
  den2 : Rat       -- T² = num² / den2,  den2 > 0
  dof : Rat
  deriving Repr

/-- variance as the library reports it for a slice: NaN handled by callers; 0 for a single value -/
def variance (xs : List Rat) : Rat := if xs.length ≤ 1 then 0 else varSpec xs
def mean (xs : List Rat) : Rat := meanSpec xs

/-- TwoSampleTTest (pooled variance) -/
def pooled (x1 x2 : List Rat) : Except Err Stat :=
  let n1 : Rat := x1.length; let n2 : Rat := x2.length
  if x1.length == 0 ∨ x2.length == 0 then .error .sampleSize
  else
    let v1 := variance x1; let v2 := variance x2
    if v1 == 0 ∧ v2 == 0 then .error .zeroVariance
    else
      let dof := n1 + n2 - 2
      let v12 := ((n1 - 1) * v1 + (n2 - 1) * v2) / dof
      .ok ⟨x1.length, x2.length, mean x1 - mean x2, v12 * (1 / n1 + 1 / n2), dof⟩

/-- TwoSampleWelchTTest -/
def welch (x1 x2 : List Rat) : Except Err Stat :=
  let n1 : Rat := x1.length; let n2 : Rat := x2.length
  if x1.length ≤ 1 ∨ x2.length ≤ 1 then .error .sampleSize
  else
    let v1 := variance x1; let v2 := variance x2
    if v1 == 0 ∧ v2 == 0 then .error .zeroVariance
    else
      let a := v1 / n1; let b := v2 / n2
      let dof := (a + b) * (a + b) / (a * a / (n1 - 1) + b * b / (n2 - 1))
      .ok ⟨x1.length, x2.length, mean x1 - mean x2, a + b, dof⟩

/-- PairedTTest -/
def paired (x1 x2 : List Rat) (mu0 : Rat) : Except Err Stat :=
  if x1.length != x2.length then .error .mismatched
  else if x1.length ≤ 1 then .error .sampleSize
  else
    let d := (x1.zip x2).map fun (a, b) => a - b
    let v := variance d
    if v == 0 then .error .zeroVariance
    else .ok ⟨x1.length, x2.length, mean d - mu0, v / (x1.length : Rat), (x1.length : Rat) - 1⟩

/-- OneSampleTTest -/
def oneSample (x : List Rat) (mu0 : Rat) : Except Err Stat :=
  if x.length == 0 then .error .sampleSize
  else
    let v := variance x
    if v == 0 then .error .zeroVariance
    else .ok ⟨x.length, 0, mean x - mu0, v / (x.length : Rat), (x.length : Rat) - 1⟩

end MV.TTest
