import MV.Basic
/-!
C02 — the exact null distribution of the Mann-Whitney U statistic.

* `countSpec`  : definitional count over allocation vectors (spec).
* `fwdDP`      : forward generating-function DP over tie groups (executed by the driver).
* `cMW`        : Mann-Whitney (1947) recurrence for the untied case (what `UDist.p` implements),
  `mwRow` its row-wise table (executed for large untied cases).
* `aK`         : mirror of the Cheung-Klotz recursion of `makeUmemo` (tied case), incl. the
  two-rank closed form with floor division and the pruning by `twoUmin/twoUmax`.
-/
namespace MV.UDist

def choose : Nat → Nat → Nat
  | _, 0 => 1
  | 0, _ + 1 => 0
  | n + 1, k + 1 => choose n k + choose n (k + 1)

/-- fast binomial for execution (multiplicative), proved equal to `choose` in Props. -/
def chooseFast (n k : Nat) : Nat :=
  if k > n then 0
  else
    let k := if k > n - k then n - k else k
    (List.range k).foldl (fun acc i => acc * (n - i) / (i + 1)) 1

def sumList (l : List Nat) : Nat := l.foldl (· + ·) 0

/-! ## Spec: allocation vectors -/

/-- all vectors `r` with `r_k ≤ t_k` -/
def allocs : List Nat → List (List Nat)
  | [] => [[]]
  | t :: ts => (List.range (t + 1)).flatMap fun r => (allocs ts).map fun rs => r :: rs

/-- `2U` of an allocation: sample-1 items of group k beat all sample-2 items of earlier
groups (2 each) and tie with the sample-2 items of their own group (1 each). -/
def twoUof : List Nat → List Nat → Nat → Nat
  | t :: ts, r :: rs, below2 => r * (2 * below2 + (t - r)) + twoUof ts rs (below2 + (t - r))
  | _, _, _ => 0

/-- number of labelings realising an allocation -/
def weight : List Nat → List Nat → Nat
  | t :: ts, r :: rs => choose t r * weight ts rs
  | _, _ => 1

/-- number of size-`n1` subsets of the ranked pool with `2U ≤ twoU` (`twoU : Int`). -/
def countSpec (t : List Nat) (n1 : Nat) (twoU : Int) : Nat :=
  sumList (((allocs t).filter fun r => sumList r == n1 && ((twoUof t r 0 : Nat) : Int) ≤ twoU).map (weight t))

/-- number of subsets with `2U = twoU` exactly -/
def countEq (t : List Nat) (n1 : Nat) (twoU : Int) : Nat :=
  sumList (((allocs t).filter fun r => sumList r == n1 && ((twoUof t r 0 : Nat) : Int) == twoU).map (weight t))

/-! ## Forward DP: table[j] = polynomial in q^(2U) of labelings using j sample-1 items -/

abbrev Poly := Array Nat

def polyAddShift (acc : Poly) (p : Poly) (shift : Nat) (c : Nat) : Poly := Id.run do
  let mut a := acc
  if a.size < p.size + shift then
    a := a ++ Array.replicate (p.size + shift - a.size) 0
  for i in [0:p.size] do
    let v := p.getD i 0
    if v != 0 then
      a := a.setIfInBounds (i + shift) (a.getD (i + shift) 0 + c * v)
  return a

/-- one tie group of size `t`; `below` = pooled items in earlier groups. -/
def dpStep (n1 : Nat) (tbl : Array Poly) (t below : Nat) : Array Poly := Id.run do
  let mut out : Array Poly := Array.replicate (n1 + 1) #[]
  for j in [0:n1 + 1] do
    let p := tbl.getD j #[]
    if p.size != 0 then
      for r in [0:t + 1] do
        if j + r ≤ n1 then
          let shift := r * (2 * (below - j) + (t - r))
          out := out.setIfInBounds (j + r) (polyAddShift (out.getD (j + r) #[]) p shift (chooseFast t r))
  return out

def fwdDP (t : List Nat) (n1 : Nat) : Poly :=
  let init : Array Poly := (Array.replicate (n1 + 1) #[]).setIfInBounds 0 #[1]
  let (tbl, _) := t.foldl (fun (tb, below) tk => (dpStep n1 tb tk below, below + tk)) (init, 0)
  tbl.getD n1 #[]

def polyPrefix (p : Poly) (k : Int) : Nat :=
  if k < 0 then 0 else (p.toList.take (k.toNat + 1)).foldl (· + ·) 0

def polyTotal (p : Poly) : Nat := p.foldl (· + ·) 0

/-! ## Untied: the Mann-Whitney recurrence -/

/-- `cMW n m u` = number of arrangements of n ones and m zeros with u inversions;
the recurrence of Mann & Whitney that `UDist.p` implements (in probability form). -/
def cMW : Nat → Nat → Nat → Nat
  | 0, _, u => if u = 0 then 1 else 0
  | _ + 1, 0, u => if u = 0 then 1 else 0
  | n + 1, m + 1, u =>
    (if u ≥ m + 1 then cMW n (m + 1) (u - (m + 1)) else 0) + cMW (n + 1) m u
termination_by n m _ => n + m

/-- row-wise table: `mwRows N M` returns for `n = 0..N` the polynomial `u ↦ cMW n M u`. -/
def mwNextRow (prev : Array Poly) (m : Nat) : Array Poly := Id.run do
  -- prev[n] = c(n, m-1, ·); build cur[n] = shift_m(cur[n-1]) + prev[n]
  let mut cur : Array Poly := #[#[1]]
  for n in [1:prev.size] do
    let a := polyAddShift (prev.getD n #[]) (cur.getD (n - 1) #[]) m 1
    cur := cur.push a
  return cur

def mwRows (N M : Nat) : Array Poly :=
  let row0 : Array Poly := Array.replicate (N + 1) #[1]      -- m = 0: only u = 0
  (List.range M).foldl (fun row i => mwNextRow row (i + 1)) row0

def mwPoly (n1 n2 : Nat) : Poly := (mwRows n1 n2).getD n1 #[]

/-! ## Tied: mirror of makeUmemo (Cheung-Klotz) -/

def aCoef : List Nat → List Nat     -- a[1..K] (index 0 unused → we return a[1..])
  | [] => []
  | t0 :: ts =>
    let rec go (prevA prevT : Nat) : List Nat → List Nat
      | [] => []
      | tk :: r => let a := prevA + prevT + tk; a :: go a tk r
    t0 :: go t0 t0 ts

/-- greedy sum: take as many as possible from each group in list order -/
def greedy (rem : Nat) : List Nat → List Nat → Nat
  | tk :: ts, ak :: as => min rem tk * ak + greedy (rem - min rem tk) ts as
  | _, _ => 0

/-- twoUmin over t[:K] (greedy from the lowest rank) -/
def twoUminM (n1 : Nat) (t a : List Nat) : Int :=
  (greedy n1 t a : Int) - ((n1 * n1 : Nat) : Int)

/-- twoUmax over t[:K] (greedy from the highest rank) -/
def twoUmaxM (n1 : Nat) (t a : List Nat) : Int :=
  (greedy n1 t.reverse (a.take t.length).reverse : Int) - ((n1 * n1 : Nat) : Int)

/-- `aK ts n1 twoU` with `ts` = tie vector t[:K] **reversed** (highest rank first), K ≥ 2.
Mirrors the fill phase of makeUmemo: K = 2 closed form with floor division; K ≥ 3 sums over rk
with "in range → recurse / above max → choose(tsum, n1') / below min → 0". -/
def aK : List Nat → Nat → Int → Nat
  | [t1, t0], n1, twoU =>
    let lo : Int := max 0 ((n1 : Int) - t0)
    let num : Int := twoU - (n1 : Int) * ((t0 : Int) - n1)
    let hi : Int := Int.fdiv num ((t0 + t1 : Nat) : Int)
    if hi < lo then 0 else
      ((List.range (hi - lo + 1).toNat).map fun i =>
        let r2 := lo.toNat + i
        if r2 > n1 then 0 else choose t0 (n1 - r2) * choose t1 r2).foldl (· + ·) 0
  | tk :: rest, n1, twoU =>
    if rest.length < 2 then 0 else
    let tfull := (tk :: rest).reverse
    let a := aCoef tfull
    let ak := a.getD (tfull.length - 1) 0
    let tsum := sumList rest
    let lo := n1 - tsum
    let hi := min n1 tk
    let tprev := rest.reverse
    ((List.range (hi + 1 - lo)).map fun i =>
      let rk := lo + i
      let twoU' : Int := twoU - (rk : Int) * ((ak : Int) - 2 * (n1 : Int) + rk)
      let n1' := n1 - rk
      let x : Nat :=
        if twoUminM n1' tprev a ≤ twoU' ∧ twoU' ≤ twoUmaxM n1' tprev a then aK rest n1' twoU'
        else if twoUmaxM n1' tprev a < twoU' then choose tsum n1'
        else 0
      x * choose tk rk).foldl (· + ·) 0
  | _, _, _ => 0
termination_by ts => ts.length

/-! ## The distribution as the API exposes it -/

def hasTies (t : List Nat) : Bool := t.any (· > 1)

/-- effective tie vector: `T` or all ones when nil -/
def effT (n1 n2 : Nat) (t : List Nat) : List Nat := if t.isEmpty then List.replicate (n1 + n2) 1 else t

/-- `UDist{n1,n2,T}.CDF(u)`; polynomial `p` = `fwdDP (effT …) n1` or `mwPoly` indexed by 2U resp. U. -/
def cdf (n1 n2 : Nat) (t : List Nat) (u : Rat) : Rat :=
  if u < 0 then 0
  else if u ≥ ((n1 * n2 : Nat) : Rat) then 1
  else
    let p := fwdDP (effT n1 n2 t) n1
    (polyPrefix p (2 * u).floor : Rat) / (polyTotal p : Rat)

/-- large untied cases: same value through the Mann-Whitney table (indexed by U) -/
def cdfUntiedMW (n1 n2 : Nat) (u : Rat) : Rat :=
  if u < 0 then 0
  else if u ≥ ((n1 * n2 : Nat) : Rat) then 1
  else
    let p := mwPoly n1 n2
    (polyPrefix p u.floor : Rat) / (polyTotal p : Rat)

/-! ## Sparse enumeration (few ranks or a small first sample, pools of any size)

The dense tables above have one entry per attainable `2U`, i.e. up to `2·n1·n2` of them; for a pool of
a million values in two or three ranks that is hundreds of megabytes, while only a handful of
allocation vectors have the right sum. `allocsSum` lists exactly those. `cdfSparse` is proved equal to
`cdf` in `Props/C02Sparse.lean`. -/

/-- allocation vectors with `r_k ≤ t_k` and `Σ r = n` -/
def allocsSum : List Nat → Nat → List (List Nat)
  | [], 0 => [[]]
  | [], _ + 1 => []
  | t :: ts, n => (List.range (min t n + 1)).flatMap fun r => (allocsSum ts (n - r)).map fun rs => r :: rs

/-- `weight` with the multiplicative binomial -/
def weightFast : List Nat → List Nat → Nat
  | t :: ts, r :: rs => chooseFast t r * weightFast ts rs
  | _, _ => 1

def countSparse (t : List Nat) (n1 : Nat) (twoU : Int) : Nat :=
  sumList (((allocsSum t n1).filter fun r => ((twoUof t r 0 : Nat) : Int) ≤ twoU).map (weightFast t))

def countEqSparse (t : List Nat) (n1 : Nat) (twoU : Int) : Nat :=
  sumList (((allocsSum t n1).filter fun r => ((twoUof t r 0 : Nat) : Int) == twoU).map (weightFast t))

/-- how many allocation vectors `allocsSum` will list at most (to decide whether the sparse route is cheap) -/
def sparseCost (t : List Nat) (n1 : Nat) : Nat := (t.map fun x => min x n1 + 1).foldl (· * ·) 1

def cdfSparse (n1 n2 : Nat) (t : List Nat) (u : Rat) : Rat :=
  if u < 0 then 0
  else (countSparse (effT n1 n2 t) n1 (2 * u).floor : Rat) / (chooseFast (n1 + n2) n1 : Rat)

def pmfAtSparse (n1 n2 : Nat) (t : List Nat) (twoU : Int) : Rat :=
  (countEqSparse (effT n1 n2 t) n1 twoU : Rat) / (chooseFast (n1 + n2) n1 : Rat)

/-- mass at the grid point `twoU/2` -/
def pmfAt (n1 n2 : Nat) (t : List Nat) (twoU : Int) : Rat :=
  let p := fwdDP (effT n1 n2 t) n1
  if twoU < 0 then 0 else ((p.getD twoU.toNat 0 : Nat) : Rat) / (polyTotal p : Rat)

end MV.UDist
