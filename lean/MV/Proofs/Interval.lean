import Mathlib
import MV.Model.Interval
/-!
# Soundness of the rational interval arithmetic in `MV/Model/Interval.lean`

`Mem x a` says that the real number `x` lies in the rational interval `a`.  Every `theorem`
below states that one of the executable enclosure functions is *sound*: the exact real value
lies in the computed interval.  Helper results use `lemma`.

Hypotheses that turned out to be necessary are stated explicitly and are accompanied by
counterexample lemmas (`inv_unsound_through_zero`, `atanh2_unsound_half`).
The fixed-point kernel `FI` has its own soundness theorems in namespace `MV.I.FI`.
-/

namespace MV.I

section IvBase

/-- A real number lies in a rational interval. -/
def Mem (x : ℝ) (a : I) : Prop := ((a.lo : ℚ) : ℝ) ≤ x ∧ x ≤ ((a.hi : ℚ) : ℝ)

/-! ## S1: rounding and arithmetic -/

lemma ratMax_eq (a b : ℚ) : ratMax a b = max a b := by
  unfold ratMax; split_ifs with h
  · exact (max_eq_right h.le).symm
  · exact (max_eq_left (not_lt.mp h)).symm

lemma ratMin_eq (a b : ℚ) : ratMin a b = min a b := by
  unfold ratMin; split_ifs with h
  · exact (min_eq_left h.le).symm
  · exact (min_eq_right (not_lt.mp h)).symm

lemma ratAbs_eq (q : ℚ) : ratAbs q = |q| := by
  unfold ratAbs; split_ifs with h
  · exact (abs_of_neg h).symm
  · exact (abs_of_nonneg (not_lt.mp h)).symm

lemma scaleN_pos : (0 : ℚ) < (scaleN : ℚ) := by
  have : 0 < scaleN := by unfold scaleN; positivity
  exact_mod_cast this

lemma scaleN_posR : (0 : ℝ) < ((scaleN : ℚ) : ℝ) := by exact_mod_cast scaleN_pos

lemma scaleN_ge_one : (1 : ℚ) ≤ (scaleN : ℚ) := by
  have : 1 ≤ scaleN := by unfold scaleN; exact Nat.one_le_two_pow
  exact_mod_cast this

/-- Rounding down to the dyadic grid never increases a rational. -/
theorem rdn_le (q : ℚ) : rdn q ≤ q := by
  unfold rdn
  rw [div_le_iff₀ scaleN_pos]
  exact Rat.floor_le _

/-- Rounding up to the dyadic grid never decreases a rational. -/
theorem le_rup (q : ℚ) : q ≤ rup q := by
  unfold rup
  rw [le_div_iff₀ scaleN_pos]
  exact Rat.le_ceil

example : rdn (1 / 3) ≤ 1 / 3 ∧ (1 / 3 : ℚ) ≤ rup (1 / 3) := ⟨rdn_le _, le_rup _⟩

lemma lt_rdn_add (q : ℚ) : q < rdn q + 1 / (scaleN : ℚ) := by
  unfold rdn
  rw [← add_div, lt_div_iff₀ scaleN_pos]
  have := Rat.lt_floor_add_one (q * (scaleN : ℚ))
  push_cast at this
  exact this

lemma rup_lt_add (q : ℚ) : rup q < q + 1 / (scaleN : ℚ) := by
  unfold rup
  rw [div_lt_iff₀ scaleN_pos, add_mul, one_div, inv_mul_cancel₀ scaleN_pos.ne']
  exact Rat.ceil_lt

lemma rdn_mono {p q : ℚ} (h : p ≤ q) : rdn p ≤ rdn q := by
  unfold rdn
  apply div_le_div_of_nonneg_right _ scaleN_pos.le
  have : (p * (scaleN : ℚ)).floor ≤ (q * (scaleN : ℚ)).floor := by
    rw [Rat.le_floor_iff]
    exact (Rat.floor_le _).trans (mul_le_mul_of_nonneg_right h scaleN_pos.le)
  exact_mod_cast this

lemma rup_mono {p q : ℚ} (h : p ≤ q) : rup p ≤ rup q := by
  unfold rup
  apply div_le_div_of_nonneg_right _ scaleN_pos.le
  have : (p * (scaleN : ℚ)).ceil ≤ (q * (scaleN : ℚ)).ceil := by
    rw [Rat.ceil_le_iff]
    exact (mul_le_mul_of_nonneg_right h scaleN_pos.le).trans Rat.le_ceil
  exact_mod_cast this

/-- Integers are on the rounding grid. -/
lemma rdn_intCast (z : ℤ) : rdn (z : ℚ) = z := by
  unfold rdn
  have h : ((z : ℚ) * (scaleN : ℚ)) = ((z * (scaleN : ℤ) : ℤ) : ℚ) := by push_cast; rfl
  rw [h, Rat.floor_intCast]
  push_cast
  field_simp [scaleN_pos.ne']

lemma rdn_nonneg {q : ℚ} (h : 0 ≤ q) : 0 ≤ rdn q := by
  have := rdn_mono h
  have h0 : rdn 0 = 0 := by simpa using rdn_intCast 0
  rwa [h0] at this

lemma one_le_rdn {q : ℚ} (h : 1 ≤ q) : 1 ≤ rdn q := by
  have := rdn_mono h
  have h0 : rdn 1 = 1 := by simpa using rdn_intCast 1
  rwa [h0] at this

lemma rdn_leR (q : ℚ) : ((rdn q : ℚ) : ℝ) ≤ (q : ℝ) := by exact_mod_cast rdn_le q
lemma le_rupR (q : ℚ) : (q : ℝ) ≤ ((rup q : ℚ) : ℝ) := by exact_mod_cast le_rup q

lemma mem_mk' {x : ℝ} {l h : ℚ} (h1 : (l : ℝ) ≤ x) (h2 : x ≤ (h : ℝ)) : Mem x (mk' l h) :=
  ⟨(rdn_leR l).trans h1, h2.trans (le_rupR h)⟩

lemma Mem.mono {x : ℝ} {a b : I} (h : Mem x a) (hl : b.lo ≤ a.lo) (hh : a.hi ≤ b.hi) : Mem x b :=
  ⟨(by exact_mod_cast hl : (b.lo : ℝ) ≤ a.lo).trans h.1,
   h.2.trans (by exact_mod_cast hh : (a.hi : ℝ) ≤ b.hi)⟩

/-- Every rational is enclosed by its point interval. -/
theorem ofRat_sound (q : ℚ) : Mem (q : ℝ) (ofRat q) := ⟨le_refl _, le_refl _⟩

/-- Interval addition encloses the sum. -/
theorem add_sound {x y : ℝ} {a b : I} (hx : Mem x a) (hy : Mem y b) : Mem (x + y) (add a b) := by
  apply mem_mk'
  · push_cast; exact add_le_add hx.1 hy.1
  · push_cast; exact add_le_add hx.2 hy.2

/-- Interval negation encloses the negation. -/
theorem neg_sound {x : ℝ} {a : I} (hx : Mem x a) : Mem (-x) (neg a) := by
  constructor
  · show ((-a.hi : ℚ) : ℝ) ≤ -x
    push_cast; exact neg_le_neg hx.2
  · show -x ≤ ((-a.lo : ℚ) : ℝ)
    push_cast; exact neg_le_neg hx.1

/-- Interval subtraction encloses the difference. -/
theorem sub_sound {x y : ℝ} {a b : I} (hx : Mem x a) (hy : Mem y b) : Mem (x - y) (sub a b) := by
  rw [sub_eq_add_neg]; exact add_sound hx (neg_sound hy)

lemma mul_bounds {l h x c : ℝ} (h1 : l ≤ x) (h2 : x ≤ h) :
    min (l * c) (h * c) ≤ x * c ∧ x * c ≤ max (l * c) (h * c) := by
  rcases le_total 0 c with hc | hc
  · exact ⟨(min_le_left _ _).trans (mul_le_mul_of_nonneg_right h1 hc),
      (mul_le_mul_of_nonneg_right h2 hc).trans (le_max_right _ _)⟩
  · exact ⟨(min_le_right _ _).trans (mul_le_mul_of_nonpos_right h2 hc),
      (mul_le_mul_of_nonpos_right h1 hc).trans (le_max_left _ _)⟩

/-- Interval multiplication encloses the product. -/
theorem mul_sound {x y : ℝ} {a b : I} (hx : Mem x a) (hy : Mem y b) : Mem (x * y) (mul a b) := by
  obtain ⟨hx1, hx2⟩ := hx
  obtain ⟨hy1, hy2⟩ := hy
  unfold mul
  simp only [ratMin_eq, ratMax_eq]
  apply mem_mk'
  · push_cast
    have h1 := (mul_bounds (c := y) hx1 hx2).1
    have h2 := (mul_bounds (c := (a.lo : ℝ)) hy1 hy2).1
    have h3 := (mul_bounds (c := (a.hi : ℝ)) hy1 hy2).1
    rw [mul_comm (b.lo : ℝ), mul_comm (b.hi : ℝ), mul_comm y] at h2 h3
    exact (min_le_min h2 h3).trans h1
  · push_cast
    have h1 := (mul_bounds (c := y) hx1 hx2).2
    have h2 := (mul_bounds (c := (a.lo : ℝ)) hy1 hy2).2
    have h3 := (mul_bounds (c := (a.hi : ℝ)) hy1 hy2).2
    rw [mul_comm (b.lo : ℝ), mul_comm (b.hi : ℝ), mul_comm y] at h2 h3
    exact h1.trans (max_le_max h2 h3)

/-- Scaling an interval by a rational constant encloses the scaled value. -/
theorem scale_sound (c : ℚ) {x : ℝ} {a : I} (hx : Mem x a) : Mem ((c : ℝ) * x) (scale c a) :=
  mul_sound (ofRat_sound c) hx

/-- Interval reciprocal encloses the reciprocal, when the interval excludes zero. -/
theorem inv_sound {x : ℝ} {a : I} (hx : Mem x a) (h0 : 0 < a.lo ∨ a.hi < 0) : Mem x⁻¹ (inv a) := by
  obtain ⟨hx1, hx2⟩ := hx
  unfold inv
  rw [if_pos (by simpa using h0)]
  apply mem_mk'
  · push_cast
    rcases h0 with h | h
    · have hl : (0 : ℝ) < a.lo := by exact_mod_cast h
      have hxp : 0 < x := hl.trans_le hx1
      rw [one_div]
      exact inv_anti₀ hxp hx2
    · have hh : (a.hi : ℝ) < 0 := by exact_mod_cast h
      have hxn : x < 0 := hx2.trans_lt hh
      rw [one_div]
      exact (inv_le_inv_of_neg hh hxn).mpr hx2
  · push_cast
    rcases h0 with h | h
    · have hl : (0 : ℝ) < a.lo := by exact_mod_cast h
      rw [one_div]
      exact inv_anti₀ hl hx1
    · have hh : (a.hi : ℝ) < 0 := by exact_mod_cast h
      have hxn : x < 0 := hx2.trans_lt hh
      rw [one_div]
      exact (inv_le_inv_of_neg hxn (hx1.trans_lt hxn)).mpr hx1

/-- Interval division encloses the quotient, when the divisor interval excludes zero. -/
theorem div_sound {x y : ℝ} {a b : I} (hx : Mem x a) (hy : Mem y b) (h0 : 0 < b.lo ∨ b.hi < 0) :
    Mem (x / y) (div a b) := by
  rw [div_eq_mul_inv]; exact mul_sound hx (inv_sound hy h0)

/-- Interval squaring encloses the square. -/
theorem sq_sound {x : ℝ} {a : I} (hx : Mem x a) : Mem (x ^ 2) (sq a) := by
  obtain ⟨hx1, hx2⟩ := hx
  unfold sq
  split_ifs with h1 h2
  · have hl : (0 : ℝ) ≤ a.lo := by exact_mod_cast h1
    apply mem_mk' <;> push_cast <;> nlinarith
  · have hh : (a.hi : ℝ) ≤ 0 := by exact_mod_cast h2
    apply mem_mk' <;> push_cast <;> nlinarith
  · rw [ratMax_eq]
    apply mem_mk'
    · push_cast; positivity
    · push_cast
      rcases le_total 0 x with hx0 | hx0
      · exact le_max_of_le_right (by nlinarith)
      · exact le_max_of_le_left (by nlinarith)

/-- The hull encloses everything its first argument encloses. -/
theorem hull_sound_left {x : ℝ} {a b : I} (hx : Mem x a) : Mem x (hull a b) := by
  apply hx.mono
  · show ratMin a.lo b.lo ≤ a.lo
    rw [ratMin_eq]; exact min_le_left _ _
  · show a.hi ≤ ratMax a.hi b.hi
    rw [ratMax_eq]; exact le_max_left _ _

/-- The hull encloses everything its second argument encloses. -/
theorem hull_sound_right {x : ℝ} {a b : I} (hx : Mem x b) : Mem x (hull a b) := by
  apply hx.mono
  · show ratMin a.lo b.lo ≤ b.lo
    rw [ratMin_eq]; exact min_le_right _ _
  · show b.hi ≤ ratMax a.hi b.hi
    rw [ratMax_eq]; exact le_max_right _ _

/-- Interval absolute value encloses the absolute value. -/
theorem abs_sound {x : ℝ} {a : I} (hx : Mem x a) : Mem |x| (abs a) := by
  unfold abs
  split_ifs with h1 h2
  · have hl : (0 : ℝ) ≤ a.lo := by exact_mod_cast h1
    rw [abs_of_nonneg (hl.trans hx.1)]; exact hx
  · have hh : (a.hi : ℝ) ≤ 0 := by exact_mod_cast h2
    rw [abs_of_nonpos (hx.2.trans hh)]; exact neg_sound hx
  · constructor
    · show ((0 : ℚ) : ℝ) ≤ |x|
      push_cast; exact abs_nonneg x
    · show |x| ≤ ((ratMax (-a.lo) a.hi : ℚ) : ℝ)
      rw [ratMax_eq]; push_cast
      rw [abs_le]
      constructor
      · have := le_max_left (-(a.lo : ℝ)) a.hi
        linarith [hx.1]
      · exact hx.2.trans (le_max_right _ _)

/-- The side condition of `inv_sound` cannot be dropped: for an interval through zero, `inv`
returns `[-2^128, 2^128]`, which does not contain `1/x` for tiny `x ≠ 0` in the interval. -/
lemma inv_unsound_through_zero :
    Mem ((2 : ℝ) ^ (-200 : ℤ)) ⟨-1, 1⟩ ∧ ¬ Mem (((2 : ℝ) ^ (-200 : ℤ))⁻¹) (inv ⟨-1, 1⟩) := by
  constructor
  · constructor
    · show ((-1 : ℚ) : ℝ) ≤ _
      have : (0 : ℝ) < 2 ^ (-200 : ℤ) := by positivity
      push_cast; linarith
    · show _ ≤ ((1 : ℚ) : ℝ)
      push_cast
      exact zpow_le_one_of_nonpos₀ (by norm_num) (by norm_num)
  · intro h
    have h2 : ((2 : ℝ) ^ (-200 : ℤ))⁻¹ ≤ (((inv ⟨-1, 1⟩).hi : ℚ) : ℝ) := h.2
    have h3 : (inv ⟨-1, 1⟩).hi = (scaleN : ℚ) := by
      unfold inv; rw [if_neg (by norm_num)]
    rw [h3, ← zpow_neg] at h2
    have h4 : ((scaleN : ℚ) : ℝ) = (2 : ℝ) ^ (128 : ℤ) := by
      unfold scaleN prec; push_cast; norm_num
    rw [h4] at h2
    have := (zpow_le_zpow_iff_right₀ (by norm_num : (1 : ℝ) < 2)).mp h2
    norm_num at this

/-! ### non-vacuity examples for the arithmetic soundness theorems -/

lemma mem_third : Mem (1 / 3 : ℝ) (ofRat (1 / 3)) := by
  simpa using ofRat_sound (1 / 3)

lemma mem_neg_two : Mem (-2 : ℝ) (ofRat (-2)) := by
  simpa using ofRat_sound (-2)

example : Mem ((1 / 3 : ℝ) + -2) (add (ofRat (1 / 3)) (ofRat (-2))) := add_sound mem_third mem_neg_two
example : Mem (-(1 / 3 : ℝ)) (neg (ofRat (1 / 3))) := neg_sound mem_third
example : Mem ((1 / 3 : ℝ) - -2) (sub (ofRat (1 / 3)) (ofRat (-2))) := sub_sound mem_third mem_neg_two
example : Mem ((1 / 3 : ℝ) * -2) (mul (ofRat (1 / 3)) (ofRat (-2))) := mul_sound mem_third mem_neg_two
example : Mem (((5 : ℚ) : ℝ) * (1 / 3 : ℝ)) (scale 5 (ofRat (1 / 3))) := scale_sound 5 mem_third
example : Mem ((-2 : ℝ)⁻¹) (inv (ofRat (-2))) := inv_sound mem_neg_two (Or.inr (by norm_num [ofRat]))
example : Mem ((1 / 3 : ℝ) / -2) (div (ofRat (1 / 3)) (ofRat (-2))) :=
  div_sound mem_third mem_neg_two (Or.inr (by norm_num [ofRat]))
example : Mem ((-2 : ℝ) ^ 2) (sq (ofRat (-2))) := sq_sound mem_neg_two
example : Mem |(-2 : ℝ)| (abs (ofRat (-2))) := abs_sound mem_neg_two
example : Mem (-2 : ℝ) (hull (ofRat (1 / 3)) (ofRat (-2))) := hull_sound_right mem_neg_two
example : Mem (1 / 3 : ℝ) (hull (ofRat (1 / 3)) (ofRat (-2))) := hull_sound_left mem_third

end IvBase

section IvFI

/-! ## fixed-point kernel `FI` -/

namespace FI

/-- the scale `2^prec` as a real number -/
noncomputable def SR : ℝ := ((scaleN : ℚ) : ℝ)

lemma SR_pos : 0 < SR := scaleN_posR

lemma SR_int : ((scaleN : ℤ) : ℝ) = SR := by unfold SR; push_cast; rfl

lemma SR_nat : ((scaleN : ℕ) : ℝ) = SR := by unfold SR; push_cast; rfl

lemma scaleN_int_pos : (0 : ℤ) < (scaleN : ℤ) := by
  have : 0 < scaleN := by unfold scaleN; positivity
  exact_mod_cast this

lemma one_le_SR : 1 ≤ SR := by
  have := scaleN_ge_one
  unfold SR; exact_mod_cast this

/-- membership in `a.toI`, expressed on the integer grid -/
lemma mem_toI {x : ℝ} {a : FI} :
    Mem x a.toI ↔ ((a.lo : ℤ) : ℝ) ≤ x * SR ∧ x * SR ≤ ((a.hi : ℤ) : ℝ) := by
  unfold Mem toI
  simp only
  push_cast
  rw [SR_nat, div_le_iff₀ SR_pos, le_div_iff₀ SR_pos]

lemma imin_eq (a b : ℤ) : imin a b = min a b := by
  unfold imin; split_ifs with h
  · exact (min_eq_left h).symm
  · exact (min_eq_right (le_of_not_ge h)).symm

lemma imax_eq (a b : ℤ) : imax a b = max a b := by
  unfold imax; split_ifs with h
  · exact (max_eq_right h).symm
  · exact (max_eq_left (le_of_not_ge h)).symm

lemma ediv_le_real (x : ℤ) {d : ℤ} (hd : 0 < d) : ((x / d : ℤ) : ℝ) ≤ (x : ℝ) / (d : ℝ) := by
  have hdR : (0 : ℝ) < d := by exact_mod_cast hd
  rw [le_div_iff₀ hdR]
  exact_mod_cast Int.ediv_mul_le x hd.ne'

lemma real_lt_ediv_add_one (x : ℤ) {d : ℤ} (hd : 0 < d) :
    (x : ℝ) / (d : ℝ) < ((x / d : ℤ) : ℝ) + 1 := by
  have hdR : (0 : ℝ) < d := by exact_mod_cast hd
  rw [div_lt_iff₀ hdR]
  exact_mod_cast Int.lt_ediv_add_one_mul_self x hd

/-- `Int.fdiv` by a positive integer rounds down. -/
lemma fdiv_le_real (x : ℤ) {d : ℤ} (hd : 0 < d) : ((Int.fdiv x d : ℤ) : ℝ) ≤ (x : ℝ) / (d : ℝ) := by
  rw [Int.fdiv_eq_ediv_of_nonneg x hd.le]; exact ediv_le_real x hd

/-- `-(fdiv (-x) d)` rounds up. -/
lemma real_le_neg_fdiv_neg (x : ℤ) {d : ℤ} (hd : 0 < d) :
    (x : ℝ) / (d : ℝ) ≤ ((-(Int.fdiv (-x) d) : ℤ) : ℝ) := by
  have := fdiv_le_real (-x) hd
  push_cast at this ⊢
  rw [neg_div] at this
  linarith

/-- `-(fdiv (-x) d)` overshoots by less than one. -/
lemma neg_fdiv_neg_lt_real (x : ℤ) {d : ℤ} (hd : 0 < d) :
    ((-(Int.fdiv (-x) d) : ℤ) : ℝ) < (x : ℝ) / (d : ℝ) + 1 := by
  rw [Int.fdiv_eq_ediv_of_nonneg _ hd.le]
  have := real_lt_ediv_add_one (-x) hd
  push_cast at this ⊢
  rw [neg_div] at this
  linarith

lemma fdivP_le (x : ℤ) : ((fdivP x : ℤ) : ℝ) ≤ (x : ℝ) / SR := by
  unfold fdivP
  rw [Int.shiftRight_eq_div_pow]
  have h : (((2 : ℕ) ^ prec : ℕ) : ℤ) = (scaleN : ℤ) := rfl
  rw [h, ← SR_int]
  exact ediv_le_real x scaleN_int_pos

lemma le_cdivP (x : ℤ) : (x : ℝ) / SR ≤ ((cdivP x : ℤ) : ℝ) := by
  unfold cdivP
  have := fdivP_le (-x)
  unfold fdivP at this
  push_cast at this ⊢
  rw [neg_div] at this
  linarith

lemma cdivP_lt (x : ℤ) : ((cdivP x : ℤ) : ℝ) < (x : ℝ) / SR + 1 := by
  unfold cdivP
  rw [Int.shiftRight_eq_div_pow]
  have h : (((2 : ℕ) ^ prec : ℕ) : ℤ) = (scaleN : ℤ) := rfl
  rw [h]
  have := real_lt_ediv_add_one (-x) scaleN_int_pos
  rw [SR_int] at this
  push_cast at this ⊢
  rw [neg_div] at this
  linarith

lemma fdivP_nonneg {x : ℤ} (hx : 0 ≤ x) : 0 ≤ fdivP x := by
  unfold fdivP
  rw [Int.shiftRight_eq_div_pow]
  exact Int.ediv_nonneg hx (by positivity)

/-- `1 ∈ FI.one` -/
theorem one_sound : Mem 1 one.toI := by
  rw [mem_toI]; unfold one; simp only; rw [SR_int]; constructor <;> simp

/-- every rational lies in its fixed-point rounding `[⌊q·2^p⌋, ⌈q·2^p⌉]/2^p` -/
theorem ofRat_sound (q : ℚ) : Mem (q : ℝ) (ofRat q).toI := by
  have h1 := rdn_leR q
  have h2 := le_rupR q
  exact ⟨h1, h2⟩

/-- fixed-point addition is sound -/
theorem add_sound {x y : ℝ} {a b : FI} (hx : Mem x a.toI) (hy : Mem y b.toI) :
    Mem (x + y) (add a b).toI := by
  rw [mem_toI] at *
  unfold add; simp only; push_cast
  constructor <;> nlinarith [hx.1, hx.2, hy.1, hy.2]

/-- fixed-point negation is sound -/
theorem neg_sound {x : ℝ} {a : FI} (hx : Mem x a.toI) : Mem (-x) (neg a).toI := by
  rw [mem_toI] at *
  unfold neg; simp only; push_cast
  constructor <;> nlinarith [hx.1, hx.2]

lemma four_prod_bounds {l h x l' h' y : ℝ} (h1 : l ≤ x) (h2 : x ≤ h) (h3 : l' ≤ y) (h4 : y ≤ h') :
    min (min (l * l') (l * h')) (min (h * l') (h * h')) ≤ x * y ∧
      x * y ≤ max (max (l * l') (l * h')) (max (h * l') (h * h')) := by
  have a1 := mul_bounds (c := y) h1 h2
  have a2 := mul_bounds (c := l) h3 h4
  have a3 := mul_bounds (c := h) h3 h4
  rw [mul_comm l' l, mul_comm h' l, mul_comm y l] at a2
  rw [mul_comm l' h, mul_comm h' h, mul_comm y h] at a3
  exact ⟨(min_le_min a2.1 a3.1).trans a1.1, a1.2.trans (max_le_max a2.2 a3.2)⟩

/-- fixed-point multiplication is sound -/
theorem mul_sound {x y : ℝ} {a b : FI} (hx : Mem x a.toI) (hy : Mem y b.toI) :
    Mem (x * y) (mul a b).toI := by
  rw [mem_toI] at *
  obtain ⟨b1, b2⟩ := four_prod_bounds hx.1 hx.2 hy.1 hy.2
  have hS := SR_pos
  unfold mul; simp only [imin_eq, imax_eq]
  constructor
  · refine (fdivP_le _).trans ?_
    rw [div_le_iff₀ hS]
    push_cast
    calc _ ≤ x * SR * (y * SR) := b1
      _ = x * y * SR * SR := by ring
  · refine le_trans ?_ (le_cdivP _)
    rw [le_div_iff₀ hS]
    push_cast
    calc x * y * SR * SR = x * SR * (y * SR) := by ring
      _ ≤ _ := b2

/-- fixed-point squaring is sound -/
theorem sq_sound {x : ℝ} {a : FI} (hx : Mem x a.toI) : Mem (x ^ 2) (sq a).toI := by
  rw [mem_toI] at *
  obtain ⟨h1, h2⟩ := hx
  have hS := SR_pos
  have key : x ^ 2 * SR = (x * SR) * (x * SR) / SR := by field_simp
  unfold sq
  split_ifs with c1 c2
  · have hl : (0 : ℝ) ≤ a.lo := by exact_mod_cast c1
    simp only
    constructor
    · refine (fdivP_le _).trans ?_
      rw [key]; push_cast
      apply div_le_div_of_nonneg_right _ hS.le; nlinarith
    · refine le_trans ?_ (le_cdivP _)
      rw [key]; push_cast
      apply div_le_div_of_nonneg_right _ hS.le; nlinarith
  · have hh : ((a.hi : ℤ) : ℝ) ≤ 0 := by exact_mod_cast c2
    simp only
    constructor
    · refine (fdivP_le _).trans ?_
      rw [key]; push_cast
      apply div_le_div_of_nonneg_right _ hS.le; nlinarith
    · refine le_trans ?_ (le_cdivP _)
      rw [key]; push_cast
      apply div_le_div_of_nonneg_right _ hS.le; nlinarith
  · simp only [imax_eq]
    constructor
    · push_cast; positivity
    · refine le_trans ?_ (le_cdivP _)
      rw [key]; push_cast
      apply div_le_div_of_nonneg_right _ hS.le
      rcases le_total 0 (x * SR) with h0 | h0
      · exact le_max_of_le_right (by nlinarith)
      · exact le_max_of_le_left (by nlinarith)

/-- squaring keeps a nonnegative lower endpoint nonnegative -/
lemma sq_lo_nonneg {a : FI} (h : 0 ≤ a.lo) : 0 ≤ (sq a).lo := by
  unfold sq
  rw [if_pos h]
  exact fdivP_nonneg (mul_nonneg h h)

/-- fixed-point division by a positive natural number is sound -/
theorem divNat_sound {x : ℝ} {a : FI} (hx : Mem x a.toI) {n : ℕ} (hn : 0 < n) :
    Mem (x / n) (divNat a n).toI := by
  rw [mem_toI] at *
  have hnI : (0 : ℤ) < (n : ℤ) := by exact_mod_cast hn
  have hnR : (0 : ℝ) < (n : ℝ) := by exact_mod_cast hn
  unfold divNat; simp only
  constructor
  · refine (fdiv_le_real _ hnI).trans ?_
    push_cast
    rw [div_mul_eq_mul_div]
    exact div_le_div_of_nonneg_right hx.1 hnR.le
  · refine le_trans ?_ (real_le_neg_fdiv_neg _ hnI)
    push_cast
    rw [div_mul_eq_mul_div]
    exact div_le_div_of_nonneg_right hx.2 hnR.le

/-- fixed-point multiplication by an integer is sound -/
theorem mulInt_sound {x : ℝ} {a : FI} (hx : Mem x a.toI) (n : ℤ) :
    Mem (x * n) (mulInt a n).toI := by
  rw [mem_toI] at *
  unfold mulInt
  split_ifs with h
  · have hn : (0 : ℝ) ≤ n := by exact_mod_cast h
    simp only; push_cast
    constructor <;> nlinarith [hx.1, hx.2]
  · have hn : (n : ℝ) ≤ 0 := by exact_mod_cast (le_of_not_ge h)
    simp only; push_cast
    constructor <;> nlinarith [hx.1, hx.2]

/-- fixed-point quotient of a nonnegative interval by a positive interval is sound -/
theorem divPos_sound {x y : ℝ} {a b : FI} (hx : Mem x a.toI) (hy : Mem y b.toI)
    (ha : 0 ≤ a.lo) (hb : 0 < b.lo) : Mem (x / y) (divPos a b).toI := by
  rw [mem_toI] at *
  have hS := SR_pos
  have hal : (0 : ℝ) ≤ a.lo := by exact_mod_cast ha
  have hbl : (0 : ℝ) < b.lo := by exact_mod_cast hb
  have hyS : 0 < y * SR := hbl.trans_le hy.1
  have hy0 : 0 < y := by
    by_contra hc
    have : y * SR ≤ 0 := mul_nonpos_of_nonpos_of_nonneg (not_lt.mp hc) hS.le
    linarith
  have hbh : (0 : ℝ) < b.hi := hyS.trans_le hy.2
  have hbhI : (0 : ℤ) < b.hi := by exact_mod_cast hbh
  have hxS : 0 ≤ x * SR := hal.trans hx.1
  have key : x / y * SR = (x * SR) * SR / (y * SR) := by field_simp
  unfold divPos; simp only
  constructor
  · refine (fdiv_le_real _ hbhI).trans ?_
    push_cast
    rw [key, SR_nat, div_le_div_iff₀ hbh hyS]
    have h1 : (a.lo : ℝ) * SR ≤ x * SR * SR := mul_le_mul_of_nonneg_right hx.1 hS.le
    have h2 : (0 : ℝ) ≤ (a.lo : ℝ) * SR := mul_nonneg hal hS.le
    calc (a.lo : ℝ) * SR * (y * SR) ≤ (a.lo : ℝ) * SR * b.hi := mul_le_mul_of_nonneg_left hy.2 h2
      _ ≤ x * SR * SR * b.hi := mul_le_mul_of_nonneg_right h1 hbh.le
  · refine le_trans ?_ (real_le_neg_fdiv_neg _ hb)
    push_cast
    rw [key, SR_nat, div_le_div_iff₀ hyS hbl]
    have hah : (0 : ℝ) ≤ a.hi := hxS.trans hx.2
    have h1 : x * SR * SR ≤ (a.hi : ℝ) * SR := mul_le_mul_of_nonneg_right hx.2 hS.le
    calc x * SR * SR * b.lo ≤ (a.hi : ℝ) * SR * b.lo := mul_le_mul_of_nonneg_right h1 hbl.le
      _ ≤ (a.hi : ℝ) * SR * (y * SR) := mul_le_mul_of_nonneg_left hy.1 (mul_nonneg hah hS.le)

/-- widening by `e` grid units absorbs any perturbation of size at most `e/2^prec` -/
theorem widen_sound {x y : ℝ} {a : FI} (hx : Mem x a.toI) {e : ℤ} (he : |y - x| * SR ≤ (e : ℝ)) :
    Mem y (widen a e).toI := by
  rw [mem_toI] at *
  have hS := SR_pos
  unfold widen; simp only; push_cast
  have h := abs_le.mp (show |y - x| ≤ (e : ℝ) / SR by rw [le_div_iff₀ hS]; exact he)
  have e1 : (e : ℝ) / SR * SR = e := by field_simp
  constructor <;> nlinarith [hx.1, hx.2, h.1, h.2]

/-- `max(-lo, hi)` dominates `|x|` on the grid -/
lemma abs_le_imax {x : ℝ} {a : FI} (hx : Mem x a.toI) :
    |x| * SR ≤ ((imax (-a.lo) a.hi : ℤ) : ℝ) := by
  rw [mem_toI] at hx
  have e : |x| * SR = |x * SR| := by rw [abs_mul, abs_of_pos SR_pos]
  rw [imax_eq, e]
  push_cast
  rw [abs_le]
  constructor
  · have := le_max_left (-(a.lo : ℝ)) a.hi; linarith [hx.1]
  · exact hx.2.trans (le_max_right _ _)

end FI

end IvFI

section IvSqrt

/-! ## S2: square root -/

lemma scaleN2_cast : (((scaleN * scaleN : ℕ)) : ℚ) = (scaleN : ℚ) ^ 2 := by
  push_cast; ring

lemma sqrtLo_nonneg (q : ℚ) : 0 ≤ sqrtLo q := by
  unfold sqrtLo
  split_ifs
  · exact le_refl _
  · exact div_nonneg (Nat.cast_nonneg _) scaleN_pos.le

lemma sqrtHi_nonneg (q : ℚ) : 0 ≤ sqrtHi q := by
  unfold sqrtHi
  split_ifs
  · exact le_refl _
  · exact div_nonneg (Nat.cast_nonneg _) scaleN_pos.le

lemma sqrtLo_sq_le {q : ℚ} (hq : 0 < q) : (sqrtLo q) ^ 2 ≤ q := by
  unfold sqrtLo
  rw [if_neg (not_le.mpr hq)]
  simp only
  set n : ℕ := (q * ((scaleN * scaleN : ℕ) : ℚ)).floor.toNat with hn
  have hS := scaleN_pos
  have hfl : 0 ≤ (q * ((scaleN * scaleN : ℕ) : ℚ)).floor := by
    rw [Rat.le_floor_iff]
    have : (0 : ℚ) ≤ ((scaleN * scaleN : ℕ) : ℚ) := Nat.cast_nonneg _
    simpa using mul_nonneg hq.le this
  have hnq : (n : ℚ) ≤ q * (scaleN : ℚ) ^ 2 := by
    have h1 : ((n : ℕ) : ℤ) = (q * ((scaleN * scaleN : ℕ) : ℚ)).floor := Int.toNat_of_nonneg hfl
    have h2 : ((n : ℕ) : ℚ) = (((q * ((scaleN * scaleN : ℕ) : ℚ)).floor : ℤ) : ℚ) := by
      rw [← h1]; simp
    rw [h2, ← scaleN2_cast]
    exact Rat.floor_le _
  have hs : ((Nat.sqrt n : ℕ) : ℚ) ^ 2 ≤ (n : ℚ) := by
    exact_mod_cast Nat.sqrt_le' n
  rw [div_pow, div_le_iff₀ (by positivity)]
  exact hs.trans hnq

lemma le_sqrtHi_sq {q : ℚ} (hq : 0 < q) : q ≤ (sqrtHi q) ^ 2 := by
  unfold sqrtHi
  rw [if_neg (not_le.mpr hq)]
  simp only
  set n : ℕ := (q * ((scaleN * scaleN : ℕ) : ℚ)).ceil.toNat with hn
  have hS := scaleN_pos
  have hnq : q * (scaleN : ℚ) ^ 2 ≤ (n : ℚ) := by
    have h1 : (q * ((scaleN * scaleN : ℕ) : ℚ)).ceil ≤ ((n : ℕ) : ℤ) := Int.self_le_toNat _
    have h2 : (((q * ((scaleN * scaleN : ℕ) : ℚ)).ceil : ℤ) : ℚ) ≤ ((n : ℕ) : ℚ) := by
      exact_mod_cast h1
    rw [← scaleN2_cast]
    exact Rat.le_ceil.trans h2
  have hs : (n : ℚ) ≤ ((Nat.sqrt n + 1 : ℕ) : ℚ) ^ 2 := by
    exact_mod_cast (Nat.lt_succ_sqrt' n).le
  rw [div_pow, le_div_iff₀ (by positivity)]
  exact hnq.trans hs

lemma sqrtLo_le_sqrt (q : ℚ) : ((sqrtLo q : ℚ) : ℝ) ≤ Real.sqrt (q : ℝ) := by
  rcases le_or_gt q 0 with hq | hq
  · have : sqrtLo q = 0 := by unfold sqrtLo; rw [if_pos hq]
    rw [this]; simp
  · apply Real.le_sqrt_of_sq_le
    exact_mod_cast sqrtLo_sq_le hq

lemma sqrt_le_sqrtHi (q : ℚ) : Real.sqrt (q : ℝ) ≤ ((sqrtHi q : ℚ) : ℝ) := by
  rcases le_or_gt q 0 with hq | hq
  · have : sqrtHi q = 0 := by unfold sqrtHi; rw [if_pos hq]
    rw [this, Real.sqrt_eq_zero_of_nonpos (by exact_mod_cast hq)]; simp
  · rw [Real.sqrt_le_left (by exact_mod_cast sqrtHi_nonneg q)]
    exact_mod_cast le_sqrtHi_sq hq

/-- Without any sign hypothesis: `Real.sqrt` of a point of `a` lies in `sqrt a`
(recall `Real.sqrt x = 0` for `x ≤ 0`, and `sqrtLo`/`sqrtHi` return `0` on nonpositive input). -/
theorem sqrt_sound' (a : I) (x : ℝ) (h : Mem x a) : Mem (Real.sqrt x) (sqrt a) :=
  ⟨(sqrtLo_le_sqrt a.lo).trans (Real.sqrt_le_sqrt h.1),
   (Real.sqrt_le_sqrt h.2).trans (sqrt_le_sqrtHi a.hi)⟩

/-- The square-root enclosure is sound: if `x ∈ a` and `a` is nonnegative then `√x ∈ sqrt a`. -/
theorem sqrt_sound (a : I) (x : ℝ) (h : Mem x a) (_h0 : 0 ≤ a.lo) : Mem (Real.sqrt x) (sqrt a) :=
  sqrt_sound' a x h

example : Mem (Real.sqrt 2) (sqrt (ofRat 2)) := by
  have := sqrt_sound (ofRat 2) 2 (by simpa using ofRat_sound 2) (by norm_num [ofRat])
  exact this

/-- The lower endpoint of `sqrt a` is positive as soon as `a.lo ≥ 1`. -/
lemma sqrtLo_pos {q : ℚ} (hq : 1 ≤ q) : 0 < sqrtLo q := by
  unfold sqrtLo
  rw [if_neg (not_le.mpr (lt_of_lt_of_le one_pos hq))]
  simp only
  apply div_pos _ scaleN_pos
  have h1 : (1 : ℤ) ≤ (q * ((scaleN * scaleN : ℕ) : ℚ)).floor := by
    rw [Rat.le_floor_iff]
    have hS : (1 : ℚ) ≤ ((scaleN * scaleN : ℕ) : ℚ) := by
      rw [scaleN2_cast]; nlinarith [scaleN_ge_one]
    have : (1 : ℚ) ≤ q * ((scaleN * scaleN : ℕ) : ℚ) := by nlinarith
    simpa using this
  have h2 : 1 ≤ (q * ((scaleN * scaleN : ℕ) : ℚ)).floor.toNat := by omega
  have h3 : 0 < Nat.sqrt (q * ((scaleN * scaleN : ℕ) : ℚ)).floor.toNat := Nat.sqrt_pos.mpr h2
  exact_mod_cast h3

end IvSqrt

section IvIlog2

/-! ### binary exponent -/

lemma pow2_eq (e : ℤ) : pow2 e = (2 : ℚ) ^ e := by
  unfold pow2
  split_ifs with h
  · obtain ⟨n, rfl⟩ := Int.eq_ofNat_of_zero_le h
    simp
  · rw [ge_iff_le, not_le] at h
    obtain ⟨n, hn⟩ := Int.eq_ofNat_of_zero_le (by omega : 0 ≤ -e)
    have he : e = -(n : ℤ) := by omega
    subst he
    simp

/-- The first guess `a = log2 num - log2 den` satisfies `2^(a-1) < q < 2^(a+1)`. -/
lemma ilog2_approx (q : ℚ) (hq : 0 < q) :
    (2 : ℚ) ^ ((Nat.log2 q.num.toNat : ℤ) - (Nat.log2 q.den : ℤ) - 1) < q ∧
      q < (2 : ℚ) ^ ((Nat.log2 q.num.toNat : ℤ) - (Nat.log2 q.den : ℤ) + 1) := by
  have hnum : 0 < q.num := Rat.num_pos.mpr hq
  have hden : 0 < q.den := q.den_pos
  have hqe : q = (q.num.toNat : ℚ) / (q.den : ℚ) := by
    have : ((q.num.toNat : ℤ) : ℚ) = (q.num : ℚ) := by rw [Int.toNat_of_nonneg hnum.le]
    rw [← Int.cast_natCast, this]
    exact (Rat.num_div_den q).symm
  have hn0 : q.num.toNat ≠ 0 := by omega
  generalize q.num.toNat = n at hqe hn0
  generalize q.den = d at hqe hden
  have hd0 : d ≠ 0 := by omega
  have h1 : ((2 ^ n.log2 : ℕ) : ℚ) ≤ (n : ℚ) := by exact_mod_cast Nat.log2_self_le hn0
  have h2 : (n : ℚ) < ((2 ^ (n.log2 + 1) : ℕ) : ℚ) := by exact_mod_cast Nat.lt_log2_self (n := n)
  have h3 : ((2 ^ d.log2 : ℕ) : ℚ) ≤ (d : ℚ) := by exact_mod_cast Nat.log2_self_le hd0
  have h4 : (d : ℚ) < ((2 ^ (d.log2 + 1) : ℕ) : ℚ) := by exact_mod_cast Nat.lt_log2_self (n := d)
  push_cast at h1 h2 h3 h4
  have hnq : (0 : ℚ) < n := by exact_mod_cast Nat.pos_of_ne_zero hn0
  have hdq : (0 : ℚ) < d := by exact_mod_cast hden
  have hp1 : (0 : ℚ) < 2 ^ n.log2 := by positivity
  have hp2 : (0 : ℚ) < 2 ^ d.log2 := by positivity
  have hp3 : (0 : ℚ) < 2 ^ (d.log2 + 1) := by positivity
  constructor
  · rw [show (n.log2 : ℤ) - (d.log2 : ℤ) - 1 = (n.log2 : ℤ) - ((d.log2 + 1 : ℕ) : ℤ) by push_cast; ring,
      zpow_sub₀ two_ne_zero, zpow_natCast, zpow_natCast, hqe, div_lt_div_iff₀ hp3 hdq]
    calc (2 : ℚ) ^ n.log2 * d ≤ n * d := mul_le_mul_of_nonneg_right h1 hdq.le
      _ < n * 2 ^ (d.log2 + 1) := mul_lt_mul_of_pos_left h4 hnq
  · rw [show (n.log2 : ℤ) - (d.log2 : ℤ) + 1 = ((n.log2 + 1 : ℕ) : ℤ) - (d.log2 : ℤ) by push_cast; ring,
      zpow_sub₀ two_ne_zero, zpow_natCast, zpow_natCast, hqe, div_lt_div_iff₀ hdq hp2]
    calc (n : ℚ) * 2 ^ d.log2 < 2 ^ (n.log2 + 1) * 2 ^ d.log2 := mul_lt_mul_of_pos_right h2 hp2
      _ ≤ 2 ^ (n.log2 + 1) * d := mul_le_mul_of_nonneg_left h3 (by positivity)

/-- For positive `q`, `ilog2 q` is the binary exponent: `2^e ≤ q < 2^(e+1)`. -/
theorem ilog2_spec (q : ℚ) (hq : 0 < q) : pow2 (ilog2 q) ≤ q ∧ q < pow2 (ilog2 q + 1) := by
  obtain ⟨hlo, hhi⟩ := ilog2_approx q hq
  unfold ilog2
  simp only [pow2_eq]
  generalize ((Nat.log2 q.num.toNat : ℤ) - (Nat.log2 q.den : ℤ)) = a at hlo hhi ⊢
  have h12 : (2 : ℚ) ^ (a + 1) ≤ (2 : ℚ) ^ (a + 1 + 1) :=
    zpow_le_zpow_right₀ (by norm_num) (by omega)
  split_ifs with h1 h2
  · exact ⟨h1, hhi.trans_le h12⟩
  · exact ⟨h2, hhi⟩
  · rw [sub_add_cancel]
    exact ⟨hlo.le, not_le.mp h2⟩

example : pow2 (ilog2 (10 / 3)) ≤ 10 / 3 ∧ (10 / 3 : ℚ) < pow2 (ilog2 (10 / 3) + 1) :=
  ilog2_spec _ (by norm_num)

end IvIlog2

section IvLog

/-! ## S3: logarithm enclosures (fixed-point kernel) -/

/-! ### the `2·atanh` series -/

/-- The fold inside `atanh2F`, run for `j` steps. -/
def atanhFoldF (z : FI) (j : ℕ) : FI × FI :=
  (List.range j).foldl (fun (acc : FI × FI) k =>
    let (s, pw) := acc
    (FI.add s (FI.divNat (FI.mulInt pw 2) (2 * k + 1)), FI.mul pw (FI.sq z))) ((⟨0, 0⟩ : FI), z)

lemma atanhFoldF_zero (z : FI) : atanhFoldF z 0 = ((⟨0, 0⟩ : FI), z) := rfl

lemma atanhFoldF_succ (z : FI) (j : ℕ) :
    atanhFoldF z (j + 1) =
      (FI.add (atanhFoldF z j).1 (FI.divNat (FI.mulInt (atanhFoldF z j).2 2) (2 * j + 1)),
        FI.mul (atanhFoldF z j).2 (FI.sq z)) := by
  unfold atanhFoldF
  rw [List.range_succ, List.foldl_append]
  rfl

/-- `atanh2F` is the 46-step fold, widened by the remainder bound computed from the last power. -/
lemma atanh2F_eq (z : FI) :
    atanh2F z =
      FI.widen (atanhFoldF z 46).1
        (-(Int.fdiv (-(FI.imax (-(atanhFoldF z 46).2.lo) (atanhFoldF z 46).2.hi * 9))
            (4 * ((2 * 45 + 3 : ℕ) : ℤ))) + 1) :=
  rfl

/-- Invariant of the fold: after `j` steps the first component encloses the `j`-term partial sum
and the second component encloses `x^(2j+1)`. -/
lemma atanhFoldF_sound {x : ℝ} {z : FI} (hx : Mem x z.toI) (j : ℕ) :
    Mem (∑ k ∈ Finset.range j, 2 * x ^ (2 * k + 1) / ((2 * k + 1 : ℕ) : ℝ)) (atanhFoldF z j).1.toI ∧
      Mem (x ^ (2 * j + 1)) (atanhFoldF z j).2.toI := by
  induction j with
  | zero =>
    rw [atanhFoldF_zero]
    refine ⟨?_, by simpa using hx⟩
    rw [FI.mem_toI]
    simp
  | succ j ih =>
    rw [atanhFoldF_succ]
    constructor
    · have h := FI.add_sound ih.1
        (FI.divNat_sound (FI.mulInt_sound ih.2 2) (n := 2 * j + 1) (by omega))
      convert h using 1
      rw [Finset.sum_range_succ]
      push_cast
      ring
    · have h := FI.mul_sound ih.2 (FI.sq_sound hx)
      convert h using 1
      ring

/-- Tail bound of the series `log(1+x) - log(1-x) = Σ 2 x^(2k+1)/(2k+1)`. -/
lemma atanh_series_bound (x : ℝ) (hx : |x| < 1) (n : ℕ) :
    |Real.log (1 + x) - Real.log (1 - x)
        - ∑ k ∈ Finset.range n, 2 * x ^ (2 * k + 1) / ((2 * k + 1 : ℕ) : ℝ)|
      ≤ 2 * |x| ^ (2 * n + 1) / (((2 * n + 1 : ℕ) : ℝ) * (1 - x * x)) := by
  have hx2 : x ^ 2 < 1 := by
    have : |x| ^ 2 < 1 := by nlinarith [abs_nonneg x]
    rwa [sq_abs] at this
  have hpos : 0 < 1 - x * x := by nlinarith
  have h := Real.hasSum_log_sub_log_of_abs_lt_one hx
  have h' := (hasSum_nat_add_iff' n).mpr h
  have hg : HasSum (fun k : ℕ => 2 / ((2 * n + 1 : ℕ) : ℝ) * |x| ^ (2 * n + 1) * (x ^ 2) ^ k)
      (2 / ((2 * n + 1 : ℕ) : ℝ) * |x| ^ (2 * n + 1) * (1 - x ^ 2)⁻¹) :=
    (hasSum_geometric_of_lt_one (sq_nonneg x) hx2).mul_left _
  have hb := h'.norm_le_of_bounded hg ?_
  · rw [Real.norm_eq_abs] at hb
    have e1 : (∑ i ∈ Finset.range n, 2 * (1 / (2 * (i : ℝ) + 1)) * x ^ (2 * i + 1))
        = ∑ k ∈ Finset.range n, 2 * x ^ (2 * k + 1) / ((2 * k + 1 : ℕ) : ℝ) := by
      apply Finset.sum_congr rfl
      intro k _
      push_cast
      ring
    rw [e1] at hb
    refine hb.trans (le_of_eq ?_)
    have : ((2 * n + 1 : ℕ) : ℝ) ≠ 0 := by positivity
    field_simp
  · intro k
    rw [Real.norm_eq_abs, abs_mul, abs_mul, abs_pow]
    have hk : (0 : ℝ) < 2 * ((k + n : ℕ) : ℝ) + 1 := by positivity
    have hn : (0 : ℝ) < ((2 * n + 1 : ℕ) : ℝ) := by positivity
    rw [abs_of_pos (by positivity : (0 : ℝ) < 2), abs_of_pos (by positivity : (0 : ℝ) < 1 / (2 * ((k + n : ℕ) : ℝ) + 1))]
    have e2 : |x| ^ (2 * (k + n) + 1) = |x| ^ (2 * n + 1) * (x ^ 2) ^ k := by
      rw [← sq_abs x, ← pow_mul, ← pow_add]
      congr 1
      ring
    rw [e2]
    have h1 : 1 / (2 * ((k + n : ℕ) : ℝ) + 1) ≤ 1 / ((2 * n + 1 : ℕ) : ℝ) := by
      apply one_div_le_one_div_of_le hn
      push_cast
      have : (0 : ℝ) ≤ k := Nat.cast_nonneg k
      linarith
    have h2 : 0 ≤ |x| ^ (2 * n + 1) * (x ^ 2) ^ k := by positivity
    calc 2 * (1 / (2 * ((k + n : ℕ) : ℝ) + 1)) * (|x| ^ (2 * n + 1) * (x ^ 2) ^ k)
        ≤ 2 * (1 / ((2 * n + 1 : ℕ) : ℝ)) * (|x| ^ (2 * n + 1) * (x ^ 2) ^ k) := by
          apply mul_le_mul_of_nonneg_right _ h2
          linarith
      _ = 2 / ((2 * n + 1 : ℕ) : ℝ) * |x| ^ (2 * n + 1) * (x ^ 2) ^ k := by ring

/-- For `|x| ≤ 1/3` the tail of the series after 46 terms is at most `(9/4)·|x|^93/93`. -/
lemma atanh_tail46 (x : ℝ) (h : |x| ≤ 1 / 3) :
    |Real.log (1 + x) - Real.log (1 - x)
        - ∑ k ∈ Finset.range 46, 2 * x ^ (2 * k + 1) / ((2 * k + 1 : ℕ) : ℝ)|
      ≤ |x| ^ 93 * 9 / (4 * 93) := by
  have hb := atanh_series_bound x (lt_of_le_of_lt h (by norm_num)) 46
  refine hb.trans ?_
  have hx2 : x * x ≤ 1 / 9 := by
    have : |x| * |x| ≤ 1 / 3 * (1 / 3) := mul_le_mul h h (abs_nonneg x) (by norm_num)
    rw [abs_mul_abs_self] at this
    linarith
  have hpos : (0 : ℝ) < 1 - x * x := by linarith
  have hp : 0 ≤ |x| ^ 93 := by positivity
  rw [div_le_div_iff₀ (by positivity) (by norm_num)]
  push_cast
  nlinarith

/-- The fixed-point kernel `atanh2F z` encloses `log((1+x)/(1-x))` for every real `x` in the
fixed-point interval `z`, provided `|x| ≤ 1/3`. -/
theorem atanh2F_sound {x : ℝ} {z : FI} (hx : Mem x z.toI) (h : |x| ≤ 1 / 3) :
    Mem (Real.log ((1 + x) / (1 - x))) (atanh2F z).toI := by
  have hlt := abs_le.mp h
  rw [Real.log_div (by linarith) (by linarith), atanh2F_eq]
  obtain ⟨hs, hp⟩ := atanhFoldF_sound hx 46
  refine FI.widen_sound hs ?_
  have hpa := FI.abs_le_imax hp
  rw [abs_pow, show 2 * 46 + 1 = 93 by norm_num] at hpa
  have htail := atanh_tail46 x h
  have hd : (4 * ((2 * 45 + 3 : ℕ) : ℤ)) = 372 := by norm_num
  rw [hd]
  generalize atanhFoldF z 46 = r at hs hp hpa ⊢
  generalize FI.imax (-r.2.lo) r.2.hi = pa at hpa ⊢
  have hup := FI.real_le_neg_fdiv_neg (pa * 9) (d := 372) (by norm_num)
  rw [Int.cast_add, Int.cast_one]
  have hS := FI.SR_pos
  have h1 : |x| ^ 93 * 9 / (4 * 93) * FI.SR ≤ ((pa * 9 : ℤ) : ℝ) / ((372 : ℤ) : ℝ) := by
    push_cast
    rw [div_mul_eq_mul_div, div_le_div_iff₀ (by norm_num) (by norm_num)]
    nlinarith
  have h2 := mul_le_mul_of_nonneg_right htail hS.le
  linarith

example : Mem (Real.log ((1 + (((-1 / 5 : ℚ)) : ℝ)) / (1 - (((-1 / 5 : ℚ)) : ℝ))))
    (atanh2F (FI.ofRat (-1 / 5))).toI :=
  atanh2F_sound (FI.ofRat_sound _) (by rw [abs_le]; push_cast; constructor <;> norm_num)

/-- `atanh2 z` encloses `log((1+z)/(1-z))` for every rational `z` with `|z| ≤ 1/3`. -/
theorem atanh2_sound (z : ℚ) (hz : |z| ≤ 1 / 3) :
    Mem (Real.log ((1 + (z : ℝ)) / (1 - (z : ℝ)))) (atanh2 z) := by
  have hzR : |(z : ℝ)| ≤ 1 / 3 := by
    have h : ((|z| : ℚ) : ℝ) ≤ ((1 / 3 : ℚ) : ℝ) := Rat.cast_le.mpr hz
    rw [Rat.cast_abs] at h
    push_cast at h
    exact h
  exact atanh2F_sound (FI.ofRat_sound z) hzR

example : Mem (Real.log ((1 + ((1 / 7 : ℚ) : ℝ)) / (1 - ((1 / 7 : ℚ) : ℝ)))) (atanh2 (1 / 7)) :=
  atanh2_sound _ (by rw [abs_le]; norm_num)

/-! #### the hypothesis `|z| ≤ 1/3` is needed

The remainder term of `atanh2F` hard-codes `1/(1-z²) ≤ 9/8`, which is false for `|z| > 1/3`; the
enclosure really fails from about `|z| ≈ 0.43` on.  Concretely `atanh2 (1/2)` misses `log 3`: its
upper end is below the 48-term partial sum of the (positive-term) series. -/

/-- rational partial sum of the `2·atanh` series, as a list fold (kernel-evaluable) -/
def atanhPartialL (z : ℚ) (n : ℕ) : ℚ :=
  (List.range n).foldl (fun s k => s + 2 * z ^ (2 * k + 1) / ((2 * k + 1 : ℕ) : ℚ)) 0

lemma atanhPartialL_eq (z : ℚ) (n : ℕ) :
    atanhPartialL z n = ∑ k ∈ Finset.range n, 2 * z ^ (2 * k + 1) / ((2 * k + 1 : ℕ) : ℚ) := by
  induction n with
  | zero => rfl
  | succ n ih =>
    rw [Finset.sum_range_succ, ← ih]
    unfold atanhPartialL
    rw [List.range_succ, List.foldl_append]
    rfl

/-- every partial sum of the series is a lower bound of `log(1+x) - log(1-x)` for `0 ≤ x < 1` -/
lemma atanh_partial_le (x : ℝ) (h0 : 0 ≤ x) (h1 : x < 1) (n : ℕ) :
    ∑ k ∈ Finset.range n, 2 * x ^ (2 * k + 1) / ((2 * k + 1 : ℕ) : ℝ)
      ≤ Real.log (1 + x) - Real.log (1 - x) := by
  have h := Real.hasSum_log_sub_log_of_abs_lt_one (x := x) (by rw [abs_lt]; constructor <;> linarith)
  have := sum_le_hasSum (Finset.range n) (fun i _ => by positivity) h
  refine le_trans (le_of_eq ?_) this
  apply Finset.sum_congr rfl
  intro k _
  push_cast
  ring

/-- exact rational comparison, evaluated by the kernel -/
lemma atanh2_half_hi_lt : (atanh2 (1 / 2)).hi < atanhPartialL (1 / 2) 48 := by
  decide +kernel

/-- The hypothesis `|z| ≤ 1/3` of `atanh2_sound` cannot be weakened to `|z| < 1`:
`atanh2 (1/2)` does not contain `log((1+1/2)/(1-1/2)) = log 3`. -/
lemma atanh2_unsound_half : ¬ Mem (Real.log 3) (atanh2 (1 / 2)) := by
  intro h
  have h2 : Real.log 3 ≤ (((atanh2 (1 / 2)).hi : ℚ) : ℝ) := h.2
  have h3 : (((atanh2 (1 / 2)).hi : ℚ) : ℝ) < ((atanhPartialL (1 / 2) 48 : ℚ) : ℝ) :=
    Rat.cast_lt.mpr atanh2_half_hi_lt
  rw [atanhPartialL_eq] at h3
  have h4 := atanh_partial_le (1 / 2) (by norm_num) (by norm_num) 48
  have e : Real.log (1 + 1 / 2) - Real.log (1 - 1 / 2) = Real.log 3 := by
    rw [← Real.log_div (by norm_num) (by norm_num)]
    norm_num
  rw [e] at h4
  push_cast at h3
  linarith

/-- The constant interval `ln2` encloses `log 2`. -/
theorem ln2_sound : Mem (Real.log 2) ln2 := by
  have h := atanh2_sound (1 / 3) (by rw [abs_le]; norm_num)
  have e : (1 + (((1 / 3 : ℚ)) : ℝ)) / (1 - (((1 / 3 : ℚ)) : ℝ)) = 2 := by
    push_cast; norm_num
  rw [e] at h
  exact h

example : ((ln2.lo : ℚ) : ℝ) ≤ Real.log 2 ∧ Real.log 2 ≤ ((ln2.hi : ℚ) : ℝ) := ln2_sound

/-! ### `logQ` -/

/-- Body of `logQ` after range reduction to mantissa `m` and exponent `e`. -/
def logCore (m : ℚ) (e : ℤ) : I :=
  add (atanh2 ((m - 1) / (m + 1))) (scale (e : Rat) ln2)

lemma logQ_eq (q : ℚ) (hq : 0 < q) :
    logQ q =
      if q / pow2 (ilog2 q) > 4 / 3 then logCore (q / pow2 (ilog2 q) / 2) (ilog2 q + 1)
      else logCore (q / pow2 (ilog2 q)) (ilog2 q) := by
  unfold logQ
  rw [if_neg (not_le.mpr hq)]
  split_ifs with h
  · simp only [h, if_true]; rfl
  · simp only [h, if_false]; rfl

lemma logCore_sound (m : ℚ) (e : ℤ) (h1 : 1 / 2 ≤ m) (h2 : m ≤ 2) :
    Mem (Real.log (m : ℝ) + (e : ℝ) * Real.log 2) (logCore m e) := by
  unfold logCore
  have hm1 : 0 < m + 1 := by linarith
  have hzl : -(1 / 3) ≤ (m - 1) / (m + 1) := by rw [le_div_iff₀ hm1]; linarith
  have hzh : (m - 1) / (m + 1) ≤ 1 / 3 := by rw [div_le_iff₀ hm1]; linarith
  have hmz : (m : ℝ) = (1 + (((m - 1) / (m + 1) : ℚ) : ℝ)) / (1 - (((m - 1) / (m + 1) : ℚ) : ℝ)) := by
    have : (0 : ℝ) < (m : ℝ) + 1 := by exact_mod_cast hm1
    push_cast
    field_simp
    ring
  generalize (m - 1) / (m + 1) = z at hzl hzh hmz ⊢
  apply add_sound
  · rw [hmz]
    exact atanh2_sound z (abs_le.mpr ⟨hzl, hzh⟩)
  · have := scale_sound (e : ℚ) ln2_sound
    push_cast at this
    exact this

/-- `logQ q` encloses `log q` for every positive rational `q`. -/
theorem logQ_sound (q : ℚ) (hq : 0 < q) : Mem (Real.log (q : ℝ)) (logQ q) := by
  obtain ⟨h1, h2⟩ := ilog2_spec q hq
  rw [logQ_eq q hq]
  rw [pow2_eq] at h1 h2
  simp only [pow2_eq]
  generalize ilog2 q = e0 at h1 h2 ⊢
  have hp : (0 : ℚ) < 2 ^ e0 := by positivity
  rw [zpow_add_one₀ two_ne_zero] at h2
  have hm1 : 1 ≤ q / 2 ^ e0 := by rw [le_div_iff₀ hp]; linarith
  have hm2 : q / 2 ^ e0 < 2 := by rw [div_lt_iff₀ hp]; linarith
  have hpR : (0 : ℝ) < (2 : ℝ) ^ e0 := by positivity
  have hqR : (0 : ℝ) < (q : ℝ) := by exact_mod_cast hq
  split_ifs with h
  · have := logCore_sound (q / 2 ^ e0 / 2) (e0 + 1) (by linarith) (by linarith)
    convert this using 1
    push_cast
    rw [Real.log_div (by positivity) (by norm_num), Real.log_div hqR.ne' hpR.ne', Real.log_zpow]
    ring
  · have := logCore_sound (q / 2 ^ e0) e0 (by linarith) (by linarith)
    convert this using 1
    push_cast
    rw [Real.log_div hqR.ne' hpR.ne', Real.log_zpow]
    ring

example : Mem (Real.log ((10 : ℚ) : ℝ)) (logQ 10) := logQ_sound _ (by norm_num)

/-- `log a` encloses `log x` for every `x` in an interval `a` with positive lower end. -/
theorem log_sound (a : I) (x : ℝ) (h : Mem x a) (h0 : 0 < a.lo) : Mem (Real.log x) (log a) := by
  have hl : (0 : ℝ) < (a.lo : ℝ) := by exact_mod_cast h0
  have hx : 0 < x := hl.trans_le h.1
  have hh : (0 : ℝ) < (a.hi : ℝ) := hx.trans_le h.2
  have hq : 0 < a.hi := by exact_mod_cast hh
  exact ⟨(logQ_sound _ h0).1.trans (Real.log_le_log hl h.1),
    (Real.log_le_log hx h.2).trans (logQ_sound _ hq).2⟩

example : Mem (Real.log (5 / 2)) (log ⟨2, 3⟩) :=
  log_sound ⟨2, 3⟩ (5 / 2) ⟨by show ((2 : ℚ) : ℝ) ≤ 5 / 2; norm_num, by show (5 / 2 : ℝ) ≤ ((3 : ℚ) : ℝ); norm_num⟩
    (by show (0 : ℚ) < 2; norm_num)

end IvLog

section IvExp

open Finset

/-! ## the `exp` enclosure on the fixed-point kernel -/

/-! ### argument reduction -/

/-- After `expHalvings q` halvings the argument has absolute value at most `1`
(in fact below `1/64`, but `1` is all the remainder bound needs). -/
lemma expHalvings_spec (q : ℚ) : |q| ≤ (2 : ℚ) ^ (expHalvings q) := by
  unfold expHalvings
  by_cases h : q = 0
  · simp [h]
  · have hb : (q == 0) = false := by simpa using h
    rw [hb]
    simp only [Bool.false_eq_true, if_false]
    have hpos : 0 < ratAbs q := by rw [ratAbs_eq]; exact abs_pos.mpr h
    obtain ⟨-, h2⟩ := ilog2_spec _ hpos
    rw [pow2_eq] at h2
    rw [ratAbs_eq] at h2 ⊢
    generalize ilog2 |q| = e at h2 ⊢
    have h3 : (2 : ℚ) ^ (e + 1) ≤ (2 : ℚ) ^ (((e + 7).toNat : ℕ) : ℤ) :=
      zpow_le_zpow_right₀ (by norm_num) (by omega)
    rw [zpow_natCast] at h3
    exact h2.le.trans h3

/-- The sharper bound promised by the model's doc comment: the reduced argument is below `1/64`
in absolute value (not needed for soundness). -/
lemma expHalvings_spec64 (q : ℚ) : |q| / (2 : ℚ) ^ (expHalvings q) < 1 / 64 := by
  have hpos : (0 : ℚ) < (2 : ℚ) ^ (expHalvings q) := by positivity
  rw [div_lt_iff₀ hpos]
  unfold expHalvings
  by_cases h : q = 0
  · simp [h]
  · have hb : (q == 0) = false := by simpa using h
    rw [hb]
    simp only [Bool.false_eq_true, if_false]
    have hpos : 0 < ratAbs q := by rw [ratAbs_eq]; exact abs_pos.mpr h
    obtain ⟨-, h2⟩ := ilog2_spec _ hpos
    rw [pow2_eq] at h2
    rw [ratAbs_eq] at h2 ⊢
    generalize ilog2 |q| = e at h2 ⊢
    have h3 : (2 : ℚ) ^ (e + 7) ≤ (2 : ℚ) ^ (((e + 7).toNat : ℕ) : ℤ) :=
      zpow_le_zpow_right₀ (by norm_num) (by omega)
    rw [zpow_natCast] at h3
    have h4 : (2 : ℚ) ^ (e + 7) = (2 : ℚ) ^ (e + 1) * 64 := by
      rw [show e + 7 = (e + 1) + 6 by ring, zpow_add₀ two_ne_zero]; norm_num
    rw [h4] at h3
    linarith

/-! ### the Taylor remainder over ℝ -/

lemma exp_taylor_bound17 (x : ℝ) (hx : |x| ≤ 1) :
    |Real.exp x - ∑ m ∈ range 17, x ^ m / (m.factorial : ℝ)|
      ≤ 2 * |x| ^ 17 / ((17).factorial : ℝ) := by
  have h := Real.exp_bound hx (n := 17) (by norm_num)
  refine h.trans ?_
  have hF : (0 : ℝ) < ((17).factorial : ℝ) := by positivity
  generalize ((17).factorial : ℝ) = F at hF ⊢
  have h2 : ((Nat.succ 17 : ℕ) : ℝ) / (F * ((17 : ℕ) : ℝ)) ≤ 2 / F := by
    rw [div_le_div_iff₀ (by positivity) hF]
    push_cast
    nlinarith
  calc |x| ^ 17 * (((Nat.succ 17 : ℕ) : ℝ) / (F * ((17 : ℕ) : ℝ)))
      ≤ |x| ^ 17 * (2 / F) := mul_le_mul_of_nonneg_left h2 (by positivity)
    _ = 2 * |x| ^ 17 / F := by ring

/-! ### Horner evaluation of the Taylor polynomial -/

/-- real-valued mirror of `expHorner` -/
noncomputable def hornerR (x : ℝ) (n : ℕ) : ℕ → ℕ → ℝ
  | 0, _ => 1
  | f + 1, j => if j > n then 1 else 1 + x * hornerR x n f (j + 1) / (j : ℝ)

lemma expHorner_sound {x : ℝ} {r : FI} (hx : Mem x r.toI) (n : ℕ) :
    ∀ f j, 0 < j → Mem (hornerR x n f j) (expHorner r n f j).toI := by
  intro f
  induction f with
  | zero => intro j _; exact FI.one_sound
  | succ f ih =>
    intro j hj
    unfold hornerR expHorner
    split_ifs
    · exact FI.one_sound
    · exact FI.add_sound FI.one_sound
        (FI.divNat_sound (FI.mul_sound hx (ih (j + 1) (by omega))) hj)

lemma hornerR_eq (x : ℝ) :
    hornerR x 16 17 1 = ∑ m ∈ range 17, x ^ m / (m.factorial : ℝ) := by
  simp only [hornerR, Finset.sum_range_succ, Finset.sum_range_zero, Nat.factorial]
  norm_num
  ring

lemma expFact_eq : expFact = (17).factorial := by
  decide

/-! ### the remainder term -/

/-- `fpPow ra m` over-approximates `(ra/2^p)^m` on the grid (for `ra ≥ 0`). -/
lemma fpPow_ge {ra : ℤ} (h0 : 0 ≤ ra) (m : ℕ) :
    ((ra : ℝ) / FI.SR) ^ m ≤ ((fpPow ra m : ℤ) : ℝ) / FI.SR := by
  have hS := FI.SR_pos
  have hr : (0 : ℝ) ≤ (ra : ℝ) / FI.SR := div_nonneg (by exact_mod_cast h0) hS.le
  induction m with
  | zero =>
    unfold fpPow
    rw [FI.SR_int, div_self hS.ne']
    simp
  | succ m ih =>
    unfold fpPow
    have h1 := FI.le_cdivP (fpPow ra m * ra)
    push_cast at h1
    calc ((ra : ℝ) / FI.SR) ^ (m + 1) = ((ra : ℝ) / FI.SR) ^ m * ((ra : ℝ) / FI.SR) := pow_succ _ _
      _ ≤ ((fpPow ra m : ℤ) : ℝ) / FI.SR * ((ra : ℝ) / FI.SR) :=
          mul_le_mul_of_nonneg_right ih hr
      _ = ((fpPow ra m : ℤ) : ℝ) * (ra : ℝ) / FI.SR / FI.SR := by ring
      _ ≤ _ := div_le_div_of_nonneg_right h1 hS.le

/-- the integer remainder term of `expSmallF` -/
def expRemF (r : FI) : ℤ :=
  -(Int.fdiv (-(2 * fpPow (FI.imax (-r.lo) r.hi) (expTerms + 1))) (expFact : ℤ)) + 1

lemma expSmallF_eq (r : FI) :
    expSmallF r = ⟨FI.imax ((expHorner r expTerms (expTerms + 1) 1).lo - expRemF r) 0,
      (expHorner r expTerms (expTerms + 1) 1).hi + expRemF r⟩ := rfl

/-- The remainder term dominates `2|x|^17/17!` on the grid. -/
lemma expRemF_ge {x : ℝ} {r : FI} (hx : Mem x r.toI) :
    2 * |x| ^ 17 / ((17).factorial : ℝ) * FI.SR ≤ ((expRemF r : ℤ) : ℝ) := by
  have hS := FI.SR_pos
  have hra := FI.abs_le_imax hx
  have hra0 : 0 ≤ FI.imax (-r.lo) r.hi := by
    have h : (0 : ℝ) ≤ |x| * FI.SR := mul_nonneg (abs_nonneg x) hS.le
    exact_mod_cast h.trans hra
  have hpow := fpPow_ge hra0 17
  unfold expRemF
  have hT : expTerms + 1 = 17 := rfl
  rw [hT, expFact_eq]
  generalize FI.imax (-r.lo) r.hi = ra at hra hra0 hpow
  have hFI : (0 : ℤ) < ((17).factorial : ℤ) := by exact_mod_cast Nat.factorial_pos 17
  have hF : (0 : ℝ) < ((17).factorial : ℝ) := by positivity
  have h1 := FI.real_le_neg_fdiv_neg (2 * fpPow ra 17) hFI
  have hx' : |x| ≤ (ra : ℝ) / FI.SR := by rw [le_div_iff₀ hS]; exact hra
  have h2 : |x| ^ 17 ≤ ((ra : ℝ) / FI.SR) ^ 17 := pow_le_pow_left₀ (abs_nonneg x) hx' 17
  have h3 : |x| ^ 17 * FI.SR ≤ ((fpPow ra 17 : ℤ) : ℝ) := by
    have := h2.trans hpow
    rwa [le_div_iff₀ hS] at this
  have hcast : (((17).factorial : ℤ) : ℝ) = ((17).factorial : ℝ) := by push_cast; rfl
  rw [hcast] at h1
  rw [Int.cast_add, Int.cast_one]
  generalize ((-(Int.fdiv (-(2 * fpPow ra 17)) ((17).factorial : ℤ)) : ℤ) : ℝ) = c at h1
  generalize ((17).factorial : ℝ) = F at hF h1
  push_cast at h1
  have e : 2 * |x| ^ 17 / F * FI.SR = 2 * (|x| ^ 17 * FI.SR) / F := by ring
  rw [e]
  have : 2 * (|x| ^ 17 * FI.SR) / F ≤ 2 * ((fpPow ra 17 : ℤ) : ℝ) / F :=
    div_le_div_of_nonneg_right (by linarith) hF.le
  linarith

/-- fixed-point enclosure of `exp x` for small `x` -/
lemma expSmallF_sound {x : ℝ} {r : FI} (hx : Mem x r.toI) (h1 : |x| ≤ 1) :
    Mem (Real.exp x) (expSmallF r).toI := by
  have hS := FI.SR_pos
  have hp := expHorner_sound hx expTerms (expTerms + 1) 1 one_pos
  have hp' : hornerR x expTerms (expTerms + 1) 1 = hornerR x 16 17 1 := rfl
  rw [hp', hornerR_eq] at hp
  have hrem := expRemF_ge hx
  have hb := abs_le.mp (exp_taylor_bound17 x h1)
  rw [expSmallF_eq]
  generalize expHorner r expTerms (expTerms + 1) 1 = p at hp
  generalize expRemF r = rem at hrem
  generalize (∑ m ∈ range 17, x ^ m / (m.factorial : ℝ)) = T at hp hb
  generalize 2 * |x| ^ 17 / ((17).factorial : ℝ) = R at hrem hb
  rw [FI.mem_toI] at hp ⊢
  simp only [FI.imax_eq]
  push_cast
  have e1 : 0 ≤ Real.exp x * FI.SR := mul_nonneg (Real.exp_pos x).le hS.le
  constructor
  · refine max_le ?_ e1
    nlinarith [hp.1, hb.1]
  · nlinarith [hp.2, hb.2]

lemma expSmallF_lo_nonneg (r : FI) : 0 ≤ (expSmallF r).lo := by
  rw [expSmallF_eq]
  simp only [FI.imax_eq]
  exact le_max_right _ _

/-! ### repeated squaring -/

lemma sqFoldF_sound (n : ℕ) {y : ℝ} {a : FI} (h : Mem y a.toI) :
    Mem (y ^ (2 ^ n)) ((List.range n).foldl (fun acc _ => FI.sq acc) a).toI := by
  induction n with
  | zero => simpa using h
  | succ n ih =>
    rw [List.range_succ, List.foldl_append]
    simp only [List.foldl_cons, List.foldl_nil]
    rw [pow_succ, pow_mul]
    exact FI.sq_sound ih

lemma sqFoldF_lo_nonneg (n : ℕ) {a : FI} (h : 0 ≤ a.lo) :
    0 ≤ ((List.range n).foldl (fun acc _ => FI.sq acc) a).lo := by
  induction n with
  | zero => simpa using h
  | succ n ih =>
    rw [List.range_succ, List.foldl_append]
    simp only [List.foldl_cons, List.foldl_nil]
    exact FI.sq_lo_nonneg ih

lemma expF_eq (q : ℚ) :
    expF q = (List.range (expHalvings q)).foldl (fun acc _ => FI.sq acc)
      (expSmallF (FI.ofRat (q / ((2 ^ expHalvings q : ℕ) : ℚ)))) := rfl

/-- For every rational `q`, the real number `exp q` lies between the two fixed-point endpoints
`(expF q).lo / 2^128` and `(expF q).hi / 2^128`.  No size restriction on `q`. -/
theorem expF_sound (q : ℚ) : Mem (Real.exp (q : ℝ)) (expF q).toI := by
  rw [expF_eq]
  set k := expHalvings q with hk
  have hk2 : |q| ≤ (2 : ℚ) ^ k := expHalvings_spec q
  have hpos : (0 : ℚ) < (2 : ℚ) ^ k := by positivity
  have hcast : ((2 ^ k : ℕ) : ℚ) = (2 : ℚ) ^ k := by push_cast; rfl
  rw [hcast]
  have hr1 : |q / (2 : ℚ) ^ k| ≤ 1 := by
    rw [abs_div, abs_of_pos hpos, div_le_one hpos]; exact hk2
  have hr1R : |((q / (2 : ℚ) ^ k : ℚ) : ℝ)| ≤ 1 := by exact_mod_cast hr1
  have h := sqFoldF_sound k (expSmallF_sound (FI.ofRat_sound (q / (2 : ℚ) ^ k)) hr1R)
  rw [← Real.exp_nat_mul] at h
  convert h using 2
  push_cast
  field_simp

example : Mem (Real.exp ((-(7 / 3) : ℚ) : ℝ)) (expF (-(7 / 3))).toI := expF_sound _

/-- The lower endpoint of `expF q` is never negative. -/
lemma expF_lo_nonneg (q : ℚ) : 0 ≤ (expF q).lo := by
  rw [expF_eq]
  exact sqFoldF_lo_nonneg _ (expSmallF_lo_nonneg _)

/-- For every rational `q`, the real number `exp q` lies in the rational interval `expQ q`
(no hypothesis on `q`).  For `|q| ≤ 1` this is the fixed-point enclosure `expF q`; otherwise
`exp q = 2^e · exp (q − e·ln 2)` with the integer `e` chosen by the code (any integer is sound),
`q − e·ln 2` enclosed via `ln2`, and `exp` monotone. -/
theorem expQ_sound (q : ℚ) : Mem (Real.exp (q : ℝ)) (expQ q) := by
  unfold expQ
  split_ifs with h h2
  · exact expF_sound q
  · -- q < -800: exp q < e^-800 < 2^-1100
    have hq : (q : ℝ) < -800 := by exact_mod_cast h2
    constructor
    · show ((0 : ℚ) : ℝ) ≤ _
      simpa using (Real.exp_pos _).le
    · show _ ≤ ((pow2 (-1100) : ℚ) : ℝ)
      have hpe : ((pow2 (-1100) : ℚ) : ℝ) = Real.exp (((-1100 : ℤ) : ℝ) * Real.log 2) := by
        rw [pow2_eq, mul_comm, Real.exp_mul, Real.exp_log two_pos, Real.rpow_intCast]
        push_cast; rfl
      rw [hpe]
      apply Real.exp_le_exp.mpr
      have := Real.log_two_lt_d9
      push_cast
      nlinarith
  · simp only
    generalize (q * (14427 / 10000)).floor = e
    have hr : Mem ((q : ℝ) - ((e : ℚ) : ℝ) * Real.log 2) (sub (ofRat q) (scale (e : ℚ) ln2)) :=
      sub_sound (ofRat_sound q) (scale_sound _ ln2_sound)
    generalize sub (ofRat q) (scale (e : ℚ) ln2) = r at hr
    rw [Rat.cast_intCast] at hr
    have hp : (0 : ℝ) < ((pow2 e : ℚ) : ℝ) := by rw [pow2_eq]; push_cast; positivity
    have hpe : ((pow2 e : ℚ) : ℝ) = Real.exp ((e : ℝ) * Real.log 2) := by
      rw [pow2_eq, mul_comm, Real.exp_mul, Real.exp_log two_pos, Real.rpow_intCast]
      push_cast; rfl
    have hq : Real.exp (q : ℝ) = Real.exp ((q : ℝ) - e * Real.log 2) * ((pow2 e : ℚ) : ℝ) := by
      rw [hpe, ← Real.exp_add]; congr 1; ring
    rw [hq]
    constructor
    · show (((expF r.lo).toI.lo * pow2 e : ℚ) : ℝ) ≤ _
      rw [Rat.cast_mul]
      apply mul_le_mul_of_nonneg_right _ hp.le
      exact (expF_sound r.lo).1.trans (Real.exp_le_exp.mpr hr.1)
    · show _ ≤ (((expF r.hi).toI.hi * pow2 e : ℚ) : ℝ)
      rw [Rat.cast_mul]
      apply mul_le_mul_of_nonneg_right _ hp.le
      exact (Real.exp_le_exp.mpr hr.2).trans (expF_sound r.hi).2

example : Mem (Real.exp ((-1000 : ℚ) : ℝ)) (expQ (-1000)) := expQ_sound _
example : Mem (Real.exp ((2 ^ 70 : ℚ) : ℝ)) (expQ (2 ^ 70)) := expQ_sound _
example : Mem (Real.exp ((3 / 2 : ℚ) : ℝ)) (expQ (3 / 2)) := expQ_sound _
example : Mem (Real.exp ((0 : ℚ) : ℝ)) (expQ 0) := expQ_sound _

lemma mem_of_le_of_le {x : ℝ} {l h : ℚ} (h1 : (l : ℝ) ≤ x) (h2 : x ≤ (h : ℝ)) :
    Mem x ⟨l, h⟩ := ⟨h1, h2⟩

/-- If the real number `x` lies in the interval `a`, then `exp x` lies in the interval
`exp a`.  No size restriction on the endpoints of `a`. -/
theorem exp_sound (a : I) (x : ℝ) (h : Mem x a) : Mem (Real.exp x) (exp a) := by
  unfold exp
  exact mem_of_le_of_le
    ((expQ_sound a.lo).1.trans (Real.exp_le_exp.mpr h.1))
    ((Real.exp_le_exp.mpr h.2).trans (expQ_sound a.hi).2)

example : Mem (Real.exp (-3)) (exp ⟨-(2 ^ 80), 7 / 3⟩) :=
  exp_sound ⟨-(2 ^ 80), 7 / 3⟩ (-3) ⟨by norm_num, by norm_num⟩

example : Mem (Real.exp 1) (exp ⟨-5 / 2, 7 / 3⟩) :=
  exp_sound ⟨-5 / 2, 7 / 3⟩ 1 ⟨by norm_num, by norm_num⟩

end IvExp

section IvPow

/-! ## real powers -/

/-- The power enclosure is sound: for `x ∈ a` with `a` positive and `y ∈ b`, the real power
`x ^ y = exp (y · log x)` lies in `pow a b`. -/
theorem pow_sound (a b : I) (x y : ℝ) (hx : Mem x a) (hy : Mem y b) (h0 : 0 < a.lo) :
    Mem (x ^ y) (pow a b) := by
  have hl : (0 : ℝ) < (a.lo : ℝ) := by exact_mod_cast h0
  have hxpos : 0 < x := hl.trans_le hx.1
  rw [Real.rpow_def_of_pos hxpos, mul_comm]
  exact exp_sound _ _ (mul_sound hy (log_sound a x hx h0))

example : Mem ((2 : ℝ) ^ (1 / 2 : ℝ)) (pow (ofRat 2) (ofRat (1 / 2))) := by
  have h2 : Mem (2 : ℝ) (ofRat 2) := by simpa using ofRat_sound 2
  have hh : Mem (1 / 2 : ℝ) (ofRat (1 / 2)) := by simpa using ofRat_sound (1 / 2)
  exact pow_sound _ _ _ _ h2 hh (by norm_num [ofRat])

end IvPow

section IvAtan

open Finset

/-! ## Real analysis: remainder of the arctan series, valid for all real `x` -/

/-- partial sum `Σ_{k<n} (-1)^k x^(2k+1)/(2k+1)` of the arctan series -/
noncomputable def atanS (n : ℕ) (x : ℝ) : ℝ :=
  ∑ k ∈ range n, (-1 : ℝ) ^ k * x ^ (2 * k + 1) / ((2 * k + 1 : ℕ) : ℝ)

lemma hasDerivAt_atanS (n : ℕ) (x : ℝ) :
    HasDerivAt (atanS n) (∑ k ∈ range n, (-(x ^ 2)) ^ k) x := by
  unfold atanS
  apply HasDerivAt.fun_sum
  intro k _
  have h := ((hasDerivAt_pow (2 * k + 1) x).const_mul ((-1 : ℝ) ^ k)).div_const
    (((2 * k + 1 : ℕ) : ℝ))
  refine h.congr_deriv ?_
  have hk : (((2 * k + 1 : ℕ) : ℝ)) ≠ 0 := by positivity
  rw [neg_pow (x ^ 2) k, ← pow_mul, Nat.add_sub_cancel]
  field_simp

lemma atanS_zero (n : ℕ) : atanS n 0 = 0 := by
  unfold atanS
  apply Finset.sum_eq_zero
  intro k _
  simp

lemma geom_neg_sq (n : ℕ) (x : ℝ) :
    1 / (1 + x ^ 2) - ∑ k ∈ range n, (-(x ^ 2)) ^ k = (-(x ^ 2)) ^ n / (1 + x ^ 2) := by
  have h1 : (-(x ^ 2)) ≠ 1 := by nlinarith [sq_nonneg x]
  have h2 : (1 + x ^ 2) ≠ 0 := by positivity
  have h3 : (-(x ^ 2) - 1) ≠ 0 := by nlinarith [sq_nonneg x]
  rw [geom_sum_eq h1]
  field_simp
  ring

/-- `|arctan x − Σ_{k<n} (-1)^k x^(2k+1)/(2k+1)| ≤ |x|^(2n+1)/(2n+1)` for all real `x`. -/
lemma abs_arctan_sub_atanS_le (n : ℕ) (x : ℝ) :
    |Real.arctan x - atanS n x| ≤ |x| ^ (2 * n + 1) / ((2 * n + 1 : ℕ) : ℝ) := by
  have hN : (0 : ℝ) < ((2 * n + 1 : ℕ) : ℝ) := by positivity
  -- g = arctan - S_n, h = x^(2n+1)/(2n+1)
  have hg : ∀ y : ℝ, HasDerivAt (fun y => Real.arctan y - atanS n y)
      ((-(y ^ 2)) ^ n / (1 + y ^ 2)) y := by
    intro y
    have := (Real.hasDerivAt_arctan y).sub (hasDerivAt_atanS n y)
    rw [geom_neg_sq] at this
    exact this
  have hh : ∀ y : ℝ, HasDerivAt (fun y => y ^ (2 * n + 1) / ((2 * n + 1 : ℕ) : ℝ))
      (y ^ (2 * n)) y := by
    intro y
    have := (hasDerivAt_pow (2 * n + 1) y).div_const (((2 * n + 1 : ℕ) : ℝ))
    refine this.congr_deriv ?_
    rw [Nat.add_sub_cancel]
    field_simp
  have hbound : ∀ y : ℝ, |(-(y ^ 2)) ^ n / (1 + y ^ 2)| ≤ y ^ (2 * n) := by
    intro y
    have h1 : (0 : ℝ) < 1 + y ^ 2 := by positivity
    rw [abs_div, abs_of_pos h1, abs_pow, abs_neg, abs_of_nonneg (sq_nonneg y), ← pow_mul,
      div_le_iff₀ h1]
    have : (0 : ℝ) ≤ y ^ (2 * n) := by rw [pow_mul]; positivity
    nlinarith [sq_nonneg y]
  -- h - g and h + g are monotone
  have m1 : Monotone (fun y => y ^ (2 * n + 1) / ((2 * n + 1 : ℕ) : ℝ) -
      (Real.arctan y - atanS n y)) := by
    apply monotone_of_deriv_nonneg
    · intro y; exact ((hh y).fun_sub (hg y)).differentiableAt
    · intro y
      rw [((hh y).fun_sub (hg y)).deriv]
      have := (abs_le.mp (hbound y)).2
      linarith
  have m2 : Monotone (fun y => y ^ (2 * n + 1) / ((2 * n + 1 : ℕ) : ℝ) +
      (Real.arctan y - atanS n y)) := by
    apply monotone_of_deriv_nonneg
    · intro y; exact ((hh y).fun_add (hg y)).differentiableAt
    · intro y
      rw [((hh y).fun_add (hg y)).deriv]
      have := (abs_le.mp (hbound y)).1
      linarith
  rcases le_total 0 x with hx | hx
  · have a1 := m1 hx
    have a2 := m2 hx
    simp only [atanS_zero, Real.arctan_zero] at a1 a2
    rw [abs_of_nonneg hx, abs_le]
    have h0 : (0 : ℝ) ^ (2 * n + 1) / ((2 * n + 1 : ℕ) : ℝ) = 0 := by simp
    rw [h0] at a1 a2
    constructor <;> linarith
  · have a1 := m1 hx
    have a2 := m2 hx
    simp only [atanS_zero, Real.arctan_zero] at a1 a2
    have h0 : (0 : ℝ) ^ (2 * n + 1) / ((2 * n + 1 : ℕ) : ℝ) = 0 := by simp
    rw [h0] at a1 a2
    have hodd : |x| ^ (2 * n + 1) = -(x ^ (2 * n + 1)) := by
      rw [abs_of_nonpos hx, Odd.neg_pow ⟨n, rfl⟩]
    rw [hodd, abs_le, neg_div]
    constructor <;> linarith

/-! ## The fold in `atanSmall` -/

/-- rational partial sum -/
def atanSQ (n : ℕ) (z : ℚ) : ℚ :=
  ∑ k ∈ range n, (-1 : ℚ) ^ k * z ^ (2 * k + 1) / ((2 * k + 1 : ℕ) : ℚ)

lemma atanFold (z : ℚ) (j : ℕ) :
    (List.range j).foldl (fun (x : ℚ × ℚ) k =>
      match x with
      | (s, pw) => (s + (if k % 2 == 0 then pw else -pw) / ((2 * k + 1 : ℕ) : ℚ), pw * (z * z)))
      ((0 : ℚ), z) = (atanSQ j z, z ^ (2 * j + 1)) := by
  induction j with
  | zero => simp [atanSQ]
  | succ j ih =>
    rw [List.range_succ, List.foldl_append, ih]
    simp only [List.foldl_cons, List.foldl_nil]
    refine Prod.ext ?_ ?_
    · simp only [atanSQ, Finset.sum_range_succ]
      congr 1
      rcases Nat.even_or_odd j with hj | hj
      · have : j % 2 = 0 := Nat.even_iff.mp hj
        simp [this, hj.neg_one_pow]
      · have : j % 2 = 1 := Nat.odd_iff.mp hj
        simp [this, hj.neg_one_pow]
    · simp only
      ring

lemma atanSmallN_eq (n : ℕ) (z : ℚ) :
    atanSmallN n z = mk' (atanSQ (n + 1) z - |z| ^ (2 * n + 3) / ((2 * n + 3 : ℕ) : ℚ))
      (atanSQ (n + 1) z + |z| ^ (2 * n + 3) / ((2 * n + 3 : ℕ) : ℚ)) := by
  unfold atanSmallN
  simp only
  rw [atanFold z (n + 1)]
  simp only [ratAbs_eq, abs_pow]
  have : 2 * (n + 1) + 1 = 2 * n + 3 := by ring
  rw [this]

lemma atanSQ_cast (n : ℕ) (z : ℚ) : ((atanSQ n z : ℚ) : ℝ) = atanS n (z : ℝ) := by
  unfold atanSQ atanS
  push_cast
  rfl

/-- For every number of terms and every rational `z`, the interval `atanSmallN n z` contains the
real number `arctan z` (the remainder bound holds for all `z`). -/
theorem atanSmallN_sound (n : ℕ) (z : ℚ) : Mem (Real.arctan (z : ℝ)) (atanSmallN n z) := by
  rw [atanSmallN_eq]
  have h := abs_arctan_sub_atanS_le (n + 1) (z : ℝ)
  rw [abs_le] at h
  have e : 2 * (n + 1) + 1 = 2 * n + 3 := by ring
  rw [e] at h
  apply mem_mk'
  · push_cast [atanSQ_cast] at h ⊢
    linarith [h.1]
  · push_cast [atanSQ_cast] at h ⊢
    linarith [h.2]

/-- For every rational `z`, the interval `atanSmall z` contains the real number `arctan z`
(no smallness assumption on `z` is needed: the remainder bound holds for all `z`). -/
theorem atanSmall_sound' (z : ℚ) : Mem (Real.arctan (z : ℝ)) (atanSmall z) :=
  atanSmallN_sound 200 z

example : Mem (Real.arctan ((3 : ℚ) : ℝ)) (atanSmall 3) := atanSmall_sound' 3

/-- For every rational `z` with `|z| ≤ 1/2`, the interval `atanSmall z` contains the real
number `arctan z`. -/
theorem atanSmall_sound (z : ℚ) (_hz : |z| ≤ 1 / 2) : Mem (Real.arctan (z : ℝ)) (atanSmall z) :=
  atanSmall_sound' z

example : Mem (Real.arctan ((-1 / 3 : ℚ) : ℝ)) (atanSmall (-1 / 3)) :=
  atanSmall_sound (-1 / 3) (by rw [abs_le]; constructor <;> norm_num)

/-- The interval `pi` contains the real number `π`. -/
theorem pi_sound : Mem Real.pi pi := by
  have h : Real.pi = ((16 : ℚ) : ℝ) * Real.arctan ((1 / 5 : ℚ) : ℝ)
      - ((4 : ℚ) : ℝ) * Real.arctan ((1 / 239 : ℚ) : ℝ) := by
    have := Real.four_mul_arctan_inv_5_sub_arctan_inv_239
    push_cast
    rw [one_div, one_div]
    linarith
  rw [h]
  exact sub_sound (scale_sound 16 (atanSmall_sound' _)) (scale_sound 4 (atanSmall_sound' _))

example : ((pi.lo : ℚ) : ℝ) ≤ Real.pi ∧ Real.pi ≤ ((pi.hi : ℚ) : ℝ) := pi_sound

/-! ## Argument halving -/

/-- `ρ x = x / (1 + √(1 + x²))`, so that `arctan x = 2 arctan (ρ x)` -/
noncomputable def rho (x : ℝ) : ℝ := x / (1 + Real.sqrt (1 + x ^ 2))

lemma arctan_eq_two_mul_arctan_rho (x : ℝ) : Real.arctan x = 2 * Real.arctan (rho x) := by
  unfold rho
  have hpos : (0 : ℝ) < 1 + x ^ 2 := by positivity
  have hs2 : Real.sqrt (1 + x ^ 2) ^ 2 = 1 + x ^ 2 := Real.sq_sqrt hpos.le
  have hs0 : 0 ≤ Real.sqrt (1 + x ^ 2) := Real.sqrt_nonneg _
  generalize Real.sqrt (1 + x ^ 2) = s at hs2 hs0
  have hsx : |x| < s := by
    apply abs_lt_of_sq_lt_sq _ hs0
    rw [hs2]; linarith
  have hd : 0 < 1 + s := by linarith
  have h1 : -1 < x / (1 + s) := by rw [lt_div_iff₀ hd]; linarith [(abs_lt.mp hsx).1]
  have h2 : x / (1 + s) < 1 := by rw [div_lt_iff₀ hd]; linarith [(abs_lt.mp hsx).2]
  rw [Real.two_mul_arctan h1 h2]
  congr 1
  have e : 1 - (x / (1 + s)) ^ 2 = 2 / (1 + s) := by
    field_simp
    linear_combination hs2
  rw [e]
  field_simp

/-- the model's reduction step -/
def red (x : I) : I := div x (add (ofRat 1) (sqrt (add (ofRat 1) (sq x))))

lemma sq_lo_nonneg (x : I) : 0 ≤ (sq x).lo := by
  unfold sq
  split_ifs
  · exact rdn_nonneg (mul_self_nonneg _)
  · exact rdn_nonneg (mul_self_nonneg _)
  · exact rdn_nonneg le_rfl

lemma red_sound {y : ℝ} {x : I} (h : Mem y x) : Mem (rho y) (red x) := by
  unfold rho red
  have h1 : Mem (1 + y ^ 2) (add (ofRat 1) (sq x)) := by
    simpa using add_sound (ofRat_sound 1) (sq_sound h)
  have h2 := sqrt_sound' _ _ h1
  have h3 : Mem (1 + Real.sqrt (1 + y ^ 2)) (add (ofRat 1) (sqrt (add (ofRat 1) (sq x)))) := by
    simpa using add_sound (ofRat_sound 1) h2
  refine div_sound h h3 (Or.inl ?_)
  show 0 < rdn (1 + sqrtLo _)
  have := one_le_rdn (q := 1 + sqrtLo (add (ofRat 1) (sq x)).lo)
    (by linarith [sqrtLo_nonneg (add (ofRat 1) (sq x)).lo])
  linarith

lemma atanQ_eq (q : ℚ) : atanQ q =
    if |q| ≤ 1 / 2 then atanSmall q else
      scale 8 (hull (atanSmallN 40 (red (red (red (ofRat q)))).lo)
        (atanSmallN 40 (red (red (red (ofRat q)))).hi)) := by
  unfold atanQ
  simp only [ratAbs_eq]
  rfl

lemma hull_of_le {x : ℝ} {a b : I} (h1 : ((a.lo : ℚ) : ℝ) ≤ x) (h2 : x ≤ ((b.hi : ℚ) : ℝ)) :
    Mem x (hull a b) := by
  constructor
  · show ((ratMin a.lo b.lo : ℚ) : ℝ) ≤ x
    rw [ratMin_eq]; push_cast
    exact (min_le_left _ _).trans h1
  · show x ≤ ((ratMax a.hi b.hi : ℚ) : ℝ)
    rw [ratMax_eq]; push_cast
    exact h2.trans (le_max_right _ _)

/-- For every rational `q`, the interval `atanQ q` contains the real number `arctan q`. -/
theorem atanQ_sound (q : ℚ) : Mem (Real.arctan (q : ℝ)) (atanQ q) := by
  rw [atanQ_eq]
  split_ifs with h
  · exact atanSmall_sound' q
  · have hm : Mem (rho (rho (rho (q : ℝ)))) (red (red (red (ofRat q)))) :=
      red_sound (red_sound (red_sound (ofRat_sound q)))
    generalize red (red (red (ofRat q))) = x3 at hm
    have he : Real.arctan (q : ℝ) = ((8 : ℚ) : ℝ) * Real.arctan (rho (rho (rho (q : ℝ)))) := by
      rw [arctan_eq_two_mul_arctan_rho (q : ℝ), arctan_eq_two_mul_arctan_rho (rho (q : ℝ)),
        arctan_eq_two_mul_arctan_rho (rho (rho (q : ℝ)))]
      push_cast; ring
    rw [he]
    apply scale_sound
    have lo := (atanSmallN_sound 40 x3.lo).1
    have hi := (atanSmallN_sound 40 x3.hi).2
    have m1 := Real.arctan_strictMono.monotone hm.1
    have m2 := Real.arctan_strictMono.monotone hm.2
    exact hull_of_le (lo.trans m1) (m2.trans hi)

example : Mem (Real.arctan ((7 : ℚ) : ℝ)) (atanQ 7) := atanQ_sound 7

end IvAtan

section IvGauss

open MeasureTheory Real

/-- standard normal density -/
noncomputable def phiR (t : ℝ) : ℝ := Real.exp (-t^2/2) / Real.sqrt (2*Real.pi)
/-- standard normal CDF -/
noncomputable def Φ (x : ℝ) : ℝ := ∫ t in Set.Iic x, Real.exp (-t^2/2) / Real.sqrt (2*Real.pi)
/-- T_k(y) = y^(2k+1)/(2k+1)!!, defined by the recursion the executable code uses -/
noncomputable def phT : ℕ → ℝ → ℝ
  | 0, y => y
  | k+1, y => phT k y * y^2 / (2*(k:ℝ)+3)
/-- partial sum Σ_{k≤n} T_k(y) -/
noncomputable def phG (n : ℕ) (y : ℝ) : ℝ := ∑ k ∈ Finset.range (n+1), phT k y

lemma Phi_eq (x : ℝ) : Φ x = ∫ t in Set.Iic x, phiR t := rfl

lemma sqrt_two_pi_pos : 0 < Real.sqrt (2*Real.pi) := by positivity

lemma phiR_eq (t : ℝ) : phiR t = (Real.sqrt (2*Real.pi))⁻¹ * Real.exp (-(1/2) * t^2) := by
  unfold phiR
  rw [div_eq_inv_mul]
  congr 2
  ring

lemma phiR_eq_fun : phiR = fun t => (Real.sqrt (2*Real.pi))⁻¹ * Real.exp (-(1/2) * t^2) :=
  funext phiR_eq

lemma phiR_nonneg (t : ℝ) : 0 ≤ phiR t := by
  unfold phiR; positivity

lemma phiR_pos (t : ℝ) : 0 < phiR t := by
  unfold phiR; positivity

lemma phiR_continuous : Continuous phiR := by
  unfold phiR; fun_prop

lemma phiR_neg (t : ℝ) : phiR (-t) = phiR t := by
  unfold phiR; simp

lemma phiR_integrable : Integrable phiR := by
  rw [phiR_eq_fun]
  exact (integrable_exp_neg_mul_sq (by norm_num : (0:ℝ) < 1/2)).const_mul _

lemma phiR_integral : ∫ t, phiR t = 1 := by
  rw [phiR_eq_fun, integral_const_mul, integral_gaussian]
  have : Real.pi / (1/2) = 2 * Real.pi := by ring
  rw [this]
  exact inv_mul_cancel₀ sqrt_two_pi_pos.ne'

lemma Phi_nonneg (x : ℝ) : 0 ≤ Φ x := by
  rw [Phi_eq]
  exact setIntegral_nonneg measurableSet_Iic (fun t _ => phiR_nonneg t)

lemma Phi_add_neg (x : ℝ) : Φ x + Φ (-x) = 1 := by
  have h1 : Φ (-x) = ∫ t in Set.Ioi x, phiR t := by
    rw [Phi_eq]
    have := integral_comp_neg_Ioi x phiR
    rw [← this]
    simp only [phiR_neg]
  rw [h1, Phi_eq, intervalIntegral.integral_Iic_add_Ioi phiR_integrable.integrableOn
    phiR_integrable.integrableOn, phiR_integral]

lemma Phi_zero : Φ 0 = 1/2 := by
  have := Phi_add_neg 0
  rw [neg_zero] at this
  linarith

lemma Phi_sub (a b : ℝ) : Φ b - Φ a = ∫ t in a..b, phiR t := by
  rw [Phi_eq, Phi_eq]
  exact intervalIntegral.integral_Iic_sub_Iic phiR_integrable.integrableOn
    phiR_integrable.integrableOn

lemma Phi_hasDerivAt (x : ℝ) : HasDerivAt Φ (phiR x) x := by
  have h : Φ = fun u => Φ 0 + ∫ t in (0:ℝ)..u, phiR t := by
    funext u
    rw [← Phi_sub]; ring
  rw [h]
  exact (intervalIntegral.integral_hasDerivAt_right (phiR_continuous.intervalIntegrable _ _)
    (phiR_continuous.stronglyMeasurableAtFilter _ _) phiR_continuous.continuousAt).const_add _

lemma phiR_hasDerivAt (x : ℝ) : HasDerivAt phiR (-x * phiR x) x := by
  have h : HasDerivAt (fun t : ℝ => -t^2/2) (-x) x := by
    have h0 : HasDerivAt (fun t : ℝ => -t^2/2) _ x := ((hasDerivAt_id' x).pow 2).neg.div_const 2
    refine h0.congr_deriv ?_
    simp
    ring
  have h1 : HasDerivAt (fun t => Real.exp (-t^2/2) / Real.sqrt (2*Real.pi)) _ x :=
    (h.exp).div_const (Real.sqrt (2*Real.pi))
  refine h1.congr_deriv ?_
  unfold phiR
  ring

lemma phT_zero_eq : phT 0 = fun y => y := rfl
lemma phT_succ_eq (k : ℕ) : phT (k+1) = fun y => phT k y * y^2 / (2*(k:ℝ)+3) := rfl
lemma phT_succ (k : ℕ) (y : ℝ) : phT (k+1) y = phT k y * y^2 / (2*(k:ℝ)+3) := rfl

lemma phT_nonneg {y : ℝ} (hy : 0 ≤ y) (k : ℕ) : 0 ≤ phT k y := by
  induction k with
  | zero => exact hy
  | succ k ih =>
    rw [phT_succ]
    positivity

lemma phT_at_zero (k : ℕ) : phT k 0 = 0 := by
  cases k with
  | zero => rfl
  | succ k => rw [phT_succ]; simp

lemma phG_at_zero (n : ℕ) : phG n 0 = 0 := by
  unfold phG
  simp [phT_at_zero]

lemma phT_zero_hasDerivAt (y : ℝ) : HasDerivAt (phT 0) 1 y := by
  rw [phT_zero_eq]; exact hasDerivAt_id' y

lemma phT_succ_hasDerivAt (k : ℕ) (y : ℝ) : HasDerivAt (phT (k+1)) (y * phT k y) y := by
  induction k with
  | zero =>
    rw [phT_succ_eq]
    have h := (((phT_zero_hasDerivAt y).mul ((hasDerivAt_id' y).pow 2)).div_const (2*((0:ℕ):ℝ)+3))
    refine h.congr_deriv ?_
    simp only [phT_zero_eq, Pi.pow_apply]
    push_cast
    ring
  | succ k ih =>
    rw [phT_succ_eq (k+1)]
    have h := ((ih.mul ((hasDerivAt_id' y).pow 2)).div_const (2*((k+1:ℕ):ℝ)+3))
    refine h.congr_deriv ?_
    simp only [Pi.pow_apply]
    rw [phT_succ]
    have h1 : (2*(k:ℝ)+3) ≠ 0 := by positivity
    have h2 : (2*((k+1:ℕ):ℝ)+3) ≠ 0 := by positivity
    push_cast
    push_cast at h2
    field_simp
    ring

lemma phG_zero_eq : phG 0 = phT 0 := by
  funext y; simp [phG]

lemma phG_succ_eq (n : ℕ) : phG (n+1) = fun y => phG n y + phT (n+1) y := by
  funext y; simp [phG, Finset.sum_range_succ]

lemma phG_hasDerivAt (n : ℕ) (y : ℝ) :
    HasDerivAt (phG n) (1 + y * phG n y - y * phT n y) y := by
  induction n with
  | zero =>
    rw [phG_zero_eq]
    refine (phT_zero_hasDerivAt y).congr_deriv ?_
    ring
  | succ n ih =>
    rw [phG_succ_eq]
    refine (ih.add (phT_succ_hasDerivAt n y)).congr_deriv ?_
    ring

lemma Phi_series_lower {y : ℝ} (hy : 0 ≤ y) (n : ℕ) : phiR y * phG n y ≤ Φ y - 1/2 := by
  set L : ℝ → ℝ := fun y => Φ y - 1/2 - phiR y * phG n y with hL
  have hd : ∀ t, HasDerivAt L (phiR t * t * phT n t) t := by
    intro t
    have h := ((Phi_hasDerivAt t).sub_const (1/2)).sub
      ((phiR_hasDerivAt t).mul (phG_hasDerivAt n t))
    refine h.congr_deriv ?_
    ring
  have hmono : MonotoneOn L (Set.Ici 0) := by
    apply monotoneOn_of_deriv_nonneg (convex_Ici 0)
    · exact fun t _ => (hd t).continuousAt.continuousWithinAt
    · exact fun t _ => (hd t).differentiableAt.differentiableWithinAt
    · intro t ht
      rw [interior_Ici] at ht
      have ht' : 0 < t := ht
      rw [(hd t).deriv]
      have := phT_nonneg ht'.le n
      have := phiR_nonneg t
      positivity
  have h0 : L 0 = 0 := by
    simp only [hL, phG_at_zero, Phi_zero]; ring
  have := hmono (Set.self_mem_Ici) hy hy
  rw [h0] at this
  simp only [hL] at this
  linarith

lemma Phi_series_upper {y : ℝ} (hy : 0 ≤ y) (n : ℕ) (h : y^2 < 2*(n:ℝ)+3) :
    Φ y - 1/2 ≤ phiR y * (phG n y + phT n y * (y^2/(2*(n:ℝ)+3)) / (1 - y^2/(2*(n:ℝ)+3))) := by
  have hD : 0 < 2*(n:ℝ)+3 - y^2 := by linarith
  have hN : 0 < 2*(n:ℝ)+3 := by positivity
  set C : ℝ := 1 / (2*(n:ℝ)+3 - y^2) with hC
  have hCpos : 0 < C := by positivity
  set U : ℝ → ℝ := fun t => phiR t * (phG n t + C * ((2*(n:ℝ)+3) * phT (n+1) t)) - (Φ t - 1/2)
    with hU
  have hd : ∀ t, HasDerivAt U (phiR t * t * phT n t * (C * (2*(n:ℝ)+3 - t^2) - 1)) t := by
    intro t
    have h := ((phiR_hasDerivAt t).mul ((phG_hasDerivAt n t).add
      (((phT_succ_hasDerivAt n t).const_mul (2*(n:ℝ)+3)).const_mul C))).sub
      ((Phi_hasDerivAt t).sub_const (1/2))
    refine h.congr_deriv ?_
    simp only [Pi.add_apply]
    rw [phT_succ]
    field_simp
    ring
  have hmono : MonotoneOn U (Set.Icc 0 y) := by
    apply monotoneOn_of_deriv_nonneg (convex_Icc 0 y)
    · exact fun t _ => (hd t).continuousAt.continuousWithinAt
    · exact fun t _ => (hd t).differentiableAt.differentiableWithinAt
    · intro t ht
      rw [interior_Icc] at ht
      rw [(hd t).deriv]
      have h1 := phT_nonneg ht.1.le n
      have h2 := phiR_nonneg t
      have h3 := ht.1.le
      have h4 : 0 ≤ C * (2*(n:ℝ)+3 - t^2) - 1 := by
        have : t^2 ≤ y^2 := by nlinarith [ht.1, ht.2]
        have h5 : C * (2*(n:ℝ)+3 - y^2) = 1 := by
          rw [hC]; field_simp
        have : C * (2*(n:ℝ)+3 - y^2) ≤ C * (2*(n:ℝ)+3 - t^2) :=
          mul_le_mul_of_nonneg_left (by linarith) hCpos.le
        linarith
      positivity
  have h0 : U 0 = 0 := by
    simp only [hU, phG_at_zero, phT_at_zero, Phi_zero]; ring
  have := hmono (Set.left_mem_Icc.mpr hy) (Set.right_mem_Icc.mpr hy) hy
  rw [h0] at this
  simp only [hU] at this
  have e : phT n y * (y^2/(2*(n:ℝ)+3)) / (1 - y^2/(2*(n:ℝ)+3))
      = C * ((2*(n:ℝ)+3) * phT (n+1) y) := by
    rw [phT_succ, hC]
    have : (1 - y^2/(2*(n:ℝ)+3)) ≠ 0 := by
      have : 1 - y^2/(2*(n:ℝ)+3) = (2*(n:ℝ)+3 - y^2) / (2*(n:ℝ)+3) := by field_simp
      rw [this]; positivity
    field_simp
  rw [e]
  linarith

lemma phiR_tendsto_atBot : Filter.Tendsto phiR Filter.atBot (nhds 0) := by
  have h1 : Filter.Tendsto (fun t : ℝ => t * t) Filter.atBot Filter.atTop :=
    Filter.tendsto_id.atBot_mul_atBot₀ Filter.tendsto_id
  have h2 : Filter.Tendsto (fun t : ℝ => -(1/2) * (t * t)) Filter.atBot Filter.atBot :=
    h1.const_mul_atTop_of_neg (by norm_num)
  have h3 := (Real.tendsto_exp_atBot.comp h2).const_mul (Real.sqrt (2*Real.pi))⁻¹
  rw [mul_zero] at h3
  refine h3.congr ?_
  intro t
  rw [phiR_eq]
  simp only [Function.comp]
  congr 2
  ring

lemma integral_Iic_mul_phiR (x : ℝ) : ∫ t in Set.Iic x, t * phiR t = - phiR x := by
  have hint : IntegrableOn (fun t => t * phiR t) (Set.Iic x) := by
    have : (fun t => t * phiR t)
        = fun t => (Real.sqrt (2*Real.pi))⁻¹ * (t * Real.exp (-(1/2) * t^2)) := by
      funext t; rw [phiR_eq]; ring
    rw [this]
    exact ((integrable_mul_exp_neg_mul_sq (by norm_num : (0:ℝ) < 1/2)).const_mul _).integrableOn
  have hderiv : ∀ t ∈ Set.Iic x, HasDerivAt (fun t => - phiR t) (t * phiR t) t := by
    intro t _
    refine (phiR_hasDerivAt t).neg.congr_deriv ?_
    ring
  have ht : Filter.Tendsto (fun t => - phiR t) Filter.atBot (nhds 0) := by
    simpa using phiR_tendsto_atBot.neg
  have := integral_Iic_of_hasDerivAt_of_tendsto' hderiv hint ht
  rw [this]; ring

lemma Phi_mills {x : ℝ} (hx : x < 0) : Φ x ≤ phiR x / (-x) := by
  have hint : IntegrableOn (fun t => t * phiR t) (Set.Iic x) := by
    have : (fun t => t * phiR t)
        = fun t => (Real.sqrt (2*Real.pi))⁻¹ * (t * Real.exp (-(1/2) * t^2)) := by
      funext t; rw [phiR_eq]; ring
    rw [this]
    exact ((integrable_mul_exp_neg_mul_sq (by norm_num : (0:ℝ) < 1/2)).const_mul _).integrableOn
  have hle : ∫ t in Set.Iic x, phiR t ≤ ∫ t in Set.Iic x, x⁻¹ * (t * phiR t) := by
    apply setIntegral_mono_on phiR_integrable.integrableOn (hint.const_mul _) measurableSet_Iic
    intro t ht
    have ht' : t ≤ x := ht
    have : 1 ≤ x⁻¹ * t := by
      have : x⁻¹ * t = t / x := by ring
      rw [this, le_div_iff_of_neg hx]
      linarith
    calc phiR t = 1 * phiR t := by ring
      _ ≤ (x⁻¹ * t) * phiR t := mul_le_mul_of_nonneg_right this (phiR_nonneg t)
      _ = x⁻¹ * (t * phiR t) := by ring
  rw [Phi_eq]
  refine hle.trans (le_of_eq ?_)
  rw [integral_const_mul, integral_Iic_mul_phiR]
  have : x ≠ 0 := hx.ne
  field_simp

end IvGauss

section IvTail

open MeasureTheory

/-- (2j-1)!! as a real number, by recursion -/
noncomputable def dfR : ℕ → ℝ
  | 0 => 1
  | j+1 => dfR j * (2*(j:ℝ)+1)
/-- v_j(a) = (2j-1)!!/a^(2j) -/
noncomputable def tailV (a : ℝ) (j : ℕ) : ℝ := dfR j / a^(2*j)
/-- S_n(a) = Σ_{j≤n} (-1)^j v_j(a) -/
noncomputable def tailS (a : ℝ) (n : ℕ) : ℝ := ∑ j ∈ Finset.range (n+1), (-1:ℝ)^j * tailV a j

lemma dfR_zero : dfR 0 = 1 := rfl
lemma dfR_succ (j : ℕ) : dfR (j+1) = dfR j * (2*(j:ℝ)+1) := rfl

lemma dfR_pos (j : ℕ) : 0 < dfR j := by
  induction j with
  | zero => rw [dfR_zero]; exact one_pos
  | succ j ih => rw [dfR_succ]; positivity

lemma tailV_zero (a : ℝ) : tailV a 0 = 1 := by
  simp [tailV, dfR_zero]

lemma tailV_succ {a : ℝ} (ha : a ≠ 0) (j : ℕ) :
    tailV a (j+1) = tailV a j * (2*(j:ℝ)+1) / a^2 := by
  unfold tailV
  rw [dfR_succ]
  have e : a^(2*(j+1)) = a^(2*j) * a^2 := by ring
  rw [e]
  field_simp

lemma tailV_pos {a : ℝ} (ha : 0 < a) (j : ℕ) : 0 < tailV a j := by
  unfold tailV
  have := dfR_pos j
  positivity

lemma tailS_zero (a : ℝ) : tailS a 0 = 1 := by
  simp [tailS, tailV_zero]

lemma tailS_succ (a : ℝ) (n : ℕ) :
    tailS a (n+1) = tailS a n + (-1:ℝ)^(n+1) * tailV a (n+1) := by
  unfold tailS
  rw [Finset.sum_range_succ]

/-- the `x`-scaled partial sums `S_n(x)/x` written with explicit odd powers -/
noncomputable def tailU (n : ℕ) (x : ℝ) : ℝ :=
  ∑ j ∈ Finset.range (n+1), (-1:ℝ)^j * (dfR j / x^(2*j+1))

lemma tailU_zero_eq : tailU 0 = fun x => (-1:ℝ)^0 * (dfR 0 / x^(2*0+1)) := by
  funext x; simp [tailU]

lemma tailU_succ_eq (n : ℕ) :
    tailU (n+1) = fun x => tailU n x + (-1:ℝ)^(n+1) * (dfR (n+1) / x^(2*(n+1)+1)) := by
  funext x; simp only [tailU]; rw [Finset.sum_range_succ]

lemma tailU_eq {x : ℝ} (hx : x ≠ 0) (n : ℕ) : tailU n x = tailS x n / x := by
  unfold tailU tailS
  rw [Finset.sum_div]
  refine Finset.sum_congr rfl ?_
  intro j _
  unfold tailV
  rw [pow_succ]
  field_simp

lemma tail_term_hasDerivAt {x : ℝ} (hx : x ≠ 0) (j : ℕ) :
    HasDerivAt (fun x => phiR x * (dfR j / x^(2*j+1)))
      (-phiR x * (tailV x j + tailV x (j+1))) x := by
  have hp : x^(2*j+1) ≠ 0 := pow_ne_zero _ hx
  have h1 : HasDerivAt (fun x : ℝ => dfR j / x^(2*j+1))
      ((0 * x^(2*j+1) - dfR j * (((2*j+1 : ℕ) : ℝ) * x^(2*j+1-1))) / (x^(2*j+1))^2) x :=
    (hasDerivAt_const x (dfR j)).div (hasDerivAt_pow (2*j+1) x) hp
  have h := (phiR_hasDerivAt x).mul h1
  refine h.congr_deriv ?_
  unfold tailV
  rw [dfR_succ]
  have e1 : 2*j+1-1 = 2*j := by omega
  have e2 : x^(2*(j+1)) = x^(2*j) * x^2 := by ring
  have e3 : x^(2*j+1) = x^(2*j) * x := by ring
  rw [e1, e2, e3]
  push_cast
  have hq : x^(2*j) ≠ 0 := pow_ne_zero _ hx
  field_simp
  ring

lemma tailF_hasDerivAt {x : ℝ} (hx : x ≠ 0) (n : ℕ) :
    HasDerivAt (fun x => phiR x * tailU n x)
      (-phiR x * (1 + (-1:ℝ)^n * tailV x (n+1))) x := by
  induction n with
  | zero =>
    rw [tailU_zero_eq]
    have h := tail_term_hasDerivAt hx 0
    have e : (fun x => phiR x * ((-1:ℝ)^0 * (dfR 0 / x^(2*0+1))))
        = fun x => phiR x * (dfR 0 / x^(2*0+1)) := by
      funext y; ring
    rw [e]
    refine h.congr_deriv ?_
    rw [tailV_zero]; ring
  | succ n ih =>
    rw [tailU_succ_eq]
    have h := ih.add ((tail_term_hasDerivAt hx (n+1)).const_mul ((-1:ℝ)^(n+1)))
    have e : (fun x => phiR x * (tailU n x + (-1:ℝ)^(n+1) * (dfR (n+1) / x^(2*(n+1)+1))))
        = (fun x => phiR x * tailU n x) +
          (fun x => (-1:ℝ)^(n+1) * (phiR x * (dfR (n+1) / x^(2*(n+1)+1)))) := by
      funext y; simp only [Pi.add_apply]; ring
    rw [e]
    refine h.congr_deriv ?_
    ring

lemma tailQ_hasDerivAt (x : ℝ) : HasDerivAt (fun x => Φ (-x)) (-phiR x) x := by
  have h := (Phi_hasDerivAt (-x)).scomp x (hasDerivAt_neg x)
  have e : (Φ ∘ fun x : ℝ => -x) = fun x => Φ (-x) := rfl
  rw [e] at h
  refine h.congr_deriv ?_
  rw [phiR_neg]; simp

lemma phiR_tendsto_atTop : Filter.Tendsto phiR Filter.atTop (nhds 0) := by
  have h := phiR_tendsto_atBot.comp Filter.tendsto_neg_atTop_atBot
  refine h.congr ?_
  intro t
  simp [Function.comp, phiR_neg]

lemma tailU_tendsto (n : ℕ) : Filter.Tendsto (tailU n) Filter.atTop (nhds 0) := by
  have h : Filter.Tendsto (fun x : ℝ => ∑ j ∈ Finset.range (n+1), (-1:ℝ)^j * (dfR j / x^(2*j+1)))
      Filter.atTop (nhds (∑ j ∈ Finset.range (n+1), (-1:ℝ)^j * 0)) := by
    apply tendsto_finsetSum
    intro j _
    apply Filter.Tendsto.const_mul
    exact tendsto_const_nhds.div_atTop (Filter.tendsto_pow_atTop (by omega))
  have e : tailU n = fun x : ℝ => ∑ j ∈ Finset.range (n+1), (-1:ℝ)^j * (dfR j / x^(2*j+1)) := rfl
  rw [e]
  simpa using h

lemma tailQ_tendsto : Filter.Tendsto (fun x => Φ (-x)) Filter.atTop (nhds 0) := by
  have hup : Filter.Tendsto (fun x : ℝ => phiR x / x) Filter.atTop (nhds 0) :=
    phiR_tendsto_atTop.div_atTop Filter.tendsto_id
  refine tendsto_of_tendsto_of_tendsto_of_le_of_le' tendsto_const_nhds hup ?_ ?_
  · exact Filter.Eventually.of_forall fun x => Phi_nonneg (-x)
  · filter_upwards [Filter.eventually_gt_atTop (0:ℝ)] with x hx
    have := Phi_mills (x := -x) (by linarith)
    rwa [phiR_neg, neg_neg] at this

lemma tailG_tendsto (n : ℕ) :
    Filter.Tendsto (fun x => Φ (-x) - phiR x * tailU n x) Filter.atTop (nhds 0) := by
  have h := tailQ_tendsto.sub (phiR_tendsto_atTop.mul (tailU_tendsto n))
  simpa using h

lemma tailG_hasDerivAt {x : ℝ} (hx : x ≠ 0) (n : ℕ) :
    HasDerivAt (fun x => Φ (-x) - phiR x * tailU n x)
      (phiR x * ((-1:ℝ)^n * tailV x (n+1))) x := by
  refine ((tailQ_hasDerivAt x).sub (tailF_hasDerivAt hx n)).congr_deriv ?_
  ring

lemma tail_envelope_even {a : ℝ} (ha : 0 < a) {n : ℕ} (hn : Even n) :
    Φ (-a) ≤ phiR a / a * tailS a n := by
  set g : ℝ → ℝ := fun x => Φ (-x) - phiR x * tailU n x with hg
  have hd : ∀ x, 0 < x → HasDerivAt g (phiR x * ((-1:ℝ)^n * tailV x (n+1))) x :=
    fun x hx => tailG_hasDerivAt hx.ne' n
  have hmono : MonotoneOn g (Set.Ici a) := by
    apply monotoneOn_of_deriv_nonneg (convex_Ici a)
    · exact fun t ht => (hd t (lt_of_lt_of_le ha ht)).continuousAt.continuousWithinAt
    · intro t ht
      rw [interior_Ici] at ht
      exact (hd t (ha.trans ht)).differentiableAt.differentiableWithinAt
    · intro t ht
      rw [interior_Ici] at ht
      have ht' : 0 < t := ha.trans ht
      rw [(hd t ht').deriv, hn.neg_one_pow, one_mul]
      exact mul_nonneg (phiR_nonneg t) (tailV_pos ht' _).le
  have hle : g a ≤ 0 := by
    refine ge_of_tendsto (tailG_tendsto n) ?_
    filter_upwards [Filter.eventually_ge_atTop a] with y hy
    exact hmono Set.self_mem_Ici hy hy
  simp only [hg] at hle
  rw [tailU_eq ha.ne'] at hle
  have e : phiR a * (tailS a n / a) = phiR a / a * tailS a n := by ring
  rw [e] at hle
  linarith

lemma tail_envelope_odd {a : ℝ} (ha : 0 < a) {n : ℕ} (hn : Odd n) :
    phiR a / a * tailS a n ≤ Φ (-a) := by
  set g : ℝ → ℝ := fun x => Φ (-x) - phiR x * tailU n x with hg
  have hd : ∀ x, 0 < x → HasDerivAt g (phiR x * ((-1:ℝ)^n * tailV x (n+1))) x :=
    fun x hx => tailG_hasDerivAt hx.ne' n
  have hanti : AntitoneOn g (Set.Ici a) := by
    apply antitoneOn_of_deriv_nonpos (convex_Ici a)
    · exact fun t ht => (hd t (lt_of_lt_of_le ha ht)).continuousAt.continuousWithinAt
    · intro t ht
      rw [interior_Ici] at ht
      exact (hd t (ha.trans ht)).differentiableAt.differentiableWithinAt
    · intro t ht
      rw [interior_Ici] at ht
      have ht' : 0 < t := ha.trans ht
      rw [(hd t ht').deriv, hn.neg_one_pow]
      have := mul_nonneg (phiR_nonneg t) (tailV_pos ht' (n+1)).le
      nlinarith
  have hle : 0 ≤ g a := by
    refine le_of_tendsto (tailG_tendsto n) ?_
    filter_upwards [Filter.eventually_ge_atTop a] with y hy
    exact hanti Set.self_mem_Ici hy hy
  simp only [hg] at hle
  rw [tailU_eq ha.ne'] at hle
  have e : phiR a * (tailS a n / a) = phiR a / a * tailS a n := by ring
  rw [e] at hle
  linarith

end IvTail

section IvPhiFold

/-! ## S7 (model side): the rounded-up series loop `phiLoop` inside `Phi` -/

section abstractError
/- `T k` are the exact terms `|z|^(2k+1)/(2k+1)!!`; `t k` are computed terms: rounded up by less
than one grid unit at every step (including the very first one). -/
variable (z : ℚ) (T : ℕ → ℝ) (hT0 : T 0 = |(z : ℝ)|)
  (hTs : ∀ k : ℕ, T (k + 1) = T k * (z : ℝ) ^ 2 / (2 * (k : ℝ) + 3))
  (t : ℕ → ℝ) (ht0 : T 0 ≤ t 0 ∧ t 0 ≤ T 0 + 1 / FI.SR)
  (hts : ∀ k : ℕ, t k * ((z : ℝ) ^ 2 / (2 * (k : ℝ) + 3)) ≤ t (k + 1) ∧
    t (k + 1) ≤ t k * ((z : ℝ) ^ 2 / (2 * (k : ℝ) + 3)) + 1 / FI.SR)

include hT0 hTs in
lemma phT_nonneg' (k : ℕ) : 0 ≤ T k := by
  induction k with
  | zero => rw [hT0]; exact abs_nonneg _
  | succ k ih => rw [hTs]; positivity

include hTs ht0 hts in
lemma T_le_t (k : ℕ) : T k ≤ t k := by
  induction k with
  | zero => exact ht0.1
  | succ k ih =>
    refine le_trans ?_ (hts k).1
    rw [hTs, mul_div_assoc]
    have h3 : (0 : ℝ) ≤ (z : ℝ) ^ 2 / (2 * (k : ℝ) + 3) := by positivity
    exact mul_le_mul_of_nonneg_right ih h3

include hT0 hTs in
/-- key inequality making the error recursion close -/
lemma key_ineq (k : ℕ) :
    ((k : ℝ) + 1) * ((z : ℝ) ^ 2 / (2 * (k : ℝ) + 3)) ≤ (k + 1) + T (k + 1) := by
  have hTnn := phT_nonneg' z T hT0 hTs
  set ρ : ℝ := (z : ℝ) ^ 2 / (2 * (k : ℝ) + 3) with hρ
  have h3 : (0 : ℝ) < 2 * (k : ℝ) + 3 := by positivity
  have hρ0 : 0 ≤ ρ := by positivity
  have hk : (0 : ℝ) ≤ k := Nat.cast_nonneg _
  rcases le_or_gt ρ 1 with h1 | h1
  · have := hTnn (k + 1)
    nlinarith
  · -- ρ > 1, so |z| > 1
    have hz2 : 2 * (k : ℝ) + 3 < (z : ℝ) ^ 2 := by
      rw [hρ, lt_div_iff₀ h3] at h1; linarith
    have hy1 : 1 ≤ |(z : ℝ)| := by
      by_contra hcon
      rw [not_le] at hcon
      have : (z : ℝ) ^ 2 < 1 := by
        rw [← sq_abs]; nlinarith [abs_nonneg (z : ℝ)]
      linarith
    have claim : ∀ j : ℕ, j ≤ k + 1 → ρ ^ j ≤ T j := by
      intro j
      induction j with
      | zero => intro _; rw [hT0]; simpa using hy1
      | succ j ih =>
        intro hj
        have hjk : j ≤ k := by omega
        have ih' := ih (by omega)
        rw [hTs, pow_succ, mul_div_assoc]
        have hρj : ρ ≤ (z : ℝ) ^ 2 / (2 * (j : ℝ) + 3) := by
          rw [hρ]
          have : (j : ℝ) ≤ k := by exact_mod_cast hjk
          gcongr
        exact mul_le_mul ih' hρj hρ0 (hTnn j)
    have hb : 1 + ((k + 1 : ℕ) : ℝ) * (ρ - 1) ≤ (1 + (ρ - 1)) ^ (k + 1) :=
      one_add_mul_le_pow (by linarith) _
    have hc := claim (k + 1) le_rfl
    have : 1 + (ρ - 1) = ρ := by ring
    rw [this] at hb
    push_cast at hb
    nlinarith

include hT0 hTs ht0 hts in
lemma t_sub_le (k : ℕ) : t k - T k ≤ ((k : ℝ) + 1) / FI.SR * (1 + T k) := by
  have hTnn := phT_nonneg' z T hT0 hTs
  have hS := FI.SR_pos
  induction k with
  | zero =>
    have := hTnn 0
    have h1 : t 0 - T 0 ≤ 1 / FI.SR := by linarith [ht0.2]
    refine h1.trans ?_
    rw [div_mul_eq_mul_div]
    apply div_le_div_of_nonneg_right _ hS.le
    push_cast; linarith
  | succ k ih =>
    have h3 : (0 : ℝ) < 2 * (k : ℝ) + 3 := by positivity
    set ρ : ℝ := (z : ℝ) ^ 2 / (2 * (k : ℝ) + 3) with hρ
    have hρ0 : 0 ≤ ρ := by positivity
    have hstep := (hts k).2
    have hT1 : T (k + 1) = T k * ρ := by rw [hTs, hρ, mul_div_assoc]
    have hkey := key_ineq z T hT0 hTs k
    rw [← hρ] at hkey
    have hk : (0 : ℝ) ≤ k := Nat.cast_nonneg _
    have he : t (k + 1) - T (k + 1) ≤
        ((k : ℝ) + 1) / FI.SR * (1 + T k) * ρ + 1 / FI.SR := by
      have := mul_le_mul_of_nonneg_right ih hρ0
      rw [hT1]; nlinarith
    refine he.trans ?_
    push_cast
    rw [div_mul_eq_mul_div, div_mul_eq_mul_div, div_mul_eq_mul_div, ← add_div]
    apply div_le_div_of_nonneg_right _ hS.le
    rw [hT1] at hkey ⊢
    nlinarith

include hTs ht0 hts in
lemma sum_T_le_sum_t (n : ℕ) : ∑ k ∈ Finset.range n, T k ≤ ∑ k ∈ Finset.range n, t k :=
  Finset.sum_le_sum fun k _ => T_le_t z T hTs t ht0 hts k

include hT0 hTs ht0 hts in
lemma sum_t_sub_le (n : ℕ) :
    ∑ k ∈ Finset.range (n + 1), t k - ∑ k ∈ Finset.range (n + 1), T k ≤
      ((n : ℝ) + 1) / FI.SR * (((n : ℝ) + 1) + ∑ k ∈ Finset.range (n + 1), T k) := by
  have hTnn := phT_nonneg' z T hT0 hTs
  have hS := FI.SR_pos
  rw [← Finset.sum_sub_distrib]
  calc ∑ k ∈ Finset.range (n + 1), (t k - T k)
      ≤ ∑ k ∈ Finset.range (n + 1), (((n : ℝ) + 1) / FI.SR * (1 + T k)) := by
        apply Finset.sum_le_sum
        intro k hk
        refine (t_sub_le z T hT0 hTs t ht0 hts k).trans ?_
        have hkn : (k : ℝ) ≤ n := by
          exact_mod_cast Nat.lt_succ_iff.mp (Finset.mem_range.mp hk)
        have := hTnn k
        gcongr
    _ = ((n : ℝ) + 1) / FI.SR * (((n : ℝ) + 1) + ∑ k ∈ Finset.range (n + 1), T k) := by
        rw [← Finset.mul_sum, Finset.sum_add_distrib]
        simp

end abstractError

/-! ### the natural-number loop -/

/-- the sequence of scaled, rounded-up terms computed by `phiLoop` -/
def tn (zn zd t0 : ℕ) : ℕ → ℕ
  | 0 => t0
  | k + 1 => (tn zn zd t0 k * zn + zd * (2 * k + 3) - 1) / (zd * (2 * k + 3))

/-- the running sum in `phiLoop` -/
def sn (zn zd t0 : ℕ) (k : ℕ) : ℕ := ∑ i ∈ Finset.range (k + 1), tn zn zd t0 i

lemma phiLoop_spec (zn zd t0 : ℕ) (f k : ℕ) :
    ∃ K, k ≤ K ∧ K ≤ k + f ∧
      phiLoop zn zd f k (sn zn zd t0 k) (tn zn zd t0 k) = (sn zn zd t0 K, tn zn zd t0 K, K) := by
  induction f generalizing k with
  | zero => exact ⟨k, le_rfl, le_rfl, rfl⟩
  | succ f ih =>
    unfold phiLoop
    split_ifs with h
    · exact ⟨k, le_rfl, by omega, rfl⟩
    · obtain ⟨K, h1, h2, h3⟩ := ih (k + 1)
      refine ⟨K, by omega, by omega, ?_⟩
      rw [← h3]
      have : sn zn zd t0 (k + 1) = sn zn zd t0 k + tn zn zd t0 (k + 1) := by
        unfold sn; rw [Finset.sum_range_succ _ (k + 1)]
      rw [this]
      rfl

lemma ceilDiv_bounds (a d : ℕ) (hd : 0 < d) :
    a ≤ (a + d - 1) / d * d ∧ (a + d - 1) / d * d < a + d := by
  have h1 := Nat.div_add_mod (a + d - 1) d
  have h2 := Nat.mod_lt (a + d - 1) hd
  rw [mul_comm] at h1
  generalize (a + d - 1) / d * d = p at h1 ⊢
  omega

lemma tn_succ_bounds (zn zd t0 : ℕ) (hzd : 0 < zd) (k : ℕ) :
    (tn zn zd t0 k : ℝ) * ((zn : ℝ) / (zd * (2 * (k : ℝ) + 3))) ≤ (tn zn zd t0 (k + 1) : ℝ) ∧
      (tn zn zd t0 (k + 1) : ℝ) ≤ (tn zn zd t0 k : ℝ) * ((zn : ℝ) / (zd * (2 * (k : ℝ) + 3))) + 1 := by
  have hd : 0 < zd * (2 * k + 3) := by positivity
  obtain ⟨h1, h2⟩ := ceilDiv_bounds (tn zn zd t0 k * zn) _ hd
  have hdR : (0 : ℝ) < (zd : ℝ) * (2 * (k : ℝ) + 3) := by positivity
  have e : tn zn zd t0 (k + 1) = (tn zn zd t0 k * zn + zd * (2 * k + 3) - 1) / (zd * (2 * k + 3)) :=
    rfl
  rw [← e] at h1 h2
  have h1R : ((tn zn zd t0 k : ℝ) * zn) ≤ (tn zn zd t0 (k + 1) : ℝ) * ((zd : ℝ) * (2 * (k : ℝ) + 3)) := by
    exact_mod_cast h1
  have h2R : (tn zn zd t0 (k + 1) : ℝ) * ((zd : ℝ) * (2 * (k : ℝ) + 3)) <
      (tn zn zd t0 k : ℝ) * zn + (zd : ℝ) * (2 * (k : ℝ) + 3) := by
    exact_mod_cast h2
  constructor
  · rw [← mul_div_assoc, div_le_iff₀ hdR]; exact h1R
  · rw [← mul_div_assoc, ← sub_le_iff_le_add, le_div_iff₀ hdR]
    nlinarith

end IvPhiFold

section IvPhiTail

/-! ## S7 (model side): the alternating loop `phiTailLoop` inside `PhiTail` -/

lemma SR_eq_pow : FI.SR = 2 ^ 128 := by
  unfold FI.SR scaleN prec; push_cast; norm_num

section tailLoop
/- `v j` are the exact terms `(2j-1)!!/a^(2j)`, `S n` the exact alternating partial sums and `R`
the enveloped value.  The loop computes the terms rounded up (`rup`) at each step. -/
variable (a2 : ℚ) (ha2 : 0 < a2) (v S : ℕ → ℝ) (R : ℝ)
  (hv0 : v 0 = 1) (hvs : ∀ j : ℕ, v (j + 1) = v j * (2 * (j : ℝ) + 1) / (a2 : ℝ))
  (hSs : ∀ n : ℕ, S (n + 1) = S n + (-1 : ℝ) ^ (n + 1) * v (n + 1))
  (henvE : ∀ n : ℕ, Even n → R ≤ S n) (henvO : ∀ n : ℕ, Odd n → S n ≤ R)

include ha2 hv0 hvs in
lemma tailv_pos (j : ℕ) : 0 < v j := by
  have ha : (0 : ℝ) < (a2 : ℝ) := by exact_mod_cast ha2
  induction j with
  | zero => rw [hv0]; exact one_pos
  | succ j ih => rw [hvs]; positivity

include ha2 hv0 hvs hSs henvE henvO in
/-- Loop invariant: if on entry (next index `i+1`) the previous term `c` and the partial sum `s` are
within the stated rounding errors of the exact `v i`, `S i`, and `lo`/`hi` bracket `R` up to
`3600·2^-128`, then so does the pair returned by the loop. -/
lemma phiTailLoop_inv (f : ℕ) : ∀ (i : ℕ) (s c lo hi : ℚ), i + f ≤ 60 →
    v i ≤ (c : ℝ) → (c : ℝ) ≤ v i + (i : ℝ) / FI.SR →
    |(s : ℝ) - S i| ≤ (i : ℝ) ^ 2 / FI.SR →
    (lo : ℝ) - 3600 / FI.SR ≤ R → R ≤ (hi : ℝ) + 3600 / FI.SR →
    ((phiTailLoop a2 f (i + 1) s c lo hi).1 : ℝ) - 3600 / FI.SR ≤ R ∧
      R ≤ ((phiTailLoop a2 f (i + 1) s c lo hi).2 : ℝ) + 3600 / FI.SR := by
  have hS := FI.SR_pos
  have ha : (0 : ℝ) < (a2 : ℝ) := by exact_mod_cast ha2
  induction f with
  | zero =>
    intro i s c lo hi _ _ _ _ hlo hhi
    exact ⟨hlo, hhi⟩
  | succ f ih =>
    intro i s c lo hi hfuel hc1 hc2 hs hlo hhi
    unfold phiTailLoop
    simp only
    have hidx : 2 * (i + 1) - 1 = 2 * i + 1 := by omega
    rw [hidx]
    set c' : ℚ := rup (c * ((2 * i + 1 : ℕ) : ℚ) / a2) with hc'
    split_ifs with hstop hodd
    · exact ⟨hlo, hhi⟩
    all_goals
      have hvi := tailv_pos a2 ha2 v hv0 hvs i
      have hcpos : (0 : ℝ) < c := hvi.trans_le hc1
      set r : ℝ := (2 * (i : ℝ) + 1) / (a2 : ℝ) with hr
      have hr0 : 0 < r := by positivity
      have hcr : ((c * ((2 * i + 1 : ℕ) : ℚ) / a2 : ℚ) : ℝ) = (c : ℝ) * r := by
        rw [hr]; push_cast; ring
      have hl1 : (c : ℝ) * r ≤ (c' : ℝ) := by
        rw [← hcr]; exact le_rupR _
      have hl2 : (c' : ℝ) ≤ (c : ℝ) * r + 1 / FI.SR := by
        have := rup_lt_add (c * ((2 * i + 1 : ℕ) : ℚ) / a2)
        have h2 : ((c' : ℚ) : ℝ) < ((c * ((2 * i + 1 : ℕ) : ℚ) / a2 + 1 / (scaleN : ℚ) : ℚ) : ℝ) := by
          exact_mod_cast this
        rw [Rat.cast_add, hcr] at h2
        have e : ((1 / (scaleN : ℚ) : ℚ) : ℝ) = 1 / FI.SR := by unfold FI.SR; push_cast; rfl
        rw [e] at h2
        exact h2.le
      have hlt : (c' : ℝ) < c := by
        have : c' < c := not_le.mp hstop
        exact_mod_cast this
      have hr1 : r < 1 := by
        by_contra hcon
        have : (c : ℝ) ≤ c * r := le_mul_of_one_le_right hcpos.le (not_lt.mp hcon)
        linarith
      have hv1 : v (i + 1) = v i * r := by rw [hvs, hr, mul_div_assoc]
      have hc1' : v (i + 1) ≤ (c' : ℝ) := by
        rw [hv1]; exact (mul_le_mul_of_nonneg_right hc1 hr0.le).trans hl1
      have hi0 : (0 : ℝ) ≤ (i : ℝ) / FI.SR := by positivity
      have hc2' : (c' : ℝ) ≤ v (i + 1) + ((i + 1 : ℕ) : ℝ) / FI.SR := by
        rw [hv1]; push_cast
        have h1 : ((c : ℝ) - v i) * r ≤ (i : ℝ) / FI.SR := by
          calc ((c : ℝ) - v i) * r ≤ ((c : ℝ) - v i) * 1 :=
                mul_le_mul_of_nonneg_left hr1.le (by linarith)
            _ ≤ (i : ℝ) / FI.SR := by linarith
        rw [add_div]
        nlinarith
      have hi60 : ((i + 1 : ℕ) : ℝ) ≤ 60 := by
        have : i + 1 ≤ 60 := by omega
        exact_mod_cast this
      have hD : ((i + 1 : ℕ) : ℝ) ^ 2 / FI.SR ≤ 3600 / FI.SR := by
        apply div_le_div_of_nonneg_right _ hS.le
        have h0 : (0 : ℝ) ≤ ((i + 1 : ℕ) : ℝ) := Nat.cast_nonneg _
        nlinarith
      have hsq : (i : ℝ) ^ 2 / FI.SR + ((i + 1 : ℕ) : ℝ) / FI.SR ≤ ((i + 1 : ℕ) : ℝ) ^ 2 / FI.SR := by
        rw [← add_div]
        apply div_le_div_of_nonneg_right _ hS.le
        push_cast
        have : (0 : ℝ) ≤ i := Nat.cast_nonneg _
        nlinarith
      have hcv : |(c' : ℝ) - v (i + 1)| ≤ ((i + 1 : ℕ) : ℝ) / FI.SR := by
        rw [abs_le]; constructor <;> linarith
    · -- odd index: subtract
      have hoddN : Odd (i + 1) := by
        rw [Nat.odd_iff]; simpa using hodd
      have hs' : |((s - c' : ℚ) : ℝ) - S (i + 1)| ≤ ((i + 1 : ℕ) : ℝ) ^ 2 / FI.SR := by
        rw [hSs, hoddN.neg_one_pow, Rat.cast_sub]
        have e : (s : ℝ) - c' - (S i + -1 * v (i + 1)) = ((s : ℝ) - S i) - ((c' : ℝ) - v (i + 1)) := by
          ring
        rw [e]
        exact (abs_sub _ _).trans ((add_le_add hs hcv).trans hsq)
      apply ih (i + 1) (s - c') c' (s - c') hi (by omega) hc1' hc2' hs' _ hhi
      have := (abs_le.mp hs').2
      have := henvO (i + 1) hoddN
      linarith
    · -- even index: add
      have hevenN : Even (i + 1) := by
        rw [Nat.even_iff]
        have : ¬ ((i + 1) % 2 = 1) := by simpa using hodd
        omega
      have hs' : |((s + c' : ℚ) : ℝ) - S (i + 1)| ≤ ((i + 1 : ℕ) : ℝ) ^ 2 / FI.SR := by
        rw [hSs, hevenN.neg_one_pow, Rat.cast_add]
        have e : (s : ℝ) + c' - (S i + 1 * v (i + 1)) = ((s : ℝ) - S i) + ((c' : ℝ) - v (i + 1)) := by
          ring
        rw [e]
        exact (abs_add_le _ _).trans ((add_le_add hs hcv).trans hsq)
      apply ih (i + 1) (s + c') c' lo (s + c') (by omega) hc1' hc2' hs' hlo _
      have := (abs_le.mp hs').1
      have := henvE (i + 1) hevenN
      linarith

end tailLoop

end IvPhiTail

section IvPhi

/-! ## S6: standard normal density -/

/-- `2·pi` (the interval) has lower endpoint at least `1` (kernel evaluation of the Machin series). -/
lemma scale2pi_lo_ge : (1 : ℚ) ≤ (scale 2 pi).lo := by decide +kernel

/-- `√(2π)` lies in the interval `sqrt2pi`. -/
theorem sqrt2pi_sound : Mem (Real.sqrt (2 * Real.pi)) sqrt2pi := by
  have h := scale_sound 2 pi_sound
  have h2 : (((2 : ℚ) : ℝ)) * Real.pi = 2 * Real.pi := by norm_num
  rw [h2] at h
  exact sqrt_sound' _ _ h

lemma sqrt2pi_lo_pos : 0 < sqrt2pi.lo := sqrtLo_pos scale2pi_lo_ge

lemma one_le_sqrtLo_mul {q : ℚ} (hq : 1 ≤ q) : 1 ≤ sqrtLo q * (scaleN : ℚ) := by
  unfold sqrtLo
  rw [if_neg (not_le.mpr (lt_of_lt_of_le one_pos hq))]
  simp only
  rw [div_mul_cancel₀ _ scaleN_pos.ne']
  have h1 : (1 : ℤ) ≤ (q * ((scaleN * scaleN : ℕ) : ℚ)).floor := by
    rw [Rat.le_floor_iff]
    have hS : (1 : ℚ) ≤ ((scaleN * scaleN : ℕ) : ℚ) := by
      rw [scaleN2_cast]; nlinarith [scaleN_ge_one]
    have : (1 : ℚ) ≤ q * ((scaleN * scaleN : ℕ) : ℚ) := by nlinarith
    simpa using this
  have h2 : 1 ≤ (q * ((scaleN * scaleN : ℕ) : ℚ)).floor.toNat := by omega
  have h3 : 0 < Nat.sqrt (q * ((scaleN * scaleN : ℕ) : ℚ)).floor.toNat := Nat.sqrt_pos.mpr h2
  exact_mod_cast h3

lemma sqrt2piF_lo_pos : 0 < sqrt2piF.lo := by
  show 0 < (sqrt2pi.lo * (scaleN : ℚ)).floor
  have h : (1 : ℤ) ≤ (sqrt2pi.lo * (scaleN : ℚ)).floor := by
    rw [Rat.le_floor_iff]
    have h := one_le_sqrtLo_mul scale2pi_lo_ge
    push_cast
    exact h
  omega

/-- `√(2π)` lies in the fixed-point interval `sqrt2piF`. -/
theorem sqrt2piF_sound : Mem (Real.sqrt (2 * Real.pi)) sqrt2piF.toI :=
  mem_mk' sqrt2pi_sound.1 sqrt2pi_sound.2

/-- The fixed-point density enclosure is sound for every rational `z`. -/
theorem phiF_sound (z : ℚ) :
    Mem (Real.exp (-(z : ℝ) ^ 2 / 2) / Real.sqrt (2 * Real.pi)) (phiF z).toI := by
  unfold phiF
  have h1 := expF_sound (-(z * z) / 2)
  have h2 : (((-(z * z) / 2 : ℚ)) : ℝ) = -(z : ℝ) ^ 2 / 2 := by push_cast; ring
  rw [h2] at h1
  exact FI.divPos_sound h1 sqrt2piF_sound (expF_lo_nonneg _) sqrt2piF_lo_pos

/-- The density enclosure is sound for EVERY rational `z`: `exp(-z²/2)/√(2π) ∈ phi z`
(fixed-point quotient `phiF` for `|z| ≤ 1`, exact rational quotient of `expQ (-z²/2)` by the
endpoints of `sqrt2pi` otherwise). -/
theorem phi_sound (z : ℚ) :
    Mem (Real.exp (-(z : ℝ) ^ 2 / 2) / Real.sqrt (2 * Real.pi)) (phi z) := by
  unfold phi
  split_ifs with h
  · exact phiF_sound z
  · simp only
    have he := expQ_sound (-(z * z) / 2)
    have h2 : (((-(z * z) / 2 : ℚ)) : ℝ) = -(z : ℝ) ^ 2 / 2 := by push_cast; ring
    rw [h2] at he
    generalize expQ (-(z * z) / 2) = e at he
    have hs := sqrt2pi_sound
    have hlo : (0 : ℝ) < (sqrt2pi.lo : ℝ) := by exact_mod_cast sqrt2pi_lo_pos
    have hsq : 0 < Real.sqrt (2 * Real.pi) := hlo.trans_le hs.1
    have hhi : (0 : ℝ) < (sqrt2pi.hi : ℝ) := hsq.trans_le hs.2
    have hexp : 0 < Real.exp (-(z : ℝ) ^ 2 / 2) := Real.exp_pos _
    constructor
    · show ((e.lo / sqrt2pi.hi : ℚ) : ℝ) ≤ _
      push_cast
      rcases le_or_gt 0 (e.lo : ℝ) with h0 | h0
      · calc (e.lo : ℝ) / sqrt2pi.hi ≤ (e.lo : ℝ) / Real.sqrt (2 * Real.pi) :=
              div_le_div_of_nonneg_left h0 hsq hs.2
          _ ≤ _ := div_le_div_of_nonneg_right he.1 hsq.le
      · exact (div_neg_of_neg_of_pos h0 hhi).le.trans (div_pos hexp hsq).le
    · show _ ≤ ((e.hi / sqrt2pi.lo : ℚ) : ℝ)
      push_cast
      calc _ ≤ (e.hi : ℝ) / Real.sqrt (2 * Real.pi) := div_le_div_of_nonneg_right he.2 hsq.le
        _ ≤ (e.hi : ℝ) / sqrt2pi.lo := div_le_div_of_nonneg_left (hexp.le.trans he.2) hlo hs.1

example : Mem (Real.exp (-((3 / 2 : ℚ) : ℝ) ^ 2 / 2) / Real.sqrt (2 * Real.pi)) (phi (3 / 2)) :=
  phi_sound _

example : Mem (Real.exp (-((2 ^ 40 : ℚ) : ℝ) ^ 2 / 2) / Real.sqrt (2 * Real.pi)) (phi (2 ^ 40)) :=
  phi_sound _

/-! ## S7: standard normal CDF -/

/-- the body of `PhiTail`, as a function of the pair returned by `phiTailLoop` -/
def PhiTailOf (a : ℚ) (p : ℚ × ℚ) : I :=
  let d : Rat := 1 / ((2 ^ 100 : Nat) : Rat)
  let lo := ratMax (p.1 - d) 0
  let hi := p.2 + d
  let ph := phi a
  ⟨ph.lo / a * lo, ph.hi / a * hi⟩

lemma PhiTail_unfold (a : ℚ) : PhiTail a = PhiTailOf a (phiTailLoop (a * a) 60 1 1 1 0 1) := by
  unfold PhiTail PhiTailOf
  dsimp only

/-- the series branch of `Phi`, as a function of the triple returned by `phiLoop` -/
def PhiSeries (z : ℚ) (p : ℕ × ℕ × ℕ) : I :=
  let s : Rat := (p.1 : Rat) / (scaleN : Rat)
  let term : Rat := (p.2.1 : Rat) / (scaleN : Rat)
  let rho := z * z / ((2 * p.2.2 + 3 : Nat) : Rat)
  if rho > 1 / 2 then
    (if z ≥ 0 then ⟨1 / 2, 1⟩ else ⟨0, 1 / 2⟩)
  else
    let tail := term * rho / (1 - rho)
    let slack := (((p.2.2 + 2 : Nat) : Rat)) * (1 + s) * ((2 ^ 24 : Nat) : Rat) / (scaleN : Rat)
    let S : I := ⟨ratMax (s - slack) 0, s + tail + slack⟩
    let half := mul (phi z) S
    if z ≥ 0 then add (ofRat (1 / 2)) half else sub (ofRat (1 / 2)) half

lemma Phi_unfold (z : ℚ) : Phi z =
    if ratAbs z > 7 then (if z < 0 then PhiTail (ratAbs z) else sub (ofRat 1) (PhiTail (ratAbs z)))
    else PhiSeries z (phiLoop (z * z).num.toNat (z * z).den 400 0
      (ratAbs z * (scaleN : Rat)).ceil.toNat (ratAbs z * (scaleN : Rat)).ceil.toNat) := by
  unfold Phi PhiSeries
  dsimp only

lemma phiR_abs (t : ℝ) : phiR |t| = phiR t := by
  unfold phiR; rw [sq_abs]

lemma phi_soundR (z : ℚ) : Mem (phiR (z : ℝ)) (phi z) := phi_sound z

/-- **Soundness of the far-tail enclosure.** For every rational `a > 0`, the upper-tail mass
`1 − Φ(a) = Φ(−a)` lies in `PhiTail a`: the partial sums of the asymptotic series
`φ(a)/a·(1 − 1/a² + 3/a⁴ − …)` envelope the value (`tail_envelope_even/odd`), and the `rup`
rounding of at most 60 terms is absorbed by the `2^-100` allowance. -/
theorem PhiTail_sound (a : ℚ) (ha : 0 < a) : Mem (Φ (-(a : ℝ))) (PhiTail a) := by
  have haR : (0 : ℝ) < (a : ℝ) := by exact_mod_cast ha
  have hS := FI.SR_pos
  have hφ := phiR_pos (a : ℝ)
  set R : ℝ := Φ (-(a : ℝ)) * (a : ℝ) / phiR (a : ℝ) with hR
  have hRval : phiR (a : ℝ) / (a : ℝ) * R = Φ (-(a : ℝ)) := by rw [hR]; field_simp
  have hR0 : 0 ≤ R := by
    rw [hR]; exact div_nonneg (mul_nonneg (Phi_nonneg _) haR.le) hφ.le
  have hq : 0 < phiR (a : ℝ) / (a : ℝ) := div_pos hφ haR
  have henvE : ∀ n : ℕ, Even n → R ≤ tailS (a : ℝ) n := by
    intro n hn
    have := tail_envelope_even haR hn
    rw [← hRval] at this
    exact le_of_mul_le_mul_left this hq
  have henvO : ∀ n : ℕ, Odd n → tailS (a : ℝ) n ≤ R := by
    intro n hn
    have := tail_envelope_odd haR hn
    rw [← hRval] at this
    exact le_of_mul_le_mul_left this hq
  have hvs : ∀ j : ℕ, tailV (a : ℝ) (j + 1) =
      tailV (a : ℝ) j * (2 * (j : ℝ) + 1) / ((a * a : ℚ) : ℝ) := by
    intro j; rw [tailV_succ haR.ne']; push_cast; ring_nf
  have hinv := phiTailLoop_inv (a * a) (mul_pos ha ha) (tailV (a : ℝ)) (tailS (a : ℝ)) R
    (tailV_zero _) hvs (tailS_succ _) henvE henvO 60 0 1 1 0 1 (by norm_num)
    (by rw [tailV_zero]; norm_num) (by rw [tailV_zero]; norm_num)
    (by rw [tailS_zero]; norm_num)
    (by
      have : (0 : ℝ) ≤ 3600 / FI.SR := by positivity
      push_cast; linarith)
    (by
      have : (0 : ℝ) ≤ 3600 / FI.SR := by positivity
      have := henvE 0 (by decide)
      rw [tailS_zero] at this
      push_cast; linarith)
  rw [PhiTail_unfold]
  generalize phiTailLoop (a * a) 60 (0 + 1) 1 1 0 1 = p at hinv
  obtain ⟨h1, h2⟩ := hinv
  have hd : (3600 : ℝ) / FI.SR ≤ (((1 / ((2 ^ 100 : ℕ) : ℚ) : ℚ)) : ℝ) := by
    rw [SR_eq_pow]; push_cast; norm_num
  have hph := phi_sound a
  change Mem (phiR (a : ℝ)) (phi a) at hph
  unfold PhiTailOf
  simp only
  rw [← hRval]
  constructor
  · show ((((phi a).lo / a * ratMax (p.1 - 1 / ((2 ^ 100 : ℕ) : ℚ)) 0 : ℚ)) : ℝ) ≤ _
    rw [ratMax_eq, Rat.cast_mul, Rat.cast_div, Rat.cast_max, Rat.cast_sub, Rat.cast_zero]
    have hlo' : max ((p.1 : ℝ) - (((1 / ((2 ^ 100 : ℕ) : ℚ) : ℚ)) : ℝ)) 0 ≤ R :=
      max_le (by linarith) hR0
    have hlo0 : (0 : ℝ) ≤ max ((p.1 : ℝ) - (((1 / ((2 ^ 100 : ℕ) : ℚ) : ℚ)) : ℝ)) 0 := le_max_right _ _
    have hq1 : ((phi a).lo : ℝ) / (a : ℝ) ≤ phiR (a : ℝ) / (a : ℝ) :=
      div_le_div_of_nonneg_right hph.1 haR.le
    rcases le_or_gt 0 (((phi a).lo : ℝ) / (a : ℝ)) with h0 | h0
    · exact mul_le_mul hq1 hlo' hlo0 hq.le
    · exact (mul_nonpos_of_nonpos_of_nonneg h0.le hlo0).trans (mul_nonneg hq.le hR0)
  · show _ ≤ ((((phi a).hi / a * (p.2 + 1 / ((2 ^ 100 : ℕ) : ℚ)) : ℚ)) : ℝ)
    rw [Rat.cast_mul, Rat.cast_div, Rat.cast_add]
    have hhi' : R ≤ (p.2 : ℝ) + (((1 / ((2 ^ 100 : ℕ) : ℚ) : ℚ)) : ℝ) := by linarith
    have hq2 : phiR (a : ℝ) / (a : ℝ) ≤ ((phi a).hi : ℝ) / (a : ℝ) :=
      div_le_div_of_nonneg_right hph.2 haR.le
    exact mul_le_mul hq2 hhi' hR0 (hq.le.trans hq2)

example : Mem (Φ (-((8 : ℚ) : ℝ))) (PhiTail 8) := PhiTail_sound 8 (by norm_num)

lemma Phi_ge_half {y : ℝ} (hy : 0 ≤ y) : 1 / 2 ≤ Φ y := by
  have h := Phi_series_lower hy 0
  have h1 : 0 ≤ phG 0 y := Finset.sum_nonneg fun k _ => phT_nonneg hy k
  have h2 := phiR_nonneg y
  nlinarith

lemma Phi_le_one (x : ℝ) : Φ x ≤ 1 := by
  have := Phi_add_neg x
  have := Phi_nonneg (-x)
  linarith

lemma Phi_le_half {y : ℝ} (hy : y ≤ 0) : Φ y ≤ 1 / 2 := by
  have := Phi_add_neg y
  have := Phi_ge_half (y := -y) (by linarith)
  linarith

lemma zn_div_zd (z : ℚ) :
    (((z * z).num.toNat : ℕ) : ℝ) / (((z * z).den : ℕ) : ℝ) = (z : ℝ) ^ 2 := by
  have hnum : 0 ≤ (z * z).num := Rat.num_nonneg.mpr (mul_self_nonneg z)
  have h1 : (((z * z).num.toNat : ℕ) : ℤ) = (z * z).num := Int.toNat_of_nonneg hnum
  have h2 : (((z * z).num.toNat : ℕ) : ℝ) = (((z * z).num : ℤ) : ℝ) := by
    rw [← Int.cast_natCast, h1]
  rw [h2, ← Rat.cast_def (z * z)]
  push_cast; ring

lemma t0_bounds (z : ℚ) :
    |(z : ℝ)| * FI.SR ≤ (((ratAbs z * (scaleN : ℚ)).ceil.toNat : ℕ) : ℝ) ∧
      (((ratAbs z * (scaleN : ℚ)).ceil.toNat : ℕ) : ℝ) ≤ |(z : ℝ)| * FI.SR + 1 := by
  rw [ratAbs_eq]
  set x : ℚ := |z| * (scaleN : ℚ) with hx
  have hx0 : 0 ≤ x := mul_nonneg (abs_nonneg _) scaleN_pos.le
  have h1 : x ≤ (x.ceil : ℚ) := Rat.le_ceil
  have h2 : (x.ceil : ℚ) < x + 1 := Rat.ceil_lt
  have hc0 : 0 ≤ x.ceil := by
    have : (0 : ℚ) ≤ (x.ceil : ℚ) := hx0.trans h1
    exact_mod_cast this
  have e1 : ((x.ceil.toNat : ℕ) : ℤ) = x.ceil := Int.toNat_of_nonneg hc0
  have e2 : ((x.ceil.toNat : ℕ) : ℝ) = ((x.ceil : ℤ) : ℝ) := by
    rw [← Int.cast_natCast, e1]
  have exR : (x : ℝ) = |(z : ℝ)| * FI.SR := by
    rw [hx]; unfold FI.SR; push_cast; rfl
  rw [e2, ← exR]
  constructor
  · exact_mod_cast h1
  · have : ((x.ceil : ℤ) : ℝ) < (x : ℝ) + 1 := by exact_mod_cast h2
    exact this.le

/-- series branch, given the facts about the triple `(sN, tN, K)` returned by `phiLoop` -/
lemma PhiSeries_sound (z : ℚ) (sN tN K : ℕ) (hK : K ≤ 400)
    (hG : phG K |(z : ℝ)| ≤ (sN : ℝ) / FI.SR)
    (hs : (sN : ℝ) / FI.SR - phG K |(z : ℝ)| ≤
      ((K : ℝ) + 1) / FI.SR * (((K : ℝ) + 1) + phG K |(z : ℝ)|))
    (hT : phT K |(z : ℝ)| ≤ (tN : ℝ) / FI.SR) :
    Mem (Φ (z : ℝ)) (PhiSeries z (sN, tN, K)) := by
  set y : ℝ := |(z : ℝ)| with hy
  have hy0 : 0 ≤ y := abs_nonneg _
  have hS := FI.SR_pos
  unfold PhiSeries
  simp only
  split_ifs with hrho hz1 hz2
  · -- fallback, z ≥ 0
    have hzr : (0 : ℝ) ≤ z := by exact_mod_cast hz1
    constructor
    · show (((1 / 2 : ℚ)) : ℝ) ≤ _
      push_cast; exact Phi_ge_half hzr
    · show _ ≤ ((1 : ℚ) : ℝ)
      push_cast; exact Phi_le_one _
  · have hzr : (z : ℝ) ≤ 0 := by exact_mod_cast (not_le.mp hz1).le
    constructor
    · show ((0 : ℚ) : ℝ) ≤ _
      push_cast; exact Phi_nonneg _
    · show _ ≤ (((1 / 2 : ℚ)) : ℝ)
      push_cast; exact Phi_le_half hzr
  all_goals
    -- main branch: common part
    set G : ℝ := phG K y with hGdef
    have hG0 : 0 ≤ G := Finset.sum_nonneg fun k _ => phT_nonneg hy0 k
    set s : ℚ := (sN : ℚ) / (scaleN : ℚ) with hsdef
    have hsR : (s : ℝ) = (sN : ℝ) / FI.SR := by rw [hsdef]; unfold FI.SR; push_cast; rfl
    set term : ℚ := (tN : ℚ) / (scaleN : ℚ) with htermdef
    have htermR : (term : ℝ) = (tN : ℝ) / FI.SR := by rw [htermdef]; unfold FI.SR; push_cast; rfl
    rw [← hsR] at hG hs
    rw [← htermR] at hT
    have hs0 : (0 : ℝ) ≤ s := hG0.trans hG
    set ρ : ℝ := y ^ 2 / (2 * ((K : ℕ) : ℝ) + 3) with hρ
    have hρ0 : 0 ≤ ρ := by positivity
    have hρq : ((z * z / ((2 * K + 3 : ℕ) : ℚ) : ℚ) : ℝ) = ρ := by
      rw [hρ, hy, sq_abs]; push_cast; ring
    have hρhalf : ρ ≤ 1 / 2 := by
      have : (z * z / ((2 * K + 3 : ℕ) : ℚ) : ℚ) ≤ 1 / 2 := not_lt.mp hrho
      have h2 : ((z * z / ((2 * K + 3 : ℕ) : ℚ) : ℚ) : ℝ) ≤ ((1 / 2 : ℚ) : ℝ) := by exact_mod_cast this
      rw [hρq] at h2; push_cast at h2; exact h2
    have hρ1 : ρ < 1 := by linarith
    have hφ := phiR_pos y
    have hlow := Phi_series_lower hy0 K
    have hupp := Phi_series_upper hy0 K (by
      have h3 : (0 : ℝ) < 2 * ((K : ℕ) : ℝ) + 3 := by positivity
      rw [hρ, div_lt_one h3] at hρ1; exact hρ1)
    rw [← hGdef] at hlow hupp
    rw [← hρ] at hupp
    set W : ℝ := (Φ y - 1 / 2) / phiR y with hW
    have hWmul : phiR (z : ℝ) * W = Φ y - 1 / 2 := by
      rw [← phiR_abs (z : ℝ), ← hy, hW]; field_simp
    have hW1 : G ≤ W := by
      rw [hW, le_div_iff₀ hφ]; linarith
    have hW2 : W ≤ G + phT K y * ρ / (1 - ρ) := by
      rw [hW, div_le_iff₀ hφ]; linarith
    set slack : ℚ := ((K + 2 : ℕ) : ℚ) * (1 + s) * ((2 ^ 24 : ℕ) : ℚ) / (scaleN : ℚ) with hslackdef
    have hslackR : (slack : ℝ) = ((K : ℝ) + 2) * (1 + (s : ℝ)) * 2 ^ 24 / FI.SR := by
      rw [hslackdef]; unfold FI.SR; push_cast; ring
    have hKR : (K : ℝ) ≤ 400 := by exact_mod_cast hK
    have hK0 : (0 : ℝ) ≤ K := Nat.cast_nonneg _
    have hslack : (s : ℝ) - G ≤ (slack : ℝ) := by
      rw [hslackR]
      refine hs.trans ?_
      rw [div_mul_eq_mul_div]
      apply div_le_div_of_nonneg_right _ hS.le
      have e1 : ((K : ℝ) + 1) + G ≤ 2 ^ 24 * (1 + (s : ℝ)) := by nlinarith
      have e2 : (0 : ℝ) ≤ 1 + (s : ℝ) := by linarith
      calc ((K : ℝ) + 1) * (((K : ℝ) + 1) + G) ≤ ((K : ℝ) + 2) * (2 ^ 24 * (1 + (s : ℝ))) := by
            apply mul_le_mul (by linarith) e1 (by linarith) (by linarith)
        _ = ((K : ℝ) + 2) * (1 + (s : ℝ)) * 2 ^ 24 := by ring
    have hslack0 : (0 : ℝ) ≤ slack := by rw [hslackR]; positivity
    set tail : ℚ := term * (z * z / ((2 * K + 3 : ℕ) : ℚ)) / (1 - z * z / ((2 * K + 3 : ℕ) : ℚ))
      with htaildef
    have htailR : (tail : ℝ) = (term : ℝ) * ρ / (1 - ρ) := by
      rw [htaildef, Rat.cast_div, Rat.cast_mul, Rat.cast_sub, hρq]; simp
    have hmem : Mem W ⟨ratMax (s - slack) 0, s + tail + slack⟩ := by
      constructor
      · show ((ratMax (s - slack) 0 : ℚ) : ℝ) ≤ W
        rw [ratMax_eq]; push_cast
        exact max_le (by linarith) (hG0.trans hW1)
      · show W ≤ ((s + tail + slack : ℚ) : ℝ)
        rw [Rat.cast_add, Rat.cast_add, htailR]
        have hfrac : phT K y * ρ / (1 - ρ) ≤ (term : ℝ) * ρ / (1 - ρ) := by
          apply div_le_div_of_nonneg_right _ (by linarith)
          exact mul_le_mul_of_nonneg_right hT hρ0
        linarith
    have hmul := mul_sound (phi_soundR z) hmem
    rw [hWmul] at hmul
  · -- z ≥ 0
    have hzr : (0 : ℝ) ≤ z := by exact_mod_cast hz2
    rw [hy, abs_of_nonneg hzr] at hmul
    have h1 := add_sound (ofRat_sound (1 / 2)) hmul
    have : (((1 / 2 : ℚ)) : ℝ) + (Φ (z : ℝ) - 1 / 2) = Φ (z : ℝ) := by push_cast; ring
    rwa [this] at h1
  · -- z < 0
    have hzr : (z : ℝ) < 0 := by exact_mod_cast not_le.mp hz2
    rw [hy, abs_of_neg hzr] at hmul
    have h1 := sub_sound (ofRat_sound (1 / 2)) hmul
    have : (((1 / 2 : ℚ)) : ℝ) - (Φ (-(z : ℝ)) - 1 / 2) = Φ (z : ℝ) := by
      have := Phi_add_neg (z : ℝ); push_cast; linarith
    rwa [this] at h1

/-- the loop result satisfies the hypotheses of `PhiSeries_sound` -/
lemma phiLoop_facts (z : ℚ) :
    ∃ sN tN K : ℕ, phiLoop (z * z).num.toNat (z * z).den 400 0
        (ratAbs z * (scaleN : Rat)).ceil.toNat (ratAbs z * (scaleN : Rat)).ceil.toNat = (sN, tN, K) ∧
      K ≤ 400 ∧ phG K |(z : ℝ)| ≤ (sN : ℝ) / FI.SR ∧
      (sN : ℝ) / FI.SR - phG K |(z : ℝ)| ≤
        ((K : ℝ) + 1) / FI.SR * (((K : ℝ) + 1) + phG K |(z : ℝ)|) ∧
      phT K |(z : ℝ)| ≤ (tN : ℝ) / FI.SR := by
  set zn := (z * z).num.toNat with hzn
  set zd := (z * z).den with hzd
  set t0 := (ratAbs z * (scaleN : Rat)).ceil.toNat with ht0def
  have hzdpos : 0 < zd := (z * z).den_pos
  have hS := FI.SR_pos
  obtain ⟨K, -, hK, hloop⟩ := phiLoop_spec zn zd t0 400 0
  have h00 : sn zn zd t0 0 = t0 := by simp [sn, tn]
  have h01 : tn zn zd t0 0 = t0 := rfl
  rw [h00, h01] at hloop
  refine ⟨sn zn zd t0 K, tn zn zd t0 K, K, hloop, by omega, ?_⟩
  set y : ℝ := |(z : ℝ)| with hy
  have hT0 : phT 0 y = |(z : ℝ)| := rfl
  have hTs : ∀ k : ℕ, phT (k + 1) y = phT k y * (z : ℝ) ^ 2 / (2 * (k : ℝ) + 3) := by
    intro k
    show phT k y * y ^ 2 / (2 * (k : ℝ) + 3) = _
    rw [hy, sq_abs]
  have hratio : ∀ k : ℕ, (zn : ℝ) / ((zd : ℝ) * (2 * (k : ℝ) + 3)) = (z : ℝ) ^ 2 / (2 * (k : ℝ) + 3) := by
    intro k
    rw [← zn_div_zd z, div_div]
  have ht0 : phT 0 y ≤ (tn zn zd t0 0 : ℝ) / FI.SR ∧
      (tn zn zd t0 0 : ℝ) / FI.SR ≤ phT 0 y + 1 / FI.SR := by
    obtain ⟨b1, b2⟩ := t0_bounds z
    rw [h01, hT0]
    constructor
    · rw [le_div_iff₀ hS]; exact b1
    · rw [div_le_iff₀ hS, add_mul, div_mul_cancel₀ _ hS.ne']; exact b2
  have hts : ∀ k : ℕ, (tn zn zd t0 k : ℝ) / FI.SR * ((z : ℝ) ^ 2 / (2 * (k : ℝ) + 3)) ≤
        (tn zn zd t0 (k + 1) : ℝ) / FI.SR ∧
      (tn zn zd t0 (k + 1) : ℝ) / FI.SR ≤
        (tn zn zd t0 k : ℝ) / FI.SR * ((z : ℝ) ^ 2 / (2 * (k : ℝ) + 3)) + 1 / FI.SR := by
    intro k
    obtain ⟨b1, b2⟩ := tn_succ_bounds zn zd t0 hzdpos k
    rw [hratio] at b1 b2
    constructor
    · rw [div_mul_eq_mul_div, div_le_div_iff_of_pos_right hS]; exact b1
    · rw [div_mul_eq_mul_div, ← add_div, div_le_div_iff_of_pos_right hS]; exact b2
  have hsum : ((sn zn zd t0 K : ℕ) : ℝ) / FI.SR =
      ∑ k ∈ Finset.range (K + 1), (tn zn zd t0 k : ℝ) / FI.SR := by
    unfold sn; push_cast; rw [Finset.sum_div]
  refine ⟨?_, ?_, ?_⟩
  · rw [hsum]
    exact sum_T_le_sum_t z (fun k => phT k y) hTs (fun k => (tn zn zd t0 k : ℝ) / FI.SR) ht0 hts _
  · rw [hsum]
    exact sum_t_sub_le z (fun k => phT k y) hT0 hTs (fun k => (tn zn zd t0 k : ℝ) / FI.SR) ht0 hts K
  · exact T_le_t z (fun k => phT k y) hTs (fun k => (tn zn zd t0 k : ℝ) / FI.SR) ht0 hts K

/-- **Soundness of the normal CDF enclosure.** For EVERY rational `z`, the value
`Φ(z) = ∫_{-∞}^{z} exp(-t²/2)/√(2π) dt` lies in the computed interval `Phi z`
(series branch `1/2 ± φ(z)·Σ_{k≤K} |z|^(2k+1)/(2k+1)!!` with geometric tail and rounding slack,
where `K` is the early-exit index of `phiLoop`, or the trivial fallback `[1/2,1]` / `[0,1/2]`, for
`|z| ≤ 7`; enveloping asymptotic series `PhiTail |z|` (see `PhiTail_sound`) for `|z| > 7`). -/
theorem Phi_sound (z : ℚ) : Mem (Φ (z : ℝ)) (Phi z) := by
  rw [Phi_unfold, ratAbs_eq]
  split_ifs with h7 hneg
  · -- |z| > 7, z < 0
    have hzr : (z : ℝ) < 0 := by exact_mod_cast hneg
    have h := PhiTail_sound |z| (abs_pos.mpr (ne_of_lt hneg))
    rwa [Rat.cast_abs, abs_of_neg hzr, neg_neg] at h
  · -- |z| > 7, z ≥ 0
    have hz0 : z ≠ 0 := by
      rintro rfl; simp at h7; linarith
    have hzr : (0 : ℝ) ≤ z := by exact_mod_cast not_lt.mp hneg
    have h := PhiTail_sound |z| (abs_pos.mpr hz0)
    rw [Rat.cast_abs, abs_of_nonneg hzr] at h
    have h1 := sub_sound (ofRat_sound 1) h
    have : ((1 : ℚ) : ℝ) - Φ (-(z : ℝ)) = Φ (z : ℝ) := by
      have := Phi_add_neg (z : ℝ); push_cast; linarith
    rwa [this] at h1
  · -- series branch
    obtain ⟨sN, tN, K, hloop, hK, hG, hs, hT⟩ := phiLoop_facts z
    rw [ratAbs_eq] at hloop
    rw [hloop]
    exact PhiSeries_sound z sN tN K hK hG hs hT

example : Mem (Φ ((-5 / 4 : ℚ) : ℝ)) (Phi (-5 / 4)) := Phi_sound _
example : Mem (Φ ((9 : ℚ) : ℝ)) (Phi 9) := Phi_sound _

end IvPhi

end MV.I
