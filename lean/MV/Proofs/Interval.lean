import Mathlib
import MV.Model.Interval
/-!
# Soundness of the rational interval arithmetic in `MV/Model/Interval.lean`

`Mem x a` says that the real number `x` lies in the rational interval `a`.  Every `theorem`
below states that one of the executable enclosure functions is *sound*: the exact real value
lies in the computed interval.  Helper results use `lemma`.

Hypotheses that turned out to be necessary are stated explicitly and are accompanied by
counterexample lemmas (`inv_unsound_through_zero`, `expQ_unsound_large`).
-/

namespace MV.I

section IvBase

/-- A real number lies in a rational interval. -/
def Mem (x : ℝ) (a : I) : Prop := ((a.lo : ℚ) : ℝ) ≤ x ∧ x ≤ ((a.hi : ℚ) : ℝ)

/-! ## S1: rounding and arithmetic -/

lemma ratMax_eq (a b : ℚ) : ratMax a b = max a b := by
  unfold ratMax; split_ifs with h
  · exact (max_eq_right h.le).symm
  · exact (max_eq_left (not_lt.mp h)).symm

lemma ratMin_eq (a b : ℚ) : ratMin a b = min a b := by
  unfold ratMin; split_ifs with h
  · exact (min_eq_left h.le).symm
  · exact (min_eq_right (not_lt.mp h)).symm

lemma ratAbs_eq (q : ℚ) : ratAbs q = |q| := by
  unfold ratAbs; split_ifs with h
  · exact (abs_of_neg h).symm
  · exact (abs_of_nonneg (not_lt.mp h)).symm

lemma scaleN_pos : (0 : ℚ) < (scaleN : ℚ) := by
  have : 0 < scaleN := by unfold scaleN; positivity
  exact_mod_cast this

lemma scaleN_posR : (0 : ℝ) < ((scaleN : ℚ) : ℝ) := by exact_mod_cast scaleN_pos

lemma scaleN_ge_one : (1 : ℚ) ≤ (scaleN : ℚ) := by
  have : 1 ≤ scaleN := by unfold scaleN; exact Nat.one_le_two_pow
  exact_mod_cast this

/-- Rounding down to the dyadic grid never increases a rational. -/
theorem rdn_le (q : ℚ) : rdn q ≤ q := by
  unfold rdn
  rw [div_le_iff₀ scaleN_pos]
  exact Rat.floor_le _

/-- Rounding up to the dyadic grid never decreases a rational. -/
theorem le_rup (q : ℚ) : q ≤ rup q := by
  unfold rup
  rw [le_div_iff₀ scaleN_pos]
  exact Rat.le_ceil

example : rdn (1 / 3) ≤ 1 / 3 ∧ (1 / 3 : ℚ) ≤ rup (1 / 3) := ⟨rdn_le _, le_rup _⟩

lemma lt_rdn_add (q : ℚ) : q < rdn q + 1 / (scaleN : ℚ) := by
  unfold rdn
  rw [← add_div, lt_div_iff₀ scaleN_pos]
  have := Rat.lt_floor_add_one (q * (scaleN : ℚ))
  push_cast at this
  exact this

lemma rup_lt_add (q : ℚ) : rup q < q + 1 / (scaleN : ℚ) := by
  unfold rup
  rw [div_lt_iff₀ scaleN_pos, add_mul, one_div, inv_mul_cancel₀ scaleN_pos.ne']
  exact Rat.ceil_lt

lemma rdn_mono {p q : ℚ} (h : p ≤ q) : rdn p ≤ rdn q := by
  unfold rdn
  apply div_le_div_of_nonneg_right _ scaleN_pos.le
  have : (p * (scaleN : ℚ)).floor ≤ (q * (scaleN : ℚ)).floor := by
    rw [Rat.le_floor_iff]
    exact (Rat.floor_le _).trans (mul_le_mul_of_nonneg_right h scaleN_pos.le)
  exact_mod_cast this

lemma rup_mono {p q : ℚ} (h : p ≤ q) : rup p ≤ rup q := by
  unfold rup
  apply div_le_div_of_nonneg_right _ scaleN_pos.le
  have : (p * (scaleN : ℚ)).ceil ≤ (q * (scaleN : ℚ)).ceil := by
    rw [Rat.ceil_le_iff]
    exact (mul_le_mul_of_nonneg_right h scaleN_pos.le).trans Rat.le_ceil
  exact_mod_cast this

/-- Integers are on the rounding grid. -/
lemma rdn_intCast (z : ℤ) : rdn (z : ℚ) = z := by
  unfold rdn
  have h : ((z : ℚ) * (scaleN : ℚ)) = ((z * (scaleN : ℤ) : ℤ) : ℚ) := by push_cast; rfl
  rw [h, Rat.floor_intCast]
  push_cast
  field_simp [scaleN_pos.ne']

lemma rdn_nonneg {q : ℚ} (h : 0 ≤ q) : 0 ≤ rdn q := by
  have := rdn_mono h
  have h0 : rdn 0 = 0 := by simpa using rdn_intCast 0
  rwa [h0] at this

lemma one_le_rdn {q : ℚ} (h : 1 ≤ q) : 1 ≤ rdn q := by
  have := rdn_mono h
  have h0 : rdn 1 = 1 := by simpa using rdn_intCast 1
  rwa [h0] at this

lemma rdn_leR (q : ℚ) : ((rdn q : ℚ) : ℝ) ≤ (q : ℝ) := by exact_mod_cast rdn_le q
lemma le_rupR (q : ℚ) : (q : ℝ) ≤ ((rup q : ℚ) : ℝ) := by exact_mod_cast le_rup q

lemma mem_mk' {x : ℝ} {l h : ℚ} (h1 : (l : ℝ) ≤ x) (h2 : x ≤ (h : ℝ)) : Mem x (mk' l h) :=
  ⟨(rdn_leR l).trans h1, h2.trans (le_rupR h)⟩

lemma Mem.mono {x : ℝ} {a b : I} (h : Mem x a) (hl : b.lo ≤ a.lo) (hh : a.hi ≤ b.hi) : Mem x b :=
  ⟨(by exact_mod_cast hl : (b.lo : ℝ) ≤ a.lo).trans h.1,
   h.2.trans (by exact_mod_cast hh : (a.hi : ℝ) ≤ b.hi)⟩

/-- Every rational is enclosed by its point interval. -/
theorem ofRat_sound (q : ℚ) : Mem (q : ℝ) (ofRat q) := ⟨le_refl _, le_refl _⟩

/-- Interval addition encloses the sum. -/
theorem add_sound {x y : ℝ} {a b : I} (hx : Mem x a) (hy : Mem y b) : Mem (x + y) (add a b) := by
  apply mem_mk'
  · push_cast; exact add_le_add hx.1 hy.1
  · push_cast; exact add_le_add hx.2 hy.2

/-- Interval negation encloses the negation. -/
theorem neg_sound {x : ℝ} {a : I} (hx : Mem x a) : Mem (-x) (neg a) := by
  constructor
  · show ((-a.hi : ℚ) : ℝ) ≤ -x
    push_cast; exact neg_le_neg hx.2
  · show -x ≤ ((-a.lo : ℚ) : ℝ)
    push_cast; exact neg_le_neg hx.1

/-- Interval subtraction encloses the difference. -/
theorem sub_sound {x y : ℝ} {a b : I} (hx : Mem x a) (hy : Mem y b) : Mem (x - y) (sub a b) := by
  rw [sub_eq_add_neg]; exact add_sound hx (neg_sound hy)

lemma mul_bounds {l h x c : ℝ} (h1 : l ≤ x) (h2 : x ≤ h) :
    min (l * c) (h * c) ≤ x * c ∧ x * c ≤ max (l * c) (h * c) := by
  rcases le_total 0 c with hc | hc
  · exact ⟨(min_le_left _ _).trans (mul_le_mul_of_nonneg_right h1 hc),
      (mul_le_mul_of_nonneg_right h2 hc).trans (le_max_right _ _)⟩
  · exact ⟨(min_le_right _ _).trans (mul_le_mul_of_nonpos_right h2 hc),
      (mul_le_mul_of_nonpos_right h1 hc).trans (le_max_left _ _)⟩

/-- Interval multiplication encloses the product. -/
theorem mul_sound {x y : ℝ} {a b : I} (hx : Mem x a) (hy : Mem y b) : Mem (x * y) (mul a b) := by
  obtain ⟨hx1, hx2⟩ := hx
  obtain ⟨hy1, hy2⟩ := hy
  unfold mul
  simp only [ratMin_eq, ratMax_eq]
  apply mem_mk'
  · push_cast
    have h1 := (mul_bounds (c := y) hx1 hx2).1
    have h2 := (mul_bounds (c := (a.lo : ℝ)) hy1 hy2).1
    have h3 := (mul_bounds (c := (a.hi : ℝ)) hy1 hy2).1
    rw [mul_comm (b.lo : ℝ), mul_comm (b.hi : ℝ), mul_comm y] at h2 h3
    exact (min_le_min h2 h3).trans h1
  · push_cast
    have h1 := (mul_bounds (c := y) hx1 hx2).2
    have h2 := (mul_bounds (c := (a.lo : ℝ)) hy1 hy2).2
    have h3 := (mul_bounds (c := (a.hi : ℝ)) hy1 hy2).2
    rw [mul_comm (b.lo : ℝ), mul_comm (b.hi : ℝ), mul_comm y] at h2 h3
    exact h1.trans (max_le_max h2 h3)

/-- Scaling an interval by a rational constant encloses the scaled value. -/
theorem scale_sound (c : ℚ) {x : ℝ} {a : I} (hx : Mem x a) : Mem ((c : ℝ) * x) (scale c a) :=
  mul_sound (ofRat_sound c) hx

/-- Interval reciprocal encloses the reciprocal, when the interval excludes zero. -/
theorem inv_sound {x : ℝ} {a : I} (hx : Mem x a) (h0 : 0 < a.lo ∨ a.hi < 0) : Mem x⁻¹ (inv a) := by
  obtain ⟨hx1, hx2⟩ := hx
  unfold inv
  rw [if_pos (by simpa using h0)]
  apply mem_mk'
  · push_cast
    rcases h0 with h | h
    · have hl : (0 : ℝ) < a.lo := by exact_mod_cast h
      have hxp : 0 < x := hl.trans_le hx1
      rw [one_div]
      exact inv_anti₀ hxp hx2
    · have hh : (a.hi : ℝ) < 0 := by exact_mod_cast h
      have hxn : x < 0 := hx2.trans_lt hh
      rw [one_div]
      exact (inv_le_inv_of_neg hh hxn).mpr hx2
  · push_cast
    rcases h0 with h | h
    · have hl : (0 : ℝ) < a.lo := by exact_mod_cast h
      rw [one_div]
      exact inv_anti₀ hl hx1
    · have hh : (a.hi : ℝ) < 0 := by exact_mod_cast h
      have hxn : x < 0 := hx2.trans_lt hh
      rw [one_div]
      exact (inv_le_inv_of_neg hxn (hx1.trans_lt hxn)).mpr hx1

/-- Interval division encloses the quotient, when the divisor interval excludes zero. -/
theorem div_sound {x y : ℝ} {a b : I} (hx : Mem x a) (hy : Mem y b) (h0 : 0 < b.lo ∨ b.hi < 0) :
    Mem (x / y) (div a b) := by
  rw [div_eq_mul_inv]; exact mul_sound hx (inv_sound hy h0)

/-- Interval squaring encloses the square. -/
theorem sq_sound {x : ℝ} {a : I} (hx : Mem x a) : Mem (x ^ 2) (sq a) := by
  obtain ⟨hx1, hx2⟩ := hx
  unfold sq
  split_ifs with h1 h2
  · have hl : (0 : ℝ) ≤ a.lo := by exact_mod_cast h1
    apply mem_mk' <;> push_cast <;> nlinarith
  · have hh : (a.hi : ℝ) ≤ 0 := by exact_mod_cast h2
    apply mem_mk' <;> push_cast <;> nlinarith
  · rw [ratMax_eq]
    apply mem_mk'
    · push_cast; positivity
    · push_cast
      rcases le_total 0 x with hx0 | hx0
      · exact le_max_of_le_right (by nlinarith)
      · exact le_max_of_le_left (by nlinarith)

/-- The hull encloses everything its first argument encloses. -/
theorem hull_sound_left {x : ℝ} {a b : I} (hx : Mem x a) : Mem x (hull a b) := by
  apply hx.mono
  · show ratMin a.lo b.lo ≤ a.lo
    rw [ratMin_eq]; exact min_le_left _ _
  · show a.hi ≤ ratMax a.hi b.hi
    rw [ratMax_eq]; exact le_max_left _ _

/-- The hull encloses everything its second argument encloses. -/
theorem hull_sound_right {x : ℝ} {a b : I} (hx : Mem x b) : Mem x (hull a b) := by
  apply hx.mono
  · show ratMin a.lo b.lo ≤ b.lo
    rw [ratMin_eq]; exact min_le_right _ _
  · show b.hi ≤ ratMax a.hi b.hi
    rw [ratMax_eq]; exact le_max_right _ _

/-- Interval absolute value encloses the absolute value. -/
theorem abs_sound {x : ℝ} {a : I} (hx : Mem x a) : Mem |x| (abs a) := by
  unfold abs
  split_ifs with h1 h2
  · have hl : (0 : ℝ) ≤ a.lo := by exact_mod_cast h1
    rw [abs_of_nonneg (hl.trans hx.1)]; exact hx
  · have hh : (a.hi : ℝ) ≤ 0 := by exact_mod_cast h2
    rw [abs_of_nonpos (hx.2.trans hh)]; exact neg_sound hx
  · constructor
    · show ((0 : ℚ) : ℝ) ≤ |x|
      push_cast; exact abs_nonneg x
    · show |x| ≤ ((ratMax (-a.lo) a.hi : ℚ) : ℝ)
      rw [ratMax_eq]; push_cast
      rw [abs_le]
      constructor
      · have := le_max_left (-(a.lo : ℝ)) a.hi
        linarith [hx.1]
      · exact hx.2.trans (le_max_right _ _)

/-- The side condition of `inv_sound` cannot be dropped: for an interval through zero, `inv`
returns `[-2^128, 2^128]`, which does not contain `1/x` for tiny `x ≠ 0` in the interval. -/
lemma inv_unsound_through_zero :
    Mem ((2 : ℝ) ^ (-200 : ℤ)) ⟨-1, 1⟩ ∧ ¬ Mem (((2 : ℝ) ^ (-200 : ℤ))⁻¹) (inv ⟨-1, 1⟩) := by
  constructor
  · constructor
    · show ((-1 : ℚ) : ℝ) ≤ _
      have : (0 : ℝ) < 2 ^ (-200 : ℤ) := by positivity
      push_cast; linarith
    · show _ ≤ ((1 : ℚ) : ℝ)
      push_cast
      exact zpow_le_one_of_nonpos₀ (by norm_num) (by norm_num)
  · intro h
    have h2 : ((2 : ℝ) ^ (-200 : ℤ))⁻¹ ≤ (((inv ⟨-1, 1⟩).hi : ℚ) : ℝ) := h.2
    have h3 : (inv ⟨-1, 1⟩).hi = (scaleN : ℚ) := by
      unfold inv; rw [if_neg (by norm_num)]
    rw [h3, ← zpow_neg] at h2
    have h4 : ((scaleN : ℚ) : ℝ) = (2 : ℝ) ^ (128 : ℤ) := by
      unfold scaleN prec; push_cast; norm_num
    rw [h4] at h2
    have := (zpow_le_zpow_iff_right₀ (by norm_num : (1 : ℝ) < 2)).mp h2
    norm_num at this

/-! ### non-vacuity examples for the arithmetic soundness theorems -/

lemma mem_third : Mem (1 / 3 : ℝ) (ofRat (1 / 3)) := by
  simpa using ofRat_sound (1 / 3)

lemma mem_neg_two : Mem (-2 : ℝ) (ofRat (-2)) := by
  simpa using ofRat_sound (-2)

example : Mem ((1 / 3 : ℝ) + -2) (add (ofRat (1 / 3)) (ofRat (-2))) := add_sound mem_third mem_neg_two
example : Mem (-(1 / 3 : ℝ)) (neg (ofRat (1 / 3))) := neg_sound mem_third
example : Mem ((1 / 3 : ℝ) - -2) (sub (ofRat (1 / 3)) (ofRat (-2))) := sub_sound mem_third mem_neg_two
example : Mem ((1 / 3 : ℝ) * -2) (mul (ofRat (1 / 3)) (ofRat (-2))) := mul_sound mem_third mem_neg_two
example : Mem (((5 : ℚ) : ℝ) * (1 / 3 : ℝ)) (scale 5 (ofRat (1 / 3))) := scale_sound 5 mem_third
example : Mem ((-2 : ℝ)⁻¹) (inv (ofRat (-2))) := inv_sound mem_neg_two (Or.inr (by norm_num [ofRat]))
example : Mem ((1 / 3 : ℝ) / -2) (div (ofRat (1 / 3)) (ofRat (-2))) :=
  div_sound mem_third mem_neg_two (Or.inr (by norm_num [ofRat]))
example : Mem ((-2 : ℝ) ^ 2) (sq (ofRat (-2))) := sq_sound mem_neg_two
example : Mem |(-2 : ℝ)| (abs (ofRat (-2))) := abs_sound mem_neg_two
example : Mem (-2 : ℝ) (hull (ofRat (1 / 3)) (ofRat (-2))) := hull_sound_right mem_neg_two
example : Mem (1 / 3 : ℝ) (hull (ofRat (1 / 3)) (ofRat (-2))) := hull_sound_left mem_third

end IvBase

section IvSqrt

/-! ## S2: square root -/

lemma scaleN2_cast : (((scaleN * scaleN : ℕ)) : ℚ) = (scaleN : ℚ) ^ 2 := by
  push_cast; ring

lemma sqrtLo_nonneg (q : ℚ) : 0 ≤ sqrtLo q := by
  unfold sqrtLo
  split_ifs
  · exact le_refl _
  · exact div_nonneg (Nat.cast_nonneg _) scaleN_pos.le

lemma sqrtHi_nonneg (q : ℚ) : 0 ≤ sqrtHi q := by
  unfold sqrtHi
  split_ifs
  · exact le_refl _
  · exact div_nonneg (Nat.cast_nonneg _) scaleN_pos.le

lemma sqrtLo_sq_le {q : ℚ} (hq : 0 < q) : (sqrtLo q) ^ 2 ≤ q := by
  unfold sqrtLo
  rw [if_neg (not_le.mpr hq)]
  simp only
  set n : ℕ := (q * ((scaleN * scaleN : ℕ) : ℚ)).floor.toNat with hn
  have hS := scaleN_pos
  have hfl : 0 ≤ (q * ((scaleN * scaleN : ℕ) : ℚ)).floor := by
    rw [Rat.le_floor_iff]
    have : (0 : ℚ) ≤ ((scaleN * scaleN : ℕ) : ℚ) := Nat.cast_nonneg _
    simpa using mul_nonneg hq.le this
  have hnq : (n : ℚ) ≤ q * (scaleN : ℚ) ^ 2 := by
    have h1 : ((n : ℕ) : ℤ) = (q * ((scaleN * scaleN : ℕ) : ℚ)).floor := Int.toNat_of_nonneg hfl
    have h2 : ((n : ℕ) : ℚ) = (((q * ((scaleN * scaleN : ℕ) : ℚ)).floor : ℤ) : ℚ) := by
      rw [← h1]; simp
    rw [h2, ← scaleN2_cast]
    exact Rat.floor_le _
  have hs : ((Nat.sqrt n : ℕ) : ℚ) ^ 2 ≤ (n : ℚ) := by
    exact_mod_cast Nat.sqrt_le' n
  rw [div_pow, div_le_iff₀ (by positivity)]
  exact hs.trans hnq

lemma le_sqrtHi_sq {q : ℚ} (hq : 0 < q) : q ≤ (sqrtHi q) ^ 2 := by
  unfold sqrtHi
  rw [if_neg (not_le.mpr hq)]
  simp only
  set n : ℕ := (q * ((scaleN * scaleN : ℕ) : ℚ)).ceil.toNat with hn
  have hS := scaleN_pos
  have hnq : q * (scaleN : ℚ) ^ 2 ≤ (n : ℚ) := by
    have h1 : (q * ((scaleN * scaleN : ℕ) : ℚ)).ceil ≤ ((n : ℕ) : ℤ) := Int.self_le_toNat _
    have h2 : (((q * ((scaleN * scaleN : ℕ) : ℚ)).ceil : ℤ) : ℚ) ≤ ((n : ℕ) : ℚ) := by
      exact_mod_cast h1
    rw [← scaleN2_cast]
    exact Rat.le_ceil.trans h2
  have hs : (n : ℚ) ≤ ((Nat.sqrt n + 1 : ℕ) : ℚ) ^ 2 := by
    exact_mod_cast (Nat.lt_succ_sqrt' n).le
  rw [div_pow, le_div_iff₀ (by positivity)]
  exact hnq.trans hs

lemma sqrtLo_le_sqrt (q : ℚ) : ((sqrtLo q : ℚ) : ℝ) ≤ Real.sqrt (q : ℝ) := by
  rcases le_or_gt q 0 with hq | hq
  · have : sqrtLo q = 0 := by unfold sqrtLo; rw [if_pos hq]
    rw [this]; simp
  · apply Real.le_sqrt_of_sq_le
    exact_mod_cast sqrtLo_sq_le hq

lemma sqrt_le_sqrtHi (q : ℚ) : Real.sqrt (q : ℝ) ≤ ((sqrtHi q : ℚ) : ℝ) := by
  rcases le_or_gt q 0 with hq | hq
  · have : sqrtHi q = 0 := by unfold sqrtHi; rw [if_pos hq]
    rw [this, Real.sqrt_eq_zero_of_nonpos (by exact_mod_cast hq)]; simp
  · rw [Real.sqrt_le_left (by exact_mod_cast sqrtHi_nonneg q)]
    exact_mod_cast le_sqrtHi_sq hq

/-- Without any sign hypothesis: `Real.sqrt` of a point of `a` lies in `sqrt a`
(recall `Real.sqrt x = 0` for `x ≤ 0`, and `sqrtLo`/`sqrtHi` return `0` on nonpositive input). -/
theorem sqrt_sound' (a : I) (x : ℝ) (h : Mem x a) : Mem (Real.sqrt x) (sqrt a) :=
  ⟨(sqrtLo_le_sqrt a.lo).trans (Real.sqrt_le_sqrt h.1),
   (Real.sqrt_le_sqrt h.2).trans (sqrt_le_sqrtHi a.hi)⟩

/-- The square-root enclosure is sound: if `x ∈ a` and `a` is nonnegative then `√x ∈ sqrt a`. -/
theorem sqrt_sound (a : I) (x : ℝ) (h : Mem x a) (_h0 : 0 ≤ a.lo) : Mem (Real.sqrt x) (sqrt a) :=
  sqrt_sound' a x h

example : Mem (Real.sqrt 2) (sqrt (ofRat 2)) := by
  have := sqrt_sound (ofRat 2) 2 (by simpa using ofRat_sound 2) (by norm_num [ofRat])
  exact this

/-- The lower endpoint of `sqrt a` is positive as soon as `a.lo ≥ 1`. -/
lemma sqrtLo_pos {q : ℚ} (hq : 1 ≤ q) : 0 < sqrtLo q := by
  unfold sqrtLo
  rw [if_neg (not_le.mpr (lt_of_lt_of_le one_pos hq))]
  simp only
  apply div_pos _ scaleN_pos
  have h1 : (1 : ℤ) ≤ (q * ((scaleN * scaleN : ℕ) : ℚ)).floor := by
    rw [Rat.le_floor_iff]
    have hS : (1 : ℚ) ≤ ((scaleN * scaleN : ℕ) : ℚ) := by
      rw [scaleN2_cast]; nlinarith [scaleN_ge_one]
    have : (1 : ℚ) ≤ q * ((scaleN * scaleN : ℕ) : ℚ) := by nlinarith
    simpa using this
  have h2 : 1 ≤ (q * ((scaleN * scaleN : ℕ) : ℚ)).floor.toNat := by omega
  have h3 : 0 < Nat.sqrt (q * ((scaleN * scaleN : ℕ) : ℚ)).floor.toNat := Nat.sqrt_pos.mpr h2
  exact_mod_cast h3

end IvSqrt

section IvExp

open Finset

/-! ## S2: the `exp` enclosure -/

/-! ### the list folds of the model in closed form -/

lemma ratPowNat_eq (q : ℚ) (n : ℕ) : ratPowNat q n = q ^ n := by
  unfold ratPowNat
  induction n with
  | zero => simp
  | succ n ih => rw [List.range_succ, List.foldl_append, ih]; simp [pow_succ]

/-- The state `(partial sum, last term)` of the Taylor loop after `n` steps. -/
lemma expTaylor_fold (r : ℚ) (n : ℕ) :
    (List.range n).foldl (fun (p : ℚ × ℚ) k =>
      let term' := p.2 * r / ((k + 1 : Nat) : ℚ); (p.1 + term', term')) ((1 : ℚ), (1 : ℚ))
      = (∑ m ∈ range (n + 1), r ^ m / (m.factorial : ℚ), r ^ n / (n.factorial : ℚ)) := by
  induction n with
  | zero => simp
  | succ n ih =>
    rw [List.range_succ, List.foldl_append, ih]
    have hn : ((n : ℚ) + 1) ≠ 0 := by positivity
    have hf : ((n.factorial : ℚ)) ≠ 0 := by positivity
    have hterm : r ^ n / (n.factorial : ℚ) * r / (((n + 1 : ℕ)) : ℚ)
        = r ^ (n + 1) / ((n + 1).factorial : ℚ) := by
      rw [Nat.factorial_succ]; push_cast; field_simp; ring
    simp only [List.foldl_cons, List.foldl_nil]
    rw [hterm, Finset.sum_range_succ _ (n + 1)]

lemma expTaylor_eq (r : ℚ) (n : ℕ) :
    expTaylor r n = ∑ m ∈ range (n + 1), r ^ m / (m.factorial : ℚ) := by
  have := expTaylor_fold r n
  unfold expTaylor
  simp only [] at this ⊢
  rw [this]

lemma factFold_eq (n : ℕ) :
    (List.range n).foldl (fun a i => a * (i + 1)) 1 = n.factorial := by
  induction n with
  | zero => simp
  | succ n ih =>
    rw [List.range_succ, List.foldl_append, ih]
    simp [Nat.factorial_succ, Nat.mul_comm]

/-! ### argument reduction -/

/-- The number of halvings chosen by `expQ`. -/
def expK (q : ℚ) : ℕ :=
  (List.range 64).foldl (fun k _ => if ratAbs q / (2 ^ k : Nat) > 1 / 2 then k + 1 else k) 0

lemma expK_fold_inv (q : ℚ) (n : ℕ) :
    let k := (List.range n).foldl
      (fun k _ => if ratAbs q / (2 ^ k : Nat) > 1 / 2 then k + 1 else k) 0
    k ≤ n ∧ (k < n → |q| / (2 : ℚ) ^ k ≤ 1 / 2) := by
  induction n with
  | zero => simp
  | succ n ih =>
    rw [List.range_succ, List.foldl_append]
    simp only [List.foldl_cons, List.foldl_nil]
    set k := (List.range n).foldl
      (fun k _ => if ratAbs q / (2 ^ k : Nat) > 1 / 2 then k + 1 else k) 0 with hk
    obtain ⟨h1, h2⟩ := ih
    split_ifs with hc
    · refine ⟨by omega, fun hlt => ?_⟩
      have hkn : k < n := by omega
      have := h2 hkn
      rw [ratAbs_eq] at hc
      push_cast at hc
      exact absurd this (not_le.mpr hc)
    · refine ⟨by omega, fun _ => ?_⟩
      rw [ratAbs_eq] at hc
      push_cast at hc
      exact not_lt.mp hc

lemma expK_spec (q : ℚ) (hq : |q| ≤ 2 ^ 63) : |q| / (2 : ℚ) ^ (expK q) ≤ 1 / 2 := by
  obtain ⟨h1, h2⟩ := expK_fold_inv q 64
  change expK q ≤ 64 at h1
  change expK q < 64 → _ at h2
  rcases Nat.lt_or_ge (expK q) 64 with h | h
  · exact h2 h
  · have : expK q = 64 := le_antisymm h1 h
    rw [this, div_le_iff₀ (by positivity)]
    calc |q| ≤ 2 ^ 63 := hq
      _ = 1 / 2 * 2 ^ 64 := by norm_num

/-! ### the base enclosure -/

/-- The Taylor remainder bound used by `expQ`. -/
def expRem (x : ℚ) : ℚ :=
  2 * ratPowNat (ratAbs x) (40 + 1) /
    (((List.range (40 + 1)).foldl (fun a i => a * (i + 1)) 1 : ℕ) : ℚ)

/-- The enclosure of `exp (q / 2^k)` computed by `expQ` before the squarings. -/
def expBase (q : ℚ) : I :=
  let r := rdn (q / ((2 ^ expK q : Nat) : ℚ))
  let r2 := r + 1 / (scaleN : ℚ)
  ⟨ratMax (rdn (expTaylor r 40 - expRem r)) 0, rup (expTaylor r2 40 + expRem r2)⟩

lemma expQ_eq (q : ℚ) :
    expQ q = (List.range (expK q)).foldl (fun acc _ => sq acc) (expBase q) := rfl

lemma expRem_eq (x : ℚ) : expRem x = 2 * |x| ^ 41 / ((41).factorial : ℚ) := by
  unfold expRem
  rw [ratPowNat_eq, ratAbs_eq, factFold_eq]

/-! ### the Taylor remainder over ℝ -/

lemma two_le_scaleN : (2 : ℚ) ≤ (scaleN : ℚ) := by
  have : 2 ≤ scaleN := by unfold scaleN prec; norm_num
  exact_mod_cast this

lemma exp_taylor_bound (x : ℝ) (hx : |x| ≤ 1) :
    |Real.exp x - ∑ m ∈ range 41, x ^ m / (m.factorial : ℝ)|
      ≤ 2 * |x| ^ 41 / ((41).factorial : ℝ) := by
  have h := Real.exp_bound hx (n := 41) (by norm_num)
  refine h.trans ?_
  have hF : (0 : ℝ) < ((41).factorial : ℝ) := by positivity
  generalize ((41).factorial : ℝ) = F at hF ⊢
  have h2 : ((Nat.succ 41 : ℕ) : ℝ) / (F * ((41 : ℕ) : ℝ)) ≤ 2 / F := by
    rw [div_le_div_iff₀ (by positivity) hF]
    push_cast
    nlinarith
  calc |x| ^ 41 * (((Nat.succ 41 : ℕ) : ℝ) / (F * ((41 : ℕ) : ℝ)))
      ≤ |x| ^ 41 * (2 / F) := mul_le_mul_of_nonneg_left h2 (by positivity)
    _ = 2 * |x| ^ 41 / F := by ring

/-! ### the Taylor remainder for nonpositive arguments (alternating series) -/

lemma hasDerivAt_expSum (n : ℕ) (x : ℝ) :
    HasDerivAt (fun y : ℝ => ∑ m ∈ range (n + 1), y ^ m / (m.factorial : ℝ))
      (∑ m ∈ range n, x ^ m / (m.factorial : ℝ)) x := by
  induction n with
  | zero => simpa using hasDerivAt_const x (1 : ℝ)
  | succ n ih =>
    have h1 : HasDerivAt (fun y : ℝ => y ^ (n + 1) / ((n + 1).factorial : ℝ))
        (x ^ n / (n.factorial : ℝ)) x := by
      have h := (hasDerivAt_pow (n + 1) x).div_const ((n + 1).factorial : ℝ)
      refine h.congr_deriv ?_
      have hn : ((n : ℝ) + 1) ≠ 0 := by positivity
      have hf : ((n.factorial : ℝ)) ≠ 0 := by positivity
      rw [Nat.factorial_succ, Nat.add_sub_cancel]; push_cast; field_simp
    have h2 := ih.fun_add h1
    simp only [Finset.sum_range_succ _ (n + 1)]
    rw [Finset.sum_range_succ _ n]
    exact h2

/-- For `x ≤ 0` the Taylor remainders of `exp` alternate in sign. -/
lemma expSum_alt_nonneg (n : ℕ) : ∀ x : ℝ, x ≤ 0 →
    0 ≤ (-1) ^ n * (Real.exp x - ∑ m ∈ range n, x ^ m / (m.factorial : ℝ)) := by
  induction n with
  | zero => intro x _; simpa using (Real.exp_pos x).le
  | succ n ih =>
    intro x hx
    set G : ℝ → ℝ := fun y =>
      (-1) ^ (n + 1) * (Real.exp y - ∑ m ∈ range (n + 1), y ^ m / (m.factorial : ℝ)) with hGdef
    have hG : ∀ y, HasDerivAt G
        (-((-1) ^ n * (Real.exp y - ∑ m ∈ range n, y ^ m / (m.factorial : ℝ)))) y := by
      intro y
      have h := ((Real.hasDerivAt_exp y).fun_sub (hasDerivAt_expSum n y)).const_mul
        ((-1 : ℝ) ^ (n + 1))
      refine h.congr_deriv ?_
      rw [pow_succ]; ring
    have hG0 : G 0 = 0 := by
      simp [hGdef, Finset.sum_range_succ']
    have hanti : AntitoneOn G (Set.Iic 0) := by
      apply antitoneOn_of_deriv_nonpos (convex_Iic 0)
      · exact fun y _ => (hG y).continuousAt.continuousWithinAt
      · exact fun y _ => (hG y).differentiableAt.differentiableWithinAt
      · intro y hy
        rw [interior_Iic] at hy
        rw [(hG y).deriv]
        have := ih y (le_of_lt hy)
        linarith
    have := hanti (Set.mem_Iic.mpr hx) (Set.mem_Iic.mpr le_rfl) hx
    rwa [hG0] at this

/-- Alternating-series remainder bound: for `x ≤ 0` the `n`-term Taylor sum of `exp` is within
`|x|^n / n!` of `exp x` (no restriction on the size of `x`). -/
lemma exp_sub_sum_nonpos_bound (n : ℕ) {x : ℝ} (hx : x ≤ 0) :
    |Real.exp x - ∑ m ∈ range n, x ^ m / (m.factorial : ℝ)| ≤ |x| ^ n / (n.factorial : ℝ) := by
  have h1 := expSum_alt_nonneg n x hx
  have h2 := expSum_alt_nonneg (n + 1) x hx
  rw [Finset.sum_range_succ, pow_succ] at h2
  have habs : |Real.exp x - ∑ m ∈ range n, x ^ m / (m.factorial : ℝ)|
      = (-1) ^ n * (Real.exp x - ∑ m ∈ range n, x ^ m / (m.factorial : ℝ)) := by
    rw [← abs_of_nonneg h1, abs_mul, abs_pow, abs_neg, abs_one, one_pow, one_mul]
  rw [habs, abs_of_nonpos hx, neg_pow x n]
  generalize ((-1 : ℝ) ^ n) = c at h1 h2 ⊢
  generalize (∑ m ∈ range n, x ^ m / (m.factorial : ℝ)) = S at h1 h2 ⊢
  have : c * x ^ n / (n.factorial : ℝ) = c * (x ^ n / (n.factorial : ℝ)) := by ring
  rw [this]
  linarith

/-- The remainder bound used by `expQ` is valid for `|x| ≤ 1` and for all `x ≤ 0`. -/
lemma exp_taylor_bound' (x : ℝ) (hx : |x| ≤ 1 ∨ x ≤ 0) :
    |Real.exp x - ∑ m ∈ range 41, x ^ m / (m.factorial : ℝ)|
      ≤ 2 * |x| ^ 41 / ((41).factorial : ℝ) := by
  rcases hx with hx | hx
  · exact exp_taylor_bound x hx
  · refine (exp_sub_sum_nonpos_bound 41 hx).trans ?_
    have hF : (0 : ℝ) < ((41).factorial : ℝ) := by positivity
    have hp : (0 : ℝ) ≤ |x| ^ 41 := by positivity
    rw [div_le_div_iff_of_pos_right hF]
    linarith

lemma expTaylor_castR (r : ℚ) :
    ((expTaylor r 40 : ℚ) : ℝ) = ∑ m ∈ range 41, (r : ℝ) ^ m / (m.factorial : ℝ) := by
  rw [expTaylor_eq]; push_cast; rfl

lemma expRem_castR (r : ℚ) :
    ((expRem r : ℚ) : ℝ) = 2 * |(r : ℝ)| ^ 41 / ((41).factorial : ℝ) := by
  rw [expRem_eq]; push_cast; rfl

lemma exp_ge_taylor (r : ℚ) (hr : |r| ≤ 1 ∨ r ≤ 0) :
    ((expTaylor r 40 - expRem r : ℚ) : ℝ) ≤ Real.exp (r : ℝ) := by
  have hr' : |(r : ℝ)| ≤ 1 ∨ (r : ℝ) ≤ 0 := by exact_mod_cast hr
  have h := exp_taylor_bound' (r : ℝ) hr'
  push_cast
  rw [expTaylor_castR, expRem_castR]
  have := (abs_le.mp h).1
  linarith

lemma exp_le_taylor (r : ℚ) (hr : |r| ≤ 1 ∨ r ≤ 0) :
    Real.exp (r : ℝ) ≤ ((expTaylor r 40 + expRem r : ℚ) : ℝ) := by
  have hr' : |(r : ℝ)| ≤ 1 ∨ (r : ℝ) ≤ 0 := by exact_mod_cast hr
  have h := exp_taylor_bound' (r : ℝ) hr'
  push_cast
  rw [expTaylor_castR, expRem_castR]
  have := (abs_le.mp h).2
  linarith

/-- The base interval encloses `exp (q / 2^k)` as soon as the remainder bound is valid at the
two evaluation points `r = rdn (q / 2^k)` and `r + 2^-128`. -/
lemma expBase_sound_aux (q : ℚ)
    (hr : |rdn (q / (2 : ℚ) ^ expK q)| ≤ 1 ∨ rdn (q / (2 : ℚ) ^ expK q) ≤ 0)
    (hr2 : |rdn (q / (2 : ℚ) ^ expK q) + 1 / (scaleN : ℚ)| ≤ 1
      ∨ rdn (q / (2 : ℚ) ^ expK q) + 1 / (scaleN : ℚ) ≤ 0) :
    Mem (Real.exp ((q / (2 : ℚ) ^ expK q : ℚ) : ℝ)) (expBase q) := by
  set y : ℚ := q / (2 : ℚ) ^ expK q with hy
  have hcast : q / ((2 ^ expK q : ℕ) : ℚ) = y := by rw [hy]; push_cast; rfl
  have hr_le : rdn y ≤ y := rdn_le y
  have hr_lt : y < rdn y + 1 / (scaleN : ℚ) := lt_rdn_add y
  unfold expBase
  simp only [hcast]
  constructor
  · show ((ratMax (rdn (expTaylor (rdn y) 40 - expRem (rdn y))) 0 : ℚ) : ℝ) ≤ _
    rw [ratMax_eq]; push_cast
    refine max_le ?_ (Real.exp_pos _).le
    have h1 := rdn_leR (expTaylor (rdn y) 40 - expRem (rdn y))
    have h2 := exp_ge_taylor (rdn y) hr
    have h3 : Real.exp ((rdn y : ℚ) : ℝ) ≤ Real.exp (y : ℝ) :=
      Real.exp_le_exp.mpr (by exact_mod_cast hr_le)
    push_cast at h1 h2
    linarith
  · show _ ≤ ((rup (expTaylor (rdn y + 1 / (scaleN : ℚ)) 40
        + expRem (rdn y + 1 / (scaleN : ℚ))) : ℚ) : ℝ)
    have h1 := le_rupR (expTaylor (rdn y + 1 / (scaleN : ℚ)) 40
        + expRem (rdn y + 1 / (scaleN : ℚ)))
    have h2 := exp_le_taylor (rdn y + 1 / (scaleN : ℚ)) hr2
    have h3 : Real.exp (y : ℝ) ≤ Real.exp ((rdn y + 1 / (scaleN : ℚ) : ℚ) : ℝ) :=
      Real.exp_le_exp.mpr (by exact_mod_cast hr_lt.le)
    exact h3.trans (h2.trans h1)

/-- The base interval encloses `exp (q / 2^k)` (two-sided size hypothesis). -/
lemma expBase_sound (q : ℚ) (hq : |q| ≤ 2 ^ 63) :
    Mem (Real.exp ((q / (2 : ℚ) ^ expK q : ℚ) : ℝ)) (expBase q) := by
  have hk := expK_spec q hq
  set y : ℚ := q / (2 : ℚ) ^ expK q with hy
  have hyabs : |y| ≤ 1 / 2 := by
    rw [hy, abs_div, abs_of_pos (by positivity : (0 : ℚ) < 2 ^ expK q)]; exact hk
  obtain ⟨hy1, hy2⟩ := abs_le.mp hyabs
  have hs : 1 / (scaleN : ℚ) ≤ 1 / 2 :=
    one_div_le_one_div_of_le (by norm_num) two_le_scaleN
  have hsp : 0 < 1 / (scaleN : ℚ) := one_div_pos.mpr scaleN_pos
  have hr_le : rdn y ≤ y := rdn_le y
  have hr_lt : y < rdn y + 1 / (scaleN : ℚ) := lt_rdn_add y
  have hr_ge : -1 ≤ rdn y := by
    have := rdn_mono (show ((-1 : ℤ) : ℚ) ≤ y by push_cast; linarith)
    rwa [rdn_intCast] at this
  have hr : |rdn y| ≤ 1 := abs_le.mpr ⟨by exact_mod_cast hr_ge, by linarith⟩
  have hr2 : |rdn y + 1 / (scaleN : ℚ)| ≤ 1 := abs_le.mpr ⟨by linarith, by linarith⟩
  exact expBase_sound_aux q (Or.inl hr) (Or.inl hr2)

/-- Rounding a negative rational down lands at least one grid step below zero. -/
lemma rdn_add_le_zero_of_neg {y : ℚ} (hy : y < 0) : rdn y + 1 / (scaleN : ℚ) ≤ 0 := by
  unfold rdn
  rw [← add_div]
  apply div_nonpos_of_nonpos_of_nonneg _ scaleN_pos.le
  have h : (((y * (scaleN : ℚ)).floor : ℤ) : ℚ) < 0 :=
    (Rat.floor_le _).trans_lt (mul_neg_of_neg_of_pos hy scaleN_pos)
  have h' : (y * (scaleN : ℚ)).floor < 0 := by exact_mod_cast h
  have h'' : (y * (scaleN : ℚ)).floor + 1 ≤ 0 := by omega
  exact_mod_cast h''

/-- The base interval encloses `exp (q / 2^k)` (one-sided size hypothesis). -/
lemma expBase_sound' (q : ℚ) (hq : q ≤ 2 ^ 63) :
    Mem (Real.exp ((q / (2 : ℚ) ^ expK q : ℚ) : ℝ)) (expBase q) := by
  rcases le_or_gt 0 q with h0 | h0
  · exact expBase_sound q (by rwa [abs_of_nonneg h0])
  · have hy : q / (2 : ℚ) ^ expK q < 0 := div_neg_of_neg_of_pos h0 (by positivity)
    have h2 := rdn_add_le_zero_of_neg hy
    have hsp : 0 < 1 / (scaleN : ℚ) := one_div_pos.mpr scaleN_pos
    exact expBase_sound_aux q (Or.inr (by linarith)) (Or.inr h2)

/-! ### repeated squaring -/

lemma mem_of_le_of_le {x : ℝ} {l h : ℚ} (h1 : (l : ℝ) ≤ x) (h2 : x ≤ (h : ℝ)) :
    Mem x ⟨l, h⟩ := ⟨h1, h2⟩

lemma sqFold_sound (n : ℕ) {y : ℝ} {a : I} (h : Mem y a) :
    Mem (y ^ (2 ^ n)) ((List.range n).foldl (fun acc _ => sq acc) a) := by
  induction n with
  | zero => simpa using h
  | succ n ih =>
    rw [List.range_succ, List.foldl_append]
    simp only [List.foldl_cons, List.foldl_nil]
    rw [pow_succ, pow_mul]
    exact sq_sound ih

/-- For a rational `q ≤ 2^63` (no lower bound needed), the real number `exp q` lies in the
interval computed by `expQ q`.  Some upper bound on `q` is necessary: see `expQ_unsound_large`
below, which shows that the statement fails for `q = 2^69`. -/
theorem expQ_sound' (q : ℚ) (hq : q ≤ 2 ^ 63) : Mem (Real.exp (q : ℝ)) (expQ q) := by
  rw [expQ_eq]
  have h := sqFold_sound (expK q) (expBase_sound' q hq)
  rw [← Real.exp_nat_mul] at h
  convert h using 2
  push_cast
  field_simp

example : Mem (Real.exp ((-(2 ^ 70) : ℚ) : ℝ)) (expQ (-(2 ^ 70))) :=
  expQ_sound' _ (by norm_num)

/-- For a rational `q` with `|q| ≤ 2^63`, the real number `exp q` lies in the interval
computed by `expQ q`. -/
theorem expQ_sound (q : ℚ) (hq : |q| ≤ 2 ^ 63) : Mem (Real.exp (q : ℝ)) (expQ q) :=
  expQ_sound' q ((le_abs_self q).trans hq)

example : Mem (Real.exp ((3 / 2 : ℚ) : ℝ)) (expQ (3 / 2)) :=
  expQ_sound _ (by norm_num [abs_of_pos])

/-- If `x` lies in the interval `a` and the upper endpoint of `a` is at most `2^63`, then
`exp x` lies in the interval computed by `exp a`.  (The lower endpoint needs no bound.) -/
theorem exp_sound' (a : I) (x : ℝ) (h : Mem x a) (hhi : a.hi ≤ 2 ^ 63) :
    Mem (Real.exp x) (exp a) := by
  have hle : a.lo ≤ a.hi := by exact_mod_cast h.1.trans h.2
  unfold exp
  exact mem_of_le_of_le
    ((expQ_sound' a.lo (hle.trans hhi)).1.trans (Real.exp_le_exp.mpr h.1))
    ((Real.exp_le_exp.mpr h.2).trans (expQ_sound' a.hi hhi).2)

example : Mem (Real.exp (-3)) (exp ⟨-(2 ^ 80), 7 / 3⟩) :=
  exp_sound' ⟨-(2 ^ 80), 7 / 3⟩ (-3) ⟨by norm_num, by norm_num⟩ (by norm_num)

set_option linter.unusedVariables false in
/-- If `x` lies in the interval `a` and both endpoints of `a` are at most `2^63` in absolute
value, then `exp x` lies in the interval computed by `exp a`.  (The hypothesis `hlo` is in fact
redundant, see `exp_sound'`; it is kept so that the statement is the originally requested one.) -/
theorem exp_sound (a : I) (x : ℝ) (h : Mem x a) (hlo : |a.lo| ≤ 2 ^ 63) (hhi : |a.hi| ≤ 2 ^ 63) :
    Mem (Real.exp x) (exp a) :=
  exp_sound' a x h ((le_abs_self _).trans hhi)

example : Mem (Real.exp 1) (exp ⟨-5 / 2, 7 / 3⟩) :=
  exp_sound ⟨-5 / 2, 7 / 3⟩ 1 ⟨by norm_num, by norm_num⟩
    (by norm_num [abs_le]) (by norm_num [abs_le])

/-! ### the size hypothesis is needed

For `|q| > 2^63` the 64 halvings do not bring the argument into `[-1/2, 1/2]`, and the
remainder bound `2|r|^41/41!` is no longer valid for large positive `r`.  Concretely, for
`q = 2^69` the reduced argument is `r = 32`, the base "enclosure" has upper end
`76457697938719 < e^32 ≈ 78962960182680`, and the squarings keep the upper end too small. -/

lemma expK_big : expK (2 ^ 69) = 64 := by decide +kernel

lemma expBase_big_hi : (expBase (2 ^ 69)).hi ≤ 76457697938720 - 1 := by decide +kernel

lemma expBase_lo_nonneg (q : ℚ) : 0 ≤ (expBase q).lo := by
  show 0 ≤ ratMax _ 0
  rw [ratMax_eq]; exact le_max_right _ _

lemma sqFold_hi_le (B : ℚ) (hB : 2 ≤ B) (n : ℕ) (a : I) (h0 : 0 ≤ a.lo) (h1 : 0 ≤ a.hi)
    (h2 : a.hi ≤ B - 1) :
    let b := (List.range n).foldl (fun acc _ => sq acc) a
    0 ≤ b.lo ∧ 0 ≤ b.hi ∧ b.hi ≤ B ^ (2 ^ n) - 1 := by
  induction n with
  | zero => simpa using ⟨h0, h1, h2⟩
  | succ n ih =>
    rw [List.range_succ, List.foldl_append]
    simp only [List.foldl_cons, List.foldl_nil]
    set b := (List.range n).foldl (fun acc _ => sq acc) a
    obtain ⟨i0, i1, i2⟩ := ih
    have hsq : sq b = mk' (b.lo * b.lo) (b.hi * b.hi) := by unfold sq; rw [if_pos i0]
    rw [hsq]
    refine ⟨rdn_nonneg (mul_nonneg i0 i0), (mul_nonneg i1 i1).trans (le_rup _), ?_⟩
    show rup (b.hi * b.hi) ≤ _
    have hs : 1 / (scaleN : ℚ) ≤ 1 := by
      rw [div_le_one scaleN_pos]; exact scaleN_ge_one
    have hlt := rup_lt_add (b.hi * b.hi)
    have hP : 2 ≤ B ^ (2 ^ n) := hB.trans (le_self_pow₀ (by linarith) (by positivity))
    rw [pow_succ, pow_mul]
    nlinarith

lemma expBase_big_hi_nonneg : 0 ≤ (expBase (2 ^ 69)).hi := by decide +kernel

lemma exp_big_gt (n : ℕ) (hn : n ≠ 0) (c : ℝ) (hc : c ≤ 76457697938720 ^ n - 1) :
    c < Real.exp ((n : ℝ) * 32) := by
  rw [Real.exp_nat_mul]
  have hB : (76457697938720 : ℝ) < Real.exp 32 := by
    have h32 : Real.exp 32 = Real.exp 1 ^ 32 := by rw [← Real.exp_nat_mul]; norm_num
    rw [h32]
    calc (76457697938720 : ℝ) < 2.7182818283 ^ 32 := by norm_num
      _ < _ := pow_lt_pow_left₀ Real.exp_one_gt_d9 (by norm_num) (by norm_num)
  have := pow_lt_pow_left₀ hB (by norm_num) hn
  linarith

/-- Without the size hypothesis `expQ` is not an enclosure: `exp (2^69)` is larger than the
upper end of `expQ (2^69)`. -/
lemma expQ_unsound_large : ¬ Mem (Real.exp ((2 ^ 69 : ℚ) : ℝ)) (expQ (2 ^ 69)) := by
  rintro ⟨-, hhi⟩
  rw [expQ_eq, expK_big] at hhi
  obtain ⟨-, -, h⟩ := sqFold_hi_le 76457697938720 (by norm_num) 64 (expBase (2 ^ 69))
    (expBase_lo_nonneg _) expBase_big_hi_nonneg expBase_big_hi
  have h' : ((((List.range 64).foldl (fun acc _ => sq acc) (expBase (2 ^ 69))).hi : ℚ) : ℝ)
      ≤ (76457697938720 : ℝ) ^ (2 ^ 64) - 1 := by exact_mod_cast h
  have hcast : ((2 ^ 69 : ℚ) : ℝ) = ((2 ^ 64 : ℕ) : ℝ) * 32 := by push_cast; norm_num
  rw [hcast] at hhi
  exact absurd hhi (not_le.mpr (exp_big_gt (2 ^ 64) (by positivity) _ h'))

end IvExp

section IvLog

/-! ## S3: logarithm enclosures -/

/-! ### the `2·atanh` series -/

/-- The fold inside `atanh2`, run for `j` steps. -/
def atanhFold (z : ℚ) (j : ℕ) : ℚ × ℚ :=
  (List.range j).foldl (fun (s, pw) k =>
    (s + 2 * pw / ((2 * k + 1 : Nat) : Rat), pw * (z * z))) ((0 : Rat), z)

lemma atanhFold_succ (z : ℚ) (j : ℕ) :
    atanhFold z (j + 1) =
      ((atanhFold z j).1 + 2 * (atanhFold z j).2 / ((2 * j + 1 : ℕ) : ℚ),
        (atanhFold z j).2 * (z * z)) := by
  unfold atanhFold
  rw [List.range_succ, List.foldl_append]
  rfl

lemma atanhFold_eq (z : ℚ) (j : ℕ) :
    atanhFold z j =
      (∑ k ∈ Finset.range j, 2 * z ^ (2 * k + 1) / ((2 * k + 1 : ℕ) : ℚ), z ^ (2 * j + 1)) := by
  induction j with
  | zero => simp [atanhFold]
  | succ j ih =>
    rw [atanhFold_succ, ih, Finset.sum_range_succ]
    ext
    · rfl
    · show z ^ (2 * j + 1) * (z * z) = z ^ (2 * (j + 1) + 1)
      ring

lemma atanh2_eq (z : ℚ) :
    atanh2 z =
      mk' ((atanhFold z 46).1 - 2 * ratAbs (atanhFold z 46).2 / (((2 * 45 + 3 : ℕ) : ℚ) * (1 - z * z)))
        ((atanhFold z 46).1 + 2 * ratAbs (atanhFold z 46).2 / (((2 * 45 + 3 : ℕ) : ℚ) * (1 - z * z))) :=
  rfl

/-- Tail bound of the series `log(1+x) - log(1-x) = Σ 2 x^(2k+1)/(2k+1)`. -/
lemma atanh_series_bound (x : ℝ) (hx : |x| < 1) (n : ℕ) :
    |Real.log (1 + x) - Real.log (1 - x)
        - ∑ k ∈ Finset.range n, 2 * x ^ (2 * k + 1) / ((2 * k + 1 : ℕ) : ℝ)|
      ≤ 2 * |x| ^ (2 * n + 1) / (((2 * n + 1 : ℕ) : ℝ) * (1 - x * x)) := by
  have hx2 : x ^ 2 < 1 := by
    have : |x| ^ 2 < 1 := by nlinarith [abs_nonneg x]
    rwa [sq_abs] at this
  have hpos : 0 < 1 - x * x := by nlinarith
  have h := Real.hasSum_log_sub_log_of_abs_lt_one hx
  have h' := (hasSum_nat_add_iff' n).mpr h
  have hg : HasSum (fun k : ℕ => 2 / ((2 * n + 1 : ℕ) : ℝ) * |x| ^ (2 * n + 1) * (x ^ 2) ^ k)
      (2 / ((2 * n + 1 : ℕ) : ℝ) * |x| ^ (2 * n + 1) * (1 - x ^ 2)⁻¹) :=
    (hasSum_geometric_of_lt_one (sq_nonneg x) hx2).mul_left _
  have hb := h'.norm_le_of_bounded hg ?_
  · rw [Real.norm_eq_abs] at hb
    have e1 : (∑ i ∈ Finset.range n, 2 * (1 / (2 * (i : ℝ) + 1)) * x ^ (2 * i + 1))
        = ∑ k ∈ Finset.range n, 2 * x ^ (2 * k + 1) / ((2 * k + 1 : ℕ) : ℝ) := by
      apply Finset.sum_congr rfl
      intro k _
      push_cast
      ring
    rw [e1] at hb
    refine hb.trans (le_of_eq ?_)
    have : ((2 * n + 1 : ℕ) : ℝ) ≠ 0 := by positivity
    field_simp
  · intro k
    rw [Real.norm_eq_abs, abs_mul, abs_mul, abs_pow]
    have hk : (0 : ℝ) < 2 * ((k + n : ℕ) : ℝ) + 1 := by positivity
    have hn : (0 : ℝ) < ((2 * n + 1 : ℕ) : ℝ) := by positivity
    rw [abs_of_pos (by positivity : (0 : ℝ) < 2), abs_of_pos (by positivity : (0 : ℝ) < 1 / (2 * ((k + n : ℕ) : ℝ) + 1))]
    have e2 : |x| ^ (2 * (k + n) + 1) = |x| ^ (2 * n + 1) * (x ^ 2) ^ k := by
      rw [← sq_abs x, ← pow_mul, ← pow_add]
      congr 1
      ring
    rw [e2]
    have h1 : 1 / (2 * ((k + n : ℕ) : ℝ) + 1) ≤ 1 / ((2 * n + 1 : ℕ) : ℝ) := by
      apply one_div_le_one_div_of_le hn
      push_cast
      have : (0 : ℝ) ≤ k := Nat.cast_nonneg k
      linarith
    have h2 : 0 ≤ |x| ^ (2 * n + 1) * (x ^ 2) ^ k := by positivity
    calc 2 * (1 / (2 * ((k + n : ℕ) : ℝ) + 1)) * (|x| ^ (2 * n + 1) * (x ^ 2) ^ k)
        ≤ 2 * (1 / ((2 * n + 1 : ℕ) : ℝ)) * (|x| ^ (2 * n + 1) * (x ^ 2) ^ k) := by
          apply mul_le_mul_of_nonneg_right _ h2
          linarith
      _ = 2 / ((2 * n + 1 : ℕ) : ℝ) * |x| ^ (2 * n + 1) * (x ^ 2) ^ k := by ring

/-- `atanh2 z` encloses `log((1+z)/(1-z))` for every rational `z` with `|z| < 1`. -/
theorem atanh2_sound' (z : ℚ) (hz : |z| < 1) :
    Mem (Real.log ((1 + (z : ℝ)) / (1 - (z : ℝ)))) (atanh2 z) := by
  have hzR : |(z : ℝ)| < 1 := by exact_mod_cast hz
  have hlt := abs_lt.mp hzR
  have hb := atanh_series_bound (z : ℝ) hzR 46
  rw [Real.log_div (by linarith) (by linarith)]
  rw [atanh2_eq, atanhFold_eq, ratAbs_eq]
  rw [abs_le] at hb
  apply mem_mk'
  · push_cast
    push_cast at hb
    rw [abs_pow]
    norm_num at hb ⊢
    linarith [hb.1]
  · push_cast
    push_cast at hb
    rw [abs_pow]
    norm_num at hb ⊢
    linarith [hb.2]

example : Mem (Real.log ((1 + ((1 / 2 : ℚ) : ℝ)) / (1 - ((1 / 2 : ℚ) : ℝ)))) (atanh2 (1 / 2)) :=
  atanh2_sound' _ (by rw [abs_lt]; norm_num)

/-- `atanh2 z` encloses `log((1+z)/(1-z))` for every rational `z` with `|z| ≤ 1/3`. -/
theorem atanh2_sound (z : ℚ) (hz : |z| ≤ 1 / 3) :
    Mem (Real.log ((1 + (z : ℝ)) / (1 - (z : ℝ)))) (atanh2 z) :=
  atanh2_sound' z (lt_of_le_of_lt hz (by norm_num))

example : Mem (Real.log ((1 + ((-1 / 5 : ℚ) : ℝ)) / (1 - ((-1 / 5 : ℚ) : ℝ)))) (atanh2 (-1 / 5)) :=
  atanh2_sound _ (by rw [abs_le]; norm_num)

/-- The constant interval `ln2` encloses `log 2`. -/
theorem ln2_sound : Mem (Real.log 2) ln2 := by
  have h := atanh2_sound (1 / 3) (by rw [abs_le]; norm_num)
  have e : (1 + (((1 / 3 : ℚ)) : ℝ)) / (1 - (((1 / 3 : ℚ)) : ℝ)) = 2 := by
    push_cast; norm_num
  rw [e] at h
  exact h

example : ((ln2.lo : ℚ) : ℝ) ≤ Real.log 2 := ln2_sound.1

/-! ### binary exponent -/

lemma pow2_eq (e : ℤ) : pow2 e = (2 : ℚ) ^ e := by
  unfold pow2
  split_ifs with h
  · obtain ⟨n, rfl⟩ := Int.eq_ofNat_of_zero_le h
    simp
  · rw [ge_iff_le, not_le] at h
    obtain ⟨n, hn⟩ := Int.eq_ofNat_of_zero_le (by omega : 0 ≤ -e)
    have he : e = -(n : ℤ) := by omega
    subst he
    simp

/-- The first guess `a = log2 num - log2 den` satisfies `2^(a-1) < q < 2^(a+1)`. -/
lemma ilog2_approx (q : ℚ) (hq : 0 < q) :
    (2 : ℚ) ^ ((Nat.log2 q.num.toNat : ℤ) - (Nat.log2 q.den : ℤ) - 1) < q ∧
      q < (2 : ℚ) ^ ((Nat.log2 q.num.toNat : ℤ) - (Nat.log2 q.den : ℤ) + 1) := by
  have hnum : 0 < q.num := Rat.num_pos.mpr hq
  have hden : 0 < q.den := q.den_pos
  have hqe : q = (q.num.toNat : ℚ) / (q.den : ℚ) := by
    have : ((q.num.toNat : ℤ) : ℚ) = (q.num : ℚ) := by rw [Int.toNat_of_nonneg hnum.le]
    rw [← Int.cast_natCast, this]
    exact (Rat.num_div_den q).symm
  have hn0 : q.num.toNat ≠ 0 := by omega
  generalize q.num.toNat = n at hqe hn0
  generalize q.den = d at hqe hden
  have hd0 : d ≠ 0 := by omega
  have h1 : ((2 ^ n.log2 : ℕ) : ℚ) ≤ (n : ℚ) := by exact_mod_cast Nat.log2_self_le hn0
  have h2 : (n : ℚ) < ((2 ^ (n.log2 + 1) : ℕ) : ℚ) := by exact_mod_cast Nat.lt_log2_self (n := n)
  have h3 : ((2 ^ d.log2 : ℕ) : ℚ) ≤ (d : ℚ) := by exact_mod_cast Nat.log2_self_le hd0
  have h4 : (d : ℚ) < ((2 ^ (d.log2 + 1) : ℕ) : ℚ) := by exact_mod_cast Nat.lt_log2_self (n := d)
  push_cast at h1 h2 h3 h4
  have hnq : (0 : ℚ) < n := by exact_mod_cast Nat.pos_of_ne_zero hn0
  have hdq : (0 : ℚ) < d := by exact_mod_cast hden
  have hp1 : (0 : ℚ) < 2 ^ n.log2 := by positivity
  have hp2 : (0 : ℚ) < 2 ^ d.log2 := by positivity
  have hp3 : (0 : ℚ) < 2 ^ (d.log2 + 1) := by positivity
  constructor
  · rw [show (n.log2 : ℤ) - (d.log2 : ℤ) - 1 = (n.log2 : ℤ) - ((d.log2 + 1 : ℕ) : ℤ) by push_cast; ring,
      zpow_sub₀ two_ne_zero, zpow_natCast, zpow_natCast, hqe, div_lt_div_iff₀ hp3 hdq]
    calc (2 : ℚ) ^ n.log2 * d ≤ n * d := mul_le_mul_of_nonneg_right h1 hdq.le
      _ < n * 2 ^ (d.log2 + 1) := mul_lt_mul_of_pos_left h4 hnq
  · rw [show (n.log2 : ℤ) - (d.log2 : ℤ) + 1 = ((n.log2 + 1 : ℕ) : ℤ) - (d.log2 : ℤ) by push_cast; ring,
      zpow_sub₀ two_ne_zero, zpow_natCast, zpow_natCast, hqe, div_lt_div_iff₀ hdq hp2]
    calc (n : ℚ) * 2 ^ d.log2 < 2 ^ (n.log2 + 1) * 2 ^ d.log2 := mul_lt_mul_of_pos_right h2 hp2
      _ ≤ 2 ^ (n.log2 + 1) * d := mul_le_mul_of_nonneg_left h3 (by positivity)

/-- For positive `q`, `ilog2 q` is the binary exponent: `2^e ≤ q < 2^(e+1)`. -/
theorem ilog2_spec (q : ℚ) (hq : 0 < q) : pow2 (ilog2 q) ≤ q ∧ q < pow2 (ilog2 q + 1) := by
  obtain ⟨hlo, hhi⟩ := ilog2_approx q hq
  unfold ilog2
  simp only [pow2_eq]
  generalize ((Nat.log2 q.num.toNat : ℤ) - (Nat.log2 q.den : ℤ)) = a at hlo hhi ⊢
  have h12 : (2 : ℚ) ^ (a + 1) ≤ (2 : ℚ) ^ (a + 1 + 1) :=
    zpow_le_zpow_right₀ (by norm_num) (by omega)
  split_ifs with h1 h2
  · exact ⟨h1, hhi.trans_le h12⟩
  · exact ⟨h2, hhi⟩
  · rw [sub_add_cancel]
    exact ⟨hlo.le, not_le.mp h2⟩

example : pow2 (ilog2 (10 / 3)) ≤ 10 / 3 ∧ (10 / 3 : ℚ) < pow2 (ilog2 (10 / 3) + 1) :=
  ilog2_spec _ (by norm_num)

/-! ### `logQ` -/

/-- Body of `logQ` after range reduction to mantissa `m` and exponent `e`. -/
def logCore (m : ℚ) (e : ℤ) : I :=
  add (hull (atanh2 (rdn ((m - 1) / (m + 1)))) (atanh2 (rup ((m - 1) / (m + 1)))))
    (scale (e : Rat) ln2)

lemma logQ_eq (q : ℚ) (hq : 0 < q) :
    logQ q =
      if q / pow2 (ilog2 q) > 4 / 3 then logCore (q / pow2 (ilog2 q) / 2) (ilog2 q + 1)
      else logCore (q / pow2 (ilog2 q)) (ilog2 q) := by
  unfold logQ
  rw [if_neg (not_le.mpr hq)]
  split_ifs with h
  · simp only [h, if_true]; rfl
  · simp only [h, if_false]; rfl

lemma scaleN_ge_two : (2 : ℚ) ≤ (scaleN : ℚ) := by
  have : 2 ≤ scaleN := by unfold scaleN prec; norm_num
  exact_mod_cast this

/-- `t ↦ log((1+t)/(1-t))` is monotone on `(-1, 1)`. -/
lemma logRatio_mono {t u : ℝ} (ht : -1 < t) (htu : t ≤ u) (hu : u < 1) :
    Real.log ((1 + t) / (1 - t)) ≤ Real.log ((1 + u) / (1 - u)) := by
  apply Real.log_le_log
  · apply div_pos <;> linarith
  · rw [div_le_div_iff₀ (by linarith) (by linarith)]; nlinarith

lemma logCore_sound (m : ℚ) (e : ℤ) (h1 : 1 / 2 ≤ m) (h2 : m ≤ 2) :
    Mem (Real.log (m : ℝ) + (e : ℝ) * Real.log 2) (logCore m e) := by
  unfold logCore
  have hm1 : 0 < m + 1 := by linarith
  have hzl : -1 / 3 ≤ (m - 1) / (m + 1) := by rw [le_div_iff₀ hm1]; linarith
  have hzh : (m - 1) / (m + 1) ≤ 1 / 3 := by rw [div_le_iff₀ hm1]; linarith
  have hmz : (m : ℝ) = (1 + (((m - 1) / (m + 1) : ℚ) : ℝ)) / (1 - (((m - 1) / (m + 1) : ℚ) : ℝ)) := by
    have : (0 : ℝ) < (m : ℝ) + 1 := by exact_mod_cast hm1
    push_cast
    field_simp
    ring
  generalize (m - 1) / (m + 1) = z at hzl hzh hmz ⊢
  have hs : 1 / (scaleN : ℚ) ≤ 1 / 2 := one_div_le_one_div_of_le (by norm_num) scaleN_ge_two
  have a1 := rdn_le z
  have a2 := lt_rdn_add z
  have a3 := le_rup z
  have a4 := rup_lt_add z
  have hl : |rdn z| < 1 := by rw [abs_lt]; constructor <;> linarith
  have hh : |rup z| < 1 := by rw [abs_lt]; constructor <;> linarith
  have sl := atanh2_sound' _ hl
  have sh := atanh2_sound' _ hh
  have hlR := abs_lt.mp (by exact_mod_cast hl : |((rdn z : ℚ) : ℝ)| < 1)
  have hhR := abs_lt.mp (by exact_mod_cast hh : |((rup z : ℚ) : ℝ)| < 1)
  apply add_sound
  · rw [hmz]
    constructor
    · show ((ratMin (atanh2 (rdn z)).lo (atanh2 (rup z)).lo : ℚ) : ℝ) ≤ _
      rw [ratMin_eq]
      push_cast
      exact (min_le_left _ _).trans (sl.1.trans (logRatio_mono hlR.1 (rdn_leR z) (by linarith [le_rupR z, hhR.2])))
    · show _ ≤ ((ratMax (atanh2 (rdn z)).hi (atanh2 (rup z)).hi : ℚ) : ℝ)
      rw [ratMax_eq]
      push_cast
      exact ((logRatio_mono (by linarith [rdn_leR z, hlR.1]) (le_rupR z) hhR.2).trans sh.2).trans (le_max_right _ _)
  · have := scale_sound (e : ℚ) ln2_sound
    push_cast at this
    exact this

/-- `logQ q` encloses `log q` for every positive rational `q`. -/
theorem logQ_sound (q : ℚ) (hq : 0 < q) : Mem (Real.log (q : ℝ)) (logQ q) := by
  obtain ⟨h1, h2⟩ := ilog2_spec q hq
  rw [logQ_eq q hq]
  rw [pow2_eq] at h1 h2
  simp only [pow2_eq]
  generalize ilog2 q = e0 at h1 h2 ⊢
  have hp : (0 : ℚ) < 2 ^ e0 := by positivity
  rw [zpow_add_one₀ two_ne_zero] at h2
  have hm1 : 1 ≤ q / 2 ^ e0 := by rw [le_div_iff₀ hp]; linarith
  have hm2 : q / 2 ^ e0 < 2 := by rw [div_lt_iff₀ hp]; linarith
  have hpR : (0 : ℝ) < (2 : ℝ) ^ e0 := by positivity
  have hqR : (0 : ℝ) < (q : ℝ) := by exact_mod_cast hq
  split_ifs with h
  · have := logCore_sound (q / 2 ^ e0 / 2) (e0 + 1) (by linarith) (by linarith)
    convert this using 1
    push_cast
    rw [Real.log_div (by positivity) (by norm_num), Real.log_div hqR.ne' hpR.ne', Real.log_zpow]
    ring
  · have := logCore_sound (q / 2 ^ e0) e0 (by linarith) (by linarith)
    convert this using 1
    push_cast
    rw [Real.log_div hqR.ne' hpR.ne', Real.log_zpow]
    ring

example : Mem (Real.log ((10 : ℚ) : ℝ)) (logQ 10) := logQ_sound _ (by norm_num)

/-- `log a` encloses `log x` for every `x` in an interval `a` with positive lower end. -/
theorem log_sound (a : I) (x : ℝ) (h : Mem x a) (h0 : 0 < a.lo) : Mem (Real.log x) (log a) := by
  have hl : (0 : ℝ) < (a.lo : ℝ) := by exact_mod_cast h0
  have hx : 0 < x := hl.trans_le h.1
  have hh : (0 : ℝ) < (a.hi : ℝ) := hx.trans_le h.2
  have hq : 0 < a.hi := by exact_mod_cast hh
  exact ⟨(logQ_sound _ h0).1.trans (Real.log_le_log hl h.1),
    (Real.log_le_log hx h.2).trans (logQ_sound _ hq).2⟩

example : Mem (Real.log (5 / 2)) (log ⟨2, 3⟩) :=
  log_sound ⟨2, 3⟩ (5 / 2) ⟨by show ((2 : ℚ) : ℝ) ≤ 5 / 2; norm_num, by show (5 / 2 : ℝ) ≤ ((3 : ℚ) : ℝ); norm_num⟩
    (by show (0 : ℚ) < 2; norm_num)

end IvLog

section IvPow

/-! ## real powers -/

/-- The power enclosure is sound: for `x ∈ a` with `a` positive and `y ∈ b`, the real power
`x ^ y = exp (y · log x)` lies in `pow a b`, provided the upper endpoint of the exponent
interval `b · log a` is at most `2^63` (the range on which `expQ` is sound). -/
theorem pow_sound (a b : I) (x y : ℝ) (hx : Mem x a) (hy : Mem y b) (h0 : 0 < a.lo)
    (hb : (mul b (log a)).hi ≤ 2 ^ 63) : Mem (x ^ y) (pow a b) := by
  have hl : (0 : ℝ) < (a.lo : ℝ) := by exact_mod_cast h0
  have hxpos : 0 < x := hl.trans_le hx.1
  rw [Real.rpow_def_of_pos hxpos, mul_comm]
  exact exp_sound' _ _ (mul_sound hy (log_sound a x hx h0)) hb

example : Mem ((2 : ℝ) ^ (1 / 2 : ℝ)) (pow (ofRat 2) (ofRat (1 / 2))) := by
  have h2 : Mem (2 : ℝ) (ofRat 2) := by simpa using ofRat_sound 2
  have hh : Mem (1 / 2 : ℝ) (ofRat (1 / 2)) := by simpa using ofRat_sound (1 / 2)
  exact pow_sound _ _ _ _ h2 hh (by norm_num [ofRat]) (by decide +kernel)

end IvPow

section IvAtan

open Finset

/-! ## Real analysis: remainder of the arctan series, valid for all real `x` -/

/-- partial sum `Σ_{k<n} (-1)^k x^(2k+1)/(2k+1)` of the arctan series -/
noncomputable def atanS (n : ℕ) (x : ℝ) : ℝ :=
  ∑ k ∈ range n, (-1 : ℝ) ^ k * x ^ (2 * k + 1) / ((2 * k + 1 : ℕ) : ℝ)

lemma hasDerivAt_atanS (n : ℕ) (x : ℝ) :
    HasDerivAt (atanS n) (∑ k ∈ range n, (-(x ^ 2)) ^ k) x := by
  unfold atanS
  apply HasDerivAt.fun_sum
  intro k _
  have h := ((hasDerivAt_pow (2 * k + 1) x).const_mul ((-1 : ℝ) ^ k)).div_const
    (((2 * k + 1 : ℕ) : ℝ))
  refine h.congr_deriv ?_
  have hk : (((2 * k + 1 : ℕ) : ℝ)) ≠ 0 := by positivity
  rw [neg_pow (x ^ 2) k, ← pow_mul, Nat.add_sub_cancel]
  field_simp

lemma atanS_zero (n : ℕ) : atanS n 0 = 0 := by
  unfold atanS
  apply Finset.sum_eq_zero
  intro k _
  simp

lemma geom_neg_sq (n : ℕ) (x : ℝ) :
    1 / (1 + x ^ 2) - ∑ k ∈ range n, (-(x ^ 2)) ^ k = (-(x ^ 2)) ^ n / (1 + x ^ 2) := by
  have h1 : (-(x ^ 2)) ≠ 1 := by nlinarith [sq_nonneg x]
  have h2 : (1 + x ^ 2) ≠ 0 := by positivity
  have h3 : (-(x ^ 2) - 1) ≠ 0 := by nlinarith [sq_nonneg x]
  rw [geom_sum_eq h1]
  field_simp
  ring

/-- `|arctan x − Σ_{k<n} (-1)^k x^(2k+1)/(2k+1)| ≤ |x|^(2n+1)/(2n+1)` for all real `x`. -/
lemma abs_arctan_sub_atanS_le (n : ℕ) (x : ℝ) :
    |Real.arctan x - atanS n x| ≤ |x| ^ (2 * n + 1) / ((2 * n + 1 : ℕ) : ℝ) := by
  have hN : (0 : ℝ) < ((2 * n + 1 : ℕ) : ℝ) := by positivity
  -- g = arctan - S_n, h = x^(2n+1)/(2n+1)
  have hg : ∀ y : ℝ, HasDerivAt (fun y => Real.arctan y - atanS n y)
      ((-(y ^ 2)) ^ n / (1 + y ^ 2)) y := by
    intro y
    have := (Real.hasDerivAt_arctan y).sub (hasDerivAt_atanS n y)
    rw [geom_neg_sq] at this
    exact this
  have hh : ∀ y : ℝ, HasDerivAt (fun y => y ^ (2 * n + 1) / ((2 * n + 1 : ℕ) : ℝ))
      (y ^ (2 * n)) y := by
    intro y
    have := (hasDerivAt_pow (2 * n + 1) y).div_const (((2 * n + 1 : ℕ) : ℝ))
    refine this.congr_deriv ?_
    rw [Nat.add_sub_cancel]
    field_simp
  have hbound : ∀ y : ℝ, |(-(y ^ 2)) ^ n / (1 + y ^ 2)| ≤ y ^ (2 * n) := by
    intro y
    have h1 : (0 : ℝ) < 1 + y ^ 2 := by positivity
    rw [abs_div, abs_of_pos h1, abs_pow, abs_neg, abs_of_nonneg (sq_nonneg y), ← pow_mul,
      div_le_iff₀ h1]
    have : (0 : ℝ) ≤ y ^ (2 * n) := by rw [pow_mul]; positivity
    nlinarith [sq_nonneg y]
  -- h - g and h + g are monotone
  have m1 : Monotone (fun y => y ^ (2 * n + 1) / ((2 * n + 1 : ℕ) : ℝ) -
      (Real.arctan y - atanS n y)) := by
    apply monotone_of_deriv_nonneg
    · intro y; exact ((hh y).fun_sub (hg y)).differentiableAt
    · intro y
      rw [((hh y).fun_sub (hg y)).deriv]
      have := (abs_le.mp (hbound y)).2
      linarith
  have m2 : Monotone (fun y => y ^ (2 * n + 1) / ((2 * n + 1 : ℕ) : ℝ) +
      (Real.arctan y - atanS n y)) := by
    apply monotone_of_deriv_nonneg
    · intro y; exact ((hh y).fun_add (hg y)).differentiableAt
    · intro y
      rw [((hh y).fun_add (hg y)).deriv]
      have := (abs_le.mp (hbound y)).1
      linarith
  rcases le_total 0 x with hx | hx
  · have a1 := m1 hx
    have a2 := m2 hx
    simp only [atanS_zero, Real.arctan_zero] at a1 a2
    rw [abs_of_nonneg hx, abs_le]
    have h0 : (0 : ℝ) ^ (2 * n + 1) / ((2 * n + 1 : ℕ) : ℝ) = 0 := by simp
    rw [h0] at a1 a2
    constructor <;> linarith
  · have a1 := m1 hx
    have a2 := m2 hx
    simp only [atanS_zero, Real.arctan_zero] at a1 a2
    have h0 : (0 : ℝ) ^ (2 * n + 1) / ((2 * n + 1 : ℕ) : ℝ) = 0 := by simp
    rw [h0] at a1 a2
    have hodd : |x| ^ (2 * n + 1) = -(x ^ (2 * n + 1)) := by
      rw [abs_of_nonpos hx, Odd.neg_pow ⟨n, rfl⟩]
    rw [hodd, abs_le, neg_div]
    constructor <;> linarith

/-! ## The fold in `atanSmall` -/

/-- rational partial sum -/
def atanSQ (n : ℕ) (z : ℚ) : ℚ :=
  ∑ k ∈ range n, (-1 : ℚ) ^ k * z ^ (2 * k + 1) / ((2 * k + 1 : ℕ) : ℚ)

lemma atanFold (z : ℚ) (j : ℕ) :
    (List.range j).foldl (fun (x : ℚ × ℚ) k =>
      match x with
      | (s, pw) => (s + (if k % 2 == 0 then pw else -pw) / ((2 * k + 1 : ℕ) : ℚ), pw * (z * z)))
      ((0 : ℚ), z) = (atanSQ j z, z ^ (2 * j + 1)) := by
  induction j with
  | zero => simp [atanSQ]
  | succ j ih =>
    rw [List.range_succ, List.foldl_append, ih]
    simp only [List.foldl_cons, List.foldl_nil]
    refine Prod.ext ?_ ?_
    · simp only [atanSQ, Finset.sum_range_succ]
      congr 1
      rcases Nat.even_or_odd j with hj | hj
      · have : j % 2 = 0 := Nat.even_iff.mp hj
        simp [this, hj.neg_one_pow]
      · have : j % 2 = 1 := Nat.odd_iff.mp hj
        simp [this, hj.neg_one_pow]
    · simp only
      ring

lemma atanSmall_eq (z : ℚ) :
    atanSmall z = mk' (atanSQ 201 z - |z| ^ 403 / 403) (atanSQ 201 z + |z| ^ 403 / 403) := by
  unfold atanSmall
  simp only [Nat.reduceAdd, Nat.reduceMul]
  rw [atanFold z 201]
  simp only [ratAbs_eq, abs_pow, Nat.reduceAdd, Nat.reduceMul, Nat.cast_ofNat]

lemma atanSQ_cast (n : ℕ) (z : ℚ) : ((atanSQ n z : ℚ) : ℝ) = atanS n (z : ℝ) := by
  unfold atanSQ atanS
  push_cast
  rfl

/-- For every rational `z`, the interval `atanSmall z` contains the real number `arctan z`
(no smallness assumption on `z` is needed: the remainder bound holds for all `z`). -/
theorem atanSmall_sound' (z : ℚ) : Mem (Real.arctan (z : ℝ)) (atanSmall z) := by
  rw [atanSmall_eq]
  have h := abs_arctan_sub_atanS_le 201 (z : ℝ)
  rw [abs_le] at h
  norm_num only at h
  apply mem_mk'
  · push_cast [atanSQ_cast]
    linarith [h.1]
  · push_cast [atanSQ_cast]
    linarith [h.2]

example : Mem (Real.arctan ((3 : ℚ) : ℝ)) (atanSmall 3) := atanSmall_sound' 3

/-- For every rational `z` with `|z| ≤ 1/2`, the interval `atanSmall z` contains the real
number `arctan z`. -/
theorem atanSmall_sound (z : ℚ) (_hz : |z| ≤ 1 / 2) : Mem (Real.arctan (z : ℝ)) (atanSmall z) :=
  atanSmall_sound' z

example : Mem (Real.arctan ((-1 / 3 : ℚ) : ℝ)) (atanSmall (-1 / 3)) :=
  atanSmall_sound (-1 / 3) (by rw [abs_le]; constructor <;> norm_num)

/-- The interval `pi` contains the real number `π`. -/
theorem pi_sound : Mem Real.pi pi := by
  have h : Real.pi = ((16 : ℚ) : ℝ) * Real.arctan ((1 / 5 : ℚ) : ℝ)
      - ((4 : ℚ) : ℝ) * Real.arctan ((1 / 239 : ℚ) : ℝ) := by
    have := Real.four_mul_arctan_inv_5_sub_arctan_inv_239
    push_cast
    rw [one_div, one_div]
    linarith
  rw [h]
  exact sub_sound (scale_sound 16 (atanSmall_sound' _)) (scale_sound 4 (atanSmall_sound' _))

example : ((pi.lo : ℚ) : ℝ) ≤ Real.pi ∧ Real.pi ≤ ((pi.hi : ℚ) : ℝ) := pi_sound

/-! ## Argument halving -/

/-- `ρ x = x / (1 + √(1 + x²))`, so that `arctan x = 2 arctan (ρ x)` -/
noncomputable def rho (x : ℝ) : ℝ := x / (1 + Real.sqrt (1 + x ^ 2))

lemma arctan_eq_two_mul_arctan_rho (x : ℝ) : Real.arctan x = 2 * Real.arctan (rho x) := by
  unfold rho
  have hpos : (0 : ℝ) < 1 + x ^ 2 := by positivity
  have hs2 : Real.sqrt (1 + x ^ 2) ^ 2 = 1 + x ^ 2 := Real.sq_sqrt hpos.le
  have hs0 : 0 ≤ Real.sqrt (1 + x ^ 2) := Real.sqrt_nonneg _
  generalize Real.sqrt (1 + x ^ 2) = s at hs2 hs0
  have hsx : |x| < s := by
    apply abs_lt_of_sq_lt_sq _ hs0
    rw [hs2]; linarith
  have hd : 0 < 1 + s := by linarith
  have h1 : -1 < x / (1 + s) := by rw [lt_div_iff₀ hd]; linarith [(abs_lt.mp hsx).1]
  have h2 : x / (1 + s) < 1 := by rw [div_lt_iff₀ hd]; linarith [(abs_lt.mp hsx).2]
  rw [Real.two_mul_arctan h1 h2]
  congr 1
  have e : 1 - (x / (1 + s)) ^ 2 = 2 / (1 + s) := by
    field_simp
    linear_combination hs2
  rw [e]
  field_simp

/-- the model's reduction step -/
def red (x : I) : I := div x (add (ofRat 1) (sqrt (add (ofRat 1) (sq x))))

lemma sq_lo_nonneg (x : I) : 0 ≤ (sq x).lo := by
  unfold sq
  split_ifs
  · exact rdn_nonneg (mul_self_nonneg _)
  · exact rdn_nonneg (mul_self_nonneg _)
  · exact rdn_nonneg le_rfl

lemma red_sound {y : ℝ} {x : I} (h : Mem y x) : Mem (rho y) (red x) := by
  unfold rho red
  have h1 : Mem (1 + y ^ 2) (add (ofRat 1) (sq x)) := by
    simpa using add_sound (ofRat_sound 1) (sq_sound h)
  have h2 := sqrt_sound' _ _ h1
  have h3 : Mem (1 + Real.sqrt (1 + y ^ 2)) (add (ofRat 1) (sqrt (add (ofRat 1) (sq x)))) := by
    simpa using add_sound (ofRat_sound 1) h2
  refine div_sound h h3 (Or.inl ?_)
  show 0 < rdn (1 + sqrtLo _)
  have := one_le_rdn (q := 1 + sqrtLo (add (ofRat 1) (sq x)).lo)
    (by linarith [sqrtLo_nonneg (add (ofRat 1) (sq x)).lo])
  linarith

lemma atanQ_eq (q : ℚ) : atanQ q =
    if |q| ≤ 1 / 2 then atanSmall q else
      scale 8 (hull (atanSmall (red (red (red (ofRat q)))).lo)
        (atanSmall (red (red (red (ofRat q)))).hi)) := by
  unfold atanQ
  simp only [ratAbs_eq]
  rfl

lemma hull_of_le {x : ℝ} {a b : I} (h1 : ((a.lo : ℚ) : ℝ) ≤ x) (h2 : x ≤ ((b.hi : ℚ) : ℝ)) :
    Mem x (hull a b) := by
  constructor
  · show ((ratMin a.lo b.lo : ℚ) : ℝ) ≤ x
    rw [ratMin_eq]; push_cast
    exact (min_le_left _ _).trans h1
  · show x ≤ ((ratMax a.hi b.hi : ℚ) : ℝ)
    rw [ratMax_eq]; push_cast
    exact h2.trans (le_max_right _ _)

/-- For every rational `q`, the interval `atanQ q` contains the real number `arctan q`. -/
theorem atanQ_sound (q : ℚ) : Mem (Real.arctan (q : ℝ)) (atanQ q) := by
  rw [atanQ_eq]
  split_ifs with h
  · exact atanSmall_sound' q
  · have hm : Mem (rho (rho (rho (q : ℝ)))) (red (red (red (ofRat q)))) :=
      red_sound (red_sound (red_sound (ofRat_sound q)))
    generalize red (red (red (ofRat q))) = x3 at hm
    have he : Real.arctan (q : ℝ) = ((8 : ℚ) : ℝ) * Real.arctan (rho (rho (rho (q : ℝ)))) := by
      rw [arctan_eq_two_mul_arctan_rho (q : ℝ), arctan_eq_two_mul_arctan_rho (rho (q : ℝ)),
        arctan_eq_two_mul_arctan_rho (rho (rho (q : ℝ)))]
      push_cast; ring
    rw [he]
    apply scale_sound
    have lo := (atanSmall_sound' x3.lo).1
    have hi := (atanSmall_sound' x3.hi).2
    have m1 := Real.arctan_strictMono.monotone hm.1
    have m2 := Real.arctan_strictMono.monotone hm.2
    exact hull_of_le (lo.trans m1) (m2.trans hi)

example : Mem (Real.arctan ((7 : ℚ) : ℝ)) (atanQ 7) := atanQ_sound 7

end IvAtan

section IvGauss

open MeasureTheory Real

/-- standard normal density -/
noncomputable def phiR (t : ℝ) : ℝ := Real.exp (-t^2/2) / Real.sqrt (2*Real.pi)
/-- standard normal CDF -/
noncomputable def Φ (x : ℝ) : ℝ := ∫ t in Set.Iic x, Real.exp (-t^2/2) / Real.sqrt (2*Real.pi)
/-- T_k(y) = y^(2k+1)/(2k+1)!!, defined by the recursion the executable code uses -/
noncomputable def phT : ℕ → ℝ → ℝ
  | 0, y => y
  | k+1, y => phT k y * y^2 / (2*(k:ℝ)+3)
/-- partial sum Σ_{k≤n} T_k(y) -/
noncomputable def phG (n : ℕ) (y : ℝ) : ℝ := ∑ k ∈ Finset.range (n+1), phT k y

lemma Phi_eq (x : ℝ) : Φ x = ∫ t in Set.Iic x, phiR t := rfl

lemma sqrt_two_pi_pos : 0 < Real.sqrt (2*Real.pi) := by positivity

lemma phiR_eq (t : ℝ) : phiR t = (Real.sqrt (2*Real.pi))⁻¹ * Real.exp (-(1/2) * t^2) := by
  unfold phiR
  rw [div_eq_inv_mul]
  congr 2
  ring

lemma phiR_eq_fun : phiR = fun t => (Real.sqrt (2*Real.pi))⁻¹ * Real.exp (-(1/2) * t^2) :=
  funext phiR_eq

lemma phiR_nonneg (t : ℝ) : 0 ≤ phiR t := by
  unfold phiR; positivity

lemma phiR_pos (t : ℝ) : 0 < phiR t := by
  unfold phiR; positivity

lemma phiR_continuous : Continuous phiR := by
  unfold phiR; fun_prop

lemma phiR_neg (t : ℝ) : phiR (-t) = phiR t := by
  unfold phiR; simp

lemma phiR_integrable : Integrable phiR := by
  rw [phiR_eq_fun]
  exact (integrable_exp_neg_mul_sq (by norm_num : (0:ℝ) < 1/2)).const_mul _

lemma phiR_integral : ∫ t, phiR t = 1 := by
  rw [phiR_eq_fun, integral_const_mul, integral_gaussian]
  have : Real.pi / (1/2) = 2 * Real.pi := by ring
  rw [this]
  exact inv_mul_cancel₀ sqrt_two_pi_pos.ne'

lemma Phi_nonneg (x : ℝ) : 0 ≤ Φ x := by
  rw [Phi_eq]
  exact setIntegral_nonneg measurableSet_Iic (fun t _ => phiR_nonneg t)

lemma Phi_add_neg (x : ℝ) : Φ x + Φ (-x) = 1 := by
  have h1 : Φ (-x) = ∫ t in Set.Ioi x, phiR t := by
    rw [Phi_eq]
    have := integral_comp_neg_Ioi x phiR
    rw [← this]
    simp only [phiR_neg]
  rw [h1, Phi_eq, intervalIntegral.integral_Iic_add_Ioi phiR_integrable.integrableOn
    phiR_integrable.integrableOn, phiR_integral]

lemma Phi_zero : Φ 0 = 1/2 := by
  have := Phi_add_neg 0
  rw [neg_zero] at this
  linarith

lemma Phi_sub (a b : ℝ) : Φ b - Φ a = ∫ t in a..b, phiR t := by
  rw [Phi_eq, Phi_eq]
  exact intervalIntegral.integral_Iic_sub_Iic phiR_integrable.integrableOn
    phiR_integrable.integrableOn

lemma Phi_hasDerivAt (x : ℝ) : HasDerivAt Φ (phiR x) x := by
  have h : Φ = fun u => Φ 0 + ∫ t in (0:ℝ)..u, phiR t := by
    funext u
    rw [← Phi_sub]; ring
  rw [h]
  exact (intervalIntegral.integral_hasDerivAt_right (phiR_continuous.intervalIntegrable _ _)
    (phiR_continuous.stronglyMeasurableAtFilter _ _) phiR_continuous.continuousAt).const_add _

lemma phiR_hasDerivAt (x : ℝ) : HasDerivAt phiR (-x * phiR x) x := by
  have h : HasDerivAt (fun t : ℝ => -t^2/2) (-x) x := by
    have h0 : HasDerivAt (fun t : ℝ => -t^2/2) _ x := ((hasDerivAt_id' x).pow 2).neg.div_const 2
    refine h0.congr_deriv ?_
    simp
    ring
  have h1 : HasDerivAt (fun t => Real.exp (-t^2/2) / Real.sqrt (2*Real.pi)) _ x :=
    (h.exp).div_const (Real.sqrt (2*Real.pi))
  refine h1.congr_deriv ?_
  unfold phiR
  ring

lemma phT_zero_eq : phT 0 = fun y => y := rfl
lemma phT_succ_eq (k : ℕ) : phT (k+1) = fun y => phT k y * y^2 / (2*(k:ℝ)+3) := rfl
lemma phT_succ (k : ℕ) (y : ℝ) : phT (k+1) y = phT k y * y^2 / (2*(k:ℝ)+3) := rfl

lemma phT_nonneg {y : ℝ} (hy : 0 ≤ y) (k : ℕ) : 0 ≤ phT k y := by
  induction k with
  | zero => exact hy
  | succ k ih =>
    rw [phT_succ]
    positivity

lemma phT_at_zero (k : ℕ) : phT k 0 = 0 := by
  cases k with
  | zero => rfl
  | succ k => rw [phT_succ]; simp

lemma phG_at_zero (n : ℕ) : phG n 0 = 0 := by
  unfold phG
  simp [phT_at_zero]

lemma phT_zero_hasDerivAt (y : ℝ) : HasDerivAt (phT 0) 1 y := by
  rw [phT_zero_eq]; exact hasDerivAt_id' y

lemma phT_succ_hasDerivAt (k : ℕ) (y : ℝ) : HasDerivAt (phT (k+1)) (y * phT k y) y := by
  induction k with
  | zero =>
    rw [phT_succ_eq]
    have h := (((phT_zero_hasDerivAt y).mul ((hasDerivAt_id' y).pow 2)).div_const (2*((0:ℕ):ℝ)+3))
    refine h.congr_deriv ?_
    simp only [phT_zero_eq, Pi.pow_apply]
    push_cast
    ring
  | succ k ih =>
    rw [phT_succ_eq (k+1)]
    have h := ((ih.mul ((hasDerivAt_id' y).pow 2)).div_const (2*((k+1:ℕ):ℝ)+3))
    refine h.congr_deriv ?_
    simp only [Pi.pow_apply]
    rw [phT_succ]
    have h1 : (2*(k:ℝ)+3) ≠ 0 := by positivity
    have h2 : (2*((k+1:ℕ):ℝ)+3) ≠ 0 := by positivity
    push_cast
    push_cast at h2
    field_simp
    ring

lemma phG_zero_eq : phG 0 = phT 0 := by
  funext y; simp [phG]

lemma phG_succ_eq (n : ℕ) : phG (n+1) = fun y => phG n y + phT (n+1) y := by
  funext y; simp [phG, Finset.sum_range_succ]

lemma phG_hasDerivAt (n : ℕ) (y : ℝ) :
    HasDerivAt (phG n) (1 + y * phG n y - y * phT n y) y := by
  induction n with
  | zero =>
    rw [phG_zero_eq]
    refine (phT_zero_hasDerivAt y).congr_deriv ?_
    ring
  | succ n ih =>
    rw [phG_succ_eq]
    refine (ih.add (phT_succ_hasDerivAt n y)).congr_deriv ?_
    ring

lemma Phi_series_lower {y : ℝ} (hy : 0 ≤ y) (n : ℕ) : phiR y * phG n y ≤ Φ y - 1/2 := by
  set L : ℝ → ℝ := fun y => Φ y - 1/2 - phiR y * phG n y with hL
  have hd : ∀ t, HasDerivAt L (phiR t * t * phT n t) t := by
    intro t
    have h := ((Phi_hasDerivAt t).sub_const (1/2)).sub
      ((phiR_hasDerivAt t).mul (phG_hasDerivAt n t))
    refine h.congr_deriv ?_
    ring
  have hmono : MonotoneOn L (Set.Ici 0) := by
    apply monotoneOn_of_deriv_nonneg (convex_Ici 0)
    · exact fun t _ => (hd t).continuousAt.continuousWithinAt
    · exact fun t _ => (hd t).differentiableAt.differentiableWithinAt
    · intro t ht
      rw [interior_Ici] at ht
      have ht' : 0 < t := ht
      rw [(hd t).deriv]
      have := phT_nonneg ht'.le n
      have := phiR_nonneg t
      positivity
  have h0 : L 0 = 0 := by
    simp only [hL, phG_at_zero, Phi_zero]; ring
  have := hmono (Set.self_mem_Ici) hy hy
  rw [h0] at this
  simp only [hL] at this
  linarith

lemma Phi_series_upper {y : ℝ} (hy : 0 ≤ y) (n : ℕ) (h : y^2 < 2*(n:ℝ)+3) :
    Φ y - 1/2 ≤ phiR y * (phG n y + phT n y * (y^2/(2*(n:ℝ)+3)) / (1 - y^2/(2*(n:ℝ)+3))) := by
  have hD : 0 < 2*(n:ℝ)+3 - y^2 := by linarith
  have hN : 0 < 2*(n:ℝ)+3 := by positivity
  set C : ℝ := 1 / (2*(n:ℝ)+3 - y^2) with hC
  have hCpos : 0 < C := by positivity
  set U : ℝ → ℝ := fun t => phiR t * (phG n t + C * ((2*(n:ℝ)+3) * phT (n+1) t)) - (Φ t - 1/2)
    with hU
  have hd : ∀ t, HasDerivAt U (phiR t * t * phT n t * (C * (2*(n:ℝ)+3 - t^2) - 1)) t := by
    intro t
    have h := ((phiR_hasDerivAt t).mul ((phG_hasDerivAt n t).add
      (((phT_succ_hasDerivAt n t).const_mul (2*(n:ℝ)+3)).const_mul C))).sub
      ((Phi_hasDerivAt t).sub_const (1/2))
    refine h.congr_deriv ?_
    simp only [Pi.add_apply]
    rw [phT_succ]
    field_simp
    ring
  have hmono : MonotoneOn U (Set.Icc 0 y) := by
    apply monotoneOn_of_deriv_nonneg (convex_Icc 0 y)
    · exact fun t _ => (hd t).continuousAt.continuousWithinAt
    · exact fun t _ => (hd t).differentiableAt.differentiableWithinAt
    · intro t ht
      rw [interior_Icc] at ht
      rw [(hd t).deriv]
      have h1 := phT_nonneg ht.1.le n
      have h2 := phiR_nonneg t
      have h3 := ht.1.le
      have h4 : 0 ≤ C * (2*(n:ℝ)+3 - t^2) - 1 := by
        have : t^2 ≤ y^2 := by nlinarith [ht.1, ht.2]
        have h5 : C * (2*(n:ℝ)+3 - y^2) = 1 := by
          rw [hC]; field_simp
        have : C * (2*(n:ℝ)+3 - y^2) ≤ C * (2*(n:ℝ)+3 - t^2) :=
          mul_le_mul_of_nonneg_left (by linarith) hCpos.le
        linarith
      positivity
  have h0 : U 0 = 0 := by
    simp only [hU, phG_at_zero, phT_at_zero, Phi_zero]; ring
  have := hmono (Set.left_mem_Icc.mpr hy) (Set.right_mem_Icc.mpr hy) hy
  rw [h0] at this
  simp only [hU] at this
  have e : phT n y * (y^2/(2*(n:ℝ)+3)) / (1 - y^2/(2*(n:ℝ)+3))
      = C * ((2*(n:ℝ)+3) * phT (n+1) y) := by
    rw [phT_succ, hC]
    have : (1 - y^2/(2*(n:ℝ)+3)) ≠ 0 := by
      have : 1 - y^2/(2*(n:ℝ)+3) = (2*(n:ℝ)+3 - y^2) / (2*(n:ℝ)+3) := by field_simp
      rw [this]; positivity
    field_simp
  rw [e]
  linarith

lemma phiR_tendsto_atBot : Filter.Tendsto phiR Filter.atBot (nhds 0) := by
  have h1 : Filter.Tendsto (fun t : ℝ => t * t) Filter.atBot Filter.atTop :=
    Filter.tendsto_id.atBot_mul_atBot₀ Filter.tendsto_id
  have h2 : Filter.Tendsto (fun t : ℝ => -(1/2) * (t * t)) Filter.atBot Filter.atBot :=
    h1.const_mul_atTop_of_neg (by norm_num)
  have h3 := (Real.tendsto_exp_atBot.comp h2).const_mul (Real.sqrt (2*Real.pi))⁻¹
  rw [mul_zero] at h3
  refine h3.congr ?_
  intro t
  rw [phiR_eq]
  simp only [Function.comp]
  congr 2
  ring

lemma integral_Iic_mul_phiR (x : ℝ) : ∫ t in Set.Iic x, t * phiR t = - phiR x := by
  have hint : IntegrableOn (fun t => t * phiR t) (Set.Iic x) := by
    have : (fun t => t * phiR t)
        = fun t => (Real.sqrt (2*Real.pi))⁻¹ * (t * Real.exp (-(1/2) * t^2)) := by
      funext t; rw [phiR_eq]; ring
    rw [this]
    exact ((integrable_mul_exp_neg_mul_sq (by norm_num : (0:ℝ) < 1/2)).const_mul _).integrableOn
  have hderiv : ∀ t ∈ Set.Iic x, HasDerivAt (fun t => - phiR t) (t * phiR t) t := by
    intro t _
    refine (phiR_hasDerivAt t).neg.congr_deriv ?_
    ring
  have ht : Filter.Tendsto (fun t => - phiR t) Filter.atBot (nhds 0) := by
    simpa using phiR_tendsto_atBot.neg
  have := integral_Iic_of_hasDerivAt_of_tendsto' hderiv hint ht
  rw [this]; ring

lemma Phi_mills {x : ℝ} (hx : x < 0) : Φ x ≤ phiR x / (-x) := by
  have hint : IntegrableOn (fun t => t * phiR t) (Set.Iic x) := by
    have : (fun t => t * phiR t)
        = fun t => (Real.sqrt (2*Real.pi))⁻¹ * (t * Real.exp (-(1/2) * t^2)) := by
      funext t; rw [phiR_eq]; ring
    rw [this]
    exact ((integrable_mul_exp_neg_mul_sq (by norm_num : (0:ℝ) < 1/2)).const_mul _).integrableOn
  have hle : ∫ t in Set.Iic x, phiR t ≤ ∫ t in Set.Iic x, x⁻¹ * (t * phiR t) := by
    apply setIntegral_mono_on phiR_integrable.integrableOn (hint.const_mul _) measurableSet_Iic
    intro t ht
    have ht' : t ≤ x := ht
    have : 1 ≤ x⁻¹ * t := by
      have : x⁻¹ * t = t / x := by ring
      rw [this, le_div_iff_of_neg hx]
      linarith
    calc phiR t = 1 * phiR t := by ring
      _ ≤ (x⁻¹ * t) * phiR t := mul_le_mul_of_nonneg_right this (phiR_nonneg t)
      _ = x⁻¹ * (t * phiR t) := by ring
  rw [Phi_eq]
  refine hle.trans (le_of_eq ?_)
  rw [integral_const_mul, integral_Iic_mul_phiR]
  have : x ≠ 0 := hx.ne
  field_simp

end IvGauss

section IvPhiFold

/-! ## S7 (model side): the rounded-up series fold inside `Phi` -/

/-- the sequence of rounded-up terms computed by the fold in `Phi` -/
def tq (z : ℚ) : ℕ → ℚ
  | 0 => ratAbs z
  | k + 1 => rup (tq z k * (z * z) / ((2 * k + 3 : ℕ) : ℚ))

/-- the fold in `Phi`, run for `j` steps -/
def PhiFold (z : ℚ) (j : ℕ) : ℚ × ℚ :=
  (List.range j).foldl (fun (s, term) k =>
      let term' := rup (term * (z * z) / ((2 * k + 3 : Nat) : Rat))
      (s + term', term')) (ratAbs z, ratAbs z)

lemma PhiFold_eq (z : ℚ) (j : ℕ) :
    PhiFold z j = (∑ k ∈ Finset.range (j + 1), tq z k, tq z j) := by
  induction j with
  | zero => simp [PhiFold, tq]
  | succ j ih =>
    unfold PhiFold at ih ⊢
    rw [List.range_succ, List.foldl_append, ih]
    simp only [List.foldl_cons, List.foldl_nil]
    rw [Finset.sum_range_succ _ (j + 1)]
    rfl

section
variable (z : ℚ) (T : ℕ → ℝ) (hT0 : T 0 = |(z : ℝ)|)
  (hTs : ∀ k : ℕ, T (k + 1) = T k * (z : ℝ) ^ 2 / (2 * (k : ℝ) + 3))
include hT0 hTs

lemma phT_nonneg' (k : ℕ) : 0 ≤ T k := by
  induction k with
  | zero => rw [hT0]; exact abs_nonneg _
  | succ k ih => rw [hTs]; positivity

lemma T_le_tq (k : ℕ) : T k ≤ ((tq z k : ℚ) : ℝ) := by
  induction k with
  | zero => rw [hT0]; simp [tq, ratAbs_eq]
  | succ k ih =>
    rw [hTs]
    refine le_trans ?_ (le_rupR _)
    push_cast
    have h3 : (0 : ℝ) < 2 * (k : ℝ) + 3 := by positivity
    rw [← pow_two]
    gcongr

/-- key inequality making the error recursion close -/
lemma key_ineq (k : ℕ) : (k : ℝ) * ((z : ℝ) ^ 2 / (2 * (k : ℝ) + 3)) ≤ k + T (k + 1) := by
  have hTnn := phT_nonneg' z T hT0 hTs
  set ρ : ℝ := (z : ℝ) ^ 2 / (2 * (k : ℝ) + 3) with hρ
  have h3 : (0 : ℝ) < 2 * (k : ℝ) + 3 := by positivity
  have hρ0 : 0 ≤ ρ := by positivity
  rcases le_or_gt ρ 1 with h1 | h1
  · have := hTnn (k + 1)
    have hk : (0 : ℝ) ≤ k := Nat.cast_nonneg _
    nlinarith
  · -- ρ > 1, so |z| > 1
    have hz2 : 2 * (k : ℝ) + 3 < (z : ℝ) ^ 2 := by
      rw [hρ, lt_div_iff₀ h3] at h1; linarith
    have hy1 : 1 ≤ |(z : ℝ)| := by
      by_contra hcon
      rw [not_le] at hcon
      have : (z : ℝ) ^ 2 < 1 := by
        rw [← sq_abs]; nlinarith [abs_nonneg (z : ℝ)]
      have hk : (0 : ℝ) ≤ k := Nat.cast_nonneg _
      linarith
    have claim : ∀ j : ℕ, j ≤ k + 1 → ρ ^ j ≤ T j := by
      intro j
      induction j with
      | zero => intro _; rw [hT0]; simpa using hy1
      | succ j ih =>
        intro hj
        have hjk : j ≤ k := by omega
        have ih' := ih (by omega)
        rw [hTs, pow_succ, mul_div_assoc]
        have hρj : ρ ≤ (z : ℝ) ^ 2 / (2 * (j : ℝ) + 3) := by
          rw [hρ]
          have : (j : ℝ) ≤ k := by exact_mod_cast hjk
          gcongr
        exact mul_le_mul ih' hρj hρ0 (hTnn j)
    have hb : 1 + ((k + 1 : ℕ) : ℝ) * (ρ - 1) ≤ (1 + (ρ - 1)) ^ (k + 1) :=
      one_add_mul_le_pow (by linarith) _
    have hc := claim (k + 1) le_rfl
    have : 1 + (ρ - 1) = ρ := by ring
    rw [this] at hb
    push_cast at hb
    have hk : (0 : ℝ) ≤ k := Nat.cast_nonneg _
    nlinarith

lemma tq_sub_le (k : ℕ) :
    ((tq z k : ℚ) : ℝ) - T k ≤ (k : ℝ) / ((scaleN : ℚ) : ℝ) * (1 + T k) := by
  have hTnn := phT_nonneg' z T hT0 hTs
  have hS := scaleN_posR
  induction k with
  | zero => rw [hT0]; simp [tq, ratAbs_eq]
  | succ k ih =>
    have h3 : (0 : ℝ) < 2 * (k : ℝ) + 3 := by positivity
    set ρ : ℝ := (z : ℝ) ^ 2 / (2 * (k : ℝ) + 3) with hρ
    have hρ0 : 0 ≤ ρ := by positivity
    have hstep : ((tq z (k + 1) : ℚ) : ℝ) ≤ ((tq z k : ℚ) : ℝ) * ρ + 1 / ((scaleN : ℚ) : ℝ) := by
      have := rup_lt_add (tq z k * (z * z) / ((2 * k + 3 : ℕ) : ℚ))
      have h2 : ((tq z (k + 1) : ℚ) : ℝ) <
          ((tq z k * (z * z) / ((2 * k + 3 : ℕ) : ℚ) + 1 / (scaleN : ℚ) : ℚ) : ℝ) := by
        exact_mod_cast this
      push_cast at h2
      rw [hρ, pow_two, ← mul_div_assoc]
      exact h2.le
    have hT1 : T (k + 1) = T k * ρ := by rw [hTs, hρ, mul_div_assoc]
    have hkey := key_ineq z T hT0 hTs k
    rw [← hρ] at hkey
    have hk : (0 : ℝ) ≤ k := Nat.cast_nonneg _
    -- e_{k+1} ≤ e_k ρ + 1/S
    have he : ((tq z (k + 1) : ℚ) : ℝ) - T (k + 1) ≤
        (k : ℝ) / ((scaleN : ℚ) : ℝ) * (1 + T k) * ρ + 1 / ((scaleN : ℚ) : ℝ) := by
      have := mul_le_mul_of_nonneg_right ih hρ0
      rw [hT1]; nlinarith
    refine he.trans ?_
    push_cast
    rw [div_mul_eq_mul_div, div_mul_eq_mul_div, div_mul_eq_mul_div, ← add_div]
    apply div_le_div_of_nonneg_right _ hS.le
    rw [hT1] at hkey ⊢
    nlinarith

lemma sum_T_le_sum_tq (n : ℕ) :
    ∑ k ∈ Finset.range n, T k ≤ ((∑ k ∈ Finset.range n, tq z k : ℚ) : ℝ) := by
  push_cast
  exact Finset.sum_le_sum fun k _ => T_le_tq z T hT0 hTs k

lemma sum_tq_sub_le (n : ℕ) :
    ((∑ k ∈ Finset.range (n + 1), tq z k : ℚ) : ℝ) - ∑ k ∈ Finset.range (n + 1), T k ≤
      (n : ℝ) / ((scaleN : ℚ) : ℝ) * ((n + 1 : ℝ) + ∑ k ∈ Finset.range (n + 1), T k) := by
  have hTnn := phT_nonneg' z T hT0 hTs
  have hS := scaleN_posR
  push_cast
  rw [← Finset.sum_sub_distrib]
  calc ∑ k ∈ Finset.range (n + 1), (((tq z k : ℚ) : ℝ) - T k)
      ≤ ∑ k ∈ Finset.range (n + 1), ((n : ℝ) / ((scaleN : ℚ) : ℝ) * (1 + T k)) := by
        apply Finset.sum_le_sum
        intro k hk
        refine (tq_sub_le z T hT0 hTs k).trans ?_
        have hkn : (k : ℝ) ≤ n := by
          exact_mod_cast Nat.lt_succ_iff.mp (Finset.mem_range.mp hk)
        have := hTnn k
        gcongr
    _ = (n : ℝ) / ((scaleN : ℚ) : ℝ) * ((n + 1 : ℝ) + ∑ k ∈ Finset.range (n + 1), T k) := by
        rw [← Finset.mul_sum, Finset.sum_add_distrib]
        simp

end

end IvPhiFold

section IvPhi

/-! ## S6: standard normal density -/

/-- `2·pi` (the interval) has lower endpoint at least `1` (kernel evaluation of the Machin series). -/
lemma scale2pi_lo_ge : (1 : ℚ) ≤ (scale 2 pi).lo := by decide +kernel

/-- `√(2π)` lies in the interval `sqrt2pi`. -/
theorem sqrt2pi_sound : Mem (Real.sqrt (2 * Real.pi)) sqrt2pi := by
  have h := scale_sound 2 pi_sound
  have h2 : (((2 : ℚ) : ℝ)) * Real.pi = 2 * Real.pi := by norm_num
  rw [h2] at h
  exact sqrt_sound' _ _ h

lemma sqrt2pi_lo_pos : 0 < sqrt2pi.lo := sqrtLo_pos scale2pi_lo_ge

/-- The density enclosure is sound for EVERY rational `z`: `exp(-z²/2)/√(2π) ∈ phi z`.
(No bound on `z` is needed because `expQ` is only called on the nonpositive argument `-z²/2`,
where `expQ_sound'` applies.) -/
theorem phi_sound' (z : ℚ) :
    Mem (Real.exp (-(z : ℝ) ^ 2 / 2) / Real.sqrt (2 * Real.pi)) (phi z) := by
  unfold phi
  have hq : (-(z * z) / 2 : ℚ) ≤ 2 ^ 63 := by
    have : (0 : ℚ) ≤ z * z := mul_self_nonneg z
    have h2 : (-(z * z) / 2 : ℚ) ≤ 0 := by linarith
    exact h2.trans (by positivity)
  have h1 := expQ_sound' (-(z * z) / 2) hq
  have h2 : (((-(z * z) / 2 : ℚ)) : ℝ) = -(z : ℝ) ^ 2 / 2 := by push_cast; ring
  rw [h2] at h1
  exact div_sound h1 sqrt2pi_sound (Or.inl sqrt2pi_lo_pos)

example : Mem (Real.exp (-((2 ^ 40 : ℚ) : ℝ) ^ 2 / 2) / Real.sqrt (2 * Real.pi)) (phi (2 ^ 40)) :=
  phi_sound' _

/-- The density enclosure is sound (requested form, with the redundant hypothesis `|z| ≤ 2^20`;
see `phi_sound'` for the unconditional statement). -/
theorem phi_sound (z : ℚ) (_hz : |z| ≤ 2 ^ 20) :
    Mem (Real.exp (-(z : ℝ) ^ 2 / 2) / Real.sqrt (2 * Real.pi)) (phi z) :=
  phi_sound' z

example : Mem (Real.exp (-((3 / 2 : ℚ) : ℝ) ^ 2 / 2) / Real.sqrt (2 * Real.pi)) (phi (3 / 2)) :=
  phi_sound _ (by norm_num)

/-! ## S7: standard normal CDF -/

/-- upper-tail enclosure used by `Phi` for `|z| > 7` -/
def PhiTail (z : ℚ) : I := ⟨0, (div (phi z) (ofRat (ratAbs z))).hi⟩

/-- enclosure of `Φ(|z|) - 1/2` used by `Phi` for `|z| ≤ 7` -/
def PhiHalf (z : ℚ) : I :=
  let s := (PhiFold z 160).1
  let term := (PhiFold z 160).2
  let tail := term * (z * z / ((2 * 160 + 3 : Nat) : Rat)) / (1 - z * z / ((2 * 160 + 3 : Nat) : Rat))
  let slack := ((160 : Nat) : Rat) * (1 + s) * ((2 ^ 24 : Nat) : Rat) / (scaleN : Rat)
  mul (phi z) ⟨s - slack, s + tail + slack⟩

lemma Phi_unfold (z : ℚ) : Phi z =
    if ratAbs z > 7 then (if z < 0 then PhiTail z else sub (ofRat 1) (PhiTail z))
    else (if z ≥ 0 then add (ofRat (1 / 2)) (PhiHalf z) else sub (ofRat (1 / 2)) (PhiHalf z)) := by
  unfold Phi PhiHalf PhiTail PhiFold
  dsimp only

lemma phiR_abs (t : ℝ) : phiR |t| = phiR t := by
  unfold phiR; rw [sq_abs]

lemma phi_soundR (z : ℚ) : Mem (phiR (z : ℝ)) (phi z) := phi_sound' z

/-- Mills-ratio branch: `Φ(-|z|) ∈ [0, (φ(z)/|z|).hi]`. -/
lemma PhiTail_mem (z : ℚ) (h0 : z ≠ 0) : Mem (Φ (-|(z : ℝ)|)) (PhiTail z) := by
  have hpos : (0 : ℝ) < |(z : ℝ)| := abs_pos.mpr (by exact_mod_cast h0)
  have hposq : (0 : ℚ) < |z| := abs_pos.mpr h0
  have hd : Mem (phiR (z : ℝ) / ((|z| : ℚ) : ℝ)) (div (phi z) (ofRat (ratAbs z))) := by
    rw [ratAbs_eq]
    exact div_sound (phi_soundR z) (ofRat_sound |z|) (Or.inl hposq)
  constructor
  · show ((0 : ℚ) : ℝ) ≤ _
    simpa using Phi_nonneg _
  · show _ ≤ (((div (phi z) (ofRat (ratAbs z))).hi : ℚ) : ℝ)
    refine le_trans ?_ hd.2
    have := Phi_mills (x := -|(z : ℝ)|) (by linarith)
    rw [neg_neg] at this
    have h2 : phiR (-|(z : ℝ)|) = phiR (z : ℝ) := by
      unfold phiR; rw [neg_sq, sq_abs]
    rw [h2] at this
    rw [Rat.cast_abs]
    exact this

/-- series branch: `Φ(|z|) - 1/2 ∈ PhiHalf z` for `|z| ≤ 7`. -/
lemma PhiHalf_mem (z : ℚ) (h7 : |z| ≤ 7) : Mem (Φ |(z : ℝ)| - 1 / 2) (PhiHalf z) := by
  set y : ℝ := |(z : ℝ)| with hy
  have hy0 : 0 ≤ y := abs_nonneg _
  have hy7 : y ≤ 7 := by
    have : ((|z| : ℚ) : ℝ) ≤ 7 := by exact_mod_cast h7
    rwa [Rat.cast_abs] at this
  have hT0 : phT 0 y = |(z : ℝ)| := rfl
  have hTs : ∀ k : ℕ, phT (k + 1) y = phT k y * (z : ℝ) ^ 2 / (2 * (k : ℝ) + 3) := by
    intro k
    show phT k y * y ^ 2 / (2 * (k : ℝ) + 3) = _
    rw [hy, sq_abs]
  have hfold := PhiFold_eq z 160
  set s : ℚ := ∑ k ∈ Finset.range (160 + 1), tq z k with hs
  set term : ℚ := tq z 160 with hterm
  set G : ℝ := phG 160 y with hG
  have hGdef : G = ∑ k ∈ Finset.range (160 + 1), phT k y := rfl
  have hG0 : 0 ≤ G := by
    rw [hGdef]; exact Finset.sum_nonneg fun k _ => phT_nonneg hy0 k
  have hGs : G ≤ (s : ℝ) := by
    rw [hGdef, hs]; exact sum_T_le_sum_tq z (fun k => phT k y) hT0 hTs _
  have hsG := sum_tq_sub_le z (fun k => phT k y) hT0 hTs 160
  rw [← hs, ← hGdef] at hsG
  have hTt : phT 160 y ≤ (term : ℝ) := T_le_tq z (fun k => phT k y) hT0 hTs 160
  have hS := scaleN_posR
  -- W := (Φ y - 1/2)/φ(y)
  have hφ := phiR_pos y
  have hlow := Phi_series_lower hy0 160
  have hupp := Phi_series_upper hy0 160 (by push_cast; nlinarith)
  rw [← hG] at hlow hupp
  set W : ℝ := (Φ y - 1 / 2) / phiR y with hW
  have hWmul : phiR (z : ℝ) * W = Φ y - 1 / 2 := by
    rw [← phiR_abs (z : ℝ), ← hy, hW]; field_simp
  have hW1 : G ≤ W := by
    rw [hW, le_div_iff₀ hφ]; linarith
  set ρ : ℝ := y ^ 2 / (2 * ((160 : ℕ) : ℝ) + 3) with hρ
  have hρ0 : 0 ≤ ρ := by positivity
  have hρ1 : ρ < 1 := by
    rw [hρ, div_lt_one (by positivity)]; push_cast; nlinarith
  have hW2 : W ≤ G + phT 160 y * ρ / (1 - ρ) := by
    rw [hW, div_le_iff₀ hφ]; linarith
  have hρz : ρ = (z : ℝ) * (z : ℝ) / 323 := by
    rw [hρ, hy, sq_abs]; push_cast; ring
  -- slack bound
  have hslack : (s : ℝ) - G ≤ 160 * (1 + (s : ℝ)) * 2 ^ 24 / ((scaleN : ℚ) : ℝ) := by
    refine hsG.trans ?_
    rw [div_mul_eq_mul_div]
    apply div_le_div_of_nonneg_right _ hS.le
    push_cast
    have hs0 : (0 : ℝ) ≤ s := hG0.trans hGs
    nlinarith
  have hslack0 : (0 : ℝ) ≤ 160 * (1 + (s : ℝ)) * 2 ^ 24 / ((scaleN : ℚ) : ℝ) := by
    have hs0 : (0 : ℝ) ≤ s := hG0.trans hGs
    positivity
  set slack : ℚ := (160 : ℕ) * (1 + s) * ((2 ^ 24 : ℕ) : ℚ) / (scaleN : ℚ) with hslackdef
  have hslackR : (slack : ℝ) = 160 * (1 + (s : ℝ)) * 2 ^ 24 / ((scaleN : ℚ) : ℝ) := by
    rw [hslackdef]; push_cast; ring
  set tail : ℚ := term * (z * z / ((2 * 160 + 3 : ℕ) : ℚ)) / (1 - z * z / ((2 * 160 + 3 : ℕ) : ℚ))
    with htaildef
  have htailR : (tail : ℝ) = (term : ℝ) * ρ / (1 - ρ) := by
    rw [htaildef, hρz]; push_cast; norm_num
  have hmem : Mem W ⟨s - slack, s + tail + slack⟩ := by
    constructor
    · show ((s - slack : ℚ) : ℝ) ≤ W
      rw [Rat.cast_sub, hslackR]
      linarith
    · show W ≤ ((s + tail + slack : ℚ) : ℝ)
      rw [Rat.cast_add, Rat.cast_add, hslackR, htailR]
      have hfrac : phT 160 y * ρ / (1 - ρ) ≤ (term : ℝ) * ρ / (1 - ρ) := by
        apply div_le_div_of_nonneg_right _ (by linarith)
        exact mul_le_mul_of_nonneg_right hTt hρ0
      linarith
  have hmul := mul_sound (phi_soundR z) hmem
  rw [hWmul] at hmul
  unfold PhiHalf
  rw [hfold]
  exact hmul

/-- **Soundness of the normal CDF enclosure.** For EVERY rational `z`, the value
`Φ(z) = ∫_{-∞}^{z} exp(-t²/2)/√(2π) dt` lies in the computed interval `Phi z`
(series branch `1/2 ± φ(z)·Σ_{k≤160} |z|^(2k+1)/(2k+1)!!` with geometric tail and rounding slack
for `|z| ≤ 7`, Mills-ratio branch `0 ≤ Φ(-|z|) ≤ φ(z)/|z|` for `|z| > 7`). -/
theorem Phi_sound (z : ℚ) : Mem (Φ (z : ℝ)) (Phi z) := by
  rw [Phi_unfold, ratAbs_eq]
  split_ifs with h7 hneg hnn
  · -- |z| > 7, z < 0
    have h := PhiTail_mem z (ne_of_lt hneg)
    have hzr : (z : ℝ) < 0 := by exact_mod_cast hneg
    rwa [abs_of_neg hzr, neg_neg] at h
  · -- |z| > 7, z ≥ 0
    have hz0 : z ≠ 0 := by
      rintro rfl; simp at h7; linarith
    have h := PhiTail_mem z hz0
    have hzr : (0 : ℝ) ≤ z := by exact_mod_cast not_lt.mp hneg
    rw [abs_of_nonneg hzr] at h
    have h1 := sub_sound (ofRat_sound 1) h
    have : ((1 : ℚ) : ℝ) - Φ (-(z : ℝ)) = Φ (z : ℝ) := by
      have := Phi_add_neg (z : ℝ); push_cast; linarith
    rwa [this] at h1
  · -- |z| ≤ 7, z ≥ 0
    have h := PhiHalf_mem z (not_lt.mp h7)
    have hzr : (0 : ℝ) ≤ z := by exact_mod_cast hnn
    rw [abs_of_nonneg hzr] at h
    have h1 := add_sound (ofRat_sound (1 / 2)) h
    have : (((1 / 2 : ℚ)) : ℝ) + (Φ (z : ℝ) - 1 / 2) = Φ (z : ℝ) := by push_cast; ring
    rwa [this] at h1
  · -- |z| ≤ 7, z < 0
    have h := PhiHalf_mem z (not_lt.mp h7)
    have hzr : (z : ℝ) < 0 := by exact_mod_cast not_le.mp hnn
    rw [abs_of_neg hzr] at h
    have h1 := sub_sound (ofRat_sound (1 / 2)) h
    have : (((1 / 2 : ℚ)) : ℝ) - (Φ (-(z : ℝ)) - 1 / 2) = Φ (z : ℝ) := by
      have := Phi_add_neg (z : ℝ); push_cast; linarith
    rwa [this] at h1

example : Mem (Φ ((-5 / 4 : ℚ) : ℝ)) (Phi (-5 / 4)) := Phi_sound _
example : Mem (Φ ((9 : ℚ) : ℝ)) (Phi 9) := Phi_sound _

end IvPhi

end MV.I
