import Mathlib.Tactic
import MV.Model.MWU
/-!
# C01 — Mann-Whitney U: mid-rank formula = pair counting; invariances; exact p range
-/
namespace MV.MWU
open MV.UDist

/-! ## sorting -/

lemma insertR_perm (x : Rat) (l : List Rat) : (insertR x l).Perm (x :: l) := by
  induction l with
  | nil => simp [insertR]
  | cons y r ih =>
    unfold insertR
    split_ifs
    · exact List.Perm.refl _
    · exact (List.Perm.cons y ih).trans (List.Perm.swap x y r)

lemma foldl_insertR_perm (l acc : List Rat) :
    (l.foldl (fun acc x => insertR x acc) acc).Perm (l ++ acc) := by
  induction l generalizing acc with
  | nil => simp
  | cons x l ih =>
    simp only [List.foldl_cons]
    refine (ih _).trans ?_
    exact ((insertR_perm x acc).append_left l).trans List.perm_middle

lemma sortR_perm (l : List Rat) : (sortR l).Perm l := by
  unfold sortR; simpa using foldl_insertR_perm l []

lemma insertR_sorted (x : Rat) (l : List Rat) (h : l.Pairwise (· ≤ ·)) :
    (insertR x l).Pairwise (· ≤ ·) := by
  induction l with
  | nil => simp [insertR]
  | cons y r ih =>
    unfold insertR
    rw [List.pairwise_cons] at h
    split_ifs with hxy
    · refine List.pairwise_cons.2 ⟨?_, List.pairwise_cons.2 h⟩
      intro z hz
      rcases List.mem_cons.1 hz with rfl | hz
      · exact hxy
      · exact le_trans hxy (h.1 z hz)
    · refine List.pairwise_cons.2 ⟨?_, ih h.2⟩
      intro z hz
      rcases List.mem_cons.1 ((insertR_perm x r).mem_iff.1 hz) with rfl | hz
      · exact le_of_lt (not_le.1 hxy)
      · exact h.1 z hz

lemma foldl_insertR_sorted (l acc : List Rat) (h : acc.Pairwise (· ≤ ·)) :
    (l.foldl (fun acc x => insertR x acc) acc).Pairwise (· ≤ ·) := by
  induction l generalizing acc with
  | nil => simpa
  | cons x l ih => exact ih _ (insertR_sorted x acc h)

lemma sortR_sorted (l : List Rat) : (sortR l).Pairwise (· ≤ ·) := by
  unfold sortR; exact foldl_insertR_sorted l [] List.Pairwise.nil

lemma sortR_eq_of_perm {l l' : List Rat} (h : l.Perm l') : sortR l = sortR l' :=
  List.Perm.eq_of_pairwise (fun _ _ _ _ h1 h2 => le_antisymm h1 h2) (sortR_sorted l) (sortR_sorted l')
    ((sortR_perm l).trans (h.trans (sortR_perm l').symm))

lemma go_mem (s : List Rat) (v : Rat) : v ∈ distinctSorted.go s ↔ v ∈ s := by
  fun_induction distinctSorted.go s
  · simp
  · simp
  · rename_i x y r h ih
    simp only [beq_iff_eq] at h
    subst h
    rw [ih]; simp
  · rename_i x y r h ih
    simp only [List.mem_cons] at ih ⊢
    rw [ih]

lemma go_sorted (s : List Rat) (hs : s.Pairwise (· ≤ ·)) : (distinctSorted.go s).Pairwise (· < ·) := by
  fun_induction distinctSorted.go s
  · simp
  · simp
  · rename_i x y r h ih
    exact ih (List.pairwise_cons.1 hs).2
  · rename_i x y r h ih
    simp only [beq_iff_eq] at h
    have hs' := List.pairwise_cons.1 hs
    refine List.pairwise_cons.2 ⟨?_, ih hs'.2⟩
    intro z hz
    rw [go_mem] at hz
    have hxy : x < y := lt_of_le_of_ne (hs'.1 y (by simp)) h
    rcases List.mem_cons.1 hz with rfl | hz
    · exact hxy
    · exact lt_of_lt_of_le hxy ((List.pairwise_cons.1 hs'.2).1 z hz)

lemma mem_distinctSorted (l : List Rat) (v : Rat) : v ∈ distinctSorted l ↔ v ∈ l := by
  unfold distinctSorted; rw [go_mem, (sortR_perm l).mem_iff]

lemma distinctSorted_sorted (l : List Rat) : (distinctSorted l).Pairwise (· < ·) := by
  unfold distinctSorted; exact go_sorted _ (sortR_sorted l)

lemma distinctSorted_nodup (l : List Rat) : (distinctSorted l).Nodup :=
  (distinctSorted_sorted l).imp (fun h => ne_of_lt h)

lemma distinctSorted_perm {l l' : List Rat} (h : l.Perm l') : distinctSorted l = distinctSorted l' := by
  unfold distinctSorted; rw [sortR_eq_of_perm h]


/-! ## strictly increasing maps -/

lemma insertR_map (f : Rat → Rat) (hf : StrictMono f) (x : Rat) (l : List Rat) :
    insertR (f x) (l.map f) = (insertR x l).map f := by
  induction l with
  | nil => simp [insertR]
  | cons y r ih =>
    simp only [List.map_cons, insertR, hf.le_iff_le]
    split_ifs
    · simp
    · simp [ih]

lemma foldl_insertR_map (f : Rat → Rat) (hf : StrictMono f) (l acc : List Rat) :
    (l.map f).foldl (fun acc x => insertR x acc) (acc.map f)
      = (l.foldl (fun acc x => insertR x acc) acc).map f := by
  induction l generalizing acc with
  | nil => simp
  | cons x l ih =>
    simp only [List.map_cons, List.foldl_cons]
    rw [insertR_map f hf, ih]

lemma sortR_map (f : Rat → Rat) (hf : StrictMono f) (l : List Rat) :
    sortR (l.map f) = (sortR l).map f := by
  unfold sortR; simpa using foldl_insertR_map f hf l []

lemma go_map (f : Rat → Rat) (hf : StrictMono f) (s : List Rat) :
    distinctSorted.go (s.map f) = (distinctSorted.go s).map f := by
  fun_induction distinctSorted.go s
  · simp [distinctSorted.go]
  · simp [distinctSorted.go]
  · rename_i x y r h ih
    simp only [beq_iff_eq] at h
    subst h
    simp only [List.map_cons] at ih ⊢
    rw [distinctSorted.go]
    simp [ih]
  · rename_i x y r h ih
    simp only [beq_iff_eq] at h
    simp only [List.map_cons] at ih ⊢
    rw [distinctSorted.go]
    simp [ih, hf.injective.eq_iff, h]

lemma distinctSorted_map (f : Rat → Rat) (hf : StrictMono f) (l : List Rat) :
    distinctSorted (l.map f) = (distinctSorted l).map f := by
  unfold distinctSorted; rw [sortR_map f hf, go_map f hf]

/-! ## countEq -/

@[simp] lemma countEq_nil (v : Rat) : countEq [] v = 0 := rfl

lemma countEq_cons (a : Rat) (x : List Rat) (v : Rat) :
    countEq (a :: x) v = (if a = v then 1 else 0) + countEq x v := by
  unfold countEq
  simp only [List.filter_cons, beq_iff_eq]
  split_ifs <;> simp [Nat.add_comm]

lemma countEq_perm {x y : List Rat} (h : x.Perm y) (v : Rat) : countEq x v = countEq y v := by
  unfold countEq; exact (h.filter _).length_eq

lemma countEq_append (x y : List Rat) (v : Rat) : countEq (x ++ y) v = countEq x v + countEq y v := by
  unfold countEq; simp

lemma countEq_map (f : Rat → Rat) (hf : StrictMono f) (x : List Rat) (v : Rat) :
    countEq (x.map f) (f v) = countEq x v := by
  induction x with
  | nil => simp
  | cons a x ih => simp [countEq_cons, ih, hf.injective.eq_iff]

lemma countEq_pos_of_mem {x : List Rat} {v : Rat} (h : v ∈ x) : 0 < countEq x v := by
  unfold countEq
  exact List.length_pos_of_mem (List.mem_filter.2 ⟨h, by simp⟩)

/-! ## invariance of tie groups -/

/-- The list of (pool count, sample-1 count) pairs per distinct pooled value does not change when
either sample is reordered. -/
theorem tieGroups_perm {x1 x2 y1 y2 : List Rat} (h1 : x1.Perm y1) (h2 : x2.Perm y2) :
    tieGroups x1 x2 = tieGroups y1 y2 := by
  unfold tieGroups
  rw [distinctSorted_perm (h1.append h2)]
  refine List.map_congr_left (fun v _ => ?_)
  rw [countEq_perm h1, countEq_perm h2]

example : tieGroups [3, 1, 1] [2, 1] = tieGroups [1, 3, 1] [1, 2] :=
  tieGroups_perm (by decide) (by decide)

/-- The list of (pool count, sample-1 count) pairs does not change when one strictly increasing map
is applied to every observation of both samples. -/
theorem tieGroups_strictMono (f : Rat → Rat) (hf : StrictMono f) (x1 x2 : List Rat) :
    tieGroups (x1.map f) (x2.map f) = tieGroups x1 x2 := by
  unfold tieGroups
  rw [← List.map_append, distinctSorted_map f hf, List.map_map]
  refine List.map_congr_left (fun v _ => ?_)
  simp [countEq_map f hf]

example : tieGroups ([3, 1, 1].map (fun q => 2 * q + 1)) ([2, 1].map (fun q => 2 * q + 1))
    = tieGroups [3, 1, 1] [2, 1] :=
  tieGroups_strictMono _ (fun a b h => by show 2 * a + 1 < 2 * b + 1; linarith) _ _


/-! ## pairU as a double sum -/

/-- weight of the ordered pair (a, b): 1 if a > b, 1/2 if a = b, 0 otherwise -/
def wt (a b : Rat) : Rat := if a > b then 1 else if a = b then 1 / 2 else 0

lemma foldl_add_eq_sum (l : List Rat) : l.foldl (· + ·) 0 = l.sum := by
  rw [List.sum_eq_foldl]

lemma pairU_eq_sum (x1 x2 : List Rat) :
    pairU x1 x2 = (x1.map fun a => (x2.map (wt a)).sum).sum := by
  unfold pairU
  rw [foldl_add_eq_sum]
  congr 1
  refine List.map_congr_left (fun a _ => ?_)
  rw [foldl_add_eq_sum]
  congr 1
  refine List.map_congr_left (fun b _ => ?_)
  simp [wt]

/-- U does not change when either sample is reordered. -/
theorem pairU_perm {x1 x2 y1 y2 : List Rat} (h1 : x1.Perm y1) (h2 : x2.Perm y2) :
    pairU x1 x2 = pairU y1 y2 := by
  rw [pairU_eq_sum, pairU_eq_sum]
  have : ∀ a, (x2.map (wt a)).sum = (y2.map (wt a)).sum := fun a => (h2.map _).sum_eq
  simp only [this]
  exact (h1.map _).sum_eq

example : pairU [3, 1, 1] [2, 1] = pairU [1, 3, 1] [1, 2] := pairU_perm (by decide) (by decide)

lemma wt_map (f : Rat → Rat) (hf : StrictMono f) (a b : Rat) : wt (f a) (f b) = wt a b := by
  unfold wt; simp only [gt_iff_lt, hf.lt_iff_lt, hf.injective.eq_iff]

/-- U does not change when one strictly increasing map is applied to all observations. -/
theorem pairU_strictMono (f : Rat → Rat) (hf : StrictMono f) (x1 x2 : List Rat) :
    pairU (x1.map f) (x2.map f) = pairU x1 x2 := by
  rw [pairU_eq_sum, pairU_eq_sum]
  simp only [List.map_map, Function.comp_def, wt_map f hf]

example : pairU ([3, 1, 1].map (fun q => 2 * q + 1)) ([2, 1].map (fun q => 2 * q + 1))
    = pairU [3, 1, 1] [2, 1] :=
  pairU_strictMono _ (fun a b h => by show 2 * a + 1 < 2 * b + 1; linarith) _ _

/-! ## sums over a sample regrouped by distinct value -/

lemma sum_ite_single (D : List Rat) (hD : D.Nodup) (a : Rat) (ha : a ∈ D) (g : Rat → Rat) :
    (D.map fun v => if a = v then g v else 0).sum = g a := by
  induction D with
  | nil => simp at ha
  | cons d D ih =>
    rw [List.nodup_cons] at hD
    simp only [List.map_cons, List.sum_cons]
    by_cases h : a = d
    · subst h
      have : (D.map fun v => if a = v then g v else 0) = D.map fun _ => (0 : Rat) :=
        List.map_congr_left (fun v hv => by
          have : a ≠ v := fun e => hD.1 (e ▸ hv)
          simp [this])
      rw [this]; simp
    · have ha' : a ∈ D := by
        rcases List.mem_cons.1 ha with h' | h'
        · exact absurd h' h
        · exact h'
      rw [if_neg h, ih hD.2 ha']; simp

lemma sum_map_eq_sum_countEq (D : List Rat) (hD : D.Nodup) (x : List Rat)
    (hx : ∀ a ∈ x, a ∈ D) (g : Rat → Rat) :
    (x.map g).sum = (D.map fun v => (countEq x v : Rat) * g v).sum := by
  induction x with
  | nil => simp
  | cons a x ih =>
    have ha : a ∈ D := hx a (by simp)
    have hx' : ∀ b ∈ x, b ∈ D := fun b hb => hx b (by simp [hb])
    simp only [List.map_cons, List.sum_cons, countEq_cons, Nat.cast_add, add_mul]
    rw [List.sum_map_add, ← ih hx', ← sum_ite_single D hD a ha g]
    congr 2
    refine List.map_congr_left (fun v _ => ?_)
    split_ifs <;> simp

lemma length_eq_sum_countEq (D : List Rat) (hD : D.Nodup) (x : List Rat)
    (hx : ∀ a ∈ x, a ∈ D) : (x.length : Rat) = (D.map fun v => (countEq x v : Rat)).sum := by
  have := sum_map_eq_sum_countEq D hD x hx (fun _ => 1)
  simpa using this

/-! ## the rank sum, group by group -/

/-- rank sum contributed by the groups `gs` when `pos` pooled items precede them -/
def rankSum : Nat → List (Nat × Nat) → Rat
  | _, [] => 0
  | pos, (t, r) :: gs => ((2 * pos + t + 1 : Nat) : Rat) / 2 * (r : Rat) + rankSum (pos + t) gs

lemma foldl_rank (f : Rat × Nat → Nat × Nat → Rat × Nat)
    (hf : ∀ acc pos t r, f (acc, pos) (t, r)
      = (acc + ((2 * pos + t + 1 : Nat) : Rat) / 2 * (r : Rat), pos + t))
    (gs : List (Nat × Nat)) (acc : Rat) (pos : Nat) :
    gs.foldl f (acc, pos) = (acc + rankSum pos gs, pos + (gs.map Prod.fst).sum) := by
  induction gs generalizing acc pos with
  | nil => simp [rankSum]
  | cons g gs ih =>
    obtain ⟨t, r⟩ := g
    simp only [List.foldl_cons, hf, ih, rankSum, List.map_cons, List.sum_cons]
    refine Prod.ext ?_ ?_
    · simp only; ring
    · simp only; ring

lemma uFromRanks_eq (x1 x2 : List Rat) :
    uFromRanks x1 x2 = rankSum 0 (tieGroups x1 x2)
      - ((x1.length * (x1.length + 1) : Nat) : Rat) / 2 := by
  unfold uFromRanks
  dsimp only
  rw [foldl_rank _ (fun _ _ _ _ => rfl)]
  simp

/-- sample-1 part of the rank sum: Σ r_k (p1_k + (r_k+1)/2) -/
def partA (r : Rat → Nat) : Nat → List Rat → Rat
  | _, [] => 0
  | p, v :: D => (r v : Rat) * ((p : Rat) + ((r v : Rat) + 1) / 2) + partA r (p + r v) D

/-- sample-2 part of the rank sum: Σ r_k (p2_k + s_k/2) -/
def partU (r s : Rat → Nat) : Nat → List Rat → Rat
  | _, [] => 0
  | p, v :: D => (r v : Rat) * ((p : Rat) + (s v : Rat) / 2) + partU r s (p + s v) D

lemma rankSum_split (r s : Rat → Nat) (D : List Rat) (p1 p2 : Nat) :
    rankSum (p1 + p2) (D.map fun v => (r v + s v, r v)) = partU r s p2 D + partA r p1 D := by
  induction D generalizing p1 p2 with
  | nil => simp [rankSum, partU, partA]
  | cons v D ih =>
    simp only [List.map_cons, rankSum, partU, partA]
    rw [show p1 + p2 + (r v + s v) = (p1 + r v) + (p2 + s v) by ring, ih]
    push_cast; ring

lemma partA_closed (r : Rat → Nat) (D : List Rat) (p : Nat) :
    partA r p D = (((p : Rat) + (D.map fun v => (r v : Rat)).sum)
        * ((p : Rat) + (D.map fun v => (r v : Rat)).sum + 1) - (p : Rat) * ((p : Rat) + 1)) / 2 := by
  induction D generalizing p with
  | nil => simp [partA]
  | cons v D ih =>
    simp only [partA, ih, List.map_cons, List.sum_cons]
    push_cast; ring

lemma partU_closed (r s : Rat → Nat) (D : List Rat) (hD : D.Pairwise (· < ·)) (p : Nat) :
    partU r s p D = (D.map fun v => (r v : Rat) *
      ((p : Rat) + (D.map fun w => if w < v then (s w : Rat) else 0).sum + (s v : Rat) / 2)).sum := by
  induction D generalizing p with
  | nil => simp [partU]
  | cons d D ih =>
    rw [List.pairwise_cons] at hD
    simp only [partU, ih hD.2, List.map_cons, List.sum_cons, lt_irrefl, if_false, zero_add]
    have h0 : (D.map fun w => if w < d then (s w : Rat) else 0) = D.map fun _ => (0 : Rat) :=
      List.map_congr_left (fun w hw => by simp [not_lt.2 (le_of_lt (hD.1 w hw))])
    rw [h0]
    have h1 : (D.map fun v => (r v : Rat) * ((p : Rat) +
          ((if d < v then (s d : Rat) else 0)
            + (D.map fun w => if w < v then (s w : Rat) else 0).sum) + (s v : Rat) / 2))
        = D.map fun v => (r v : Rat) * (((p + s d : Nat) : Rat) +
            (D.map fun w => if w < v then (s w : Rat) else 0).sum + (s v : Rat) / 2) :=
      List.map_congr_left (fun v hv => by rw [if_pos (hD.1 v hv)]; push_cast; ring)
    rw [h1]
    simp

lemma wt_eq (a b : Rat) : wt a b = (if b < a then 1 else 0) + (if a = b then 1 / 2 else 0) := by
  unfold wt
  by_cases h : b < a
  · simp [h, ne_of_gt h]
  · simp [h]

lemma pairU_eq_groups (x1 x2 D : List Rat) (hD : D.Pairwise (· < ·))
    (h1 : ∀ a ∈ x1, a ∈ D) (h2 : ∀ a ∈ x2, a ∈ D) :
    pairU x1 x2 = (D.map fun v => (countEq x1 v : Rat) *
      ((D.map fun w => if w < v then (countEq x2 w : Rat) else 0).sum + (countEq x2 v : Rat) / 2)).sum := by
  have hnd : D.Nodup := hD.imp (fun h => ne_of_lt h)
  rw [pairU_eq_sum, sum_map_eq_sum_countEq D hnd x1 h1]
  congr 1
  refine List.map_congr_left (fun v hv => ?_)
  congr 1
  rw [sum_map_eq_sum_countEq D hnd x2 h2]
  simp only [wt_eq, mul_add, List.sum_map_add]
  congr 1
  · congr 1
    refine List.map_congr_left (fun w _ => ?_)
    split_ifs <;> simp
  · have := sum_ite_single D hnd v hv (fun w => (countEq x2 w : Rat) / 2)
    rw [← this]
    congr 1
    refine List.map_congr_left (fun w _ => ?_)
    split_ifs <;> ring

/-- The U statistic computed from mid-ranks (rank sum of sample 1 minus n1(n1+1)/2) equals the
pair-counting definition (#{a > b} + ½ #{a = b}), for all lists including empty ones. -/
theorem uFromRanks_eq_pairU (x1 x2 : List Rat) : uFromRanks x1 x2 = pairU x1 x2 := by
  have hD := distinctSorted_sorted (x1 ++ x2)
  have hnd := distinctSorted_nodup (x1 ++ x2)
  have h1 : ∀ a ∈ x1, a ∈ distinctSorted (x1 ++ x2) := fun a ha => by
    rw [mem_distinctSorted]; simp [ha]
  have h2 : ∀ a ∈ x2, a ∈ distinctSorted (x1 ++ x2) := fun a ha => by
    rw [mem_distinctSorted]; simp [ha]
  rw [uFromRanks_eq, pairU_eq_groups x1 x2 _ hD h1 h2]
  unfold tieGroups
  have := rankSum_split (countEq x1) (countEq x2) (distinctSorted (x1 ++ x2)) 0 0
  simp only [Nat.add_zero] at this
  rw [this, partA_closed, partU_closed _ _ _ hD, ← length_eq_sum_countEq _ hnd x1 h1]
  push_cast
  ring_nf

example : uFromRanks [3, 1, 1, 5 / 2] [2, 1, 7] = pairU [3, 1, 1, 5 / 2] [2, 1, 7] :=
  uFromRanks_eq_pairU _ _

example : uFromRanks [] [2, 1, 7] = pairU [] [2, 1, 7] := uFromRanks_eq_pairU _ _

example : uFromRanks [3, 1, 1, 5 / 2] [2, 1, 7] = 5 := by decide +kernel


/-! ## invariance of the whole test -/

lemma uFromRanks_congr {x1 x2 y1 y2 : List Rat} (hg : tieGroups x1 x2 = tieGroups y1 y2)
    (hl : x1.length = y1.length) : uFromRanks x1 x2 = uFromRanks y1 y2 := by
  rw [uFromRanks_eq, uFromRanks_eq, hg, hl]

lemma mwuTest_congr {x1 x2 y1 y2 : List Rat} (hg : tieGroups x1 x2 = tieGroups y1 y2)
    (hl1 : x1.length = y1.length) (hl2 : x2.length = y2.length) (alt : Alt) (el tl : Int) :
    mwuTest x1 x2 alt el tl = mwuTest y1 y2 alt el tl := by
  unfold mwuTest
  rw [uFromRanks_congr hg hl1, hg, hl1, hl2]

/-- The complete result of the test (error / exact / approximate, with every number in it) does not
change when either sample is reordered. -/
theorem mwuTest_perm {x1 x2 y1 y2 : List Rat} (h1 : x1.Perm y1) (h2 : x2.Perm y2)
    (alt : Alt) (el tl : Int) : mwuTest x1 x2 alt el tl = mwuTest y1 y2 alt el tl :=
  mwuTest_congr (tieGroups_perm h1 h2) h1.length_eq h2.length_eq alt el tl

example : mwuTest [3, 1, 1] [2, 1] .differs 50 25 = mwuTest [1, 3, 1] [1, 2] .differs 50 25 :=
  mwuTest_perm (by decide) (by decide) _ _ _

/-- The complete result of the test does not change when one strictly increasing map is applied to
every observation of both samples. -/
theorem mwuTest_strictMono (f : Rat → Rat) (hf : StrictMono f) (x1 x2 : List Rat)
    (alt : Alt) (el tl : Int) :
    mwuTest (x1.map f) (x2.map f) alt el tl = mwuTest x1 x2 alt el tl :=
  mwuTest_congr (tieGroups_strictMono f hf x1 x2) (by simp) (by simp) alt el tl

example : mwuTest ([3, 1, 1].map (fun q => 2 * q + 1)) ([2, 1].map (fun q => 2 * q + 1)) .less 0 0
    = mwuTest [3, 1, 1] [2, 1] .less 0 0 :=
  mwuTest_strictMono _ (fun a b h => by show 2 * a + 1 < 2 * b + 1; linarith) _ _ _ _ _

/-! ## range of the exact p-value -/

lemma ratMin'_eq_min (a b : Rat) : ratMin' a b = min a b := by
  unfold ratMin'; split_ifs with h
  · exact (min_eq_left h).symm
  · exact (min_eq_right (le_of_lt (not_le.1 h))).symm

/-- The two-sided exact p-value is min(1, 2·min(P(U ≤ u), P(U ≥ u))). -/
theorem exactP_differs (n1 n2 : Nat) (t : List Nat) (ties : Bool) (u : Rat) :
    exactP .differs n1 n2 t ties u
      = min 1 (2 * min (exactCDF n1 n2 t ties u) (1 - exactCDF n1 n2 t ties (u - 1 / 2))) := by
  simp [exactP, ratMin'_eq_min]

example : exactP .differs 2 2 [1, 1, 1, 1] false 1
    = min 1 (2 * min (exactCDF 2 2 [1, 1, 1, 1] false 1) (1 - exactCDF 2 2 [1, 1, 1, 1] false (1 - 1 / 2))) :=
  exactP_differs _ _ _ _ _

/-- Every exact p-value (all three alternatives) lies in [0, 1], given that the exact CDF takes
values in [0, 1] (proved in the UDist file). -/
theorem exactP_range (alt : Alt) (n1 n2 : Nat) (t : List Nat) (ties : Bool) (u : Rat)
    (hcdf : ∀ u, 0 ≤ exactCDF n1 n2 t ties u ∧ exactCDF n1 n2 t ties u ≤ 1) :
    0 ≤ exactP alt n1 n2 t ties u ∧ exactP alt n1 n2 t ties u ≤ 1 := by
  have h1 := hcdf u
  have h2 := hcdf (u - 1 / 2)
  cases alt
  · exact h1
  · rw [exactP_differs]
    refine ⟨le_min zero_le_one (mul_nonneg (by norm_num) (le_min h1.1 (by linarith))),
      min_le_left _ _⟩
  · simp only [exactP]
    constructor <;> linarith

lemma polyPrefix_le (p : Poly) (k : Int) : polyPrefix p k ≤ p.toList.sum := by
  unfold polyPrefix
  split_ifs
  · exact Nat.zero_le _
  · rw [← List.sum_eq_foldl]
    conv_rhs => rw [← List.sum_take_add_sum_drop p.toList (k.toNat + 1)]
    exact Nat.le_add_right _ _

/-- the hypothesis of `exactP_range` holds on a concrete non-trivial input (2 vs 2, no ties) -/
lemma hcdf_2_2 :
    ∀ u, 0 ≤ exactCDF 2 2 [1, 1, 1, 1] false u ∧ exactCDF 2 2 [1, 1, 1, 1] false u ≤ 1 := by
  intro u
  have hp : fwdDP (effT 2 2 [1, 1, 1, 1]) 2 = #[1, 0, 1, 0, 2, 0, 1, 0, 1] := by decide +kernel
  have hle := polyPrefix_le #[1, 0, 1, 0, 2, 0, 1, 0, 1] (2 * u).floor
  have ht : polyTotal #[1, 0, 1, 0, 2, 0, 1, 0, 1] = 6 := by decide
  simp only [exactCDF, cdf, hp, ht]
  rw [if_neg (by decide)]
  split_ifs
  · norm_num
  · norm_num
  · constructor
    · positivity
    · rw [div_le_one (by norm_num)]; exact_mod_cast hle

example : 0 ≤ exactP .differs 2 2 [1, 1, 1, 1] false 1 ∧ exactP .differs 2 2 [1, 1, 1, 1] false 1 ≤ 1 :=
  exactP_range .differs 2 2 [1, 1, 1, 1] false 1 hcdf_2_2

example : exactP .differs 2 2 [1, 1, 1, 1] false 1 = 2 / 3 := by decide +kernel

end MV.MWU
