import MV.Props.FactsLib
/-! Source facts the C01 model relies on (checked against the facts regenerated from /repo on every run). -/
namespace MV.Facts

def expectedC01 : List (String × String) := [("stats.MannWhitneyExactLimit", "50"), ("stats.MannWhitneyTiesExactLimit", "25"), ("stats.LocationLess", "-1"), ("stats.LocationDiffers", "0"), ("stats.LocationGreater", "1")]

/-- the constants and literals the C01 model mirrors are still what the source says -/
theorem facts_C01 : holdsAll expectedC01 = true := by decide


/-- State that outlives a call, as extracted from the source on this run: the package-level
variables of the packages this property's code lives in, the functions (other than `init`) that
assign to them or call methods on them, and the fields of the property's struct types. The model is
a pure function of the arguments and of these fields; a new variable, writer or field is state the
model does not know of. The digest-valued `shape:` entry covers everything the call graph
(resolved by go/types) reaches from the functions declared in the property's anchor files: per
function, method (with receiver kind), package variable and constant, its numeric literals, its comparison operators, the
package variables it reads and its writes through parameters or the receiver (including in-place
`sort.*`/`copy`/`append`). The entries behind the digest are in `shape_expected.txt` and in a
comment of the generated file. -/
def stateC01 : List (String × String) := [("globals:stats", "ErrMismatchedSamples ErrSampleSize ErrSamplesEqual ErrZeroVariance MannWhitneyExactLimit MannWhitneyTiesExactLimit StdNormal _KDEBoundaryMethod_index _KDEKernel_index _LocationHypothesis_index inf nan quantileCIApproxThreshold"), ("globals:mathx", "nan smallFact"), ("globalwrites:stats", "MannWhitneyUTest:StdNormal.CDF"), ("globalwrites:mathx", ""), ("fields:stats.MannWhitneyUTestResult", "N1:int N2:int U:float64 AltHypothesis:LocationHypothesis P:float64"), ("fields:stats.UDist", "N1:int N2:int T:[]int"), ("fields:stats.ukey", "n1:int twoU:int"), ("shape:C01", "n=32 fnv64a=84deb6cc18c3dcd9")]

/-- the source has exactly the package-level variables, writers and struct fields the model accounts for -/
theorem state_C01 : holdsAll stateC01 = true := by decide +kernel

end MV.Facts
