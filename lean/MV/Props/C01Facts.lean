import MV.Props.FactsLib
/-! Source facts the C01 model relies on (checked against the facts regenerated from /repo on every run). -/
namespace MV.Facts

def expectedC01 : List (String × String) := [("stats.MannWhitneyExactLimit", "50"), ("stats.MannWhitneyTiesExactLimit", "25"), ("stats.LocationLess", "-1"), ("stats.LocationDiffers", "0"), ("stats.LocationGreater", "1")]

/-- the constants and literals the C01 model mirrors are still what the source says -/
theorem facts_C01 : holdsAll expectedC01 = true := by decide

end MV.Facts
