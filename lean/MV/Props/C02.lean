import Mathlib.Tactic
import MV.Model.UDist
/-!
# C02 — exact null distribution of the Mann-Whitney U statistic (`MV.UDist`)

Property theorems (keyword `theorem`) about the executable model `MV/Model/UDist.lean`:

* U1 `choose_eq_nat`, `chooseFast_eq`
* U2 `fwdDP_coeff`, `fwdDP_prefix`  (forward DP = brute-force count over allocations)
* U3 `fwdDP_total`, `fwdDP_prefix_top`, `cdf_range`, `cdf_mono`, `cdf_eq_countSpec`, `pmfAt_eq_countEq`
* U4 `countEq_mirror`
* U5 `mwPoly_coeff`, `cMW_eq_count`, `cdfUntiedMW_eq_cdf`

Everything else is a helper (`lemma` / `def`).
-/
namespace MV.UDist
open Finset

/-! ## U1 binomials -/

/-- The model's Pascal-triangle `choose` is Mathlib's binomial coefficient. -/
theorem choose_eq_nat (n k : Nat) : choose n k = Nat.choose n k := by
  induction n generalizing k with
  | zero => cases k <;> simp [choose]
  | succ n ih => cases k with
    | zero => simp [choose]
    | succ k => simp [choose, ih, Nat.choose_succ_succ]

example : choose 6 2 = Nat.choose 6 2 := choose_eq_nat 6 2

lemma foldl_choose (n k : Nat) (hk : k ≤ n) :
    (List.range k).foldl (fun acc i => acc * (n - i) / (i + 1)) 1 = Nat.choose n k := by
  induction k with
  | zero => simp
  | succ k ih =>
    rw [List.range_succ, List.foldl_append, ih (by omega)]
    simp only [List.foldl_cons, List.foldl_nil]
    rw [← Nat.choose_succ_right_eq]
    exact Nat.mul_div_cancel _ (by omega)

/-- The multiplicative binomial used for execution equals the Pascal-triangle `choose`. -/
theorem chooseFast_eq (n k : Nat) : chooseFast n k = choose n k := by
  rw [choose_eq_nat]
  unfold chooseFast
  split_ifs with h1 h2
  · exact (Nat.choose_eq_zero_of_lt h1).symm
  · simp only; rw [foldl_choose n (n - k) (by omega)]
    exact Nat.choose_symm (by omega)
  · simp only; exact foldl_choose n k (by omega)

example : chooseFast 10 7 = 120 ∧ choose 10 7 = 120 ∧ Nat.choose 10 7 = 120 := by
  refine ⟨?_, ?_, ?_⟩
  · rw [chooseFast_eq, choose_eq_nat]; decide
  · rw [choose_eq_nat]; decide
  · decide

/-! ## loops -/

lemma forIn_id_foldl {α β : Type} (l : List α) (init : β) (f : α → β → Id (ForInStep β)) (g : β → α → β)
    (h : ∀ a b, f a b = pure (ForInStep.yield (g b a))) :
    forIn l init f = (pure (l.foldl g init) : Id β) := by
  induction l generalizing init with
  | nil => simp
  | cons a l ih => simp [h, ih]

/-- invariant rule for folds over `List.range' s n` -/
lemma foldl_range'_inv {β : Type} (P : Nat → β → Prop) (g : β → Nat → β) (s n : Nat) (init : β)
    (h0 : P s init) (hstep : ∀ k b, s ≤ k → k < s + n → P k b → P (k + 1) (g b k)) :
    P (s + n) ((List.range' s n).foldl g init) := by
  induction n with
  | zero => simpa using h0
  | succ n ih =>
    rw [List.range'_concat, List.foldl_append]
    simp only [Nat.mul_one, List.foldl_cons, List.foldl_nil]
    have := hstep (s + n) _ (by omega) (by omega) (ih (fun k b h1 h2 => hstep k b h1 (by omega)))
    simpa [Nat.add_assoc] using this

/-- the inner loop of `polyAddShift` as a fold -/
def pasBody (p : Poly) (shift c : Nat) (a : Poly) (i : Nat) : Poly :=
  if p.getD i 0 = 0 then a else a.setIfInBounds (i + shift) (a.getD (i + shift) 0 + c * p.getD i 0)

lemma polyAddShift_eq (acc p : Poly) (shift c : Nat) :
    polyAddShift acc p shift c =
      (List.range' 0 p.size).foldl (pasBody p shift c)
        (if acc.size < p.size + shift then acc ++ Array.replicate (p.size + shift - acc.size) 0 else acc) := by
  unfold polyAddShift
  simp only [Id.run]
  simp
  split_ifs with h
  all_goals
    rw [forIn_id_foldl _ _ _ (pasBody p shift c)]
    · rfl
    · intro a b; unfold pasBody; simp; split <;> rfl

lemma getD_append_zeros (acc : Poly) (n x : Nat) :
    (acc ++ Array.replicate n 0).getD x 0 = acc.getD x 0 := by
  simp only [Array.getD_eq_getD_getElem?, Array.getElem?_append, Array.getElem?_replicate]
  split_ifs <;> simp_all

lemma getD_setIfInBounds (a : Poly) (i x v : Nat) (hi : i < a.size) :
    (a.setIfInBounds i v).getD x 0 = if x = i then v else a.getD x 0 := by
  simp only [Array.getD_eq_getD_getElem?, Array.getElem?_setIfInBounds]
  by_cases h : x = i
  · subst h; simp [hi]
  · have : ¬ i = x := fun h' => h h'.symm
    simp [h, this]

lemma polyAddShift_spec (acc p : Poly) (shift c : Nat) :
    p.size + shift ≤ (polyAddShift acc p shift c).size ∧
    ∀ x, (polyAddShift acc p shift c).getD x 0
      = acc.getD x 0 + (if shift ≤ x then c * p.getD (x - shift) 0 else 0) := by
  rw [polyAddShift_eq]
  set a0 := (if acc.size < p.size + shift then acc ++ Array.replicate (p.size + shift - acc.size) 0 else acc) with ha0
  have hsz : p.size + shift ≤ a0.size := by
    rw [ha0]; split_ifs with h
    · simp; omega
    · omega
  have hget : ∀ x, a0.getD x 0 = acc.getD x 0 := by
    intro x; rw [ha0]; split_ifs with h
    · exact getD_append_zeros _ _ _
    · rfl
  have key := foldl_range'_inv
    (fun k (a : Poly) => p.size + shift ≤ a.size ∧
      ∀ x, a.getD x 0 = acc.getD x 0 + (if shift ≤ x ∧ x - shift < k then c * p.getD (x - shift) 0 else 0))
    (pasBody p shift c) 0 p.size a0 ⟨hsz, by intro x; simp [hget]⟩ ?_
  · simp only [Nat.zero_add] at key
    refine ⟨key.1, fun x => ?_⟩
    rw [key.2 x]
    by_cases h1 : shift ≤ x
    · by_cases h2 : x - shift < p.size
      · simp [h1, h2]
      · have : p.getD (x - shift) 0 = 0 := by
          simp only [Array.getD_eq_getD_getElem?]
          rw [Array.getElem?_eq_none (by omega)]; rfl
        simp [h1, h2, this]
    · simp [h1]
  · rintro k b - hk ⟨hb1, hb2⟩
    unfold pasBody
    split_ifs with hz
    · refine ⟨hb1, fun x => ?_⟩
      rw [hb2 x]
      by_cases h1 : shift ≤ x
      · by_cases h2 : x - shift < k
        · have : x - shift < k + 1 := by omega
          simp [h1, h2, this]
        · by_cases h3 : x - shift = k
          · have : x - shift < k + 1 := by omega
            simp [h1, h2, this, h3, hz]
          · have : ¬ x - shift < k + 1 := by omega
            simp [h1, h2, this]
      · simp [h1]
    · refine ⟨by simpa using hb1, fun x => ?_⟩
      rw [getD_setIfInBounds _ _ _ _ (by omega)]
      by_cases hx : x = k + shift
      · subst hx
        rw [if_pos rfl, hb2]
        simp
      · rw [if_neg hx, hb2 x]
        by_cases h1 : shift ≤ x
        · have : (x - shift < k + 1) ↔ (x - shift < k) := by omega
          simp [h1, this]
        · simp [h1]

lemma polyAddShift_getD (acc p : Poly) (shift c x : Nat) :
    (polyAddShift acc p shift c).getD x 0
      = acc.getD x 0 + (if shift ≤ x then c * p.getD (x - shift) 0 else 0) :=
  (polyAddShift_spec acc p shift c).2 x

/-- coefficient view of a DP table -/
def coefT (tbl : Array Poly) (j v : Nat) : Nat := (tbl.getD j #[]).getD v 0

def innerBody (n1 : Nat) (tbl : Array Poly) (t below j : Nat) (out : Array Poly) (r : Nat) : Array Poly :=
  if j + r ≤ n1 then
    out.setIfInBounds (j + r)
      (polyAddShift (out.getD (j + r) #[]) (tbl.getD j #[]) (r * (2 * (below - j) + (t - r))) (chooseFast t r))
  else out

def outerBody (n1 : Nat) (tbl : Array Poly) (t below : Nat) (out : Array Poly) (j : Nat) : Array Poly :=
  if (tbl.getD j #[]).size = 0 then out
  else (List.range' 0 (t + 1)).foldl (innerBody n1 tbl t below j) out

lemma dpStep_eq (n1 : Nat) (tbl : Array Poly) (t below : Nat) :
    dpStep n1 tbl t below =
      (List.range' 0 (n1 + 1)).foldl (outerBody n1 tbl t below) (Array.replicate (n1 + 1) #[]) := by
  unfold dpStep
  simp only [Id.run]
  simp
  rw [forIn_id_foldl _ _ _ (outerBody n1 tbl t below)]
  · rfl
  · intro j out
    unfold outerBody
    simp
    split_ifs with h
    · rfl
    · rw [forIn_id_foldl _ _ _ (innerBody n1 tbl t below j)]
      · rfl
      · intro r o; unfold innerBody; simp; split <;> rfl

def shiftOf (t below j r : Nat) : Nat := r * (2 * (below - j) + (t - r))

/-- contribution of the transition (j, r) to the coefficient (j', v) -/
def contrib (n1 t below : Nat) (f : Nat → Nat → Nat) (j r j' v : Nat) : Nat :=
  if j + r ≤ n1 ∧ j + r = j' ∧ shiftOf t below j r ≤ v then choose t r * f j (v - shiftOf t below j r) else 0

lemma C_set (out : Array Poly) (i : Nat) (q : Poly) (hi : i < out.size) (j' v : Nat) :
    coefT (out.setIfInBounds i q) j' v = if j' = i then q.getD v 0 else coefT out j' v := by
  unfold coefT
  simp only [Array.getD_eq_getD_getElem?, Array.getElem?_setIfInBounds]
  by_cases h : j' = i
  · subst h; simp [hi]
  · have : ¬ i = j' := fun h' => h h'.symm
    simp [h, this]

lemma C_empty (tbl : Array Poly) (j : Nat) (h : (tbl.getD j #[]).size = 0) (v : Nat) : coefT tbl j v = 0 := by
  unfold coefT
  have : tbl.getD j #[] = #[] := Array.eq_empty_of_size_eq_zero h
  rw [this]; rfl

lemma inner_spec (n1 : Nat) (tbl : Array Poly) (t below j : Nat) (out : Array Poly)
    (hout : out.size = n1 + 1) :
    let res := (List.range' 0 (t + 1)).foldl (innerBody n1 tbl t below j) out
    res.size = n1 + 1 ∧ ∀ j' v, coefT res j' v = coefT out j' v + ∑ r ∈ range (t + 1), contrib n1 t below (coefT tbl) j r j' v := by
  have key := foldl_range'_inv
    (fun R (o : Array Poly) => o.size = n1 + 1 ∧
      ∀ j' v, coefT o j' v = coefT out j' v + ∑ r ∈ range R, contrib n1 t below (coefT tbl) j r j' v)
    (innerBody n1 tbl t below j) 0 (t + 1) out ⟨hout, by simp⟩ ?_
  · simpa using key
  · rintro R o - - ⟨ho1, ho2⟩
    unfold innerBody
    split_ifs with hle
    · refine ⟨by simpa using ho1, fun j' v => ?_⟩
      rw [C_set _ _ _ (by omega), sum_range_succ, ← add_assoc, ← ho2]
      by_cases hj : j' = j + R
      · subst hj
        rw [if_pos rfl, polyAddShift_getD, chooseFast_eq]
        unfold contrib shiftOf coefT
        by_cases hs : R * (2 * (below - j) + (t - R)) ≤ v <;> simp [hs, hle]
      · rw [if_neg hj]
        have : ¬ j + R = j' := fun h => hj h.symm
        simp [contrib, this]
    · refine ⟨ho1, fun j' v => ?_⟩
      rw [sum_range_succ, ← add_assoc, ← ho2]
      simp [contrib, hle]

/-- functional form of one DP step on coefficient functions -/
def stepF (n1 t below : Nat) (f : Nat → Nat → Nat) (j' v : Nat) : Nat :=
  ∑ j ∈ range (n1 + 1), ∑ r ∈ range (t + 1), contrib n1 t below f j r j' v

lemma dpStep_spec (n1 : Nat) (tbl : Array Poly) (t below : Nat) :
    (dpStep n1 tbl t below).size = n1 + 1 ∧
    ∀ j' v, coefT (dpStep n1 tbl t below) j' v = stepF n1 t below (coefT tbl) j' v := by
  rw [dpStep_eq]
  have key := foldl_range'_inv
    (fun J (o : Array Poly) => o.size = n1 + 1 ∧
      ∀ j' v, coefT o j' v = ∑ j ∈ range J, ∑ r ∈ range (t + 1), contrib n1 t below (coefT tbl) j r j' v)
    (outerBody n1 tbl t below) 0 (n1 + 1) (Array.replicate (n1 + 1) #[]) ⟨by simp, ?_⟩ ?_
  · simpa [stepF] using key
  · intro j' v
    simp only [range_zero, sum_empty]
    unfold coefT
    simp only [Array.getD_eq_getD_getElem?, Array.getElem?_replicate]
    split_ifs <;> rfl
  · rintro J o - - ⟨ho1, ho2⟩
    unfold outerBody
    split_ifs with hz
    · refine ⟨ho1, fun j' v => ?_⟩
      rw [sum_range_succ, ← ho2]
      have : ∑ r ∈ range (t + 1), contrib n1 t below (coefT tbl) J r j' v = 0 := by
        apply sum_eq_zero; intro r _
        unfold contrib; split_ifs
        · rw [C_empty tbl J hz]; simp
        · rfl
      omega
    · have := inner_spec n1 tbl t below J o ho1
      refine ⟨this.1, fun j' v => ?_⟩
      rw [this.2, sum_range_succ (fun j => ∑ r ∈ range (t + 1), contrib n1 t below (coefT tbl) j r j' v), ← ho2]

/-! ## list sums -/

lemma foldl_add_eq (l : List Nat) (a : Nat) : l.foldl (· + ·) a = a + l.sum := by
  induction l generalizing a with
  | nil => simp
  | cons x xs ih => simp only [List.foldl_cons, List.sum_cons]; rw [ih]; omega

lemma sumList_eq (l : List Nat) : sumList l = l.sum := by
  unfold sumList; rw [foldl_add_eq]; simp

lemma sum_map_filter {α : Type} (L : List α) (p : α → Bool) (w : α → Nat) :
    ((L.filter p).map w).sum = (L.map fun r => if p r then w r else 0).sum := by
  induction L with
  | nil => simp
  | cons a L ih =>
    by_cases h : p a <;> simp [List.filter_cons, h, ih]

/-- sum of `g` over all allocation vectors of `ts` -/
def asum (ts : List Nat) (g : List Nat → Nat) : Nat := ((allocs ts).map g).sum

lemma asum_nil (g : List Nat → Nat) : asum [] g = g [] := by simp [asum, allocs]

lemma sum_range_list (f : Nat → Nat) (n : Nat) : ((List.range n).map f).sum = ∑ i ∈ range n, f i := by
  induction n with
  | zero => simp
  | succ n ih => simp [List.range_succ, sum_range_succ, ih]

lemma sum_flatMap {α β : Type} (L : List α) (F : α → List β) (g : β → Nat) :
    ((L.flatMap F).map g).sum = (L.map fun a => ((F a).map g).sum).sum := by
  induction L with
  | nil => simp
  | cons a L ih => simp [List.flatMap_cons, ih]

lemma asum_cons (t : Nat) (ts : List Nat) (g : List Nat → Nat) :
    asum (t :: ts) g = ∑ r ∈ range (t + 1), asum ts (fun rs => g (r :: rs)) := by
  unfold asum
  rw [allocs, sum_flatMap, sum_range_list]
  apply sum_congr rfl
  intro r _
  rw [List.map_map]; rfl

lemma asum_finset_sum (ts : List Nat) (s : Finset Nat) (h : Nat → List Nat → Nat) :
    asum ts (fun rs => ∑ r ∈ s, h r rs) = ∑ r ∈ s, asum ts (h r) := by
  unfold asum
  induction (allocs ts) with
  | nil => simp
  | cons a L ih => simp [ih, sum_add_distrib]

lemma asum_congr (ts : List Nat) (g g' : List Nat → Nat) (h : ∀ rs ∈ allocs ts, g rs = g' rs) :
    asum ts g = asum ts g' := by
  unfold asum
  rw [List.map_congr_left h]

lemma countEq_eq_asum (t : List Nat) (n1 : Nat) (k : Int) :
    countEq t n1 k = asum t (fun r => if r.sum = n1 ∧ ((twoUof t r 0 : Nat) : Int) = k then weight t r else 0) := by
  unfold countEq asum
  rw [sumList_eq, sum_map_filter]
  congr 1
  apply List.map_congr_left
  intro r _
  simp [sumList_eq]

lemma countSpec_eq_asum (t : List Nat) (n1 : Nat) (k : Int) :
    countSpec t n1 k = asum t (fun r => if r.sum = n1 ∧ ((twoUof t r 0 : Nat) : Int) ≤ k then weight t r else 0) := by
  unfold countSpec asum
  rw [sumList_eq, sum_map_filter]
  congr 1
  apply List.map_congr_left
  intro r _
  simp [sumList_eq]

/-- iterate `stepF` over the remaining groups -/
def runF (n1 : Nat) : List Nat → Nat → (Nat → Nat → Nat) → (Nat → Nat → Nat)
  | [], _, f => f
  | t :: ts, below, f => runF n1 ts (below + t) (stepF n1 t below f)

lemma fold_dpStep (n1 : Nat) (ts : List Nat) (tbl : Array Poly) (below : Nat) (h : tbl.size = n1 + 1) :
    ((ts.foldl (fun (x : Array Poly × Nat) tk => (dpStep n1 x.1 tk x.2, x.2 + tk)) (tbl, below)).1).size = n1 + 1 ∧
    ∀ j v, coefT (ts.foldl (fun (x : Array Poly × Nat) tk => (dpStep n1 x.1 tk x.2, x.2 + tk)) (tbl, below)).1 j v
      = runF n1 ts below (coefT tbl) j v := by
  induction ts generalizing tbl below with
  | nil => exact ⟨h, fun _ _ => rfl⟩
  | cons t ts ih =>
    simp only [List.foldl_cons, runF]
    have hs := dpStep_spec n1 tbl t below
    have := ih (dpStep n1 tbl t below) (below + t) hs.1
    refine ⟨this.1, fun j v => ?_⟩
    rw [this.2]
    have : coefT (dpStep n1 tbl t below) = stepF n1 t below (coefT tbl) := by
      funext j v; exact hs.2 j v
    rw [this]

lemma fwdDP_eq (t : List Nat) (n1 : Nat) :
    fwdDP t n1 = ((t.foldl (fun (x : Array Poly × Nat) tk => (dpStep n1 x.1 tk x.2, x.2 + tk))
      ((Array.replicate (n1 + 1) #[]).setIfInBounds 0 #[1], 0)).1).getD n1 #[] := rfl

/-- collapsed form of `stepF` -/
lemma stepF_collapse (n1 t below : Nat) (f : Nat → Nat → Nat) (j' v : Nat) (hj : j' ≤ n1) :
    stepF n1 t below f j' v = ∑ r ∈ range (t + 1),
      if r ≤ j' ∧ shiftOf t below (j' - r) r ≤ v then choose t r * f (j' - r) (v - shiftOf t below (j' - r) r) else 0 := by
  unfold stepF
  rw [sum_comm]
  apply sum_congr rfl
  intro r _
  by_cases hr : r ≤ j'
  · rw [sum_eq_single (j' - r)]
    · unfold contrib
      have h1 : j' - r + r ≤ n1 := by omega
      have h2 : j' - r + r = j' := by omega
      simp [h2, hr, hj]
    · intro j _ hne
      unfold contrib
      have : ¬ j + r = j' := by omega
      simp [this]
    · intro hnot
      exfalso; apply hnot; simp; omega
  · rw [if_neg (by tauto)]
    apply sum_eq_zero
    intro j _
    unfold contrib
    have : ¬ j + r = j' := by omega
    simp [this]

lemma stepF_zero (n1 t below : Nat) (f : Nat → Nat → Nat) (hf : ∀ j v, below < j → f j v = 0)
    (j' v : Nat) (hj : below + t < j') : stepF n1 t below f j' v = 0 := by
  unfold stepF
  apply sum_eq_zero; intro j _
  apply sum_eq_zero; intro r hr
  unfold contrib
  split_ifs with h
  · rw [hf j _ (by simp at hr; omega)]; simp
  · rfl

/-- the continuation-style semantic of the remaining groups -/
def Phi (n1 : Nat) (ts : List Nat) (below : Nat) (f : Nat → Nat → Nat) (v : Nat) : Nat :=
  asum ts fun r => weight ts r *
    (if r.sum ≤ n1 ∧ twoUof ts r (below - (n1 - r.sum)) ≤ v
      then f (n1 - r.sum) (v - twoUof ts r (below - (n1 - r.sum))) else 0)

lemma step_alg (w c sh U' v : Nat) (g : Nat → Nat) (P Q : Prop) [Decidable P] [Decidable Q]
    (hP : P) (hQ : Q) (hU : U' ≤ v) :
    w * (if P ∧ sh ≤ v - U' then c * g (v - U' - sh) else 0)
      = c * w * (if Q ∧ sh + U' ≤ v then g (v - (sh + U')) else 0) := by
  by_cases hs : sh + U' ≤ v
  · have h1 : sh ≤ v - U' := by omega
    have e3 : v - U' - sh = v - (sh + U') := by omega
    simp only [hP, hQ, h1, hs, and_self, if_true, e3]
    ring
  · have h1 : ¬ sh ≤ v - U' := by omega
    simp [h1, hs]

lemma runF_eq_Phi (n1 : Nat) (ts : List Nat) (below : Nat) (f : Nat → Nat → Nat)
    (hf : ∀ j v, below < j → f j v = 0) (v : Nat) :
    runF n1 ts below f n1 v = Phi n1 ts below f v := by
  induction ts generalizing below f v with
  | nil => simp [runF, Phi, asum_nil, weight, twoUof]
  | cons t ts ih =>
    rw [runF, ih (below + t) _ (fun j v hj => stepF_zero n1 t below f hf j v hj)]
    unfold Phi
    rw [asum_cons, ← asum_finset_sum]
    apply asum_congr
    intro rs _
    by_cases hc : rs.sum ≤ n1 ∧ twoUof ts rs (below + t - (n1 - rs.sum)) ≤ v
    · rw [if_pos hc, stepF_collapse _ _ _ _ _ _ (by omega), mul_sum]
      apply sum_congr rfl
      intro r hr
      simp only [mem_range] at hr
      simp only [List.sum_cons, weight, twoUof]
      by_cases hr2 : r + rs.sum ≤ n1
      · have e1 : n1 - rs.sum - r = n1 - (r + rs.sum) := by omega
        rw [e1]
        by_cases hb : below < n1 - (r + rs.sum)
        · simp only [hf _ _ hb]; split_ifs <;> simp
        · have e2 : below + t - (n1 - rs.sum) = below - (n1 - (r + rs.sum)) + (t - r) := by omega
          rw [e2] at hc ⊢
          unfold shiftOf
          have hr3 : r ≤ n1 - rs.sum := by omega
          exact step_alg _ _ _ _ _ _ _ _ hr3 hr2 hc.2
      · have h1 : ¬ r ≤ n1 - rs.sum := by omega
        simp [h1, hr2]
    · rw [if_neg hc, Nat.mul_zero]
      symm
      apply sum_eq_zero
      intro r hr
      simp only [mem_range] at hr
      simp only [List.sum_cons, weight, twoUof]
      by_cases hr2 : r + rs.sum ≤ n1
      · by_cases hb : below < n1 - (r + rs.sum)
        · simp only [hf _ _ hb]; split_ifs <;> simp
        · have e2 : below + t - (n1 - rs.sum) = below - (n1 - (r + rs.sum)) + (t - r) := by omega
          rw [e2] at hc
          have : ¬ (r * (2 * (below - (n1 - (r + rs.sum))) + (t - r)) +
              twoUof ts rs (below - (n1 - (r + rs.sum)) + (t - r)) ≤ v) := by
            intro h; apply hc; constructor
            · omega
            · omega
          simp [this]
      · simp [hr2]

lemma C_init (n1 j v : Nat) :
    coefT ((Array.replicate (n1 + 1) #[]).setIfInBounds 0 #[1]) j v = if j = 0 ∧ v = 0 then 1 else 0 := by
  rw [C_set _ _ _ (by simp)]
  by_cases hj : j = 0
  · subst hj
    simp only [if_true, true_and]
    by_cases hv : v = 0
    · subst hv; rfl
    · rw [if_neg hv]
      simp only [Array.getD_eq_getD_getElem?]
      rw [Array.getElem?_eq_none (by simp; omega)]; rfl
  · rw [if_neg hj, if_neg (by tauto)]
    unfold coefT
    simp only [Array.getD_eq_getD_getElem?, Array.getElem?_replicate]
    split_ifs <;> rfl

/-- **U2 (main).** The coefficient of `q^v` in the forward-DP polynomial is exactly the number of
labelings (size-`n1` subsets of the pooled sample with tie structure `t`) whose doubled
Mann-Whitney statistic `2U` equals `v`, as defined by brute-force enumeration of allocations. -/
theorem fwdDP_coeff (t : List Nat) (n1 : Nat) (v : Nat) :
    (fwdDP t n1).getD v 0 = countEq t n1 (v : Int) := by
  rw [fwdDP_eq]
  have h := fold_dpStep n1 t ((Array.replicate (n1 + 1) #[]).setIfInBounds 0 #[1]) 0 (by simp)
  have h2 := h.2 n1 v
  unfold coefT at h2
  rw [h2]
  rw [runF_eq_Phi]
  · rw [countEq_eq_asum]
    unfold Phi
    apply asum_congr
    intro r _
    simp only [Nat.zero_sub]
    have hC : ∀ j w, (fun j v => ((Array.setIfInBounds (Array.replicate (n1 + 1) (#[] : Poly)) 0 #[1]).getD j #[]).getD v 0) j w
        = if j = 0 ∧ w = 0 then 1 else 0 := fun j w => C_init n1 j w
    simp only [] at hC
    rw [hC]
    by_cases h1 : r.sum = n1
    · by_cases h2 : twoUof t r 0 = v
      · simp [h1, h2]
      · have : ¬ ((twoUof t r 0 : Nat) : Int) = (v : Int) := by exact_mod_cast h2
        simp only [h1, this, and_false, if_false, le_refl, true_and, Nat.sub_self]
        by_cases h3 : twoUof t r 0 ≤ v
        · have : ¬ (v - twoUof t r 0 = 0) := by omega
          simp [h3, this]
        · simp [h3]
    · simp only [h1, false_and, if_false]
      by_cases h3 : r.sum ≤ n1 ∧ twoUof t r 0 ≤ v
      · have : ¬ (n1 - r.sum = 0) := by omega
        simp [h3, this]
      · simp [h3]
  · intro j w hj
    have := C_init n1 j w
    unfold coefT at this
    rw [this, if_neg (by omega)]

example : (fwdDP [2, 1, 3] 2).getD 7 0 = countEq [2, 1, 3] 2 7 := fwdDP_coeff _ _ _
example : (fwdDP [2, 1, 3] 2).getD 7 0 = 6 := by rw [fwdDP_coeff]; decide

/-! ## prefix sums and totals -/

lemma getD_toList (p : Poly) (v : Nat) : p.getD v 0 = p.toList[v]?.getD 0 := by
  simp [Array.getD_eq_getD_getElem?]

lemma take_sum (p : Poly) (m : Nat) : (p.toList.take m).sum = ∑ v ∈ range m, p.getD v 0 := by
  induction m with
  | zero => simp
  | succ m ih =>
    rw [List.take_succ, List.sum_append, ih, sum_range_succ, getD_toList]
    congr 1
    cases p.toList[m]? <;> simp

lemma polyPrefix_eq (p : Poly) (k : Int) (hk : 0 ≤ k) :
    polyPrefix p k = ∑ v ∈ range (k.toNat + 1), p.getD v 0 := by
  unfold polyPrefix
  rw [if_neg (by omega), foldl_add_eq, take_sum]; simp

lemma polyPrefix_neg (p : Poly) (k : Int) (hk : k < 0) : polyPrefix p k = 0 := by
  unfold polyPrefix; rw [if_pos hk]

lemma polyTotal_eq (p : Poly) (B : Nat) (hB : p.size ≤ B) :
    polyTotal p = ∑ v ∈ range B, p.getD v 0 := by
  unfold polyTotal
  rw [← take_sum, List.take_of_length_le (by simpa using hB), ← Array.foldl_toList, foldl_add_eq]; simp

lemma sum_countEq (t : List Nat) (n1 m : Nat) :
    ∑ v ∈ range m, countEq t n1 (v : Int)
      = asum t (fun r => if r.sum = n1 ∧ twoUof t r 0 < m then weight t r else 0) := by
  simp only [countEq_eq_asum]
  rw [← asum_finset_sum]
  apply asum_congr
  intro r _
  by_cases h1 : r.sum = n1
  · simp only [h1, true_and, Nat.cast_inj]
    rw [sum_ite_eq]
    simp
  · simp [h1]

/-- **U2 (prefix form).** The prefix sum of the DP polynomial up to exponent `k` is the number of
labelings with `2U ≤ k` (the brute-force spec `countSpec`), for every integer `k` (negative too). -/
theorem fwdDP_prefix (t : List Nat) (n1 : Nat) (k : Int) :
    polyPrefix (fwdDP t n1) k = countSpec t n1 k := by
  by_cases hk : k < 0
  · rw [polyPrefix_neg _ _ hk, countSpec_eq_asum]
    unfold asum
    symm
    apply List.sum_eq_zero
    intro x hx
    simp only [List.mem_map] at hx
    obtain ⟨r, -, rfl⟩ := hx
    rw [if_neg]
    intro h
    have : (0 : Int) ≤ (twoUof t r 0 : Nat) := Int.natCast_nonneg _
    omega
  · rw [polyPrefix_eq _ _ (by omega)]
    simp only [fwdDP_coeff]
    rw [sum_countEq, countSpec_eq_asum]
    apply asum_congr
    intro r _
    have : (twoUof t r 0 < k.toNat + 1) ↔ ((twoUof t r 0 : Nat) : Int) ≤ k := by omega
    simp only [this]

example : polyPrefix (fwdDP [2, 1, 3] 2) 7 = 9 := by rw [fwdDP_prefix]; decide

/-! ## U3: total mass, bounds, cdf -/

lemma asum_mul_left (ts : List Nat) (c : Nat) (g : List Nat → Nat) :
    asum ts (fun rs => c * g rs) = c * asum ts g := by
  unfold asum
  induction (allocs ts) with
  | nil => simp
  | cons a L ih => simp [ih, mul_add]

lemma asum_zero (ts : List Nat) : asum ts (fun _ => 0) = 0 := by
  unfold asum
  induction (allocs ts) with
  | nil => simp
  | cons a L ih => simpa using ih

lemma sum_range_trunc (f : Nat → Nat) (t n : Nat) (hf : ∀ r, t < r → f r = 0) :
    ∑ r ∈ range (t + 1), (if r ≤ n then f r else 0) = ∑ r ∈ range (n + 1), f r := by
  have h2 : ∑ r ∈ range (n + 1), f r = ∑ r ∈ range (n + 1), (if r ≤ t then f r else 0) := by
    apply sum_congr rfl
    intro r _
    by_cases h : r ≤ t
    · simp [h]
    · simp [h, hf r (by omega)]
  rw [h2, ← sum_filter, ← sum_filter]
  congr 1
  ext r; simp; omega

/-- Vandermonde: the weights of all allocations with `Σ r = n` add up to `choose (Σ t) n`. -/
lemma asum_weight (ts : List Nat) (n : Nat) :
    asum ts (fun r => if r.sum = n then weight ts r else 0) = Nat.choose ts.sum n := by
  induction ts generalizing n with
  | nil =>
    rw [asum_nil]
    cases n <;> simp [weight]
  | cons t ts ih =>
    rw [asum_cons]
    have : ∀ r ∈ range (t + 1),
        asum ts (fun rs => if (r :: rs).sum = n then weight (t :: ts) (r :: rs) else 0)
          = if r ≤ n then Nat.choose t r * Nat.choose ts.sum (n - r) else 0 := by
      intro r _
      by_cases hr : r ≤ n
      · rw [if_pos hr, ← ih (n - r), ← asum_mul_left]
        apply asum_congr
        intro rs _
        simp only [List.sum_cons, weight, choose_eq_nat]
        by_cases h : rs.sum = n - r
        · have : r + rs.sum = n := by omega
          rw [if_pos h, if_pos this]
        · have : ¬ r + rs.sum = n := by omega
          rw [if_neg h, if_neg this, Nat.mul_zero]
      · rw [if_neg hr]
        refine Eq.trans (asum_congr ts _ (fun _ => 0) ?_) (asum_zero ts)
        intro rs _
        have : ¬ (r :: rs).sum = n := by simp only [List.sum_cons]; omega
        exact if_neg this
    rw [sum_congr rfl this]
    rw [sum_range_trunc (fun r => Nat.choose t r * Nat.choose ts.sum (n - r)) t n
      (fun r hr => by simp [Nat.choose_eq_zero_of_lt hr])]
    rw [List.sum_cons, Nat.add_choose_eq, Finset.Nat.sum_antidiagonal_eq_sum_range_succ_mk]

lemma mem_allocs_cons (t : Nat) (ts : List Nat) (x : List Nat) :
    x ∈ allocs (t :: ts) ↔ ∃ r rs, r ≤ t ∧ rs ∈ allocs ts ∧ x = r :: rs := by
  simp only [allocs, List.mem_flatMap, List.mem_range, List.mem_map]
  constructor
  · rintro ⟨r, hr, rs, hrs, rfl⟩; exact ⟨r, rs, by omega, hrs, rfl⟩
  · rintro ⟨r, rs, hr, hrs, rfl⟩; exact ⟨r, by omega, rs, hrs, rfl⟩

/-- every allocation has `Σ r ≤ Σ t` and `2U ≤ 2 · (Σ r) · (b + Σ t − Σ r)` -/
lemma twoUof_bound (ts : List Nat) (rs : List Nat) (b : Nat) (h : rs ∈ allocs ts) :
    rs.sum ≤ ts.sum ∧ twoUof ts rs b ≤ 2 * rs.sum * (b + (ts.sum - rs.sum)) := by
  induction ts generalizing rs b with
  | nil =>
    simp [allocs] at h; subst h; simp [twoUof]
  | cons t ts ih =>
    obtain ⟨r, rs', hr, hrs, rfl⟩ := (mem_allocs_cons t ts rs).1 h
    obtain ⟨h1, h2⟩ := ih rs' (b + (t - r)) hrs
    simp only [List.sum_cons, twoUof]
    refine ⟨by omega, ?_⟩
    have e : t + ts.sum - (r + rs'.sum) = (t - r) + (ts.sum - rs'.sum) := by omega
    rw [e]
    generalize t - r = a at *
    generalize ts.sum - rs'.sum = d at *
    calc r * (2 * b + a) + twoUof ts rs' (b + a)
        ≤ r * (2 * b + a) + 2 * rs'.sum * (b + a + d) := by omega
      _ ≤ 2 * (r + rs'.sum) * (b + (a + d)) := by nlinarith [Nat.zero_le (r * a), Nat.zero_le (r * d)]

/-- **U3 (total mass).** The coefficients of the DP polynomial add up to `C(N, n1)`, the number
of all size-`n1` subsets of the pooled sample: the probabilities sum to one. -/
theorem fwdDP_total (t : List Nat) (n1 : Nat) :
    polyTotal (fwdDP t n1) = Nat.choose (sumList t) n1 := by
  rw [polyTotal_eq _ (max (fwdDP t n1).size (2 * n1 * (t.sum - n1) + 1)) (le_max_left _ _)]
  simp only [fwdDP_coeff]
  rw [sum_countEq, sumList_eq, ← asum_weight]
  apply asum_congr
  intro r hr
  by_cases h1 : r.sum = n1
  · have := (twoUof_bound t r 0 hr).2
    rw [h1, Nat.zero_add] at this
    have : twoUof t r 0 < max (fwdDP t n1).size (2 * n1 * (t.sum - n1) + 1) := by
      apply lt_of_lt_of_le _ (le_max_right _ _); omega
    simp [h1, this]
  · simp [h1]

example : polyTotal (fwdDP [2, 1, 3] 2) = 15 := by rw [fwdDP_total]; decide

/-- the prefix sum reaches the total at the top of the support: for `k ≥ 2·n1·n2` everything is
included (this is why the guard `u ≥ n1·n2 ↦ 1` of `cdf` is continuous with the general branch). -/
theorem fwdDP_prefix_top (t : List Nat) (n1 n2 : Nat) (hN : sumList t = n1 + n2) (k : Int)
    (hk : ((2 * n1 * n2 : Nat) : Int) ≤ k) :
    polyPrefix (fwdDP t n1) k = polyTotal (fwdDP t n1) := by
  rw [fwdDP_prefix, fwdDP_total, countSpec_eq_asum, sumList_eq, ← asum_weight]
  rw [sumList_eq] at hN
  apply asum_congr
  intro r hr
  by_cases h1 : r.sum = n1
  · have := (twoUof_bound t r 0 hr).2
    rw [h1, Nat.zero_add, hN] at this
    have e : n1 + n2 - n1 = n2 := by omega
    rw [e] at this
    have : ((twoUof t r 0 : Nat) : Int) ≤ k := le_trans (by exact_mod_cast this) hk
    simp [h1, this]
  · simp [h1]

example : polyPrefix (fwdDP [2, 1, 3] 2) 16 = polyTotal (fwdDP [2, 1, 3] 2) :=
  fwdDP_prefix_top _ 2 4 (by decide) 16 (by decide)

lemma polyPrefix_mono (p : Poly) (k k' : Int) (h : k ≤ k') : polyPrefix p k ≤ polyPrefix p k' := by
  by_cases hk : k < 0
  · rw [polyPrefix_neg _ _ hk]; exact Nat.zero_le _
  · rw [polyPrefix_eq _ _ (by omega), polyPrefix_eq _ _ (by omega)]
    apply sum_le_sum_of_subset
    apply range_mono; omega

lemma polyPrefix_le_total (p : Poly) (k : Int) : polyPrefix p k ≤ polyTotal p := by
  by_cases hk : k < 0
  · rw [polyPrefix_neg _ _ hk]; exact Nat.zero_le _
  · rw [polyPrefix_eq _ _ (by omega), polyTotal_eq p (max p.size (k.toNat + 1)) (le_max_left _ _)]
    apply sum_le_sum_of_subset
    apply range_mono; exact le_max_right _ _

lemma ratio_le_one (a b : Nat) (h : a ≤ b) : ((a : Rat) / (b : Rat)) ≤ 1 := by
  rcases Nat.eq_zero_or_pos b with hb | hb
  · subst hb; simp
  · rw [div_le_one (by exact_mod_cast hb)]; exact_mod_cast h

lemma floor_mono' (a b : Rat) (h : a ≤ b) : a.floor ≤ b.floor := by
  have h1 : a.floor = ⌊a⌋ := rfl
  have h2 : b.floor = ⌊b⌋ := rfl
  rw [h1, h2]; exact Int.floor_le_floor h

/-- **U3 (range).** `cdf` takes values in `[0, 1]` (for every input, no side conditions). -/
theorem cdf_range (n1 n2 : Nat) (t : List Nat) (u : Rat) :
    0 ≤ cdf n1 n2 t u ∧ cdf n1 n2 t u ≤ 1 := by
  unfold cdf
  split_ifs with h1 h2
  · exact ⟨le_refl _, zero_le_one⟩
  · exact ⟨zero_le_one, le_refl _⟩
  · exact ⟨by positivity, ratio_le_one _ _ (polyPrefix_le_total _ _)⟩

example : 0 ≤ cdf 2 4 [2, 1, 3] (7 / 2) ∧ cdf 2 4 [2, 1, 3] (7 / 2) ≤ 1 := cdf_range _ _ _ _

/-- **U3 (monotone).** `cdf` is monotone non-decreasing in `u`.  (Proved unconditionally; the
hypotheses `sumList (effT n1 n2 t) = n1 + n2`, `1 ≤ n1` suggested in the task are not needed.) -/
theorem cdf_mono (n1 n2 : Nat) (t : List Nat) (u u' : Rat) (h : u ≤ u') :
    cdf n1 n2 t u ≤ cdf n1 n2 t u' := by
  by_cases h1 : u < 0
  · have : cdf n1 n2 t u = 0 := by unfold cdf; rw [if_pos h1]
    rw [this]; exact (cdf_range n1 n2 t u').1
  · by_cases h2 : u' ≥ ((n1 * n2 : Nat) : Rat)
    · have : cdf n1 n2 t u' = 1 := by
        unfold cdf; rw [if_neg (by linarith), if_pos h2]
      rw [this]; exact (cdf_range n1 n2 t u).2
    · have h3 : ¬ u ≥ ((n1 * n2 : Nat) : Rat) := by
        intro h3; apply h2; exact le_trans h3 h
      unfold cdf
      rw [if_neg h1, if_neg h3, if_neg (by linarith), if_neg h2]
      apply div_le_div_of_nonneg_right _ (by positivity)
      exact_mod_cast polyPrefix_mono _ _ _ (floor_mono' _ _ (by linarith))

example : cdf 2 4 [2, 1, 3] (3 / 2) ≤ cdf 2 4 [2, 1, 3] (7 / 2) := cdf_mono _ _ _ _ _ (by norm_num)

/-- **U3 (spec form of `cdf`).** For a well-formed input (`Σ effT = n1 + n2`) and `u ≥ 0`, the API
value is exactly `#{labelings with 2U ≤ ⌊2u⌋} / C(n1+n2, n1)`, *including* in the guarded region
`u ≥ n1·n2`, where the count is everything. -/
theorem cdf_eq_countSpec (n1 n2 : Nat) (t : List Nat) (u : Rat)
    (hN : sumList (effT n1 n2 t) = n1 + n2) (hu : 0 ≤ u) :
    cdf n1 n2 t u = (countSpec (effT n1 n2 t) n1 (2 * u).floor : Rat) / (Nat.choose (n1 + n2) n1 : Rat) := by
  unfold cdf
  rw [if_neg (by linarith)]
  split_ifs with h2
  · have hk : ((2 * n1 * n2 : Nat) : Int) ≤ (2 * u).floor := by
      have h1 : (2 * u).floor = ⌊2 * u⌋ := rfl
      rw [h1, Int.le_floor]
      push_cast at h2 ⊢
      linarith
    rw [← fwdDP_prefix, fwdDP_prefix_top _ n1 n2 hN _ hk, fwdDP_total, hN]
    have : (0 : Rat) < (Nat.choose (n1 + n2) n1 : Rat) := by
      exact_mod_cast Nat.choose_pos (Nat.le_add_right _ _)
    rw [div_self (ne_of_gt this)]
  · simp only [fwdDP_prefix, fwdDP_total, hN]

example : cdf 2 4 [2, 1, 3] (7 / 2) = 9 / 15 := by
  rw [cdf_eq_countSpec _ _ _ _ (by decide) (by norm_num)]
  have : (2 * (7 / 2 : Rat)).floor = 7 := by
    have h1 : (2 * (7 / 2 : Rat)).floor = ⌊(2 * (7 / 2 : Rat))⌋ := rfl
    rw [h1]; norm_num
  rw [this]
  have h2 : countSpec (effT 2 4 [2, 1, 3]) 2 7 = 9 := by decide
  have h3 : Nat.choose (2 + 4) 2 = 15 := by decide
  rw [h2, h3]; norm_num

/-! ## U4: mirror law -/

/-- complementary allocation `t - r` -/
def comp : List Nat → List Nat → List Nat
  | t :: ts, r :: rs => (t - r) :: comp ts rs
  | _, _ => []

lemma asum_comp (ts : List Nat) (g : List Nat → Nat) :
    asum ts (fun rs => g (comp ts rs)) = asum ts g := by
  induction ts generalizing g with
  | nil => simp [asum_nil, comp]
  | cons t ts ih =>
    rw [asum_cons, asum_cons]
    simp only [comp]
    have : ∀ r, asum ts (fun rs => g ((t - r) :: comp ts rs)) = asum ts (fun rs => g ((t - r) :: rs)) :=
      fun r => ih (fun rs => g ((t - r) :: rs))
    simp only [this]
    have := sum_range_reflect (fun r => asum ts (fun rs => g (r :: rs))) (t + 1)
    simpa using this

lemma comp_facts (ts rs : List Nat) (h : rs ∈ allocs ts) :
    (comp ts rs).sum + rs.sum = ts.sum ∧ weight ts (comp ts rs) = weight ts rs ∧
    ∀ b b', twoUof ts rs b + twoUof ts (comp ts rs) b'
      = 2 * b * rs.sum + 2 * b' * (comp ts rs).sum + 2 * rs.sum * (comp ts rs).sum := by
  induction ts generalizing rs with
  | nil =>
    simp [allocs] at h; subst h; simp [comp, weight, twoUof]
  | cons t ts ih =>
    obtain ⟨r, rs', hr, hrs, rfl⟩ := (mem_allocs_cons t ts rs).1 h
    obtain ⟨h1, h2, h3⟩ := ih rs' hrs
    simp only [comp, List.sum_cons, weight, twoUof]
    refine ⟨by omega, ?_, ?_⟩
    · rw [h2, choose_eq_nat, choose_eq_nat, Nat.choose_symm hr]
    · intro b b'
      have e : t - (t - r) = r := by omega
      rw [e]
      have := h3 (b + (t - r)) (b' + r)
      generalize t - r = s at *
      generalize (comp ts rs').sum = S at *
      generalize rs'.sum = R at *
      generalize twoUof ts rs' (b + s) = A at *
      generalize twoUof ts (comp ts rs') (b' + r) = A' at *
      nlinarith [this]

/-- **U4 (mirror law).** With `N = Σ t` and `n2 = N − n1`, the number of labelings with sample-1
size `n1` and `2U = v` equals the number with sample-1 size `n2` and `2U = 2·n1·n2 − v`
(complement the labeling): the distribution for `(n1, n2, T)` is the mirror image of that for
`(n2, n1, T)`. -/
theorem countEq_mirror (t : List Nat) (n1 : Nat) (v : Int) (h : n1 ≤ sumList t) :
    countEq t n1 v
      = countEq t (sumList t - n1) (((2 * n1 * (sumList t - n1) : Nat) : Int) - v) := by
  rw [countEq_eq_asum, countEq_eq_asum]
  refine Eq.trans ?_ (asum_comp t _)
  rw [sumList_eq] at *
  apply asum_congr
  intro r hr
  obtain ⟨h1, h2, h3⟩ := comp_facts t r hr
  have h3' := h3 0 0
  simp only [Nat.mul_zero, Nat.zero_mul, Nat.zero_add] at h3'
  rw [h2]
  by_cases hs : r.sum = n1
  · have hs2 : (comp t r).sum = t.sum - n1 := by omega
    rw [hs2, hs] at h3'
    have : (((twoUof t (comp t r) 0 : Nat) : Int) = ((2 * n1 * (t.sum - n1) : Nat) : Int) - v)
        ↔ (((twoUof t r 0 : Nat) : Int) = v) := by
      have : ((twoUof t r 0 : Nat) : Int) + ((twoUof t (comp t r) 0 : Nat) : Int)
          = ((2 * n1 * (t.sum - n1) : Nat) : Int) := by exact_mod_cast h3'
      constructor <;> intro h' <;> omega
    simp only [hs, hs2, this, true_and]
  · have hs2 : ¬ (comp t r).sum = t.sum - n1 := by omega
    simp [hs, hs2]

example : countEq [2, 1, 3] 2 7 = countEq [2, 1, 3] 4 9 :=
  countEq_mirror [2, 1, 3] 2 7 (by decide)

/-! ## U5: the Mann-Whitney table -/

lemma cMW_zero_left (m u : Nat) : cMW 0 m u = if u = 0 then 1 else 0 := by
  rw [cMW]

lemma cMW_zero_right (n u : Nat) : cMW n 0 u = if u = 0 then 1 else 0 := by
  cases n <;> rw [cMW]

lemma cMW_succ (n m u : Nat) : cMW (n + 1) (m + 1) u =
    (if u ≥ m + 1 then cMW n (m + 1) (u - (m + 1)) else 0) + cMW (n + 1) m u := by
  rw [cMW]

lemma getD_one (u : Nat) : (#[1] : Poly).getD u 0 = if u = 0 then 1 else 0 := by
  cases u <;> rfl

lemma C_push (cur : Array Poly) (a : Poly) (n u : Nat) :
    coefT (cur.push a) n u = if n = cur.size then a.getD u 0 else coefT cur n u := by
  unfold coefT
  simp only [Array.getD_eq_getD_getElem?, Array.getElem?_push]
  split_ifs <;> simp

lemma mwNextRow_eq (prev : Array Poly) (m : Nat) :
    mwNextRow prev m = (List.range' 1 (prev.size - 1)).foldl
      (fun b a => b.push (polyAddShift (prev.getD a #[]) (b.getD (a - 1) #[]) m 1)) #[#[1]] := by
  unfold mwNextRow
  simp only [Id.run]
  simp
  rfl

lemma mwNextRow_spec (prev : Array Poly) (m : Nat) (hsz : 1 ≤ prev.size)
    (hprev : ∀ n u, n < prev.size → coefT prev n u = cMW n m u) :
    (mwNextRow prev (m + 1)).size = prev.size ∧
    ∀ n u, n < prev.size → coefT (mwNextRow prev (m + 1)) n u = cMW n (m + 1) u := by
  rw [mwNextRow_eq]
  have key := foldl_range'_inv
    (fun k (cur : Array Poly) => cur.size = k ∧ ∀ n u, n < k → coefT cur n u = cMW n (m + 1) u)
    (fun b a => b.push (polyAddShift (prev.getD a #[]) (b.getD (a - 1) #[]) (m + 1) 1))
    1 (prev.size - 1) #[#[1]] ⟨rfl, ?_⟩ ?_
  · have e : 1 + (prev.size - 1) = prev.size := by omega
    rw [e] at key
    exact key
  · intro n u hn
    have : n = 0 := by omega
    subst this
    rw [cMW_zero_left]
    exact getD_one u
  · rintro k cur hk1 hk2 ⟨hc1, hc2⟩
    refine ⟨by simp [hc1], fun n u hn => ?_⟩
    rw [C_push]
    by_cases hnk : n = cur.size
    · rw [if_pos hnk, polyAddShift_getD]
      have hn' : n = k := by omega
      subst hn'
      obtain ⟨k', rfl⟩ : ∃ k', n = k' + 1 := ⟨n - 1, by omega⟩
      rw [cMW_succ]
      have h1 : (prev.getD (k' + 1) #[]).getD u 0 = cMW (k' + 1) m u := hprev (k' + 1) u (by omega)
      have h2 : ∀ w, (cur.getD (k' + 1 - 1) #[]).getD w 0 = cMW k' (m + 1) w := by
        intro w
        have := hc2 k' w (by omega)
        simpa [coefT] using this
      rw [h1, h2]
      simp only [ge_iff_le, Nat.one_mul]
      omega
    · rw [if_neg hnk]
      exact hc2 n u (by omega)

lemma mwRows_spec (N M : Nat) :
    (mwRows N M).size = N + 1 ∧ ∀ n u, n < N + 1 → coefT (mwRows N M) n u = cMW n M u := by
  unfold mwRows
  induction M with
  | zero =>
    simp only [List.range_zero, List.foldl_nil]
    refine ⟨by simp, fun n u hn => ?_⟩
    rw [cMW_zero_right]
    unfold coefT
    have : (Array.replicate (N + 1) (#[1] : Poly)).getD n #[] = #[1] := by
      simp [Array.getD_eq_getD_getElem?, Array.getElem?_replicate, hn]
    rw [this]; exact getD_one u
  | succ M ih =>
    rw [List.range_succ, List.foldl_append]
    simp only [List.foldl_cons, List.foldl_nil]
    have := mwNextRow_spec _ M (by rw [ih.1]; omega) (fun n u hn => ih.2 n u (by rw [ih.1] at hn; exact hn))
    rw [ih.1] at this
    exact this

/-- **U5 (table).** The row-wise Mann-Whitney table computes the recurrence `cMW`: the coefficient
of `q^u` in `mwPoly n m` is `cMW n m u`. -/
theorem mwPoly_coeff (n m u : Nat) : (mwPoly n m).getD u 0 = cMW n m u :=
  (mwRows_spec n m).2 n u (by omega)

example : (mwPoly 2 2).getD 2 0 = 2 := by rw [mwPoly_coeff]; simp [cMW]

/-! ## U5: the recurrence counts labelings -/

lemma asum_add (ts : List Nat) (g h : List Nat → Nat) :
    asum ts (fun rs => g rs + h rs) = asum ts g + asum ts h := by
  unfold asum
  induction (allocs ts) with
  | nil => simp
  | cons a L ih => simp [ih]; omega

lemma asum_snoc (ts : List Nat) (t : Nat) (g : List Nat → Nat) :
    asum (ts ++ [t]) g = asum ts (fun rs => ∑ r ∈ range (t + 1), g (rs ++ [r])) := by
  induction ts generalizing g with
  | nil =>
    rw [List.nil_append, asum_cons, asum_nil]
    simp only [asum_nil, List.nil_append]
  | cons t0 ts ih =>
    rw [List.cons_append, asum_cons, asum_cons]
    apply sum_congr rfl
    intro r0 _
    rw [ih]
    rfl

lemma snoc_facts (ts : List Nat) (t r : Nat) (rs : List Nat) (h : rs ∈ allocs ts) :
    weight (ts ++ [t]) (rs ++ [r]) = weight ts rs * choose t r ∧
    ∀ b, twoUof (ts ++ [t]) (rs ++ [r]) b
      = twoUof ts rs b + r * (2 * (b + (ts.sum - rs.sum)) + (t - r)) := by
  induction ts generalizing rs with
  | nil =>
    simp [allocs] at h; subst h; simp [weight, twoUof]
  | cons t0 ts ih =>
    obtain ⟨r0, rs', hr, hrs, rfl⟩ := (mem_allocs_cons t0 ts rs).1 h
    obtain ⟨h1, h2⟩ := ih rs' hrs
    have hb := (twoUof_bound ts rs' 0 hrs).1
    simp only [List.cons_append, weight, twoUof, List.sum_cons]
    refine ⟨by rw [h1]; ring, fun b => ?_⟩
    rw [h2]
    have e : t0 + ts.sum - (r0 + rs'.sum) = (t0 - r0) + (ts.sum - rs'.sum) := by omega
    rw [e]; ring

def ones (k : Nat) : List Nat := List.replicate k 1

lemma ones_succ (k : Nat) : ones (k + 1) = ones k ++ [1] := List.replicate_succ'

lemma ones_sum (k : Nat) : (ones k).sum = k := by simp [ones]

/-- number of labelings of an untied pool of `k` items with `n` in sample 1 and `2U = v` -/
def untiedE (k n v : Nat) : Nat :=
  asum (ones k) (fun r => if r.sum = n ∧ twoUof (ones k) r 0 = v then weight (ones k) r else 0)

lemma countEq_ones (k n v : Nat) : countEq (ones k) n (v : Int) = untiedE k n v := by
  rw [countEq_eq_asum]; unfold untiedE
  apply asum_congr; intro r _
  simp only [Nat.cast_inj]

lemma E_zero (n v : Nat) : untiedE 0 n v = if n = 0 ∧ v = 0 then 1 else 0 := by
  unfold untiedE ones
  simp only [List.replicate_zero, asum_nil, List.sum_nil, twoUof, weight]
  by_cases hn : n = 0 <;> by_cases hv : v = 0 <;> simp [hn, hv, eq_comm]

lemma E_big (k n v : Nat) (h : k < n) : untiedE k n v = 0 := by
  unfold untiedE
  refine Eq.trans (asum_congr _ _ (fun _ => 0) ?_) (asum_zero _)
  intro r hr
  have := (twoUof_bound _ r 0 hr).1
  rw [ones_sum] at this
  rw [if_neg (by omega)]

lemma E_succ (k n v : Nat) :
    untiedE (k + 1) n v = untiedE k n v +
      (if 1 ≤ n ∧ n - 1 ≤ k ∧ 2 * (k - (n - 1)) ≤ v then untiedE k (n - 1) (v - 2 * (k - (n - 1))) else 0) := by
  unfold untiedE
  rw [ones_succ, asum_snoc]
  simp only [sum_range_succ, sum_range_zero, Nat.zero_add]
  rw [asum_add]
  congr 1
  · apply asum_congr; intro rs hrs
    obtain ⟨h1, h2⟩ := snoc_facts (ones k) 1 0 rs hrs
    rw [h1, h2]
    simp [choose]
  · by_cases hP : 1 ≤ n ∧ n - 1 ≤ k ∧ 2 * (k - (n - 1)) ≤ v
    · rw [if_pos hP]
      apply asum_congr; intro rs hrs
      obtain ⟨h1, h2⟩ := snoc_facts (ones k) 1 1 rs hrs
      have hb := (twoUof_bound _ rs 0 hrs).1
      rw [ones_sum] at hb
      rw [h1, h2, ones_sum]
      simp only [List.sum_append, List.sum_cons, List.sum_nil, choose, Nat.mul_one, Nat.add_zero,
        Nat.zero_add, Nat.sub_self, Nat.one_mul]
      generalize twoUof (ones k) rs 0 = U
      by_cases hs : rs.sum = n - 1
      · have hs' : rs.sum + 1 = n := by omega
        rw [hs] at *
        by_cases hu : U = v - 2 * (k - (n - 1))
        · have : U + 2 * (k - (n - 1)) = v := by omega
          rw [if_pos ⟨hs', this⟩, if_pos ⟨rfl, hu⟩]
        · have : ¬ U + 2 * (k - (n - 1)) = v := by omega
          rw [if_neg (fun h => this h.2), if_neg (fun h => hu h.2)]
      · have hs' : ¬ rs.sum + 1 = n := by omega
        rw [if_neg (fun h => hs' h.1), if_neg (fun h => hs h.1)]
    · rw [if_neg hP]
      refine Eq.trans (asum_congr _ _ (fun _ => 0) ?_) (asum_zero _)
      intro rs hrs
      obtain ⟨h1, h2⟩ := snoc_facts (ones k) 1 1 rs hrs
      have hb := (twoUof_bound _ rs 0 hrs).1
      rw [ones_sum] at hb
      rw [h2, ones_sum]
      simp only [List.sum_append, List.sum_cons, List.sum_nil, Nat.add_zero,
        Nat.zero_add, Nat.sub_self, Nat.one_mul]
      rw [if_neg]
      rintro ⟨h3, h4⟩
      apply hP
      refine ⟨by omega, by omega, ?_⟩
      have : n - 1 = rs.sum := by omega
      rw [this]; omega

lemma cMW_eq_E (s : Nat) : ∀ n m u, n + m = s → cMW n m u = untiedE (n + m) n (2 * u) := by
  induction s with
  | zero =>
    intro n m u h
    have hn : n = 0 := by omega
    have hm : m = 0 := by omega
    subst hn; subst hm
    rw [cMW_zero_left, E_zero]
    by_cases hu : u = 0
    · simp [hu]
    · have : ¬ 2 * u = 0 := by omega
      simp [hu, this]
  | succ s ih =>
    intro n m u h
    cases n with
    | zero =>
      have hm : m = s + 1 := by omega
      subst hm
      rw [Nat.zero_add, E_succ, if_neg (by omega)]
      have := ih 0 s u (by omega)
      rw [Nat.zero_add] at this
      rw [← this, cMW_zero_left, cMW_zero_left, Nat.add_zero]
    | succ n =>
      cases m with
      | zero =>
        have hs : s = n := by omega
        subst hs
        rw [Nat.add_zero, E_succ, E_big _ _ _ (Nat.lt_succ_self _), Nat.zero_add]
        have e1 : s + 1 - 1 = s := by omega
        rw [e1, Nat.sub_self, Nat.mul_zero, if_pos ⟨by omega, le_refl _, Nat.zero_le _⟩, Nat.sub_zero]
        have := ih s 0 u (by omega)
        rw [Nat.add_zero] at this
        rw [← this, cMW_zero_right, cMW_zero_right]
      | succ m =>
        have e : n + 1 + (m + 1) = (n + 1 + m) + 1 := by omega
        rw [cMW_succ, e, E_succ]
        have e1 : n + 1 - 1 = n := by omega
        have e2 : n + 1 + m - n = m + 1 := by omega
        rw [e1, e2, Nat.add_comm]
        congr 1
        · exact ih (n + 1) m u (by omega)
        · by_cases hu : u ≥ m + 1
          · rw [if_pos hu, if_pos ⟨by omega, by omega, by omega⟩]
            have := ih n (m + 1) (u - (m + 1)) (by omega)
            rw [this]
            have e3 : n + (m + 1) = n + 1 + m := by omega
            have e4 : 2 * (u - (m + 1)) = 2 * u - 2 * (m + 1) := by omega
            rw [e3, e4]
          · rw [if_neg hu, if_neg (by omega)]

/-- **U5 (recurrence = count).** The Mann-Whitney recurrence `cMW n m u` is the number of
labelings of an untied pool of `n + m` items (`t = [1, …, 1]`) with `n` items in sample 1 and
`U = u`, i.e. `2U = 2u`. -/
theorem cMW_eq_count (n m u : Nat) :
    cMW n m u = countEq (List.replicate (n + m) 1) n (2 * u : Int) := by
  have h := countEq_ones (n + m) n (2 * u)
  unfold ones at h
  push_cast at h
  rw [h]
  exact cMW_eq_E (n + m) n m u rfl

example : countEq (List.replicate (2 + 2) 1) 2 (2 * (2 : Nat) : Int) = 2 := by decide
example : cMW 2 2 2 = 2 := by rw [cMW_eq_count]; decide

/-- with no ties, `2U` is always even -/
lemma twoUof_ones_even (k : Nat) (rs : List Nat) (b : Nat) (h : rs ∈ allocs (ones k)) :
    2 ∣ twoUof (ones k) rs b := by
  induction k generalizing rs b with
  | zero =>
    simp [ones, allocs] at h; subst h; simp [ones, twoUof]
  | succ k ih =>
    have e : ones (k + 1) = 1 :: ones k := rfl
    rw [e] at h ⊢
    obtain ⟨r, rs', hr, hrs, rfl⟩ := (mem_allocs_cons 1 (ones k) rs).1 h
    simp only [twoUof]
    have := ih rs' (b + (1 - r)) hrs
    interval_cases r
    · simpa using this
    · simp only [Nat.sub_self, Nat.add_zero, Nat.one_mul] at this ⊢
      omega

lemma countEq_ones_odd (k n u : Nat) : countEq (ones k) n ((2 * u + 1 : Nat) : Int) = 0 := by
  rw [countEq_ones]
  unfold untiedE
  refine Eq.trans (asum_congr _ _ (fun _ => 0) ?_) (asum_zero _)
  intro r hr
  have := twoUof_ones_even k r 0 hr
  rw [if_neg]
  rintro ⟨_, h⟩
  omega

lemma effT_nil (n1 n2 : Nat) : effT n1 n2 [] = ones (n1 + n2) := rfl

lemma sum_range_two_mul (f : Nat → Nat) (B : Nat) :
    ∑ v ∈ range (2 * B), f v = ∑ u ∈ range B, (f (2 * u) + f (2 * u + 1)) := by
  induction B with
  | zero => simp
  | succ B ih =>
    have e : 2 * (B + 1) = 2 * B + 1 + 1 := by ring
    rw [e, sum_range_succ, sum_range_succ, ih, sum_range_succ]; ring

lemma untied_even (n1 n2 u : Nat) :
    (fwdDP (ones (n1 + n2)) n1).getD (2 * u) 0 = (mwPoly n1 n2).getD u 0 := by
  rw [fwdDP_coeff, mwPoly_coeff, cMW_eq_count]
  unfold ones; push_cast; rfl

lemma untied_odd (n1 n2 u : Nat) :
    (fwdDP (ones (n1 + n2)) n1).getD (2 * u + 1) 0 = 0 := by
  rw [fwdDP_coeff, countEq_ones_odd]

lemma untied_total (n1 n2 : Nat) :
    polyTotal (fwdDP (ones (n1 + n2)) n1) = polyTotal (mwPoly n1 n2) := by
  set p := fwdDP (ones (n1 + n2)) n1
  set q := mwPoly n1 n2
  rw [polyTotal_eq p (2 * max p.size q.size) (by have := le_max_left p.size q.size; omega),
    polyTotal_eq q (max p.size q.size) (le_max_right _ _), sum_range_two_mul]
  apply sum_congr rfl
  intro u _
  rw [untied_even, untied_odd, Nat.add_zero]

lemma untied_prefix_odd (n1 n2 k : Nat) :
    polyPrefix (fwdDP (ones (n1 + n2)) n1) ((2 * k + 1 : Nat) : Int) = polyPrefix (mwPoly n1 n2) (k : Int) := by
  rw [polyPrefix_eq _ _ (by omega), polyPrefix_eq _ _ (by omega)]
  have e : ((2 * k + 1 : Nat) : Int).toNat + 1 = 2 * (k + 1) := by omega
  have e' : ((k : Nat) : Int).toNat + 1 = k + 1 := by omega
  rw [e, e', sum_range_two_mul]
  apply sum_congr rfl
  intro u _
  rw [untied_even, untied_odd, Nat.add_zero]

lemma untied_prefix_even (n1 n2 k : Nat) :
    polyPrefix (fwdDP (ones (n1 + n2)) n1) ((2 * k : Nat) : Int) = polyPrefix (mwPoly n1 n2) (k : Int) := by
  rw [← untied_prefix_odd, polyPrefix_eq _ _ (by omega), polyPrefix_eq _ _ (by omega)]
  have e : ((2 * k + 1 : Nat) : Int).toNat + 1 = (2 * k + 1) + 1 := by omega
  have e' : ((2 * k : Nat) : Int).toNat + 1 = 2 * k + 1 := by omega
  rw [e, e', sum_range_succ _ (2 * k + 1), untied_odd]; rfl

/-- **U5 (API level).** For an untied input (`T = nil`) the large-case path through the
Mann-Whitney table gives exactly the same CDF value as the generic forward-DP path. -/
theorem cdfUntiedMW_eq_cdf (n1 n2 : Nat) (u : Rat) : cdfUntiedMW n1 n2 u = cdf n1 n2 [] u := by
  unfold cdfUntiedMW cdf
  split_ifs with h1 h2
  · rfl
  · rfl
  · simp only [effT_nil]
    rw [untied_total]
    congr 2
    -- floors
    have hu : 0 ≤ u := not_lt.mp h1
    have hf1 : u.floor = ⌊u⌋ := rfl
    have hf2 : (2 * u).floor = ⌊2 * u⌋ := rfl
    rw [hf1, hf2]
    have hk0 : 0 ≤ ⌊u⌋ := Int.floor_nonneg.mpr hu
    obtain ⟨k, hk⟩ : ∃ k : Nat, ⌊u⌋ = (k : Int) := ⟨⌊u⌋.toNat, by omega⟩
    have hlo : (2 * k : Int) ≤ ⌊2 * u⌋ := by
      rw [Int.le_floor]; push_cast
      have := Int.floor_le u; rw [hk] at this; push_cast at this; linarith
    have hhi : ⌊2 * u⌋ < (2 * k + 2 : Int) := by
      rw [Int.floor_lt]; push_cast
      have := Int.lt_floor_add_one u; rw [hk] at this; push_cast at this; linarith
    rw [hk]
    have : ⌊2 * u⌋ = ((2 * k : Nat) : Int) ∨ ⌊2 * u⌋ = ((2 * k + 1 : Nat) : Int) := by omega
    rcases this with h | h
    · rw [h, untied_prefix_even]
    · rw [h, untied_prefix_odd]

example : cdfUntiedMW 3 4 (5 / 2) = cdf 3 4 [] (5 / 2) := cdfUntiedMW_eq_cdf _ _ _

/-- **API-level point mass.** For a well-formed input, `pmfAt` at the grid point `twoU/2` is
`#{labelings with 2U = twoU} / C(n1+n2, n1)` (and `0` for negative `twoU`). -/
theorem pmfAt_eq_countEq (n1 n2 : Nat) (t : List Nat) (twoU : Int)
    (hN : sumList (effT n1 n2 t) = n1 + n2) :
    pmfAt n1 n2 t twoU = (countEq (effT n1 n2 t) n1 twoU : Rat) / (Nat.choose (n1 + n2) n1 : Rat) := by
  unfold pmfAt
  simp only [fwdDP_total, hN]
  split_ifs with h
  · have : countEq (effT n1 n2 t) n1 twoU = 0 := by
      rw [countEq_eq_asum]
      refine Eq.trans (asum_congr _ _ (fun _ => 0) ?_) (asum_zero _)
      intro r _
      rw [if_neg]
      rintro ⟨_, h'⟩
      have : (0 : Int) ≤ (twoUof (effT n1 n2 t) r 0 : Nat) := Int.natCast_nonneg _
      omega
    rw [this]; simp
  · rw [fwdDP_coeff]
    have : ((twoU.toNat : Nat) : Int) = twoU := by omega
    rw [this]

example : pmfAt 2 4 [2, 1, 3] 7 = 6 / 15 := by
  rw [pmfAt_eq_countEq _ _ _ _ (by decide)]
  have h2 : countEq (effT 2 4 [2, 1, 3]) 2 7 = 6 := by decide
  have h3 : Nat.choose (2 + 4) 2 = 15 := by decide
  rw [h2, h3]; norm_num

end MV.UDist
