import Mathlib.Tactic
import MV.Model.UDist
/-!
# C02 (tied case) — the Cheung–Klotz recursion `aK` equals the brute-force count `countSpec`

Property theorems use `theorem`; helpers use `lemma`.
-/
namespace MV.UDist

/-! ## basic list-sum plumbing -/

lemma foldl_add_eq_sum (l : List Nat) : l.foldl (· + ·) 0 = l.sum := by
  rw [List.sum_eq_foldl]

lemma sumList_eq_sum (l : List Nat) : sumList l = l.sum := foldl_add_eq_sum l

@[simp] lemma sumList_nil : sumList [] = 0 := rfl
@[simp] lemma sumList_cons (x : Nat) (l : List Nat) : sumList (x :: l) = x + sumList l := by
  simp [sumList_eq_sum]
@[simp] lemma sumList_append (l m : List Nat) : sumList (l ++ m) = sumList l + sumList m := by
  simp [sumList_eq_sum]
@[simp] lemma sumList_reverse (l : List Nat) : sumList l.reverse = sumList l := by
  simp [sumList_eq_sum]

lemma list_range_sum (f : Nat → Nat) (n : Nat) :
    ((List.range n).map f).sum = ∑ i ∈ Finset.range n, f i := by
  induction n with
  | zero => simp
  | succ n ih => rw [List.sum_range_succ, Finset.sum_range_succ, ih]

lemma choose_eq (n k : Nat) : choose n k = Nat.choose n k := by
  induction n generalizing k with
  | zero => cases k <;> simp [choose]
  | succ n ih => cases k <;> simp [choose, ih, Nat.choose_succ_succ]

/-! ## allocations -/

lemma mem_allocs {t r : List Nat} : r ∈ allocs t ↔ List.Forall₂ (· ≤ ·) r t := by
  induction t generalizing r with
  | nil => simp [allocs]
  | cons t ts ih =>
    simp only [allocs, List.mem_flatMap, List.mem_range, List.mem_map]
    constructor
    · rintro ⟨k, hk, rs, hrs, rfl⟩
      exact List.Forall₂.cons (by omega) (ih.1 hrs)
    · intro h
      cases h with
      | cons hk hrs => exact ⟨_, by omega, _, ih.2 hrs, rfl⟩

lemma allocs_length {t r : List Nat} (h : r ∈ allocs t) : r.length = t.length :=
  (mem_allocs.1 h).length_eq

lemma forall₂_sum_le {t r : List Nat} (h : List.Forall₂ (· ≤ ·) r t) : sumList r ≤ sumList t := by
  induction h with
  | nil => simp
  | cons h _ ih => simp only [sumList_cons]; omega

lemma allocs_sum_le {t r : List Nat} (h : r ∈ allocs t) : sumList r ≤ sumList t :=
  forall₂_sum_le (mem_allocs.1 h)

lemma mem_allocs_snoc {t r : List Nat} {x k : Nat} (h : r ∈ allocs t) (hk : k ≤ x) :
    r ++ [k] ∈ allocs (t ++ [x]) := by
  rw [mem_allocs] at *
  exact List.rel_append h (List.Forall₂.cons hk List.Forall₂.nil)

/-- sum of `f` over all allocations of `t` -/
def S (t : List Nat) (f : List Nat → Nat) : Nat := ((allocs t).map f).sum

lemma S_nil (f : List Nat → Nat) : S [] f = f [] := by simp [S, allocs]

lemma S_cons (t : Nat) (ts : List Nat) (f : List Nat → Nat) :
    S (t :: ts) f = ∑ k ∈ Finset.range (t + 1), S ts (fun rs => f (k :: rs)) := by
  rw [← list_range_sum]
  simp only [S, allocs]
  generalize List.range (t + 1) = l
  induction l with
  | nil => simp
  | cons a l ih =>
    simp only [List.flatMap_cons, List.map_append, List.sum_append, List.map_cons, List.sum_cons, ih,
      List.map_map]
    rfl

lemma S_congr {t : List Nat} {f g : List Nat → Nat} (h : ∀ r ∈ allocs t, f r = g r) :
    S t f = S t g := by
  unfold S; rw [List.map_congr_left h]

lemma S_zero (t : List Nat) : S t (fun _ => 0) = 0 := by
  unfold S; simp

lemma S_mul_const (t : List Nat) (f : List Nat → Nat) (c : Nat) :
    S t (fun r => f r * c) = S t f * c := by
  unfold S; exact List.sum_map_mul_right _ _ _

lemma S_sum_comm (t : List Nat) (n : Nat) (g : List Nat → Nat → Nat) :
    S t (fun r => ∑ k ∈ Finset.range n, g r k) = ∑ k ∈ Finset.range n, S t (fun r => g r k) := by
  unfold S
  generalize allocs t = l
  induction l with
  | nil => simp
  | cons a l ih => simp only [List.map_cons, List.sum_cons, ih, Finset.sum_add_distrib]

lemma S_snoc (t : List Nat) (x : Nat) (f : List Nat → Nat) :
    S (t ++ [x]) f = S t (fun r => ∑ k ∈ Finset.range (x + 1), f (r ++ [k])) := by
  induction t generalizing f with
  | nil => simp [S_cons, S_nil]
  | cons t0 t ih =>
    rw [List.cons_append, S_cons, S_cons]
    simp only [ih, List.cons_append]

lemma S_eq_zero {t : List Nat} {f : List Nat → Nat} (h : ∀ r ∈ allocs t, f r = 0) : S t f = 0 := by
  rw [S_congr h, S_zero]

lemma sum_filter_map (l : List (List Nat)) (p : List Nat → Bool) (f : List Nat → Nat) :
    sumList ((l.filter p).map f) = (l.map fun r => if p r then f r else 0).sum := by
  rw [sumList_eq_sum]
  induction l with
  | nil => simp
  | cons a l ih =>
    by_cases h : p a <;> simp [h, ih]

lemma countSpec_eq_S (t : List Nat) (n1 : Nat) (twoU : Int) :
    countSpec t n1 twoU =
      S t (fun r => if sumList r = n1 ∧ ((twoUof t r 0 : Nat) : Int) ≤ twoU then weight t r else 0) := by
  unfold countSpec S
  rw [sum_filter_map]
  congr 1
  apply List.map_congr_left
  intro r _
  simp only [Bool.and_eq_true, beq_iff_eq, decide_eq_true_eq]

/-! ## the coefficients `a_k` and the identity `2U = Σ r_k a_k − n1²` -/

/-- `Σ_k r_k a_k` (zip semantics) -/
def dot : List Nat → List Nat → Nat
  | r :: rs, a :: as => r * a + dot rs as
  | _, _ => 0

/-- closed form of the coefficients: `a_k = 2 (s + t_0 + … + t_{k-2}) + t_{k-1}` -/
def aFrom (s : Nat) : List Nat → List Nat
  | [] => []
  | t :: ts => (2 * s + t) :: aFrom (s + t) ts

lemma aCoef_go_eq (s p : Nat) (l : List Nat) : aCoef.go (2 * s + p) p l = aFrom (s + p) l := by
  induction l generalizing s p with
  | nil => rfl
  | cons x l ih =>
    simp only [aCoef.go, aFrom]
    have : 2 * s + p + p + x = 2 * (s + p) + x := by ring
    rw [this, ih]

lemma aCoef_eq_aFrom (t : List Nat) : aCoef t = aFrom 0 t := by
  cases t with
  | nil => rfl
  | cons t0 ts =>
    have := aCoef_go_eq 0 t0 ts
    simp only [Nat.mul_zero, Nat.zero_add] at this
    simp [aCoef, aFrom, this]

lemma aFrom_length (s : Nat) (t : List Nat) : (aFrom s t).length = t.length := by
  induction t generalizing s with
  | nil => rfl
  | cons x t ih => simp [aFrom, ih]

lemma aFrom_append (s : Nat) (t u : List Nat) :
    aFrom s (t ++ u) = aFrom s t ++ aFrom (s + sumList t) u := by
  induction t generalizing s with
  | nil => simp [aFrom]
  | cons x t ih => simp [aFrom, ih, Nat.add_assoc]

lemma aCoef_length (t : List Nat) : (aCoef t).length = t.length := by
  rw [aCoef_eq_aFrom, aFrom_length]

/-- appending a top group of size `x` appends the coefficient `2 Σt + x` -/
lemma aCoef_snoc (t : List Nat) (x : Nat) : aCoef (t ++ [x]) = aCoef t ++ [2 * sumList t + x] := by
  simp [aCoef_eq_aFrom, aFrom_append, aFrom]

lemma aFrom_ge (s : Nat) (t : List Nat) : ∀ x ∈ aFrom s t, 2 * s ≤ x := by
  induction t generalizing s with
  | nil => simp [aFrom]
  | cons y t ih =>
    intro x hx
    simp only [aFrom, List.mem_cons] at hx
    rcases hx with rfl | hx
    · omega
    · have := ih _ x hx; omega

lemma aFrom_sorted (s : Nat) (t : List Nat) : (aFrom s t).Pairwise (· ≤ ·) := by
  induction t generalizing s with
  | nil => simp [aFrom]
  | cons y t ih =>
    simp only [aFrom, List.pairwise_cons]
    refine ⟨fun x hx => ?_, ih _⟩
    have := aFrom_ge _ _ x hx; omega

lemma dot_snoc (r a : List Nat) (k x : Nat) (h : r.length = a.length) :
    dot (r ++ [k]) (a ++ [x]) = dot r a + k * x := by
  induction r generalizing a with
  | nil => cases a <;> simp_all [dot]
  | cons y r ih =>
    cases a with
    | nil => simp at h
    | cons b a =>
      simp only [List.cons_append, dot]
      rw [ih a (by simpa using h)]; ring

/-- general form of the identity, started at `below2 = b` with `m` sample-1 items below
and `s = b + m` pooled items below -/
lemma twoUof_eq_dot_aux {t r : List Nat} (h : List.Forall₂ (· ≤ ·) r t) (b m : Nat) :
    ((twoUof t r b : Nat) : Int) =
      (dot r (aFrom (b + m) t) : Int) - (((m + sumList r) ^ 2 : Nat) : Int) + ((m ^ 2 : Nat) : Int) := by
  induction h generalizing b m with
  | nil => simp [twoUof, dot]
  | @cons rk tk rs ts hk _ ih =>
    simp only [twoUof, aFrom, dot, sumList_cons]
    have e : b + m + tk = (b + (tk - rk)) + (m + rk) := by omega
    rw [e]
    push_cast
    rw [ih (b + (tk - rk)) (m + rk)]
    push_cast [Nat.cast_sub hk]
    ring

/-- **Cheung–Klotz identity**: for an allocation `r` of the tie vector `t`,
`2U = Σ_k r_k a_k − (Σ r)²` where `a = aCoef t`. -/
theorem twoUof_eq_dot (t r : List Nat) (h : r ∈ allocs t) :
    ((twoUof t r 0 : Nat) : Int) = (dot r (aCoef t) : Int) - ((sumList r : Nat) : Int) ^ 2 := by
  have := twoUof_eq_dot_aux (mem_allocs.1 h) 0 0
  simp only [Nat.add_zero, Nat.zero_add] at this
  rw [this, aCoef_eq_aFrom]; push_cast; ring

example : ((twoUof [2, 1, 3] [1, 1, 2] 0 : Nat) : Int)
    = (dot [1, 1, 2] (aCoef [2, 1, 3]) : Int) - ((sumList [1, 1, 2] : Nat) : Int) ^ 2 := by decide

/-- **Peeling the top group**: choosing `k ≤ x` items of a new top group of size `x` on top of an
allocation `r` of `t` changes `2U` by `k * (a_K − 2 n1 + k)` where `a_K` is the last coefficient of
`aCoef (t ++ [x])` and `n1 = Σ r + k` is the new sample-1 size. -/
theorem twoUof_snoc (t r : List Nat) (x k : Nat) (h : r ∈ allocs t) (hk : k ≤ x) :
    ((twoUof (t ++ [x]) (r ++ [k]) 0 : Nat) : Int) =
      (twoUof t r 0 : Nat) +
        (k : Int) * (((aCoef (t ++ [x])).getD ((t ++ [x]).length - 1) 0 : Nat) - 2 * ((sumList r + k : Nat) : Int) + k) := by
  rw [twoUof_eq_dot _ _ (mem_allocs_snoc h hk), twoUof_eq_dot _ _ h, aCoef_snoc,
    dot_snoc _ _ _ _ (by rw [allocs_length h, aCoef_length])]
  have : (aCoef t ++ [2 * sumList t + x]).getD ((t ++ [x]).length - 1) 0 = 2 * sumList t + x := by
    rw [List.getD_eq_getElem?_getD]
    simp [aCoef_length]
  rw [this]
  simp only [sumList_append, sumList_cons, sumList_nil]
  push_cast; ring

example : ((twoUof ([2, 1] ++ [3]) ([1, 1] ++ [2]) 0 : Nat) : Int) =
    (twoUof [2, 1] [1, 1] 0 : Nat) +
      (2 : Int) * (((aCoef ([2, 1] ++ [3])).getD (([2, 1] ++ [3]).length - 1) 0 : Nat) - 2 * ((sumList [1, 1] + 2 : Nat) : Int) + 2) := by
  decide

/-! ## greedy bounds -/

lemma greedy_le_dot {t r : List Nat} (h : List.Forall₂ (· ≤ ·) r t) :
    ∀ (a : List Nat), a.length = t.length → a.Pairwise (· ≤ ·) → ∀ (c : Nat), (∀ x ∈ a, c ≤ x) →
      ∀ (n d : Nat), sumList r = n + d → greedy n t a + d * c ≤ dot r a := by
  induction h with
  | nil =>
    intro a _ _ c _ n d hsum
    simp only [sumList_nil] at hsum
    have : d = 0 := by omega
    subst this; simp [greedy]
  | @cons rk tk rs ts hk _ ih =>
    intro a ha hs c hc n d hsum
    cases a with
    | nil => simp at ha
    | cons ak as =>
      simp only [List.length_cons, Nat.add_right_cancel_iff] at ha
      rw [List.pairwise_cons] at hs
      simp only [sumList_cons] at hsum
      simp only [greedy, dot]
      have hg1 : min n tk ≤ n := Nat.min_le_left _ _
      have hrk : rk ≤ d + min n tk := by
        rcases Nat.le_total n tk with h1 | h1
        · rw [Nat.min_eq_left h1]; omega
        · rw [Nat.min_eq_right h1]; omega
      obtain ⟨d', hd'⟩ : ∃ d', d' + rk = d + min n tk := ⟨d + min n tk - rk, by omega⟩
      have IH := ih as ha hs.2 ak hs.1 (n - min n tk) d' (by omega)
      have hcak : c ≤ ak := hc ak (by simp)
      have h1 : d * c ≤ d * ak := Nat.mul_le_mul_left _ hcak
      have h2 : d' * ak + rk * ak = d * ak + min n tk * ak := by rw [← add_mul, hd', add_mul]
      linarith

lemma dot_le_greedy {t r : List Nat} (h : List.Forall₂ (· ≤ ·) r t) :
    ∀ (a : List Nat), a.length = t.length → a.Pairwise (· ≥ ·) → ∀ (c : Nat), (∀ x ∈ a, x ≤ c) →
      ∀ (n d : Nat), sumList r ≤ n + d → dot r a ≤ greedy n t a + d * c := by
  induction h with
  | nil =>
    intro a _ _ c _ n d _
    simp [dot]
  | @cons rk tk rs ts hk hrest ih =>
    intro a ha hs c hc n d hsum
    cases a with
    | nil => simp at ha
    | cons ak as =>
      simp only [List.length_cons, Nat.add_right_cancel_iff] at ha
      rw [List.pairwise_cons] at hs
      simp only [sumList_cons] at hsum
      simp only [greedy, dot]
      have hg1 : min n tk ≤ n := Nat.min_le_left _ _
      have hrk : rk ≤ d + min n tk := by
        rcases Nat.le_total n tk with h1 | h1
        · rw [Nat.min_eq_left h1]; omega
        · rw [Nat.min_eq_right h1]; omega
      obtain ⟨d', hd'⟩ : ∃ d', d' + rk = d + min n tk := ⟨d + min n tk - rk, by omega⟩
      have IH := ih as ha hs.2 ak hs.1 (n - min n tk) d' (by omega)
      have hcak : ak ≤ c := hc ak (by simp)
      have h1 : d * ak ≤ d * c := Nat.mul_le_mul_left _ hcak
      have h2 : d' * ak + rk * ak = d * ak + min n tk * ak := by rw [← add_mul, hd', add_mul]
      linarith

lemma dot_reverse (r a : List Nat) (h : r.length = a.length) :
    dot r.reverse a.reverse = dot r a := by
  induction r generalizing a with
  | nil => cases a <;> simp_all [dot]
  | cons y r ih =>
    cases a with
    | nil => simp at h
    | cons b a =>
      have h' : r.length = a.length := by simpa using h
      simp only [List.reverse_cons]
      rw [dot_snoc _ _ _ _ (by simpa using h'), ih a h']
      simp only [dot]; ring

lemma greedy_append_right (n : Nat) (t a b : List Nat) (h : a.length = t.length) :
    greedy n t (a ++ b) = greedy n t a := by
  induction t generalizing n a with
  | nil => cases a <;> simp_all [greedy]
  | cons x t ih =>
    cases a with
    | nil => simp at h
    | cons y a =>
      simp only [List.cons_append, greedy]
      rw [ih _ a (by simpa using h)]

/-- **Greedy lower bound is valid**: every allocation `r` of `t` with `Σ r = n1` has
`twoUmin(n1) ≤ 2U(r)`, where `twoUmin` fills the groups greedily from the lowest rank. -/
theorem twoUmin_le (t r : List Nat) (n1 : Nat) (h : r ∈ allocs t) (hs : sumList r = n1) :
    twoUminM n1 t (aCoef t) ≤ ((twoUof t r 0 : Nat) : Int) := by
  rw [twoUof_eq_dot t r h, hs]
  unfold twoUminM
  have := greedy_le_dot (mem_allocs.1 h) (aCoef t) (aCoef_length t)
    (by rw [aCoef_eq_aFrom]; exact aFrom_sorted 0 t) 0 (fun _ _ => Nat.zero_le _) n1 0 (by omega)
  have : (greedy n1 t (aCoef t) : Int) ≤ dot r (aCoef t) := by exact_mod_cast (by omega : greedy n1 t (aCoef t) ≤ dot r (aCoef t))
  push_cast; nlinarith

example : twoUminM 4 [2, 1, 3] (aCoef [2, 1, 3]) ≤ ((twoUof [2, 1, 3] [1, 1, 2] 0 : Nat) : Int) :=
  twoUmin_le _ _ _ (by decide) (by decide)

/-- **Greedy upper bound is valid**: every allocation `r` of `t` with `Σ r = n1` has
`2U(r) ≤ twoUmax(n1)`, where `twoUmax` fills the groups greedily from the highest rank. -/
theorem le_twoUmax (t r : List Nat) (n1 : Nat) (h : r ∈ allocs t) (hs : sumList r = n1) :
    ((twoUof t r 0 : Nat) : Int) ≤ twoUmaxM n1 t (aCoef t) := by
  rw [twoUof_eq_dot t r h, hs]
  unfold twoUmaxM
  have hl : (aCoef t).take t.length = aCoef t := by
    rw [← aCoef_length t]; exact List.take_length
  rw [hl]
  have hF : List.Forall₂ (· ≤ ·) r.reverse t.reverse := List.rel_reverse (mem_allocs.1 h)
  have hsorted : (aCoef t).reverse.Pairwise (· ≥ ·) := by
    rw [List.pairwise_reverse, aCoef_eq_aFrom]; exact aFrom_sorted 0 t
  -- upper bound for the coefficients: any common bound works since d = 0
  obtain ⟨c, hc⟩ : ∃ c, ∀ x ∈ (aCoef t).reverse, x ≤ c :=
    ⟨(aCoef t).sum, fun x hx => List.single_le_sum (fun _ _ => Nat.zero_le _) x (by simpa using hx)⟩
  have := dot_le_greedy hF (aCoef t).reverse (by simp [aCoef_length]) hsorted c hc n1 0 (by simp [hs])
  rw [dot_reverse _ _ (by rw [allocs_length h, aCoef_length])] at this
  have : (dot r (aCoef t) : Int) ≤ greedy n1 t.reverse (aCoef t).reverse := by
    exact_mod_cast (by omega : dot r (aCoef t) ≤ greedy n1 t.reverse (aCoef t).reverse)
  push_cast; nlinarith

example : ((twoUof [2, 1, 3] [1, 1, 2] 0 : Nat) : Int) ≤ twoUmaxM 4 [2, 1, 3] (aCoef [2, 1, 3]) :=
  le_twoUmax _ _ _ (by decide) (by decide)

/-- the allocation hypothesis `r ∈ allocs t` in the two bounds cannot be dropped: -/
example : ¬ (twoUminM 3 [1, 5] (aCoef [1, 5]) ≤ ((twoUof [1, 5] [3, 0] 0 : Nat) : Int)) := by decide
example : ¬ (((twoUof [1] [2] 0 : Nat) : Int) ≤ twoUmaxM 2 [1] (aCoef [1])) := by decide

lemma twoUminM_snoc (n : Nat) (t : List Nat) (x : Nat) :
    twoUminM n t (aCoef (t ++ [x])) = twoUminM n t (aCoef t) := by
  unfold twoUminM
  rw [aCoef_snoc, greedy_append_right _ _ _ _ (aCoef_length t)]

lemma twoUmaxM_snoc (n : Nat) (t : List Nat) (x : Nat) :
    twoUmaxM n t (aCoef (t ++ [x])) = twoUmaxM n t (aCoef t) := by
  unfold twoUmaxM
  rw [aCoef_snoc, List.take_left' (aCoef_length t)]
  have hl : (aCoef t).take t.length = aCoef t := by
    rw [← aCoef_length t]; exact List.take_length
  rw [hl]

/-! ## Vandermonde and the consequences for `countSpec` -/

lemma vandermonde_range (x T n : Nat) :
    ∑ k ∈ Finset.range (x + 1), (if k ≤ n then Nat.choose x k * Nat.choose T (n - k) else 0)
      = Nat.choose (x + T) n := by
  rw [Nat.add_choose_eq,
    Finset.Nat.sum_antidiagonal_eq_sum_range_succ (fun i j => Nat.choose x i * Nat.choose T j)]
  rw [← Finset.sum_filter]
  rw [← Finset.sum_filter_of_ne (s := Finset.range n.succ) (p := fun k => k ≤ x)]
  · apply Finset.sum_congr _ (fun _ _ => rfl)
    ext k; simp only [Finset.mem_filter, Finset.mem_range]; omega
  · intro k _ hk
    by_contra hlt
    exact hk (by rw [Nat.choose_eq_zero_of_lt (by omega)]; simp)

lemma weight_sum_S (t : List Nat) (n : Nat) :
    S t (fun r => if sumList r = n then weight t r else 0) = choose (sumList t) n := by
  induction t generalizing n with
  | nil =>
    rw [S_nil]; cases n <;> simp [weight, choose]
  | cons x t ih =>
    rw [S_cons, sumList_cons, choose_eq, ← vandermonde_range]
    apply Finset.sum_congr rfl
    intro k _
    split_ifs with hk
    · rw [← choose_eq, ← choose_eq, ← ih (n - k), mul_comm, ← S_mul_const]
      apply S_congr
      intro r _
      simp only [sumList_cons, weight]
      by_cases h : sumList r = n - k
      · rw [if_pos h, if_pos (by omega)]; ring
      · rw [if_neg h, if_neg (by omega)]; ring
    · apply S_eq_zero
      intro r _
      simp only [sumList_cons]
      rw [if_neg (by omega)]

/-- **Vandermonde**: the labelings over all allocations with `Σ r = n` number `choose (Σ t) n`. -/
theorem weight_sum (t : List Nat) (n : Nat) :
    sumList (((allocs t).filter fun r => sumList r == n).map (weight t)) = choose (sumList t) n := by
  rw [sum_filter_map, ← weight_sum_S]
  unfold S
  congr 1
  apply List.map_congr_left
  intro r _
  simp only [beq_iff_eq]

example : sumList (((allocs [2, 1, 3]).filter fun r => sumList r == 4).map (weight [2, 1, 3]))
    = choose (sumList [2, 1, 3]) 4 := weight_sum _ _

lemma countSpec_of_max_le (t : List Nat) (n : Nat) (v : Int) (h : twoUmaxM n t (aCoef t) ≤ v) :
    countSpec t n v = choose (sumList t) n := by
  rw [countSpec_eq_S, ← weight_sum_S]
  apply S_congr
  intro r hr
  by_cases hs : sumList r = n
  · rw [if_pos hs, if_pos ⟨hs, le_trans (le_twoUmax t r n hr hs) h⟩]
  · rw [if_neg hs, if_neg (fun h => hs h.1)]

lemma countSpec_of_lt_min (t : List Nat) (n : Nat) (v : Int) (h : v < twoUminM n t (aCoef t)) :
    countSpec t n v = 0 := by
  rw [countSpec_eq_S]
  apply S_eq_zero
  intro r hr
  rw [if_neg]
  rintro ⟨hs, hv⟩
  have := twoUmin_le t r n hr hs
  omega

lemma countSpec_of_sum_lt (t : List Nat) (n : Nat) (v : Int) (h : sumList t < n) :
    countSpec t n v = 0 := by
  rw [countSpec_eq_S]
  apply S_eq_zero
  intro r hr
  rw [if_neg]
  rintro ⟨hs, _⟩
  have := allocs_sum_le hr
  omega

lemma weight_snoc (t r : List Nat) (x k : Nat) (h : r.length = t.length) :
    weight (t ++ [x]) (r ++ [k]) = weight t r * choose x k := by
  induction t generalizing r with
  | nil => cases r <;> simp_all [weight]
  | cons y t ih =>
    cases r with
    | nil => simp at h
    | cons b r =>
      simp only [List.cons_append, weight]
      rw [ih r (by simpa using h)]; ring

lemma aCoef_snoc_getD (t : List Nat) (x : Nat) :
    (aCoef (t ++ [x])).getD ((t ++ [x]).length - 1) 0 = 2 * sumList t + x := by
  rw [aCoef_snoc, List.getD_eq_getElem?_getD]
  simp [aCoef_length]

/-- the recursion on the spec side: peel the top group -/
lemma countSpec_snoc (t : List Nat) (x n1 : Nat) (twoU : Int) :
    countSpec (t ++ [x]) n1 twoU =
      ∑ k ∈ Finset.range (x + 1),
        if k ≤ n1 then
          countSpec t (n1 - k)
            (twoU - (k : Int) * (((2 * sumList t + x : Nat) : Int) - 2 * (n1 : Int) + k)) * choose x k
        else 0 := by
  rw [countSpec_eq_S, S_snoc, S_sum_comm]
  apply Finset.sum_congr rfl
  intro k hk
  have hkx : k ≤ x := by simp only [Finset.mem_range] at hk; omega
  split_ifs with hkn
  · rw [countSpec_eq_S, ← S_mul_const]
    apply S_congr
    intro r hr
    have hU := twoUof_snoc t r x k hr hkx
    rw [aCoef_snoc_getD] at hU
    rw [weight_snoc _ _ _ _ (allocs_length hr)]
    simp only [sumList_append, sumList_cons, sumList_nil, Nat.add_zero]
    by_cases hs : sumList r = n1 - k
    · have hs' : sumList r + k = n1 := by omega
      rw [hU, hs']
      by_cases hv : ((twoUof t r 0 : Nat) : Int) ≤
          twoU - (k : Int) * (((2 * sumList t + x : Nat) : Int) - 2 * (n1 : Int) + k)
      · rw [if_pos ⟨rfl, by linarith⟩, if_pos ⟨hs, hv⟩]
      · rw [if_neg (fun h => hv (by linarith [h.2])), if_neg (fun h => hv h.2), zero_mul]
    · rw [if_neg (fun h => hs (by omega)), if_neg (fun h => hs h.1), zero_mul]
  · apply S_eq_zero
    intro r _
    simp only [sumList_append, sumList_cons, sumList_nil, Nat.add_zero]
    rw [if_neg (fun h => hkn (by omega))]

/-! ## the recursion step (K ≥ 3) -/

lemma aK_step (tk : Nat) (rest : List Nat) (hlen : 2 ≤ rest.length)
    (IH : ∀ n1' twoU', twoUminM n1' rest.reverse (aCoef rest.reverse) ≤ twoU' →
        aK rest n1' twoU' = countSpec rest.reverse n1' twoU')
    (n1 : Nat) (twoU : Int) :
    aK (tk :: rest) n1 twoU = countSpec (tk :: rest).reverse n1 twoU := by
  rw [aK.eq_2 _ _ _ _ (by intro t0 h; subst h; simp at hlen), if_neg (by omega)]
  simp only [List.reverse_cons]
  rw [aCoef_snoc_getD]
  simp only [twoUminM_snoc, twoUmaxM_snoc]
  rw [← sumList_reverse rest]
  set tprev := rest.reverse with htp
  have key : ∀ (n1' : Nat) (twoU' : Int),
      (if twoUminM n1' tprev (aCoef tprev) ≤ twoU' ∧ twoU' ≤ twoUmaxM n1' tprev (aCoef tprev) then
          aK rest n1' twoU'
        else if twoUmaxM n1' tprev (aCoef tprev) < twoU' then choose (sumList tprev) n1' else 0)
        = countSpec tprev n1' twoU' := by
    intro n1' twoU'
    split_ifs with h1 h2
    · exact IH _ _ h1.1
    · exact (countSpec_of_max_le _ _ _ (le_of_lt h2)).symm
    · refine (countSpec_of_lt_min _ _ _ ?_).symm
      by_contra hc
      exact h1 ⟨not_lt.1 hc, not_lt.1 h2⟩
  simp only [key]
  rw [foldl_add_eq_sum, list_range_sum, countSpec_snoc]
  set lo := n1 - sumList tprev with hlo
  rw [← Finset.sum_Ico_eq_sum_range (fun k =>
      countSpec tprev (n1 - k)
        (twoU - (k : Int) * (((2 * sumList tprev + tk : Nat) : Int) - 2 * (n1 : Int) + k)) * choose tk k)
      lo (min n1 tk + 1)]
  have hsub : Finset.Ico lo (min n1 tk + 1) ⊆ Finset.range (tk + 1) := by
    intro k; simp only [Finset.mem_Ico, Finset.mem_range]
    have := Nat.min_le_right n1 tk
    omega
  rw [← Finset.sum_subset hsub]
  · apply Finset.sum_congr rfl
    intro k hk
    simp only [Finset.mem_Ico] at hk
    have := Nat.min_le_left n1 tk
    rw [if_pos (by omega)]
  · intro k hk1 hk2
    simp only [Finset.mem_Ico, Finset.mem_range, not_and, not_lt] at hk1 hk2
    split_ifs with hkn
    · have hlt : k < lo := by
        by_contra hc
        have := hk2 (not_lt.1 hc)
        rcases Nat.le_total n1 tk with h | h
        · rw [Nat.min_eq_left h] at this; omega
        · rw [Nat.min_eq_right h] at this; omega
      rw [countSpec_of_sum_lt _ _ _ (by omega), zero_mul]
    · rfl

/-! ## the two-rank closed form (K = 2) -/

lemma countSpec_nil (m : Nat) (w : Int) : countSpec [] m w = if m = 0 ∧ 0 ≤ w then 1 else 0 := by
  rw [countSpec_eq_S, S_nil]
  simp only [sumList_nil, twoUof, weight, Nat.cast_zero]
  by_cases h : m = 0 ∧ 0 ≤ w
  · rw [if_pos h, if_pos ⟨h.1.symm, h.2⟩]
  · rw [if_neg h, if_neg (fun h' => h ⟨h'.1.symm, h'.2⟩)]

lemma countSpec_single (t0 n : Nat) (v : Int) :
    countSpec [t0] n v = if n ≤ t0 ∧ (n : Int) * ((t0 : Int) - n) ≤ v then choose t0 n else 0 := by
  have := countSpec_snoc [] t0 n v
  rw [List.nil_append] at this
  rw [this]
  simp only [countSpec_nil, sumList_nil]
  by_cases hn : n ≤ t0
  · rw [Finset.sum_eq_single n]
    · rw [if_pos le_rfl]
      by_cases hv : (n : Int) * ((t0 : Int) - n) ≤ v
      · rw [if_pos ⟨by omega, by push_cast; linarith⟩, if_pos ⟨hn, hv⟩, one_mul]
      · rw [if_neg (fun h => hv (by have := h.2; push_cast at this; linarith)), if_neg (fun h => hv h.2), zero_mul]
    · intro k _ hk
      split_ifs with h1 h2
      · omega
      · simp
      · rfl
    · intro h; simp only [Finset.mem_range] at h; omega
  · rw [if_neg (fun h => hn h.1)]
    apply Finset.sum_eq_zero
    intro k hk
    simp only [Finset.mem_range] at hk
    split_ifs with h1 h2
    · omega
    · simp
    · rfl

lemma countSpec_two (t0 t1 n1 : Nat) (twoU : Int) :
    countSpec [t0, t1] n1 twoU =
      ∑ k ∈ Finset.range (t1 + 1),
        if k ≤ n1 ∧ n1 - k ≤ t0 ∧ (k : Int) * ((t0 + t1 : Nat) : Int) ≤ twoU - (n1 : Int) * ((t0 : Int) - n1)
        then choose t0 (n1 - k) * choose t1 k else 0 := by
  have := countSpec_snoc [t0] t1 n1 twoU
  rw [show [t0] ++ [t1] = [t0, t1] from rfl] at this
  rw [this]
  apply Finset.sum_congr rfl
  intro k _
  rw [countSpec_single]
  simp only [sumList_cons, sumList_nil]
  by_cases hkn : k ≤ n1
  · rw [if_pos hkn]
    by_cases hk0 : n1 - k ≤ t0
    · have e : (twoU - (k : Int) * (((2 * (t0 + 0) + t1 : Nat) : Int) - 2 * (n1 : Int) + k))
            - ((n1 - k : Nat) : Int) * ((t0 : Int) - (n1 - k : Nat))
          = (twoU - (n1 : Int) * ((t0 : Int) - n1)) - (k : Int) * ((t0 + t1 : Nat) : Int) := by
        push_cast [Nat.cast_sub hkn]; ring
      by_cases hc : (k : Int) * ((t0 + t1 : Nat) : Int) ≤ twoU - (n1 : Int) * ((t0 : Int) - n1)
      · rw [if_pos ⟨hk0, by linarith⟩, if_pos ⟨hkn, hk0, hc⟩]
      · rw [if_neg (fun h => hc (by linarith [h.2])), if_neg (fun h => hc h.2.2), zero_mul]
    · rw [if_neg (fun h => hk0 h.1), if_neg (fun h => hk0 h.2.1), zero_mul]
  · rw [if_neg hkn, if_neg (fun h => hkn h.1)]

lemma aK_two_pos (t1 t0 n1 : Nat) (twoU : Int) (hD : 0 < t0 + t1) :
    aK [t1, t0] n1 twoU = countSpec [t0, t1] n1 twoU := by
  rw [aK.eq_1, countSpec_two]
  have hDpos : (0 : Int) < ((t0 + t1 : Nat) : Int) := by exact_mod_cast hD
  -- this is where FLOOR division is essential: `k ≤ ⌊num / D⌋ ↔ k * D ≤ num`
  rw [Int.fdiv_eq_ediv_of_nonneg _ (le_of_lt hDpos)]
  set num : Int := twoU - (n1 : Int) * ((t0 : Int) - n1) with hnum
  have hhi : ∀ k : Int, k ≤ num / ((t0 + t1 : Nat) : Int) ↔ k * ((t0 + t1 : Nat) : Int) ≤ num :=
    fun k => Int.le_ediv_iff_mul_le hDpos
  generalize num / ((t0 + t1 : Nat) : Int) = hi at hhi ⊢
  set lo : Int := max 0 ((n1 : Int) - t0) with hlo
  have hG : ∀ k : Nat,
      (if k ≤ n1 ∧ n1 - k ≤ t0 ∧ (k : Int) * ((t0 + t1 : Nat) : Int) ≤ num
        then choose t0 (n1 - k) * choose t1 k else 0)
      = if lo ≤ (k : Int) ∧ (k : Int) ≤ hi
          then (if k > n1 then 0 else choose t0 (n1 - k) * choose t1 k) else 0 := by
    intro k
    have hk := hhi k
    by_cases h1 : k ≤ n1
    · rw [if_neg (not_lt.2 h1)]
      apply if_congr _ rfl rfl
      constructor
      · rintro ⟨_, h2, h3⟩; exact ⟨by omega, hk.2 h3⟩
      · rintro ⟨h2, h3⟩; exact ⟨h1, by omega, hk.1 h3⟩
    · rw [if_neg (fun h => h1 h.1), if_pos (by omega : k > n1)]; simp
  simp only [hG]
  split_ifs with hlt
  · symm; apply Finset.sum_eq_zero; intro k _; rw [if_neg]; intro h; omega
  · rw [foldl_add_eq_sum, list_range_sum, ← Finset.sum_filter]
    have e := Finset.sum_Ico_eq_sum_range
      (fun k => if k > n1 then 0 else choose t0 (n1 - k) * choose t1 k)
      lo.toNat (lo.toNat + (hi - lo + 1).toNat)
    rw [Nat.add_sub_cancel_left] at e
    rw [← e]
    symm
    apply Finset.sum_subset
    · intro k; simp only [Finset.mem_filter, Finset.mem_range, Finset.mem_Ico]; omega
    · intro k hk1 hk2
      simp only [Finset.mem_filter, Finset.mem_range, Finset.mem_Ico, not_and] at hk1 hk2
      have hkt : t1 < k := by
        by_contra hc
        exact hk2 (by omega) (by omega) (by omega)
      rw [choose_eq t1 k, Nat.choose_eq_zero_of_lt hkt]
      simp

lemma aK_two_zero (n1 : Nat) (twoU : Int) (h : n1 ≠ 0 ∨ 0 ≤ twoU) :
    aK [0, 0] n1 twoU = countSpec [0, 0] n1 twoU := by
  by_cases hn : n1 = 0
  · subst hn
    have h0 : 0 ≤ twoU := by rcases h with h | h; exact absurd rfl h; exact h
    rw [countSpec_two, aK.eq_1]
    simp [choose, h0]
  · rw [countSpec_of_sum_lt _ _ _ (by simp; omega), aK.eq_1]
    rw [if_pos]
    simp only [Nat.add_zero, Nat.cast_zero, Int.fdiv_zero]
    omega


/-- **K = 2 closed form**: the two-rank closed form with *floor* division equals the brute-force
count for every `n1` and every (possibly negative) `twoU`, provided the pool is non-empty. -/
theorem aK_two (t0 t1 n1 : Nat) (twoU : Int) (h : 0 < t0 + t1) :
    aK [t1, t0] n1 twoU = countSpec [t0, t1] n1 twoU := aK_two_pos t1 t0 n1 twoU h

example : aK [3, 2] 2 (-1) = countSpec [2, 3] 2 (-1) := aK_two 2 3 2 (-1) (by decide)
example : aK [3, 2] 2 5 = 7 := by rw [aK_two 2 3 2 5 (by decide)]; decide

/-- the two-rank closed form with Go's *truncating* division for the upper limit (the original code) -/
def aK2T (t1 t0 n1 : Nat) (twoU : Int) : Nat :=
  let lo : Int := max 0 ((n1 : Int) - t0)
  let num : Int := twoU - (n1 : Int) * ((t0 : Int) - n1)
  let hi : Int := Int.tdiv num ((t0 + t1 : Nat) : Int)
  if hi < lo then 0 else
    ((List.range (hi - lo + 1).toNat).map fun i =>
      let r2 := lo.toNat + i
      if r2 > n1 then 0 else choose t0 (n1 - r2) * choose t1 r2).foldl (· + ·) 0

/-- **Floor is essential**: with truncating division the closed form is wrong already for
`t = [1,1]`, `n1 = 1`, `twoU = -1` (it returns 1, the true count is 0). -/
theorem aK2T_ne_countSpec : aK2T 1 1 1 (-1) ≠ countSpec [1, 1] 1 (-1) := by decide

/-! ## main theorem -/

lemma aK_inrange : ∀ ts : List Nat, 2 ≤ ts.length → ∀ (n1 : Nat) (twoU : Int),
    twoUminM n1 ts.reverse (aCoef ts.reverse) ≤ twoU →
      aK ts n1 twoU = countSpec ts.reverse n1 twoU := by
  intro ts
  induction ts with
  | nil => intro h; simp at h
  | cons tk rest ih =>
    intro hl n1 twoU hin
    by_cases hlen : 2 ≤ rest.length
    · exact aK_step tk rest hlen (ih hlen) n1 twoU
    · have h1 : rest.length = 1 := by simp only [List.length_cons] at hl; omega
      obtain ⟨t0, rfl⟩ := List.length_eq_one_iff.1 h1
      by_cases hD : 0 < t0 + tk
      · exact aK_two_pos tk t0 n1 twoU hD
      · have e0 : t0 = 0 := by omega
        have ek : tk = 0 := by omega
        subst e0; subst ek
        apply aK_two_zero
        by_cases hn : n1 = 0
        · subst hn
          right
          have : twoUminM 0 [0, 0] (aCoef [0, 0]) = 0 := by decide
          simpa [this] using hin
        · exact Or.inl hn

/-- **Main theorem (weakest hypothesis)**: for every tie vector `t` with at least two groups other
than the degenerate `[0,0]`, every `n1` and every integer `twoU` (negative allowed), the
Cheung–Klotz recursion `aK` (called on the reversed tie vector, as the Go code does) returns the
number of size-`n1` labelings with `2U ≤ twoU`. -/
theorem aK_eq_countSpec_general (t : List Nat) (ht : 2 ≤ t.length) (hne : t ≠ [0, 0])
    (n1 : Nat) (twoU : Int) : aK t.reverse n1 twoU = countSpec t n1 twoU := by
  obtain ⟨ts, rfl⟩ : ∃ ts, t = ts.reverse := ⟨t.reverse, by simp⟩
  rw [List.reverse_reverse]
  rw [List.length_reverse] at ht
  cases ts with
  | nil => simp at ht
  | cons tk rest =>
    by_cases hlen : 2 ≤ rest.length
    · exact aK_step tk rest hlen (aK_inrange rest hlen) n1 twoU
    · have h1 : rest.length = 1 := by simp only [List.length_cons] at ht; omega
      obtain ⟨t0, rfl⟩ := List.length_eq_one_iff.1 h1
      apply aK_two_pos
      by_contra hD
      have e0 : t0 = 0 := by omega
      have ek : tk = 0 := by omega
      subst e0; subst ek
      exact hne (by simp)

example : aK [2, 0, 3, 1].reverse 3 6 = countSpec [2, 0, 3, 1] 3 6 :=
  aK_eq_countSpec_general _ (by decide) (by decide) _ _
example : ([2, 0, 3, 1] : List Nat) ≠ [0, 0] := by decide
example : countSpec [2, 0, 3, 1] 3 6 = 4 := by decide

/-- the excluded input really is a mismatch: for `t = [0,0]`, `n1 = 0`, `twoU = -1` the recursion
returns 1 while the count is 0 (division by the empty pool size). -/
theorem aK_zero_zero_mismatch : aK [0, 0].reverse 0 (-1) ≠ countSpec [0, 0] 0 (-1) := by
  rw [show ([0, 0] : List Nat).reverse = [0, 0] from rfl, aK.eq_1]; decide

/-- **Main theorem (requested form)**: for a tie vector with at least two groups, all of positive
size, `aK t.reverse n1 twoU = countSpec t n1 twoU` for every `n1 ≤ N` and every integer `twoU`.
(The hypothesis `hn` is not needed; it is kept to match the call contract.) -/
theorem aK_eq_countSpec (t : List Nat) (ht : 2 ≤ t.length) (hpos : ∀ x ∈ t, 0 < x)
    (n1 : Nat) (_hn : n1 ≤ sumList t) (twoU : Int) :
    aK t.reverse n1 twoU = countSpec t n1 twoU := by
  apply aK_eq_countSpec_general t ht
  intro h
  have := hpos 0 (by rw [h]; simp)
  omega

example : aK [2, 1, 3].reverse 3 7 = countSpec [2, 1, 3] 3 7 :=
  aK_eq_countSpec _ (by decide) (by decide) _ (by decide) _
example : countSpec [2, 1, 3] 3 7 = 10 := by decide

end MV.UDist
