import MV.Props.FactsLib
/-! Source facts the C02 model relies on (checked against the facts regenerated from /repo on every run). -/
namespace MV.Facts

def expectedC02 : List (String × String) := [("mathx.smallFactLimit", "20"), ("lits:stats.UDist.Step", "0.5")]

/-- the constants and literals the C02 model mirrors are still what the source says -/
theorem facts_C02 : holdsAll expectedC02 = true := by decide

end MV.Facts
