import Mathlib.Tactic
import MV.Model.UDist
import MV.Generated.Code
/-!
# C02 — the mechanically translated Go code computes the hand-written model functions

`MV/Generated/Code.lean` is regenerated from the Go source on every run.  This file proves that
the six translated functions (`maxint`, `minint`, `sumint`, `hasTies`, `twoUmin`, `twoUmax`)
compute exactly the model functions of `MV/Model/UDist.lean`, so every theorem about the model is
a theorem about the translated code.

Property theorems use `theorem`; helpers use `lemma`.
-/
namespace MV.Generated.Code

open MV.UDist (sumList greedy aCoef twoUminM twoUmaxM)

/-- Go `[]int` holding the natural numbers of `l` -/
def toA (l : List Nat) : Array Int := (l.map (fun (n : Nat) => (n : Int))).toArray

/-- Elaboration pitfall: written without a binder type, `l.map (fun n => (n : Int))` elaborates to
`List.map id` applied to the *monadic coercion* of `l` to `List Int`; it is the same list. -/
lemma map_coe_unannotated (l : List Nat) :
    l.map (fun n => (n : Int)) = l.map (fun (n : Nat) => (n : Int)) := by
  induction l with
  | nil => rfl
  | cons x l ih => simpa using ih

/-! ## maxint / minint -/

/-- The translated Go `maxint` is the maximum of its two integer arguments. -/
theorem maxint_eq (a b : Int) : maxint a b = max a b := by
  unfold maxint
  by_cases h : a > b
  · simp [h, max_eq_left (le_of_lt h)]
  · simp [h, max_eq_right (not_lt.mp h)]

example : maxint 3 (-5) = 3 ∧ maxint (-5) 3 = 3 ∧ maxint 2 2 = 2 := by decide

/-- The translated Go `minint` is the minimum of its two integer arguments. -/
theorem minint_eq (a b : Int) : minint a b = min a b := by
  unfold minint
  by_cases h : a < b
  · simp [h, min_eq_left (le_of_lt h)]
  · simp [h, min_eq_right (not_lt.mp h)]

example : minint 3 (-5) = -5 ∧ minint (-5) 3 = -5 ∧ minint 2 2 = 2 := by decide

/-! ## sumint -/

lemma foldl_add_cast (xs : List Nat) (s : Nat) :
    (xs.map (fun (n : Nat) => (n : Int))).foldl (fun sum x => sum + x) (s : Int)
      = ((xs.foldl (· + ·) s : Nat) : Int) := by
  induction xs generalizing s with
  | nil => rfl
  | cons x xs ih =>
    simp only [List.map_cons, List.foldl_cons]
    rw [← Nat.cast_add, ih]

/-- The translated Go `sumint`, run on a slice of non-negative integers, returns the model's
`sumList` of the same numbers. -/
theorem sumint_eq (xs : List Nat) :
    sumint ((xs.map (fun (n : Nat) => (n : Int))).toArray) = ((MV.UDist.sumList xs : Nat) : Int) := by
  unfold sumint MV.UDist.sumList
  simp only [List.foldl_toArray']
  exact foldl_add_cast xs 0

example : sumint #[1, 2, 4] = 7 ∧ MV.UDist.sumList [1, 2, 4] = 7 := by decide

/-! ## hasTies -/

/-- The translated Go `hasTies`, run on a tie vector of non-negative integers, returns the model's
`hasTies` (some group has more than one element). -/
theorem hasTies_eq (t : List Nat) :
    hasTies ((t.map (fun (n : Nat) => (n : Int))).toArray) = MV.UDist.hasTies t := by
  unfold hasTies MV.UDist.hasTies
  rw [Bool.eq_iff_iff]
  simp [List.any_map, Function.comp_def]

example : hasTies #[1, 2, 1] = true ∧ MV.UDist.hasTies [1, 2, 1] = true ∧
    hasTies #[1, 1, 1] = false ∧ MV.UDist.hasTies [1, 1, 1] = false := by
  refine ⟨?_, by decide, ?_, by decide⟩
  · exact (hasTies_eq [1, 2, 1]).trans (by decide)
  · exact (hasTies_eq [1, 1, 1]).trans (by decide)

/-! ## twoUmin / twoUmax -/

/-- one iteration of the Go loop body: state `(n1_k, twoU)`, inputs `(t[k-1], a[k])` -/
def step (s : Int × Int) (p : Int × Int) : Int × Int :=
  (s.1 - minint s.1 p.1, s.2 + minint s.1 p.1 * p.2)

/-- the (t[k-1], a[k]) pairs read by the loops, for k = 1..K, in increasing k -/
def pairs (t a : List Nat) (K : Nat) : List (Int × Int) :=
  (List.range K).map fun i => (((t.getD i 0 : Nat) : Int), ((a.getD i 0 : Nat) : Int))

lemma toA_size (l : List Nat) : (toA l).size = l.length := by simp [toA]

lemma toA_getD (l : List Nat) (i : Nat) : (toA l).getD i 0 = ((l.getD i 0 : Nat) : Int) := by
  unfold toA
  rw [Array.getD_eq_getD_getElem?, List.getD_eq_getElem?_getD]
  simp only [List.getElem?_toArray, List.getElem?_map]
  cases l[i]? <;> simp

lemma intUp_map_pairs (t a : List Nat) :
    (intUp 1 (((toA t).size : Nat) + 1)).map
      (fun k => ((toA t).getD (k - 1).toNat 0, (toA (0 :: a)).getD k.toNat 0))
      = pairs t a t.length := by
  unfold intUp pairs
  rw [toA_size, List.map_map]
  have h : ((t.length : Int) + 1 - 1).toNat = t.length := by omega
  rw [h]
  apply List.map_congr_left
  intro i _
  have h1 : ((1 : Int) + (i : Int) - 1).toNat = i := by omega
  have h2 : ((1 : Int) + (i : Int)).toNat = i + 1 := by omega
  simp only [Function.comp, h1, h2, toA_getD]
  simp

lemma intDown_map_pairs (t a : List Nat) :
    (intDown ((toA t).size : Nat) 0).map
      (fun k => ((toA t).getD (k - 1).toNat 0, (toA (0 :: a)).getD k.toNat 0))
      = (pairs t a t.length).reverse := by
  unfold intDown pairs
  rw [toA_size, List.map_map]
  have h : ((t.length : Int) - 0).toNat = t.length := by omega
  rw [h]
  apply List.ext_getElem
  · simp
  · intro i h1 h2
    simp only [List.length_map, List.length_range] at h1
    have e1 : ((t.length : Int) - (i : Int) - 1).toNat = t.length - 1 - i := by omega
    have e2 : ((t.length : Int) - (i : Int)).toNat = (t.length - 1 - i) + 1 := by omega
    simp only [List.getElem_map, List.getElem_range, List.getElem_reverse, List.length_map,
      List.length_range, Function.comp, e1, e2, toA_getD]
    simp

/-- when `a` is at least as long as `t`, the pairs are the zipped lists -/
lemma pairs_eq_zip (t a : List Nat) (h : t.length ≤ a.length) :
    pairs t a t.length
      = (List.zip t (a.take t.length)).map fun p => ((p.1 : Int), (p.2 : Int)) := by
  unfold pairs
  apply List.ext_getElem
  · simp [h]
  · intro i h1 h2
    simp only [List.length_map, List.length_range] at h1
    have h3 : i < a.length := lt_of_lt_of_le h1 h
    simp [List.getD_eq_getElem?_getD, List.getElem?_eq_getElem h1, List.getElem?_eq_getElem h3]

lemma reverse_zip' (l l' : List Nat) (h : l.length = l'.length) :
    (List.zip l l').reverse = List.zip l.reverse l'.reverse :=
  List.reverse_zipWith h

/-- the loop over zipped `(t, a)` adds the greedy sum to `twoU` -/
lemma foldl_step_zip (r : Nat) (u : Int) (ts as : List Nat) :
    (((List.zip ts as).map fun p => ((p.1 : Int), (p.2 : Int))).foldl step ((r : Int), u)).2
      = u + ((greedy r ts as : Nat) : Int) := by
  induction ts generalizing r u as with
  | nil => simp [greedy]
  | cons t ts ih =>
    cases as with
    | nil => simp [greedy]
    | cons a as =>
      simp only [List.zip_cons_cons, List.map_cons, List.foldl_cons, greedy, step, minint_eq]
      have e : (r : Int) - min (r : Int) (t : Int) = ((r - min r t : Nat) : Int) := by
        rw [← Nat.cast_min, Nat.cast_sub (Nat.min_le_left r t)]
      rw [e, ih]
      push_cast
      ring

lemma twoUmin_unfold (n1 : Int) (T A : Array Int) :
    twoUmin n1 T A
      = (((intUp 1 ((T.size : Nat) + 1)).map
          (fun k => (T.getD (k - 1).toNat 0, A.getD k.toNat 0))).foldl step (n1, (-n1) * n1)).2 := by
  unfold twoUmin
  rw [List.foldl_map]
  rfl

lemma twoUmax_unfold (n1 : Int) (T A : Array Int) :
    twoUmax n1 T A
      = (((intDown (T.size : Nat) 0).map
          (fun k => (T.getD (k - 1).toNat 0, A.getD k.toNat 0))).foldl step (n1, (-n1) * n1)).2 := by
  unfold twoUmax
  rw [List.foldl_map]
  rfl

/-- Stronger form of `twoUmax_eq`: it suffices that the coefficient table `a[1..]` is at least as
long as the tie vector (the Go slice `a` is `0 :: a`). -/
theorem twoUmax_eq_of_le (n1 : Nat) (t a : List Nat) (h : t.length ≤ a.length) :
    twoUmax (n1 : Int) (toA t) (toA (0 :: a)) = MV.UDist.twoUmaxM n1 t a := by
  rw [twoUmax_unfold, intDown_map_pairs, pairs_eq_zip t a h, ← List.map_reverse,
    reverse_zip' _ _ (by simp [h]), foldl_step_zip]
  unfold MV.UDist.twoUmaxM
  push_cast
  ring

lemma greedy_take (r : Nat) (t a : List Nat) : greedy r t (a.take t.length) = greedy r t a := by
  induction t generalizing r a with
  | nil => simp [greedy]
  | cons x t ih =>
    cases a with
    | nil => simp [greedy]
    | cons y a => simp [greedy, ih]

lemma greedy_zeros (r : Nat) (t : List Nat) (m : Nat) : greedy r t (List.replicate m 0) = 0 := by
  induction t generalizing r m with
  | nil => simp [greedy]
  | cons x t ih =>
    cases m with
    | zero => simp [greedy]
    | succ m => simp [List.replicate_succ, greedy, ih]

lemma greedy_pad (r : Nat) (t a : List Nat) (m : Nat) :
    greedy r t (a ++ List.replicate m 0) = greedy r t a := by
  induction t generalizing r a with
  | nil => simp [greedy]
  | cons x t ih =>
    cases a with
    | nil => simp [greedy, greedy_zeros]
    | cons y a => simp [greedy, ih]

lemma pairs_pad (t a : List Nat) (m K : Nat) :
    pairs t (a ++ List.replicate m 0) K = pairs t a K := by
  unfold pairs
  apply List.map_congr_left
  intro i _
  have : (a ++ List.replicate m 0).getD i 0 = a.getD i 0 := by
    simp only [List.getD_eq_getElem?_getD, List.getElem?_append, List.getElem?_replicate]
    by_cases h1 : i < a.length
    · simp [h1]
    · have h2 : a[i]? = none := List.getElem?_eq_none (not_lt.mp h1)
      simp only [h1, h2, if_false]
      split <;> rfl
  rw [this]

/-- Stronger form of `twoUmin_eq`: no length hypothesis is needed at all (a too short coefficient
slice reads as zeros in Go and ends the greedy sum in the model; a too long one is ignored by
both). -/
theorem twoUmin_eq_general (n1 : Nat) (t a : List Nat) :
    twoUmin (n1 : Int) (toA t) (toA (0 :: a)) = MV.UDist.twoUminM n1 t a := by
  rw [twoUmin_unfold, intUp_map_pairs, ← pairs_pad t a (t.length - a.length),
    pairs_eq_zip _ _ (by simp only [List.length_append, List.length_replicate]; omega),
    foldl_step_zip, greedy_take, greedy_pad]
  unfold MV.UDist.twoUminM
  push_cast
  ring

example : twoUmin ((2 : Nat) : Int) (toA [1, 2, 1]) (toA (0 :: [1])) = -3 ∧
    twoUmin ((2 : Nat) : Int) (toA [1, 2, 1]) (toA (0 :: [1, 4, 7, 9])) = 1 := by
  rw [twoUmin_eq_general, twoUmin_eq_general]; decide

/-- The translated Go `twoUmin`, called with the remaining-count `n1`, the tie vector `t` and the
Go coefficient slice `0 :: a` (entry 0 unused) of matching length, returns the model's `twoUminM`
(greedy sum from the lowest rank minus `n1²`). -/
theorem twoUmin_eq (n1 : Nat) (t a : List Nat) (h : a.length = t.length) :
    twoUmin (n1 : Int) (toA t) (toA (0 :: a)) = MV.UDist.twoUminM n1 t a :=
  twoUmin_eq_general n1 t a

example : twoUmin 2 #[1, 2, 1] #[0, 1, 4, 7] = 1 ∧ MV.UDist.twoUminM 2 [1, 2, 1] [1, 4, 7] = 1 := by
  decide

example : twoUmin ((2 : Nat) : Int) (toA [1, 2, 1]) (toA (0 :: [1, 4, 7])) = 1 := by
  rw [twoUmin_eq 2 [1, 2, 1] [1, 4, 7] rfl]; decide

/-- The translated Go `twoUmax`, called with the remaining-count `n1`, the tie vector `t` and the
Go coefficient slice `0 :: a` (entry 0 unused) of matching length, returns the model's `twoUmaxM`
(greedy sum from the highest rank minus `n1²`). -/
theorem twoUmax_eq (n1 : Nat) (t a : List Nat) (h : a.length = t.length) :
    twoUmax (n1 : Int) (toA t) (toA (0 :: a)) = MV.UDist.twoUmaxM n1 t a :=
  twoUmax_eq_of_le n1 t a (le_of_eq h.symm)

example : twoUmax 2 #[1, 2, 1] #[0, 1, 4, 7] = 7 ∧ MV.UDist.twoUmaxM 2 [1, 2, 1] [1, 4, 7] = 7 := by
  decide

example : twoUmax ((2 : Nat) : Int) (toA [1, 2, 1]) (toA (0 :: [1, 4, 7])) = 7 := by
  rw [twoUmax_eq 2 [1, 2, 1] [1, 4, 7] rfl]; decide

/-- the hypothesis `t.length ≤ a.length` of `twoUmax_eq_of_le` cannot be dropped: with a too short
coefficient table the model reverses a misaligned list. -/
example : twoUmax 2 #[1, 2, 1] #[0, 1, 4] = 0 ∧ MV.UDist.twoUmaxM 2 [1, 2, 1] [1, 4] = 1 := by
  decide

/-! ## the coefficient table of the model -/

lemma aCoef_go_length (p q : Nat) (l : List Nat) : (aCoef.go p q l).length = l.length := by
  induction l generalizing p q with
  | nil => rfl
  | cons x l ih => simp [aCoef.go, ih]

lemma aCoef_length' (t : List Nat) : (aCoef t).length = t.length := by
  cases t with
  | nil => rfl
  | cons x t => simp [aCoef, aCoef_go_length]

/-- For every tie vector `t` and every `n1`, the translated Go `twoUmin` called with the Go
coefficient slice `0 :: aCoef t` returns the model's `twoUminM n1 t (aCoef t)`. -/
theorem twoUmin_aCoef (n1 : Nat) (t : List Nat) :
    twoUmin (n1 : Int) (toA t) (toA (0 :: aCoef t)) = MV.UDist.twoUminM n1 t (aCoef t) :=
  twoUmin_eq n1 t (aCoef t) (aCoef_length' t)

example : aCoef [1, 2, 1] = [1, 4, 7] ∧
    twoUmin ((2 : Nat) : Int) (toA [1, 2, 1]) (toA (0 :: aCoef [1, 2, 1])) = 1 := by
  refine ⟨by decide, ?_⟩
  rw [twoUmin_aCoef]; decide

/-- For every tie vector `t` and every `n1`, the translated Go `twoUmax` called with the Go
coefficient slice `0 :: aCoef t` returns the model's `twoUmaxM n1 t (aCoef t)`. -/
theorem twoUmax_aCoef (n1 : Nat) (t : List Nat) :
    twoUmax (n1 : Int) (toA t) (toA (0 :: aCoef t)) = MV.UDist.twoUmaxM n1 t (aCoef t) :=
  twoUmax_eq n1 t (aCoef t) (aCoef_length' t)

example : twoUmax ((2 : Nat) : Int) (toA [1, 2, 1]) (toA (0 :: aCoef [1, 2, 1])) = 7 := by
  rw [twoUmax_aCoef]; decide

end MV.Generated.Code
