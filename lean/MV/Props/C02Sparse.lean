import MV.Props.C02
/-!
# C02 — the sparse enumeration used for very large pools equals the dense model

`cdfSparse_eq_cdf`, `pmfAtSparse_eq_pmfAt`: for well-formed inputs the values computed from the
allocation vectors of the right sum (`allocsSum`) are the values of `cdf` / `pmfAt`, so the judge may use
either route.
-/
namespace MV.UDist
open Finset

lemma weightFast_eq (t r : List Nat) : weightFast t r = weight t r := by
  induction t generalizing r with
  | nil => simp [weightFast, weight]
  | cons a t ih =>
    cases r with
    | nil => simp [weightFast, weight]
    | cons b r => simp [weightFast, weight, chooseFast_eq, ih]

/-- summing over the vectors of sum `n` is summing over all vectors with the others weighted zero -/
lemma sum_allocsSum (t : List Nat) (n : Nat) (g : List Nat → Nat) :
    ((allocsSum t n).map g).sum = asum t (fun r => if r.sum = n then g r else 0) := by
  induction t generalizing n g with
  | nil =>
    rw [asum_nil]
    cases n <;> simp [allocsSum]
  | cons a t ih =>
    rw [allocsSum, sum_flatMap, sum_range_list, asum_cons]
    have hsub : range (min a n + 1) ⊆ range (a + 1) := by
      intro x hx; simp only [mem_range] at hx ⊢; omega
    rw [← sum_subset hsub]
    · apply sum_congr rfl
      intro r hr
      simp only [mem_range] at hr
      rw [List.map_map]
      have := ih (n - r) (fun rs => g (r :: rs))
      simp only [Function.comp_def]
      rw [this]
      apply asum_congr
      intro rs _
      have hrn : r ≤ n := by omega
      by_cases h : rs.sum = n - r
      · have h' : (r :: rs).sum = n := by simp only [List.sum_cons]; omega
        rw [if_pos h, if_pos h']
      · have h' : ¬ ((r :: rs).sum = n) := by simp only [List.sum_cons]; omega
        rw [if_neg h, if_neg h']
    · intro r hr hnr
      simp only [mem_range] at hr hnr
      refine Eq.trans (asum_congr _ _ (fun _ => 0) ?_) (asum_zero _)
      intro rs _
      have h' : ¬ ((r :: rs).sum = n) := by simp only [List.sum_cons]; omega
      rw [if_neg h']

theorem countSparse_eq (t : List Nat) (n1 : Nat) (k : Int) : countSparse t n1 k = countSpec t n1 k := by
  rw [countSpec_eq_asum]
  unfold countSparse
  rw [sumList_eq, sum_map_filter, sum_allocsSum]
  apply asum_congr
  intro r _
  by_cases h1 : r.sum = n1 <;> by_cases h2 : ((twoUof t r 0 : Nat) : Int) ≤ k <;> simp [h1, h2, weightFast_eq]

theorem countEqSparse_eq (t : List Nat) (n1 : Nat) (k : Int) : countEqSparse t n1 k = countEq t n1 k := by
  rw [countEq_eq_asum]
  unfold countEqSparse
  rw [sumList_eq, sum_map_filter, sum_allocsSum]
  apply asum_congr
  intro r _
  by_cases h1 : r.sum = n1 <;> by_cases h2 : ((twoUof t r 0 : Nat) : Int) = k <;> simp [h1, h2, weightFast_eq]

/-- **Sparse route = dense model (CDF).** -/
theorem cdfSparse_eq_cdf (n1 n2 : Nat) (t : List Nat) (u : Rat)
    (hN : sumList (effT n1 n2 t) = n1 + n2) :
    cdfSparse n1 n2 t u = cdf n1 n2 t u := by
  by_cases hu : u < 0
  · simp [cdfSparse, cdf, hu]
  · have hu' : 0 ≤ u := le_of_not_gt hu
    rw [cdf_eq_countSpec n1 n2 t u hN hu']
    simp [cdfSparse, hu, countSparse_eq, chooseFast_eq, choose_eq_nat]

/-- **Sparse route = dense model (point mass).** -/
theorem pmfAtSparse_eq_pmfAt (n1 n2 : Nat) (t : List Nat) (twoU : Int)
    (hN : sumList (effT n1 n2 t) = n1 + n2) :
    pmfAtSparse n1 n2 t twoU = pmfAt n1 n2 t twoU := by
  rw [pmfAt_eq_countEq n1 n2 t twoU hN]
  simp [pmfAtSparse, countEqSparse_eq, chooseFast_eq, choose_eq_nat]

example : cdfSparse 2 3 [2, 1, 2] (5 / 2) = cdf 2 3 [2, 1, 2] (5 / 2) := by
  apply cdfSparse_eq_cdf; decide

end MV.UDist
