import Mathlib.Tactic
import MV.Model.MWU
import MV.Props.C01
/-!
# C03 — Mann-Whitney U: sample swap, error characterisation, approximate-branch symmetry
-/
namespace MV.MWU
open MV.UDist

/-! ## swapping the samples -/

lemma wt_add_wt (a b : Rat) : wt a b + wt b a = 1 := by
  unfold wt
  rcases lt_trichotomy a b with h | h | h
  · simp [h, not_lt.2 (le_of_lt h), ne_of_lt h, ne_of_gt h]
  · subst h; simp; norm_num
  · simp [h, not_lt.2 (le_of_lt h), ne_of_lt h, ne_of_gt h]

lemma pairU_nil_left (x : List Rat) : pairU [] x = 0 := by simp [pairU_eq_sum]
lemma pairU_nil_right (x : List Rat) : pairU x [] = 0 := by simp [pairU_eq_sum]

lemma pairU_cons_left (a : Rat) (x1 x2 : List Rat) :
    pairU (a :: x1) x2 = (x2.map (wt a)).sum + pairU x1 x2 := by
  simp [pairU_eq_sum]

lemma pairU_cons_right (a : Rat) (x1 x2 : List Rat) :
    pairU x2 (a :: x1) = (x2.map fun b => wt b a).sum + pairU x2 x1 := by
  simp only [pairU_eq_sum, List.map_cons, List.sum_cons, List.sum_map_add]

/-- Swapping the two samples turns U into n1·n2 − U. -/
theorem pairU_swap (x1 x2 : List Rat) :
    pairU x2 x1 = ((x1.length * x2.length : Nat) : Rat) - pairU x1 x2 := by
  induction x1 with
  | nil => simp [pairU_nil_left, pairU_nil_right]
  | cons a x1 ih =>
    rw [pairU_cons_left, pairU_cons_right, ih]
    have : (x2.map fun b => wt b a).sum = (x2.length : Rat) - (x2.map (wt a)).sum := by
      rw [eq_sub_iff_add_eq, ← List.sum_map_add]
      simp [wt_add_wt]
    rw [this]
    simp only [List.length_cons]
    push_cast
    ring

example : pairU [2, 1, 7] [3, 1, 1, 5 / 2] = ((4 * 3 : Nat) : Rat) - pairU [3, 1, 1, 5 / 2] [2, 1, 7] :=
  pairU_swap [3, 1, 1, 5 / 2] [2, 1, 7]

/-- Swapping the two samples turns the U computed from mid-ranks into n1·n2 − U. -/
theorem uFromRanks_swap (x1 x2 : List Rat) :
    uFromRanks x2 x1 = ((x1.length * x2.length : Nat) : Rat) - uFromRanks x1 x2 := by
  rw [uFromRanks_eq_pairU, uFromRanks_eq_pairU, pairU_swap]

example : uFromRanks [2, 1, 7] [3, 1, 1] = ((3 * 3 : Nat) : Rat) - uFromRanks [3, 1, 1] [2, 1, 7] :=
  uFromRanks_swap _ _

/-! ## error characterisation -/

/-- There is exactly one tie group iff all pooled observations are equal. -/
theorem tieGroups_length_one_iff (x1 x2 : List Rat) (h : x1 ++ x2 ≠ []) :
    (tieGroups x1 x2).length = 1 ↔ ∀ a ∈ x1 ++ x2, ∀ b ∈ x1 ++ x2, a = b := by
  unfold tieGroups
  rw [List.length_map]
  have hnd := distinctSorted_nodup (x1 ++ x2)
  have hmem := mem_distinctSorted (x1 ++ x2)
  constructor
  · intro hl a ha b hb
    obtain ⟨d, hd⟩ := List.length_eq_one_iff.1 hl
    rw [← hmem, hd] at ha hb
    simp only [List.mem_singleton] at ha hb
    rw [ha, hb]
  · intro hall
    obtain ⟨c, hc⟩ := List.exists_mem_of_ne_nil _ h
    generalize distinctSorted (x1 ++ x2) = D at hnd hmem
    match D, hnd, hmem with
    | [], _, hmem => exact absurd ((hmem c).2 hc) (by simp)
    | [d], _, _ => rfl
    | d :: e :: r, hnd, hmem =>
      have hd : d ∈ x1 ++ x2 := (hmem d).1 (by simp)
      have he : e ∈ x1 ++ x2 := (hmem e).1 (by simp)
      have := hall d hd e he
      subst this
      simp at hnd

example : (tieGroups [5, 5] [5]).length = 1 :=
  (tieGroups_length_one_iff [5, 5] [5] (by simp)).2 (by simp)

example : (tieGroups [5, 4] [5]).length ≠ 1 := fun h => by
  have := (tieGroups_length_one_iff [5, 4] [5] (by simp)).1 h 5 (by simp) 4 (by simp)
  norm_num at this

/-- The test reports the sample-size error exactly when one of the samples is empty. -/
theorem mwuTest_errSize_iff (x1 x2 : List Rat) (alt : Alt) (el tl : Int) :
    mwuTest x1 x2 alt el tl = .errSize ↔ x1 = [] ∨ x2 = [] := by
  unfold mwuTest
  simp only [List.length_eq_zero_iff]
  by_cases h : x1 = [] ∨ x2 = []
  · simp [h]
  · simp only [h, if_false, iff_false]
    split_ifs <;> simp

example : mwuTest [] [1, 2] .less 50 25 = .errSize := (mwuTest_errSize_iff _ _ _ _ _).2 (Or.inl rfl)

/-! ### the variance vanishes iff there is one tie group -/

lemma le_cube (x : Nat) : x ≤ x * x * x := by
  rcases Nat.eq_zero_or_pos x with rfl | h
  · simp
  · nlinarith [Nat.mul_le_mul h h]

lemma tieCorr_add (t : List Nat) : tieCorr t + t.sum = (t.map fun x => x ^ 3).sum := by
  unfold tieCorr
  rw [← List.sum_eq_foldl]
  induction t with
  | nil => simp
  | cons a t ih =>
    simp only [List.map_cons, List.sum_cons]
    have := le_cube a
    have h3 : a ^ 3 = a * a * a := by ring
    omega

lemma sum_cubes_le (t : List Nat) : (t.map fun x => x ^ 3).sum ≤ t.sum ^ 3 := by
  induction t with
  | nil => simp
  | cons a t ih =>
    simp only [List.map_cons, List.sum_cons]
    have : (a + t.sum) ^ 3 = a ^ 3 + t.sum ^ 3 + (3 * a ^ 2 * t.sum + 3 * a * t.sum ^ 2) := by ring
    omega

lemma sum_cubes_lt (a b : Nat) (r : List Nat) (ha : 0 < a) (hb : 0 < b) :
    ((a :: b :: r).map fun x => x ^ 3).sum < (a :: b :: r).sum ^ 3 := by
  have h := sum_cubes_le (b :: r)
  have hS : 0 < (b :: r).sum := by simp only [List.sum_cons]; omega
  rw [List.map_cons, List.sum_cons, List.sum_cons]
  generalize (b :: r).sum = S at h hS ⊢
  generalize ((b :: r).map fun x => x ^ 3).sum = C at h ⊢
  have : (a + S) ^ 3 = a ^ 3 + S ^ 3 + (3 * a ^ 2 * S + 3 * a * S ^ 2) := by ring
  have : 0 < 3 * a ^ 2 * S + 3 * a * S ^ 2 := by positivity
  omega

lemma var_key (N C tc : Nat) (h2 : 2 ≤ N) (hC : tc + N = C) :
    ((N : Rat) + 1) - (tc : Rat) / ((N : Rat) * ((N : Rat) - 1)) = 0 ↔ C = N ^ 3 := by
  have hNq : (2 : Rat) ≤ (N : Rat) := by exact_mod_cast h2
  have hne : (N : Rat) * ((N : Rat) - 1) ≠ 0 := by
    apply mul_ne_zero <;> linarith
  have hCq : (tc : Rat) = (C : Rat) - (N : Rat) := by
    rw [← hC]; push_cast; ring
  rw [hCq, sub_eq_zero, eq_div_iff hne]
  constructor
  · intro h
    have : (C : Rat) = ((N ^ 3 : Nat) : Rat) := by push_cast; linarith
    exact_mod_cast this
  · intro h; rw [h]; push_cast; ring

/-- With `t` a vector of positive tie-group sizes summing to N ≥ 2, the variance factor
(N+1) − Σ(t³−t)/(N(N−1)) of the normal approximation is zero iff there is exactly one group. -/
theorem var_zero_iff (t : List Nat) (hpos : ∀ x ∈ t, 0 < x) (N : Nat) (hN : t.sum = N)
    (h2 : 2 ≤ N) :
    ((N : Rat) + 1) - (tieCorr t : Rat) / ((N : Rat) * ((N : Rat) - 1)) = 0 ↔ t.length = 1 := by
  rw [var_key N _ _ h2 (hN ▸ tieCorr_add t)]
  constructor
  · intro h
    match t, hpos, hN, h with
    | [], _, hN, _ => simp at hN; omega
    | [_], _, _, _ => rfl
    | a :: b :: r, hpos, hN, h =>
      have := sum_cubes_lt a b r (hpos a (by simp)) (hpos b (by simp))
      rw [hN] at this
      omega
  · intro h
    obtain ⟨x, rfl⟩ := List.length_eq_one_iff.1 h
    simp at hN ⊢
    rw [hN]

example : ((5 : Nat) : Rat) + 1 - (tieCorr [5] : Rat) / (((5 : Nat) : Rat) * (((5 : Nat) : Rat) - 1)) = 0 :=
  (var_zero_iff [5] (by simp) 5 rfl (by norm_num)).2 rfl

example : ((5 : Nat) : Rat) + 1 - (tieCorr [2, 3] : Rat) / (((5 : Nat) : Rat) * (((5 : Nat) : Rat) - 1)) ≠ 0 :=
  fun h => by simpa using (var_zero_iff [2, 3] (by simp) 5 rfl (by norm_num)).1 h


/-! ### the tie vector of actual samples -/

lemma tvec_length (x1 x2 : List Rat) :
    ((tieGroups x1 x2).map (·.1)).length = (tieGroups x1 x2).length := by simp

lemma tvec_pos (x1 x2 : List Rat) : ∀ x ∈ (tieGroups x1 x2).map (·.1), 0 < x := by
  intro x hx
  unfold tieGroups at hx
  simp only [List.map_map, List.mem_map, Function.comp_apply] at hx
  obtain ⟨v, hv, rfl⟩ := hx
  rw [mem_distinctSorted] at hv
  rw [← countEq_append]
  exact countEq_pos_of_mem hv

lemma tvec_sum (x1 x2 : List Rat) :
    ((tieGroups x1 x2).map (·.1)).sum = x1.length + x2.length := by
  have hnd := distinctSorted_nodup (x1 ++ x2)
  have h1 : ∀ a ∈ x1, a ∈ distinctSorted (x1 ++ x2) := fun a ha => by
    rw [mem_distinctSorted]; simp [ha]
  have h2 : ∀ a ∈ x2, a ∈ distinctSorted (x1 ++ x2) := fun a ha => by
    rw [mem_distinctSorted]; simp [ha]
  have : ((((tieGroups x1 x2).map (·.1)).sum : Nat) : Rat) = ((x1.length + x2.length : Nat) : Rat) := by
    rw [Nat.cast_add, length_eq_sum_countEq _ hnd x1 h1, length_eq_sum_countEq _ hnd x2 h2,
      ← List.sum_map_add, Nat.cast_list_sum]
    unfold tieGroups
    simp [List.map_map, Function.comp_def]
  exact_mod_cast this

lemma tvec_swap (x1 x2 : List Rat) :
    (tieGroups x2 x1).map (·.1) = (tieGroups x1 x2).map (·.1) := by
  unfold tieGroups
  rw [distinctSorted_perm (List.perm_append_comm : (x2 ++ x1).Perm (x1 ++ x2))]
  simp [List.map_map, Function.comp_def, Nat.add_comm]

/-- For two non-empty samples the test reports the all-equal error exactly when all pooled
observations are equal — whichever branch (exact or normal approximation) the two limits select. -/
theorem mwuTest_errEqual_iff (x1 x2 : List Rat) (h1 : x1 ≠ []) (h2 : x2 ≠ []) (alt : Alt)
    (el tl : Int) :
    mwuTest x1 x2 alt el tl = .errEqual ↔ ∀ a ∈ x1 ++ x2, ∀ b ∈ x1 ++ x2, a = b := by
  rw [← tieGroups_length_one_iff x1 x2 (by simp [h1])]
  have hn1 : 0 < x1.length := List.length_pos_of_ne_nil h1
  have hn2 : 0 < x2.length := List.length_pos_of_ne_nil h2
  have hvar := var_zero_iff _ (tvec_pos x1 x2) (x1.length + x2.length) (tvec_sum x1 x2) (by omega)
  have hprod : ((x1.length * x2.length : Nat) : Rat) ≠ 0 := by
    have : 0 < x1.length * x2.length := Nat.mul_pos hn1 hn2
    exact_mod_cast this.ne'
  unfold mwuTest
  dsimp only
  rw [if_neg (by omega)]
  simp only [List.length_map] at hvar ⊢
  split_ifs with hA hB hC
  · simp [hB]
  · simp [hB]
  · simp only [beq_iff_eq, div_eq_zero_iff, mul_eq_zero, hprod, false_or] at hC
    rcases hC with hC | hC
    · simp [hvar.1 hC]
    · norm_num at hC
  · simp only [beq_iff_eq, div_eq_zero_iff, mul_eq_zero, hprod, false_or, not_or] at hC
    simp only [reduceCtorEq, false_iff]
    intro hl
    exact hC.1 (hvar.2 hl)

example : mwuTest [5, 5] [5] .less 50 25 = .errEqual :=
  (mwuTest_errEqual_iff [5, 5] [5] (by simp) (by simp) _ _ _).2 (by simp)

example : mwuTest [5, 5] [5] .less 0 0 = .errEqual :=
  (mwuTest_errEqual_iff [5, 5] [5] (by simp) (by simp) _ _ _).2 (by simp)

example : mwuTest [5, 4] [5] .differs 0 0 ≠ .errEqual := fun h => by
  have := (mwuTest_errEqual_iff [5, 4] [5] (by simp) (by simp) _ _ _).1 h 5 (by simp) 4 (by simp)
  norm_num at this


/-! ## approximate branch under sample swap -/

/-- mirror image of an alternative: `less ↔ greater`, `differs` fixed -/
def Alt.mirror : Alt → Alt
  | .less => .greater
  | .greater => .less
  | .differs => .differs

/-- In the normal-approximation branch, swapping the samples and mirroring the alternative
(less ↔ greater, differs fixed) again lands in the approximation branch, with U replaced by
n1·n2 − U, the continuity-corrected numerator negated and the variance unchanged.  Hence for any Φ
with Φ(−z) = 1 − Φ(z) the one-sided p-values are exchanged and the two-sided one is preserved. -/
theorem numer_swap (x1 x2 : List Rat) (alt : Alt) (el tl : Int) (n1 n2 : Nat) (u numer var : Rat)
    (h : mwuTest x1 x2 alt el tl = .approx n1 n2 u numer var) :
    mwuTest x2 x1 alt.mirror el tl
      = .approx n2 n1 (((n1 * n2 : Nat) : Rat) - u) (-numer) var := by
  unfold mwuTest at h ⊢
  dsimp only at h ⊢
  rw [tvec_swap x1 x2, uFromRanks_swap x1 x2, Nat.add_comm x2.length x1.length,
    Nat.mul_comm x2.length x1.length]
  split at h
  · exact absurd h (by simp)
  rename_i hA
  split at h
  · split at h <;> exact absurd h (by simp)
  rename_i hB
  split at h
  · exact absurd h (by simp)
  rename_i hD
  simp only [Res.approx.injEq] at h
  obtain ⟨rfl, rfl, rfl, rfl, rfl⟩ := h
  rw [if_neg (by omega)]
  have hB' : ((!hasTies ((tieGroups x1 x2).map (·.1)) && decide ((x2.length : Int) ≤ el)
        && decide ((x1.length : Int) ≤ el)) ||
      (hasTies ((tieGroups x1 x2).map (·.1)) && decide ((x2.length : Int) ≤ tl)
        && decide ((x1.length : Int) ≤ tl))) ≠ true := by
    rw [Bool.and_right_comm, Bool.and_right_comm (hasTies _)]
    exact hB
  rw [if_neg hB', if_neg hD]
  simp only [Res.approx.injEq, true_and, and_true]
  cases alt
  · simp only [Alt.mirror]; ring
  · simp only [Alt.mirror]
    split_ifs <;> first | ring1 | (exfalso; linarith)
  · simp only [Alt.mirror]; ring

deriving instance DecidableEq for Res

example : mwuTest [2, 1, 7] [3, 1, 1, 5 / 2] .greater 0 0
    = .approx 3 4 (((4 * 3 : Nat) : Rat) - 5) (-(-1 / 2)) (52 / 7) :=
  numer_swap [3, 1, 1, 5 / 2] [2, 1, 7] .less 0 0 4 3 5 (-1 / 2) (52 / 7) (by decide +kernel)


/-- the three approximate p-values as functions of an abstract tail function `Φ numer var`
(standing for the normal CDF at `numer / √var`) -/
def approxP (Φ : Rat → Rat → Rat) (alt : Alt) (numer var : Rat) : Rat :=
  match alt with
  | .less => Φ numer var
  | .greater => 1 - Φ numer var
  | .differs => 2 * min (Φ numer var) (1 - Φ numer var)

/-- For any Φ with Φ(−z) = 1 − Φ(z): negating the numerator and mirroring the alternative exchanges
the one-sided p-values and preserves the two-sided one (combine with `numer_swap`). -/
theorem approxP_swap (Φ : Rat → Rat → Rat) (hΦ : ∀ n v, Φ (-n) v = 1 - Φ n v) (alt : Alt)
    (numer var : Rat) : approxP Φ alt.mirror (-numer) var = approxP Φ alt numer var := by
  cases alt <;> simp [approxP, Alt.mirror, hΦ, min_comm]

example : approxP (fun n _ => 1 / 2 + n / (2 * (1 + |n|))) .greater (-(3 / 2)) 7
    = approxP (fun n _ => 1 / 2 + n / (2 * (1 + |n|))) .less (3 / 2) 7 :=
  approxP_swap _ (fun n v => by simp only [abs_neg]; ring) .less (3 / 2) 7

end MV.MWU
