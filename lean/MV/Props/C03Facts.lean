import MV.Props.FactsLib
/-! Source facts the C03 model relies on (checked against the facts regenerated from /repo on every run). -/
namespace MV.Facts

def expectedC03 : List (String × String) := [("stats.MannWhitneyExactLimit", "50"), ("stats.MannWhitneyTiesExactLimit", "25")]

/-- the constants and literals the C03 model mirrors are still what the source says -/
theorem facts_C03 : holdsAll expectedC03 = true := by decide

end MV.Facts
