import MV.Props.C02
/-!
# C03 — moments of the exact Mann-Whitney null distribution (`MV.UDist`)

The normal approximation of the Mann-Whitney test uses mean `n1·n2/2` and variance
`n1·n2/12 · ((N+1) − Σ_k (t_k³ − t_k)/(N(N−1)))`.  This file proves that these are exactly the
mean and the variance of the exact distribution defined by the model (`countEq`), for every tie
vector, in division-free integer form (with `2U` instead of `U`).

Property theorems (keyword `theorem`):

* `twoU_mean_alloc`, `twoU_mean`            : `Σ_v v · countEq t n1 v = n1·n2·C(N,n1)`
* `twoU_second_moment_alloc`, `twoU_variance_tied` : the second moment, any tie vector, `N ≥ 2`
* `twoU_second_moment_untied`               : the untied case `t = [1,…,1]`, every `N`
* `tie_correction_le`                       : `Σ(t³−t) + N ≤ N³` (the subtraction in the statements is exact)
* `U_mean_pmf`, `U_variance_pmf`            : the same, for the API-level masses `pmfAt`, in `ℚ`

Method: `2U + n1(n1+1) = Σ_k r_k (2 B_k + t_k + 1)` (twice the midrank sum), a *linear* statistic
of the allocation; its generating polynomials `Σ_r weight(r) · W(r)^k · X^(Σ r)` (k = 0,1,2) have
closed forms, proved by induction over the tie groups.
-/
namespace MV.UDist
open Finset Polynomial

/-! ## sums over allocations with values in any commutative monoid -/

/-- sum of `g` over all allocation vectors of `ts` (any additive commutative monoid) -/
def gsum {M : Type} [AddCommMonoid M] (ts : List Nat) (g : List Nat → M) : M := ((allocs ts).map g).sum

lemma asum_eq_gsum (ts : List Nat) (g : List Nat → Nat) : asum ts g = gsum ts g := rfl

section
variable {M : Type} [AddCommMonoid M]

lemma gsum_nil (g : List Nat → M) : gsum [] g = g [] := by simp [gsum, allocs]

lemma gsum_flatMap {α β : Type} (L : List α) (F : α → List β) (g : β → M) :
    ((L.flatMap F).map g).sum = (L.map fun a => ((F a).map g).sum).sum := by
  induction L with
  | nil => simp
  | cons a L ih => simp [List.flatMap_cons, ih]

lemma gsum_range_list (f : Nat → M) (n : Nat) : ((List.range n).map f).sum = ∑ i ∈ range n, f i := by
  induction n with
  | zero => simp
  | succ n ih => simp [List.range_succ, sum_range_succ, ih]

lemma gsum_cons (t : Nat) (ts : List Nat) (g : List Nat → M) :
    gsum (t :: ts) g = ∑ r ∈ range (t + 1), gsum ts (fun rs => g (r :: rs)) := by
  unfold gsum
  rw [allocs, gsum_flatMap, gsum_range_list]
  apply sum_congr rfl
  intro r _
  rw [List.map_map]; rfl

lemma gsum_congr (ts : List Nat) (g g' : List Nat → M) (h : ∀ rs ∈ allocs ts, g rs = g' rs) :
    gsum ts g = gsum ts g' := by
  unfold gsum
  rw [List.map_congr_left h]

lemma gsum_add (ts : List Nat) (g h : List Nat → M) :
    gsum ts (fun rs => g rs + h rs) = gsum ts g + gsum ts h := by
  unfold gsum
  induction (allocs ts) with
  | nil => simp
  | cons a L ih => simp only [List.map_cons, List.sum_cons, ih]; abel

lemma gsum_zero (ts : List Nat) : gsum ts (fun _ => (0 : M)) = 0 := by
  unfold gsum
  induction (allocs ts) with
  | nil => simp
  | cons a L ih => simp

end

lemma gsum_mul_left {R : Type} [Semiring R] (ts : List Nat) (c : R) (g : List Nat → R) :
    gsum ts (fun rs => c * g rs) = c * gsum ts g := by
  unfold gsum
  induction (allocs ts) with
  | nil => simp
  | cons a L ih => simp [ih, mul_add]

lemma gsum_map {M N : Type} [AddCommMonoid M] [AddCommMonoid N] (φ : M →+ N) (ts : List Nat)
    (g : List Nat → M) : φ (gsum ts g) = gsum ts (fun rs => φ (g rs)) := by
  unfold gsum
  induction (allocs ts) with
  | nil => simp
  | cons a L ih => simp [ih]

lemma gsum_natCast (ts : List Nat) (g : List Nat → Nat) :
    ((asum ts g : Nat) : ℤ) = gsum ts (fun rs => ((g rs : Nat) : ℤ)) :=
  gsum_map (Nat.castAddMonoidHom ℤ) ts g

/-! ## binomial sums `Σ_r C(t,r) r^j X^r` -/

/-- Pascal's rule under a sum -/
lemma pascal_sum {R : Type} [CommRing R] (t : Nat) (f : Nat → R) :
    ∑ r ∈ range (t + 2), (Nat.choose (t + 1) r : R) * f r
      = ∑ r ∈ range (t + 1), (Nat.choose t r : R) * f r
        + ∑ r ∈ range (t + 1), (Nat.choose t r : R) * f (r + 1) := by
  rw [sum_range_succ' _ (t + 1)]
  have h1 : ∀ r ∈ range (t + 1), (Nat.choose (t + 1) (r + 1) : R) * f (r + 1)
      = (Nat.choose t r : R) * f (r + 1) + (Nat.choose t (r + 1) : R) * f (r + 1) := by
    intro r _
    rw [Nat.choose_succ_succ]; push_cast; ring
  rw [sum_congr rfl h1, sum_add_distrib]
  have h2 : ∑ r ∈ range (t + 1), (Nat.choose t (r + 1) : R) * f (r + 1) + (Nat.choose (t + 1) 0 : R) * f 0
      = ∑ r ∈ range (t + 1), (Nat.choose t r : R) * f r := by
    have := sum_range_succ' (fun r => (Nat.choose t r : R) * f r) (t + 1)
    rw [sum_range_succ (fun r => (Nat.choose t r : R) * f r) (t + 1)] at this
    simp only [Nat.choose_succ_self, Nat.cast_zero, zero_mul, add_zero, Nat.choose_zero_right] at this ⊢
    rw [this]
  rw [add_assoc, h2, add_comm]

/-- `S j t = Σ_r C(t,r) r^j X^r` -/
noncomputable def S (j t : Nat) : ℤ[X] := ∑ r ∈ range (t + 1), (Nat.choose t r : ℤ[X]) * ((r : ℤ[X]) ^ j * X ^ r)

lemma S_succ0 (t : Nat) : S 0 (t + 1) = (1 + X) * S 0 t := by
  unfold S
  rw [pascal_sum, add_mul, one_mul, mul_sum]
  congr 1
  apply sum_congr rfl; intro r _; ring

lemma S_succ1 (t : Nat) : S 1 (t + 1) = (1 + X) * S 1 t + X * S 0 t := by
  unfold S
  rw [pascal_sum]
  simp only [add_mul, one_mul, mul_sum, ← sum_add_distrib]
  apply sum_congr rfl; intro r _; push_cast; ring

lemma S_succ2 (t : Nat) : S 2 (t + 1) = (1 + X) * S 2 t + 2 * X * S 1 t + X * S 0 t := by
  unfold S
  rw [pascal_sum]
  simp only [add_mul, one_mul, mul_sum, ← sum_add_distrib]
  apply sum_congr rfl; intro r _; push_cast; ring

lemma S0_eq (t : Nat) : S 0 t = (1 + X) ^ t := by
  induction t with
  | zero => simp [S]
  | succ t ih => rw [S_succ0, ih, pow_succ]; ring

lemma S1_eq (t : Nat) : (1 + X) * S 1 t = (t : ℤ[X]) * X * (1 + X) ^ t := by
  induction t with
  | zero => simp [S]
  | succ t ih =>
    rw [S_succ1, S0_eq]
    push_cast
    linear_combination (1 + X) * ih

lemma S2_eq (t : Nat) :
    (1 + X) ^ 2 * S 2 t
      = (t : ℤ[X]) * X * (1 + X) ^ (t + 1) + (t : ℤ[X]) * ((t : ℤ[X]) - 1) * X ^ 2 * (1 + X) ^ t := by
  induction t with
  | zero => simp [S]
  | succ t ih =>
    rw [S_succ2, S0_eq]
    push_cast
    linear_combination (1 + X) * ih + 2 * X * (1 + X) * S1_eq t

/-! ## the midrank statistic and its generating polynomials -/

/-- twice the midrank sum of sample 1: `Σ_k r_k (2 B_k + t_k + 1)`, where `B_k` = number of pooled
items in earlier groups (starting from `B`) -/
def linM : Nat → List Nat → List Nat → Nat
  | B, t :: ts, r :: rs => r * (2 * B + t + 1) + linM (B + t) ts rs
  | _, _, _ => 0

/-- `Σ_k t_k c_k` with `c_k = 2 B_k + t_k + 1` -/
def AM : Nat → List Nat → Nat
  | B, t :: ts => t * (2 * B + t + 1) + AM (B + t) ts
  | _, [] => 0

/-- `Σ_k t_k c_k²` -/
def QM : Nat → List Nat → Nat
  | B, t :: ts => t * (2 * B + t + 1) ^ 2 + QM (B + t) ts
  | _, [] => 0

/-- `G k B ts = Σ_r weight(r) · W(r)^k · X^(Σ r)` -/
noncomputable def G (k B : Nat) (ts : List Nat) : ℤ[X] :=
  gsum ts (fun r => (weight ts r : ℤ[X]) * ((linM B ts r : ℤ[X]) ^ k * X ^ r.sum))

lemma G_nil (k B : Nat) : G k B [] = if k = 0 then 1 else 0 := by
  unfold G
  rw [gsum_nil]
  by_cases hk : k = 0
  · subst hk; simp [weight]
  · simp [weight, linM, hk]

lemma G_cons0 (B t : Nat) (ts : List Nat) : G 0 B (t :: ts) = S 0 t * G 0 (B + t) ts := by
  unfold G S
  rw [gsum_cons]
  simp only [sum_mul]
  apply sum_congr rfl
  intro r _
  simp only [← gsum_mul_left]
  apply gsum_congr
  intro rs _
  simp only [weight, List.sum_cons, choose_eq_nat]
  push_cast
  ring

lemma G_cons1 (B t : Nat) (ts : List Nat) :
    G 1 B (t :: ts) = ((2 * B + t + 1 : Nat) : ℤ[X]) * S 1 t * G 0 (B + t) ts + S 0 t * G 1 (B + t) ts := by
  unfold G S
  rw [gsum_cons]
  simp only [mul_sum, sum_mul, ← sum_add_distrib]
  apply sum_congr rfl
  intro r _
  simp only [← gsum_mul_left, ← gsum_add]
  apply gsum_congr
  intro rs _
  simp only [weight, linM, List.sum_cons, choose_eq_nat]
  push_cast
  ring

lemma G_cons2 (B t : Nat) (ts : List Nat) :
    G 2 B (t :: ts) = ((2 * B + t + 1 : Nat) : ℤ[X]) ^ 2 * S 2 t * G 0 (B + t) ts
      + 2 * ((2 * B + t + 1 : Nat) : ℤ[X]) * S 1 t * G 1 (B + t) ts + S 0 t * G 2 (B + t) ts := by
  unfold G S
  rw [gsum_cons]
  simp only [mul_sum, sum_mul, ← sum_add_distrib]
  apply sum_congr rfl
  intro r _
  simp only [← gsum_mul_left, ← gsum_add]
  apply gsum_congr
  intro rs _
  simp only [weight, linM, List.sum_cons, choose_eq_nat]
  push_cast
  ring

lemma G0_eq (B : Nat) (ts : List Nat) : G 0 B ts = (1 + X) ^ ts.sum := by
  induction ts generalizing B with
  | nil => simp [G_nil]
  | cons t ts ih => rw [G_cons0, ih, S0_eq, List.sum_cons, pow_add]

lemma G1_eq (B : Nat) (ts : List Nat) :
    (1 + X) * G 1 B ts = (AM B ts : ℤ[X]) * X * (1 + X) ^ ts.sum := by
  induction ts generalizing B with
  | nil => simp [G_nil, AM]
  | cons t ts ih =>
    rw [G_cons1, G0_eq, S0_eq, List.sum_cons, AM]
    push_cast
    linear_combination ((2 * (B : ℤ[X]) + t + 1) * (1 + X) ^ ts.sum) * S1_eq t + (1 + X) ^ t * ih (B + t)

lemma G2_eq (B : Nat) (ts : List Nat) :
    (1 + X) ^ 2 * G 2 B ts = (QM B ts : ℤ[X]) * X * (1 + X) ^ (ts.sum + 1)
      + ((AM B ts : ℤ[X]) ^ 2 - (QM B ts : ℤ[X])) * X ^ 2 * (1 + X) ^ ts.sum := by
  induction ts generalizing B with
  | nil => simp [G_nil, AM, QM]
  | cons t ts ih =>
    rw [G_cons2, G0_eq, S0_eq, List.sum_cons, AM, QM]
    push_cast
    linear_combination ((2 * (B : ℤ[X]) + t + 1) ^ 2 * (1 + X) ^ ts.sum) * S2_eq t
      + (2 * (2 * (B : ℤ[X]) + t + 1) * ((1 + X) * G 1 (B + t) ts)) * S1_eq t
      + (2 * (2 * (B : ℤ[X]) + t + 1) * ((t : ℤ[X]) * X * (1 + X) ^ t)) * G1_eq (B + t) ts
      + (1 + X) ^ t * ih (B + t)

/-- coefficient extraction -/
lemma coeff_G (k B : Nat) (ts : List Nat) (n : Nat) :
    (G k B ts).coeff n
      = gsum ts (fun r => if r.sum = n then ((weight ts r * linM B ts r ^ k : Nat) : ℤ) else 0) := by
  unfold G
  have := gsum_map (lcoeff ℤ n).toAddMonoidHom ts
    (fun r => (weight ts r : ℤ[X]) * ((linM B ts r : ℤ[X]) ^ k * X ^ r.sum))
  simp only [LinearMap.toAddMonoidHom_coe, lcoeff_apply] at this
  rw [this]
  apply gsum_congr
  intro r _
  have e : (weight ts r : ℤ[X]) * ((linM B ts r : ℤ[X]) ^ k * X ^ r.sum)
      = C ((weight ts r * linM B ts r ^ k : Nat) : ℤ) * X ^ r.sum := by
    simp only [Nat.cast_mul, Nat.cast_pow, C_mul, C_pow, map_natCast]
    ring
  rw [e, coeff_C_mul_X_pow]
  by_cases h : r.sum = n
  · simp [h]
  · have : ¬ n = r.sum := fun h' => h h'.symm
    simp [h, this]

/-! ## closed forms of `Σ t_k c_k`, `Σ t_k c_k²` -/

/-- the tie correction `Σ_k (t_k³ − t_k)` -/
def tau (ts : List Nat) : Nat := (ts.map fun k => k ^ 3 - k).sum

lemma le_cube (k : Nat) : k ≤ k ^ 3 := by
  rcases Nat.eq_zero_or_pos k with h | h
  · subst h; simp
  · calc k = k * 1 := (Nat.mul_one k).symm
      _ ≤ k * k ^ 2 := Nat.mul_le_mul_left k (Nat.one_le_pow _ _ h)
      _ = k ^ 3 := by ring

lemma tau_cons (t : Nat) (ts : List Nat) : ((tau (t :: ts) : Nat) : ℤ) = (t : ℤ) ^ 3 - t + tau ts := by
  unfold tau
  simp only [List.map_cons, List.sum_cons]
  push_cast [le_cube t]
  ring

lemma AM_eq (B : Nat) (ts : List Nat) :
    ((AM B ts : Nat) : ℤ) = ((B : ℤ) + ts.sum) * ((B : ℤ) + ts.sum + 1) - (B : ℤ) * ((B : ℤ) + 1) := by
  induction ts generalizing B with
  | nil => simp [AM]
  | cons t ts ih =>
    rw [AM, List.sum_cons]
    push_cast
    rw [ih (B + t)]
    push_cast
    ring

lemma QM_eq (B : Nat) (ts : List Nat) :
    3 * ((QM B ts : Nat) : ℤ) + (tau ts : ℤ)
      = 2 * ((B : ℤ) + ts.sum) * ((B : ℤ) + ts.sum + 1) * (2 * ((B : ℤ) + ts.sum) + 1)
        - 2 * (B : ℤ) * ((B : ℤ) + 1) * (2 * (B : ℤ) + 1) := by
  induction ts generalizing B with
  | nil => simp [QM, tau]
  | cons t ts ih =>
    rw [QM, List.sum_cons, tau_cons]
    have := ih (B + t)
    push_cast at this ⊢
    linear_combination this

lemma tau_le (ts : List Nat) : tau ts + ts.sum ≤ ts.sum ^ 3 := by
  induction ts with
  | nil => simp [tau]
  | cons t ts ih =>
    have h := tau_cons t ts
    rw [List.sum_cons]
    generalize ts.sum = T at ih ⊢
    generalize tau ts = τ at ih h
    generalize tau (t :: ts) = τ' at h ⊢
    zify at ih ⊢
    have ht : (0 : ℤ) ≤ t := Int.natCast_nonneg t
    have hT : (0 : ℤ) ≤ T := Int.natCast_nonneg T
    nlinarith [mul_nonneg (mul_nonneg ht ht) hT, mul_nonneg (mul_nonneg ht hT) hT]

/-! ## `2U` and the midrank statistic -/

/-- `2U + n1(n1+1)` is twice the midrank sum of sample 1 (with `j` sample-1 items and `b`
sample-2 items below the current group). -/
lemma twoUof_lin (ts rs : List Nat) (b j : Nat) (h : rs ∈ allocs ts) :
    twoUof ts rs b + (j + rs.sum) * (j + rs.sum + 1) = linM (b + j) ts rs + j * (j + 1) := by
  induction ts generalizing rs b j with
  | nil =>
    simp [allocs] at h; subst h; simp [twoUof, linM]
  | cons t ts ih =>
    obtain ⟨r, rs', hr, hrs, rfl⟩ := (mem_allocs_cons t ts rs).1 h
    obtain ⟨s, rfl⟩ := Nat.exists_eq_add_of_le hr
    have ih' := ih rs' (b + s) (j + r) hrs
    have e : b + s + (j + r) = b + j + (r + s) := by omega
    rw [e] at ih'
    simp only [twoUof, linM, List.sum_cons, Nat.add_sub_cancel_left]
    zify at ih' ⊢
    linear_combination ih'

/-! ## sums against `countEq` -/

/-- a sum of `f(v)·countEq` over a range containing the support is a weighted sum over allocations -/
lemma sum_f_countEq (t : List Nat) (n1 m : Nat) (f : Nat → Nat)
    (hm : ∀ r ∈ allocs t, r.sum = n1 → twoUof t r 0 < m) :
    ∑ v ∈ range m, f v * countEq t n1 (v : ℤ)
      = asum t (fun r => if r.sum = n1 then weight t r * f (twoUof t r 0) else 0) := by
  simp only [countEq_eq_asum, ← asum_mul_left]
  rw [← asum_finset_sum]
  apply asum_congr
  intro r hr
  by_cases h1 : r.sum = n1
  · have hlt := hm r hr h1
    simp only [h1, true_and, Nat.cast_inj, if_true]
    rw [sum_eq_single (twoUof t r 0)]
    · simp; ring
    · intro v _ hv; rw [if_neg (fun h => hv h.symm), Nat.mul_zero]
    · intro h; exfalso; exact h (mem_range.2 hlt)
  · simp [h1]

/-- `k`-th raw moment of `2U` (times `C(N,n)`), as a sum over allocations -/
def Mk (k : Nat) (t : List Nat) (n : Nat) : Nat :=
  asum t (fun r => if r.sum = n then weight t r * twoUof t r 0 ^ k else 0)

lemma sum_pow_countEq (k : Nat) (t : List Nat) (n1 : Nat) :
    ∑ v ∈ range (2 * n1 * (sumList t - n1) + 1), v ^ k * countEq t n1 (v : ℤ) = Mk k t n1 := by
  unfold Mk
  apply sum_f_countEq t n1 _ (fun v => v ^ k)
  intro r hr h1
  have := (twoUof_bound t r 0 hr).2
  rw [h1, Nat.zero_add] at this
  rw [sumList_eq]
  omega

lemma M1_coeff (t : List Nat) (n : Nat) :
    ((Mk 1 t n : Nat) : ℤ) + (n : ℤ) * (n + 1) * (G 0 0 t).coeff n = (G 1 0 t).coeff n := by
  unfold Mk
  rw [coeff_G, coeff_G, gsum_natCast, ← gsum_mul_left, ← gsum_add]
  apply gsum_congr
  intro r hr
  by_cases h : r.sum = n
  · have := twoUof_lin t r 0 0 hr
    simp only [Nat.zero_add, Nat.zero_mul, Nat.add_zero, h] at this
    simp only [h, if_true]
    zify at this
    push_cast
    linear_combination (weight t r : ℤ) * this
  · simp [h]

lemma M2_coeff (t : List Nat) (n : Nat) :
    ((Mk 2 t n : Nat) : ℤ) + 2 * ((n : ℤ) * (n + 1)) * (G 1 0 t).coeff n
      = (G 2 0 t).coeff n + ((n : ℤ) * (n + 1)) ^ 2 * (G 0 0 t).coeff n := by
  unfold Mk
  rw [coeff_G, coeff_G, coeff_G, gsum_natCast, ← gsum_mul_left, ← gsum_mul_left, ← gsum_add, ← gsum_add]
  apply gsum_congr
  intro r hr
  by_cases h : r.sum = n
  · have := twoUof_lin t r 0 0 hr
    simp only [Nat.zero_add, Nat.zero_mul, Nat.add_zero, h] at this
    simp only [h, if_true]
    zify at this
    push_cast
    rw [← this]
    ring
  · simp [h]

/-! ## closed forms after cancelling `1 + X` -/

lemma one_add_X_ne_zero : (1 + X : ℤ[X]) ≠ 0 := by
  intro h
  have := congrArg (eval 0) h
  simp at this

lemma G1_closed (t : List Nat) (K : Nat) (hN : t.sum = K + 1) :
    G 1 0 t = X * (C ((AM 0 t : Nat) : ℤ) * (1 + X) ^ K) := by
  apply mul_left_cancel₀ one_add_X_ne_zero
  rw [G1_eq, hN]
  simp only [map_natCast]
  ring

lemma G2_closed (t : List Nat) (K : Nat) (hN : t.sum = K + 2) :
    G 2 0 t = X * (C ((QM 0 t : Nat) : ℤ) * (1 + X) ^ (K + 1))
      + X ^ 2 * (C (((AM 0 t : Nat) : ℤ) ^ 2 - ((QM 0 t : Nat) : ℤ)) * (1 + X) ^ K) := by
  apply mul_left_cancel₀ (pow_ne_zero 2 one_add_X_ne_zero)
  rw [G2_eq, hN]
  simp only [map_sub, map_pow, map_natCast]
  ring

lemma Mk_big (k : Nat) (t : List Nat) (n : Nat) (h : t.sum < n) : Mk k t n = 0 := by
  unfold Mk
  refine Eq.trans (asum_congr _ _ (fun _ => 0) ?_) (asum_zero _)
  intro r hr
  have := (twoUof_bound t r 0 hr).1
  rw [if_neg (by omega)]

lemma Mk_zero (k : Nat) (t : List Nat) (hk : 1 ≤ k) : Mk k t 0 = 0 := by
  unfold Mk
  refine Eq.trans (asum_congr _ _ (fun _ => 0) ?_) (asum_zero _)
  intro r hr
  by_cases hs : r.sum = 0
  · have := (twoUof_bound t r 0 hr).2
    rw [hs] at this
    have h0 : twoUof t r 0 = 0 := by omega
    rw [h0, if_pos hs, Nat.zero_pow (by omega), Nat.mul_zero]
  · rw [if_neg hs]

/-- first moment, allocation form (helper form with `List.sum`) -/
lemma Mk1_eq (t : List Nat) (n1 : Nat) :
    Mk 1 t n1 = n1 * (t.sum - n1) * Nat.choose t.sum n1 := by
  by_cases h : n1 ≤ t.sum
  · cases n1 with
    | zero => rw [Mk_zero 1 t (le_refl _)]; simp
    | succ m =>
      obtain ⟨n2, hn2⟩ := Nat.exists_eq_add_of_le h
      have hK : t.sum = (m + n2) + 1 := by omega
      have hsub : t.sum - (m + 1) = n2 := by omega
      have hM := M1_coeff t (m + 1)
      rw [G1_closed t (m + n2) hK, coeff_X_mul, coeff_C_mul, coeff_one_add_X_pow, G0_eq,
        coeff_one_add_X_pow, hK] at hM
      have hA := AM_eq 0 t
      rw [hK] at hA
      have hab := Nat.add_one_mul_choose_eq (m + n2) m
      rw [hsub, hK]
      zify at hab ⊢
      push_cast at hM hA hab ⊢
      linear_combination hM + ((m + n2).choose m : ℤ) * hA + ((m : ℤ) + n2 + 2) * hab
  · rw [Mk_big 1 t n1 (by omega), Nat.choose_eq_zero_of_lt (by omega), Nat.mul_zero]

/-- second moment, integer form: `N = K + 2`, `n1 + n2 = N` -/
lemma Mk2_int (t : List Nat) (n1 n2 K : Nat) (hN : t.sum = K + 2) (h : t.sum = n1 + n2) :
    3 * ((K : ℤ) + 2) * ((K : ℤ) + 1) * (Mk 2 t n1 : ℤ)
      = (Nat.choose (K + 2) n1 : ℤ) * (3 * ((K : ℤ) + 2) * ((K : ℤ) + 1) * ((n1 : ℤ) * n2) ^ 2
          + (n1 : ℤ) * n2 * (((K : ℤ) + 2) * ((K : ℤ) + 1) * ((K : ℤ) + 3) - (tau t : ℤ))) := by
  have hN' : t.sum = (K + 1) + 1 := by omega
  have hA := AM_eq 0 t
  have hQ := QM_eq 0 t
  rw [hN] at hA hQ
  have hn2 : (n2 : ℤ) = (K : ℤ) + 2 - n1 := by
    have : (n1 : ℤ) + n2 = (K : ℤ) + 2 := by exact_mod_cast (h.symm.trans hN)
    linarith
  rw [hn2]
  rcases n1 with _ | _ | m
  · rw [Mk_zero 2 t (by omega)]; simp
  · have hM := M2_coeff t 1
    rw [G2_closed t K hN, G1_closed t (K + 1) hN', G0_eq, hN] at hM
    simp only [coeff_add, coeff_X_mul, coeff_X_pow_mul', coeff_C_mul, coeff_one_add_X_pow,
      Nat.choose_zero_right, Nat.choose_one_right] at hM
    simp only [zero_add, Nat.choose_one_right]
    rw [hA] at hM
    push_cast at hM hQ ⊢
    norm_num at hM
    linear_combination 3 * ((K : ℤ) + 2) * ((K : ℤ) + 1) * hM + ((K : ℤ) + 1) * ((K : ℤ) + 2) * hQ
  · have hM := M2_coeff t (m + 2)
    rw [G2_closed t K hN, G1_closed t (K + 1) hN', G0_eq, hN] at hM
    simp only [coeff_add, coeff_X_mul, coeff_X_pow_mul, coeff_C_mul, coeff_one_add_X_pow] at hM
    rw [hA] at hM
    have e1 := Nat.add_one_mul_choose_eq K m
    have e2 := Nat.add_one_mul_choose_eq (K + 1) (m + 1)
    simp only [show m + 1 + 1 = m + 2 from rfl, show K + 1 + 1 = K + 2 from rfl] at e2 ⊢
    zify at e1 e2
    push_cast at hM hQ e1 e2 ⊢
    linear_combination 3 * ((K : ℤ) + 2) * ((K : ℤ) + 1) * hM
      + 3 * ((K : ℤ) + 2) * ((((K : ℤ) + 2) * ((K : ℤ) + 3)) ^ 2 - (QM 0 t : ℤ)) * e1
      + (3 * ((K : ℤ) + 1) * (QM 0 t : ℤ)
          + 3 * ((((K : ℤ) + 2) * ((K : ℤ) + 3)) ^ 2 - (QM 0 t : ℤ)) * ((m : ℤ) + 1)
          - 6 * (((m : ℤ) + 2) * ((m : ℤ) + 3)) * (((K : ℤ) + 2) * ((K : ℤ) + 3)) * ((K : ℤ) + 1)) * e2
      + ((K + 2).choose (m + 2) : ℤ) * ((m : ℤ) + 2) * ((K : ℤ) - m) * hQ

lemma Mk_top (k : Nat) (t : List Nat) (hk : 1 ≤ k) : Mk k t t.sum = 0 := by
  unfold Mk
  refine Eq.trans (asum_congr _ _ (fun _ => 0) ?_) (asum_zero _)
  intro r hr
  by_cases hs : r.sum = t.sum
  · have := (twoUof_bound t r 0 hr).2
    rw [hs] at this
    have h0 : twoUof t r 0 = 0 := by simpa using this
    rw [h0, if_pos hs, Nat.zero_pow (by omega), Nat.mul_zero]
  · rw [if_neg hs]

lemma tau_le' (t : List Nat) (K : Nat) (hN : t.sum = K + 2) : tau t ≤ (K + 2) * (K + 1) * (K + 3) := by
  have := tau_le t
  rw [hN] at this
  have e : (K + 2) ^ 3 = (K + 2) * (K + 1) * (K + 3) + (K + 2) := by ring
  omega

/-- second moment in `ℕ`, helper form with `List.sum` and `tau` -/
lemma Mk2_nat (t : List Nat) (n1 : Nat) (hN : 2 ≤ t.sum) :
    3 * t.sum * (t.sum - 1) * Mk 2 t n1
      = Nat.choose t.sum n1 * (3 * t.sum * (t.sum - 1) * (n1 * (t.sum - n1)) ^ 2
          + n1 * (t.sum - n1) * (t.sum * (t.sum - 1) * (t.sum + 1) - tau t)) := by
  by_cases h : n1 ≤ t.sum
  · obtain ⟨K, hK⟩ := Nat.exists_eq_add_of_le hN
    have hK' : t.sum = K + 2 := by omega
    obtain ⟨n2, hn2⟩ := Nat.exists_eq_add_of_le h
    have key := Mk2_int t n1 n2 K hK' hn2
    have hτ := tau_le' t K hK'
    have e1 : K + 2 - 1 = K + 1 := by omega
    have e2 : K + 2 - n1 = n2 := by omega
    rw [hK', e1, e2]
    zify [hτ]
    linear_combination key
  · rw [Mk_big 2 t n1 (by omega), Nat.choose_eq_zero_of_lt (by omega)]
    simp

lemma Mk_eq_model (k : Nat) (t : List Nat) (n1 : Nat) :
    sumList (((allocs t).filter fun r => sumList r == n1).map fun r => weight t r * twoUof t r 0 ^ k)
      = Mk k t n1 := by
  unfold Mk asum
  rw [sumList_eq, sum_map_filter]
  congr 1
  apply List.map_congr_left
  intro r _
  simp [sumList_eq]

/-! ## the property theorems -/

/-- **Mean, allocation form.** Summing `2U` over all size-`n1` subsets of the pooled sample
(i.e. over all allocation vectors `r` with `Σ r = n1`, each counted `weight t r = ∏ C(t_k, r_k)`
times) gives `n1 · n2 · C(N, n1)` with `N = Σ t`, `n2 = N − n1`: the exact mean of `2U` is `n1·n2`,
the mean of `U` is `n1·n2/2`, for every tie vector (no hypothesis on `n1`; for `n1 > N` both sides
are `0`). -/
theorem twoU_mean_alloc (t : List Nat) (n1 : Nat) :
    sumList (((allocs t).filter fun r => sumList r == n1).map fun r => weight t r * twoUof t r 0)
      = n1 * (sumList t - n1) * Nat.choose (sumList t) n1 := by
  have h := Mk_eq_model 1 t n1
  simp only [pow_one] at h
  rw [h, Mk1_eq, sumList_eq]

example : sumList (((allocs [2, 1, 3]).filter fun r => sumList r == 2).map
    fun r => weight [2, 1, 3] r * twoUof [2, 1, 3] r 0) = 2 * 4 * 15 := by
  rw [twoU_mean_alloc]; decide

/-- **Mean of the exact distribution (C03).** `Σ_v v · countEq t n1 v`, over the whole support
`v = 0 … 2·n1·n2` of `2U`, equals `n1 · n2 · C(N, n1)`; since the counts add up to `C(N, n1)`
(`fwdDP_total`), the exact null distribution of `U` defined by the model has mean `n1·n2/2`, which is
the mean used by the normal approximation.  Holds for every tie vector and every `n1`. -/
theorem twoU_mean (t : List Nat) (n1 : Nat) :
    ∑ v ∈ range (2 * n1 * (sumList t - n1) + 1), v * countEq t n1 (v : ℤ)
      = n1 * (sumList t - n1) * Nat.choose (sumList t) n1 := by
  have h := sum_pow_countEq 1 t n1
  simp only [pow_one] at h
  rw [h, Mk1_eq, sumList_eq]

example : ∑ v ∈ range 17, v * countEq [2, 1, 3] 2 (v : ℤ) = 120 :=
  twoU_mean [2, 1, 3] 2

/-- **The tie correction never exceeds `N³ − N`**: `Σ_k (t_k³ − t_k) + N ≤ N³`, so the natural-number
subtraction `N(N−1)(N+1) − Σ_k (t_k³ − t_k)` in the variance statements below is a true subtraction
(nothing is truncated), and the tie-corrected variance is non-negative. -/
theorem tie_correction_le (t : List Nat) :
    sumList (t.map fun k => k ^ 3 - k) + sumList t ≤ sumList t ^ 3 := by
  simp only [sumList_eq]
  exact tau_le t

example : sumList ([2, 1, 3].map fun k => k ^ 3 - k) + sumList [2, 1, 3] ≤ sumList [2, 1, 3] ^ 3 :=
  tie_correction_le [2, 1, 3]

/-- **Second moment, allocation form, any ties.**  For `N = Σ t ≥ 2`:
`3·N·(N−1) · Σ_{r : Σ r = n1} weight(r) · (2U(r))² =
 C(N,n1) · (3·N·(N−1)·(n1 n2)² + n1 n2 · (N(N−1)(N+1) − Σ_k (t_k³ − t_k)))`. -/
theorem twoU_second_moment_alloc (t : List Nat) (n1 : Nat) (hN : 2 ≤ sumList t) :
    3 * sumList t * (sumList t - 1) *
        sumList (((allocs t).filter fun r => sumList r == n1).map
          fun r => weight t r * twoUof t r 0 ^ 2)
      = Nat.choose (sumList t) n1 *
          (3 * sumList t * (sumList t - 1) * (n1 * (sumList t - n1)) ^ 2
            + n1 * (sumList t - n1) *
              (sumList t * (sumList t - 1) * (sumList t + 1) - sumList (t.map fun k => k ^ 3 - k))) := by
  rw [Mk_eq_model]
  simp only [sumList_eq] at hN ⊢
  exact Mk2_nat t n1 hN

example : 3 * 6 * 5 * sumList (((allocs [2, 1, 3]).filter fun r => sumList r == 2).map
    fun r => weight [2, 1, 3] r * twoUof [2, 1, 3] r 0 ^ 2) = 15 * (3 * 6 * 5 * 64 + 8 * (210 - 30)) := by
  have h := twoU_second_moment_alloc [2, 1, 3] 2 (by decide)
  exact h

/-- **Variance of the exact distribution with ties (C03).**  For every tie vector with
`N = Σ t ≥ 2` and every `n1` (`n2 = N − n1`):
`3·N·(N−1) · Σ_v v² · countEq t n1 v =
 C(N,n1) · (3·N·(N−1)·(n1 n2)² + n1 n2 · (N(N−1)(N+1) − Σ_k (t_k³ − t_k)))`.
Dividing by `3·N·(N−1)·C(N,n1)` and subtracting the squared mean `(n1 n2)²` (`twoU_mean`) this says
`Var[2U] = (n1 n2/3)·((N+1) − Σ(t³−t)/(N(N−1)))`, i.e.
`Var[U] = (n1 n2/12)·((N+1) − Σ(t³−t)/(N(N−1)))`: exactly the tie-corrected variance used by the
normal approximation. -/
theorem twoU_variance_tied (t : List Nat) (n1 : Nat) (hN : 2 ≤ sumList t) :
    3 * sumList t * (sumList t - 1) *
        ∑ v ∈ range (2 * n1 * (sumList t - n1) + 1), v ^ 2 * countEq t n1 (v : ℤ)
      = Nat.choose (sumList t) n1 *
          (3 * sumList t * (sumList t - 1) * (n1 * (sumList t - n1)) ^ 2
            + n1 * (sumList t - n1) *
              (sumList t * (sumList t - 1) * (sumList t + 1) - sumList (t.map fun k => k ^ 3 - k))) := by
  rw [sum_pow_countEq]
  simp only [sumList_eq] at hN ⊢
  exact Mk2_nat t n1 hN

example : 3 * 6 * 5 * ∑ v ∈ range 17, v ^ 2 * countEq [2, 1, 3] 2 (v : ℤ)
    = 15 * (3 * 6 * 5 * 64 + 8 * (210 - 30)) :=
  twoU_variance_tied [2, 1, 3] 2 (by decide)

/-- the numbers of the previous example: `E[(2U)²] = 1200/15 = 80`, `Var[2U] = 80 − 8² = 16
 = (8/3)·(7 − 30/30)`. -/
example : ∑ v ∈ range 17, v ^ 2 * countEq [2, 1, 3] 2 (v : ℤ) = 1200 := by
  have h := twoU_variance_tied [2, 1, 3] 2 (by decide)
  have h' : 3 * 6 * 5 * ∑ v ∈ range 17, v ^ 2 * countEq [2, 1, 3] 2 (v : ℤ)
      = 15 * (3 * 6 * 5 * 64 + 8 * (210 - 30)) := h
  omega

/-- **Variance of the exact distribution, untied case (C03).**  For `t = [1,…,1]` (`N` ones) and
every `n1` (`n2 = N − n1`): `3 · Σ_v v² · countEq t n1 v = C(N,n1) · (3·(n1 n2)² + n1 n2 (N+1))`,
i.e. `E[(2U)²] = (n1 n2)² + n1 n2 (N+1)/3`, `Var[U] = n1 n2 (N+1)/12`.  No restriction on `N`. -/
theorem twoU_second_moment_untied (N n1 : Nat) :
    3 * ∑ v ∈ range (2 * n1 * (N - n1) + 1), v ^ 2 * countEq (List.replicate N 1) n1 (v : ℤ)
      = Nat.choose N n1 * (3 * (n1 * (N - n1)) ^ 2 + n1 * (N - n1) * (N + 1)) := by
  have hs : (List.replicate N 1).sum = N := by simp
  have hs' : sumList (List.replicate N 1) = N := by rw [sumList_eq, hs]
  have hτ : tau (List.replicate N 1) = 0 := by simp [tau]
  have h := sum_pow_countEq 2 (List.replicate N 1) n1
  rw [hs'] at h
  rw [h]
  by_cases hN : 2 ≤ N
  · have key := Mk2_nat (List.replicate N 1) n1 (by rw [hs]; exact hN)
    rw [hs, hτ, Nat.sub_zero] at key
    have hpos : 0 < N * (N - 1) := Nat.mul_pos (by omega) (by omega)
    apply Nat.eq_of_mul_eq_mul_left hpos
    calc N * (N - 1) * (3 * Mk 2 (List.replicate N 1) n1)
        = 3 * N * (N - 1) * Mk 2 (List.replicate N 1) n1 := by ring
      _ = _ := key
      _ = _ := by ring
  · by_cases h1 : n1 ≤ N
    · have hcase : n1 = 0 ∨ n1 = (List.replicate N 1).sum := by rw [hs]; omega
      rcases hcase with h0 | h0
      · subst h0; rw [Mk_zero 2 _ (by omega)]; simp
      · rw [h0, Mk_top 2 _ (by omega), hs]; simp
    · rw [Mk_big 2 _ n1 (by rw [hs]; omega), Nat.choose_eq_zero_of_lt (by omega)]
      simp

example : 3 * ∑ v ∈ range 25, v ^ 2 * countEq (List.replicate 7 1) 3 (v : ℤ)
    = 35 * (3 * 144 + 12 * 8) :=
  twoU_second_moment_untied 7 3

/-! ## the same facts for the API-level point masses `pmfAt` (rational form) -/

lemma Mk0_eq (t : List Nat) (n1 : Nat) : Mk 0 t n1 = Nat.choose t.sum n1 := by
  unfold Mk
  rw [← asum_weight]
  apply asum_congr
  intro r _
  simp

lemma Mk2_rat (t : List Nat) (n1 n2 : Nat) (hN : 2 ≤ t.sum) (h : t.sum = n1 + n2) :
    (Mk 2 t n1 : ℚ) = (Nat.choose t.sum n1 : ℚ) *
      (((n1 : ℚ) * n2) ^ 2 + (n1 : ℚ) * n2 *
        (((t.sum : ℚ) + 1) - (tau t : ℚ) / ((t.sum : ℚ) * ((t.sum : ℚ) - 1))) / 3) := by
  obtain ⟨K, hK⟩ := Nat.exists_eq_add_of_le hN
  have hK' : t.sum = K + 2 := by omega
  have key := Mk2_int t n1 n2 K hK' h
  have key' : (3 * ((K : ℚ) + 2) * ((K : ℚ) + 1) * (Mk 2 t n1 : ℚ))
      = (Nat.choose (K + 2) n1 : ℚ) * (3 * ((K : ℚ) + 2) * ((K : ℚ) + 1) * ((n1 : ℚ) * n2) ^ 2
          + (n1 : ℚ) * n2 * (((K : ℚ) + 2) * ((K : ℚ) + 1) * ((K : ℚ) + 3) - (tau t : ℚ))) := by
    exact_mod_cast key
  rw [hK']
  push_cast
  have h1 : ((K : ℚ) + 2) ≠ 0 := by positivity
  have h2 : ((K : ℚ) + 2 - 1) ≠ 0 := by
    have : ((K : ℚ) + 2 - 1) = (K : ℚ) + 1 := by ring
    rw [this]; positivity
  field_simp
  linear_combination key'

/-- **Mean of `U` under the API-level point masses (C03).**  For a well-formed input
(`Σ effT = n1 + n2`), `Σ_v (v/2) · pmfAt n1 n2 t v`, over the grid `v = 0 … 2·n1·n2` of doubled
statistic values, is `n1·n2/2`: the mean used by the normal approximation is the exact mean. -/
theorem U_mean_pmf (n1 n2 : Nat) (t : List Nat) (hN : sumList (effT n1 n2 t) = n1 + n2) :
    ∑ v ∈ range (2 * n1 * n2 + 1), ((v : ℚ) / 2) * pmfAt n1 n2 t (v : ℤ) = ((n1 : ℚ) * n2) / 2 := by
  have h := twoU_mean (effT n1 n2 t) n1
  rw [hN, Nat.add_sub_cancel_left] at h
  have hC : (0 : ℚ) < (Nat.choose (n1 + n2) n1 : ℚ) := by
    exact_mod_cast Nat.choose_pos (Nat.le_add_right _ _)
  have hq : (∑ v ∈ range (2 * n1 * n2 + 1), (v : ℚ) * (countEq (effT n1 n2 t) n1 (v : ℤ) : ℚ))
      = (n1 : ℚ) * n2 * (Nat.choose (n1 + n2) n1 : ℚ) := by exact_mod_cast h
  simp only [pmfAt_eq_countEq n1 n2 t _ hN]
  have : ∀ v ∈ range (2 * n1 * n2 + 1),
      ((v : ℚ) / 2) * ((countEq (effT n1 n2 t) n1 (v : ℤ) : ℚ) / (Nat.choose (n1 + n2) n1 : ℚ))
        = ((v : ℚ) * (countEq (effT n1 n2 t) n1 (v : ℤ) : ℚ)) / (2 * (Nat.choose (n1 + n2) n1 : ℚ)) := by
    intro v _; ring
  rw [sum_congr rfl this, ← sum_div, hq]
  field_simp

example : ∑ v ∈ range (2 * 2 * 4 + 1), ((v : ℚ) / 2) * pmfAt 2 4 [2, 1, 3] (v : ℤ) = ((2 : ℕ) * (4 : ℕ) : ℚ) / 2 :=
  U_mean_pmf 2 4 [2, 1, 3] (by decide)

/-- **Variance of `U` under the API-level point masses (C03).**  For a well-formed input with
`N = n1 + n2 ≥ 2`, the variance `Σ_v (v/2 − n1 n2/2)² · pmfAt n1 n2 t v` of the exact distribution
equals `n1 n2 / 12 · ((N+1) − Σ_k (t_k³ − t_k) / (N (N−1)))`, the tie-corrected variance used by the
normal approximation (`t_k` ranging over the effective tie vector, all ones when `t` is empty). -/
theorem U_variance_pmf (n1 n2 : Nat) (t : List Nat) (hN : sumList (effT n1 n2 t) = n1 + n2)
    (h2 : 2 ≤ n1 + n2) :
    ∑ v ∈ range (2 * n1 * n2 + 1), ((v : ℚ) / 2 - ((n1 : ℚ) * n2) / 2) ^ 2 * pmfAt n1 n2 t (v : ℤ)
      = ((n1 : ℚ) * n2) / 12 *
          ((((n1 + n2 : Nat) : ℚ) + 1)
            - (sumList ((effT n1 n2 t).map fun k => k ^ 3 - k) : ℚ)
                / (((n1 + n2 : Nat) : ℚ) * (((n1 + n2 : Nat) : ℚ) - 1))) := by
  set T := effT n1 n2 t with hT
  have hs : T.sum = n1 + n2 := by rw [← sumList_eq]; exact hN
  have e0 := sum_pow_countEq 0 T n1
  have e1 := sum_pow_countEq 1 T n1
  have e2 := sum_pow_countEq 2 T n1
  rw [hN, Nat.add_sub_cancel_left] at e0 e1 e2
  rw [Mk0_eq, hs] at e0
  rw [Mk1_eq, hs, Nat.add_sub_cancel_left] at e1
  have m2 := Mk2_rat T n1 n2 (by omega) hs
  rw [hs] at m2
  have hC : (0 : ℚ) < (Nat.choose (n1 + n2) n1 : ℚ) := by
    exact_mod_cast Nat.choose_pos (Nat.le_add_right _ _)
  have q0 : (∑ v ∈ range (2 * n1 * n2 + 1), (countEq T n1 (v : ℤ) : ℚ))
      = (Nat.choose (n1 + n2) n1 : ℚ) := by
    have : ∑ v ∈ range (2 * n1 * n2 + 1), countEq T n1 (v : ℤ) = Nat.choose (n1 + n2) n1 := by
      simpa using e0
    exact_mod_cast this
  have q1 : (∑ v ∈ range (2 * n1 * n2 + 1), (v : ℚ) * (countEq T n1 (v : ℤ) : ℚ))
      = (n1 : ℚ) * n2 * (Nat.choose (n1 + n2) n1 : ℚ) := by
    have : ∑ v ∈ range (2 * n1 * n2 + 1), v * countEq T n1 (v : ℤ)
        = n1 * n2 * Nat.choose (n1 + n2) n1 := by simpa using e1
    exact_mod_cast this
  have q2 : (∑ v ∈ range (2 * n1 * n2 + 1), (v : ℚ) ^ 2 * (countEq T n1 (v : ℤ) : ℚ))
      = (Mk 2 T n1 : ℚ) := by exact_mod_cast e2
  simp only [pmfAt_eq_countEq n1 n2 t _ hN]
  have hterm : ∀ v ∈ range (2 * n1 * n2 + 1),
      ((v : ℚ) / 2 - ((n1 : ℚ) * n2) / 2) ^ 2
          * ((countEq T n1 (v : ℤ) : ℚ) / (Nat.choose (n1 + n2) n1 : ℚ))
        = ((v : ℚ) ^ 2 * (countEq T n1 (v : ℤ) : ℚ)) * (1 / (4 * (Nat.choose (n1 + n2) n1 : ℚ)))
          - ((v : ℚ) * (countEq T n1 (v : ℤ) : ℚ)) * (((n1 : ℚ) * n2) / (2 * (Nat.choose (n1 + n2) n1 : ℚ)))
          + (countEq T n1 (v : ℤ) : ℚ) * ((((n1 : ℚ) * n2) / 2) ^ 2 / (Nat.choose (n1 + n2) n1 : ℚ)) := by
    intro v _; ring
  rw [sum_congr rfl hterm, sum_add_distrib, sum_sub_distrib, ← sum_mul, ← sum_mul, ← sum_mul,
    q0, q1, q2, m2]
  have hτ : (sumList (T.map fun k => k ^ 3 - k) : ℚ) = (tau T : ℚ) := by
    rw [sumList_eq]; rfl
  rw [hτ]
  have hne : (Nat.choose (n1 + n2) n1 : ℚ) ≠ 0 := ne_of_gt hC
  field_simp
  ring

example : ∑ v ∈ range (2 * 2 * 4 + 1), ((v : ℚ) / 2 - ((2 : ℕ) * (4 : ℕ) : ℚ) / 2) ^ 2 * pmfAt 2 4 [2, 1, 3] (v : ℤ)
    = ((2 : ℕ) * (4 : ℕ) : ℚ) / 12 * ((((2 + 4 : Nat) : ℚ) + 1)
        - (sumList ((effT 2 4 [2, 1, 3]).map fun k => k ^ 3 - k) : ℚ)
            / (((2 + 4 : Nat) : ℚ) * (((2 + 4 : Nat) : ℚ) - 1))) :=
  U_variance_pmf 2 4 [2, 1, 3] (by decide) (by decide)

/-! ## independent kernel-evaluated checks of the raw sums (finite checks, not the theorems) -/

example : ∑ v ∈ range 17, v * countEq [2, 1, 3] 2 (v : ℤ) = 120 := by decide
example : ∑ v ∈ range 17, v ^ 2 * countEq [2, 1, 3] 2 (v : ℤ) = 1200 := by decide
example : ∑ v ∈ range 13, v ^ 2 * countEq [1, 1, 1, 1, 1] 2 (v : ℤ) = 480 := by decide

end MV.UDist
