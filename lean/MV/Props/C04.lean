import Mathlib.Tactic
import Mathlib.Analysis.Real.Sqrt
import MV.Model.TTest
import MV.Props.C09
/-!
# C04 — t-tests over exact rationals: textbook forms, error characterisation,
swap law, affine invariance, positivity of the denominator.
-/
namespace MV.TTest
open MV.Sample

/-! ## helpers on `sum`, `meanSpec`, `varSpec` -/

/-- all elements of the list are equal -/
def AllEq (xs : List Rat) : Prop := ∀ a ∈ xs, ∀ b ∈ xs, a = b

lemma allEq_iff_exists (xs : List Rat) : AllEq xs ↔ ∃ c, ∀ a ∈ xs, a = c := by
  constructor
  · intro h
    cases xs with
    | nil => exact ⟨0, by simp⟩
    | cons x xs => exact ⟨x, fun a ha => h a ha x (by simp)⟩
  · rintro ⟨c, hc⟩ a ha b hb
    rw [hc a ha, hc b hb]

lemma allEq_of_length_le_one (xs : List Rat) (h : xs.length ≤ 1) : AllEq xs := by
  match xs, h with
  | [], _ => intro a ha; simp at ha
  | [x], _ =>
    intro a ha b hb
    simp at ha hb; rw [ha, hb]

/-- a sum of squares of rationals is zero iff every term is zero -/
lemma sum_sq_eq_zero_iff (ys : List Rat) :
    (ys.map fun y => y * y).sum = 0 ↔ ∀ y ∈ ys, y = 0 := by
  induction ys with
  | nil => simp
  | cons y ys ih =>
    have h1 : 0 ≤ y * y := mul_self_nonneg y
    have h2 : 0 ≤ (ys.map fun y => y * y).sum :=
      List.sum_nonneg (by intro z hz; simp at hz; obtain ⟨w, _, rfl⟩ := hz; exact mul_self_nonneg w)
    simp only [List.map_cons, List.sum_cons, List.mem_cons, forall_eq_or_imp]
    constructor
    · intro h
      have hy : y * y = 0 := by linarith
      have hs : (ys.map fun y => y * y).sum = 0 := by linarith
      exact ⟨mul_self_eq_zero.mp hy, ih.mp hs⟩
    · rintro ⟨hy, hs⟩
      rw [hy, ih.mpr hs]; simp

lemma sum_sq_nonneg (ys : List Rat) : 0 ≤ (ys.map fun y => y * y).sum :=
  List.sum_nonneg (by intro z hz; simp at hz; obtain ⟨w, _, rfl⟩ := hz; exact mul_self_nonneg w)

lemma sqdev_sum_eq (xs : List Rat) (m : Rat) :
    sum (xs.map fun x => (x - m) * (x - m)) = ((xs.map fun x => x - m).map fun y => y * y).sum := by
  rw [sum_eq, List.map_map]; rfl

lemma sum_const (xs : List Rat) (c : Rat) (h : ∀ a ∈ xs, a = c) :
    sum xs = (xs.length : Rat) * c := by
  induction xs with
  | nil => simp
  | cons x xs ih =>
    rw [sum_cons, ih (fun a ha => h a (by simp [ha])), h x (by simp)]
    simp only [List.length_cons]; push_cast; ring

lemma varSpec_nonneg (xs : List Rat) (h : 2 ≤ xs.length) : 0 ≤ varSpec xs := by
  unfold varSpec
  simp only []
  rw [sqdev_sum_eq]
  apply div_nonneg (sum_sq_nonneg _)
  have : (2 : Rat) ≤ (xs.length : Rat) := by exact_mod_cast h
  linarith

/-- For at least two values the textbook sample variance `varSpec` is zero iff all values
are equal (a sum of squares of rationals vanishes iff every term does). -/
theorem varSpec_eq_zero_iff (xs : List Rat) (h : 2 ≤ xs.length) : varSpec xs = 0 ↔ AllEq xs := by
  have hn : (2 : Rat) ≤ (xs.length : Rat) := by exact_mod_cast h
  have hn1 : (xs.length : Rat) - 1 ≠ 0 := by
    intro h0; linarith
  unfold varSpec
  simp only []
  rw [sqdev_sum_eq, div_eq_zero_iff, sum_sq_eq_zero_iff]
  simp only [hn1, or_false, List.mem_map, forall_exists_index, and_imp, forall_apply_eq_imp_iff₂]
  constructor
  · intro hall
    rw [allEq_iff_exists]
    exact ⟨meanSpec xs, fun a ha => by have := hall a ha; linarith⟩
  · intro hall a ha
    obtain ⟨c, hc⟩ := (allEq_iff_exists xs).mp hall
    have hm : meanSpec xs = c := by
      unfold meanSpec
      rw [sum_const xs c hc]
      field_simp
    rw [hm, hc a ha]; ring

/-- For n ≥ 2 the variance used by the t-tests is the textbook `varSpec = Σ(x − mean)²/(n − 1)`. -/
theorem variance_eq (xs : List Rat) (h : 2 ≤ xs.length) : variance xs = varSpec xs := by
  unfold variance
  rw [if_neg (by omega)]

example : variance [1, 2, 3, 4] = 5 / 3 := by
  rw [variance_eq _ (by simp)]; norm_num [varSpec, meanSpec]

example : varSpec [3, 3, 3] = 0 := (varSpec_eq_zero_iff _ (by simp)).mpr (by simp [AllEq])
example : varSpec [1, 2, 3, 4] ≠ 0 := fun h => by
  have := (varSpec_eq_zero_iff _ (by simp)).mp h 1 (by simp) 2 (by simp)
  norm_num at this

lemma variance_of_le_one (xs : List Rat) (h : xs.length ≤ 1) : variance xs = 0 := by
  unfold variance
  rw [if_pos h]

lemma variance_nonneg (xs : List Rat) : 0 ≤ variance xs := by
  by_cases h : xs.length ≤ 1
  · rw [variance_of_le_one xs h]
  · rw [variance_eq xs (by omega)]; exact varSpec_nonneg xs (by omega)

/-- the reported variance is zero iff all values are equal (any length) -/
lemma variance_eq_zero_iff (xs : List Rat) : variance xs = 0 ↔ AllEq xs := by
  by_cases h : xs.length ≤ 1
  · simp [variance_of_le_one xs h, allEq_of_length_le_one xs h]
  · rw [variance_eq xs (by omega)]; exact varSpec_eq_zero_iff xs (by omega)

lemma two_le_of_variance_ne_zero (xs : List Rat) (h : variance xs ≠ 0) : 2 ≤ xs.length := by
  by_contra hc
  exact h (variance_of_le_one xs (by omega))

lemma variance_pos_of_ne (xs : List Rat) (h : variance xs ≠ 0) : 0 < variance xs :=
  lt_of_le_of_ne (variance_nonneg xs) (Ne.symm h)

/-! ## T1: textbook forms -/

/-- Pooled-variance two-sample t-test, textbook form: for samples of size ≥ 2 that are not
both of zero variance the model returns `num = mean x1 − mean x2`, `dof = n1 + n2 − 2`
and `den2 = s_p² (1/n1 + 1/n2)` with `s_p² = ((n1−1) var x1 + (n2−1) var x2)/(n1+n2−2)`,
where `mean`/`var` are the textbook `meanSpec`/`varSpec`. -/
theorem pooled_ok (x1 x2 : List Rat) (h1 : 2 ≤ x1.length) (h2 : 2 ≤ x2.length)
    (hv : ¬ (varSpec x1 = 0 ∧ varSpec x2 = 0)) :
    pooled x1 x2 = .ok
      { n1 := x1.length, n2 := x2.length,
        num := meanSpec x1 - meanSpec x2,
        den2 := (((x1.length : Rat) - 1) * varSpec x1 + ((x2.length : Rat) - 1) * varSpec x2)
                  / ((x1.length : Rat) + (x2.length : Rat) - 2)
                * (1 / (x1.length : Rat) + 1 / (x2.length : Rat)),
        dof := (x1.length : Rat) + (x2.length : Rat) - 2 } := by
  unfold pooled
  simp only [variance_eq x1 h1, variance_eq x2 h2, mean, beq_iff_eq]
  rw [if_neg (by omega), if_neg hv]

lemma pooled_ex : pooled [1, 2, 3, 4] [2, 4, 9] = .ok ⟨4, 3, -5 / 2, 217 / 60, 5⟩ := by
  rw [pooled_ok _ _ (by simp) (by simp) (by norm_num [varSpec, meanSpec])]
  norm_num [varSpec, meanSpec]

example : pooled [1, 2, 3, 4] [2, 4, 9] = .ok ⟨4, 3, -5 / 2, 217 / 60, 5⟩ := pooled_ex

/-- Welch's unequal-variance t-test, textbook form: `den2 = var x1/n1 + var x2/n2` and the
Welch–Satterthwaite degrees of freedom
`(v1/n1 + v2/n2)² / ((v1/n1)²/(n1−1) + (v2/n2)²/(n2−1))`. -/
theorem welch_ok (x1 x2 : List Rat) (h1 : 2 ≤ x1.length) (h2 : 2 ≤ x2.length)
    (hv : ¬ (varSpec x1 = 0 ∧ varSpec x2 = 0)) :
    welch x1 x2 = .ok
      { n1 := x1.length, n2 := x2.length,
        num := meanSpec x1 - meanSpec x2,
        den2 := varSpec x1 / (x1.length : Rat) + varSpec x2 / (x2.length : Rat),
        dof := (varSpec x1 / (x1.length : Rat) + varSpec x2 / (x2.length : Rat)) ^ 2
                / ((varSpec x1 / (x1.length : Rat)) ^ 2 / ((x1.length : Rat) - 1)
                  + (varSpec x2 / (x2.length : Rat)) ^ 2 / ((x2.length : Rat) - 1)) } := by
  unfold welch
  simp only [variance_eq x1 h1, variance_eq x2 h2, mean, beq_iff_eq]
  rw [if_neg (by omega), if_neg hv]
  simp only [sq]

lemma welch_ex : welch [1, 2, 3, 4] [2, 4, 9] = .ok ⟨4, 3, -5 / 2, 19 / 4, 9747 / 4081⟩ := by
  rw [welch_ok _ _ (by simp) (by simp) (by norm_num [varSpec, meanSpec])]
  norm_num [varSpec, meanSpec]

example : welch [1, 2, 3, 4] [2, 4, 9] = .ok ⟨4, 3, -5 / 2, 19 / 4, 9747 / 4081⟩ := welch_ex

/-- the list of paired differences -/
def diffs (x1 x2 : List Rat) : List Rat := (x1.zip x2).map fun (a, b) => a - b

lemma length_diffs (x1 x2 : List Rat) (h : x1.length = x2.length) :
    (diffs x1 x2).length = x1.length := by
  simp [diffs, h]

lemma paired_eq (x1 x2 : List Rat) (mu0 : Rat) :
    paired x1 x2 mu0 =
      if x1.length ≠ x2.length then .error .mismatched
      else if x1.length ≤ 1 then .error .sampleSize
      else if variance (diffs x1 x2) = 0 then .error .zeroVariance
      else .ok ⟨x1.length, x2.length, mean (diffs x1 x2) - mu0,
        variance (diffs x1 x2) / (x1.length : Rat), (x1.length : Rat) - 1⟩ := by
  unfold paired diffs
  simp only [bne_iff_ne, ne_eq, beq_iff_eq]

lemma pooled_eq (x1 x2 : List Rat) :
    pooled x1 x2 =
      if x1 = [] ∨ x2 = [] then .error .sampleSize
      else if variance x1 = 0 ∧ variance x2 = 0 then .error .zeroVariance
      else .ok ⟨x1.length, x2.length, mean x1 - mean x2,
        (((x1.length : Rat) - 1) * variance x1 + ((x2.length : Rat) - 1) * variance x2)
          / ((x1.length : Rat) + (x2.length : Rat) - 2)
          * (1 / (x1.length : Rat) + 1 / (x2.length : Rat)),
        (x1.length : Rat) + (x2.length : Rat) - 2⟩ := by
  unfold pooled
  simp only [beq_iff_eq, List.length_eq_zero_iff]

lemma welch_eq (x1 x2 : List Rat) :
    welch x1 x2 =
      if x1.length ≤ 1 ∨ x2.length ≤ 1 then .error .sampleSize
      else if variance x1 = 0 ∧ variance x2 = 0 then .error .zeroVariance
      else .ok ⟨x1.length, x2.length, mean x1 - mean x2,
        variance x1 / (x1.length : Rat) + variance x2 / (x2.length : Rat),
        (variance x1 / (x1.length : Rat) + variance x2 / (x2.length : Rat)) ^ 2
          / ((variance x1 / (x1.length : Rat)) ^ 2 / ((x1.length : Rat) - 1)
            + (variance x2 / (x2.length : Rat)) ^ 2 / ((x2.length : Rat) - 1))⟩ := by
  unfold welch
  simp only [beq_iff_eq, sq]

lemma oneSample_eq (x : List Rat) (mu0 : Rat) :
    oneSample x mu0 =
      if x = [] then .error .sampleSize
      else if variance x = 0 then .error .zeroVariance
      else .ok ⟨x.length, 0, mean x - mu0, variance x / (x.length : Rat), (x.length : Rat) - 1⟩ := by
  unfold oneSample
  simp only [beq_iff_eq, List.length_eq_zero_iff]

/-- Paired t-test, textbook form: with `d` the list of pairwise differences (equal lengths
≥ 2, `d` not constant), `num = mean d − μ0`, `den2 = var d / n`, `dof = n − 1`. -/
theorem paired_ok (x1 x2 : List Rat) (mu0 : Rat) (hlen : x1.length = x2.length)
    (h1 : 2 ≤ x1.length) (hv : varSpec (diffs x1 x2) ≠ 0) :
    paired x1 x2 mu0 = .ok
      { n1 := x1.length, n2 := x2.length,
        num := meanSpec (diffs x1 x2) - mu0,
        den2 := varSpec (diffs x1 x2) / (x1.length : Rat),
        dof := (x1.length : Rat) - 1 } := by
  have hd : 2 ≤ (diffs x1 x2).length := by rw [length_diffs x1 x2 hlen]; exact h1
  rw [paired_eq, if_neg (by simpa using hlen), if_neg (by omega), variance_eq _ hd, if_neg hv]
  rfl

lemma paired_ex : paired [1, 2, 3, 4] [2, 4, 9, 3] (1 / 2) = .ok ⟨4, 4, -5 / 2, 13 / 6, 3⟩ := by
  rw [paired_ok _ _ _ (by simp) (by simp) (by norm_num [varSpec, meanSpec, diffs])]
  norm_num [varSpec, meanSpec, diffs]

example : paired [1, 2, 3, 4] [2, 4, 9, 3] (1 / 2) = .ok ⟨4, 4, -5 / 2, 13 / 6, 3⟩ := paired_ex

/-- One-sample t-test, textbook form: for n ≥ 2 non-constant values, `num = mean x − μ0`,
`den2 = var x / n`, `dof = n − 1`. -/
theorem oneSample_ok (x : List Rat) (mu0 : Rat) (h1 : 2 ≤ x.length) (hv : varSpec x ≠ 0) :
    oneSample x mu0 = .ok
      { n1 := x.length, n2 := 0,
        num := meanSpec x - mu0,
        den2 := varSpec x / (x.length : Rat),
        dof := (x.length : Rat) - 1 } := by
  unfold oneSample
  simp only [variance_eq x h1, mean, beq_iff_eq]
  rw [if_neg (by omega), if_neg hv]

lemma oneSample_ex : oneSample [1, 2, 3, 4] 2 = .ok ⟨4, 0, 1 / 2, 5 / 12, 3⟩ := by
  rw [oneSample_ok _ _ (by simp) (by norm_num [varSpec, meanSpec])]
  norm_num [varSpec, meanSpec]

example : oneSample [1, 2, 3, 4] 2 = .ok ⟨4, 0, 1 / 2, 5 / 12, 3⟩ := oneSample_ex

/-! ## T2: error characterisation -/

/-- `pooled` fails exactly as follows: `sampleSize` iff one of the samples is empty;
`zeroVariance` iff both are non-empty and each sample is constant (all values equal —
in particular when both have a single element). No other error is returned. -/
theorem pooled_err_iff (x1 x2 : List Rat) (e : Err) :
    pooled x1 x2 = .error e ↔
      (e = .sampleSize ∧ (x1 = [] ∨ x2 = [])) ∨
      (e = .zeroVariance ∧ x1 ≠ [] ∧ x2 ≠ [] ∧ AllEq x1 ∧ AllEq x2) := by
  rw [pooled_eq, ← variance_eq_zero_iff x1, ← variance_eq_zero_iff x2]
  by_cases h1 : x1 = [] ∨ x2 = []
  · rw [if_pos h1]
    cases e <;> simp [h1] <;> tauto
  · rw [if_neg h1]
    by_cases h2 : variance x1 = 0 ∧ variance x2 = 0
    · rw [if_pos h2]
      cases e <;> simp [h1, h2] <;> tauto
    · rw [if_neg h2]
      cases e <;> simp [h1, h2]

example : pooled [3] [7, 7] = .error .zeroVariance :=
  (pooled_err_iff _ _ _).mpr (Or.inr ⟨rfl, by simp, by simp, by simp [AllEq], by simp [AllEq]⟩)
example : pooled [] [1, 2] = .error .sampleSize :=
  (pooled_err_iff _ _ _).mpr (Or.inl ⟨rfl, Or.inl rfl⟩)
example : pooled [1, 2, 3, 4] [2, 4, 9] ≠ .error .zeroVariance := fun h => by
  rcases (pooled_err_iff _ _ _).mp h with ⟨h, _⟩ | ⟨_, _, _, h, _⟩
  · cases h
  · have := h 1 (by simp) 2 (by simp); norm_num at this

/-- `pooled` succeeds iff both samples are non-empty and not both constant. -/
theorem pooled_isOk_iff (x1 x2 : List Rat) :
    (∃ st, pooled x1 x2 = .ok st) ↔ x1 ≠ [] ∧ x2 ≠ [] ∧ ¬ (AllEq x1 ∧ AllEq x2) := by
  rw [pooled_eq, ← variance_eq_zero_iff x1, ← variance_eq_zero_iff x2]
  by_cases h1 : x1 = [] ∨ x2 = []
  · rw [if_pos h1]; simp; tauto
  · rw [if_neg h1]
    by_cases h2 : variance x1 = 0 ∧ variance x2 = 0
    · rw [if_pos h2]; simp; tauto
    · rw [if_neg h2]; simp; tauto

example : ∃ st, pooled [3] [1, 2] = .ok st :=
  (pooled_isOk_iff _ _).mpr ⟨by simp, by simp, fun h => by
    have := h.2 1 (by simp) 2 (by simp); norm_num at this⟩

/-- `welch` fails exactly as follows: `sampleSize` iff one of the samples has at most one
element; `zeroVariance` iff both have ≥ 2 elements and each sample is constant. -/
theorem welch_err_iff (x1 x2 : List Rat) (e : Err) :
    welch x1 x2 = .error e ↔
      (e = .sampleSize ∧ (x1.length ≤ 1 ∨ x2.length ≤ 1)) ∨
      (e = .zeroVariance ∧ 2 ≤ x1.length ∧ 2 ≤ x2.length ∧ AllEq x1 ∧ AllEq x2) := by
  rw [welch_eq, ← variance_eq_zero_iff x1, ← variance_eq_zero_iff x2]
  by_cases h1 : x1.length ≤ 1 ∨ x2.length ≤ 1
  · rw [if_pos h1]
    cases e <;> simp [h1] <;> omega
  · rw [if_neg h1]
    have h1' : 2 ≤ x1.length ∧ 2 ≤ x2.length := by omega
    by_cases h2 : variance x1 = 0 ∧ variance x2 = 0
    · rw [if_pos h2]
      cases e <;> simp [h1, h1', h2]
    · rw [if_neg h2]
      cases e <;> simp [h1, h2]

example : welch [3] [1, 2] = .error .sampleSize :=
  (welch_err_iff _ _ _).mpr (Or.inl ⟨rfl, Or.inl (by simp)⟩)
example : welch [3, 3] [7, 7, 7] = .error .zeroVariance :=
  (welch_err_iff _ _ _).mpr
    (Or.inr ⟨rfl, by simp, by simp, by simp [AllEq], by simp [AllEq]⟩)

/-- `welch` succeeds iff both samples have ≥ 2 elements and are not both constant. -/
theorem welch_isOk_iff (x1 x2 : List Rat) :
    (∃ st, welch x1 x2 = .ok st) ↔
      2 ≤ x1.length ∧ 2 ≤ x2.length ∧ ¬ (AllEq x1 ∧ AllEq x2) := by
  rw [welch_eq, ← variance_eq_zero_iff x1, ← variance_eq_zero_iff x2]
  by_cases h1 : x1.length ≤ 1 ∨ x2.length ≤ 1
  · rw [if_pos h1]; simp; omega
  · rw [if_neg h1]
    have h1' : 2 ≤ x1.length ∧ 2 ≤ x2.length := by omega
    by_cases h2 : variance x1 = 0 ∧ variance x2 = 0
    · rw [if_pos h2]; simp; tauto
    · rw [if_neg h2]; simp; tauto

example : ∃ st, welch [3, 3] [1, 2] = .ok st :=
  (welch_isOk_iff _ _).mpr ⟨by simp, by simp, fun h => by
    have := h.2 1 (by simp) 2 (by simp); norm_num at this⟩

/-- `paired` fails exactly as follows: `mismatched` iff the lengths differ; `sampleSize`
iff the lengths agree and are ≤ 1; `zeroVariance` iff the lengths agree, are ≥ 2 and all
pairwise differences are equal. -/
theorem paired_err_iff (x1 x2 : List Rat) (mu0 : Rat) (e : Err) :
    paired x1 x2 mu0 = .error e ↔
      (e = .mismatched ∧ x1.length ≠ x2.length) ∨
      (e = .sampleSize ∧ x1.length = x2.length ∧ x1.length ≤ 1) ∨
      (e = .zeroVariance ∧ x1.length = x2.length ∧ 2 ≤ x1.length ∧ AllEq (diffs x1 x2)) := by
  rw [paired_eq, ← variance_eq_zero_iff]
  by_cases h0 : x1.length ≠ x2.length
  · rw [if_pos h0]
    cases e <;> simp [h0]
  · rw [if_neg h0]
    have h0' : x1.length = x2.length := by omega
    by_cases h1 : x1.length ≤ 1
    · rw [if_pos h1]
      cases e <;> simp [h0'] <;> omega
    · rw [if_neg h1]
      have h1' : 2 ≤ x2.length := by omega
      by_cases h2 : variance (diffs x1 x2) = 0
      · rw [if_pos h2]
        cases e <;> simp [h0', h1', h2] <;> omega
      · rw [if_neg h2]
        cases e <;> simp [h0', h2] <;> omega

example : paired [1, 2] [3] 0 = .error .mismatched :=
  (paired_err_iff _ _ _ _).mpr (Or.inl ⟨rfl, by simp⟩)
example : paired [1] [3] 0 = .error .sampleSize :=
  (paired_err_iff _ _ _ _).mpr (Or.inr (Or.inl ⟨rfl, by simp, by simp⟩))
example : paired [1, 2, 5] [3, 4, 7] 0 = .error .zeroVariance :=
  (paired_err_iff _ _ _ _).mpr
    (Or.inr (Or.inr ⟨rfl, by simp, by simp, by norm_num [AllEq, diffs]⟩))

/-- `paired` succeeds iff the lengths agree, are ≥ 2, and the differences are not all equal. -/
theorem paired_isOk_iff (x1 x2 : List Rat) (mu0 : Rat) :
    (∃ st, paired x1 x2 mu0 = .ok st) ↔
      x1.length = x2.length ∧ 2 ≤ x1.length ∧ ¬ AllEq (diffs x1 x2) := by
  rw [paired_eq, ← variance_eq_zero_iff]
  by_cases h0 : x1.length ≠ x2.length
  · rw [if_pos h0]; simp; tauto
  · rw [if_neg h0]
    have h0' : x1.length = x2.length := by omega
    by_cases h1 : x1.length ≤ 1
    · rw [if_pos h1]; simp; omega
    · rw [if_neg h1]
      by_cases h2 : variance (diffs x1 x2) = 0
      · rw [if_pos h2]; simp; tauto
      · rw [if_neg h2]; simp; refine ⟨h0', by omega, h2⟩

example : ∃ st, paired [1, 2, 5] [3, 4, 8] 0 = .ok st :=
  (paired_isOk_iff _ _ _).mpr ⟨by simp, by simp, fun h => by
    have := h (-2) (by norm_num [diffs]) (-3) (by norm_num [diffs]); norm_num at this⟩

/-- `oneSample` fails exactly as follows: `sampleSize` iff the sample is empty;
`zeroVariance` iff it is non-empty and constant (in particular a single value). -/
theorem oneSample_err_iff (x : List Rat) (mu0 : Rat) (e : Err) :
    oneSample x mu0 = .error e ↔
      (e = .sampleSize ∧ x = []) ∨ (e = .zeroVariance ∧ x ≠ [] ∧ AllEq x) := by
  rw [oneSample_eq, ← variance_eq_zero_iff]
  by_cases h1 : x = []
  · rw [if_pos h1]
    cases e <;> simp [h1]
  · rw [if_neg h1]
    by_cases h2 : variance x = 0
    · rw [if_pos h2]
      cases e <;> simp [h1, h2]
    · rw [if_neg h2]
      cases e <;> simp [h1, h2]

example : oneSample [] 0 = .error .sampleSize :=
  (oneSample_err_iff _ _ _).mpr (Or.inl ⟨rfl, rfl⟩)
example : oneSample [5] 0 = .error .zeroVariance :=
  (oneSample_err_iff _ _ _).mpr (Or.inr ⟨rfl, by simp, by simp [AllEq]⟩)
example : oneSample [5, 5, 5] 1 = .error .zeroVariance :=
  (oneSample_err_iff _ _ _).mpr (Or.inr ⟨rfl, by simp, by simp [AllEq]⟩)

/-- `oneSample` succeeds iff the sample is not constant (hence has ≥ 2 elements). -/
theorem oneSample_isOk_iff (x : List Rat) (mu0 : Rat) :
    (∃ st, oneSample x mu0 = .ok st) ↔ ¬ AllEq x := by
  rw [oneSample_eq, ← variance_eq_zero_iff]
  by_cases h1 : x = []
  · rw [if_pos h1]; subst h1; simp [variance]
  · rw [if_neg h1]
    by_cases h2 : variance x = 0
    · rw [if_pos h2]; simp [h2]
    · rw [if_neg h2]; simp [h2]

example : ∃ st, oneSample [1, 2] 0 = .ok st :=
  (oneSample_isOk_iff _ _).mpr (fun h => by
    have := h 1 (by simp) 2 (by simp); norm_num at this)

/-! ## T3: swap law -/

/-- Swapping the two samples of the pooled test negates the numerator of T (hence T) and
keeps `den2` and the degrees of freedom. -/
theorem pooled_swap (x1 x2 : List Rat) (st : Stat) (h : pooled x1 x2 = .ok st) :
    pooled x2 x1 = .ok { st with n1 := st.n2, n2 := st.n1, num := -st.num } := by
  rw [pooled_eq] at h ⊢
  split_ifs at h with h1 h2
  rw [if_neg (by tauto), if_neg (by tauto)]
  simp only [Except.ok.injEq] at h
  subst h
  simp only [Except.ok.injEq, Stat.mk.injEq]
  refine ⟨trivial, trivial, by ring, by ring, by ring⟩

example : pooled [2, 4, 9] [1, 2, 3, 4] = .ok ⟨3, 4, 5 / 2, 217 / 60, 5⟩ := by
  have := pooled_swap _ _ _ pooled_ex
  norm_num at this
  exact this

/-- Swapping the two samples of Welch's test negates the numerator of T (hence T) and
keeps `den2` and the Welch–Satterthwaite degrees of freedom. -/
theorem welch_swap (x1 x2 : List Rat) (st : Stat) (h : welch x1 x2 = .ok st) :
    welch x2 x1 = .ok { st with n1 := st.n2, n2 := st.n1, num := -st.num } := by
  rw [welch_eq] at h ⊢
  split_ifs at h with h1 h2
  rw [if_neg (by tauto), if_neg (by tauto)]
  simp only [Except.ok.injEq] at h
  subst h
  simp only [Except.ok.injEq, Stat.mk.injEq]
  refine ⟨trivial, trivial, by ring, by ring, ?_⟩
  rw [add_comm (variance x2 / _), add_comm (_ ^ 2 / _)]

example : welch [2, 4, 9] [1, 2, 3, 4] = .ok ⟨3, 4, 5 / 2, 19 / 4, 9747 / 4081⟩ := by
  have := welch_swap _ _ _ welch_ex
  norm_num at this
  exact this

/-- the statistic after swapping the samples -/
def Stat.swap (st : Stat) : Stat := { st with n1 := st.n2, n2 := st.n1, num := -st.num }

/-- the t statistic as a real number, `num / √den2` -/
noncomputable def Stat.T (st : Stat) : ℝ := (st.num : ℝ) / Real.sqrt (st.den2 : ℝ)

/-- one-sided p-value, alternative "less": `F_ν(T)` -/
noncomputable def pLess (F : ℚ → ℝ → ℝ) (st : Stat) : ℝ := F st.dof st.T
/-- one-sided p-value, alternative "greater": `1 − F_ν(T)` -/
noncomputable def pGreater (F : ℚ → ℝ → ℝ) (st : Stat) : ℝ := 1 - F st.dof st.T
/-- two-sided p-value: `2 (1 − F_ν(|T|))` -/
noncomputable def pDiffers (F : ℚ → ℝ → ℝ) (st : Stat) : ℝ := 2 * (1 - F st.dof |st.T|)

/-- The model's representation is faithful: when `den2 > 0`, the real statistic
`T = num/√den2` satisfies `T² = num²/den2` and has the sign of `num`. -/
theorem T_sq_sign (st : Stat) (hd : 0 < st.den2) :
    st.T ^ 2 = ((st.num ^ 2 / st.den2 : ℚ) : ℝ) ∧
      SignType.sign st.T = SignType.sign (st.num : ℝ) := by
  have hd' : (0 : ℝ) < (st.den2 : ℝ) := by exact_mod_cast hd
  have hs : 0 < Real.sqrt (st.den2 : ℝ) := Real.sqrt_pos.mpr hd'
  constructor
  · unfold Stat.T
    rw [div_pow, Real.sq_sqrt hd'.le]; push_cast; ring
  · unfold Stat.T
    rcases lt_trichotomy (st.num : ℝ) 0 with h | h | h
    · rw [sign_neg h, sign_neg (div_neg_of_neg_of_pos h hs)]
    · rw [h]; simp
    · rw [sign_pos h, sign_pos (div_pos h hs)]

example : (Stat.mk 4 3 (-5 / 2) (217 / 60) 5).T ^ 2 = (((-5 / 2) ^ 2 / (217 / 60) : ℚ) : ℝ) :=
  (T_sq_sign _ (by norm_num)).1

/-- Swapping the samples negates T; hence for any CDF family `F` that is symmetric,
`F ν (−t) = 1 − F ν t`, the two one-sided p-values are exchanged and the two-sided p-value
is unchanged. -/
theorem pvalue_swap (F : ℚ → ℝ → ℝ) (hF : ∀ ν t, F ν (-t) = 1 - F ν t) (st : Stat) :
    st.swap.T = -st.T ∧
      pLess F st.swap = pGreater F st ∧
      pGreater F st.swap = pLess F st ∧
      pDiffers F st.swap = pDiffers F st := by
  have hT : st.swap.T = -st.T := by
    unfold Stat.T Stat.swap; push_cast; ring
  refine ⟨hT, ?_, ?_, ?_⟩
  · unfold pLess pGreater; rw [hT, hF]; rfl
  · unfold pLess pGreater; rw [hT, hF]; simp [Stat.swap]
  · unfold pDiffers; rw [hT, abs_neg]; rfl

/-- a concrete symmetric "CDF" used for the non-vacuity examples -/
noncomputable def exF : ℚ → ℝ → ℝ := fun _ t => 1 / 2 + t / (2 * (1 + |t|))

lemma exF_symm : ∀ ν t, exF ν (-t) = 1 - exF ν t := by
  intro ν t; simp only [exF, abs_neg]; ring

example : pLess exF (Stat.mk 4 3 (-5 / 2) (217 / 60) 5).swap
    = pGreater exF (Stat.mk 4 3 (-5 / 2) (217 / 60) 5) :=
  (pvalue_swap exF exF_symm _).2.1

/-- Swap law for the pooled test at the level of p-values. -/
theorem pooled_pvalue_swap (F : ℚ → ℝ → ℝ) (hF : ∀ ν t, F ν (-t) = 1 - F ν t)
    (x1 x2 : List Rat) (st : Stat) (h : pooled x1 x2 = .ok st) :
    ∃ st', pooled x2 x1 = .ok st' ∧ st'.T = -st.T ∧ pLess F st' = pGreater F st ∧
      pGreater F st' = pLess F st ∧ pDiffers F st' = pDiffers F st :=
  ⟨st.swap, pooled_swap x1 x2 st h, pvalue_swap F hF st⟩

example : ∃ st', pooled [2, 4, 9] [1, 2, 3, 4] = .ok st' ∧
    st'.T = -(Stat.mk 4 3 (-5 / 2) (217 / 60) 5).T ∧
    pLess exF st' = pGreater exF ⟨4, 3, -5 / 2, 217 / 60, 5⟩ ∧
    pGreater exF st' = pLess exF ⟨4, 3, -5 / 2, 217 / 60, 5⟩ ∧
    pDiffers exF st' = pDiffers exF ⟨4, 3, -5 / 2, 217 / 60, 5⟩ :=
  pooled_pvalue_swap exF exF_symm _ _ _ pooled_ex

/-- Swap law for Welch's test at the level of p-values. -/
theorem welch_pvalue_swap (F : ℚ → ℝ → ℝ) (hF : ∀ ν t, F ν (-t) = 1 - F ν t)
    (x1 x2 : List Rat) (st : Stat) (h : welch x1 x2 = .ok st) :
    ∃ st', welch x2 x1 = .ok st' ∧ st'.T = -st.T ∧ pLess F st' = pGreater F st ∧
      pGreater F st' = pLess F st ∧ pDiffers F st' = pDiffers F st :=
  ⟨st.swap, welch_swap x1 x2 st h, pvalue_swap F hF st⟩

example : ∃ st', welch [2, 4, 9] [1, 2, 3, 4] = .ok st' ∧
    st'.T = -(Stat.mk 4 3 (-5 / 2) (19 / 4) (9747 / 4081)).T ∧
    pLess exF st' = pGreater exF ⟨4, 3, -5 / 2, 19 / 4, 9747 / 4081⟩ ∧
    pGreater exF st' = pLess exF ⟨4, 3, -5 / 2, 19 / 4, 9747 / 4081⟩ ∧
    pDiffers exF st' = pDiffers exF ⟨4, 3, -5 / 2, 19 / 4, 9747 / 4081⟩ :=
  welch_pvalue_swap exF exF_symm _ _ _ welch_ex

/-! ## T4: affine invariance -/

lemma sum_map_affine (k c : Rat) (xs : List Rat) :
    sum (xs.map fun x => k * x + c) = k * sum xs + (xs.length : Rat) * c := by
  induction xs with
  | nil => simp
  | cons x xs ih =>
    simp only [List.map_cons, sum_cons, ih, List.length_cons]; push_cast; ring

lemma meanSpec_map_affine (k c : Rat) (xs : List Rat) (h : xs ≠ []) :
    meanSpec (xs.map fun x => k * x + c) = k * meanSpec xs + c := by
  have hn : (xs.length : Rat) ≠ 0 := by
    have : xs.length ≠ 0 := by simpa using h
    exact_mod_cast this
  unfold meanSpec
  rw [sum_map_affine, List.length_map]
  field_simp

lemma meanSpec_map_mul (k : Rat) (xs : List Rat) :
    meanSpec (xs.map fun x => k * x) = k * meanSpec xs := by
  have := sum_map_affine k 0 xs
  simp only [add_zero, mul_zero] at this
  unfold meanSpec
  rw [this, List.length_map]; ring

lemma sum_map_mul_left (a : Rat) (g : Rat → Rat) (xs : List Rat) :
    sum (xs.map fun x => a * g x) = a * sum (xs.map g) := by
  induction xs with
  | nil => simp
  | cons x xs ih => simp only [List.map_cons, sum_cons, ih]; ring

lemma varSpec_map_affine (k c : Rat) (xs : List Rat) :
    varSpec (xs.map fun x => k * x + c) = k ^ 2 * varSpec xs := by
  by_cases h : xs = []
  · subst h; simp [varSpec]
  · unfold varSpec
    simp only [meanSpec_map_affine k c xs h, List.map_map, List.length_map]
    have : ((fun x => (x - (k * meanSpec xs + c)) * (x - (k * meanSpec xs + c))) ∘
        fun x => k * x + c) = fun x => k ^ 2 * ((x - meanSpec xs) * (x - meanSpec xs)) := by
      funext x; simp only [Function.comp]; ring
    rw [this, sum_map_mul_left]; ring

lemma variance_map_affine (k c : Rat) (xs : List Rat) :
    variance (xs.map fun x => k * x + c) = k ^ 2 * variance xs := by
  unfold variance
  rw [List.length_map]
  split_ifs
  · simp
  · exact varSpec_map_affine k c xs

lemma mean_map_affine (k c : Rat) (xs : List Rat) (h : xs ≠ []) :
    mean (xs.map fun x => k * x + c) = k * mean xs + c := meanSpec_map_affine k c xs h

lemma diffs_map_affine (k c : Rat) (x1 x2 : List Rat) :
    diffs (x1.map fun x => k * x + c) (x2.map fun x => k * x + c)
      = (diffs x1 x2).map fun d => k * d + 0 := by
  unfold diffs
  rw [List.zip_map, List.map_map, List.map_map]
  apply List.map_congr_left
  rintro ⟨a, b⟩ _
  simp only [Function.comp, Prod.map]; ring

/-- the statistic after the data are rescaled by `k` (and shifted) -/
def Stat.scale (k : Rat) (st : Stat) : Stat :=
  { st with num := k * st.num, den2 := k ^ 2 * st.den2 }

lemma sq_mul_eq_zero_iff (k v : Rat) (hk : k ≠ 0) : k ^ 2 * v = 0 ↔ v = 0 := by
  simp [hk]

lemma welch_dof_scale (k a b p q : ℚ) (hk : k ≠ 0) :
    (k ^ 2 * a + k ^ 2 * b) ^ 2 / ((k ^ 2 * a) ^ 2 / p + (k ^ 2 * b) ^ 2 / q)
      = (a + b) ^ 2 / (a ^ 2 / p + b ^ 2 / q) := by
  rw [show (k ^ 2 * a + k ^ 2 * b) ^ 2 = k ^ 4 * (a + b) ^ 2 by ring,
    show (k ^ 2 * a) ^ 2 / p + (k ^ 2 * b) ^ 2 / q = k ^ 4 * (a ^ 2 / p + b ^ 2 / q) by ring,
    mul_div_mul_left _ _ (pow_ne_zero 4 hk)]

/-- Welch's test under the affine map `x ↦ k x + c` (k ≠ 0) applied to both samples:
same DoF, `num` multiplied by `k`, `den2` by `k²`. -/
theorem welch_affine (k c : Rat) (hk : k ≠ 0) (x1 x2 : List Rat) (st : Stat)
    (h : welch x1 x2 = .ok st) :
    welch (x1.map fun x => k * x + c) (x2.map fun x => k * x + c) = .ok (st.scale k) := by
  rw [welch_eq] at h ⊢
  split_ifs at h with h1 h2
  have hx1 : x1 ≠ [] := by rintro rfl; simp at h1
  have hx2 : x2 ≠ [] := by rintro rfl; simp at h1
  simp only [List.length_map, variance_map_affine, mean_map_affine k c _ hx1,
    mean_map_affine k c _ hx2, sq_mul_eq_zero_iff _ _ hk]
  rw [if_neg h1, if_neg h2]
  simp only [Except.ok.injEq] at h
  subst h
  simp only [Stat.scale, Except.ok.injEq, Stat.mk.injEq]
  refine ⟨trivial, trivial, by ring, by ring, ?_⟩
  rw [← welch_dof_scale k (variance x1 / (x1.length : ℚ)) (variance x2 / (x2.length : ℚ))
    ((x1.length : ℚ) - 1) ((x2.length : ℚ) - 1) hk]
  congr 1 <;> ring

/-- Celsius → Fahrenheit -/
example : welch ([1, 2, 3, 4].map fun x => 9 / 5 * x + 32) ([2, 4, 9].map fun x => 9 / 5 * x + 32)
    = .ok (Stat.scale (9 / 5) ⟨4, 3, -5 / 2, 19 / 4, 9747 / 4081⟩) :=
  welch_affine (9 / 5) 32 (by norm_num) _ _ _ welch_ex

/-- The pooled test under the affine map `x ↦ k x + c` (k ≠ 0) applied to both samples:
same DoF, `num` multiplied by `k`, `den2` by `k²`. -/
theorem pooled_affine (k c : Rat) (hk : k ≠ 0) (x1 x2 : List Rat) (st : Stat)
    (h : pooled x1 x2 = .ok st) :
    pooled (x1.map fun x => k * x + c) (x2.map fun x => k * x + c) = .ok (st.scale k) := by
  rw [pooled_eq] at h ⊢
  split_ifs at h with h1 h2
  have hx1 : x1 ≠ [] := by tauto
  have hx2 : x2 ≠ [] := by tauto
  simp only [List.length_map, variance_map_affine, mean_map_affine k c _ hx1,
    mean_map_affine k c _ hx2, sq_mul_eq_zero_iff _ _ hk, List.map_eq_nil_iff]
  rw [if_neg h1, if_neg h2]
  simp only [Except.ok.injEq] at h
  subst h
  simp only [Stat.scale, Except.ok.injEq, Stat.mk.injEq]
  refine ⟨trivial, trivial, by ring, by ring, trivial⟩

example : pooled ([1, 2, 3, 4].map fun x => 9 / 5 * x + 32) ([2, 4, 9].map fun x => 9 / 5 * x + 32)
    = .ok (Stat.scale (9 / 5) ⟨4, 3, -5 / 2, 217 / 60, 5⟩) :=
  pooled_affine (9 / 5) 32 (by norm_num) _ _ _ pooled_ex

/-- The paired test under `x ↦ k x + c` (k ≠ 0) on both samples with `μ0 ↦ k μ0` (the shift
cancels in the differences): same DoF, `num` multiplied by `k`, `den2` by `k²`. -/
theorem paired_affine (k c : Rat) (hk : k ≠ 0) (x1 x2 : List Rat) (mu0 : Rat) (st : Stat)
    (h : paired x1 x2 mu0 = .ok st) :
    paired (x1.map fun x => k * x + c) (x2.map fun x => k * x + c) (k * mu0)
      = .ok (st.scale k) := by
  rw [paired_eq] at h ⊢
  split_ifs at h with h0 h1 h2
  have hd : diffs x1 x2 ≠ [] := by
    intro hd
    have := length_diffs x1 x2 (by omega)
    rw [hd] at this; simp at this; omega
  simp only [List.length_map, diffs_map_affine, variance_map_affine, mean_map_affine k 0 _ hd,
    sq_mul_eq_zero_iff _ _ hk]
  rw [if_neg h0, if_neg h1, if_neg h2]
  simp only [Except.ok.injEq] at h
  subst h
  simp only [Stat.scale, Except.ok.injEq, Stat.mk.injEq]
  refine ⟨trivial, trivial, by ring, by ring, trivial⟩

example : paired ([1, 2, 3, 4].map fun x => 9 / 5 * x + 32)
    ([2, 4, 9, 3].map fun x => 9 / 5 * x + 32) (9 / 5 * (1 / 2))
    = .ok (Stat.scale (9 / 5) ⟨4, 4, -5 / 2, 13 / 6, 3⟩) :=
  paired_affine (9 / 5) 32 (by norm_num) _ _ _ _ paired_ex

/-- The one-sample test under `x ↦ k x + c` (k ≠ 0) with `μ0 ↦ k μ0 + c`: same DoF, `num`
multiplied by `k`, `den2` by `k²`. -/
theorem oneSample_affine (k c : Rat) (hk : k ≠ 0) (x : List Rat) (mu0 : Rat) (st : Stat)
    (h : oneSample x mu0 = .ok st) :
    oneSample (x.map fun x => k * x + c) (k * mu0 + c) = .ok (st.scale k) := by
  rw [oneSample_eq] at h ⊢
  split_ifs at h with h1 h2
  simp only [List.length_map, variance_map_affine, mean_map_affine k c _ h1,
    sq_mul_eq_zero_iff _ _ hk, List.map_eq_nil_iff]
  rw [if_neg h1, if_neg h2]
  simp only [Except.ok.injEq] at h
  subst h
  simp only [Stat.scale, Except.ok.injEq, Stat.mk.injEq]
  refine ⟨trivial, trivial, by ring, by ring, trivial⟩

example : oneSample ([1, 2, 3, 4].map fun x => 9 / 5 * x + 32) (9 / 5 * 2 + 32)
    = .ok (Stat.scale (9 / 5) ⟨4, 0, 1 / 2, 5 / 12, 3⟩) :=
  oneSample_affine (9 / 5) 32 (by norm_num) _ _ _ oneSample_ex

/-- Consequence of the affine laws: for `k > 0` the rescaled statistic has the same DoF, the
same `T² = num²/den2`, the same sign of `num`, and the same real `T = num/√den2` — the
t statistic is invariant under a common positive affine change of units. -/
theorem scale_T_invariant (k : Rat) (hk : 0 < k) (st : Stat) :
    (st.scale k).dof = st.dof ∧
      (st.scale k).num ^ 2 / (st.scale k).den2 = st.num ^ 2 / st.den2 ∧
      SignType.sign (st.scale k).num = SignType.sign st.num ∧
      (st.scale k).T = st.T := by
  have hk2 : k ^ 2 ≠ 0 := pow_ne_zero 2 hk.ne'
  refine ⟨rfl, ?_, ?_, ?_⟩
  · simp only [Stat.scale]
    rw [mul_pow, mul_div_mul_left _ _ hk2]
  · simp only [Stat.scale]
    rw [sign_mul, sign_pos hk, one_mul]
  · have hkR : (0 : ℝ) < (k : ℝ) := by exact_mod_cast hk
    simp only [Stat.T, Stat.scale]
    push_cast
    rw [Real.sqrt_mul (by positivity), Real.sqrt_sq hkR.le, mul_div_mul_left _ _ hkR.ne']

example : (Stat.scale (9 / 5) ⟨4, 3, -5 / 2, 19 / 4, 9747 / 4081⟩).T
    = (Stat.mk 4 3 (-5 / 2) (19 / 4) (9747 / 4081)).T :=
  (scale_T_invariant (9 / 5) (by norm_num) _).2.2.2

/-- Welch's test is invariant under a common positive affine change of units
`x ↦ k x + c`, `k > 0`: the result has the same DoF, `num' = k·num`, `den2' = k²·den2`,
hence the same `T² = num²/den2`, the same sign of `num` and the same real `T`. -/
theorem welch_affine_T (k c : Rat) (hk : 0 < k) (x1 x2 : List Rat) (st : Stat)
    (h : welch x1 x2 = .ok st) :
    ∃ st', welch (x1.map fun x => k * x + c) (x2.map fun x => k * x + c) = .ok st' ∧
      st'.dof = st.dof ∧ st'.num = k * st.num ∧ st'.den2 = k ^ 2 * st.den2 ∧
      st'.num ^ 2 / st'.den2 = st.num ^ 2 / st.den2 ∧
      SignType.sign st'.num = SignType.sign st.num ∧ st'.T = st.T :=
  ⟨st.scale k, welch_affine k c hk.ne' x1 x2 st h, rfl, rfl, rfl, (scale_T_invariant k hk st).2⟩

example : ∃ st', welch ([1, 2, 3, 4].map fun x => 9 / 5 * x + 32)
      ([2, 4, 9].map fun x => 9 / 5 * x + 32) = .ok st' ∧
    st'.dof = 9747 / 4081 ∧ st'.num = 9 / 5 * (-5 / 2) ∧ st'.den2 = (9 / 5) ^ 2 * (19 / 4) ∧
    st'.num ^ 2 / st'.den2 = (-5 / 2) ^ 2 / (19 / 4) ∧
    SignType.sign st'.num = SignType.sign (-5 / 2 : ℚ) ∧
    st'.T = (Stat.mk 4 3 (-5 / 2) (19 / 4) (9747 / 4081)).T :=
  welch_affine_T (9 / 5) 32 (by norm_num) _ _ _ welch_ex

/-- The pooled test is invariant under a common positive affine change of units. -/
theorem pooled_affine_T (k c : Rat) (hk : 0 < k) (x1 x2 : List Rat) (st : Stat)
    (h : pooled x1 x2 = .ok st) :
    ∃ st', pooled (x1.map fun x => k * x + c) (x2.map fun x => k * x + c) = .ok st' ∧
      st'.dof = st.dof ∧ st'.num = k * st.num ∧ st'.den2 = k ^ 2 * st.den2 ∧
      st'.num ^ 2 / st'.den2 = st.num ^ 2 / st.den2 ∧
      SignType.sign st'.num = SignType.sign st.num ∧ st'.T = st.T :=
  ⟨st.scale k, pooled_affine k c hk.ne' x1 x2 st h, rfl, rfl, rfl, (scale_T_invariant k hk st).2⟩

example : ∃ st', pooled ([1, 2, 3, 4].map fun x => 9 / 5 * x + 32)
      ([2, 4, 9].map fun x => 9 / 5 * x + 32) = .ok st' ∧
    st'.dof = 5 ∧ st'.num = 9 / 5 * (-5 / 2) ∧ st'.den2 = (9 / 5) ^ 2 * (217 / 60) ∧
    st'.num ^ 2 / st'.den2 = (-5 / 2) ^ 2 / (217 / 60) ∧
    SignType.sign st'.num = SignType.sign (-5 / 2 : ℚ) ∧
    st'.T = (Stat.mk 4 3 (-5 / 2) (217 / 60) 5).T :=
  pooled_affine_T (9 / 5) 32 (by norm_num) _ _ _ pooled_ex

/-- The paired test is invariant under a common positive affine change of units, with the
hypothesised mean difference rescaled `μ0 ↦ k μ0` (the shift cancels). -/
theorem paired_affine_T (k c : Rat) (hk : 0 < k) (x1 x2 : List Rat) (mu0 : Rat) (st : Stat)
    (h : paired x1 x2 mu0 = .ok st) :
    ∃ st', paired (x1.map fun x => k * x + c) (x2.map fun x => k * x + c) (k * mu0) = .ok st' ∧
      st'.dof = st.dof ∧ st'.num = k * st.num ∧ st'.den2 = k ^ 2 * st.den2 ∧
      st'.num ^ 2 / st'.den2 = st.num ^ 2 / st.den2 ∧
      SignType.sign st'.num = SignType.sign st.num ∧ st'.T = st.T :=
  ⟨st.scale k, paired_affine k c hk.ne' x1 x2 mu0 st h, rfl, rfl, rfl,
    (scale_T_invariant k hk st).2⟩

example : ∃ st', paired ([1, 2, 3, 4].map fun x => 9 / 5 * x + 32)
      ([2, 4, 9, 3].map fun x => 9 / 5 * x + 32) (9 / 5 * (1 / 2)) = .ok st' ∧
    st'.dof = 3 ∧ st'.num = 9 / 5 * (-5 / 2) ∧ st'.den2 = (9 / 5) ^ 2 * (13 / 6) ∧
    st'.num ^ 2 / st'.den2 = (-5 / 2) ^ 2 / (13 / 6) ∧
    SignType.sign st'.num = SignType.sign (-5 / 2 : ℚ) ∧
    st'.T = (Stat.mk 4 4 (-5 / 2) (13 / 6) 3).T :=
  paired_affine_T (9 / 5) 32 (by norm_num) _ _ _ _ paired_ex

/-- The one-sample test is invariant under a positive affine change of units, with the
hypothesised mean mapped along, `μ0 ↦ k μ0 + c`. -/
theorem oneSample_affine_T (k c : Rat) (hk : 0 < k) (x : List Rat) (mu0 : Rat) (st : Stat)
    (h : oneSample x mu0 = .ok st) :
    ∃ st', oneSample (x.map fun x => k * x + c) (k * mu0 + c) = .ok st' ∧
      st'.dof = st.dof ∧ st'.num = k * st.num ∧ st'.den2 = k ^ 2 * st.den2 ∧
      st'.num ^ 2 / st'.den2 = st.num ^ 2 / st.den2 ∧
      SignType.sign st'.num = SignType.sign st.num ∧ st'.T = st.T :=
  ⟨st.scale k, oneSample_affine k c hk.ne' x mu0 st h, rfl, rfl, rfl,
    (scale_T_invariant k hk st).2⟩

example : ∃ st', oneSample ([1, 2, 3, 4].map fun x => 9 / 5 * x + 32) (9 / 5 * 2 + 32) = .ok st' ∧
    st'.dof = 3 ∧ st'.num = 9 / 5 * (1 / 2) ∧ st'.den2 = (9 / 5) ^ 2 * (5 / 12) ∧
    st'.num ^ 2 / st'.den2 = (1 / 2) ^ 2 / (5 / 12) ∧
    SignType.sign st'.num = SignType.sign (1 / 2 : ℚ) ∧
    st'.T = (Stat.mk 4 0 (1 / 2) (5 / 12) 3).T :=
  oneSample_affine_T (9 / 5) 32 (by norm_num) _ _ _ oneSample_ex

/-! ## T5: positivity -/

lemma pooled_core_pos (n1 n2 v1 v2 : ℚ) (hn1 : 1 ≤ n1) (hn2 : 1 ≤ n2) (hv1 : 0 ≤ v1)
    (hv2 : 0 ≤ v2) (h1 : v1 ≠ 0 → 2 ≤ n1) (h2 : v2 ≠ 0 → 2 ≤ n2) (hne : ¬ (v1 = 0 ∧ v2 = 0)) :
    0 < ((n1 - 1) * v1 + (n2 - 1) * v2) / (n1 + n2 - 2) * (1 / n1 + 1 / n2) ∧
      0 < n1 + n2 - 2 := by
  have hp1 : 0 < n1 := by linarith
  have hp2 : 0 < n2 := by linarith
  have hr : 0 < 1 / n1 + 1 / n2 := by positivity
  have key : 0 < (n1 - 1) * v1 + (n2 - 1) * v2 ∧ 0 < n1 + n2 - 2 := by
    by_cases hz : v1 = 0
    · have hz2 : v2 ≠ 0 := fun h => hne ⟨hz, h⟩
      have := h2 hz2
      have hv2' : 0 < v2 := lt_of_le_of_ne hv2 (Ne.symm hz2)
      refine ⟨?_, by linarith⟩
      have : 0 < (n2 - 1) * v2 := mul_pos (by linarith) hv2'
      rw [hz]; linarith
    · have := h1 hz
      have hv1' : 0 < v1 := lt_of_le_of_ne hv1 (Ne.symm hz)
      refine ⟨?_, by linarith⟩
      have : 0 < (n1 - 1) * v1 := mul_pos (by linarith) hv1'
      have : 0 ≤ (n2 - 1) * v2 := mul_nonneg (by linarith) hv2
      linarith
  exact ⟨mul_pos (div_pos key.1 key.2) hr, key.2⟩

lemma length_cast_ge_one (xs : List Rat) (h : xs ≠ []) : (1 : ℚ) ≤ (xs.length : ℚ) := by
  have : 1 ≤ xs.length := by
    cases xs with
    | nil => exact absurd rfl h
    | cons => simp
  exact_mod_cast this

/-- In every successful pooled result `den2 > 0` (T is well defined) and `dof > 0`. -/
theorem pooled_pos (x1 x2 : List Rat) (st : Stat) (h : pooled x1 x2 = .ok st) :
    0 < st.den2 ∧ 0 < st.dof := by
  rw [pooled_eq] at h
  split_ifs at h with h1 h2
  simp only [Except.ok.injEq] at h
  subst h
  have h1 := not_or.mp h1
  exact pooled_core_pos _ _ _ _ (length_cast_ge_one _ h1.1) (length_cast_ge_one _ h1.2)
    (variance_nonneg _) (variance_nonneg _)
    (fun hv => by exact_mod_cast two_le_of_variance_ne_zero _ hv)
    (fun hv => by exact_mod_cast two_le_of_variance_ne_zero _ hv) h2

example : (0 : ℚ) < 217 / 60 ∧ (0 : ℚ) < 5 := pooled_pos _ _ _ pooled_ex

/-- In every successful Welch result `den2 > 0` and the Welch–Satterthwaite `dof > 0`. -/
theorem welch_pos (x1 x2 : List Rat) (st : Stat) (h : welch x1 x2 = .ok st) :
    0 < st.den2 ∧ 0 < st.dof := by
  rw [welch_eq] at h
  split_ifs at h with h1 h2
  simp only [Except.ok.injEq] at h
  subst h
  have hn1 : (2 : ℚ) ≤ (x1.length : ℚ) := by exact_mod_cast (by omega : 2 ≤ x1.length)
  have hn2 : (2 : ℚ) ≤ (x2.length : ℚ) := by exact_mod_cast (by omega : 2 ≤ x2.length)
  have hp1 : (0 : ℚ) < (x1.length : ℚ) := by linarith
  have hp2 : (0 : ℚ) < (x2.length : ℚ) := by linarith
  have hq1 : (0 : ℚ) < (x1.length : ℚ) - 1 := by linarith
  have hq2 : (0 : ℚ) < (x2.length : ℚ) - 1 := by linarith
  have ha : 0 ≤ variance x1 / (x1.length : ℚ) := div_nonneg (variance_nonneg _) hp1.le
  have hb : 0 ≤ variance x2 / (x2.length : ℚ) := div_nonneg (variance_nonneg _) hp2.le
  have hA : 0 ≤ (variance x1 / (x1.length : ℚ)) ^ 2 / ((x1.length : ℚ) - 1) :=
    div_nonneg (sq_nonneg _) hq1.le
  have hB : 0 ≤ (variance x2 / (x2.length : ℚ)) ^ 2 / ((x2.length : ℚ) - 1) :=
    div_nonneg (sq_nonneg _) hq2.le
  have key : 0 < variance x1 / (x1.length : ℚ) + variance x2 / (x2.length : ℚ) ∧
      0 < (variance x1 / (x1.length : ℚ)) ^ 2 / ((x1.length : ℚ) - 1)
        + (variance x2 / (x2.length : ℚ)) ^ 2 / ((x2.length : ℚ) - 1) := by
    by_cases hz : variance x1 = 0
    · have hz2 : variance x2 ≠ 0 := fun h => h2 ⟨hz, h⟩
      have hb' : 0 < variance x2 / (x2.length : ℚ) := div_pos (variance_pos_of_ne _ hz2) hp2
      have hB' : 0 < (variance x2 / (x2.length : ℚ)) ^ 2 / ((x2.length : ℚ) - 1) :=
        div_pos (pow_pos hb' 2) hq2
      exact ⟨by linarith, by linarith⟩
    · have ha' : 0 < variance x1 / (x1.length : ℚ) := div_pos (variance_pos_of_ne _ hz) hp1
      have hA' : 0 < (variance x1 / (x1.length : ℚ)) ^ 2 / ((x1.length : ℚ) - 1) :=
        div_pos (pow_pos ha' 2) hq1
      exact ⟨by linarith, by linarith⟩
  exact ⟨key.1, div_pos (pow_pos key.1 2) key.2⟩

example : (0 : ℚ) < 19 / 4 ∧ (0 : ℚ) < 9747 / 4081 := welch_pos _ _ _ welch_ex

/-- In every successful paired result `den2 > 0` and `dof > 0`. -/
theorem paired_pos (x1 x2 : List Rat) (mu0 : Rat) (st : Stat) (h : paired x1 x2 mu0 = .ok st) :
    0 < st.den2 ∧ 0 < st.dof := by
  rw [paired_eq] at h
  split_ifs at h with h0 h1 h2
  simp only [Except.ok.injEq] at h
  subst h
  have hn1 : (2 : ℚ) ≤ (x1.length : ℚ) := by exact_mod_cast (by omega : 2 ≤ x1.length)
  exact ⟨div_pos (variance_pos_of_ne _ h2) (by linarith), by simp only []; linarith⟩

example : (0 : ℚ) < 13 / 6 ∧ (0 : ℚ) < 3 := paired_pos _ _ _ _ paired_ex

/-- In every successful one-sample result `den2 > 0` and `dof > 0`. -/
theorem oneSample_pos (x : List Rat) (mu0 : Rat) (st : Stat) (h : oneSample x mu0 = .ok st) :
    0 < st.den2 ∧ 0 < st.dof := by
  rw [oneSample_eq] at h
  split_ifs at h with h1 h2
  simp only [Except.ok.injEq] at h
  subst h
  have hn1 : (2 : ℚ) ≤ (x.length : ℚ) := by exact_mod_cast two_le_of_variance_ne_zero _ h2
  exact ⟨div_pos (variance_pos_of_ne _ h2) (by linarith), by simp only []; linarith⟩

example : (0 : ℚ) < 5 / 12 ∧ (0 : ℚ) < 3 := oneSample_pos _ _ _ oneSample_ex

/-- In every `.ok` result of any of the four tests, `0 < den2`, so `T = num/√den2` is well
defined; and Welch's degrees of freedom are positive. -/
theorem den2_pos (st : Stat) :
    (∀ x1 x2, pooled x1 x2 = .ok st → 0 < st.den2) ∧
    (∀ x1 x2, welch x1 x2 = .ok st → 0 < st.den2 ∧ 0 < st.dof) ∧
    (∀ x1 x2 mu0, paired x1 x2 mu0 = .ok st → 0 < st.den2) ∧
    (∀ x mu0, oneSample x mu0 = .ok st → 0 < st.den2) :=
  ⟨fun x1 x2 h => (pooled_pos x1 x2 st h).1, fun x1 x2 h => welch_pos x1 x2 st h,
   fun x1 x2 mu0 h => (paired_pos x1 x2 mu0 st h).1, fun x mu0 h => (oneSample_pos x mu0 st h).1⟩

example : (0 : ℚ) < 19 / 4 ∧ (0 : ℚ) < 9747 / 4081 :=
  (den2_pos ⟨4, 3, -5 / 2, 19 / 4, 9747 / 4081⟩).2.1 _ _ welch_ex

end MV.TTest
