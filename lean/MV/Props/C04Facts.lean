import MV.Props.FactsLib
/-! Structural facts C04 relies on, re-extracted from /repo on every run. -/
namespace MV.Facts

/-- State that outlives a call, as extracted from the source on this run: the package-level
variables of the packages this property's code lives in, the functions (other than `init`) that
assign to them or call methods on them, and the fields of the property's struct types. The model is
a pure function of the arguments and of these fields; a new variable, writer or field is state the
model does not know of. -/
def stateC04 : List (String × String) := [("globals:stats", "ErrMismatchedSamples ErrSampleSize ErrSamplesEqual ErrZeroVariance MannWhitneyExactLimit MannWhitneyTiesExactLimit StdNormal _KDEBoundaryMethod_index _KDEKernel_index _LocationHypothesis_index inf nan quantileCIApproxThreshold"), ("globals:mathx", "nan smallFact"), ("globalwrites:stats", "MannWhitneyUTest:StdNormal.CDF"), ("globalwrites:mathx", ""), ("fields:stats.TTestResult", "N1:int N2:int T:float64 DoF:float64 AltHypothesis:LocationHypothesis P:float64"), ("fields:stats.TDist", "V:float64"), ("fields:stats.Sample", "Xs:[]float64 Weights:[]float64 Sorted:bool"), ("funcs:stats", "n=117 fnv64a=80a50d6f629bd21b"), ("funcs:mathx", "n=13 fnv64a=721c592b642cc9ba")]

/-- the source has exactly the package-level variables, writers and struct fields the model accounts for -/
theorem state_C04 : holdsAll stateC04 = true := by decide +kernel

end MV.Facts
