import MV.Props.FactsLib
/-! Structural facts C04 relies on, re-extracted from /repo on every run. -/
namespace MV.Facts

/-- State that outlives a call, as extracted from the source on this run: the package-level
variables of the packages this property's code lives in, the functions (other than `init`) that
assign to them or call methods on them, and the fields of the property's struct types. The model is
a pure function of the arguments and of these fields; a new variable, writer or field is state the
model does not know of. The digest-valued `shape:` entry covers everything the call graph
(resolved by go/types) reaches from the functions declared in the property's anchor files: per
function, method (with receiver kind), package variable and constant, its numeric literals, its comparison operators, the
package variables it reads and its writes through parameters or the receiver (including in-place
`sort.*`/`copy`/`append`). The entries behind the digest are in `shape_expected.txt` and in a
comment of the generated file. -/
def stateC04 : List (String × String) := [("globals:stats", "ErrMismatchedSamples ErrSampleSize ErrSamplesEqual ErrZeroVariance MannWhitneyExactLimit MannWhitneyTiesExactLimit StdNormal _KDEBoundaryMethod_index _KDEKernel_index _LocationHypothesis_index inf nan quantileCIApproxThreshold"), ("globals:mathx", "nan smallFact"), ("globalwrites:stats", "MannWhitneyUTest:StdNormal.CDF"), ("globalwrites:mathx", ""), ("fields:stats.TTestResult", "N1:int N2:int T:float64 DoF:float64 AltHypothesis:LocationHypothesis P:float64"), ("fields:stats.TDist", "V:float64"), ("fields:stats.Sample", "Xs:[]float64 Weights:[]float64 Sorted:bool"), ("shape:C04", "n=94 fnv64a=03b1e44961839fa4")]

/-- the source has exactly the package-level variables, writers and struct fields the model accounts for -/
theorem state_C04 : holdsAll stateC04 = true := by decide +kernel

end MV.Facts
