import MV.Props.FactsLib
/-! Source facts the C05 model relies on (checked against the facts regenerated from /repo on every run). -/
namespace MV.Facts

def expectedC05 : List (String × String) := [("stats.invSqrt2Pi", "0.39894228040143267793994605993438186847585863116493465766592583"), ("lits:stats.NormalDist.Bounds", "3"), ("lits:stats.TDist.Bounds", "4 4")]

/-- the constants and literals the C05 model mirrors are still what the source says -/
theorem facts_C05 : holdsAll expectedC05 = true := by decide

end MV.Facts
